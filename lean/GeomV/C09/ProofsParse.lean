import GeomV.C09.ProofsInit2
/-!
C09: `projString.go` / `deriveConstants.go` against `lib/projString.js` / `lib/deriveConstants.js`.

Go side: REGENERATED (`Gen/GoParse.lean`, rewritten from the current source on every run):
`Gen.Go.projString_num/_str/_flag` (the simple cases of `switch paramName`: key ↦ Go field, degrees or
not), `Gen.Go.DeriveConstants_core1` (the arithmetic of `DeriveConstants` between the table lookups and
the axis default). The remaining code (five special cases, the loop frame, the two table lookups, the
axis default, the datum) is hand-modelled in `Model.lean`; the source text those models were written
from is pinned here (`*_pinned`): when it changes these theorems stop building (broken tie).
proj4js side: `Js.applyParam`, `Js.deriveCore` (written from the pinned 2.3.12 sources).
-/
open GeomV.C09 GeomV.C09.Gen.Go
namespace GeomV.C09
set_option linter.unusedSimpArgs false
set_option linter.unusedVariables false
set_option linter.unusedTactic false
set_option linter.unreachableTactic false
set_option maxRecDepth 8000

/-! ## the source text the hand-modelled parts were written from -/

/-- the case labels of `switch paramName` (a new or removed case is noticed) -/
theorem projString_keys_pinned : Gen.Go.projString_keys =
  ["proj", "title", "datum", "rf", "lat_0", "lat_1", "lat_2", "lat_ts", "lon_0", "lon_1", "lon_2", "alpha", "lonc", "x_0", "y_0", "k_0", "k", "a", "b", "ellps", "r_a", "zone", "south", "no_defs", "towgs84", "to_meter", "units", "from_greenwich", "pm", "nadgrids", "axis", "<default>"] := rfl

/-- the five cases of `switch paramName` that are not of a simple shape (`Model.applySpecial`) and the default -/
theorem projString_special_pinned : Gen.Go.projString_special =
  [("towgs84", "split := strings.Split(paramVal, \",\") ; self.DatumParams = make([]float64, len(split)) ; for i, s := range split { self.DatumParams[i], err = strconv.ParseFloat(s, 64) if err != nil { return nil, err } }"),
   ("units", "self.Units = paramVal ; if u, ok := units[paramVal]; ok { self.ToMeter = u.to_meter }"),
   ("pm", "if pm, ok := primeMeridian[paramVal]; ok { self.FromGreenwich = pm * deg2rad } else { self.FromGreenwich, err = strconv.ParseFloat(paramVal, 64) self.FromGreenwich *= deg2rad }"),
   ("nadgrids", "if paramVal == \"@null\" { self.DatumCode = \"none\" } else { self.NADGrids = paramVal }"),
   ("axis", "legalAxis := \"ewnsud\" ; if len(paramVal) == 3 && strings.Index(legalAxis, paramVal[0:1]) != -1 && strings.Index(legalAxis, paramVal[1:2]) != -1 && strings.Index(legalAxis, paramVal[2:3]) != -1 { self.Axis = paramVal }"),
   ("<default>", "err = fmt.Errorf(\"proj: invalid field '%s'\", paramName)")] := rfl

/-- the loop around the switch (`Model.projString`, `Model.paramNameOf/paramValOf`) -/
theorem projString_frame_pinned : Gen.Go.projString_frame =
  "func projString(defData string) (*SR, error) { self := NewSR() var err error for i, a := range strings.Split(defData, \"+\") { if i == 0 { continue } a = strings.TrimSpace(a) split := strings.Split(a, \"=\") split = append(split, \"true\") paramName := strings.ToLower(split[0]) paramVal := split[1] switch paramName { } if err != nil { return nil, err } } if self.DatumCode != \"WGS84\" { self.DatumCode = strings.ToLower(self.DatumCode) } return self, nil }" := rfl

/-- the top-level statements of `DeriveConstants`: table lookups (`Model.deriveTables`), ONE translated run
(`Gen.Go.DeriveConstants_core1`), axis default and datum (`Model.deriveTail`) -/
theorem DeriveConstants_shape_pinned : Gen.Go.DeriveConstants_shape =
  ["if json.DatumCode != \"\" && json.DatumCode != \"none\" { datumDef, ok := datumDefs[json.DatumCode] if ok { json.DatumParams = make([]float64, len(datumDef.towgs84)) for i, p := range datumDef.towgs84 { json.DatumParams[i] = p } json.Ellps = datumDef.ellipse if datumDef.datumName != \"\" { json.DatumName = datumDef.datumName } else { json.DatumName = json.DatumCode } } }",
   "if math.IsNaN(json.A) { ellipse, ok := ellipsoidDefs[json.Ellps] if !ok { ellipse = ellipsoidDefs[\"WGS84\"] } if ellipse.a != 0 { json.A = ellipse.a } if ellipse.b != 0 { json.B = ellipse.b } if ellipse.rf != 0 { json.Rf = ellipse.rf } json.EllipseName = ellipse.ellipseName }",
   "«DeriveConstants_core1»",
   "if json.Axis == \"\" { json.Axis = enu }",
   "if json.datum == nil { json.datum = json.getDatum() }"] := rfl

/-! ## DeriveConstants: the arithmetic -/

theorem optNaN_some' (v : ℝ) : optNaN (some v) = false := by
  unfold optNaN; rnum
theorem optNaN_none' : optNaN (none : Option ℝ) = true := rfl
theorem optNum_some' (v : ℝ) : optNum (some v) = v := rfl
theorem optNum_none' : optNum (none : Option ℝ) = 0 := rfl
theorem js_num_none : Js.num (none : Option ℝ) = 0 := rfl

/-- the same values in the Go fields and in the proj4js properties -/
structure CoreRel (d : DC ℝ) (j : Js.JC ℝ) : Prop where
  a : j.a = d.A
  b : j.b = d.B
  rf : j.rf = d.Rf
  k0 : j.k0 = d.K0
  ra : j.R_A = d.Ra
  sp : j.sphere = d.sphere
  a2 : j.a2 = d.A2
  b2 : j.b2 = d.B2
  es : j.es = d.Es
  e : j.e = d.E
  ep2 : j.ep2 = d.Ep2

theorem corerel_ite (c : Prop) [Decidable c] (d1 d2 : DC ℝ) (j1 j2 : Js.JC ℝ) (h1 : CoreRel d1 j1) (h2 : CoreRel d2 j2) :
    CoreRel (if c then d1 else d2) (if c then j1 else j2) := by
  by_cases h : c <;> simp only [h, if_true, if_false, ite_true, ite_false] <;> assumption

theorem core_s1 (d : DC ℝ) (j : Js.JC ℝ) (h : CoreRel d j) (nb : NZ d.B) (nrf : NZ d.Rf) :
    CoreRel (DeriveConstants_core1_s1 d) (Js.dc1 j) := by
  obtain ⟨A, A2, B, B2, E, Ep2, Es, K0, Ra, Rf, sp⟩ := d
  obtain ⟨a, b, rf, k0, ra, sph, a2, b2, es, e, ep2⟩ := j
  obtain ⟨h1, h2, h3, h4, h5, h6, h7, h8, h9, h10, h11⟩ := h
  simp only at h1 h2 h3 h4 h5 h6 h7 h8 h9 h10 h11
  subst h1 h2 h3 h4 h5 h6 h7 h8 h9 h10 h11
  unfold NZ at nb nrf
  rcases b with _ | b <;> rcases rf with _ | rf <;>
    simp only [DeriveConstants_core1_s1, Js.dc1, optNaN_some', optNaN_none', optNum_some', truthyO_some, truthyO_none, num_some,
      Bool.not_true, Bool.not_false, Bool.and_true, Bool.and_false, Bool.true_and, Bool.false_and, Bool.false_eq_true,
      if_false, if_true, ite_true, ite_false] <;>
    (try simp only [ne_eq, Option.some.injEq] at nb nrf) <;>
    (try simp only [nb, nrf, decide_false, Bool.not_false, Bool.not_true, Bool.false_eq_true, if_true, if_false, ite_true, ite_false]) <;>
    constructor <;> (try rfl) <;> (simp only [Js.num, optNum, Option.some.injEq]; rnum; norm_num)

theorem core_s2 (d : DC ℝ) (j : Js.JC ℝ) (h : CoreRel d j) : CoreRel (DeriveConstants_core1_s2 d) (Js.dc2 j) := by
  obtain ⟨A, A2, B, B2, E, Ep2, Es, K0, Ra, Rf, sp⟩ := d
  obtain ⟨a, b, rf, k0, ra, sph, a2, b2, es, e, ep2⟩ := j
  obtain ⟨h1, h2, h3, h4, h5, h6, h7, h8, h9, h10, h11⟩ := h
  simp only at h1 h2 h3 h4 h5 h6 h7 h8 h9 h10 h11
  subst h1 h2 h3 h4 h5 h6 h7 h8 h9 h10 h11
  have he : RNum.lt (RNum.abs (Js.num a - Js.num b)) (Js.EPSLN : ℝ) = RNum.lt (RNum.abs (optNum a - optNum b)) (0.0000000001 : ℝ) := by
    simp only [Js.num, optNum, Js.EPSLN]; rnum; norm_num
  cases rf <;> simp only [DeriveConstants_core1_s2, Js.dc2, optEq, he] <;>
    exact corerel_ite _ _ _ _ _ (by constructor <;> rfl) (by constructor <;> rfl)

theorem core_s3 (d : DC ℝ) (j : Js.JC ℝ) (h : CoreRel d j) : CoreRel (DeriveConstants_core1_s3 d) (Js.dc3 j) := by
  obtain ⟨A, A2, B, B2, E, Ep2, Es, K0, Ra, Rf, sp⟩ := d
  obtain ⟨a, b, rf, k0, ra, sph, a2, b2, es, e, ep2⟩ := j
  obtain ⟨h1, h2, h3, h4, h5, h6, h7, h8, h9, h10, h11⟩ := h
  simp only at h1 h2 h3 h4 h5 h6 h7 h8 h9 h10 h11
  subst h1 h2 h3 h4 h5 h6 h7 h8 h9 h10 h11
  constructor <;> rfl
theorem core_s4 (d : DC ℝ) (j : Js.JC ℝ) (h : CoreRel d j) : CoreRel (DeriveConstants_core1_s4 d) (Js.dc4 j) := by
  obtain ⟨A, A2, B, B2, E, Ep2, Es, K0, Ra, Rf, sp⟩ := d
  obtain ⟨a, b, rf, k0, ra, sph, a2, b2, es, e, ep2⟩ := j
  obtain ⟨h1, h2, h3, h4, h5, h6, h7, h8, h9, h10, h11⟩ := h
  simp only at h1 h2 h3 h4 h5 h6 h7 h8 h9 h10 h11
  subst h1 h2 h3 h4 h5 h6 h7 h8 h9 h10 h11
  constructor <;> rfl
theorem core_s5 (d : DC ℝ) (j : Js.JC ℝ) (h : CoreRel d j) : CoreRel (DeriveConstants_core1_s5 d) (Js.dc5 j) := by
  obtain ⟨A, A2, B, B2, E, Ep2, Es, K0, Ra, Rf, sp⟩ := d
  obtain ⟨a, b, rf, k0, ra, sph, a2, b2, es, e, ep2⟩ := j
  obtain ⟨h1, h2, h3, h4, h5, h6, h7, h8, h9, h10, h11⟩ := h
  simp only at h1 h2 h3 h4 h5 h6 h7 h8 h9 h10 h11
  subst h1 h2 h3 h4 h5 h6 h7 h8 h9 h10 h11
  constructor <;> rfl
theorem core_s6 (d : DC ℝ) (j : Js.JC ℝ) (h : CoreRel d j) : CoreRel (DeriveConstants_core1_s6 d) (Js.dc6 j) := by
  obtain ⟨A, A2, B, B2, E, Ep2, Es, K0, Ra, Rf, sp⟩ := d
  obtain ⟨a, b, rf, k0, ra, sph, a2, b2, es, e, ep2⟩ := j
  obtain ⟨h1, h2, h3, h4, h5, h6, h7, h8, h9, h10, h11⟩ := h
  simp only at h1 h2 h3 h4 h5 h6 h7 h8 h9 h10 h11
  subst h1 h2 h3 h4 h5 h6 h7 h8 h9 h10 h11
  constructor <;> rfl
theorem core_s7 (d : DC ℝ) (j : Js.JC ℝ) (h : CoreRel d j) : CoreRel (DeriveConstants_core1_s7 d) (Js.dc7 j) := by
  obtain ⟨A, A2, B, B2, E, Ep2, Es, K0, Ra, Rf, sp⟩ := d
  obtain ⟨a, b, rf, k0, ra, sph, a2, b2, es, e, ep2⟩ := j
  obtain ⟨h1, h2, h3, h4, h5, h6, h7, h8, h9, h10, h11⟩ := h
  simp only at h1 h2 h3 h4 h5 h6 h7 h8 h9 h10 h11
  subst h1 h2 h3 h4 h5 h6 h7 h8 h9 h10 h11
  cases ra <;> simp only [DeriveConstants_core1_s7, Js.dc7, if_true, if_false, Bool.false_eq_true, ite_true, ite_false] <;>
    constructor <;> (try rfl) <;> (simp only [Js.num, optNum, Js.SIXTH, Js.RA4, Js.RA6, Option.getD_some, Option.some.injEq]; rnum; norm_num)
theorem core_s8 (d : DC ℝ) (j : Js.JC ℝ) (h : CoreRel d j) : CoreRel (DeriveConstants_core1_s8 d) (Js.dc8 j) := by
  obtain ⟨A, A2, B, B2, E, Ep2, Es, K0, Ra, Rf, sp⟩ := d
  obtain ⟨a, b, rf, k0, ra, sph, a2, b2, es, e, ep2⟩ := j
  obtain ⟨h1, h2, h3, h4, h5, h6, h7, h8, h9, h10, h11⟩ := h
  simp only at h1 h2 h3 h4 h5 h6 h7 h8 h9 h10 h11
  subst h1 h2 h3 h4 h5 h6 h7 h8 h9 h10 h11
  constructor <;> rfl
theorem core_s9 (d : DC ℝ) (j : Js.JC ℝ) (h : CoreRel d j) (nk : NZ d.K0) : CoreRel (DeriveConstants_core1_s9 d) (Js.dc9 j) := by
  obtain ⟨A, A2, B, B2, E, Ep2, Es, K0, Ra, Rf, sp⟩ := d
  obtain ⟨a, b, rf, k0, ra, sph, a2, b2, es, e, ep2⟩ := j
  obtain ⟨h1, h2, h3, h4, h5, h6, h7, h8, h9, h10, h11⟩ := h
  simp only at h1 h2 h3 h4 h5 h6 h7 h8 h9 h10 h11
  subst h1 h2 h3 h4 h5 h6 h7 h8 h9 h10 h11
  unfold NZ at nk
  rcases k0 with _ | k <;>
    simp only [DeriveConstants_core1_s9, Js.dc9, optNaN_some', optNaN_none', truthyO_some, truthyO_none,
      Bool.not_true, Bool.not_false, Bool.false_eq_true, if_false, if_true, ite_true, ite_false] <;>
    (try simp only [ne_eq, Option.some.injEq] at nk) <;>
    (try simp only [nk, decide_false, Bool.not_false, Bool.not_true, Bool.false_eq_true, if_true, if_false, ite_true, ite_false]) <;>
    constructor <;> (try rfl) <;> (simp only [Option.some.injEq]; rnum; norm_num)

/-- the first eight statements leave `K0` alone -/
theorem core_k0_kept (d : DC ℝ) :
    (DeriveConstants_core1_s8 (DeriveConstants_core1_s7 (DeriveConstants_core1_s6 (DeriveConstants_core1_s5
      (DeriveConstants_core1_s4 (DeriveConstants_core1_s3 (DeriveConstants_core1_s2 (DeriveConstants_core1_s1 d)))))))).K0 = d.K0 := by
  simp only [DeriveConstants_core1_s8, DeriveConstants_core1_s7, DeriveConstants_core1_s6, DeriveConstants_core1_s5,
    DeriveConstants_core1_s4, DeriveConstants_core1_s3]
  split_ifs <;> simp only [DeriveConstants_core1_s2] <;> split_ifs <;> simp only [DeriveConstants_core1_s1] <;> split_ifs <;> rfl

/-- **`DeriveConstants` = deriveConstants.js, the arithmetic** (`if !IsNaN(Rf) && IsNaN(B)` … `K0` default
against `if (json.rf && !json.b)` … `if (!json.k0)`), Go side REGENERATED statement by statement: for the
same `a`, `b`, `rf`, `k_0`, `R_A`, sphere flag on both sides — where a VALUE 0 of `b`, `rf`, `k_0` is
excluded: proj4js tests truthiness, the port `math.IsNaN` — both leave the same `a`, `b`, `rf`, `k0`, sphere
flag, `a2`, `b2`, `es`, `e`, `ep2` (incl. the `rf = 0` / `|a − b| < 1e-10` sphere detection, where a missing
`rf` is not 0 on either side, and the `+R_A` authalic radius). -/
theorem go_deriveCore_eq_js_S (d : DC ℝ) (j : Js.JC ℝ) (h : CoreRel d j) (nb : NZ d.B) (nrf : NZ d.Rf) (nk : NZ d.K0) :
    CoreRel (DeriveConstants_core1 d) (Js.deriveCoreS j) := by
  unfold DeriveConstants_core1 Js.deriveCoreS
  refine core_s9 _ _ (core_s8 _ _ (core_s7 _ _ (core_s6 _ _ (core_s5 _ _ (core_s4 _ _ (core_s3 _ _ (core_s2 _ _
    (core_s1 _ _ h nb nrf)))))))) ?_
  rw [core_k0_kept]; exact nk

/-- the same on the Go `*SR` (`Model.deriveCore`: plumbing around the regenerated statements) and the proj4js
object; `a2 … ep2` hold the same numbers before (after `projString`: NaN / undefined on both sides) -/
theorem go_deriveCore_eq_js (s : Model.SR ℝ) (o : Js.Obj ℝ)
    (ha : o.a = s.a) (hb : o.b = s.b) (hrf : o.rf = s.rf) (hk : o.k0 = s.k0) (hra : o.R_A = s.ra)
    (hsp : o.sphere = s.sphere) (h1 : o.a2 = s.a2) (h2 : o.b2 = s.b2) (h3 : o.es = s.es) (h4 : o.e = s.e) (h5 : o.ep2 = s.ep2)
    (nb : NZ s.b) (nrf : NZ s.rf) (nk : NZ s.k0) :
    (Js.deriveCore o).a = (Model.deriveCore s).a ∧ (Js.deriveCore o).b = (Model.deriveCore s).b ∧
    (Js.deriveCore o).rf = (Model.deriveCore s).rf ∧ (Js.deriveCore o).k0 = (Model.deriveCore s).k0 ∧
    (Js.deriveCore o).R_A = (Model.deriveCore s).ra ∧ (Js.deriveCore o).sphere = (Model.deriveCore s).sphere ∧
    (Js.deriveCore o).a2 = (Model.deriveCore s).a2 ∧ (Js.deriveCore o).b2 = (Model.deriveCore s).b2 ∧
    (Js.deriveCore o).es = (Model.deriveCore s).es ∧ (Js.deriveCore o).e = (Model.deriveCore s).e ∧
    (Js.deriveCore o).ep2 = (Model.deriveCore s).ep2 := by
  have h := go_deriveCore_eq_js_S
    { A := s.a, A2 := s.a2, B := s.b, B2 := s.b2, E := s.e, Ep2 := s.ep2, Es := s.es, K0 := s.k0, Ra := s.ra, Rf := s.rf, sphere := s.sphere }
    { a := o.a, b := o.b, rf := o.rf, k0 := o.k0, R_A := o.R_A, sphere := o.sphere, a2 := o.a2, b2 := o.b2, es := o.es, e := o.e, ep2 := o.ep2 }
    ⟨ha, hb, hrf, hk, hra, hsp, h1, h2, h3, h4, h5⟩ nb nrf nk
  exact ⟨h.a, h.b, h.rf, h.k0, h.ra, h.sp, h.a2, h.b2, h.es, h.e, h.ep2⟩

/-- non-vacuity: `+a=6378388 +rf=297` -/
example : NZ (none : Option ℝ) ∧ NZ (some (297 : ℝ)) := by
  constructor <;> unfold NZ <;> simp

/-! ## projString: the cases of `switch paramName` against the handlers of projString.js -/

/-- what `projString` has written so far means the same on both sides: a number is set on one side iff on
the other, to the same value; an absent string is `""` in Go; `to_meter` absent = Go's default 1 -/
structure ParamSame (s : Model.SR ℝ) (o : Js.Obj ℝ) : Prop where
  name : o.projName.getD "" = s.name
  datumCode : o.datumCode.getD "" = s.datumCode
  ellps : o.ellps.getD "" = s.ellps
  units : o.units.getD "" = s.units
  nadgrids : o.nadgrids.getD "" = s.nadGrids
  axis : o.axis.getD "" = s.axis
  rf : o.rf = s.rf
  lat0 : o.lat0 = s.lat0
  lat1 : o.lat1 = s.lat1
  lat2 : o.lat2 = s.lat2
  latts : o.lat_ts = s.latTS
  long0 : o.long0 = s.long0
  x0 : o.x0 = s.x0
  y0 : o.y0 = s.y0
  k0 : o.k0 = s.k0
  a : o.a = s.a
  b : o.b = s.b
  zone : o.zone = s.zone
  fg : o.from_greenwich = s.fromGreenwich
  tm : o.to_meter.getD 1 = s.toMeter
  dp : o.datum_params.getD [] = s.datumParams
  ra : o.R_A = s.ra
  south : o.utmSouth = s.utmSouth
  /-- `K` is written by nothing in the port (`+k` writes `K0`), `k` by nothing in proj4js' handlers -/
  kk : o.k = s.k
  /-- `+czech` is no case of the port's switch -/
  czech : o.czech = s.czech

theorem d2r_eq : (c_deg2rad : ℝ) = Js.D2R := rfl

/-- **the numeric cases of `switch paramName`** (REGENERATED table `Gen.Go.projString_num`: key ↦ Go field,
degrees or not) **= the handlers of projString.js**: for every key of that table and every value text
that is a number, the port's case succeeds and writes the same field with the same number (degrees
converted with the same constant) as proj4js' handler for that key. -/
theorem go_projString_num_eq_js (k fld : String) (deg : Bool) (hk : projString_num k = some (fld, deg))
    (s : Model.SR ℝ) (o : Js.Obj ℝ) (h : ParamSame s o) (v : String) (x : ℝ) (hv : parseNum v = some x) :
    ∃ s', Model.applyKV s k v = .ok s' ∧ ParamSame s' (Js.applyParam o (k, some v)) := by
  unfold projString_num at hk
  split at hk <;> simp only [Option.some.injEq, Prod.mk.injEq, reduceCtorEq] at hk
  all_goals (obtain ⟨rfl, rfl⟩ := hk)
  all_goals simp only [Model.applyKV, projString_num, Model.parseFloat, hv, Model.setNum, Js.applyParam, Js.jsNum,
    bind, Except.bind, pure, Except.pure, Option.getD_some, if_true, if_false, Bool.false_eq_true, ite_true, ite_false, d2r_eq]
  all_goals refine ⟨_, rfl, ?_⟩
  all_goals (constructor <;>
    first
    | exact h.name
    | exact h.datumCode
    | exact h.ellps
    | exact h.units
    | exact h.nadgrids
    | exact h.axis
    | exact h.rf
    | exact h.lat0
    | exact h.lat1
    | exact h.lat2
    | exact h.latts
    | exact h.long0
    | exact h.x0
    | exact h.y0
    | exact h.k0
    | exact h.a
    | exact h.b
    | exact h.zone
    | exact h.fg
    | exact h.tm
    | exact h.dp
    | exact h.ra
    | exact h.south | exact h.kk | exact h.czech
    | rfl)

/-- **the string cases** (`self.F = paramVal`: `Gen.Go.projString_str`) = projString.js (`proj: 'projName'`,
`datum: 'datumCode'`, `ellps`; `title` is stored under a name nothing reads) -/
theorem go_projString_str_eq_js (k fld : String) (hk : projString_str k = some fld)
    (s : Model.SR ℝ) (o : Js.Obj ℝ) (h : ParamSame s o) (v : String) :
    ∃ s', Model.applyKV s k v = .ok s' ∧ ParamSame s' (Js.applyParam o (k, some v)) := by
  unfold projString_str at hk
  split at hk <;> simp only [Option.some.injEq, reduceCtorEq] at hk
  all_goals subst hk
  all_goals simp only [Model.applyKV, projString_num, projString_str, Model.setStr, Js.applyParam,
    bind, Except.bind, pure, Except.pure, Option.getD_some]
  all_goals refine ⟨_, rfl, ?_⟩
  all_goals (constructor <;>
    first
    | exact h.name
    | exact h.datumCode
    | exact h.ellps
    | exact h.units
    | exact h.nadgrids
    | exact h.axis
    | exact h.rf
    | exact h.lat0
    | exact h.lat1
    | exact h.lat2
    | exact h.latts
    | exact h.long0
    | exact h.x0
    | exact h.y0
    | exact h.k0
    | exact h.a
    | exact h.b
    | exact h.zone
    | exact h.fg
    | exact h.tm
    | exact h.dp
    | exact h.ra
    | exact h.south | exact h.kk | exact h.czech
    | rfl)

/-- **the flag cases** (`self.F = true`: `Gen.Go.projString_flag`) = projString.js (`r_a`, `south`; `no_defs` is
stored under a name nothing reads); the value text, if any, is ignored on both sides -/
theorem go_projString_flag_eq_js (k fld : String) (hk : projString_flag k = some fld)
    (s : Model.SR ℝ) (o : Js.Obj ℝ) (h : ParamSame s o) (v : String) (vo : Option String) :
    ∃ s', Model.applyKV s k v = .ok s' ∧ ParamSame s' (Js.applyParam o (k, vo)) := by
  unfold projString_flag at hk
  split at hk <;> simp only [Option.some.injEq, reduceCtorEq] at hk
  all_goals subst hk
  all_goals simp only [Model.applyKV, projString_num, projString_str, projString_flag, Model.setFlag, Js.applyParam,
    bind, Except.bind, pure, Except.pure]
  all_goals refine ⟨_, rfl, ?_⟩
  all_goals (constructor <;>
    first
    | exact h.name
    | exact h.datumCode
    | exact h.ellps
    | exact h.units
    | exact h.nadgrids
    | exact h.axis
    | exact h.rf
    | exact h.lat0
    | exact h.lat1
    | exact h.lat2
    | exact h.latts
    | exact h.long0
    | exact h.x0
    | exact h.y0
    | exact h.k0
    | exact h.a
    | exact h.b
    | exact h.zone
    | exact h.fg
    | exact h.tm
    | exact h.dp
    | exact h.ra
    | exact h.south | exact h.kk | exact h.czech
    | rfl)

/-- **`+units=`** (hand model of the pinned case text) = projString.js: the name is stored; a name of the units
table sets `to_meter` to the table's number (`C09_units`: the two tables are equal) -/
theorem go_projString_units_eq_js (s : Model.SR ℝ) (o : Js.Obj ℝ) (h : ParamSame s o) (v : String) :
    ∃ s', Model.applyKV s "units" v = .ok s' ∧ ParamSame s' (Js.applyParam o ("units", some v)) := by
  simp only [Model.applyKV, projString_num, projString_str, projString_flag, Model.applySpecial, Js.applyParam,
    Option.getD_some, ← C09_units]
  cases lookupNum Gen.goUnits v <;> refine ⟨_, rfl, ?_⟩
  all_goals (constructor <;>
    first
    | exact h.name
    | exact h.datumCode
    | exact h.ellps
    | exact h.units
    | exact h.nadgrids
    | exact h.axis
    | exact h.rf
    | exact h.lat0
    | exact h.lat1
    | exact h.lat2
    | exact h.latts
    | exact h.long0
    | exact h.x0
    | exact h.y0
    | exact h.k0
    | exact h.a
    | exact h.b
    | exact h.zone
    | exact h.fg
    | exact h.tm
    | exact h.dp
    | exact h.ra
    | exact h.south | exact h.kk | exact h.czech
    | rfl)

/-- **`+nadgrids=`** = projString.js: `@null` sets the datum code `none`, anything else is stored -/
theorem go_projString_nadgrids_eq_js (s : Model.SR ℝ) (o : Js.Obj ℝ) (h : ParamSame s o) (v : String) :
    ∃ s', Model.applyKV s "nadgrids" v = .ok s' ∧ ParamSame s' (Js.applyParam o ("nadgrids", some v)) := by
  simp only [Model.applyKV, projString_num, projString_str, projString_flag, Model.applySpecial, Js.applyParam,
    Option.getD_some]
  by_cases hv : v = "@null" <;> simp only [hv, beq_self_eq_true, if_true, ite_true, beq_iff_eq, if_false, ite_false] <;>
    refine ⟨_, rfl, ?_⟩
  all_goals (constructor <;>
    first
    | exact h.name
    | exact h.datumCode
    | exact h.ellps
    | exact h.units
    | exact h.nadgrids
    | exact h.axis
    | exact h.rf
    | exact h.lat0
    | exact h.lat1
    | exact h.lat2
    | exact h.latts
    | exact h.long0
    | exact h.x0
    | exact h.y0
    | exact h.k0
    | exact h.a
    | exact h.b
    | exact h.zone
    | exact h.fg
    | exact h.tm
    | exact h.dp
    | exact h.ra
    | exact h.south | exact h.kk | exact h.czech
    | rfl)

/-- **`+axis=`** = projString.js: three letters of `ewnsud` are stored, anything else is ignored -/
theorem go_projString_axis_eq_js (s : Model.SR ℝ) (o : Js.Obj ℝ) (h : ParamSame s o) (v : String) :
    ∃ s', Model.applyKV s "axis" v = .ok s' ∧ ParamSame s' (Js.applyParam o ("axis", some v)) := by
  have hl : Model.legalAxis v = Js.legalAxis v := rfl
  simp only [Model.applyKV, projString_num, projString_str, projString_flag, Model.applySpecial, Js.applyParam,
    Option.getD_some, hl]
  cases Js.legalAxis v <;> simp only [if_true, if_false, Bool.false_eq_true, ite_true, ite_false] <;> refine ⟨_, rfl, ?_⟩
  all_goals (constructor <;>
    first
    | exact h.name
    | exact h.datumCode
    | exact h.ellps
    | exact h.units
    | exact h.nadgrids
    | exact h.axis
    | exact h.rf
    | exact h.lat0
    | exact h.lat1
    | exact h.lat2
    | exact h.latts
    | exact h.long0
    | exact h.x0
    | exact h.y0
    | exact h.k0
    | exact h.a
    | exact h.b
    | exact h.zone
    | exact h.fg
    | exact h.tm
    | exact h.dp
    | exact h.ra
    | exact h.south | exact h.kk | exact h.czech
    | rfl)


theorem mapM_parse_eq (l : List String) : ∀ ps : List ℝ, l.mapM (fun s => Model.parseFloat (α := ℝ) s) = .ok ps →
    l.map (fun s => Js.jsNum (α := ℝ) (some s)) = ps := by
  induction l with
  | nil => intro ps hps; simp only [List.mapM_nil, pure, Except.pure, Except.ok.injEq] at hps; subst hps; rfl
  | cons a t ih =>
    intro ps hps
    simp only [List.mapM_cons, bind, Except.bind] at hps
    cases ha : parseNum (α := ℝ) a with
    | none =>
      have hpa : Model.parseFloat (α := ℝ) a = .error ("strconv.ParseFloat: parsing " ++ a) := by
        simp only [Model.parseFloat, ha]
      simp only [hpa, reduceCtorEq] at hps
    | some x =>
      have hpa : Model.parseFloat (α := ℝ) a = .ok x := by simp only [Model.parseFloat, ha]
      cases ht : t.mapM (fun s => Model.parseFloat (α := ℝ) s) with
      | error e => simp only [hpa, ht, reduceCtorEq] at hps
      | ok qs =>
        simp only [hpa, ht, pure, Except.pure, Except.ok.injEq] at hps
        subst hps
        simp only [List.map_cons, ih qs ht]
        simp only [Js.jsNum, ha, Option.getD_some]

theorem applyKV_towgs84 (s : Model.SR ℝ) (v : String) :
    Model.applyKV s "towgs84" v =
      ((v.splitOn ",").mapM (fun s => Model.parseFloat (α := ℝ) s) >>= fun ps => pure { s with datumParams := ps }) := by
  rfl

/-- **`+towgs84=`** (hand model of the pinned case text) = projString.js: whenever the port accepts the list
(every term is a number) both sides hold the same numbers, as many as were written -/
theorem go_projString_towgs84_eq_js (s s' : Model.SR ℝ) (o : Js.Obj ℝ) (h : ParamSame s o) (v : String)
    (hs : Model.applyKV s "towgs84" v = .ok s') : ParamSame s' (Js.applyParam o ("towgs84", some v)) := by
  rw [applyKV_towgs84] at hs
  cases hm : (v.splitOn ",").mapM (fun s => Model.parseFloat (α := ℝ) s) with
  | error e => simp only [hm, bind, Except.bind, reduceCtorEq] at hs
  | ok ps =>
    simp only [hm, bind, Except.bind, pure, Except.pure, Except.ok.injEq] at hs
    subst hs
    have hj := mapM_parse_eq _ ps hm
    simp only [Js.applyParam, Option.getD_some, hj]
    constructor <;>
    first
    | exact h.name
    | exact h.datumCode
    | exact h.ellps
    | exact h.units
    | exact h.nadgrids
    | exact h.axis
    | exact h.rf
    | exact h.lat0
    | exact h.lat1
    | exact h.lat2
    | exact h.latts
    | exact h.long0
    | exact h.x0
    | exact h.y0
    | exact h.k0
    | exact h.a
    | exact h.b
    | exact h.zone
    | exact h.fg
    | exact h.tm
    | exact h.dp
    | exact h.ra
    | exact h.south | exact h.kk | exact h.czech
    | rfl

/-- **`+pm=`** (hand model of the pinned case text) = projString.js: a name of the prime-meridian table gives the
table's number (`C09_primeMeridians`), anything else is read as a number; both in degrees. `hz`: a named meridian
of value 0 (`greenwich`: proj4js then falls through to `parseFloat` of the NAME) is not itself a number -/
theorem go_projString_pm_eq_js (s : Model.SR ℝ) (o : Js.Obj ℝ) (h : ParamSame s o) (v : String)
    (hz : ∀ d, lookupNum Gen.goPrimeMeridians v = some d → (d.toNum : ℝ) = 0 → parseNum (α := ℝ) v = none)
    (hn : lookupNum Gen.goPrimeMeridians v = none → ∃ x : ℝ, parseNum v = some x) :
    ∃ s', Model.applyKV s "pm" v = .ok s' ∧ ParamSame s' (Js.applyParam o ("pm", some v)) := by
  simp only [Model.applyKV, projString_num, projString_str, projString_flag, Model.applySpecial, Js.applyParam,
    Option.getD_some, ← C09_primeMeridians, d2r_eq]
  cases hl : lookupNum Gen.goPrimeMeridians v with
  | none =>
    obtain ⟨x, hx⟩ := hn hl
    simp only [Option.map_none, Model.parseFloat, hx, bind, Except.bind, pure, Except.pure, Js.jsNum, Option.getD_some]
    refine ⟨_, rfl, ?_⟩
    constructor <;>
    first
    | exact h.name
    | exact h.datumCode
    | exact h.ellps
    | exact h.units
    | exact h.nadgrids
    | exact h.axis
    | exact h.rf
    | exact h.lat0
    | exact h.lat1
    | exact h.lat2
    | exact h.latts
    | exact h.long0
    | exact h.x0
    | exact h.y0
    | exact h.k0
    | exact h.a
    | exact h.b
    | exact h.zone
    | exact h.fg
    | exact h.tm
    | exact h.dp
    | exact h.ra
    | exact h.south | exact h.kk | exact h.czech
    | rfl
  | some d =>
    have hb : (if RNum.truthy (d.toNum : ℝ) = true then (d.toNum : ℝ) else Js.jsNum (some v)) = d.toNum := by
      by_cases hd : (d.toNum : ℝ) = 0
      · have := hz d hl hd
        simp only [r_truthy, hd, decide_true, Bool.not_true, Bool.false_eq_true, if_false, ite_false, Js.jsNum, this,
          Option.getD_none, r_nan]
      · simp only [r_truthy, hd, decide_false, Bool.not_false, if_true, ite_true]
    simp only [Option.map_some, hb]
    refine ⟨_, rfl, ?_⟩
    constructor <;>
    first
    | exact h.name
    | exact h.datumCode
    | exact h.ellps
    | exact h.units
    | exact h.nadgrids
    | exact h.axis
    | exact h.rf
    | exact h.lat0
    | exact h.lat1
    | exact h.lat2
    | exact h.latts
    | exact h.long0
    | exact h.x0
    | exact h.y0
    | exact h.k0
    | exact h.a
    | exact h.b
    | exact h.zone
    | exact h.fg
    | exact h.tm
    | exact h.dp
    | exact h.ra
    | exact h.south | exact h.kk | exact h.czech
    | rfl


/-- a key that is in none of the regenerated case tables and is not one of the five special cases is rejected by
the port (`default: err = fmt.Errorf(...)`; proj4js stores such a parameter under its own name) -/
theorem go_projString_unknown (k v : String) (s : Model.SR ℝ) (h1 : projString_num k = none) (h2 : projString_str k = none)
    (h3 : projString_flag k = none) (h4 : k ≠ "towgs84") (h5 : k ≠ "units") (h6 : k ≠ "pm") (h7 : k ≠ "nadgrids")
    (h8 : k ≠ "axis") : Model.applyKV s k v = .error ("proj: invalid field '" ++ k ++ "'") := by
  simp only [Model.applyKV, h1, h2, h3, Model.applySpecial]
  rfl

/-- the empty `*SR` of `NewSR()` and the empty object `{}` -/
theorem paramSame_new : ParamSame (Model.newSR : Model.SR ℝ) (Js.Obj.empty : Js.Obj ℝ) := by
  constructor <;> first | rfl | (simp only [Js.Obj.empty, Model.newSR, Option.getD_none]; rnum)

/-- non-vacuity of the numeric case: `+lat_0=` is a key of the regenerated table, in degrees -/
example : projString_num "lat_0" = some ("Lat0", true) := rfl

end GeomV.C09
