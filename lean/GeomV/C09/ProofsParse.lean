import GeomV.C09.ProofsInit2
/-!
C09: `projString.go` / `deriveConstants.go` against `lib/projString.js` / `lib/deriveConstants.js`.

Go side: REGENERATED (`Gen/GoParse.lean`, rewritten from the current source on every run):
`Gen.Go.projString_num/_str/_flag` (the simple cases of `switch paramName`: key ↦ Go field, degrees or
not), `Gen.Go.DeriveConstants_core1` (the arithmetic of `DeriveConstants` between the table lookups and
the axis default). The remaining code (five special cases, the loop frame, the two table lookups, the
axis default, the datum) is hand-modelled in `Model.lean`; the source text those models were written
from is pinned here (`*_pinned`): when it changes these theorems stop building (broken tie).
proj4js side: `Js.applyParam`, `Js.deriveCore` (written from the pinned 2.3.12 sources).
-/
open GeomV.C09 GeomV.C09.Gen.Go
namespace GeomV.C09
set_option linter.unusedSimpArgs false
set_option linter.unusedVariables false
set_option linter.unusedTactic false
set_option linter.unreachableTactic false
set_option maxRecDepth 8000

/-! ## the source text the hand-modelled parts were written from -/

/-- the case labels of `switch paramName` (a new or removed case is noticed) -/
theorem projString_keys_pinned : Gen.Go.projString_keys =
  ["proj", "title", "datum", "rf", "lat_0", "lat_1", "lat_2", "lat_ts", "lon_0", "lon_1", "lon_2", "alpha", "lonc", "x_0", "y_0", "k_0", "k", "a", "b", "ellps", "r_a", "zone", "south", "no_defs", "towgs84", "to_meter", "units", "from_greenwich", "pm", "nadgrids", "axis", "<default>"] := rfl

/-- the five cases of `switch paramName` that are not of a simple shape (`Model.applySpecial`) and the default -/
theorem projString_special_pinned : Gen.Go.projString_special =
  [("towgs84", "split := strings.Split(paramVal, \",\") ; self.DatumParams = make([]float64, len(split)) ; for i, s := range split { self.DatumParams[i], err = strconv.ParseFloat(s, 64) if err != nil { return nil, err } }"),
   ("units", "self.Units = paramVal ; if u, ok := units[paramVal]; ok { self.ToMeter = u.to_meter }"),
   ("pm", "if pm, ok := primeMeridian[paramVal]; ok { self.FromGreenwich = pm * deg2rad } else { self.FromGreenwich, err = strconv.ParseFloat(paramVal, 64) self.FromGreenwich *= deg2rad }"),
   ("nadgrids", "if paramVal == \"@null\" { self.DatumCode = \"none\" } else { self.NADGrids = paramVal }"),
   ("axis", "legalAxis := \"ewnsud\" ; if len(paramVal) == 3 && strings.Index(legalAxis, paramVal[0:1]) != -1 && strings.Index(legalAxis, paramVal[1:2]) != -1 && strings.Index(legalAxis, paramVal[2:3]) != -1 { self.Axis = paramVal }"),
   ("<default>", "err = fmt.Errorf(\"proj: invalid field '%s'\", paramName)")] := rfl

/-- the loop around the switch (`Model.projString`, `Model.paramNameOf/paramValOf`) -/
theorem projString_frame_pinned : Gen.Go.projString_frame =
  "func projString(defData string) (*SR, error) { self := NewSR() var err error for i, a := range strings.Split(defData, \"+\") { if i == 0 { continue } a = strings.TrimSpace(a) split := strings.Split(a, \"=\") split = append(split, \"true\") paramName := strings.ToLower(split[0]) paramVal := split[1] switch paramName { } if err != nil { return nil, err } } if self.DatumCode != \"WGS84\" { self.DatumCode = strings.ToLower(self.DatumCode) } return self, nil }" := rfl

/-- the top-level statements of `DeriveConstants`: table lookups (`Model.deriveTables`), ONE translated run
(`Gen.Go.DeriveConstants_core1`), axis default and datum (`Model.deriveTail`) -/
theorem DeriveConstants_shape_pinned : Gen.Go.DeriveConstants_shape =
  ["if json.DatumCode != \"\" && json.DatumCode != \"none\" { datumDef, ok := datumDefs[json.DatumCode] if ok { json.DatumParams = make([]float64, len(datumDef.towgs84)) for i, p := range datumDef.towgs84 { json.DatumParams[i] = p } json.Ellps = datumDef.ellipse if datumDef.datumName != \"\" { json.DatumName = datumDef.datumName } else { json.DatumName = json.DatumCode } } }",
   "if math.IsNaN(json.A) { ellipse, ok := ellipsoidDefs[json.Ellps] if !ok { ellipse = ellipsoidDefs[\"WGS84\"] } if ellipse.a != 0 { json.A = ellipse.a } if ellipse.b != 0 { json.B = ellipse.b } if ellipse.rf != 0 { json.Rf = ellipse.rf } json.EllipseName = ellipse.ellipseName }",
   "«DeriveConstants_core1»",
   "if json.Axis == \"\" { json.Axis = enu }",
   "if json.datum == nil { json.datum = json.getDatum() }"] := rfl

/-! ## DeriveConstants: the arithmetic -/

theorem optNaN_some' (v : ℝ) : optNaN (some v) = false := by
  unfold optNaN; rnum
theorem optNaN_none' : optNaN (none : Option ℝ) = true := rfl
theorem optNum_some' (v : ℝ) : optNum (some v) = v := rfl
theorem optNum_none' : optNum (none : Option ℝ) = 0 := rfl
theorem js_num_none : Js.num (none : Option ℝ) = 0 := rfl

/-- the same values in the Go fields and in the proj4js properties -/
structure CoreRel (d : DC ℝ) (j : Js.JC ℝ) : Prop where
  a : j.a = d.A
  b : j.b = d.B
  rf : j.rf = d.Rf
  k0 : j.k0 = d.K0
  ra : j.R_A = d.Ra
  sp : j.sphere = d.sphere
  a2 : j.a2 = d.A2
  b2 : j.b2 = d.B2
  es : j.es = d.Es
  e : j.e = d.E
  ep2 : j.ep2 = d.Ep2

theorem corerel_ite (c : Prop) [Decidable c] (d1 d2 : DC ℝ) (j1 j2 : Js.JC ℝ) (h1 : CoreRel d1 j1) (h2 : CoreRel d2 j2) :
    CoreRel (if c then d1 else d2) (if c then j1 else j2) := by
  by_cases h : c <;> simp only [h, if_true, if_false, ite_true, ite_false] <;> assumption

theorem core_s1 (d : DC ℝ) (j : Js.JC ℝ) (h : CoreRel d j) (nb : NZ d.B) (nrf : NZ d.Rf) :
    CoreRel (DeriveConstants_core1_s1 d) (Js.dc1 j) := by
  obtain ⟨A, A2, B, B2, E, Ep2, Es, K0, Ra, Rf, sp⟩ := d
  obtain ⟨a, b, rf, k0, ra, sph, a2, b2, es, e, ep2⟩ := j
  obtain ⟨h1, h2, h3, h4, h5, h6, h7, h8, h9, h10, h11⟩ := h
  simp only at h1 h2 h3 h4 h5 h6 h7 h8 h9 h10 h11
  subst h1 h2 h3 h4 h5 h6 h7 h8 h9 h10 h11
  unfold NZ at nb nrf
  rcases b with _ | b <;> rcases rf with _ | rf <;>
    simp only [DeriveConstants_core1_s1, Js.dc1, optNaN_some', optNaN_none', optNum_some', truthyO_some, truthyO_none, num_some,
      Bool.not_true, Bool.not_false, Bool.and_true, Bool.and_false, Bool.true_and, Bool.false_and, Bool.false_eq_true,
      if_false, if_true, ite_true, ite_false] <;>
    (try simp only [ne_eq, Option.some.injEq] at nb nrf) <;>
    (try simp only [nb, nrf, decide_false, Bool.not_false, Bool.not_true, Bool.false_eq_true, if_true, if_false, ite_true, ite_false]) <;>
    constructor <;> (try rfl) <;> (simp only [Js.num, optNum, Option.some.injEq]; rnum; norm_num)

theorem core_s2 (d : DC ℝ) (j : Js.JC ℝ) (h : CoreRel d j) : CoreRel (DeriveConstants_core1_s2 d) (Js.dc2 j) := by
  obtain ⟨A, A2, B, B2, E, Ep2, Es, K0, Ra, Rf, sp⟩ := d
  obtain ⟨a, b, rf, k0, ra, sph, a2, b2, es, e, ep2⟩ := j
  obtain ⟨h1, h2, h3, h4, h5, h6, h7, h8, h9, h10, h11⟩ := h
  simp only at h1 h2 h3 h4 h5 h6 h7 h8 h9 h10 h11
  subst h1 h2 h3 h4 h5 h6 h7 h8 h9 h10 h11
  have he : RNum.lt (RNum.abs (Js.num a - Js.num b)) (Js.EPSLN : ℝ) = RNum.lt (RNum.abs (optNum a - optNum b)) (0.0000000001 : ℝ) := by
    simp only [Js.num, optNum, Js.EPSLN]; rnum; norm_num
  cases rf <;> simp only [DeriveConstants_core1_s2, Js.dc2, optEq, he] <;>
    exact corerel_ite _ _ _ _ _ (by constructor <;> rfl) (by constructor <;> rfl)

theorem core_s3 (d : DC ℝ) (j : Js.JC ℝ) (h : CoreRel d j) : CoreRel (DeriveConstants_core1_s3 d) (Js.dc3 j) := by
  obtain ⟨A, A2, B, B2, E, Ep2, Es, K0, Ra, Rf, sp⟩ := d
  obtain ⟨a, b, rf, k0, ra, sph, a2, b2, es, e, ep2⟩ := j
  obtain ⟨h1, h2, h3, h4, h5, h6, h7, h8, h9, h10, h11⟩ := h
  simp only at h1 h2 h3 h4 h5 h6 h7 h8 h9 h10 h11
  subst h1 h2 h3 h4 h5 h6 h7 h8 h9 h10 h11
  constructor <;> rfl
theorem core_s4 (d : DC ℝ) (j : Js.JC ℝ) (h : CoreRel d j) : CoreRel (DeriveConstants_core1_s4 d) (Js.dc4 j) := by
  obtain ⟨A, A2, B, B2, E, Ep2, Es, K0, Ra, Rf, sp⟩ := d
  obtain ⟨a, b, rf, k0, ra, sph, a2, b2, es, e, ep2⟩ := j
  obtain ⟨h1, h2, h3, h4, h5, h6, h7, h8, h9, h10, h11⟩ := h
  simp only at h1 h2 h3 h4 h5 h6 h7 h8 h9 h10 h11
  subst h1 h2 h3 h4 h5 h6 h7 h8 h9 h10 h11
  constructor <;> rfl
theorem core_s5 (d : DC ℝ) (j : Js.JC ℝ) (h : CoreRel d j) : CoreRel (DeriveConstants_core1_s5 d) (Js.dc5 j) := by
  obtain ⟨A, A2, B, B2, E, Ep2, Es, K0, Ra, Rf, sp⟩ := d
  obtain ⟨a, b, rf, k0, ra, sph, a2, b2, es, e, ep2⟩ := j
  obtain ⟨h1, h2, h3, h4, h5, h6, h7, h8, h9, h10, h11⟩ := h
  simp only at h1 h2 h3 h4 h5 h6 h7 h8 h9 h10 h11
  subst h1 h2 h3 h4 h5 h6 h7 h8 h9 h10 h11
  constructor <;> rfl
theorem core_s6 (d : DC ℝ) (j : Js.JC ℝ) (h : CoreRel d j) : CoreRel (DeriveConstants_core1_s6 d) (Js.dc6 j) := by
  obtain ⟨A, A2, B, B2, E, Ep2, Es, K0, Ra, Rf, sp⟩ := d
  obtain ⟨a, b, rf, k0, ra, sph, a2, b2, es, e, ep2⟩ := j
  obtain ⟨h1, h2, h3, h4, h5, h6, h7, h8, h9, h10, h11⟩ := h
  simp only at h1 h2 h3 h4 h5 h6 h7 h8 h9 h10 h11
  subst h1 h2 h3 h4 h5 h6 h7 h8 h9 h10 h11
  constructor <;> rfl
theorem core_s7 (d : DC ℝ) (j : Js.JC ℝ) (h : CoreRel d j) : CoreRel (DeriveConstants_core1_s7 d) (Js.dc7 j) := by
  obtain ⟨A, A2, B, B2, E, Ep2, Es, K0, Ra, Rf, sp⟩ := d
  obtain ⟨a, b, rf, k0, ra, sph, a2, b2, es, e, ep2⟩ := j
  obtain ⟨h1, h2, h3, h4, h5, h6, h7, h8, h9, h10, h11⟩ := h
  simp only at h1 h2 h3 h4 h5 h6 h7 h8 h9 h10 h11
  subst h1 h2 h3 h4 h5 h6 h7 h8 h9 h10 h11
  cases ra <;> simp only [DeriveConstants_core1_s7, Js.dc7, if_true, if_false, Bool.false_eq_true, ite_true, ite_false] <;>
    constructor <;> (try rfl) <;> (simp only [Js.num, optNum, Js.SIXTH, Js.RA4, Js.RA6, Option.getD_some, Option.some.injEq]; rnum; norm_num)
theorem core_s8 (d : DC ℝ) (j : Js.JC ℝ) (h : CoreRel d j) : CoreRel (DeriveConstants_core1_s8 d) (Js.dc8 j) := by
  obtain ⟨A, A2, B, B2, E, Ep2, Es, K0, Ra, Rf, sp⟩ := d
  obtain ⟨a, b, rf, k0, ra, sph, a2, b2, es, e, ep2⟩ := j
  obtain ⟨h1, h2, h3, h4, h5, h6, h7, h8, h9, h10, h11⟩ := h
  simp only at h1 h2 h3 h4 h5 h6 h7 h8 h9 h10 h11
  subst h1 h2 h3 h4 h5 h6 h7 h8 h9 h10 h11
  constructor <;> rfl
theorem core_s9 (d : DC ℝ) (j : Js.JC ℝ) (h : CoreRel d j) (nk : NZ d.K0) : CoreRel (DeriveConstants_core1_s9 d) (Js.dc9 j) := by
  obtain ⟨A, A2, B, B2, E, Ep2, Es, K0, Ra, Rf, sp⟩ := d
  obtain ⟨a, b, rf, k0, ra, sph, a2, b2, es, e, ep2⟩ := j
  obtain ⟨h1, h2, h3, h4, h5, h6, h7, h8, h9, h10, h11⟩ := h
  simp only at h1 h2 h3 h4 h5 h6 h7 h8 h9 h10 h11
  subst h1 h2 h3 h4 h5 h6 h7 h8 h9 h10 h11
  unfold NZ at nk
  rcases k0 with _ | k <;>
    simp only [DeriveConstants_core1_s9, Js.dc9, optNaN_some', optNaN_none', truthyO_some, truthyO_none,
      Bool.not_true, Bool.not_false, Bool.false_eq_true, if_false, if_true, ite_true, ite_false] <;>
    (try simp only [ne_eq, Option.some.injEq] at nk) <;>
    (try simp only [nk, decide_false, Bool.not_false, Bool.not_true, Bool.false_eq_true, if_true, if_false, ite_true, ite_false]) <;>
    constructor <;> (try rfl) <;> (simp only [Option.some.injEq]; rnum; norm_num)

/-- the first eight statements leave `K0` alone -/
theorem core_k0_kept (d : DC ℝ) :
    (DeriveConstants_core1_s8 (DeriveConstants_core1_s7 (DeriveConstants_core1_s6 (DeriveConstants_core1_s5
      (DeriveConstants_core1_s4 (DeriveConstants_core1_s3 (DeriveConstants_core1_s2 (DeriveConstants_core1_s1 d)))))))).K0 = d.K0 := by
  simp only [DeriveConstants_core1_s8, DeriveConstants_core1_s7, DeriveConstants_core1_s6, DeriveConstants_core1_s5,
    DeriveConstants_core1_s4, DeriveConstants_core1_s3]
  split_ifs <;> simp only [DeriveConstants_core1_s2] <;> split_ifs <;> simp only [DeriveConstants_core1_s1] <;> split_ifs <;> rfl

/-- **`DeriveConstants` = deriveConstants.js, the arithmetic** (`if !IsNaN(Rf) && IsNaN(B)` … `K0` default
against `if (json.rf && !json.b)` … `if (!json.k0)`), Go side REGENERATED statement by statement: for the
same `a`, `b`, `rf`, `k_0`, `R_A`, sphere flag on both sides — where a VALUE 0 of `b`, `rf`, `k_0` is
excluded: proj4js tests truthiness, the port `math.IsNaN` — both leave the same `a`, `b`, `rf`, `k0`, sphere
flag, `a2`, `b2`, `es`, `e`, `ep2` (incl. the `rf = 0` / `|a − b| < 1e-10` sphere detection, where a missing
`rf` is not 0 on either side, and the `+R_A` authalic radius). -/
theorem go_deriveCore_eq_js_S (d : DC ℝ) (j : Js.JC ℝ) (h : CoreRel d j) (nb : NZ d.B) (nrf : NZ d.Rf) (nk : NZ d.K0) :
    CoreRel (DeriveConstants_core1 d) (Js.deriveCoreS j) := by
  unfold DeriveConstants_core1 Js.deriveCoreS
  refine core_s9 _ _ (core_s8 _ _ (core_s7 _ _ (core_s6 _ _ (core_s5 _ _ (core_s4 _ _ (core_s3 _ _ (core_s2 _ _
    (core_s1 _ _ h nb nrf)))))))) ?_
  rw [core_k0_kept]; exact nk

/-- the same on the Go `*SR` (`Model.deriveCore`: plumbing around the regenerated statements) and the proj4js
object; `a2 … ep2` hold the same numbers before (after `projString`: NaN / undefined on both sides) -/
theorem go_deriveCore_eq_js (s : Model.SR ℝ) (o : Js.Obj ℝ)
    (ha : o.a = s.a) (hb : o.b = s.b) (hrf : o.rf = s.rf) (hk : o.k0 = s.k0) (hra : o.R_A = s.ra)
    (hsp : o.sphere = s.sphere) (h1 : o.a2 = s.a2) (h2 : o.b2 = s.b2) (h3 : o.es = s.es) (h4 : o.e = s.e) (h5 : o.ep2 = s.ep2)
    (nb : NZ s.b) (nrf : NZ s.rf) (nk : NZ s.k0) :
    (Js.deriveCore o).a = (Model.deriveCore s).a ∧ (Js.deriveCore o).b = (Model.deriveCore s).b ∧
    (Js.deriveCore o).rf = (Model.deriveCore s).rf ∧ (Js.deriveCore o).k0 = (Model.deriveCore s).k0 ∧
    (Js.deriveCore o).R_A = (Model.deriveCore s).ra ∧ (Js.deriveCore o).sphere = (Model.deriveCore s).sphere ∧
    (Js.deriveCore o).a2 = (Model.deriveCore s).a2 ∧ (Js.deriveCore o).b2 = (Model.deriveCore s).b2 ∧
    (Js.deriveCore o).es = (Model.deriveCore s).es ∧ (Js.deriveCore o).e = (Model.deriveCore s).e ∧
    (Js.deriveCore o).ep2 = (Model.deriveCore s).ep2 := by
  have h := go_deriveCore_eq_js_S
    { A := s.a, A2 := s.a2, B := s.b, B2 := s.b2, E := s.e, Ep2 := s.ep2, Es := s.es, K0 := s.k0, Ra := s.ra, Rf := s.rf, sphere := s.sphere }
    { a := o.a, b := o.b, rf := o.rf, k0 := o.k0, R_A := o.R_A, sphere := o.sphere, a2 := o.a2, b2 := o.b2, es := o.es, e := o.e, ep2 := o.ep2 }
    ⟨ha, hb, hrf, hk, hra, hsp, h1, h2, h3, h4, h5⟩ nb nrf nk
  exact ⟨h.a, h.b, h.rf, h.k0, h.ra, h.sp, h.a2, h.b2, h.es, h.e, h.ep2⟩

/-- non-vacuity: `+a=6378388 +rf=297` -/
example : NZ (none : Option ℝ) ∧ NZ (some (297 : ℝ)) := by
  constructor <;> unfold NZ <;> simp

end GeomV.C09
