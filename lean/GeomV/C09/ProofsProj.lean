import GeomV.C09.Proofs
/-!
C09, phase 2: projection-level identities Go closure = proj4js method over ℝ (forward and inverse,
all eight projections), "given equal captured constants"; constructors and the pipeline follow in
`ProofsInit.lean` / `ProofsPipeline.lean`.
-/
open GeomV.C09
namespace GeomV.C09
set_option linter.unusedTactic false
set_option linter.unreachableTactic false
set_option linter.unusedSimpArgs false
set_option linter.unusedVariables false
set_option maxRecDepth 4000

theorem eps_lit : (1.0e-10 : ℝ) = 0.0000000001 := by norm_num
theorem two_eps : (2 : ℝ) * 0.0000000001 = 0.0000000002 := by norm_num
theorem eps7_lit : (1.0e-7 : ℝ) = 0.0000001 := by norm_num
theorem eps7b_lit : (1e-7 : ℝ) = 0.0000001 := by norm_num

/-- Lambert conformal conic forward: same formula (incl. the polar special cases), all (λ, φ) -/
theorem go_lcc_fwd_eq_js (s : Model.SR ℝ) (c : Model.Consts ℝ) (o : Js.Obj ℝ) (lon lat : ℝ) (z : Option ℝ)
    (ha : Js.num o.a = Model.gnum s.a) (hx : Js.num o.x0 = Model.gnum s.x0) (hy : Js.num o.y0 = Model.gnum s.y0)
    (hl : Js.num o.long0 = Model.gnum s.long0) (hk : Js.num o.k0 = Model.gnum s.k0)
    (he : o.e = c.e) (hns : o.ns = c.ns) (hf : o.f0 = c.f0) (hrh : o.rh = c.rh) :
    okOf (Model.lccFwd s c lon lat) = xyOf (Js.lccForward o ⟨lon, lat, z⟩) := by
  unfold Model.lccFwd Gen.Go.LCC_forward Js.lccForward Model.aS Js.aO xyOf okOf Js.EPSLN Js.HALF_PI
  simp only [ha, hx, hy, hl, hk, he, hns, hf, hrh, go_tsfnz_eq_js, go_adjust_lon_eq_js, go_sign_eq_js]
  rnum
  simp only [eps_lit, two_eps]
  split_ifs <;> rfl
/-- Mercator inverse: same formula and the same `phi2z` -/
theorem go_merc_inv_eq_js (s : Model.SR ℝ) (c : Model.Consts ℝ) (o : Js.Obj ℝ) (x y : ℝ) (z : Option ℝ)
    (ha : Js.num o.a = Model.gnum s.a) (hx : Js.num o.x0 = Model.gnum s.x0) (hy : Js.num o.y0 = Model.gnum s.y0)
    (hl : Js.num o.long0 = Model.gnum s.long0) (hk : Js.num o.k0 = c.k0) (he : o.e = c.e) (hsph : o.sphere = s.sphere) :
    okOf (Model.mercInv s c x y) = xyOf (Js.mercInverse o ⟨x, y, z⟩) := by
  unfold Model.mercInv Gen.Go.Merc_inverse Js.mercInverse Model.aS Js.aO xyOf okOf Js.HALF_PI
  simp only [ha, hx, hy, hl, hk, he, hsph, go_adjust_lon_eq_js]
  rnum
  cases hs : s.sphere
  · simp only [Bool.false_eq_true, if_false, ite_false]
    rw [← go_phi2z_eq_js]
    generalize Gen.Go.phi2z (α := ℝ) _ _ = r
    cases r <;> rfl
  · simp only [if_true, ite_true]

/-- Lambert conformal conic inverse: same formula and the same `phi2z` -/
theorem go_lcc_inv_eq_js (s : Model.SR ℝ) (c : Model.Consts ℝ) (o : Js.Obj ℝ) (x y : ℝ) (z : Option ℝ)
    (ha : Js.num o.a = Model.gnum s.a) (hx : Js.num o.x0 = Model.gnum s.x0) (hy : Js.num o.y0 = Model.gnum s.y0)
    (hl : Js.num o.long0 = Model.gnum s.long0) (hk : Js.num o.k0 = Model.gnum s.k0)
    (he : o.e = c.e) (hns : o.ns = c.ns) (hf : o.f0 = c.f0) (hrh : o.rh = c.rh) :
    okOf (Model.lccInv s c x y) = xyOf (Js.lccInverse o ⟨x, y, z⟩) := by
  unfold Model.lccInv Gen.Go.LCC_inverse Js.lccInverse Model.aS Js.aO xyOf okOf Js.HALF_PI
  simp only [ha, hx, hy, hl, hk, he, hns, hf, hrh, go_adjust_lon_eq_js]
  rnum
  split_ifs <;> simp only [] <;>
    first
    | rfl
    | (rw [← go_phi2z_eq_js]; generalize Gen.Go.phi2z (α := ℝ) _ _ = r; cases r <;> rfl)
    | simp_all

theorem go_aeaPhi1z_loop_eq_js (eccent qs eccnts : ℝ) (n : ℕ) (a b c d e phi : ℝ) :
    okOf (Gen.Go.aeaPhi1z_loop eccent qs eccnts n a b c d e phi) = Js.phi1zLoop eccent qs eccnts n phi := by
  induction n generalizing a b c d e phi with
  | zero => rfl
  | succ n ih =>
    unfold Gen.Go.aeaPhi1z_loop Js.phi1zLoop
    rnum
    rw [okOf_ite, ih]

/-- `aeaPhi1z` (regenerated from aea.go) = `phi1z` of aea.js (25 rounds, 1e-7 stop; Go error ⇔ `null`) -/
theorem go_aeaPhi1z_eq_js (eccent qs : ℝ) : okOf (Gen.Go.aeaPhi1z eccent qs) = Js.phi1z eccent qs := by
  unfold Gen.Go.aeaPhi1z Js.phi1z Js.EPSLN
  simp only [go_asinz_eq_js]
  rnum
  simp only [eps_lit]
  split_ifs
  · rfl
  · exact go_aeaPhi1z_loop_eq_js _ _ _ _ _ _ _ _ _ _

/-- Albers inverse -/
theorem go_aea_inv_eq_js (s : Model.SR ℝ) (c : Model.Consts ℝ) (o : Js.Obj ℝ) (x y : ℝ) (z : Option ℝ)
    (ha : Js.num o.a = Model.gnum s.a) (hx : Js.num o.x0 = Model.gnum s.x0) (hy : Js.num o.y0 = Model.gnum s.y0)
    (hl : Js.num o.long0 = Model.gnum s.long0) (hsph : o.sphere = s.sphere)
    (he : o.e3 = c.e) (hc' : o.c = c.c) (hns : o.ns0 = c.ns) (hrh : o.rh = c.rh) :
    okOf (Model.aeaInv s c x y) = xyOf (Js.aeaInverse o ⟨x, y, z⟩) := by
  unfold Model.aeaInv Gen.Go.AEA_inverse Js.aeaInverse Model.aS Js.aO xyOf okOf
  simp only [ha, hx, hy, hl, hsph, he, hc', hns, hrh, go_adjust_lon_eq_js]
  rnum
  split_ifs <;> simp only [] <;>
    first
    | rfl
    | (rw [← go_aeaPhi1z_eq_js]; generalize Gen.Go.aeaPhi1z (α := ℝ) _ _ = r; cases r <;> rfl)
    | simp_all

/-- equidistant conic inverse -/
theorem go_eqdc_inv_eq_js (s : Model.SR ℝ) (c : Model.Consts ℝ) (o : Js.Obj ℝ) (x y : ℝ) (z : Option ℝ)
    (ha : Js.num o.a = Model.gnum s.a) (hx : Js.num o.x0 = Model.gnum s.x0) (hy : Js.num o.y0 = Model.gnum s.y0)
    (hl : Js.num o.long0 = Model.gnum s.long0) (hsph : o.sphere = s.sphere)
    (h0 : o.e0 = c.e0) (h1 : o.e1 = c.e1) (h2 : o.e2 = c.e2) (h3 : o.e3s = c.e3)
    (hg : o.g = c.g) (hns : o.ns = c.ns) (hrh : o.rh = c.rh) :
    okOf (Model.eqdcInv s c x y) = xyOf (Js.eqdcInverse o ⟨x, y, z⟩) := by
  unfold Model.eqdcInv Gen.Go.EqdC_inverse Js.eqdcInverse Model.aS Js.aO xyOf okOf
  simp only [ha, hx, hy, hl, hsph, h0, h1, h2, h3, hg, hns, hrh, go_adjust_lon_eq_js, go_adjust_lat_eq_js]
  rnum
  split_ifs <;> simp only [] <;>
    first
    | rfl
    | (rw [← go_imlfn_eq_js]; generalize Gen.Go.imlfn (α := ℝ) _ _ _ _ _ = r; cases r <;> rfl)
    | simp_all
theorem go_tmercPhi_loop_eq_js (con e0 e1 e2 e3 : ℝ) (n : ℕ) (phi : ℝ) :
    okOf (Model.tmercPhiLoop con e0 e1 e2 e3 n phi) = Js.tmercPhiLoop con e0 e1 e2 e3 n phi := by
  have hc := go_consts_eq_js
  induction n generalizing phi with
  | zero => rfl
  | succ n ih =>
    unfold Model.tmercPhiLoop Js.tmercPhiLoop
    simp only [hc.2.2.1]
    rnum
    rw [okOf_ite]
    congr 1
    split
    · rfl
    · exact ih _

/-- transverse Mercator inverse, both branches (sphere: after fix fc8adbb the port uses
`sin² temp` where tmerc.js has `1 − cos² temp`; the two are equal over ℝ) -/
theorem go_tmerc_inv_eq_js (s : Model.SR ℝ) (c : Model.Consts ℝ) (o : Js.Obj ℝ) (x y : ℝ) (z : Option ℝ)
    (ha : Js.num o.a = Model.gnum s.a) (hx : Js.num o.x0 = Model.gnum s.x0) (hy : Js.num o.y0 = Model.gnum s.y0)
    (hl : Js.num o.long0 = Model.gnum s.long0) (hk : Js.num o.k0 = Model.gnum s.k0) (hl0 : Js.num o.lat0 = Model.gnum s.lat0)
    (hsph : o.sphere = s.sphere) (hes : o.es = s.es) (hep : o.ep2 = s.ep2)
    (h0 : o.e0 = c.e0) (h1 : o.e1 = c.e1) (h2 : o.e2 = c.e2) (h3 : o.e3s = c.e3) (hml : o.ml0 = c.ml0) :
    okOf (Model.tmercInv s c x y) = xyOf (Js.tmercInverse o ⟨x, y, z⟩) := by
  have hc := go_consts_eq_js
  unfold Model.tmercInv Js.tmercInverse Model.aS Js.aO xyOf okOf Model.halfPi
  simp only [hc.2.2.2.1, ha, hx, hy, hl, hk, hl0, hsph, hes, hep, h0, h1, h2, h3, hml, go_adjust_lon_eq_js, go_asinz_eq_js,
    go_sign_eq_js, bind, Except.bind, pure, Except.pure]
  rnum
  cases hs : s.sphere
  · simp only [Bool.false_eq_true, if_false, ite_false]
    rw [← go_tmercPhi_loop_eq_js]
    generalize Model.tmercPhiLoop (α := ℝ) _ _ _ _ _ _ _ = r
    cases r
    · rfl
    · simp only [okOf]; try (split_ifs <;> rfl)
  · simp only [if_true, ite_true]
    have hsc : ∀ t : ℝ, Real.sin t * Real.sin t = 1 - Real.cos t * Real.cos t := by
      intro t; have := Real.sin_sq_add_cos_sq t; nlinarith [this]
    simp only [hsc]
    try (split_ifs <;> rfl)

/-- Krovak forward: same formula, all (λ, φ) -/
theorem go_krovak_fwd_eq_js (s : Model.SR ℝ) (c : Model.Consts ℝ) (o : Js.Obj ℝ) (lon lat : ℝ) (z : Option ℝ)
    (hl : Js.num o.long0 = Model.gnum s.long0) (he : o.e = s.e) (hcz : o.czech = s.czech)
    (hal : o.alfa = c.alfa) (hkk : o.kk = c.kk) (hn : o.n = c.n) (hro : o.ro0 = c.ro0) (had : o.ad = c.ad)
    (hs0 : o.s0 = Model.S0) :
    okOf (Model.krovakFwd s c lon lat) = xyOf (Js.krovakForward o ⟨lon, lat, z⟩) := by
  unfold Model.krovakFwd Gen.Go.Krovak_forward Js.krovakForward xyOf okOf Js.S45
  simp only [hl, he, hcz, hal, hkk, hn, hro, had, hs0, Model.S0, go_adjust_lon_eq_js]
  rnum
  have hS : (1.37008346281555 : ℝ) / 2 + 0.785398163397448 = 1.470439894805223 := by norm_num
  simp only [hS]
  split_ifs <;> first | rfl | simp_all

theorem go_krovakIter_eq_js (s : Model.SR ℝ) (c : Model.Consts ℝ) (o : Js.Obj ℝ) (u : ℝ)
    (he : o.e = s.e) (hal : o.alfa = c.alfa) (hkk : o.kk = c.kk) (n : ℕ) (fi1 y0 : ℝ) :
    (if (Model.krovakIter s c u n fi1 y0).2 then none else some (Model.krovakIter s c u n fi1 y0).1) =
      Js.krovakIter o u n fi1 := by
  induction n generalizing fi1 y0 with
  | zero => rfl
  | succ n ih =>
    unfold Model.krovakIter Js.krovakIter Model.S45 Js.S45
    simp only [he, hal, hkk]
    rnum
    generalize hb : decide (|fi1 - _| < (_ : ℝ)) = b
    cases b
    · simp only [Bool.false_eq_true, if_false, ite_false]
      exact ih _ _
    · simp only [if_true, ite_true]
      try (by_cases hn : n = 0 <;> simp [hn])

/-- Krovak inverse (after fix be1dd3e): same formula, same 15-round latitude iteration -/
theorem go_krovak_inv_eq_js (s : Model.SR ℝ) (c : Model.Consts ℝ) (o : Js.Obj ℝ) (x y : ℝ) (z : Option ℝ)
    (hl : Js.num o.long0 = Model.gnum s.long0) (he : o.e = s.e) (hcz : o.czech = s.czech)
    (hal : o.alfa = c.alfa) (hkk : o.kk = c.kk) (hn : o.n = c.n) (hro : o.ro0 = c.ro0) (had : o.ad = c.ad)
    (hs0 : o.s0 = Model.S0) :
    okOf (Model.krovakInv s c x y) = xyOf (Js.krovakInverse o ⟨x, y, z⟩) := by
  unfold Model.krovakInv Js.krovakInverse xyOf okOf
  simp only [hl, hcz, hal, hn, hro, had, hs0]
  cases s.czech
  · simp only [Bool.not_false, if_true, ite_true]
    rw [← go_krovakIter_eq_js s c o _ he hal hkk 15 _ (x * (-1))]
    unfold Model.S45 Js.S45 Model.S0
    rnum
    generalize Model.krovakIter (α := ℝ) _ _ _ _ _ _ = r
    obtain ⟨yv, hit⟩ := r
    cases hit <;> rfl
  · simp only [Bool.not_true, Bool.false_eq_true, if_false, ite_false]
    rw [← go_krovakIter_eq_js s c o _ he hal hkk 15 _ x]
    unfold Model.S45 Js.S45 Model.S0
    rnum
    generalize Model.krovakIter (α := ℝ) _ _ _ _ _ _ = r
    obtain ⟨yv, hit⟩ := r
    cases hit <;> rfl

end GeomV.C09
