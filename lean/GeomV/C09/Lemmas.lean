import GeomV.C09.Num
import Mathlib.Analysis.SpecialFunctions.Trigonometric.Inverse
import Mathlib.Analysis.SpecialFunctions.Trigonometric.Arctan
import Mathlib.Analysis.SpecialFunctions.Pow.Real
import Mathlib.Analysis.SpecialFunctions.Log.Basic
import Mathlib.Analysis.SpecialFunctions.Complex.Arg
import Mathlib.Tactic.Ring
import Mathlib.Tactic.NormNum
import Mathlib.Tactic.FieldSimp
import Mathlib.Tactic.Linarith
/-!
The `ℝ` instance of the number class (what the C09 theorems are about) and the rewriting set that
turns class operations into Mathlib's (stated with `id rfl` so that `simp` rewrites with
congruence and rebuilds the `Decidable` instances of rewritten `if` conditions).  `atan2 y x` is `Complex.arg (x + y i)`; `pow` is `Real.rpow`;
comparisons are decided classically; `nan` is `0` (never used by a theorem).
-/
namespace GeomV.C09
open Classical

/-- numerals of the class on `ℝ`; ordinary definitions (not reducible) so that the rewriting set
`rnum` turns them into Mathlib numerals once and does not match its own output -/
noncomputable def realOfNat (n : ℕ) : ℝ := n
noncomputable def realOfSci (m : ℕ) (s : Bool) (e : ℕ) : ℝ := OfScientific.ofScientific m s e

noncomputable instance instRTransReal : RTrans ℝ where
  add := (· + ·)
  sub := (· - ·)
  mul := (· * ·)
  div := (· / ·)
  neg := (- ·)
  ofNat := realOfNat
  ofSci := realOfSci
  lt a b := decide (a < b)
  le a b := decide (a ≤ b)
  eq a b := decide (a = b)
  abs a := |a|
  nan := 0
  pi := Real.pi
  sqrt := Real.sqrt
  sin := Real.sin
  cos := Real.cos
  tan := Real.tan
  asin := Real.arcsin
  acos := Real.arccos
  atan := Real.arctan
  exp := Real.exp
  log := Real.log
  atan2 y x := Complex.arg ⟨x, y⟩
  pow a b := a ^ b

section
variable (a b : ℝ) (n : ℕ)
theorem r_add : @HAdd.hAdd ℝ ℝ ℝ (@instHAdd ℝ RNum.toAdd) a b = a + b := id rfl
theorem r_sub : @HSub.hSub ℝ ℝ ℝ (@instHSub ℝ RNum.toSub) a b = a - b := id rfl
theorem r_mul : @HMul.hMul ℝ ℝ ℝ (@instHMul ℝ RNum.toMul) a b = a * b := id rfl
theorem r_div : @HDiv.hDiv ℝ ℝ ℝ (@instHDiv ℝ RNum.toDiv) a b = a / b := id rfl
theorem r_neg : @Neg.neg ℝ RNum.toNeg a = -a := id rfl
theorem r_ofNat : @OfNat.ofNat ℝ n (@instOfNatOfRNum ℝ _ n) = (n : ℝ) := id rfl
theorem r_ofSci (m : ℕ) (s : Bool) (e : ℕ) :
    @OfScientific.ofScientific ℝ (@instOfScientificOfRNum ℝ _) m s e = (OfScientific.ofScientific m s e : ℝ) := id rfl
theorem r_lt : (lt a b : Bool) = decide (a < b) := id rfl
theorem r_le : (le a b : Bool) = decide (a ≤ b) := id rfl
theorem r_gt : (gt a b : Bool) = decide (b < a) := id rfl
theorem r_ge : (ge a b : Bool) = decide (b ≤ a) := id rfl
theorem r_eq : (eq a b : Bool) = decide (a = b) := id rfl
theorem r_ne : (ne a b : Bool) = !decide (a = b) := id rfl
theorem r_abs : (abs a : ℝ) = |a| := id rfl
theorem r_nan : (nan : ℝ) = 0 := id rfl
theorem r_pi : (pi : ℝ) = Real.pi := id rfl
theorem r_sqrt : (sqrt a : ℝ) = Real.sqrt a := id rfl
theorem r_sin : (sin a : ℝ) = Real.sin a := id rfl
theorem r_cos : (cos a : ℝ) = Real.cos a := id rfl
theorem r_tan : (tan a : ℝ) = Real.tan a := id rfl
theorem r_asin : (asin a : ℝ) = Real.arcsin a := id rfl
theorem r_acos : (acos a : ℝ) = Real.arccos a := id rfl
theorem r_atan : (atan a : ℝ) = Real.arctan a := id rfl
theorem r_exp : (exp a : ℝ) = Real.exp a := id rfl
theorem r_log : (log a : ℝ) = Real.log a := id rfl
theorem r_pow : (pow a b : ℝ) = a ^ b := id rfl
theorem r_isNaN : (isNaN a : Bool) = false := by simp [RNum.isNaN, RNum.eq]
theorem r_truthy : (truthy a : Bool) = !decide (a = 0) := by
  simp only [RNum.truthy, RNum.eq, decide_true, Bool.true_and, r_ofNat, Nat.cast_zero]
end

/-- rewrite class operations on `ℝ` into Mathlib's and numerals into ordinary numerals -/
macro "rnum" : tactic => `(tactic|
  simp only [r_ofNat, r_ofSci, r_lt, r_le, r_gt, r_ge, r_eq, r_ne, r_abs,
    r_nan, r_pi, r_sqrt, r_sin, r_cos, r_tan, r_asin, r_acos, r_atan, r_exp, r_log, r_pow, r_isNaN, r_truthy,
    Nat.cast_ofNat, Nat.cast_one, Nat.cast_zero])

macro "rnum" "at" h:ident : tactic => `(tactic|
  simp only [r_ofNat, r_ofSci, r_lt, r_le, r_gt, r_ge, r_eq, r_ne, r_abs,
    r_nan, r_pi, r_sqrt, r_sin, r_cos, r_tan, r_asin, r_acos, r_atan, r_exp, r_log, r_pow, r_isNaN, r_truthy,
    Nat.cast_ofNat, Nat.cast_one, Nat.cast_zero] at $h:ident)

end GeomV.C09
