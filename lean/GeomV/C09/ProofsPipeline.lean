import GeomV.C09.ProofsDatum
/-!
C09, phase 2: `go_pipeline_eq_js` — the stage sequence of `transform3` / the `NewTransform` closure
(transform.go after ac60a9b) against `transform.js`, one leg and the two-hop route through WGS84,
given stage-wise equality (`PipeSame`).
-/
open GeomV.C09
namespace GeomV.C09
set_option linter.unusedSimpArgs false
set_option linter.unusedVariables false
set_option linter.unusedTactic false
set_option linter.unreachableTactic false
set_option maxRecDepth 4000

theorem zOr0_none (x y : ℝ) : Js.zOr0 (⟨x, y, none⟩ : Js.P ℝ) = 0 := by
  unfold Js.zOr0; rnum

theorem toP3_none (x y : ℝ) : toP3 ⟨x, y, none⟩ = ⟨x, y, 0⟩ := by
  unfold toP3 Js.num; simp only [Option.getD_none]; rnum

theorem g2g_none (dj : Js.Datum ℝ) (x y : ℝ) :
    Js.geodetic_to_geocentric dj ⟨x, y, none⟩ = Js.geodetic_to_geocentric dj ⟨x, y, some 0⟩ := by
  unfold Js.geodetic_to_geocentric
  simp only [zOr0_none, zOr0_some]

/-- a 2-D point (no `z` property) goes through `datum_transform` like the same point at height 0 -/
theorem datum_transform_none (j1 j2 : Js.Datum ℝ) (x y : ℝ) (p : Js.P ℝ)
    (hp : Js.datum_transform j1 j2 ⟨x, y, none⟩ = .ok p) :
    ∃ p', Js.datum_transform j1 j2 ⟨x, y, some 0⟩ = .ok p' ∧ toP3 p' = toP3 p := by
  unfold Js.datum_transform at hp ⊢
  rw [g2g_none] at hp
  split_ifs at hp ⊢ <;> first
    | (cases hp; exact ⟨_, rfl, by rw [toP3_none]; rfl⟩)
    | exact ⟨p, hp, rfl⟩
    | (cases hp)

/-- `go_datum_eq_js` for a point with or without a `z` property -/
theorem go_datum_eq_js_any (d1 d2 : Model.Datum ℝ) (j1 j2 : Js.Datum ℝ) (h1 : DatumSame d1 j1) (h2 : DatumSame d2 j2)
    (hg1 : d1.datum_type ≠ 3) (hg2 : d2.datum_type ≠ 3) (p0 p : Js.P ℝ)
    (hp : Js.datum_transform j1 j2 p0 = .ok p) :
    Model.datumTransform d1 d2 (toP3 p0) = .ok (toP3 p) := by
  obtain ⟨x, y, zj⟩ := p0
  cases zj with
  | some z => exact go_datum_eq_js d1 d2 j1 j2 h1 h2 x y z hg1 hg2 p hp
  | none =>
    obtain ⟨p', hp', he⟩ := datum_transform_none j1 j2 x y p hp
    rw [toP3_none, ← he]
    exact go_datum_eq_js d1 d2 j1 j2 h1 h2 x y 0 hg1 hg2 p' hp'
/-! ## the stage sequence of `transform3` against `transform.js` -/

/-- a Go closure and a proj4js method agree as a stage: same (x, y) or both fail; proj4js leaves the
`z` of the point alone -/
def StageSame (f : ℝ → ℝ → Except String (ℝ × ℝ)) (g : Js.P ℝ → Except String (Js.P ℝ)) : Prop :=
  ∀ p : Js.P ℝ,
    (∀ a b, f p.x p.y = .ok (a, b) → g p = .ok { p with x := a, y := b }) ∧
    (∀ e, f p.x p.y = .error e → ∃ e', g p = .error e')

/-- stage-wise equality of the two pipelines for one (source, destination) pair, stated on the Go
`*SR`s after their constructors ran (`Transformers()`) and the proj4js objects after `init` -/
structure PipeSame (s d : Model.SR ℝ) (sc dc : Model.Consts ℝ) (sk dk : Model.Kind)
    (js jd : Js.Obj ℝ) (jsk jdk : Js.Kind) (sd dd : Model.Datum ℝ) (jsd jdd : Js.Datum ℝ) : Prop where
  saxis : s.axis = "enu"
  daxis : d.axis = "enu"
  jsaxis : js.axis = some "enu"
  jdaxis : jd.axis = some "enu"
  sname : (s.name == "longlat") = (js.projName == some "longlat")
  dname : (d.name == "longlat") = (jd.projName == some "longlat")
  /-- units: the port always multiplies by `ToMeter` (1 by default), proj4js only `if (to_meter)` -/
  stm : (if Js.truthyO js.to_meter then Js.num js.to_meter else 1) = s.toMeter
  dtm : (if Js.truthyO jd.to_meter then Js.num jd.to_meter else 1) = d.toMeter
  /-- prime meridian: the port adds `FromGreenwich` unless NaN, proj4js `if (from_greenwich)` -/
  sfg : (if Js.truthyO js.from_greenwich then Js.num js.from_greenwich else 0) =
        (if Model.gNaN s.fromGreenwich then 0 else Model.gnum s.fromGreenwich)
  dfg : (if Js.truthyO jd.from_greenwich then Js.num jd.from_greenwich else 0) =
        (if Model.gNaN d.fromGreenwich then 0 else Model.gnum d.fromGreenwich)
  sdat : s.datum = some sd
  ddat : d.datum = some dd
  jsdat : js.datum = some jsd
  jddat : jd.datum = some jdd
  sds : DatumSame sd jsd
  dds : DatumSame dd jdd
  nogrid1 : sd.datum_type ≠ 3
  nogrid2 : dd.datum_type ≠ 3
  inv : StageSame (Model.inv sk s sc) (Js.inverse jsk js)
  fwd : StageSame (Model.fwd dk d dc) (Js.forward jdk jd)

theorem js_pm_add (o : Option ℝ) (v : Js.P ℝ) :
    (if Js.truthyO o = true then ({ x := v.x + Js.num o, y := v.y, z := v.z } : Js.P ℝ) else v) =
      { x := v.x + (if Js.truthyO o then Js.num o else 0), y := v.y, z := v.z } := by
  obtain ⟨a, b, c⟩ := v
  split_ifs <;> simp
theorem js_pm_sub (o : Option ℝ) (v : Js.P ℝ) :
    (if Js.truthyO o = true then ({ x := v.x - Js.num o, y := v.y, z := v.z } : Js.P ℝ) else v) =
      { x := v.x - (if Js.truthyO o then Js.num o else 0), y := v.y, z := v.z } := by
  obtain ⟨a, b, c⟩ := v
  split_ifs <;> simp
theorem js_pm_add' (o : Option ℝ) (a b : ℝ) (c : Option ℝ) :
    (if Js.truthyO o = true then ({ x := a + Js.num o, y := b, z := c } : Js.P ℝ) else { x := a, y := b, z := c }) =
      { x := a + (if Js.truthyO o then Js.num o else 0), y := b, z := c } := by
  split_ifs <;> simp
theorem go_pm_add (o : Option ℝ) (x : ℝ) :
    (if (!Model.gNaN o) = true then x + Model.gnum o else x) = x + (if Model.gNaN o then 0 else Model.gnum o) := by
  cases h : Model.gNaN o <;> simp
theorem go_pm_sub (o : Option ℝ) (x : ℝ) :
    (if (!Model.gNaN o) = true then x - Model.gnum o else x) = x - (if Model.gNaN o then 0 else Model.gnum o) := by
  cases h : Model.gNaN o <;> simp
theorem js_scale_mul (o : Option ℝ) (v : Js.P ℝ) :
    (if Js.truthyO o = true then ({ x := v.x * Js.num o, y := v.y * Js.num o, z := v.z } : Js.P ℝ) else v) =
      { x := v.x * (if Js.truthyO o then Js.num o else 1), y := v.y * (if Js.truthyO o then Js.num o else 1), z := v.z } := by
  obtain ⟨a, b, c⟩ := v
  split_ifs <;> simp
theorem js_scale_div (o : Option ℝ) (v : Js.P ℝ) :
    (if Js.truthyO o = true then ({ x := v.x / Js.num o, y := v.y / Js.num o, z := v.z } : Js.P ℝ) else v) =
      { x := v.x / (if Js.truthyO o then Js.num o else 1), y := v.y / (if Js.truthyO o then Js.num o else 1), z := v.z } := by
  obtain ⟨a, b, c⟩ := v
  split_ifs <;> simp

theorem bind_stage {f : ℝ → ℝ → Except String (ℝ × ℝ)} {g : Js.P ℝ → Except String (Js.P ℝ)} (h : StageSame f g)
    (q : Js.P ℝ) (K : Js.P ℝ → Except String (Js.P ℝ)) (p : Js.P ℝ)
    (hp : (match g q with | Except.error e => Except.error e | Except.ok v => K v) = Except.ok p) :
    ∃ a b, f q.x q.y = .ok (a, b) ∧ K { q with x := a, y := b } = .ok p := by
  cases hf : f q.x q.y with
  | error e =>
    obtain ⟨e', he'⟩ := (h q).2 e hf
    rw [he'] at hp; cases hp
  | ok ab =>
    obtain ⟨a, b⟩ := ab
    have := (h q).1 a b hf
    rw [this] at hp
    exact ⟨a, b, rfl, hp⟩

theorem bind_datum (j1 j2 : Js.Datum ℝ) (q : Js.P ℝ) (K : Js.P ℝ → Except String (Js.P ℝ)) (p : Js.P ℝ)
    (hp : (match Js.datum_transform j1 j2 q with | Except.error e => Except.error e | Except.ok v => K v) = Except.ok p) :
    ∃ v, Js.datum_transform j1 j2 q = .ok v ∧ K v = .ok p := by
  cases hq : Js.datum_transform j1 j2 q with
  | error e => rw [hq] at hp; cases hp
  | ok v => rw [hq] at hp; exact ⟨v, rfl, hp⟩

theorem ebind_ok {α β : Type} (a : α) (f : α → Except String β) : Except.bind (Except.ok a : Except String α) f = f a := rfl
theorem ebind_ite {α β : Type} (c : Prop) [Decidable c] (A B : Except String α) (f : α → Except String β) :
    Except.bind (if c then A else B) f = if c then Except.bind A f else Except.bind B f := by
  split <;> rfl

theorem bind_ok {α β : Type} (x : Except String α) (f : α → Except String β) (p : β)
    (h : Except.bind x f = .ok p) : ∃ v, x = .ok v ∧ f v = .ok p := by
  cases x with
  | error e => cases h
  | ok v => exact ⟨v, rfl, h⟩

/-- the destination half of a leg: prime meridian, then degrees or projection and units -/
theorem pipe_tail (d : Model.SR ℝ) (dc : Model.Consts ℝ) (dk : Model.Kind) (jd : Js.Obj ℝ) (jdk : Js.Kind)
    (hf : StageSame (Model.fwd dk d dc) (Js.forward jdk jd)) (G : ℝ) (v p : Js.P ℝ)
    (hp : (if (d.name == "longlat") = true then
            (Except.ok { x := (v.x - G) * Js.R2D, y := v.y * Js.R2D, z := v.z } : Except String (Js.P ℝ))
          else
            Except.bind (Js.forward jdk jd { x := v.x - G, y := v.y, z := v.z })
              (fun w => Except.ok { x := w.x / d.toMeter, y := w.y / d.toMeter, z := w.z })) = Except.ok p) :
    (if (d.name == "longlat") = true then
        (Except.ok (((toP3 v).x - G) * Js.R2D, (toP3 v).y * Js.R2D, (toP3 v).z) : Except String (ℝ × ℝ × ℝ))
      else
        Except.bind (Model.fwd dk d dc ((toP3 v).x - G) (toP3 v).y)
          (fun w => Except.ok (w.1 / d.toMeter, w.2 / d.toMeter, (toP3 v).z))) = Except.ok (p.x, p.y, Js.num p.z) := by
  cases hb : (d.name == "longlat")
  · simp only [hb, Bool.false_eq_true, if_false, ite_false] at hp ⊢
    obtain ⟨w, hw, hK⟩ := bind_ok _ _ p hp
    cases hfw : Model.fwd dk d dc (v.x - G) v.y with
    | error e =>
      obtain ⟨e', he'⟩ := (hf { x := v.x - G, y := v.y, z := v.z }).2 e hfw
      rw [he'] at hw; cases hw
    | ok ab =>
      obtain ⟨a, b⟩ := ab
      have := (hf { x := v.x - G, y := v.y, z := v.z }).1 a b hfw
      rw [this] at hw
      cases hw
      simp only [toP3, hfw, Except.bind]
      cases hK; rfl
  · simp only [hb, if_true, ite_true] at hp ⊢
    cases hp; rfl

/-- **one leg of the pipeline** (`transform3` = transform.js after its WGS84 workaround): given
stage-wise equality, whenever proj4js returns a point the port returns the same x, y and height,
for a point with or without a height. -/
theorem go_pipeline_core_eq_js (s0 d0 s d : Model.SR ℝ) (sc dc : Model.Consts ℝ) (sk dk : Model.Kind)
    (js jd : Js.Obj ℝ) (jsk jdk : Js.Kind) (sd dd : Model.Datum ℝ) (jsd jdd : Js.Datum ℝ)
    (hs : Model.transformers s0 = .ok (s, sc, sk)) (hd : Model.transformers d0 = .ok (d, dc, dk))
    (H : PipeSame s d sc dc sk dk js jd jsk jdk sd dd jsd jdd)
    (p0 p : Js.P ℝ) (hp : Js.transformCore (js, jsk) (jd, jdk) p0 = .ok p) :
    Model.transformCore s0 d0 p0.x p0.y (Js.num p0.z) = .ok (p.x, p.y, Js.num p.z) := by
  have hc := go_consts_eq_js
  unfold Js.transformCore at hp
  unfold Model.transformCore
  simp only [bind, pure, Except.pure, H.jsaxis, H.jdaxis, H.jsdat, H.jddat, ne_eq, not_true_eq_false,
    bne_self_eq_false, Bool.false_eq_true, if_false, ite_false, ebind_ok, ebind_ite] at hp
  simp only [hs, hd, bind, Except.bind, pure, Except.pure, H.saxis, H.daxis, H.sdat, H.ddat, ne_eq, not_true_eq_false,
    bne_self_eq_false, Bool.false_eq_true, if_false, ite_false]
  simp only [js_pm_add, js_pm_sub, js_pm_add', js_scale_mul, js_scale_div, go_pm_add, go_pm_sub, H.stm, H.dtm, H.sfg, H.dfg,
    ← H.sname, ← H.dname, hc.1, hc.2.1] at hp ⊢
  cases hb1 : (s.name == "longlat")
  · simp only [hb1, Bool.false_eq_true, if_false, ite_false] at hp ⊢
    obtain ⟨w, hw, hK⟩ := bind_ok _ _ p hp
    cases hfw : Model.inv sk s sc (p0.x * s.toMeter) (p0.y * s.toMeter) with
    | error e =>
      obtain ⟨e', he'⟩ := (H.inv { x := p0.x * s.toMeter, y := p0.y * s.toMeter, z := p0.z }).2 e hfw
      rw [he'] at hw; cases hw
    | ok ab =>
      obtain ⟨a, b⟩ := ab
      have := (H.inv { x := p0.x * s.toMeter, y := p0.y * s.toMeter, z := p0.z }).1 a b hfw
      rw [this] at hw
      cases hw
      simp only [] at hK ⊢
      obtain ⟨v, hv, hK2⟩ := bind_ok _ _ p hK
      have hm := go_datum_eq_js_any sd dd jsd jdd H.sds H.dds H.nogrid1 H.nogrid2 _ v hv
      simp only [toP3] at hm
      rw [hm]
      exact pipe_tail d dc dk jd jdk H.fwd (if Model.gNaN d.fromGreenwich = true then 0 else Model.gnum d.fromGreenwich) v p hK2
  · simp only [hb1, if_true, ite_true] at hp ⊢
    obtain ⟨v, hv, hK2⟩ := bind_ok _ _ p hp
    have hm := go_datum_eq_js_any sd dd jsd jdd H.sds H.dds H.nogrid1 H.nogrid2 _ v hv
    simp only [toP3] at hm
    rw [hm]
    exact pipe_tail d dc dk jd jdk H.fwd (if Model.gNaN d.fromGreenwich = true then 0 else Model.gnum d.fromGreenwich) v p hK2

/-- the WGS84-workaround decision is the same test on both sides when the datum types and the
"is the datum code literally WGS84" answers agree -/
theorem twoHop_same (s0 d0 : Model.SR ℝ) (js jd : Js.Obj ℝ) (sd dd : Model.Datum ℝ) (jsd jdd : Js.Datum ℝ)
    (h1 : s0.datum = some sd) (h2 : d0.datum = some dd) (h3 : js.datum = some jsd) (h4 : jd.datum = some jdd)
    (t1 : jsd.datum_type = sd.datum_type) (t2 : jdd.datum_type = dd.datum_type)
    (c1 : (js.datumCode != some "WGS84") = !Model.isWGS84Code s0.datumCode)
    (c2 : (jd.datumCode != some "WGS84") = !Model.isWGS84Code d0.datumCode) :
    (js.datum.isSome && jd.datum.isSome && (Js.checkNotWGS js jd || Js.checkNotWGS jd js)) = Model.twoHop s0 d0 := by
  unfold Model.twoHop Js.checkNotWGS Model.checkNotWGS Js.PJD_3PARAM Js.PJD_7PARAM Model.pjd3Param Model.pjd7Param
  simp only [h1, h2, h3, h4, t1, t2, c1, c2, Option.isSome_some, Bool.true_and]

/-- **`go_pipeline_eq_js`**: the closure returned by `NewTransform` (after ac60a9b: the height of the
first leg is carried into the second) equals proj4js `transform.js` as a function of (x, y):
whenever proj4js returns a point the port returns the same coordinates — on the direct route and on
the two-hop route through WGS84 — given (i) the same route decision, (ii) stage-wise equality
(`PipeSame`) of every leg that is taken.  What `PipeSame` asks of a pair is exactly the condition
under which the two agree: same units and prime meridian *values* (a zero `from_greenwich` and an
absent one are the same thing on both sides), `enu` axes, no grid shifts, corresponding datums
(`DatumSame`: in particular the same datum *type*, which is where a definition without a datum
differs — `pjdNoDatum` in the port as in PROJ.4, `PJD_WGS84` in proj4js — and why the property
compares such definitions only on one ellipsoid), and closures that agree as stages. -/
theorem go_pipeline_eq_js (s0 d0 : Model.SR ℝ) (js jd : Js.Obj ℝ) (jsk jdk : Js.Kind)
    (wm : Model.SR ℝ) (wj : Js.Obj ℝ) (wk : Js.Kind)
    (hwm : Model.parse (α := ℝ) Model.wgs84Def = .ok wm) (hwj : Js.newProj (α := ℝ) Js.wgs84Def = .ok (wj, wk))
    (hdec : (js.datum.isSome && jd.datum.isSome && (Js.checkNotWGS js jd || Js.checkNotWGS jd js)) = Model.twoHop s0 d0)
    (Hdirect : Model.twoHop s0 d0 = false →
      ∃ s d sc dc sk dk sd dd jsd jdd, Model.transformers s0 = .ok (s, sc, sk) ∧ Model.transformers d0 = .ok (d, dc, dk) ∧
        PipeSame s d sc dc sk dk js jd jsk jdk sd dd jsd jdd)
    (Hleg1 : Model.twoHop s0 d0 = true →
      ∃ s d sc dc sk dk sd dd jsd jdd, Model.transformers s0 = .ok (s, sc, sk) ∧ Model.transformers wm = .ok (d, dc, dk) ∧
        PipeSame s d sc dc sk dk js wj jsk wk sd dd jsd jdd)
    (Hleg2 : Model.twoHop s0 d0 = true →
      ∃ s d sc dc sk dk sd dd jsd jdd, Model.transformers wm = .ok (s, sc, sk) ∧ Model.transformers d0 = .ok (d, dc, dk) ∧
        PipeSame s d sc dc sk dk wj jd wk jdk sd dd jsd jdd)
    (x y : ℝ) (p : Js.P ℝ) (hp : Js.transform (js, jsk) (jd, jdk) ⟨x, y, none⟩ = .ok p) :
    Model.transform s0 d0 x y = .ok (p.x, p.y) := by
  unfold Js.transform at hp
  unfold Model.transform Model.transformZ
  simp only [hdec] at hp
  cases ht : Model.twoHop s0 d0
  · simp only [ht, Bool.false_eq_true, if_false, ite_false, bind, Except.bind, pure, Except.pure] at hp ⊢
    obtain ⟨s, d, sc, dc, sk, dk, sd, dd, jsd, jdd, hs, hd, H⟩ := Hdirect ht
    have := go_pipeline_core_eq_js s0 d0 s d sc dc sk dk js jd jsk jdk sd dd jsd jdd hs hd H ⟨x, y, none⟩ p hp
    have hz : Js.num (none : Option ℝ) = 0 := by unfold Js.num; simp only [Option.getD_none]; rnum
    simp only [hz] at this
    rnum
    rw [show Model.transformCore s0 d0 x y 0 = Except.ok (p.x, p.y, Js.num p.z) from this]
  · simp only [ht, if_true, ite_true, hwm, hwj, bind, pure, Except.pure, ebind_ok] at hp ⊢
    obtain ⟨q, hq, hK⟩ := bind_ok _ _ p hp
    obtain ⟨s, d, sc, dc, sk, dk, sd, dd, jsd, jdd, hs, hd, H⟩ := Hleg1 ht
    have h1 := go_pipeline_core_eq_js s0 wm s d sc dc sk dk js wj jsk wk sd dd jsd jdd hs hd H ⟨x, y, none⟩ q hq
    obtain ⟨s', d', sc', dc', sk', dk', sd', dd', jsd', jdd', hs', hd', H'⟩ := Hleg2 ht
    have h2 := go_pipeline_core_eq_js wm d0 s' d' sc' dc' sk' dk' wj jd wk jdk sd' dd' jsd' jdd' hs' hd' H' q p hK
    have hz : Js.num (none : Option ℝ) = 0 := by unfold Js.num; simp only [Option.getD_none]; rnum
    simp only [hz] at h1
    rnum
    rw [show Model.transformCore s0 wm x y 0 = Except.ok (q.x, q.y, Js.num q.z) from h1]
    simp only [Except.bind, if_true, ite_true]
    rw [h2]
/-- from the (x, y) identities of `ProofsProj` to a pipeline stage -/
theorem stage_of (f : ℝ → ℝ → Except String (ℝ × ℝ)) (g : Js.P ℝ → Except String (Js.P ℝ))
    (h : ∀ x y z, okOf (f x y) = xyOf (g ⟨x, y, z⟩)) (hz : ∀ p q, g p = .ok q → q.z = p.z) : StageSame f g := by
  intro p
  obtain ⟨px, py, pz⟩ := p
  have hxy := h px py pz
  constructor
  · intro a b hf
    simp only at hf
    rw [hf] at hxy
    cases hg : g ⟨px, py, pz⟩ with
    | error e => rw [hg] at hxy; simp [okOf, xyOf] at hxy
    | ok q =>
      rw [hg] at hxy
      have hq := hz _ _ hg
      simp only [okOf, xyOf, Option.some.injEq, Prod.mk.injEq] at hxy
      obtain ⟨qx, qy, qz⟩ := q
      simp only at hq hxy
      rw [hq, ← hxy.1, ← hxy.2]
  · intro e hf
    simp only at hf
    rw [hf] at hxy
    cases hg : g ⟨px, py, pz⟩ with
    | error e' => exact ⟨e', rfl⟩
    | ok q => rw [hg] at hxy; simp [okOf, xyOf] at hxy

/-- the proj4js projection methods write `x` and `y` only -/
theorem js_forward_keeps_z (k : Js.Kind) (o : Js.Obj ℝ) (p q : Js.P ℝ) (h : Js.forward k o p = .ok q) : q.z = p.z := by
  unfold Js.forward at h
  cases k <;>
    (simp only [Js.mercForward, Js.lccForward, Js.aeaForward, Js.eqdcForward, Js.tmercForward, Js.krovakForward] at h
     repeat' (split at h)
     all_goals first | (cases h; rfl) | (cases h))

theorem js_inverse_keeps_z (k : Js.Kind) (o : Js.Obj ℝ) (p q : Js.P ℝ) (h : Js.inverse k o p = .ok q) : q.z = p.z := by
  unfold Js.inverse at h
  cases k <;>
    (simp only [Js.mercInverse, Js.lccInverse, Js.aeaInverse, Js.eqdcInverse, Js.tmercInverse, Js.krovakInverse] at h
     repeat' (split at h)
     all_goals first | (cases h; rfl) | (cases h))
end GeomV.C09
