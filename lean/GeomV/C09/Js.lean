import GeomV.C09.Num
import GeomV.C09.Tables
import GeomV.C09.Gen.Tables
/-!
`Model/Js`: a transliteration of the vendored proj4js 2.3.12 (`/repo/proj/proj4js-2.3.12/lib`),
written from the JavaScript, file by file: `common/*.js`, `projString.js`, `deriveConstants.js`,
`datum.js`, `datum_transform.js`, `transform.js` and the eight projections the Go port supports.
Generic over the number class (`Float` for the correspondence run, `ℝ` for the theorems).

JavaScript specifics that are kept:
* an absent property is `none`; `if (x)` / `!x` / `x || d` on numbers is JS truthiness
  (`undefined`, `NaN` and `0` are falsy): `truthyO`;
* `'x0' in this` (merc) is presence, not truthiness;
* arithmetic on `undefined` gives `NaN`: `num`;
* `p.z ? p.z : 0` in the geocentric conversions, and the point object keeps its `z` between the
  two hops of the WGS84 workaround of `transform.js`;
* the tables are the ones regenerated from `lib/constants/*.js` (`Gen.js*`).
Where proj4js signals failure by `return null` / an error code / `-9999` / `NaN` that its caller
`transform.js` ignores, the model returns `.error` (the returned point is meaningless there).
-/
namespace GeomV.C09.Js
open GeomV.C09

variable {α : Type} [RTrans α]

/-! ## common/*.js -/

def HALF_PI : α := pi / 2
def TWO_PI : α := pi * 2
def SPI : α := 3.14159265359
def FORTPI : α := pi / 4
def EPSLN : α := 1.0e-10
def D2R : α := 0.01745329251994329577
def R2D : α := 57.29577951308232088

/-- common/sign.js -/
def sign (x : α) : α := if lt x 0 then -1 else 1
/-- common/adjust_lon.js -/
def adjust_lon (x : α) : α := if le (abs x) SPI then x else (x - (sign x * TWO_PI))
/-- common/adjust_lat.js -/
def adjust_lat (x : α) : α := if lt (abs x) HALF_PI then x else (x - (sign x * pi))
/-- common/msfnz.js -/
def msfnz (eccent sinphi cosphi : α) : α :=
  let con := eccent * sinphi
  cosphi / (sqrt (1 - con * con))
/-- common/tsfnz.js -/
def tsfnz (eccent phi sinphi : α) : α :=
  let con := eccent * sinphi
  let com := 0.5 * eccent
  let con := pow ((1 - con) / (1 + con)) com
  (tan (0.5 * (HALF_PI - phi)) / con)
/-- common/e0fn.js -/
def e0fn (x : α) : α := (1 - 0.25 * x * (1 + x / 16 * (3 + 1.25 * x)))
/-- common/e1fn.js -/
def e1fn (x : α) : α := (0.375 * x * (1 + 0.25 * x * (1 + 0.46875 * x)))
/-- common/e2fn.js -/
def e2fn (x : α) : α := (0.05859375 * x * x * (1 + 0.75 * x))
/-- common/e3fn.js -/
def e3fn (x : α) : α := (x * x * x * (35 / 3072))
/-- common/mlfn.js -/
def mlfn (e0 e1 e2 e3 phi : α) : α :=
  (e0 * phi - e1 * sin (2 * phi) + e2 * sin (4 * phi) - e3 * sin (6 * phi))
/-- common/asinz.js -/
def asinz (x : α) : α :=
  let x := if gt (abs x) 1 then (if gt x 1 then 1 else -1) else x
  asin x
/-- common/qsfnz.js -/
def qsfnz (eccent sinphi : α) : α :=
  if gt eccent 1.0e-7 then
    let con := eccent * sinphi
    ((1 - eccent * eccent) * (sinphi / (1 - con * con) - (0.5 / eccent) * log ((1 - con) / (1 + con))))
  else
    (2 * sinphi)

/-- loop of common/phi2z.js (`for (var i = 0; i <= 15; i++)`): remaining iterations -/
def phi2zLoop (eccent ts eccnth : α) : Nat → α → Option α
  | 0, _ => none   -- `return -9999`
  | n+1, phi =>
    let con := eccent * sin phi
    let dphi := HALF_PI - 2 * atan (ts * (pow ((1 - con) / (1 + con)) eccnth)) - phi
    let phi := phi + dphi
    if le (abs dphi) 0.0000000001 then some phi else phi2zLoop eccent ts eccnth n phi
/-- common/phi2z.js; `none` is the sentinel `-9999` -/
def phi2z (eccent ts : α) : Option α :=
  let eccnth := 0.5 * eccent
  let phi := HALF_PI - 2 * atan ts
  phi2zLoop eccent ts eccnth 16 phi

def imlfnLoop (ml e0 e1 e2 e3 : α) : Nat → α → Option α
  | 0, _ => none   -- `return NaN`
  | n+1, phi =>
    let dphi := (ml - (e0 * phi - e1 * sin (2 * phi) + e2 * sin (4 * phi) - e3 * sin (6 * phi))) /
      (e0 - 2 * e1 * cos (2 * phi) + 4 * e2 * cos (4 * phi) - 6 * e3 * cos (6 * phi))
    let phi := phi + dphi
    if le (abs dphi) 0.0000000001 then some phi else imlfnLoop ml e0 e1 e2 e3 n phi
/-- common/imlfn.js; `none` is the `NaN` returned after 15 iterations -/
def imlfn (ml e0 e1 e2 e3 : α) : Option α := imlfnLoop ml e0 e1 e2 e3 15 (ml / e0)

/-! ## objects -/

/-- value of a possibly absent numeric property in arithmetic -/
def num (o : Option α) : α := o.getD nan
/-- `if (o)` for a possibly absent numeric property -/
def truthyO (o : Option α) : Bool := match o with | some v => truthy v | none => false

/-- datum.js object -/
structure Datum (α : Type) where
  datum_type : Nat
  datum_params : Option (List α)
  a : α
  b : α
  es : α
  ep2 : α
deriving Inhabited

def PJD_3PARAM : Nat := 1
def PJD_7PARAM : Nat := 2
def PJD_GRIDSHIFT : Nat := 3
def PJD_WGS84 : Nat := 4
def PJD_NODATUM : Nat := 5
def SEC_TO_RAD : α := 4.84813681109535993589914102357e-6

/-- the projection object: properties written by projString.js, deriveConstants.js and the
`init` of the projection -/
structure Obj (α : Type) where
  projName : Option String := none
  datumCode : Option String := none
  ellps : Option String := none
  units : Option String := none
  nadgrids : Option String := none
  axis : Option String := none
  rf : Option α := none
  lat0 : Option α := none
  lat1 : Option α := none
  lat2 : Option α := none
  lat_ts : Option α := none
  long0 : Option α := none
  x0 : Option α := none
  y0 : Option α := none
  k0 : Option α := none
  k : Option α := none
  a : Option α := none
  b : Option α := none
  zone : Option α := none
  to_meter : Option α := none
  from_greenwich : Option α := none
  datum_params : Option (List α) := none
  R_A : Bool := false
  utmSouth : Bool := false
  sphere : Bool := false
  czech : Bool := false
  a2 : α
  b2 : α
  es : α
  e : α
  ep2 : α
  datum : Option (Datum α) := none
  /-- `init` did not install forward/inverse (utm without zone): calling them throws -/
  noMethods : Bool := false
  -- constants computed by the projection's init
  ns : α
  f0 : α
  rh : α
  e3 : α
  ns0 : α
  c : α
  g : α
  e0 : α
  e1 : α
  e2 : α
  e3s : α
  ml0 : α
  alfa : α
  kk : α
  n : α
  ro0 : α
  ad : α
  s0 : α
deriving Inhabited

/-- the object `{}` (numeric slots that `init` fills later start as `NaN`/`undefined`) -/
def Obj.empty : Obj α :=
  { a2 := nan, b2 := nan, es := nan, e := nan, ep2 := nan, ns := nan, f0 := nan, rh := nan, e3 := nan, ns0 := nan, c := nan, g := nan, e0 := nan, e1 := nan, e2 := nan, e3s := nan, ml0 := nan, alfa := nan, kk := nan, n := nan, ro0 := nan, ad := nan, s0 := nan }


/-! ## projString.js -/

/-- `parseFloat(v)` / `v * D2R` on a parameter value; a bare `+name` has the value `true` -/
def jsNum (v : Option String) : α :=
  match v with
  | none => 1            -- `true` in arithmetic
  | some s => (parseNum s).getD nan

def trimStr (s : String) : String := (s.trimAscii).toString

/-- the ordered `paramObj`: later duplicates overwrite in place -/
def paramObj (defData : String) : List (String × Option String) :=
  let parts := ((defData.splitOn "+").map trimStr).filter (· ≠ "")
  parts.foldl (fun acc a =>
    let sp := a.splitOn "="
    let key := (sp.headD "").toLower
    let val : Option String := match sp with | _ :: v :: _ => some v | _ => none
    if acc.any (·.1 == key) then acc.map (fun kv => if kv.1 == key then (key, val) else kv)
    else acc ++ [(key, val)]) []

def legalAxis (v : String) : Bool :=
  v.length == 3 && v.toList.all (fun c => "ewnsud".toList.contains c)

def applyParam (self : Obj α) (kv : String × Option String) : Obj α :=
  let (name, v) := kv
  let sv := v.getD "true"
  match name with
  | "proj" => { self with projName := some sv }
  | "datum" => { self with datumCode := some sv }
  | "rf" => { self with rf := some (jsNum v) }
  | "lat_0" => { self with lat0 := some (jsNum v * D2R) }
  | "lat_1" => { self with lat1 := some (jsNum v * D2R) }
  | "lat_2" => { self with lat2 := some (jsNum v * D2R) }
  | "lat_ts" => { self with lat_ts := some (jsNum v * D2R) }
  | "lon_0" => { self with long0 := some (jsNum v * D2R) }
  | "lon_1" => self
  | "lon_2" => self
  | "alpha" => self
  | "lonc" => self
  | "x_0" => { self with x0 := some (jsNum v) }
  | "y_0" => { self with y0 := some (jsNum v) }
  | "k_0" => { self with k0 := some (jsNum v) }
  | "k" => { self with k0 := some (jsNum v) }
  | "a" => { self with a := some (jsNum v) }
  | "b" => { self with b := some (jsNum v) }
  | "r_a" => { self with R_A := true }
  | "zone" => { self with zone := some (jsNum v) }   -- parseInt(v, 10); zones are written as integers
  | "south" => { self with utmSouth := true }
  | "towgs84" => { self with datum_params := some ((sv.splitOn ",").map fun s => jsNum (some s)) }
  | "to_meter" => { self with to_meter := some (jsNum v) }
  | "units" =>
    match lookupNum Gen.jsUnits sv with
    | some d => { self with units := some sv, to_meter := some d.toNum }
    | none => { self with units := some sv }
  | "from_greenwich" => { self with from_greenwich := some (jsNum v * D2R) }
  | "pm" =>
    -- (PrimeMeridian[v] ? PrimeMeridian[v] : parseFloat(v)) * D2R ; `greenwich: 0.0` is falsy
    let named : Option α := (lookupNum Gen.jsPrimeMeridians sv).map Dec.toNum
    let base : α := match named with
      | some d => if truthy d then d else jsNum v
      | none => jsNum v
    { self with from_greenwich := some (base * D2R) }
  | "nadgrids" => if sv == "@null" then { self with datumCode := some "none" } else { self with nadgrids := some sv }
  | "axis" => if legalAxis sv then { self with axis := some sv } else self
  | "ellps" => { self with ellps := some sv }
  | "czech" => { self with czech := true }
  | _ => self    -- `self[paramName] = paramVal` for properties nothing reads (title, no_defs, ...)

/-- projString.js -/
def projString (defData : String) : Obj α :=
  let self := (paramObj defData).foldl applyParam (Obj.empty : Obj α)
  match self.datumCode with
  | some dc => if dc ≠ "WGS84" then { self with datumCode := some dc.toLower } else self
  | none => self

/-! ## datum.js -/

def listGet (l : List α) (i : Nat) : α := (l[i]?).getD nan
def listSet (l : List α) (i : Nat) (v : α) : List α := l.set i v

/-- `datum(proj)` constructor -/
def mkDatum (proj : Obj α) : Datum α :=
  let ty := PJD_WGS84
  let ty := if proj.datumCode == some "none" then PJD_NODATUM else ty
  let (ty, dp) : Nat × Option (List α) :=
    match proj.datum_params with
    | none => (ty, none)
    | some ps =>
      let ty := if ne (listGet ps 0) 0 || ne (listGet ps 1) 0 || ne (listGet ps 2) 0 then PJD_3PARAM else ty
      if ps.length > 3 then
        if ne (listGet ps 3) 0 || ne (listGet ps 4) 0 || ne (listGet ps 5) 0 || ne (listGet ps 6) 0 then
          let ps := listSet ps 3 (listGet ps 3 * SEC_TO_RAD)
          let ps := listSet ps 4 (listGet ps 4 * SEC_TO_RAD)
          let ps := listSet ps 5 (listGet ps 5 * SEC_TO_RAD)
          let ps := listSet ps 6 ((listGet ps 6 / 1000000.0) + 1.0)
          (PJD_7PARAM, some ps)
        else (ty, some ps)
      else (ty, some ps)
  -- `proj.grids` is never set by projString.js, so the type is not GRIDSHIFT
  { datum_type := ty, datum_params := dp, a := num proj.a, b := num proj.b, es := proj.es, ep2 := proj.ep2 }

def dpar (d : Datum α) (i : Nat) : α := listGet (d.datum_params.getD []) i

/-- `compare_datums` -/
def compare_datums (this dest : Datum α) : Bool :=
  if this.datum_type != dest.datum_type then false
  else if ne this.a dest.a || gt (abs (this.es - dest.es)) 0.000000000050 then false
  else if this.datum_type == PJD_3PARAM then
    eq (dpar this 0) (dpar dest 0) && eq (dpar this 1) (dpar dest 1) && eq (dpar this 2) (dpar dest 2)
  else if this.datum_type == PJD_7PARAM then
    eq (dpar this 0) (dpar dest 0) && eq (dpar this 1) (dpar dest 1) && eq (dpar this 2) (dpar dest 2) &&
    eq (dpar this 3) (dpar dest 3) && eq (dpar this 4) (dpar dest 4) && eq (dpar this 5) (dpar dest 5) &&
    eq (dpar this 6) (dpar dest 6)
  else true   -- (the GRIDSHIFT branch compares `nadgrids`, both undefined)

structure P (α : Type) where
  x : α
  y : α
  /-- `p.z`; `none` = the property is absent -/
  z : Option α := none
deriving Inhabited

/-- `p.z ? p.z : 0` -/
def zOr0 (p : P α) : α := match p.z with | some z => if truthy z then z else 0 | none => 0

/-- `geodetic_to_geocentric` (`.error` where it returns `null`) -/
def geodetic_to_geocentric (this : Datum α) (p : P α) : Except String (P α) :=
  let Longitude := p.x
  let Latitude := p.y
  let Height := zOr0 p
  let r : Except String α :=
    if lt Latitude (-HALF_PI) && gt Latitude (-1.001 * HALF_PI) then .ok (-HALF_PI)
    else if gt Latitude HALF_PI && lt Latitude (1.001 * HALF_PI) then .ok HALF_PI
    else if lt Latitude (-HALF_PI) || gt Latitude HALF_PI then .error "geodetic_to_geocentric: latitude out of range"
    else .ok Latitude
  match r with
  | .error e => .error e
  | .ok Latitude =>
    let Longitude := if gt Longitude pi then Longitude - (2 * pi) else Longitude
    let Sin_Lat := sin Latitude
    let Cos_Lat := cos Latitude
    let Sin2_Lat := Sin_Lat * Sin_Lat
    let Rn := this.a / (sqrt (1.0e0 - this.es * Sin2_Lat))
    let X := (Rn + Height) * Cos_Lat * cos Longitude
    let Y := (Rn + Height) * Cos_Lat * sin Longitude
    let Z := ((Rn * (1 - this.es)) + Height) * Sin_Lat
    .ok { x := X, y := Y, z := some Z }

structure GState (α : Type) where
  CPHI0 : α
  SPHI0 : α
  CPHI : α
  SPHI : α
  Height : α

/-- the `do { } while (SDPHI*SDPHI > genau2 && iter < maxiter)` loop; `fuel` = remaining iterations -/
def geodeticLoop (a es P Z ST CT : α) : Nat → α → α → GState α
  | 0, CPHI0, SPHI0 => ⟨CPHI0, SPHI0, CPHI0, SPHI0, nan⟩
  | n+1, CPHI0, SPHI0 =>
    let RN := a / sqrt (1.0 - es * SPHI0 * SPHI0)
    let Height := P * CPHI0 + Z * SPHI0 - RN * (1.0 - es * SPHI0 * SPHI0)
    let RK := es * RN / (RN + Height)
    let RX := 1.0 / sqrt (1.0 - RK * (2.0 - RK) * ST * ST)
    let CPHI := ST * (1.0 - RK) * RX
    let SPHI := CT * RX
    let SDPHI := SPHI * CPHI0 - CPHI * SPHI0
    -- continue while SDPHI^2 > genau2 and iter < maxiter (n = maxiter - iter)
    if gt (SDPHI * SDPHI) (1e-12 * 1e-12) && n != 0 then geodeticLoop a es P Z ST CT n CPHI SPHI
    else ⟨CPHI, SPHI, CPHI, SPHI, Height⟩

/-- `geocentric_to_geodetic` (`.error` where it returns `undefined` leaving the point untouched) -/
def geocentric_to_geodetic (this : Datum α) (p : P α) : Except String (P α) :=
  let genau : α := 1e-12
  let X := p.x
  let Y := p.y
  let Z := zOr0 p
  let Pd := sqrt (X * X + Y * Y)
  let RR := sqrt (X * X + Y * Y + Z * Z)
  let atPole := lt (Pd / this.a) genau
  if atPole && lt (RR / this.a) genau then .error "geocentric_to_geodetic: centre of the earth"
  else
    let Longitude : α := if atPole then 0.0 else atan2 Y X
    let CT := Z / RR
    let ST := Pd / RR
    let RX := 1.0 / sqrt (1.0 - this.es * (2.0 - this.es) * ST * ST)
    let CPHI0 := ST * (1.0 - this.es) * RX
    let SPHI0 := CT * RX
    let s := geodeticLoop this.a this.es Pd Z ST CT 30 CPHI0 SPHI0
    let Latitude := atan (s.SPHI / abs s.CPHI)
    .ok { x := Longitude, y := Latitude, z := some s.Height }

/-- `geocentric_to_wgs84` -/
def geocentric_to_wgs84 (this : Datum α) (p : P α) : P α :=
  let z := num p.z
  if this.datum_type == PJD_3PARAM then
    { x := p.x + dpar this 0, y := p.y + dpar this 1, z := some (z + dpar this 2) }
  else if this.datum_type == PJD_7PARAM then
    let Dx_BF := dpar this 0
    let Dy_BF := dpar this 1
    let Dz_BF := dpar this 2
    let Rx_BF := dpar this 3
    let Ry_BF := dpar this 4
    let Rz_BF := dpar this 5
    let M_BF := dpar this 6
    let x_out := M_BF * (p.x - Rz_BF * p.y + Ry_BF * z) + Dx_BF
    let y_out := M_BF * (Rz_BF * p.x + p.y - Rx_BF * z) + Dy_BF
    let z_out := M_BF * (-Ry_BF * p.x + Rx_BF * p.y + z) + Dz_BF
    { x := x_out, y := y_out, z := some z_out }
  else p

/-- `geocentric_from_wgs84` -/
def geocentric_from_wgs84 (this : Datum α) (p : P α) : P α :=
  let z := num p.z
  if this.datum_type == PJD_3PARAM then
    { x := p.x - dpar this 0, y := p.y - dpar this 1, z := some (z - dpar this 2) }
  else if this.datum_type == PJD_7PARAM then
    let Dx_BF := dpar this 0
    let Dy_BF := dpar this 1
    let Dz_BF := dpar this 2
    let Rx_BF := dpar this 3
    let Ry_BF := dpar this 4
    let Rz_BF := dpar this 5
    let M_BF := dpar this 6
    let x_tmp := (p.x - Dx_BF) / M_BF
    let y_tmp := (p.y - Dy_BF) / M_BF
    let z_tmp := (z - Dz_BF) / M_BF
    { x := x_tmp + Rz_BF * y_tmp - Ry_BF * z_tmp,
      y := -Rz_BF * x_tmp + y_tmp + Rx_BF * z_tmp,
      z := some (Ry_BF * x_tmp - Rx_BF * y_tmp + z_tmp) }
  else p

/-! ## datum_transform.js -/

def checkParams (t : Nat) : Bool := t == PJD_3PARAM || t == PJD_7PARAM

def datum_transform (source dest : Datum α) (point : P α) : Except String (P α) :=
  if compare_datums source dest then .ok point
  else if source.datum_type == PJD_NODATUM || dest.datum_type == PJD_NODATUM then .ok point
  else if source.datum_type == PJD_GRIDSHIFT || dest.datum_type == PJD_GRIDSHIFT then .error "grid shift"
  else if ne source.es dest.es || ne source.a dest.a || checkParams source.datum_type || checkParams dest.datum_type then do
    let p ← geodetic_to_geocentric source point
    let p := if checkParams source.datum_type then geocentric_to_wgs84 source p else p
    let p := if checkParams dest.datum_type then geocentric_from_wgs84 dest p else p
    geocentric_to_geodetic dest p
  else .ok point

/-! ## deriveConstants.js -/

def SIXTH : α := 0.1666666666666666667
def RA4 : α := 0.04722222222222222222
def RA6 : α := 0.02215608465608465608

def decO (d : Option Dec) : Option α := d.map Dec.toNum

/-- deriveConstants.js, the datum and ellipsoid table lookups -/
def deriveTables (json : Obj α) : Obj α :=
  -- datum table
  let json :=
    match json.datumCode with
    | some dc =>
      if dc ≠ "" && dc ≠ "none" then
        match lookupDatum Gen.jsDatums dc with
        | some dd =>
          -- `datumDef.towgs84 ? datumDef.towgs84.split(',') : null`
          let ps : Option (List α) := if dd.towgs84.isEmpty then none else some (dd.towgs84.map Dec.toNum)
          { json with datum_params := ps, ellps := some dd.ellipse }
        | none => json
      else json
    | none => json
  -- `if (!json.a)`: extend(json, ellipse) copies every defined property of the table row
  if !truthyO json.a then
    let row := match json.ellps.bind (lookupEll Gen.jsEllipsoids) with
      | some r => r
      | none => (lookupEll Gen.jsEllipsoids "WGS84").getD default
    let json := match decO row.a with | some v => { json with a := some v } | none => json
    let json := match decO row.b with | some v => { json with b := some v } | none => json
    match decO row.rf with | some v => { json with rf := some v } | none => json
  else json

/-- the properties the middle of deriveConstants.js reads or writes -/
structure JC (α : Type) where
  a : Option α
  b : Option α
  rf : Option α
  k0 : Option α
  R_A : Bool
  sphere : Bool
  a2 : α
  b2 : α
  es : α
  e : α
  ep2 : α

/-! deriveConstants.js from `if (json.rf && !json.b)` to the `k0` default, statement by statement -/

/-- `if (json.rf && !json.b) { json.b = (1.0 - 1.0 / json.rf) * json.a; }` -/
def dc1 (json : JC α) : JC α :=
  if truthyO json.rf && !truthyO json.b then
    { json with b := some ((1.0 - 1.0 / num json.rf) * num json.a) } else json
/-- `if (json.rf === 0 || Math.abs(json.a - json.b) < EPSLN) { json.sphere = true; json.b = json.a; }` -/
def dc2 (json : JC α) : JC α :=
  let rfIsZero := match json.rf with | some v => eq v 0 | none => false
  if rfIsZero || lt (abs (num json.a - num json.b)) EPSLN then
    { json with sphere := true, b := json.a } else json
/-- `json.a2 = json.a * json.a;` -/
def dc3 (json : JC α) : JC α := { json with a2 := num json.a * num json.a }
/-- `json.b2 = json.b * json.b;` -/
def dc4 (json : JC α) : JC α := { json with b2 := num json.b * num json.b }
/-- `json.es = (json.a2 - json.b2) / json.a2;` -/
def dc5 (json : JC α) : JC α := { json with es := (json.a2 - json.b2) / json.a2 }
/-- `json.e = Math.sqrt(json.es);` -/
def dc6 (json : JC α) : JC α := { json with e := sqrt json.es }
/-- `if (json.R_A) { json.a *= 1 - json.es * (SIXTH + json.es * (RA4 + json.es * RA6)); json.a2 = json.a * json.a; json.b2 = json.b * json.b; json.es = 0; }` -/
def dc7 (json : JC α) : JC α :=
  if json.R_A then
    let json := { json with a := some (num json.a * (1 - json.es * (SIXTH + json.es * (RA4 + json.es * RA6)))) }
    let json := { json with a2 := num json.a * num json.a }
    let json := { json with b2 := num json.b * num json.b }
    { json with es := 0 }
  else json
/-- `json.ep2 = (json.a2 - json.b2) / json.b2;` -/
def dc8 (json : JC α) : JC α := { json with ep2 := (json.a2 - json.b2) / json.b2 }
/-- `if (!json.k0) { json.k0 = 1.0; }` -/
def dc9 (json : JC α) : JC α := if !truthyO json.k0 then { json with k0 := some 1.0 } else json

def deriveCoreS (json : JC α) : JC α := dc9 (dc8 (dc7 (dc6 (dc5 (dc4 (dc3 (dc2 (dc1 json))))))))

/-- the same on the projection object -/
def deriveCore (json : Obj α) : Obj α :=
  let r := deriveCoreS { a := json.a, b := json.b, rf := json.rf, k0 := json.k0, R_A := json.R_A, sphere := json.sphere,
                         a2 := json.a2, b2 := json.b2, es := json.es, e := json.e, ep2 := json.ep2 }
  { json with a := r.a, b := r.b, rf := r.rf, k0 := r.k0, R_A := r.R_A, sphere := r.sphere,
              a2 := r.a2, b2 := r.b2, es := r.es, e := r.e, ep2 := r.ep2 }

/-- deriveConstants.js, the axis default and the datum object -/
def deriveTail (json : Obj α) : Obj α :=
  let json := if json.axis.isNone || json.axis == some "" then { json with axis := some "enu" } else json
  if json.datum.isNone then { json with datum := some (mkDatum json) } else json

def deriveConstants (json : Obj α) : Obj α := deriveTail (deriveCore (deriveTables json))

/-! ## projections/*.js -/

def aO (o : Obj α) : α := num o.a

/-- merc.js init -/
def mercInit (this : Obj α) : Obj α :=
  let con := num this.b / num this.a
  let es := 1 - con * con
  let this := { this with es := es }
  let this := if this.x0.isNone then { this with x0 := some 0 } else this
  let this := if this.y0.isNone then { this with y0 := some 0 } else this
  let this := { this with e := sqrt es }
  if truthyO this.lat_ts then
    if this.sphere then { this with k0 := some (cos (num this.lat_ts)) }
    else { this with k0 := some (msfnz this.e (sin (num this.lat_ts)) (cos (num this.lat_ts))) }
  else
    if !truthyO this.k0 then
      if truthyO this.k then { this with k0 := this.k } else { this with k0 := some 1 }
    else this

/-- merc.js forward (the range test `lat*R2D > 90 && lat*R2D < -90 && ...` can never hold) -/
def mercForward (this : Obj α) (p : P α) : Except String (P α) :=
  let lon := p.x
  let lat := p.y
  if gt (lat * R2D) 90 && lt (lat * R2D) (-90) && gt (lon * R2D) 180 && lt (lon * R2D) (-180) then .error "merc: range"
  else if le (abs (abs lat - HALF_PI)) EPSLN then .error "merc: pole"
  else if this.sphere then
    let x := num this.x0 + aO this * num this.k0 * adjust_lon (lon - num this.long0)
    let y := num this.y0 + aO this * num this.k0 * log (tan (FORTPI + 0.5 * lat))
    .ok { p with x := x, y := y }
  else
    let sinphi := sin lat
    let ts := tsfnz this.e lat sinphi
    let x := num this.x0 + aO this * num this.k0 * adjust_lon (lon - num this.long0)
    let y := num this.y0 - aO this * num this.k0 * log ts
    .ok { p with x := x, y := y }

/-- merc.js inverse -/
def mercInverse (this : Obj α) (p : P α) : Except String (P α) :=
  let x := p.x - num this.x0
  let y := p.y - num this.y0
  let latE : Except String α :=
    if this.sphere then .ok (HALF_PI - 2 * atan (exp (-y / (aO this * num this.k0))))
    else
      let ts := exp (-y / (aO this * num this.k0))
      match phi2z this.e ts with
      | some lat => .ok lat
      | none => .error "merc: phi2z"
  match latE with
  | .error e => .error e
  | .ok lat =>
    let lon := adjust_lon (num this.long0 + x / (aO this * num this.k0))
    .ok { p with x := lon, y := lat }

/-- lcc.js init -/
def lccInit (this : Obj α) : Obj α :=
  let this := if !truthyO this.lat2 then { this with lat2 := this.lat1 } else this
  let this := if !truthyO this.k0 then { this with k0 := some 1 } else this
  let this := { this with x0 := some (if truthyO this.x0 then num this.x0 else 0),
                          y0 := some (if truthyO this.y0 then num this.y0 else 0) }
  if lt (abs (num this.lat1 + num this.lat2)) EPSLN then this
  else
    let temp := num this.b / num this.a
    let e := sqrt (1 - temp * temp)
    let lat1 := num this.lat1
    let lat2 := num this.lat2
    let sin1 := sin lat1
    let cos1 := cos lat1
    let ms1 := msfnz e sin1 cos1
    let ts1 := tsfnz e lat1 sin1
    let sin2 := sin lat2
    let cos2 := cos lat2
    let ms2 := msfnz e sin2 cos2
    let ts2 := tsfnz e lat2 sin2
    let ts0 := tsfnz e (num this.lat0) (sin (num this.lat0))
    let ns := if gt (abs (lat1 - lat2)) EPSLN then log (ms1 / ms2) / log (ts1 / ts2) else sin1
    let ns := if isNaN ns then sin1 else ns
    let f0 := ms1 / (ns * pow ts1 ns)
    let rh := aO this * f0 * pow ts0 ns
    { this with e := e, ns := ns, f0 := f0, rh := rh }

/-- lcc.js forward -/
def lccForward (this : Obj α) (p : P α) : Except String (P α) :=
  let lon := p.x
  let lat := p.y
  let lat := if le (abs (2 * abs lat - pi)) EPSLN then sign lat * (HALF_PI - 2 * EPSLN) else lat
  let con := abs (abs lat - HALF_PI)
  let r : Except String α :=
    if gt con EPSLN then
      let ts := tsfnz this.e lat (sin lat)
      .ok (aO this * this.f0 * pow ts this.ns)
    else
      let con := lat * this.ns
      if le con 0 then .error "lcc: con <= 0" else .ok 0
  match r with
  | .error e => .error e
  | .ok rh1 =>
    let theta := this.ns * adjust_lon (lon - num this.long0)
    .ok { p with x := num this.k0 * (rh1 * sin theta) + num this.x0,
                 y := num this.k0 * (this.rh - rh1 * cos theta) + num this.y0 }

/-- lcc.js inverse -/
def lccInverse (this : Obj α) (p : P α) : Except String (P α) :=
  let x := (p.x - num this.x0) / num this.k0
  let y := (this.rh - (p.y - num this.y0) / num this.k0)
  let (rh1, con) : α × α :=
    if gt this.ns 0 then (sqrt (x * x + y * y), 1) else (-sqrt (x * x + y * y), -1)
  let theta : α := if ne rh1 0 then atan2 (con * x) (con * y) else 0
  let latE : Except String α :=
    if ne rh1 0 || gt this.ns 0 then
      let con := 1 / this.ns
      let ts := pow (rh1 / (aO this * this.f0)) con
      match phi2z this.e ts with
      | some lat => .ok lat
      | none => .error "lcc: phi2z"
    else .ok (-HALF_PI)
  match latE with
  | .error e => .error e
  | .ok lat =>
    let lon := adjust_lon (theta / this.ns + num this.long0)
    .ok { p with x := lon, y := lat }

/-- aea.js init -/
def aeaInit (this : Obj α) : Obj α :=
  if lt (abs (num this.lat1 + num this.lat2)) EPSLN then this
  else
    let temp := num this.b / num this.a
    let es := 1 - pow temp 2
    let e3 := sqrt es
    let sin_po := sin (num this.lat1)
    let cos_po := cos (num this.lat1)
    let con := sin_po
    let ms1 := msfnz e3 sin_po cos_po
    let qs1 := qsfnz e3 sin_po
    let sin_po := sin (num this.lat2)
    let cos_po := cos (num this.lat2)
    let ms2 := msfnz e3 sin_po cos_po
    let qs2 := qsfnz e3 sin_po
    let sin_po := sin (num this.lat0)
    let qs0 := qsfnz e3 sin_po
    let ns0 := if gt (abs (num this.lat1 - num this.lat2)) EPSLN then (ms1 * ms1 - ms2 * ms2) / (qs2 - qs1) else con
    let c := ms1 * ms1 + ns0 * qs1
    let rh := aO this * sqrt (c - ns0 * qs0) / ns0
    { this with es := es, e3 := e3, ns0 := ns0, c := c, rh := rh }

/-- aea.js forward -/
def aeaForward (this : Obj α) (p : P α) : Except String (P α) :=
  let lon := p.x
  let lat := p.y
  let sin_phi := sin lat
  let qs := qsfnz this.e3 sin_phi
  let rh1 := aO this * sqrt (this.c - this.ns0 * qs) / this.ns0
  let theta := this.ns0 * adjust_lon (lon - num this.long0)
  let x := rh1 * sin theta + num this.x0
  let y := this.rh - rh1 * cos theta + num this.y0
  .ok { p with x := x, y := y }

def phi1zLoop (eccent qs eccnts : α) : Nat → α → Option α
  | 0, _ => none   -- `return null`
  | n+1, phi =>
    let sinphi := sin phi
    let cosphi := cos phi
    let con := eccent * sinphi
    let com := 1 - con * con
    let dphi := 0.5 * com * com / cosphi * (qs / (1 - eccnts) - sinphi / com + 0.5 / eccent * log ((1 - con) / (1 + con)))
    let phi := phi + dphi
    if le (abs dphi) 1e-7 then some phi else phi1zLoop eccent qs eccnts n phi

/-- aea.js phi1z -/
def phi1z (eccent qs : α) : Option α :=
  let phi := asinz (0.5 * qs)
  if lt eccent EPSLN then some phi
  else phi1zLoop eccent qs (eccent * eccent) 25 phi

/-- aea.js inverse -/
def aeaInverse (this : Obj α) (p : P α) : Except String (P α) :=
  let px := p.x - num this.x0
  let py := this.rh - p.y + num this.y0
  let (rh1, con) : α × α :=
    if ge this.ns0 0 then (sqrt (px * px + py * py), 1) else (-sqrt (px * px + py * py), -1)
  let theta : α := if ne rh1 0 then atan2 (con * px) (con * py) else 0
  let con := rh1 * this.ns0 / aO this
  let latE : Except String α :=
    if this.sphere then .ok (asin ((this.c - con * con) / (2 * this.ns0)))
    else
      let qs := (this.c - con * con) / this.ns0
      match phi1z this.e3 qs with
      | some lat => .ok lat
      | none => .error "aea: phi1z"
  match latE with
  | .error e => .error e
  | .ok lat =>
    let lon := adjust_lon (theta / this.ns0 + num this.long0)
    .ok { p with x := lon, y := lat }

/-- eqdc.js init -/
def eqdcInit (this : Obj α) : Obj α :=
  if lt (abs (num this.lat1 + num this.lat2)) EPSLN then this
  else
    let this := if truthyO this.lat2 then this else { this with lat2 := this.lat1 }
    let temp := num this.b / num this.a
    let es := 1 - pow temp 2
    let e := sqrt es
    let e0 := e0fn es
    let e1 := e1fn es
    let e2 := e2fn es
    let e3 := e3fn es
    let lat1 := num this.lat1
    let lat2 := num this.lat2
    let sinphi := sin lat1
    let cosphi := cos lat1
    let ms1 := msfnz e sinphi cosphi
    let ml1 := mlfn e0 e1 e2 e3 lat1
    let ns : α :=
      if lt (abs (lat1 - lat2)) EPSLN then sinphi
      else
        let sinphi := sin lat2
        let cosphi := cos lat2
        let ms2 := msfnz e sinphi cosphi
        let ml2 := mlfn e0 e1 e2 e3 lat2
        (ms1 - ms2) / (ml2 - ml1)
    let g := ml1 + ms1 / ns
    let ml0 := mlfn e0 e1 e2 e3 (num this.lat0)
    let rh := aO this * (g - ml0)
    { this with es := es, e := e, e0 := e0, e1 := e1, e2 := e2, e3s := e3, ns := ns, g := g, ml0 := ml0, rh := rh }

/-- eqdc.js forward -/
def eqdcForward (this : Obj α) (p : P α) : Except String (P α) :=
  let lon := p.x
  let lat := p.y
  let rh1 : α :=
    if this.sphere then aO this * (this.g - lat)
    else
      let ml := mlfn this.e0 this.e1 this.e2 this.e3s lat
      aO this * (this.g - ml)
  let theta := this.ns * adjust_lon (lon - num this.long0)
  let x := num this.x0 + rh1 * sin theta
  let y := num this.y0 + this.rh - rh1 * cos theta
  .ok { p with x := x, y := y }

/-- eqdc.js inverse -/
def eqdcInverse (this : Obj α) (p : P α) : Except String (P α) :=
  let px := p.x - num this.x0
  let py := this.rh - p.y + num this.y0
  let (rh1, con) : α × α :=
    if ge this.ns 0 then (sqrt (px * px + py * py), 1) else (-sqrt (px * px + py * py), -1)
  let theta : α := if ne rh1 0 then atan2 (con * px) (con * py) else 0
  if this.sphere then
    let lon := adjust_lon (num this.long0 + theta / this.ns)
    let lat := adjust_lat (this.g - rh1 / aO this)
    .ok { p with x := lon, y := lat }
  else
    let ml := this.g - rh1 / aO this
    match imlfn ml this.e0 this.e1 this.e2 this.e3s with
    | none => .error "eqdc: imlfn"
    | some lat =>
      let lon := adjust_lon (num this.long0 + theta / this.ns)
      .ok { p with x := lon, y := lat }

/-- tmerc.js init -/
def tmercInit (this : Obj α) : Obj α :=
  let e0 := e0fn this.es
  let e1 := e1fn this.es
  let e2 := e2fn this.es
  let e3 := e3fn this.es
  { this with e0 := e0, e1 := e1, e2 := e2, e3s := e3, ml0 := aO this * mlfn e0 e1 e2 e3 (num this.lat0) }

/-- tmerc.js forward -/
def tmercForward (this : Obj α) (p : P α) : Except String (P α) :=
  let lon := p.x
  let lat := p.y
  let delta_lon := adjust_lon (lon - num this.long0)
  let sin_phi := sin lat
  let cos_phi := cos lat
  let k0 := num this.k0
  if this.sphere then
    let b := cos_phi * sin delta_lon
    if lt (abs (abs b - 1)) 0.0000000001 then .error "tmerc: 93"
    else
      let x := 0.5 * aO this * k0 * log ((1 + b) / (1 - b))
      let con := acos (cos_phi * cos delta_lon / sqrt (1 - b * b))
      let con := if lt lat 0 then -con else con
      let y := aO this * k0 * (con - num this.lat0)
      .ok { p with x := x, y := y }
  else
    let al := cos_phi * delta_lon
    let als := pow al 2
    let c := this.ep2 * pow cos_phi 2
    let tq := tan lat
    let t := pow tq 2
    let con := 1 - this.es * pow sin_phi 2
    let n := aO this / sqrt con
    let ml := aO this * mlfn this.e0 this.e1 this.e2 this.e3s lat
    let x := k0 * n * al * (1 + als / 6 * (1 - t + c + als / 20 * (5 - 18 * t + pow t 2 + 72 * c - 58 * this.ep2))) + num this.x0
    let y := k0 * (ml - this.ml0 + n * tq * (als * (0.5 + als / 24 * (5 - t + 9 * c + 4 * pow c 2 + als / 30 * (61 - 58 * t + pow t 2 + 600 * c - 330 * this.ep2))))) + num this.y0
    .ok { p with x := x, y := y }

/-- `for (i = 0; true; i++)` of tmerc.js inverse: `i` counts up to `max_iter = 6` -/
def tmercPhiLoop (con e0 e1 e2 e3 : α) : Nat → α → Option α
  | 0, _ => none
  | n+1, phi =>
    let delta_phi := ((con + e1 * sin (2 * phi) - e2 * sin (4 * phi) + e3 * sin (6 * phi)) / e0) - phi
    let phi := phi + delta_phi
    if le (abs delta_phi) EPSLN then some phi
    else if n == 0 then none   -- `i >= max_iter` → return (95)
    else tmercPhiLoop con e0 e1 e2 e3 n phi

/-- tmerc.js inverse -/
def tmercInverse (this : Obj α) (p : P α) : Except String (P α) :=
  let k0 := num this.k0
  if this.sphere then
    let f := exp (p.x / (aO this * k0))
    let g := 0.5 * (f - 1 / f)
    let temp := num this.lat0 + p.y / (aO this * k0)
    let h := cos temp
    let con := sqrt ((1 - h * h) / (1 + g * g))
    let lat := asinz con
    let lat := if lt temp 0 then -lat else lat
    let lon := if eq g 0 && eq h 0 then num this.long0 else adjust_lon (atan2 g h + num this.long0)
    .ok { p with x := lon, y := lat }
  else
    let x := p.x - num this.x0
    let y := p.y - num this.y0
    let con := (this.ml0 + y / k0) / aO this
    match tmercPhiLoop con this.e0 this.e1 this.e2 this.e3s 7 con with
    | none => .error "tmerc: 95"
    | some phi =>
      if lt (abs phi) HALF_PI then
        let sin_phi := sin phi
        let cos_phi := cos phi
        let tan_phi := tan phi
        let c := this.ep2 * pow cos_phi 2
        let cs := pow c 2
        let t := pow tan_phi 2
        let ts := pow t 2
        let con := 1 - this.es * pow sin_phi 2
        let n := aO this / sqrt con
        let r := n * (1 - this.es) / con
        let d := x / (n * k0)
        let ds := pow d 2
        let lat := phi - (n * tan_phi * ds / r) * (0.5 - ds / 24 * (5 + 3 * t + 10 * c - 4 * cs - 9 * this.ep2 - ds / 30 * (61 + 90 * t + 298 * c + 45 * ts - 252 * this.ep2 - 3 * cs)))
        let lon := adjust_lon (num this.long0 + (d * (1 - ds / 6 * (1 + 2 * t + c - ds / 20 * (5 - 2 * c + 28 * t - 3 * cs + 8 * this.ep2 + 24 * ts))) / cos_phi))
        .ok { p with x := lon, y := lat }
      else
        .ok { p with x := num this.long0, y := HALF_PI * sign y }

/-- utm.js init -/
def utmInit (this : Obj α) : Obj α :=
  if !truthyO this.zone then { this with noMethods := true }
  else
    let this := { this with lat0 := some 0,
                            long0 := some (((6 * abs (num this.zone)) - 183) * D2R),
                            x0 := some 500000,
                            y0 := some (if this.utmSouth then 10000000 else 0),
                            k0 := some 0.9996 }
    tmercInit this

/-- krovak.js init -/
def krovakInit (this : Obj α) : Obj α :=
  let this : Obj α := { this with a := some (6377397.155 : α), es := (0.006674372230614 : α) }
  let this : Obj α := { this with e := sqrt this.es }
  let this := if !truthyO this.lat0 then { this with lat0 := some (0.863937979737193 : α) } else this
  let this := if !truthyO this.long0 then { this with long0 := some ((0.7417649320975901 : α) - 0.308341501185665) } else this
  let this := if !truthyO this.k0 then { this with k0 := some (0.9999 : α) } else this
  let s45 : α := 0.785398163397448
  let s90 := 2 * s45
  let fi0 := num this.lat0
  let e2 := this.es
  let e := sqrt e2
  let alfa := sqrt (1 + (e2 * pow (cos fi0) 4) / (1 - e2))
  let uq : α := 1.04216856380474
  let u0 := asin (sin fi0 / alfa)
  let g := pow ((1 + e * sin fi0) / (1 - e * sin fi0)) (alfa * e / 2)
  let k := tan (u0 / 2 + s45) / pow (tan (fi0 / 2 + s45)) alfa * g
  let k1 := num this.k0
  let n0 := aO this * sqrt (1 - e2) / (1 - e2 * pow (sin fi0) 2)
  let s0 : α := 1.37008346281555
  let n := sin s0
  let ro0 := k1 * n0 / tan s0
  let ad := s90 - uq
  { this with e := e, alfa := alfa, kk := k, n := n, ro0 := ro0, ad := ad, s0 := s0 }

def S45 : α := 0.785398163397448

/-- krovak.js forward -/
def krovakForward (this : Obj α) (p : P α) : Except String (P α) :=
  let lon := p.x
  let lat := p.y
  let delta_lon := adjust_lon (lon - num this.long0)
  let gfi := pow ((1 + this.e * sin lat) / (1 - this.e * sin lat)) (this.alfa * this.e / 2)
  let u := 2 * (atan (this.kk * pow (tan (lat / 2 + S45)) this.alfa / gfi) - S45)
  let deltav := -delta_lon * this.alfa
  let s := asin (cos this.ad * sin u + sin this.ad * cos u * cos deltav)
  let d := asin (cos u * sin deltav / cos s)
  let eps := this.n * d
  let ro := this.ro0 * pow (tan (this.s0 / 2 + S45)) this.n / pow (tan (s / 2 + S45)) this.n
  let y := ro * cos eps / 1
  let x := ro * sin eps / 1
  if !this.czech then .ok { p with x := x * (-1), y := y * (-1) } else .ok { p with x := x, y := y }

def krovakIter (this : Obj α) (u : α) : Nat → α → Option α
  | 0, _ => none
  | n+1, fi1 =>
    let y := 2 * (atan (pow this.kk (-1 / this.alfa) * pow (tan (u / 2 + S45)) (1 / this.alfa) *
      pow ((1 + this.e * sin fi1) / (1 - this.e * sin fi1)) (this.e / 2)) - S45)
    -- `iter` reaches 15 exactly when n = 0 here; the function then returns null even if ok
    if lt (abs (fi1 - y)) 0.0000000001 then (if n == 0 then none else some y)
    else krovakIter this u n y

/-- krovak.js inverse -/
def krovakInverse (this : Obj α) (p : P α) : Except String (P α) :=
  let px := p.y
  let py := p.x
  let (px, py) := if !this.czech then (px * (-1), py * (-1)) else (px, py)
  let ro := sqrt (px * px + py * py)
  let eps := atan2 py px
  let d := eps / sin this.s0
  let s := 2 * (atan (pow (this.ro0 / ro) (1 / this.n) * tan (this.s0 / 2 + S45)) - S45)
  let u := asin (cos this.ad * sin s - sin this.ad * cos s * cos d)
  let deltav := asin (cos s * sin d / cos u)
  let x := num this.long0 - deltav / this.alfa
  match krovakIter this u 15 u with
  | none => .error "krovak: iter"
  | some y => .ok { p with x := x, y := y }

/-! ## Proj.js -/

inductive Kind | longlat | merc | lcc | aea | eqdc | tmerc | utm | krovak
deriving DecidableEq, Repr

/-- `projections.get(name)`: the registered names, compared in lower case -/
def kindOf (name : String) : Option Kind :=
  match name.toLower with
  | "longlat" | "identity" => some .longlat
  | "mercator" | "popular visualisation pseudo mercator" | "mercator_1sp" | "mercator_auxiliary_sphere" | "merc" => some .merc
  | "lambert tangential conformal conic projection" | "lambert_conformal_conic" | "lambert_conformal_conic_2sp" | "lcc" => some .lcc
  | "albers_conic_equal_area" | "albers" | "aea" => some .aea
  | "equidistant_conic" | "eqdc" => some .eqdc
  | "transverse_mercator" | "transverse mercator" | "tmerc" => some .tmerc
  | "universal transverse mercator system" | "utm" => some .utm
  | "krovak" => some .krovak
  | _ => none

def initKind (k : Kind) (o : Obj α) : Obj α :=
  match k with
  | .longlat => o
  | .merc => mercInit o
  | .lcc => lccInit o
  | .aea => aeaInit o
  | .eqdc => eqdcInit o
  | .tmerc => tmercInit o
  | .utm => utmInit o
  | .krovak => krovakInit o

/-- `new Projection(srsCode)` for a PROJ.4 string -/
def newProj (code : String) : Except String (Obj α × Kind) :=
  if !code.startsWith "+" then .error "not a proj string" else
  let json := deriveConstants (projString code : Obj α)
  match json.projName.bind kindOf with
  | none => .error "unknown projection"
  | some k => .ok (initKind k json, k)

def forward (k : Kind) (o : Obj α) (p : P α) : Except String (P α) :=
  if o.noMethods then .error "no forward method" else
  match k with
  | .longlat => .ok p
  | .merc => mercForward o p
  | .lcc => lccForward o p
  | .aea => aeaForward o p
  | .eqdc => eqdcForward o p
  | .tmerc | .utm => tmercForward o p
  | .krovak => krovakForward o p

def inverse (k : Kind) (o : Obj α) (p : P α) : Except String (P α) :=
  if o.noMethods then .error "no inverse method" else
  match k with
  | .longlat => .ok p
  | .merc => mercInverse o p
  | .lcc => lccInverse o p
  | .aea => aeaInverse o p
  | .eqdc => eqdcInverse o p
  | .tmerc | .utm => tmercInverse o p
  | .krovak => krovakInverse o p

/-! ## transform.js -/

def wgs84Def : String := "+title=WGS 84 (long/lat) +proj=longlat +ellps=WGS84 +datum=WGS84 +units=degrees"

def checkNotWGS (source dest : Obj α) : Bool :=
  match source.datum with
  | some d => (d.datum_type == PJD_3PARAM || d.datum_type == PJD_7PARAM) && dest.datumCode != some "WGS84"
  | none => false

/-- transform.js without the WGS84 workaround at its head -/
def transformCore (source : Obj α × Kind) (dest : Obj α × Kind) (point : P α) : Except String (P α) := do
  let (s, sk) := source
  let (d, dk) := dest
  if s.axis != some "enu" then throw "axis: not modelled"
  let point ←
    if s.projName == some "longlat" then pure { point with x := point.x * D2R, y := point.y * D2R }
    else
      let point := if truthyO s.to_meter then { point with x := point.x * num s.to_meter, y := point.y * num s.to_meter } else point
      inverse sk s point
  let point := if truthyO s.from_greenwich then { point with x := point.x + num s.from_greenwich } else point
  let sd ← match s.datum with | some x => pure x | none => throw "no datum"
  let dd ← match d.datum with | some x => pure x | none => throw "no datum"
  let point ← datum_transform sd dd point
  let point := if truthyO d.from_greenwich then { point with x := point.x - num d.from_greenwich } else point
  let point ←
    if d.projName == some "longlat" then pure { point with x := point.x * R2D, y := point.y * R2D }
    else do
      let point ← forward dk d point
      pure (if truthyO d.to_meter then { point with x := point.x / num d.to_meter, y := point.y / num d.to_meter } else point)
  if d.axis != some "enu" then throw "axis: not modelled"
  pure point

/-- transform.js. The recursive call `transform(source, wgs84, point)` never takes the workaround
branch again (`wgs84.datumCode === "WGS84"` and the datum type of `wgs84` is `PJD_WGS84`), so it
is `transformCore`; the point object (with the `z` written by the first hop) is reused. -/
def transform (source : Obj α × Kind) (dest : Obj α × Kind) (point : P α) : Except String (P α) := do
  if source.1.datum.isSome && dest.1.datum.isSome && (checkNotWGS source.1 dest.1 || checkNotWGS dest.1 source.1) then
    let wgs84 ← newProj wgs84Def
    let point ← transformCore source wgs84 point
    transformCore wgs84 dest point
  else
    transformCore source dest point

/-- `proj4(from, to, [x, y])` on freshly constructed projections -/
def proj4 (fromDef toDef : String) (x y : α) : Except String (α × α) := do
  let s ← newProj fromDef
  let d ← newProj toDef
  let p ← transform s d { x := x, y := y }
  pure (p.x, p.y)

end GeomV.C09.Js
