import GeomV.C09.ProofsInit3
/-!
C09: `LCC` and `EqdC` constructors against lcc.js / eqdc.js `init` (regenerated constructor bodies
`Gen.Go.LCC_init`, `Gen.Go.EqdC_init`), and the compositions constructor + closure.
-/
open GeomV.C09
namespace GeomV.C09
set_option linter.unusedSimpArgs false
set_option linter.unusedVariables false
set_option linter.unusedTactic false
set_option linter.unreachableTactic false
set_option linter.unnecessarySeqFocus false
set_option maxRecDepth 8000

/-- `x || 0`-style default of proj4js on a parameter that is present: its value -/
theorem jsdef_some (x : ℝ) : (if (!decide (x = 0)) = true then x else (0 : ℝ)) = x := by
  by_cases h : x = 0 <;> simp [h]

theorem eps_not_neg : ¬ ((0.0000000001 : ℝ) < 0) := by norm_num

set_option hygiene false in
open Lean.Parser.Tactic in
macro "lccsimp" "[" ts:simpLemma,* "]" : tactic => `(tactic|
  simp [hk, h1, h2, hx, hy, ha, hb, h0, Gen.Go.optNaN, Gen.Go.optNum, truthyO_none, truthyO_some,
      r_isNaN, r_lt, r_gt, r_abs, r_ofNat, r_ofSci, r_sqrt, r_sin, r_cos, r_log, r_pow, num_some, h12', jsdef_some, eps_lit, eps_not_neg,
      go_msfnz_eq_js, go_tsfnz_eq_js, $ts,*])

/-- the regenerated `LCC` body against lcc.js `init`, on the parameters they read. `lat_1` is given;
`lat_2` and `k_0` are absent or non-zero (proj4js replaces a VALUE 0 by its default, the port keeps it);
the parallels are not antisymmetric. Same eccentricity (recomputed from a and b by both), same cone
constant `ns`, `f0`, `rh`; same defaults `lat_2 = lat_1`, `k_0 = 1`, `x_0 = y_0 = 0`. -/
theorem lcc_init_agree (o : Js.Obj ℝ) (A B l0 l1 : ℝ) (K0 L1 L2 X0 Y0 : Option ℝ) (hL1 : L1 = some l1)
    (ha : Js.num o.a = A) (hb : Js.num o.b = B) (h0 : Js.num o.lat0 = l0) (h1 : o.lat1 = L1)
    (hk : o.k0 = K0) (h2 : o.lat2 = L2) (hx : o.x0 = X0) (hy : o.y0 = Y0) (nk : NZ K0) (n2 : NZ L2)
    (h12 : ¬ (|l1 + L2.getD l1| < 1.0e-10)) :
    ∃ E F0 NS RH k0 lat2 x0 y0,
      Gen.Go.LCC_init A B l0 K0 L1 L2 X0 Y0 = .ok (E, F0, NS, RH, k0, lat2, x0, y0) ∧
      (Js.lccInit o).e = E ∧ (Js.lccInit o).ns = NS ∧ (Js.lccInit o).f0 = F0 ∧ (Js.lccInit o).rh = RH ∧
      Js.num (Js.lccInit o).k0 = Gen.Go.optNum k0 ∧ Js.num (Js.lccInit o).x0 = Gen.Go.optNum x0 ∧
      Js.num (Js.lccInit o).y0 = Gen.Go.optNum y0 ∧ (Js.lccInit o).lat2 = lat2 ∧
      (Js.lccInit o).a = o.a ∧ (Js.lccInit o).long0 = o.long0 := by
  subst hL1
  have h12' : ¬ (|l1 + L2.getD l1| < 0.0000000001) := by norm_num at h12 ⊢; exact h12
  unfold Gen.Go.LCC_init Js.lccInit Js.EPSLN Js.aO
  cases K0 <;> cases L2 <;> cases X0 <;> cases Y0 <;>
    simp only [Option.getD_none, Option.getD_some] at h12' <;>
    (first
    | lccsimp [NZ_some nk, NZ_some n2]
    | lccsimp [NZ_some nk]
    | lccsimp [NZ_some n2]
    | lccsimp []) <;>
    first
    | (intro h; exact h.symm)
    | (constructor <;> (intro h; exact h.symm))

/-- **`LCC` constructor = lcc.js `init`** (`lat_1` given, `lat_2`/`k_0` absent or non-zero, parallels not
antisymmetric): the port succeeds; the eccentricity, cone constant, `f0`, `rh` its closures capture and
the defaults it writes into `*SR` are those proj4js stores -/
theorem go_init_lcc_eq_js (s : Model.SR ℝ) (o : Js.Obj ℝ) (h : Same s o) (l1 : ℝ) (hl1 : s.lat1 = some l1)
    (nk : NZ s.k0) (n2 : NZ s.lat2) (h12 : ¬ (|l1 + s.lat2.getD l1| < 1.0e-10)) :
    ∃ s' c, Model.lccInit s = .ok (s', c) ∧
      Js.num (Js.lccInit o).a = Model.gnum s'.a ∧ Js.num (Js.lccInit o).x0 = Model.gnum s'.x0 ∧
      Js.num (Js.lccInit o).y0 = Model.gnum s'.y0 ∧ Js.num (Js.lccInit o).long0 = Model.gnum s'.long0 ∧
      Js.num (Js.lccInit o).k0 = Model.gnum s'.k0 ∧ (Js.lccInit o).e = c.e ∧ (Js.lccInit o).ns = c.ns ∧
      (Js.lccInit o).f0 = c.f0 ∧ (Js.lccInit o).rh = c.rh ∧ (Js.lccInit o).lat2 = s'.lat2 := by
  obtain ⟨E, F0, NS, RH, k0, lat2, x0, y0, hgo, j1, j2, j3, j4, j5, j6, j7, j8, j9, j10⟩ :=
    lcc_init_agree o (Model.gnum s.a) (Model.gnum s.b) (Model.gnum s.lat0) l1 s.k0 s.lat1 s.lat2 s.x0 s.y0 hl1
      (num_eq h.a) (num_eq h.b) (num_eq h.lat0) h.lat1 h.k0 h.lat2 h.x0 h.y0 nk n2 h12
  have hm : Model.lccInit s = .ok ({ s with k0 := k0, lat2 := lat2, x0 := x0, y0 := y0 },
      { (Model.Consts.nanC : Model.Consts ℝ) with e := E, ns := NS, f0 := F0, rh := RH }) := by
    unfold Model.lccInit; rw [hgo]
  exact ⟨_, _, hm, by rw [j9]; exact num_eq h.a, j6, j7, by rw [j10]; exact num_eq h.long0, j5, j1, j2, j3, j4, j8⟩

/-- Lambert conformal conic, constructor + forward closure, no hypothesis on constants -/
theorem go_lcc_fwd_eq_js' (s : Model.SR ℝ) (o : Js.Obj ℝ) (h : Same s o) (l1 : ℝ) (hl1 : s.lat1 = some l1)
    (nk : NZ s.k0) (n2 : NZ s.lat2) (h12 : ¬ (|l1 + s.lat2.getD l1| < 1.0e-10)) (lon lat : ℝ) (z : Option ℝ) :
    okOf (Model.lccInit s >>= fun sc => Model.lccFwd sc.1 sc.2 lon lat) =
      xyOf (Js.lccForward (Js.lccInit o) ⟨lon, lat, z⟩) := by
  obtain ⟨s', c, hc, ha, hx, hy, hl, hk, he, hns, hf, hrh, -⟩ := go_init_lcc_eq_js s o h l1 hl1 nk n2 h12
  rw [hc, bind_ok_eq]
  exact go_lcc_fwd_eq_js s' c _ lon lat z ha hx hy hl hk he hns hf hrh

/-- Lambert conformal conic, constructor + inverse closure -/
theorem go_lcc_inv_eq_js' (s : Model.SR ℝ) (o : Js.Obj ℝ) (h : Same s o) (l1 : ℝ) (hl1 : s.lat1 = some l1)
    (nk : NZ s.k0) (n2 : NZ s.lat2) (h12 : ¬ (|l1 + s.lat2.getD l1| < 1.0e-10)) (x y : ℝ) (z : Option ℝ) :
    okOf (Model.lccInit s >>= fun sc => Model.lccInv sc.1 sc.2 x y) =
      xyOf (Js.lccInverse (Js.lccInit o) ⟨x, y, z⟩) := by
  obtain ⟨s', c, hc, ha, hx, hy, hl, hk, he, hns, hf, hrh, -⟩ := go_init_lcc_eq_js s o h l1 hl1 nk n2 h12
  rw [hc, bind_ok_eq]
  exact go_lcc_inv_eq_js s' c _ x y z ha hx hy hl hk he hns hf hrh

/-- non-vacuity of the hypotheses of `go_init_lcc_eq_js` (two standard parallels 33° and 45° in radians) -/
example : ¬ (|(0.5759586531581288 : ℝ) + (some (0.7853981633974483 : ℝ)).getD 0.5759586531581288| < 1.0e-10) := by
  simp only [Option.getD_some]; norm_num [abs_of_pos]

/-! ## equidistant conic -/

set_option hygiene false in
open Lean.Parser.Tactic in
macro "eqdcsimp" "[" ts:simpLemma,* "]" : tactic => `(tactic|
  simp [h1, h2, ha, hb, h0, Gen.Go.optNaN, Gen.Go.optNum, truthyO_none, truthyO_some,
      r_isNaN, r_lt, r_gt, r_abs, r_ofNat, r_ofSci, r_sqrt, r_sin, r_cos, r_log, r_pow, r_nan, num_some, Js.num_none', h12', hpre', eps_lit, eps_not_neg, eps_pos,
      go_msfnz_eq_js, go_mlfn_eq_js, go_e0fn_eq_js, go_e1fn_eq_js, go_e2fn_eq_js, go_e3fn_eq_js, $ts,*])

theorem eps_pos : (0 : ℝ) < 0.0000000001 := by norm_num
theorem Js.num_none' : Js.num (none : Option ℝ) = 0 := by unfold Js.num; simp only [Option.getD_none]; rnum

/-- the regenerated `EqdC` body (after fix 98fda46: `lat_2` defaults to `lat_1` BEFORE the parallels
check) against eqdc.js `init` (check first, default second). `lat_1` given, `lat_2` absent or non-zero,
parallels not antisymmetric. `hpre` is an artefact of the real-number instance (`nan = 0`): with
`lat_2` absent proj4js' pre-default check reads `|lat1 + NaN| < EPSLN`, false in floating point. -/
theorem eqdc_init_agree (o : Js.Obj ℝ) (A B l0 l1 : ℝ) (L1 L2 : Option ℝ) (hL1 : L1 = some l1)
    (ha : Js.num o.a = A) (hb : Js.num o.b = B) (h0 : Js.num o.lat0 = l0) (h1 : o.lat1 = L1) (h2 : o.lat2 = L2)
    (n2 : NZ L2) (h12 : ¬ (|l1 + L2.getD l1| < 1.0e-10)) (hpre : L2 = none → ¬ (|l1| < 1.0e-10)) :
    ∃ e0 e1 e2 e3 g ns rh E Es lat2,
      Gen.Go.EqdC_init A B l0 L1 L2 = .ok (e0, e1, e2, e3, g, ns, rh, E, Es, lat2) ∧
      (Js.eqdcInit o).e0 = e0 ∧ (Js.eqdcInit o).e1 = e1 ∧ (Js.eqdcInit o).e2 = e2 ∧ (Js.eqdcInit o).e3s = e3 ∧
      (Js.eqdcInit o).g = g ∧ (Js.eqdcInit o).ns = ns ∧ (Js.eqdcInit o).rh = rh ∧ (Js.eqdcInit o).e = E ∧
      (Js.eqdcInit o).es = Es ∧ (Js.eqdcInit o).lat2 = lat2 ∧
      (Js.eqdcInit o).a = o.a ∧ (Js.eqdcInit o).long0 = o.long0 ∧ (Js.eqdcInit o).x0 = o.x0 ∧ (Js.eqdcInit o).y0 = o.y0 ∧
      (Js.eqdcInit o).sphere = o.sphere := by
  subst hL1
  have h12' : ¬ (|l1 + L2.getD l1| < 0.0000000001) := by norm_num at h12 ⊢; exact h12
  have hpre' : L2 = none → ¬ (|l1| < 0.0000000001) := by intro hn; have := hpre hn; norm_num at this ⊢; exact this
  unfold Gen.Go.EqdC_init Js.eqdcInit Js.EPSLN Js.aO
  cases L2 <;> simp only [Option.getD_none, Option.getD_some, forall_const, reduceCtorEq, false_implies] at h12' hpre' <;>
    (first
    | eqdcsimp [NZ_some n2]
    | eqdcsimp []) <;>
    (split_ifs <;> simp)

/-- **`EqdC` constructor = eqdc.js `init`** -/
theorem go_init_eqdc_eq_js (s : Model.SR ℝ) (o : Js.Obj ℝ) (h : Same s o) (l1 : ℝ) (hl1 : s.lat1 = some l1)
    (n2 : NZ s.lat2) (h12 : ¬ (|l1 + s.lat2.getD l1| < 1.0e-10)) (hpre : s.lat2 = none → ¬ (|l1| < 1.0e-10)) :
    ∃ s' c, Model.eqdcInit s = .ok (s', c) ∧
      Js.num (Js.eqdcInit o).a = Model.gnum s'.a ∧ Js.num (Js.eqdcInit o).x0 = Model.gnum s'.x0 ∧
      Js.num (Js.eqdcInit o).y0 = Model.gnum s'.y0 ∧ Js.num (Js.eqdcInit o).long0 = Model.gnum s'.long0 ∧
      (Js.eqdcInit o).sphere = s'.sphere ∧ (Js.eqdcInit o).e0 = c.e0 ∧ (Js.eqdcInit o).e1 = c.e1 ∧
      (Js.eqdcInit o).e2 = c.e2 ∧ (Js.eqdcInit o).e3s = c.e3 ∧ (Js.eqdcInit o).g = c.g ∧ (Js.eqdcInit o).ns = c.ns ∧
      (Js.eqdcInit o).rh = c.rh ∧ (Js.eqdcInit o).es = s'.es ∧ (Js.eqdcInit o).e = s'.e ∧ (Js.eqdcInit o).lat2 = s'.lat2 := by
  obtain ⟨e0, e1, e2, e3, g, ns, rh, E, Es, lat2, hgo, j1, j2, j3, j4, j5, j6, j7, j8, j9, j10, j11, j12, j13, j14, j15⟩ :=
    eqdc_init_agree o (Model.gnum s.a) (Model.gnum s.b) (Model.gnum s.lat0) l1 s.lat1 s.lat2 hl1
      (num_eq h.a) (num_eq h.b) (num_eq h.lat0) h.lat1 h.lat2 n2 h12 hpre
  have hm : Model.eqdcInit s = .ok ({ s with lat2 := lat2, es := Es, e := E },
      { (Model.Consts.nanC : Model.Consts ℝ) with e := E, e0 := e0, e1 := e1, e2 := e2, e3 := e3, ns := ns, g := g, rh := rh }) := by
    unfold Model.eqdcInit; rw [hgo]
  exact ⟨_, _, hm, by rw [j11]; exact num_eq h.a, by rw [j13]; exact num_eq h.x0, by rw [j14]; exact num_eq h.y0,
    by rw [j12]; exact num_eq h.long0, by rw [j15, h.sphere], j1, j2, j3, j4, j5, j6, j7, j9, j8, j10⟩

/-- equidistant conic, constructor + forward closure, no hypothesis on constants -/
theorem go_eqdc_fwd_eq_js' (s : Model.SR ℝ) (o : Js.Obj ℝ) (h : Same s o) (l1 : ℝ) (hl1 : s.lat1 = some l1)
    (n2 : NZ s.lat2) (h12 : ¬ (|l1 + s.lat2.getD l1| < 1.0e-10)) (hpre : s.lat2 = none → ¬ (|l1| < 1.0e-10))
    (lon lat : ℝ) (z : Option ℝ) :
    okOf (Model.eqdcInit s >>= fun sc => Model.eqdcFwd sc.1 sc.2 lon lat) =
      xyOf (Js.eqdcForward (Js.eqdcInit o) ⟨lon, lat, z⟩) := by
  obtain ⟨s', c, hc, ha, hx, hy, hl, hsph, h0, h1, h2, h3, hg, hns, hrh, -, -, -⟩ := go_init_eqdc_eq_js s o h l1 hl1 n2 h12 hpre
  rw [hc, bind_ok_eq]
  exact go_eqdc_fwd_eq_js s' c _ lon lat z ha hx hy hl hsph h0 h1 h2 h3 hg hns hrh

/-- equidistant conic, constructor + inverse closure -/
theorem go_eqdc_inv_eq_js' (s : Model.SR ℝ) (o : Js.Obj ℝ) (h : Same s o) (l1 : ℝ) (hl1 : s.lat1 = some l1)
    (n2 : NZ s.lat2) (h12 : ¬ (|l1 + s.lat2.getD l1| < 1.0e-10)) (hpre : s.lat2 = none → ¬ (|l1| < 1.0e-10))
    (x y : ℝ) (z : Option ℝ) :
    okOf (Model.eqdcInit s >>= fun sc => Model.eqdcInv sc.1 sc.2 x y) =
      xyOf (Js.eqdcInverse (Js.eqdcInit o) ⟨x, y, z⟩) := by
  obtain ⟨s', c, hc, ha, hx, hy, hl, hsph, h0, h1, h2, h3, hg, hns, hrh, -, -, -⟩ := go_init_eqdc_eq_js s o h l1 hl1 n2 h12 hpre
  rw [hc, bind_ok_eq]
  exact go_eqdc_inv_eq_js s' c _ x y z ha hx hy hl hsph h0 h1 h2 h3 hg hns hrh

/-- non-vacuity of the hypotheses of `go_init_eqdc_eq_js` with `lat_2` absent (`lat_1` = 33° in radians) -/
example : ¬ (|(0.5759586531581288 : ℝ) + (none : Option ℝ).getD 0.5759586531581288| < 1.0e-10) ∧
    ((none : Option ℝ) = none → ¬ (|(0.5759586531581288 : ℝ)| < 1.0e-10)) := by
  constructor
  · simp only [Option.getD_none]; norm_num [abs_of_pos]
  · intro _; norm_num [abs_of_pos]

end GeomV.C09
