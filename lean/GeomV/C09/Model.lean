import GeomV.C09.Num
import GeomV.C09.Tables
import GeomV.C09.Gen.Tables
import GeomV.C09.Gen.GoCommon
import GeomV.C09.Gen.GoProj
import GeomV.C09.Gen.GoParse
/-!
Model of the Go port (`/repo/proj`), function by function, generic over the number class.

* The arithmetic helpers of `proj/common.go` and the package constants are NOT written here:
  they are `Gen.Go.*`, regenerated from the current source on every run (tie T1).
* The tables are `Gen.go*`, regenerated from `EllipsoidDef.go`, `DatumDef.go`,
  `PrimeMeridian.go`, `units.go`.
* The forward/inverse CLOSURES of `Merc, LCC, AEA, EqdC`, the forward closures of `TMerc` and
  `Krovak`, `aeaPhi1z`, and `geodetic_to_geocentric`, `geocentric_to_wgs84`,
  `geocentric_from_wgs84` of `datum.go` are `Gen.Go.*` as well (`Gen/GoProj.lean`, regenerated);
  the functions below only pass them what the closure reads from `*SR` and from its constructor.
* `projString.go`: the simple cases of `switch paramName` and the arithmetic of `DeriveConstants` are
  `Gen.Go.projString_num/_str/_flag` and `Gen.Go.DeriveConstants_core1` (`Gen/GoParse.lean`, regenerated);
  the five special cases, the loop frame and the table lookups of `DeriveConstants` are hand models whose
  source text is pinned (`ProofsParse`).
* Hand models (tied by the correspondence run): `getDatum`,
  `compare_datums`, `geocentric_to_geodetic` (its `for {}` loop), `datum_transform.go`, the closure of
  `transform.go`, and the inverse closures of `TMerc` and `Krovak` (loops with an integer counter are
  outside the translator's subset).
* The constructor BODIES (`Merc LCC AEA EqdC TMerc UTM Krovak` up to their closures) are
  `Gen.Go.<Ctor>_init` (regenerated): functions of the `*SR` fields they read, returning the locals
  the closures capture and the final values of the fields they write; `<p>Init` below only moves
  those between the record and the generated function.

Go specifics that are kept: a float field that was never set is `NaN` (`NewSR`): `none` here, and
`math.IsNaN(f)` is `gNaN`; errors are values (`Except String`); the two-hop route through WGS84
carries the height computed by the first hop to the second (`transform3`, fix ac60a9b).
`adjust_axis` is not modelled (C10); a non-`enu` axis is reported as an error.
-/
namespace GeomV.C09.Model
open GeomV.C09
open GeomV.C09.Gen.Go

variable {α : Type} [RTrans α]

/-- `math.IsNaN` of a field that starts as NaN (the generated code calls it `Gen.Go.optNaN`) -/
def gNaN (o : Option α) : Bool := match o with | none => true | some v => isNaN v
/-- the field's value in arithmetic (`Gen.Go.optNum`) -/
def gnum (o : Option α) : α := o.getD nan
theorem optNaN_eq (o : Option α) : optNaN o = gNaN o := rfl
theorem optNum_eq (o : Option α) : optNum o = gnum o := rfl

structure Datum (α : Type) where
  datum_type : Nat
  datum_params : List α
  a : α
  b : α
  es : α
  ep2 : α
  /-- `nadGrids` (set by `getDatum` for a grid-shift datum only) -/
  nadGrids : String := ""
deriving Inhabited

def pjd3Param : Nat := 1
def pjd7Param : Nat := 2
def pjdGridShift : Nat := 3
def pjdWGS84 : Nat := 4
def pjdNoDatum : Nat := 5

structure SR (α : Type) where
  name : String := ""
  datumCode : String := ""
  ellps : String := ""
  units : String := ""
  nadGrids : String := ""
  axis : String := ""
  rf : Option α := none
  lat0 : Option α := none
  lat1 : Option α := none
  lat2 : Option α := none
  latTS : Option α := none
  long0 : Option α := none
  x0 : Option α := none
  y0 : Option α := none
  k0 : Option α := none
  k : Option α := none
  a : Option α := none
  b : Option α := none
  zone : Option α := none
  fromGreenwich : Option α := none
  toMeter : α
  datumParams : List α := []
  ra : Bool := false
  utmSouth : Bool := false
  sphere : Bool := false
  czech : Bool := false
  noDefs : Bool := false
  a2 : α
  b2 : α
  es : α
  e : α
  ep2 : α
  datum : Option (Datum α) := none
deriving Inhabited

/-- `NewSR()` -/
def newSR : SR α := { toMeter := 1, a2 := nan, b2 := nan, es := nan, e := nan, ep2 := nan }

/-! ## projString.go -/

def trimStr (s : String) : String := (s.trimAscii).toString

/-- `strconv.ParseFloat(v, 64)` on plain decimal text -/
def parseFloat (v : String) : Except String α :=
  match parseNum v with
  | some x => .ok x
  | none => .error ("strconv.ParseFloat: parsing " ++ v)

def legalAxis (v : String) : Bool :=
  v.length == 3 && v.toList.all (fun c => "ewnsud".toList.contains c)

/-- `self.F = v` for the float64 field named `F` in Go (`Gen.Go.projString_num` gives the name). `Long1`,
`Long2`, `Alpha`, `LongC` are written by `projString` and read by none of the modelled projections: not
carried. A field name this model does not know is an error (the correspondence run then reports DIFF). -/
def setNum (self : SR α) (fld : String) (v : α) : Except String (SR α) :=
  match fld with
  | "Rf" => pure { self with rf := some v }
  | "Lat0" => pure { self with lat0 := some v }
  | "Lat1" => pure { self with lat1 := some v }
  | "Lat2" => pure { self with lat2 := some v }
  | "LatTS" => pure { self with latTS := some v }
  | "Long0" => pure { self with long0 := some v }
  | "Long1" => pure self
  | "Long2" => pure self
  | "Alpha" => pure self
  | "LongC" => pure self
  | "X0" => pure { self with x0 := some v }
  | "Y0" => pure { self with y0 := some v }
  | "K0" => pure { self with k0 := some v }
  | "A" => pure { self with a := some v }
  | "B" => pure { self with b := some v }
  | "Zone" => pure { self with zone := some v }
  | "ToMeter" => pure { self with toMeter := v }
  | "FromGreenwich" => pure { self with fromGreenwich := some v }
  | _ => throw ("model: float field " ++ fld ++ " of SR is not modelled")

/-- `self.F = paramVal` for the string field named `F` in Go (`Title` is read by nothing) -/
def setStr (self : SR α) (fld : String) (v : String) : Except String (SR α) :=
  match fld with
  | "Name" => pure { self with name := v }
  | "Title" => pure self
  | "DatumCode" => pure { self with datumCode := v }
  | "Ellps" => pure { self with ellps := v }
  | _ => throw ("model: string field " ++ fld ++ " of SR is not modelled")

/-- `self.F = true` for the bool field named `F` in Go -/
def setFlag (self : SR α) (fld : String) : Except String (SR α) :=
  match fld with
  | "Ra" => pure { self with ra := true }
  | "UTMSouth" => pure { self with utmSouth := true }
  | "NoDefs" => pure { self with noDefs := true }
  | _ => throw ("model: bool field " ++ fld ++ " of SR is not modelled")

/-- the cases of `switch paramName` that are not of the three simple shapes, written by hand from the
source text that `Gen.Go.projString_special` carries (pinned: `ProofsParse.projString_special_pinned`) -/
def applySpecial (self : SR α) (paramName paramVal : String) : Except String (SR α) :=
  let deg2rad : α := c_deg2rad
  match paramName with
  | "towgs84" => do
    let ps ← (paramVal.splitOn ",").mapM (fun s => parseFloat (α := α) s)
    pure { self with datumParams := ps }
  | "units" =>
    match lookupNum Gen.goUnits paramVal with
    | some d => pure { self with units := paramVal, toMeter := d.toNum }
    | none => pure { self with units := paramVal }
  | "pm" =>
    match lookupNum Gen.goPrimeMeridians paramVal with
    | some d => pure { self with fromGreenwich := some ((d.toNum : α) * deg2rad) }
    | none => do let v ← parseFloat (α := α) paramVal; pure { self with fromGreenwich := some (v * deg2rad) }
  | "nadgrids" => if paramVal == "@null" then pure { self with datumCode := "none" } else pure { self with nadGrids := paramVal }
  | "axis" => if legalAxis paramVal then pure { self with axis := paramVal } else pure self
  | _ => throw ("proj: invalid field '" ++ paramName ++ "'")

/-- one round of the loop of `projString`: the `switch paramName` is read from the REGENERATED case tables
`Gen.Go.projString_num/_str/_flag` (key ↦ Go field, degrees or not) -/
def applyKV (self : SR α) (paramName paramVal : String) : Except String (SR α) :=
  match projString_num paramName with
  | some (fld, deg) => do
    let v ← parseFloat (α := α) paramVal
    setNum self fld (if deg then v * c_deg2rad else v)
  | none =>
    match projString_str paramName with
    | some fld => setStr self fld paramVal
    | none =>
      match projString_flag paramName with
      | some fld => setFlag self fld
      | none => applySpecial self paramName paramVal

def paramNameOf (a : String) : String := (((trimStr a).splitOn "=").headD "").toLower
def paramValOf (a : String) : String := match (trimStr a).splitOn "=" with | _ :: v :: _ => v | _ => "true"

def applyParam (self : SR α) (a : String) : Except String (SR α) :=
  applyKV self (paramNameOf a) (paramValOf a)

/-- `projString` -/
def projString (defData : String) : Except String (SR α) := do
  let parts := (defData.splitOn "+").drop 1
  let self ← parts.foldlM applyParam (newSR : SR α)
  pure (if self.datumCode != "WGS84" then { self with datumCode := self.datumCode.toLower } else self)

/-! ## datum.go -/

def listGet (l : List α) (i : Nat) : α := (l[i]?).getD nan

/-- `getDatum`; returns the datum and the (shared, hence also converted) `DatumParams` slice -/
def getDatum (proj : SR α) : Datum α × List α :=
  let ty := pjdWGS84
  let ty := if proj.datumCode == "" || proj.datumCode == "none" then pjdNoDatum else ty
  let (ty, ps) : Nat × List α :=
    if proj.datumParams.length > 0 then
      let ps := proj.datumParams
      let ty := if ne (listGet ps 0) 0 || ne (listGet ps 1) 0 || ne (listGet ps 2) 0 then pjd3Param else ty
      if ps.length > 3 then
        if ne (listGet ps 3) 0 || ne (listGet ps 4) 0 || ne (listGet ps 5) 0 || ne (listGet ps 6) 0 then
          let secToRad : α := c_secToRad
          let ps := ps.set 3 (listGet ps 3 * secToRad)
          let ps := ps.set 4 (listGet ps 4 * secToRad)
          let ps := ps.set 5 (listGet ps 5 * secToRad)
          let ps := ps.set 6 ((listGet ps 6 / 1000000.0) + 1.0)
          (pjd7Param, ps)
        else (ty, ps)
      else (ty, ps)
    else (ty, [])
  let ty := if proj.nadGrids != "" then pjdGridShift else ty
  ({ datum_type := ty, datum_params := ps, a := gnum proj.a, b := gnum proj.b, es := proj.es, ep2 := proj.ep2,
     nadGrids := if ty == pjdGridShift then proj.nadGrids else "" },
   if proj.datumParams.length > 0 then ps else proj.datumParams)

def dpar (d : Datum α) (i : Nat) : α := listGet d.datum_params i

/-- `compare_datums` (REGENERATED: `Gen.Go.datum_compare_datums`; here only the plumbing between the two
`*datum` records and its named parameters; an index past the end of `datum_params` would panic in Go and
cannot occur: the datum type is derived from the length) -/
def compare_datums (this dest : Datum α) : Bool :=
  datum_compare_datums (dest_a := dest.a) (dest_es := dest.es) (this_a := this.a) (this_es := this.es)
    (dest_datum_params_0 := dpar dest 0) (dest_datum_params_1 := dpar dest 1) (dest_datum_params_2 := dpar dest 2)
    (dest_datum_params_3 := dpar dest 3) (dest_datum_params_4 := dpar dest 4) (dest_datum_params_5 := dpar dest 5)
    (dest_datum_params_6 := dpar dest 6)
    (this_datum_params_0 := dpar this 0) (this_datum_params_1 := dpar this 1) (this_datum_params_2 := dpar this 2)
    (this_datum_params_3 := dpar this 3) (this_datum_params_4 := dpar this 4) (this_datum_params_5 := dpar this 5)
    (this_datum_params_6 := dpar this 6)
    (dest_datum_type := dest.datum_type) (this_datum_type := this.datum_type)
    (dest_nadGrids := dest.nadGrids) (this_nadGrids := this.nadGrids)

structure P3 (α : Type) where
  x : α
  y : α
  z : α
deriving Inhabited

def halfPi : α := c_halfPi

/-- `geodetic_to_geocentric` (regenerated) -/
def geodetic_to_geocentric (this : Datum α) (Longitude Latitude Height : α) : Except String (P3 α) :=
  match datum_geodetic_to_geocentric (this_a := this.a) (this_es := this.es) Longitude Latitude Height with
  | .ok (X, Y, Z) => .ok { x := X, y := Y, z := Z }
  | .error e => .error e


structure GState (α : Type) where
  CPHI : α
  SPHI : α
  Height : α

/-- the `for { iter++ ...; if !(SDPHI*SDPHI > genau2 && iter < maxiter) { break } }` loop -/
def geodeticLoop (a es P Z ST CT : α) : Nat → α → α → GState α
  | 0, CPHI0, SPHI0 => ⟨CPHI0, SPHI0, nan⟩
  | n+1, CPHI0, SPHI0 =>
    let RN := a / sqrt (1.0 - es * SPHI0 * SPHI0)
    let Height := P * CPHI0 + Z * SPHI0 - RN * (1.0 - es * SPHI0 * SPHI0)
    let RK := es * RN / (RN + Height)
    let RX := 1.0 / sqrt (1.0 - RK * (2.0 - RK) * ST * ST)
    let CPHI := ST * (1.0 - RK) * RX
    let SPHI := CT * RX
    let SDPHI := SPHI * CPHI0 - CPHI * SPHI0
    if gt (SDPHI * SDPHI) (1e-12 * 1e-12) && n != 0 then geodeticLoop a es P Z ST CT n CPHI SPHI
    else ⟨CPHI, SPHI, Height⟩

def geocentric_to_geodetic (this : Datum α) (X Y Z : α) : P3 α :=
  let genau : α := 1e-12
  let Pd := sqrt (X * X + Y * Y)
  let RR := sqrt (X * X + Y * Y + Z * Z)
  let atPole := lt (Pd / this.a) genau
  if atPole && lt (RR / this.a) genau then { x := 0.0, y := halfPi, z := -this.b }
  else
    let Longitude : α := if atPole then 0.0 else atan2 Y X
    let CT := Z / RR
    let ST := Pd / RR
    let RX := 1.0 / sqrt (1.0 - this.es * (2.0 - this.es) * ST * ST)
    let CPHI0 := ST * (1.0 - this.es) * RX
    let SPHI0 := CT * RX
    let s := geodeticLoop this.a this.es Pd Z ST CT 30 CPHI0 SPHI0
    { x := Longitude, y := atan (s.SPHI / abs s.CPHI), z := s.Height }

/-- `geocentric_to_wgs84` (regenerated) -/
def geocentric_to_wgs84 (this : Datum α) (p : P3 α) : P3 α :=
  let r := datum_geocentric_to_wgs84 (this_datum_params_0 := dpar this 0) (this_datum_params_1 := dpar this 1)
    (this_datum_params_2 := dpar this 2) (this_datum_params_3 := dpar this 3) (this_datum_params_4 := dpar this 4)
    (this_datum_params_5 := dpar this 5) (this_datum_params_6 := dpar this 6) (this_datum_type := this.datum_type) p.x p.y p.z
  { x := r.1, y := r.2.1, z := r.2.2 }


/-- `geocentric_from_wgs84` (regenerated) -/
def geocentric_from_wgs84 (this : Datum α) (p : P3 α) : P3 α :=
  let r := datum_geocentric_from_wgs84 (this_datum_params_0 := dpar this 0) (this_datum_params_1 := dpar this 1)
    (this_datum_params_2 := dpar this 2) (this_datum_params_3 := dpar this 3) (this_datum_params_4 := dpar this 4)
    (this_datum_params_5 := dpar this 5) (this_datum_params_6 := dpar this 6) (this_datum_type := this.datum_type) p.x p.y p.z
  { x := r.1, y := r.2.1, z := r.2.2 }


/-! ## datum_transform.go -/

/-- `checkDatumParams` (REGENERATED: `Gen.Go.datum_checkDatumParams`) -/
def checkDatumParams (t : Nat) : Bool := datum_checkDatumParams (α := α) t

def datumTransform (source dest : Datum α) (p : P3 α) : Except String (P3 α) :=
  if compare_datums source dest then .ok p
  else if source.datum_type == pjdNoDatum || dest.datum_type == pjdNoDatum then .ok p
  else if source.datum_type == pjdGridShift then .error "in proj.datumTransform: gridshift not supported"
  else
    -- a grid-shift destination takes the WGS84 ellipsoid for the geocentric step and then fails
    let (da, des) : α × α := if dest.datum_type == pjdGridShift then (c_srsWGS84SemiMajor, c_srsWGS84ESquared) else (dest.a, dest.es)
    let r : Except String (P3 α) :=
      if ne source.es des || ne source.a da || checkDatumParams (α := α) source.datum_type || checkDatumParams (α := α) dest.datum_type then do
        let g ← geodetic_to_geocentric source p.x p.y p.z
        let g := if checkDatumParams (α := α) source.datum_type then geocentric_to_wgs84 source g else g
        let g := if checkDatumParams (α := α) dest.datum_type then geocentric_from_wgs84 dest g else g
        pure (geocentric_to_geodetic { dest with a := da, es := des } g.x g.y g.z)
      else .ok p
    match r with
    | .error e => .error e
    | .ok q => if dest.datum_type == pjdGridShift then .error "in proj.datumTransform: gridshift not supported" else .ok q

/-! ## deriveConstants.go -/

def decO (d : Option Dec) : Option α := d.map Dec.toNum

/-- the two table lookups at the head of `DeriveConstants` (hand model of the source text pinned by
`ProofsParse.DeriveConstants_shape_pinned`) -/
def deriveTables (json : SR α) : SR α :=
  let json :=
    if json.datumCode != "" && json.datumCode != "none" then
      match lookupDatum Gen.goDatums json.datumCode with
      | some dd => { json with datumParams := dd.towgs84.map Dec.toNum, ellps := dd.ellipse }
      | none => json
    else json
  if gNaN json.a then
    let row := match lookupEll Gen.goEllipsoids json.ellps with
      | some r => r
      | none => (lookupEll Gen.goEllipsoids "WGS84").getD default
    -- `if ellipse.a != 0 { json.A = ellipse.a }` etc.: an absent table field is the zero value
    let json := match decO (α := α) row.a with | some v => if ne v 0 then { json with a := some v } else json | none => json
    let json := match decO (α := α) row.b with | some v => if ne v 0 then { json with b := some v } else json | none => json
    match decO (α := α) row.rf with | some v => if ne v 0 then { json with rf := some v } else json | none => json
  else json

/-- the arithmetic between the table lookups and the axis default: REGENERATED
(`Gen.Go.DeriveConstants_core1`); here only the plumbing between the record and the generated `DC` -/
def deriveCore (json : SR α) : SR α :=
  let r := DeriveConstants_core1 (α := α)
    { A := json.a, A2 := json.a2, B := json.b, B2 := json.b2, E := json.e, Ep2 := json.ep2, Es := json.es,
      K0 := json.k0, Ra := json.ra, Rf := json.rf, sphere := json.sphere }
  { json with a := r.A, a2 := r.A2, b := r.B, b2 := r.B2, e := r.E, ep2 := r.Ep2, es := r.Es,
              k0 := r.K0, ra := r.Ra, rf := r.Rf, sphere := r.sphere }

/-- the axis default and the datum (hand model of the pinned source text) -/
def deriveTail (json : SR α) : SR α :=
  let json := if json.axis == "" then { json with axis := "enu" } else json
  if json.datum.isNone then
    let (d, ps) := getDatum json
    { json with datum := some d, datumParams := ps }
  else json

def deriveConstants (json : SR α) : SR α := deriveTail (deriveCore (deriveTables json))

/-- `Parse` for a PROJ.4 string (named definitions and WKT belong to C20) -/
def parse (code : String) : Except String (SR α) :=
  if code.startsWith "+" then do
    let p ← projString code
    pure (deriveConstants p)
  else .error "unsupported projection definition"

/-! ## the projection constructors: `init` performs the writes to `*SR` and returns the constants
the closures capture; `fwd`/`inv` are the closures -/

inductive Kind | longlat | merc | lcc | aea | eqdc | tmerc | utm | krovak
deriving DecidableEq, Repr

/-- the names given to `registerTrans`, looked up in lower case -/
def kindOf (name : String) : Option Kind :=
  match name.toLower with
  | "longlat" | "identity" => some .longlat
  | "mercator" | "popular visualisation pseudo mercator" | "mercator_1sp" | "mercator_auxiliary_sphere" | "merc" => some .merc
  | "lambert tangential conformal conic projection" | "lambert_conformal_conic" | "lambert_conformal_conic_2sp" | "lcc" => some .lcc
  | "albers_conic_equal_area" | "albers" | "aea" => some .aea
  | "equidistant_conic" | "eqdc" => some .eqdc
  | "transverse_mercator" | "transverse mercator" | "tmerc" => some .tmerc
  | "universal transverse mercator system" | "utm" => some .utm
  | "krovak" => some .krovak
  | _ => none

/-- captured constants (one record for all constructors; unused slots stay NaN) -/
structure Consts (α : Type) where
  k0 : α
  e : α
  ns : α
  f0 : α
  rh : α
  c : α
  g : α
  e0 : α
  e1 : α
  e2 : α
  e3 : α
  ml0 : α
  alfa : α
  kk : α
  n : α
  ro0 : α
  ad : α
deriving Inhabited

def Consts.nanC : Consts α :=
  ⟨nan, nan, nan, nan, nan, nan, nan, nan, nan, nan, nan, nan, nan, nan, nan, nan, nan⟩

def aS (s : SR α) : α := gnum s.a

/-- `Merc`: the constructor body is the REGENERATED `Gen.Go.Merc_init`; here only the plumbing between
the `*SR` record and its parameters/results -/
def mercInit (this : SR α) : Except String (SR α × Consts α) :=
  match Merc_init (this_A := gnum this.a) (this_B := gnum this.b) (this_K := this.k) (this_K0 := this.k0)
      (this_LatTS := this.latTS) (this_Long0 := this.long0) (this_X0 := this.x0) (this_Y0 := this.y0)
      (this_sphere := this.sphere) with
  | .ok (E, K0, long0, x0, y0) =>
    -- `E` is the constructor's local `E := math.Sqrt(1 - (B/A)^2)`, which the closures capture (fix: they read it
    -- instead of `this.E`, as merc.js reads the `this.e` its `init` recomputed)
    .ok ({ this with long0 := long0, x0 := x0, y0 := y0 }, { (Consts.nanC : Consts α) with k0 := optNum K0, e := E })
  | .error e => .error e

/-- forward closure of `Merc`: the REGENERATED `Gen.Go.Merc_forward` applied to what the closure reads -/
def mercFwd (this : SR α) (c : Consts α) (lon lat : α) : Except String (α × α) :=
  Merc_forward (E := c.e) (K0 := c.k0) (this_A := aS this) (this_Long0 := gnum this.long0)
    (this_X0 := gnum this.x0) (this_Y0 := gnum this.y0) (this_sphere := this.sphere) lon lat


/-- inverse closure of `Merc` (regenerated) -/
def mercInv (this : SR α) (c : Consts α) (x y : α) : Except String (α × α) :=
  Merc_inverse (E := c.e) (K0 := c.k0) (this_A := aS this) (this_Long0 := gnum this.long0)
    (this_X0 := gnum this.x0) (this_Y0 := gnum this.y0) (this_sphere := this.sphere) x y


/-- `LCC` (constructor body regenerated: `Gen.Go.LCC_init`) -/
def lccInit (this : SR α) : Except String (SR α × Consts α) :=
  match LCC_init (this_A := gnum this.a) (this_B := gnum this.b) (this_Lat0 := gnum this.lat0) (this_K0 := this.k0)
      (this_Lat1 := this.lat1) (this_Lat2 := this.lat2) (this_X0 := this.x0) (this_Y0 := this.y0) with
  | .ok (E, F0, NS, RH, k0, lat2, x0, y0) =>
    .ok ({ this with k0 := k0, lat2 := lat2, x0 := x0, y0 := y0 },
         { (Consts.nanC : Consts α) with e := E, ns := NS, f0 := F0, rh := RH })
  | .error e => .error e

/-- forward closure of `LCC` (regenerated) -/
def lccFwd (this : SR α) (c : Consts α) (lon lat : α) : Except String (α × α) :=
  LCC_forward (E := c.e) (F0 := c.f0) (NS := c.ns) (RH := c.rh) (this_A := aS this) (this_K0 := gnum this.k0)
    (this_Long0 := gnum this.long0) (this_X0 := gnum this.x0) (this_Y0 := gnum this.y0) lon lat


/-- inverse closure of `LCC` (regenerated) -/
def lccInv (this : SR α) (c : Consts α) (x y : α) : Except String (α × α) :=
  LCC_inverse (E := c.e) (F0 := c.f0) (NS := c.ns) (RH := c.rh) (this_A := aS this) (this_K0 := gnum this.k0)
    (this_Long0 := gnum this.long0) (this_X0 := gnum this.x0) (this_Y0 := gnum this.y0) x y


/-- `AEA` (constructor body regenerated: `Gen.Go.AEA_init`; the error is set but the constants are still
computed, `Transformers` returns the error) -/
def aeaInit (this : SR α) : Except String (SR α × Consts α) :=
  match AEA_init (this_A := gnum this.a) (this_B := gnum this.b) (this_Lat0 := gnum this.lat0)
      (this_Lat1 := gnum this.lat1) (this_Lat2 := gnum this.lat2) with
  | .ok (c, e3, ns0, rh) => .ok (this, { (Consts.nanC : Consts α) with e := e3, ns := ns0, c := c, rh := rh })
  | .error e => .error e

/-- forward closure of `AEA` (regenerated) -/
def aeaFwd (this : SR α) (c : Consts α) (lon lat : α) : Except String (α × α) :=
  AEA_forward (c := c.c) (e3 := c.e) (ns0 := c.ns) (rh := c.rh) (this_A := aS this) (this_Long0 := gnum this.long0)
    (this_X0 := gnum this.x0) (this_Y0 := gnum this.y0) lon lat


/-- inverse closure of `AEA` (regenerated; `aeaPhi1z` is `Gen.Go.aeaPhi1z`) -/
def aeaInv (this : SR α) (c : Consts α) (x y : α) : Except String (α × α) :=
  AEA_inverse (c := c.c) (e3 := c.e) (ns0 := c.ns) (rh := c.rh) (this_A := aS this) (this_Long0 := gnum this.long0)
    (this_X0 := gnum this.x0) (this_Y0 := gnum this.y0) (this_sphere := this.sphere) x y


/-- `EqdC` (constructor body regenerated: `Gen.Go.EqdC_init`; writes `Lat2`, `Es`, `E`) -/
def eqdcInit (this : SR α) : Except String (SR α × Consts α) :=
  match EqdC_init (this_A := gnum this.a) (this_B := gnum this.b) (this_Lat0 := gnum this.lat0)
      (this_Lat1 := this.lat1) (this_Lat2 := this.lat2) with
  | .ok (e0, e1, e2, e3, g, ns, rh, E, Es, lat2) =>
    .ok ({ this with lat2 := lat2, es := Es, e := E },
         { (Consts.nanC : Consts α) with e := E, e0 := e0, e1 := e1, e2 := e2, e3 := e3, ns := ns, g := g, rh := rh })
  | .error e => .error e

/-- forward closure of `EqdC` (regenerated) -/
def eqdcFwd (this : SR α) (c : Consts α) (lon lat : α) : Except String (α × α) :=
  EqdC_forward (e0 := c.e0) (e1 := c.e1) (e2 := c.e2) (e3 := c.e3) (g := c.g) (ns := c.ns) (rh := c.rh) (this_A := aS this)
    (this_Long0 := gnum this.long0) (this_X0 := gnum this.x0) (this_Y0 := gnum this.y0) (this_sphere := this.sphere) lon lat


/-- inverse closure of `EqdC` (regenerated) -/
def eqdcInv (this : SR α) (c : Consts α) (x y : α) : Except String (α × α) :=
  EqdC_inverse (e0 := c.e0) (e1 := c.e1) (e2 := c.e2) (e3 := c.e3) (g := c.g) (ns := c.ns) (rh := c.rh) (this_A := aS this)
    (this_Long0 := gnum this.long0) (this_X0 := gnum this.x0) (this_Y0 := gnum this.y0) (this_sphere := this.sphere) x y


/-- `TMerc` (constructor body regenerated: `Gen.Go.TMerc_init`) -/
def tmercInit (this : SR α) : Except String (SR α × Consts α) :=
  match TMerc_init (this_A := gnum this.a) (this_Es := this.es) (this_Lat0 := gnum this.lat0) with
  | .ok (e0, e1, e2, e3, ml0) =>
    .ok (this, { (Consts.nanC : Consts α) with e0 := e0, e1 := e1, e2 := e2, e3 := e3, ml0 := ml0 })
  | .error e => .error e

/-- forward closure of `TMerc` (regenerated) -/
def tmercFwd (this : SR α) (c : Consts α) (lon lat : α) : Except String (α × α) :=
  TMerc_forward (e0 := c.e0) (e1 := c.e1) (e2 := c.e2) (e3 := c.e3) (ml0 := c.ml0) (this_A := aS this) (this_Ep2 := this.ep2)
    (this_Es := this.es) (this_K0 := gnum this.k0) (this_Lat0 := gnum this.lat0) (this_Long0 := gnum this.long0)
    (this_X0 := gnum this.x0) (this_Y0 := gnum this.y0) (this_sphere := this.sphere) lon lat


/-- the `for { ...; if |delta_phi| <= epsln {break}; if i >= max_iter {error}; i++ }` loop -/
def tmercPhiLoop (con e0 e1 e2 e3 : α) : Nat → α → Except String α
  | 0, _ => .error "in proj.TMerc inverse: i > max_iter"
  | n+1, phi =>
    let delta_phi := ((con + e1 * sin (2 * phi) - e2 * sin (4 * phi) + e3 * sin (6 * phi)) / e0) - phi
    let phi := phi + delta_phi
    if le (abs delta_phi) c_epsln then .ok phi
    else if n == 0 then .error "in proj.TMerc inverse: i > max_iter"
    else tmercPhiLoop con e0 e1 e2 e3 n phi

def tmercInv (this : SR α) (c : Consts α) (x y : α) : Except String (α × α) := do
  let k0 := gnum this.k0
  if this.sphere then
    let f := exp (x / (aS this * k0))
    let g := 0.5 * (f - 1 / f)
    let temp := gnum this.lat0 + y / (aS this * k0)
    let h := cos temp
    let sin_temp := sin temp
    let con := sqrt (sin_temp * sin_temp / (1 + g * g))
    let lat := asinz con
    let lat := if lt temp 0 then -lat else lat
    let lon := if eq g 0 && eq h 0 then gnum this.long0 else adjust_lon (atan2 g h + gnum this.long0)
    pure (lon, lat)
  else
    let x := x - gnum this.x0
    let y := y - gnum this.y0
    let con := (c.ml0 + y / k0) / aS this
    let phi ← tmercPhiLoop con c.e0 c.e1 c.e2 c.e3 7 con
    if lt (abs phi) halfPi then
      let sin_phi := sin phi
      let cos_phi := cos phi
      let tan_phi := tan phi
      let cc := this.ep2 * pow cos_phi 2
      let cs := pow cc 2
      let t := pow tan_phi 2
      let ts := pow t 2
      let con := 1 - this.es * pow sin_phi 2
      let n := aS this / sqrt con
      let r := n * (1 - this.es) / con
      let d := x / (n * k0)
      let ds := pow d 2
      let lat := phi - (n * tan_phi * ds / r) * (0.5 - ds / 24 * (5 + 3 * t + 10 * cc - 4 * cs - 9 * this.ep2 - ds / 30 * (61 + 90 * t + 298 * cc + 45 * ts - 252 * this.ep2 - 3 * cs)))
      let lon := adjust_lon (gnum this.long0 + (d * (1 - ds / 6 * (1 + 2 * t + cc - ds / 20 * (5 - 2 * cc + 28 * t - 3 * cs + 8 * this.ep2 + 24 * ts))) / cos_phi))
      pure (lon, lat)
    else
      pure (gnum this.long0, halfPi * sign y)

/-- `UTM` (body regenerated: `Gen.Go.UTM_init`), then `TMerc(this)` -/
def utmInit (this : SR α) : Except String (SR α × Consts α) :=
  match UTM_init (this_Zone := this.zone) (this_UTMSouth := this.utmSouth) with
  | .ok (k0, lat0, long0, x0, y0) =>
    tmercInit { this with lat0 := some lat0, long0 := some long0, x0 := some x0, y0 := some y0, k0 := some k0 }
  | .error e => .error e

def S45 : α := 0.785398163397448
def S0 : α := 1.37008346281555

/-- `Krovak` (constructor body regenerated: `Gen.Go.Krovak_init`; writes `A`, `Es`, `E`, and defaults for
`Lat0`, `Long0`, `K0`) -/
def krovakInit (this : SR α) : Except String (SR α × Consts α) :=
  match Krovak_init (this_K0 := this.k0) (this_Lat0 := this.lat0) (this_Long0 := this.long0) with
  | .ok (Ad, Alfa, K, N, Ro0, A, E, Es, k0, lat0, long0) =>
    .ok ({ this with a := some A, e := E, es := Es, k0 := k0, lat0 := lat0, long0 := long0 },
         { (Consts.nanC : Consts α) with alfa := Alfa, kk := K, n := N, ro0 := Ro0, ad := Ad })
  | .error e => .error e

/-- forward closure of `Krovak` (regenerated) -/
def krovakFwd (this : SR α) (c : Consts α) (lon lat : α) : Except String (α × α) :=
  Krovak_forward (Ad := c.ad) (Alfa := c.alfa) (K := c.kk) (N := c.n) (Ro0 := c.ro0) (this_E := this.e)
    (this_Long0 := gnum this.long0) (this_Czech := this.czech) lon lat


/-- the `for { if !(ok == 0 && iter < 15) {break}; ...; iter++ }` loop: result latitude and `iter` reached 15? -/
def krovakIter (this : SR α) (c : Consts α) (u : α) : Nat → α → α → α × Bool
  | 0, _, y => (y, true)
  | n+1, fi1, _ =>
    let y := 2 * (atan (pow c.kk (-1 / c.alfa) * pow (tan (u / 2 + S45)) (1 / c.alfa) *
      pow ((1 + this.e * sin fi1) / (1 - this.e * sin fi1)) (this.e / 2)) - S45)
    if lt (abs (fi1 - y)) 0.0000000001 then (y, n == 0) else krovakIter this c u n y y

def krovakInv (this : SR α) (c : Consts α) (x y : α) : Except String (α × α) :=
  let (x, y) := (y, x)
  let (x, y) := if !this.czech then (x * (-1), y * (-1)) else (x, y)
  let ro := sqrt (x * x + y * y)
  let eps := atan2 y x
  let d := eps / sin (S0 : α)
  let s := 2 * (atan (pow (c.ro0 / ro) (1 / c.n) * tan (S0 / 2 + S45)) - S45)
  let u := asin (cos c.ad * sin s - sin c.ad * cos s * cos d)
  let deltav := asin (cos s * sin d / cos u)
  let x := gnum this.long0 - deltav / c.alfa
  let (y, hit15) := krovakIter this c u 15 u y
  if hit15 then .error "proj.Krovak: iter >= 15" else .ok (x, y)

/-- `(*SR).Transformers()` -/
def transformers (sr : SR α) : Except String (SR α × Consts α × Kind) :=
  match kindOf sr.name with
  | none => .error "in proj.Proj.TransformFuncs, could not find transformer"
  | some .longlat => .ok (sr, Consts.nanC, .longlat)
  | some .merc => do let (s, c) ← mercInit sr; pure (s, c, .merc)
  | some .lcc => do let (s, c) ← lccInit sr; pure (s, c, .lcc)
  | some .aea => do let (s, c) ← aeaInit sr; pure (s, c, .aea)
  | some .eqdc => do let (s, c) ← eqdcInit sr; pure (s, c, .eqdc)
  | some .tmerc => do let (s, c) ← tmercInit sr; pure (s, c, .tmerc)
  | some .utm => do let (s, c) ← utmInit sr; pure (s, c, .utm)
  | some .krovak => do let (s, c) ← krovakInit sr; pure (s, c, .krovak)

def fwd (k : Kind) (s : SR α) (c : Consts α) (lon lat : α) : Except String (α × α) :=
  match k with
  | .longlat => .ok (lon, lat)
  | .merc => mercFwd s c lon lat
  | .lcc => lccFwd s c lon lat
  | .aea => aeaFwd s c lon lat
  | .eqdc => eqdcFwd s c lon lat
  | .tmerc | .utm => tmercFwd s c lon lat
  | .krovak => krovakFwd s c lon lat

def inv (k : Kind) (s : SR α) (c : Consts α) (x y : α) : Except String (α × α) :=
  match k with
  | .longlat => .ok (x, y)
  | .merc => mercInv s c x y
  | .lcc => lccInv s c x y
  | .aea => aeaInv s c x y
  | .eqdc => eqdcInv s c x y
  | .tmerc | .utm => tmercInv s c x y
  | .krovak => krovakInv s c x y

/-! ## transform.go -/

/-- `strings.EqualFold(code, "WGS84")` (fix b165df1; before it the literal comparison `!= "WGS84"` of
proj4js 2.3.12). On the ASCII codes that `projString` produces, case folding is `toLower`. -/
def isWGS84Code (code : String) : Bool := code.toLower == "wgs84"

def checkNotWGS (source dest : SR α) : Bool :=
  match source.datum with
  | some d => (d.datum_type == pjd3Param || d.datum_type == pjd7Param) && !isWGS84Code dest.datumCode
  | none => false

def wgs84Def : String := "+title=WGS 84 (long/lat) +proj=longlat +ellps=WGS84 +datum=WGS84 +units=degrees"

/-- the body of the closure after the WGS84 workaround, on a point with height `z` -/
def transformCore (source dest : SR α) (x y z : α) : Except String (α × α × α) := do
  let (source, sc, sk) ← transformers source
  let (dest, dc, dk) ← transformers dest
  if source.axis != "enu" then throw "adjust_axis: not modelled"
  let (x, y) ←
    if source.name == "longlat" then pure (x * c_deg2rad, y * c_deg2rad)
    else inv sk source sc (x * source.toMeter) (y * source.toMeter)
  let x := if !gNaN source.fromGreenwich then x + gnum source.fromGreenwich else x
  let sd ← match source.datum with | some d => pure d | none => throw "nil datum"
  let dd ← match dest.datum with | some d => pure d | none => throw "nil datum"
  let p ← datumTransform sd dd { x := x, y := y, z := z }
  let (x, y) := (p.x, p.y)
  let x := if !gNaN dest.fromGreenwich then x - gnum dest.fromGreenwich else x
  let (x, y) ←
    if dest.name == "longlat" then pure (x * c_r2d, y * c_r2d)
    else do
      let (x, y) ← fwd dk dest dc x y
      pure (x / dest.toMeter, y / dest.toMeter)
  if dest.axis != "enu" then throw "adjust_axis: not modelled"
  pure (x, y, p.z)

/-- does the closure take the two-hop route through WGS84? -/
def twoHop (source dest : SR α) : Bool := checkNotWGS source dest || checkNotWGS dest source

/-- the closure returned by `NewTransform` (its `source.Equal(dest)` shortcut is judged separately).
`keepZ = true` is the code as it is (the height computed by the first hop is passed to the second,
as proj4js does); `keepZ = false` is the snapshot's behaviour (the first hop was a 2-D
`Transformer`, so the second hop started at height 0) and is kept to name that defect when a
tree re-introduces it. -/
def transformZ (keepZ : Bool) (source dest : SR α) (x y : α) : Except String (α × α) := do
  if twoHop source dest then
    let wgs84 ← parse (α := α) wgs84Def
    -- `t, _ := source.NewTransform(wgs84); point[0], point[1], err = t(point[0], point[1])`
    let (x, y, z) ← transformCore source wgs84 x y 0
    let (x, y, _) ← transformCore wgs84 dest x y (if keepZ then z else 0)
    pure (x, y)
  else do
    let (x, y, _) ← transformCore source dest x y 0
    pure (x, y)

/-- the closure as it is now (fix ac60a9b: `transform3` carries the height through the WGS84 hop) -/
def transform (source dest : SR α) (x y : α) : Except String (α × α) := transformZ true source dest x y

/-- `Parse` both definitions, `NewTransform`, call once -/
def run (srcDef dstDef : String) (x y : α) : Except String (α × α) := do
  let s ← parse srcDef
  let d ← parse dstDef
  transform s d x y

/-- the same with the height dropped between the two hops (the snapshot's behaviour) -/
def runDropZ (srcDef dstDef : String) (x y : α) : Except String (α × α) := do
  let s ← parse srcDef
  let d ← parse dstDef
  transformZ false s d x y

def isTwoHop (srcDef dstDef : String) : Bool :=
  match parse (α := α) srcDef, parse (α := α) dstDef with
  | .ok s, .ok d => twoHop s d
  | _, _ => false

end GeomV.C09.Model
