import GeomV.C09.ProofsParse
/-!
C09: `projString` over a WHOLE definition string against `lib/projString.js` (the fold over the parameter list).
-/
open GeomV.C09 GeomV.C09.Gen.Go
namespace GeomV.C09
set_option linter.unusedSimpArgs false
set_option linter.unusedVariables false
set_option maxRecDepth 8000

/-- one `+key=value` part as both sides read it: lower-cased key, value if there is an `=` -/
def kvOf (a : String) : String × Option String :=
  let sp := (Model.trimStr a).splitOn "="
  ((sp.headD "").toLower, match sp with | _ :: v :: _ => some v | _ => none)

theorem paramNameOf_eq (a : String) : Model.paramNameOf a = (kvOf a).1 := rfl
theorem paramValOf_eq (a : String) : Model.paramValOf a = (kvOf a).2.getD "true" := by
  unfold Model.paramValOf kvOf
  rcases (Model.trimStr a).splitOn "=" with _ | ⟨x, _ | ⟨y, t⟩⟩ <;> rfl

/-- proj4js' `paramObj`: a repeated key keeps its FIRST position and takes its LAST value -/
def insKV (acc : List (String × Option String)) (kv : String × Option String) : List (String × Option String) :=
  if acc.any (·.1 == kv.1) then acc.map (fun e => if e.1 == kv.1 then (kv.1, kv.2) else e) else acc ++ [kv]
def dedupKV (l : List (String × Option String)) : List (String × Option String) := l.foldl insKV []

theorem js_paramObj_eq (code : String) :
    Js.paramObj code = dedupKV ((((code.splitOn "+").map Js.trimStr).filter (· ≠ "")).map (fun a =>
      let sp := a.splitOn "="
      ((sp.headD "").toLower, match sp with | _ :: v :: _ => some v | _ => none))) := by
  unfold Js.paramObj dedupKV
  rw [List.foldl_map]
  rfl

theorem parseNum_true : parseNum (α := ℝ) "true" = none := by
  unfold parseNum
  have : parseDecText "true" = none := by decide
  rw [this]; rfl
theorem pm_true : lookupNum Gen.goPrimeMeridians "true" = none := by decide

/-- the hypothesis of `go_projString_pm_eq_js` on a `+pm=` value: a NAMED meridian whose table value is 0
(`greenwich`: proj4js then falls through to `parseFloat` of the name) is not itself a number -/
def PmOK (v : String) : Prop :=
  ∀ d, lookupNum Gen.goPrimeMeridians v = some d → (d.toNum : ℝ) = 0 → parseNum (α := ℝ) v = none

/-- **one round of the loop of `projString`, whatever the key**: if the port's `switch` accepts the part, the handler
of projString.js for the same key leaves the same state (`ParamSame`). -/
theorem step_same (s s' : Model.SR ℝ) (o : Js.Obj ℝ) (h : ParamSame s o) (k : String) (v : Option String)
    (hpm : k = "pm" → ∀ w, v = some w → PmOK w)
    (hs : Model.applyKV s k (v.getD "true") = .ok s') : ParamSame s' (Js.applyParam o (k, v)) := by
  cases hn : projString_num k with
  | some fd =>
    obtain ⟨fld, deg⟩ := fd
    cases hp : parseNum (α := ℝ) (v.getD "true") with
    | none =>
      simp only [Model.applyKV, hn, Model.parseFloat, hp, bind, Except.bind, reduceCtorEq] at hs
    | some x =>
      cases v with
      | none => simp only [Option.getD_none, parseNum_true, reduceCtorEq] at hp
      | some w =>
        obtain ⟨s'', e, P⟩ := go_projString_num_eq_js k fld deg hn s o h w x hp
        simp only [Option.getD_some] at hs
        rw [hs] at e; cases e; exact P
  | none =>
    cases hst : projString_str k with
    | some fld =>
      have hj : Js.applyParam o (k, v) = Js.applyParam o (k, some (v.getD "true")) := by
        cases v with
        | some w => rfl
        | none =>
          unfold projString_str at hst
          split at hst <;> simp only [Option.some.injEq, reduceCtorEq] at hst <;> rfl
      obtain ⟨s'', e, P⟩ := go_projString_str_eq_js k fld hst s o h (v.getD "true")
      rw [hs] at e; cases e; rw [hj]; exact P
    | none =>
      cases hf : projString_flag k with
      | some fld =>
        obtain ⟨s'', e, P⟩ := go_projString_flag_eq_js k fld hf s o h (v.getD "true") v
        rw [hs] at e; cases e; exact P
      | none =>
        by_cases h4 : k = "towgs84"
        · subst h4
          have hj : Js.applyParam o ("towgs84", v) = Js.applyParam o ("towgs84", some (v.getD "true")) := by
            cases v <;> rfl
          rw [hj]; exact go_projString_towgs84_eq_js s s' o h _ hs
        by_cases h5 : k = "units"
        · subst h5
          have hj : Js.applyParam o ("units", v) = Js.applyParam o ("units", some (v.getD "true")) := by
            cases v <;> rfl
          obtain ⟨s'', e, P⟩ := go_projString_units_eq_js s o h (v.getD "true")
          rw [hs] at e; cases e; rw [hj]; exact P
        by_cases h7 : k = "nadgrids"
        · subst h7
          have hj : Js.applyParam o ("nadgrids", v) = Js.applyParam o ("nadgrids", some (v.getD "true")) := by
            cases v <;> rfl
          obtain ⟨s'', e, P⟩ := go_projString_nadgrids_eq_js s o h (v.getD "true")
          rw [hs] at e; cases e; rw [hj]; exact P
        by_cases h8 : k = "axis"
        · subst h8
          have hj : Js.applyParam o ("axis", v) = Js.applyParam o ("axis", some (v.getD "true")) := by
            cases v <;> rfl
          obtain ⟨s'', e, P⟩ := go_projString_axis_eq_js s o h (v.getD "true")
          rw [hs] at e; cases e; rw [hj]; exact P
        by_cases h6 : k = "pm"
        · subst h6
          -- the port's case fails unless the value is a name of the table or a number
          have hgo : ∀ w : String, Model.applyKV s "pm" w = .ok s' → lookupNum Gen.goPrimeMeridians w = none →
              ∃ x : ℝ, parseNum w = some x := by
            intro w hw hl
            cases hp : parseNum (α := ℝ) w with
            | some x => exact ⟨x, rfl⟩
            | none =>
              simp only [Model.applyKV, hn, hst, hf, Model.applySpecial, hl,
                Model.parseFloat, hp, bind, Except.bind, reduceCtorEq] at hw
          cases v with
          | none =>
            obtain ⟨x, hx⟩ := hgo "true" hs pm_true
            simp only [parseNum_true, reduceCtorEq] at hx
          | some w =>
            obtain ⟨s'', e, P⟩ := go_projString_pm_eq_js s o h w (hpm rfl w rfl) (hgo w hs)
            simp only [Option.getD_some] at hs
            rw [hs] at e; cases e; exact P
        · have := go_projString_unknown k (v.getD "true") s hn hst hf h4 h5 h6 h7 h8
          rw [this] at hs; cases hs

/-- the loop of `projString` over already split parts -/
noncomputable def goFold (s : Model.SR ℝ) (l : List (String × Option String)) : Except String (Model.SR ℝ) :=
  l.foldlM (fun s kv => Model.applyKV s kv.1 (kv.2.getD "true")) s

/-- the values given to `+pm=` satisfy `PmOK` -/
def PmsOK (l : List (String × Option String)) : Prop :=
  ∀ kv ∈ l, kv.1 = "pm" → ∀ w, kv.2 = some w → PmOK w

/-- **the fold**: the port's loop and proj4js' loop over the SAME list of parts leave the same state -/
theorem fold_same (l : List (String × Option String)) : ∀ (s s' : Model.SR ℝ) (o : Js.Obj ℝ), ParamSame s o → PmsOK l →
    goFold s l = .ok s' → ParamSame s' (l.foldl Js.applyParam o) := by
  induction l with
  | nil =>
    intro s s' o h _ hs
    simp only [goFold, List.foldlM_nil, pure, Except.pure, Except.ok.injEq] at hs
    subst hs; exact h
  | cons kv t ih =>
    intro s s' o h hpm hs
    simp only [goFold, List.foldlM_cons, bind, Except.bind] at hs
    cases h1 : Model.applyKV s kv.1 (kv.2.getD "true") with
    | error e => simp only [h1, reduceCtorEq] at hs
    | ok s1 =>
      simp only [h1] at hs
      have hstep := step_same s s1 o h kv.1 kv.2 (fun hk w hw => hpm kv (List.mem_cons_self ..) hk w hw) h1
      exact ih s1 s' _ hstep (fun e he => hpm e (List.mem_cons_of_mem _ he)) hs

theorem insKV_fresh (acc : List (String × Option String)) (kv : String × Option String) (h : kv.1 ∉ acc.map (·.1)) :
    insKV acc kv = acc ++ [kv] := by
  unfold insKV
  have : acc.any (·.1 == kv.1) = false := by
    rw [List.any_eq_false]
    intro e he hc
    exact h (List.mem_map.mpr ⟨e, he, by simpa using hc⟩)
  simp only [this, Bool.false_eq_true, if_false]

theorem dedup_fresh (l : List (String × Option String)) : ∀ acc : List (String × Option String),
    ((acc ++ l).map (·.1)).Nodup → l.foldl insKV acc = acc ++ l := by
  induction l with
  | nil => intro acc _; simp
  | cons kv t ih =>
    intro acc hn
    have hk : kv.1 ∉ acc.map (·.1) := by
      intro hc
      simp only [List.map_append, List.map_cons] at hn
      have := (List.nodup_append.mp hn).2.2 _ hc kv.1 (List.mem_cons_self ..)
      exact this rfl
    simp only [List.foldl_cons, insKV_fresh acc kv hk]
    have : acc ++ kv :: t = (acc ++ [kv]) ++ t := by simp
    rw [this] at hn ⊢
    exact ih _ hn

/-- without repeated keys proj4js' `paramObj` is the list of parts in the order written -/
theorem dedupKV_nodup (l : List (String × Option String)) (h : (l.map (·.1)).Nodup) : dedupKV l = l := by
  have := dedup_fresh l [] (by simpa using h)
  simpa [dedupKV] using this

/-- the last statement of `projString`: the datum code is lower-cased unless it is literally `WGS84` -/
noncomputable def goFinish (self : Model.SR ℝ) : Model.SR ℝ :=
  if self.datumCode != "WGS84" then { self with datumCode := self.datumCode.toLower } else self

theorem go_projString_unfold (code : String) :
    Model.projString (α := ℝ) code = (goFold Model.newSR (((code.splitOn "+").drop 1).map kvOf)).map goFinish := by
  unfold Model.projString goFold
  rw [List.foldlM_map]
  have : (fun (s : Model.SR ℝ) (a : String) => Model.applyKV s (kvOf a).1 ((kvOf a).2.getD "true")) = Model.applyParam := by
    funext s a
    simp only [Model.applyParam, paramNameOf_eq, paramValOf_eq]
  rw [this]
  show ((List.foldlM (Model.applyParam (α := ℝ)) Model.newSR ((code.splitOn "+").drop 1)) >>= fun self => pure (goFinish self)) = _
  generalize List.foldlM (Model.applyParam (α := ℝ)) Model.newSR ((code.splitOn "+").drop 1) = r
  cases r <;> rfl

theorem js_parts_eq (l : List String) (h : ∀ a ∈ l, Model.trimStr a ≠ "") :
    (((l.map Js.trimStr).filter (· ≠ "")).map (fun a =>
      let sp := a.splitOn "="
      ((sp.headD "").toLower, match sp with | _ :: v :: _ => some v | _ => none))) = l.map kvOf := by
  induction l with
  | nil => rfl
  | cons x t ih =>
    have hx : Js.trimStr x ≠ "" := h x (List.mem_cons_self ..)
    simp only [List.map_cons, List.filter_cons, hx, ne_eq, not_false_eq_true, decide_true, if_true, ite_true]
    rw [← ih (fun a ha => h a (List.mem_cons_of_mem _ ha))]
    rfl

/-- the last statement of projString.js: the same lower-casing -/
theorem finish_same (s : Model.SR ℝ) (o : Js.Obj ℝ) (h : ParamSame s o) :
    ParamSame (goFinish s)
      (match o.datumCode with
       | some dc => if dc ≠ "WGS84" then { o with datumCode := some dc.toLower } else o
       | none => o) := by
  have hdc := h.datumCode
  unfold goFinish
  cases hd : o.datumCode with
  | none =>
    rw [hd] at hdc
    simp only [Option.getD_none] at hdc
    have hl : ("" : String).toLower = "" := by decide +kernel
    have : (s.datumCode != "WGS84") = true := by rw [← hdc]; decide
    simp only [this, if_true]
    constructor <;> first
      | exact h.name | exact h.ellps | exact h.units | exact h.nadgrids | exact h.axis | exact h.rf | exact h.lat0
      | exact h.lat1 | exact h.lat2 | exact h.latts | exact h.long0 | exact h.x0 | exact h.y0 | exact h.k0 | exact h.a
      | exact h.b | exact h.zone | exact h.fg | exact h.tm | exact h.dp | exact h.ra | exact h.south | exact h.kk | exact h.czech
      | (show o.datumCode.getD "" = s.datumCode.toLower; rw [hd, ← hdc, hl]; rfl)
  | some dc =>
    rw [hd] at hdc
    simp only [Option.getD_some] at hdc
    subst hdc
    by_cases hw : s.datumCode = "WGS84"
    · have hb : (s.datumCode != "WGS84") = false := by simp [hw]
      simp only [hb, Bool.false_eq_true, if_false, ne_eq, hw, not_true_eq_false]
      exact h
    · have hb : (s.datumCode != "WGS84") = true := by simpa using hw
      simp only [hb, if_true, ne_eq, hw, not_false_eq_true]
      constructor <;> first
        | exact h.name | exact h.ellps | exact h.units | exact h.nadgrids | exact h.axis | exact h.rf | exact h.lat0
        | exact h.lat1 | exact h.lat2 | exact h.latts | exact h.long0 | exact h.x0 | exact h.y0 | exact h.k0 | exact h.a
        | exact h.b | exact h.zone | exact h.fg | exact h.tm | exact h.dp | exact h.ra | exact h.south | exact h.kk | exact h.czech
        | rfl

/-- the parts of a definition as the port's loop sees them (`strings.Split(defData, "+")` without the first piece) -/
def partsOf (code : String) : List (String × Option String) := ((code.splitOn "+").drop 1).map kvOf

/-- the definition starts with `+` (nothing but blanks before it) and has no empty part (`+ +`, a trailing `+`) -/
def WellFormed (code : String) : Prop :=
  Model.trimStr ((code.splitOn "+").headD "") = "" ∧ ∀ a ∈ (code.splitOn "+").drop 1, Model.trimStr a ≠ ""

theorem js_projString_unfold (code : String) (hw : WellFormed code) :
    Js.projString (α := ℝ) code =
      (let self := (dedupKV (partsOf code)).foldl Js.applyParam (Js.Obj.empty : Js.Obj ℝ)
       match self.datumCode with
       | some dc => if dc ≠ "WGS84" then { self with datumCode := some dc.toLower } else self
       | none => self) := by
  unfold Js.projString
  rw [js_paramObj_eq]
  have : ∀ L : List String, Js.trimStr (L.headD "") = "" →
      ((L.map Js.trimStr).filter (· ≠ "")) = (((L.drop 1).map Js.trimStr).filter (· ≠ "")) := by
    intro L h0
    cases L with
    | nil => rfl
    | cons x t =>
      simp only [List.headD_cons] at h0
      simp only [List.map_cons, List.filter_cons, h0, ne_eq, not_true_eq_false, decide_false, Bool.false_eq_true, if_false,
        List.drop_succ_cons, List.drop_zero]
  have := this (code.splitOn "+") hw.1
  rw [this, js_parts_eq _ hw.2]
  rfl

/-- **`projString` = projString.js over a whole definition string, the general statement**: proj4js reads a
definition as the port reads the definition in which every REPEATED key keeps its first position and takes its
last value (`paramObj` is an object: `+k=1 +k_0=2 +k=3` ends at `k0 = 2` in proj4js and at 3 in the port —
`k` and `k_0` write the same field). Whenever the port's loop accepts that de-duplicated list, the two states
are the same (`ParamSame`: a parameter is set on one side iff on the other, to the same number/string). -/
theorem go_projString_eq_js_dedup (code : String) (hw : WellFormed code) (s : Model.SR ℝ)
    (hpm : PmsOK (dedupKV (partsOf code)))
    (hs : (goFold Model.newSR (dedupKV (partsOf code))).map goFinish = .ok s) :
    ParamSame s (Js.projString code) := by
  rw [js_projString_unfold code hw]
  cases hf : goFold Model.newSR (dedupKV (partsOf code)) with
  | error e => simp only [hf, Except.map, reduceCtorEq] at hs
  | ok s1 =>
    simp only [hf, Except.map, Except.ok.injEq] at hs
    subst hs
    exact finish_same _ _ (fold_same _ _ _ _ paramSame_new hpm hf)

/-- **`projString` = projString.js over a whole definition string**: for a definition without repeated keys
(`k` and `k_0`, `datum` and `nadgrids` are different keys: both sides apply them in the order written), whenever the
port's `projString` accepts it, proj4js' `projString` leaves the same parameters: every field set on one side
iff on the other, to the same number (degrees converted by the same constant) or string. -/
theorem go_projString_eq_js (code : String) (hw : WellFormed code) (s : Model.SR ℝ)
    (hnd : ((partsOf code).map (·.1)).Nodup) (hpm : PmsOK (partsOf code))
    (hs : Model.projString code = .ok s) : ParamSame s (Js.projString code) := by
  rw [go_projString_unfold] at hs
  have hd := dedupKV_nodup _ hnd
  exact go_projString_eq_js_dedup code hw s (by rw [hd]; exact hpm) (by rw [hd]; exact hs)

/-- non-vacuity of `fold_same` / `go_projString_eq_js_dedup`: the port's loop accepts `+proj=longlat +a=6378388 +rf=297 +pm=paris`
(as parts), the keys are distinct and the `+pm` value is fine -/
example : (∃ s', goFold Model.newSR [("proj", some "longlat"), ("a", some "6378388"), ("rf", some "297"), ("pm", some "paris")] = .ok s') ∧
    ([("proj", some "longlat"), ("a", some "6378388"), ("rf", some "297"), ("pm", some "paris")].map
      (fun kv : String × Option String => kv.1)).Nodup := by
  have h1 : parseDecText "6378388" = some ⟨false, 6378388, true, 0⟩ := by decide
  have h2 : parseDecText "297" = some ⟨false, 297, true, 0⟩ := by decide
  have h3 : lookupNum Gen.goPrimeMeridians "paris" = some ⟨2337229166667, 1, 12⟩ := by decide
  constructor
  · simp only [goFold, List.foldlM_cons, List.foldlM_nil, Model.applyKV, projString_num, projString_str, projString_flag,
      Model.setStr, Model.setNum, Model.applySpecial, Model.parseFloat, parseNum, h1, h2, h3, Option.map_some, Option.getD_some,
      bind, Except.bind, pure, Except.pure, Bool.false_eq_true, if_false]
    exact ⟨_, rfl⟩
  · decide

/-- the exact difference on repeated keys, on the witness `+k=1 +k_0=2 +k=3`: proj4js' `paramObj` is `k: 3, k_0: 2`
(first position, last value) -/
example : dedupKV [("k", some "1"), ("k_0", some "2"), ("k", some "3")] = [("k", some "3"), ("k_0", some "2")] := by decide

/-- … and the two sides then differ: the port's loop ends at `K0 = 3`, proj4js at `k0 = 2` -/
theorem repeated_key_differs :
    (∃ s', goFold Model.newSR [("k", some "1"), ("k_0", some "2"), ("k", some "3")] = .ok s' ∧ s'.k0 = some (3 : ℝ)) ∧
    ((dedupKV [("k", some "1"), ("k_0", some "2"), ("k", some "3")]).foldl Js.applyParam (Js.Obj.empty : Js.Obj ℝ)).k0 = some (2 : ℝ) := by
  have hd : dedupKV [("k", some "1"), ("k_0", some "2"), ("k", some "3")] = [("k", some "3"), ("k_0", some "2")] := by decide
  have h1 : parseDecText "1" = some ⟨false, 1, true, 0⟩ := by decide
  have h2 : parseDecText "2" = some ⟨false, 2, true, 0⟩ := by decide
  have h3 : parseDecText "3" = some ⟨false, 3, true, 0⟩ := by decide
  constructor
  · simp only [goFold, List.foldlM_cons, List.foldlM_nil, Model.applyKV, projString_num,
      Model.setNum, Model.parseFloat, parseNum, h1, h2, h3, Option.map_some, Option.getD_some,
      bind, Except.bind, pure, Except.pure, Bool.false_eq_true, if_false]
    refine ⟨_, rfl, ?_⟩
    simp only [DecText.toNum, Bool.false_eq_true, if_false, if_true, Option.some.injEq]
    show (OfScientific.ofScientific 3 true 0 : ℝ) = 3
    norm_num
  · rw [hd]
    simp only [List.foldl_cons, List.foldl_nil, Js.applyParam, Js.jsNum, parseNum, h2, h3, Option.map_some, Option.getD_some,
      DecText.toNum, Bool.false_eq_true, if_false, if_true, Option.some.injEq]
    show (OfScientific.ofScientific 2 true 0 : ℝ) = 2
    norm_num

end GeomV.C09
