import GeomV.C05.Tie
import GeomV.C05.ProofsStream
import GeomV.C05.FillAdd
/-!
# C05 — T1 tie of the STREAMING path: `wkb.Read(r io.Reader)` as regenerated from the Go source

`Gen.lean` holds the reader functions of encoding/wkb a second time (names ending in `S`), translated from the
same Go text with the `io.Reader` as any byte source (`GenLibS.lean`: every `binary.Read` = ONE `io.ReadFull` of
the value's size, then the in-memory decoding of the buffer — for a `[]geom.Point` the slice walk).  This file
proves, function by function, that the regenerated functions behind an arbitrary SCRIPTED reader
(`Stream.scriptSrc`: short reads, empty reads, data together with an error, errors of the reader's own) are
related to the regenerated slice functions on the bytes the reader delivers before its first error:

* same value, and the reader is left delivering exactly the bytes the slice function left (and with the same
  first error);
* the same rejection (`badOrder`, `badType`, `unexpected`, …);
* where the slice function runs out of input (`Err.eof`), the reader's own first error.

`C05_stream_gen` is that statement for `Gen.readS` against `Gen.read`; with `tie_read` it gives
`C05_stream_gen_model` (against `Model.read`) and `C05_stream_read_gen` (any order tree, any chunking: the value
is read back and exactly its encoding is consumed) — the theorems of `ProofsStream.lean`, now about the text of
the Go functions as it is in the tree under test instead of the hand-written `Stream.readS`.
-/
set_option linter.unusedSimpArgs false
set_option linter.unusedVariables false
namespace GeomV.C05.GenS
open GeomV GeomV.C05 GeomV.C05.Stream GeomV.C05.Ogc

/-! ### the relation -/

/-- the error the stream side reports where the slice side reports `e`: the end of the input is the reader's
first error `E`, everything else is the package's own error -/
def errX (E : SErr) : Err → SErr
  | .eof => E
  | e => .wkb e

/-- reader states: the script delivers exactly `bs` before its first error, whose class is `E`; and it is what
successful `io.ReadFull` calls have left of the reader `s₀` the call started from (`Stream.Reach`: by additivity of
`io.ReadFull` that is a function of `s₀` and of the number of bytes consumed, however they were asked for) -/
def RS (E : SErr) (s₀ : Script) (s : Script) (bs : Bytes) : Prop := avail s = bs ∧ short (firstErr s) = E ∧ Reach s₀ s

def RelX {α₁ α₂ : Type} (E : SErr) (Q : α₁ → α₂ → Prop) (x : Except SErr α₁) (y : Except Err α₂) : Prop :=
  match y with
  | .ok b => ∃ a, x = .ok a ∧ Q a b
  | .error e => x = .error (errX E e)

/-- value and reader state -/
def QV {α : Type} (E : SErr) (s₀ : Script) (a : α × Script) (b : α × Bytes) : Prop := a.1 = b.1 ∧ RS E s₀ a.2 b.2

variable {E : SErr} {s₀ : Script}

theorem relX_pure {α₁ α₂ : Type} {Q : α₁ → α₂ → Prop} {a : α₁} {b : α₂} (h : Q a b) :
    RelX E Q (pure a : Except SErr α₁) (pure b : Except Err α₂) := ⟨a, rfl, h⟩

theorem relX_ok {α₁ α₂ : Type} {Q : α₁ → α₂ → Prop} {a : α₁} {b : α₂} (h : Q a b) :
    RelX E Q (.ok a : Except SErr α₁) (.ok b : Except Err α₂) := ⟨a, rfl, h⟩

theorem relX_bind {α₁ α₂ β₁ β₂ : Type} {Q : α₁ → α₂ → Prop} {Q' : β₁ → β₂ → Prop}
    {x : Except SErr α₁} {y : Except Err α₂} {f : α₁ → Except SErr β₁} {g : α₂ → Except Err β₂}
    (h : RelX E Q x y) (hf : ∀ a b, Q a b → RelX E Q' (f a) (g b)) : RelX E Q' (x >>= f) (y >>= g) := by
  cases y with
  | error e =>
    simp only [RelX] at h
    subst h
    simp [RelX, bind, Except.bind]
  | ok b =>
    obtain ⟨a, rfl, hq⟩ := h
    simpa [bind, Except.bind] using hf a b hq

theorem relX_throw {α₁ α₂ : Type} {Q : α₁ → α₂ → Prop} (e : Err) (he : e ≠ .eof) :
    RelX E Q (throw (SErr.wkb e) : Except SErr α₁) (throw e : Except Err α₂) := by
  cases e <;> simp [RelX, errX, throw, throwThe, MonadExceptOf.throw] at he ⊢

theorem relX_lift {α : Type} (x : Except Err α) (hx : x ≠ .error .eof) : RelX E (· = ·) (liftS x) x := by
  cases x with
  | ok a => exact ⟨a, rfl, rfl⟩
  | error e => cases e <;> simp [RelX, errX, liftS] at hx ⊢

/-! ### loops -/

theorem loopN_rel {σ₁ σ₂ : Type} {Q : σ₁ → σ₂ → Prop} {f₁ : σ₁ → Except SErr σ₁} {f₂ : σ₂ → Except Err σ₂}
    (hf : ∀ a b, Q a b → RelX E Q (f₁ a) (f₂ b)) :
    ∀ (n : Nat) (s₁ : σ₁) (s₂ : σ₂), Q s₁ s₂ → RelX E Q (loopNS n s₁ f₁) (loopN n s₂ f₂)
  | 0, s₁, s₂, h => relX_ok h
  | n+1, s₁, s₂, h => relX_bind (hf s₁ s₂ h) (fun a b hab => loopN_rel hf n a b hab)

theorem forRange_rel {α σ₁ σ₂ : Type} {Q : σ₁ → σ₂ → Prop} {f₁ : α → σ₁ → Except SErr σ₁} {f₂ : α → σ₂ → Except Err σ₂}
    (hf : ∀ x a b, Q a b → RelX E Q (f₁ x a) (f₂ x b)) :
    ∀ (xs : List α) (s₁ : σ₁) (s₂ : σ₂), Q s₁ s₂ → RelX E Q (forRangeS xs s₁ f₁) (forRange xs s₂ f₂)
  | [], s₁, s₂, h => relX_ok h
  | x :: xs, s₁, s₂, h => relX_bind (hf x s₁ s₂ h) (fun a b hab => forRange_rel hf xs a b hab)

theorem whileLoop_rel {σ₁ σ₂ : Type} {Q : σ₁ → σ₂ → Prop} {c₁ : σ₁ → Bool} {c₂ : σ₂ → Bool}
    {f₁ : σ₁ → Except SErr σ₁} {f₂ : σ₂ → Except Err σ₂}
    (hc : ∀ a b, Q a b → c₁ a = c₂ b) (hf : ∀ a b, Q a b → RelX E Q (f₁ a) (f₂ b)) :
    ∀ (k : Nat) (s₁ : σ₁) (s₂ : σ₂), Q s₁ s₂ → RelX E Q (whileLoopS k c₁ s₁ f₁) (whileLoop k c₂ s₂ f₂)
  | 0, s₁, s₂, h => by simp [whileLoopS, whileLoop, RelX, errX]
  | k+1, s₁, s₂, h => by
    unfold whileLoopS whileLoop
    rw [hc s₁ s₂ h]
    cases c₂ s₂ with
    | false => exact relX_ok h
    | true => exact relX_bind (hf s₁ s₂ h) (fun a b hab => whileLoop_rel hc hf k a b hab)

/-! ### `binary.Read`: one `io.ReadFull` of the value's size, then the decoding of the buffer -/

/-- `rd` consumes exactly `k` bytes: it fails with the end-of-input error on anything shorter and otherwise
decodes the first `k` bytes, whatever follows them -/
def Frame {α : Type} (k : Nat) (rd : Bytes → Except Err (α × Bytes)) : Prop :=
  (∀ bs, bs.length < k → rd bs = .error .eof) ∧ (∀ a, a.length = k → ∃ v, ∀ r, rd (a ++ r) = .ok (v, r))

theorem binS_rel {α : Type} (k : Nat) (rd : Bytes → Except Err (α × Bytes)) (hF : Frame k rd)
    (s : Script) (bs : Bytes) (h : RS E s₀ s bs) : RelX E (QV E s₀) (binS scriptSrc k rd s) (rd bs) := by
  obtain ⟨rfl, rfl, hreach⟩ := h
  have hs := fill_spec s k []
  by_cases hlt : (avail s).length < k
  · have h1 := hs.1 hlt
    have h2 := hF.1 _ hlt
    simp [binS, scriptSrc, h1, h2, RelX, errX]
  · obtain ⟨s', hfill, hav, hfe⟩ := hs.2 (Nat.le_of_not_lt hlt)
    have hlen : ((avail s).take k).length = k := by
      simp only [List.length_take]; omega
    obtain ⟨v, hv⟩ := hF.2 _ hlen
    have h2 : rd (avail s) = .ok (v, (avail s).drop k) := by
      have := hv ((avail s).drop k)
      rwa [List.take_append_drop] at this
    have h3 : rd ((avail s).take k) = .ok (v, []) := by
      have := hv []
      rwa [List.append_nil] at this
    simp only [List.nil_append] at hfill
    simp only [binS, scriptSrc, hfill, h3, h2, RelX]
    exact ⟨(v, s'), rfl, rfl, hav, by rw [hfe], reach_step hreach hfill⟩

theorem frame_u8 (bo : BO) : Frame 1 (binReadU8 bo) := by
  refine ⟨fun bs h => ?_, fun a h => ?_⟩
  · cases bs with
    | nil => rfl
    | cons b t => simp at h
  · match a, h with
    | [b], _ => exact ⟨b.toNat, fun r => rfl⟩

theorem frame_readNat (bo : BO) (k : Nat) : Frame k (readNat bo k) := by
  refine ⟨fun bs h => ?_, fun a h => ⟨valBytes bo a, fun r => ?_⟩⟩
  · simp [readNat, takeN, h, bind, Except.bind]
  · simp [readNat, takeN_append k a r h, bind, Except.bind, pure, Except.pure]

theorem frame_u32 (bo : BO) : Frame 4 (binReadU32 bo) := frame_readNat bo 4

theorem frame_u64 (bo : BO) : Frame 8 (readU64 bo) := by
  refine ⟨fun bs h => ?_, fun a h => ⟨UInt64.ofNat (valBytes bo a), fun r => ?_⟩⟩
  · simp [readU64, (frame_readNat bo 8).1 bs h, bind, Except.bind]
  · simp [readU64, readNat, takeN_append 8 a r h, bind, Except.bind, pure, Except.pure]

/-- two framed reads one after the other are a framed read of the sum -/
theorem frame_seq {α β γ : Type} {k₁ k₂ : Nat} {rd₁ : Bytes → Except Err (α × Bytes)} {rd₂ : Bytes → Except Err (β × Bytes)}
    (h₁ : Frame k₁ rd₁) (h₂ : Frame k₂ rd₂) (f : α → β → γ) :
    Frame (k₁ + k₂) (fun bs => do
      let (x, bs) ← rd₁ bs
      let (y, bs) ← rd₂ bs
      pure (f x y, bs)) := by
  refine ⟨fun bs h => ?_, fun a h => ?_⟩
  · by_cases hlt : bs.length < k₁
    · simp [h₁.1 bs hlt, bind, Except.bind]
    · have hlen : (bs.take k₁).length = k₁ := by simp only [List.length_take]; omega
      obtain ⟨v, hv⟩ := h₁.2 _ hlen
      have h1 := hv (bs.drop k₁)
      rw [List.take_append_drop] at h1
      have h2 := h₂.1 (bs.drop k₁) (by simp only [List.length_drop]; omega)
      simp [h1, h2, bind, Except.bind]
  · have hlen : (a.take k₁).length = k₁ := by simp only [List.length_take]; omega
    obtain ⟨v, hv⟩ := h₁.2 _ hlen
    obtain ⟨w, hw⟩ := h₂.2 (a.drop k₁) (by simp only [List.length_drop]; omega)
    refine ⟨f v w, fun r => ?_⟩
    have h1 := hv (a.drop k₁ ++ r)
    rw [← List.append_assoc, List.take_append_drop] at h1
    simp [h1, hw r, bind, Except.bind, pure, Except.pure]

theorem frame_point (bo : BO) : Frame 16 (binReadPoint bo) :=
  frame_seq (frame_u64 bo) (frame_u64 bo) (fun x y => (⟨x, y⟩ : Pt UInt64))

theorem frame_many {α : Type} {k : Nat} {rd : Bytes → Except Err (α × Bytes)} (h : Frame k rd) :
    ∀ n : Nat, Frame (k * n) (readMany rd n)
  | 0 => by
    refine ⟨fun bs h => by simp at h, fun a h => ⟨[], fun r => ?_⟩⟩
    have : a = [] := List.eq_nil_of_length_eq_zero (by simpa using h)
    subst this
    rfl
  | n+1 => by
    have := frame_seq h (frame_many h n) (fun (x : α) (xs : List α) => x :: xs)
    rw [Nat.mul_succ, Nat.add_comm]
    exact this

/-- the slice walk: `binary.Read` into a `[]geom.Point` of length `n` consumes exactly `16·n` bytes -/
theorem frame_points (bo : BO) (dst : List (Pt UInt64)) : Frame (16 * dst.length) (binReadPoints bo dst) :=
  frame_many (frame_point bo) dst.length

/-! ### the regenerated functions, one by one -/

theorem asGeom_ne (g : BGeom) : asGeom g ≠ .error .eof := by cases g <;> simp [asGeom]

/-- `Read`/a reader function behind a scripted reader against the slice function -/
def RelRead (E : SErr) (s₀ : Script) (X : ReadFnS Script) (Y : ReadFn) : Prop :=
  ∀ s bs, RS E s₀ s bs → RelX E (QV E s₀) (X s) (Y bs)

theorem pointReader_rel (bo : BO) : RelRead E s₀ (Gen.pointReaderS scriptSrc bo) (Gen.pointReader bo) := by
  intro s bs h
  unfold Gen.pointReaderS Gen.pointReader
  refine relX_bind (binS_rel 16 _ (frame_point bo) s bs h) ?_
  rintro ⟨v, s'⟩ ⟨v', bs'⟩ ⟨hv, hr⟩
  simp only at hv
  subst hv
  exact relX_pure ⟨rfl, hr⟩

theorem readPoints_rel (bo : BO) (s : Script) (bs : Bytes) (h : RS E s₀ s bs) :
    RelX E (QV E s₀) (Gen.readPointsS scriptSrc bo s) (Gen.readPoints bo bs) := by
  unfold Gen.readPointsS Gen.readPoints
  refine relX_bind (binS_rel 4 _ (frame_u32 bo) s bs h) ?_
  rintro ⟨n, s'⟩ ⟨n', bs'⟩ ⟨hv, hr⟩
  simp only at hv
  subst hv
  refine relX_bind (Q := fun (a : Nat × List (Pt UInt64) × Script) (b : Nat × List (Pt UInt64) × Bytes) =>
      a.1 = b.1 ∧ a.2.1 = b.2.1 ∧ RS E s₀ a.2.2 b.2.2)
    (whileLoop_rel ?_ ?_ _ _ _ ⟨rfl, rfl, hr⟩) ?_
  · rintro ⟨r, p, t⟩ ⟨r', p', t'⟩ ⟨h1, h2, h3⟩
    simp only at h1
    subst h1
    rfl
  · rintro ⟨r, p, t⟩ ⟨r', p', t'⟩ ⟨h1, h2, h3⟩
    simp only at h1 h2 h3
    subst h1 h2
    refine relX_bind (binS_rel _ _ (frame_points bo _) t t' h3) ?_
    rintro ⟨c, u⟩ ⟨c', u'⟩ ⟨hc, hu⟩
    simp only at hc
    subst hc
    exact relX_pure ⟨rfl, rfl, hu⟩
  · rintro ⟨r, p, t⟩ ⟨r', p', t'⟩ ⟨h1, h2, h3⟩
    simp only at h2
    subst h2
    exact relX_pure ⟨rfl, h3⟩

theorem lineStringReader_rel (bo : BO) : RelRead E s₀ (Gen.lineStringReaderS scriptSrc bo) (Gen.lineStringReader bo) := by
  intro s bs h
  unfold Gen.lineStringReaderS Gen.lineStringReader
  refine relX_bind (readPoints_rel bo s bs h) ?_
  rintro ⟨v, s'⟩ ⟨v', bs'⟩ ⟨hv, hr⟩
  simp only at hv
  subst hv
  exact relX_pure ⟨rfl, hr⟩

theorem polygonReader_rel (bo : BO) : RelRead E s₀ (Gen.polygonReaderS scriptSrc bo) (Gen.polygonReader bo) := by
  intro s bs h
  unfold Gen.polygonReaderS Gen.polygonReader
  refine relX_bind (binS_rel 4 _ (frame_u32 bo) s bs h) ?_
  rintro ⟨n, s'⟩ ⟨n', bs'⟩ ⟨hv, hr⟩
  simp only at hv
  subst hv
  refine relX_bind (Q := QV E s₀) (loopN_rel ?_ _ _ _ ⟨rfl, hr⟩) ?_
  · rintro ⟨p, t⟩ ⟨p', t'⟩ ⟨h1, h2⟩
    simp only at h1 h2
    subst h1
    refine relX_bind (readPoints_rel bo t t' h2) ?_
    rintro ⟨c, u⟩ ⟨c', u'⟩ ⟨hc, hu⟩
    simp only at hc
    subst hc
    exact relX_pure ⟨rfl, hu⟩
  · rintro ⟨p, t⟩ ⟨p', t'⟩ ⟨h1, h2⟩
    simp only at h1
    subst h1
    exact relX_pure ⟨rfl, h2⟩

/-- the common shape of the three Multi* readers and the collection reader: count, then `count` times
`Read` + a type assertion -/
theorem members_rel {β : Type} (bo : BO) (X : ReadFnS Script) (Y : ReadFn) (hR : RelRead E s₀ X Y)
    (cast : BGeom → Except Err β) (hcast : ∀ g, cast g ≠ .error .eof) (k : List β → BGeom)
    (s : Script) (bs : Bytes) (h : RS E s₀ s bs) :
    RelX E (QV E s₀)
      (do
        let (n, bs) ← binReadU32S scriptSrc bo s
        let xs : List β := ([] : List β)
        let (xs, bs) ← loopNS n (xs, bs) (fun (xs, bs) => do
            let (g, bs) ← X bs
            let x ← liftS (cast g)
            let xs : List β := (xs ++ [x])
            pure (xs, bs))
        pure (k xs, bs))
      (do
        let (n, bs) ← binReadU32 bo bs
        let xs : List β := ([] : List β)
        let (xs, bs) ← loopN n (xs, bs) (fun (xs, bs) => do
            let (g, bs) ← Y bs
            let x ← cast g
            let xs : List β := (xs ++ [x])
            pure (xs, bs))
        pure (k xs, bs)) := by
  refine relX_bind (binS_rel 4 _ (frame_u32 bo) s bs h) ?_
  rintro ⟨n, s'⟩ ⟨n', bs'⟩ ⟨hv, hr⟩
  simp only at hv
  subst hv
  refine relX_bind (Q := QV E s₀) (loopN_rel ?_ _ _ _ ⟨rfl, hr⟩) ?_
  · rintro ⟨p, t⟩ ⟨p', t'⟩ ⟨h1, h2⟩
    simp only at h1 h2
    subst h1
    refine relX_bind (hR t t' h2) ?_
    rintro ⟨g, u⟩ ⟨g', u'⟩ ⟨hg, hu⟩
    simp only at hg
    subst hg
    refine relX_bind (relX_lift (cast g) (hcast g)) ?_
    rintro x x' rfl
    exact relX_pure ⟨rfl, hu⟩
  · rintro ⟨p, t⟩ ⟨p', t'⟩ ⟨h1, h2⟩
    simp only at h1
    subst h1
    exact relX_pure ⟨rfl, h2⟩

theorem multiPointReader_rel (X : ReadFnS Script) (Y : ReadFn) (hR : RelRead E s₀ X Y) (bo : BO) :
    RelRead E s₀ (Gen.multiPointReaderS scriptSrc X bo) (Gen.multiPointReader Y bo) :=
  fun s bs h => members_rel bo X Y hR asPoint asPoint_ne .multiPoint s bs h

theorem multiLineStringReader_rel (X : ReadFnS Script) (Y : ReadFn) (hR : RelRead E s₀ X Y) (bo : BO) :
    RelRead E s₀ (Gen.multiLineStringReaderS scriptSrc X bo) (Gen.multiLineStringReader Y bo) :=
  fun s bs h => members_rel bo X Y hR asLine asLine_ne .multiLineString s bs h

theorem multiPolygonReader_rel (X : ReadFnS Script) (Y : ReadFn) (hR : RelRead E s₀ X Y) (bo : BO) :
    RelRead E s₀ (Gen.multiPolygonReaderS scriptSrc X bo) (Gen.multiPolygonReader Y bo) :=
  fun s bs h => members_rel bo X Y hR asPoly asPoly_ne .multiPolygon s bs h

theorem geometryCollectionReader_rel (X : ReadFnS Script) (Y : ReadFn) (hR : RelRead E s₀ X Y) (bo : BO) :
    RelRead E s₀ (Gen.geometryCollectionReaderS scriptSrc X bo) (Gen.geometryCollectionReader Y bo) :=
  fun s bs h => members_rel bo X Y hR asGeom asGeom_ne .collection s bs h

/-! ### the dispatch table and `Read` -/

/-- two dispatch tables with the same keys and related readers, entry by entry -/
def RelTab (E : SErr) (s₀ : Script) : List (Nat × ReaderFnS Script) → List (Nat × ReaderFn) → Prop
  | [], [] => True
  | a :: as, b :: bs => a.1 = b.1 ∧ (∀ bo, RelRead E s₀ (a.2 bo) (b.2 bo)) ∧ RelTab E s₀ as bs
  | _, _ => False

theorem mapGet_rel : ∀ (t₁ : List (Nat × ReaderFnS Script)) (t₂ : List (Nat × ReaderFn)) (code : Nat), RelTab E s₀ t₁ t₂ →
    match mapGet t₁ code, mapGet t₂ code with
    | some r₁, some r₂ => ∀ bo, RelRead E s₀ (r₁ bo) (r₂ bo)
    | none, none => True
    | _, _ => False
  | [], [], _, _ => by simp [mapGet]
  | [], _ :: _, _, h => by simp [RelTab] at h
  | _ :: _, [], _, h => by simp [RelTab] at h
  | (k₁, v₁) :: as, (k₂, v₂) :: bs, code, h => by
    obtain ⟨hk, hv, ht⟩ := h
    simp only at hk hv
    subst hk
    have ih := mapGet_rel as bs code ht
    simp only [mapGet]
    cases h1 : mapGet as code <;> cases h2 : mapGet bs code <;> simp only [h1, h2] at ih ⊢
    · by_cases hc : k₁ = code <;> simp [hc]
      exact hv
    · exact ih

theorem wkbReaders_rel (X : ReadFnS Script) (Y : ReadFn) (hR : RelRead E s₀ X Y) :
    RelTab E s₀ (Gen.wkbReadersS scriptSrc X) (Gen.wkbReaders Y) := by
  unfold Gen.wkbReadersS Gen.wkbReaders
  exact ⟨rfl, pointReader_rel, rfl, lineStringReader_rel, rfl, polygonReader_rel,
    rfl, multiPointReader_rel X Y hR, rfl, multiLineStringReader_rel X Y hR, rfl, multiPolygonReader_rel X Y hR,
    rfl, geometryCollectionReader_rel X Y hR, trivial⟩

theorem Read_rel (X : ReadFnS Script) (Y : ReadFn) (hR : RelRead E s₀ X Y) :
    RelRead E s₀ (Gen.ReadS scriptSrc X) (Gen.Read Y) := by
  intro s bs h
  unfold Gen.ReadS Gen.Read
  refine relX_bind (binS_rel 1 _ (frame_u8 .ndr) s bs h) ?_
  rintro ⟨v, s'⟩ ⟨v', bs'⟩ ⟨hv, hr⟩
  simp only at hv
  subst hv
  refine relX_bind (Q := (· = ·)) ?_ ?_
  · by_cases h1 : v = Gen.wkbXDR
    · simp only [if_pos h1]; exact relX_pure rfl
    · simp only [if_neg h1]
      by_cases h2 : v = Gen.wkbNDR
      · simp only [if_pos h2]; exact relX_pure rfl
      · simp only [if_neg h2]; exact relX_throw _ (by decide)
  · rintro bo bo' rfl
    refine relX_bind (binS_rel 4 _ (frame_u32 bo) s' bs' hr) ?_
    rintro ⟨c, t⟩ ⟨c', t'⟩ ⟨hc, ht⟩
    simp only at hc
    subst hc
    have hm := mapGet_rel _ _ c (wkbReaders_rel (E := E) X Y hR)
    cases h1 : mapGet (Gen.wkbReadersS scriptSrc X) c <;> cases h2 : mapGet (Gen.wkbReaders Y) c <;>
      simp only [h1, h2] at hm ⊢
    · exact relX_throw _ (by decide)
    · exact hm bo t t' ht

theorem readS_rel (fuel : Nat) : RelRead E s₀ (Gen.readS scriptSrc fuel) (Gen.read fuel) := by
  induction fuel with
  | zero => intro s bs h; simp [Gen.readS, Gen.read, RelX, errX]
  | succ f ih => exact Read_rel _ _ ih

end GeomV.C05.GenS

namespace GeomV.C05
open GeomV GeomV.C05.Stream GeomV.C05.Ogc GeomV.C05.GenS

/-- **C05_stream_gen** (T1, streaming path).  For EVERY scripted reader `s` (any chunking, short and empty
reads, data returned together with an error, errors of the reader's own; well-formed content or not) the
function regenerated from the text of `wkb.Read` and its readers with the reader as a byte source
(`Gen.readS scriptSrc`) is the regenerated slice decoder `Gen.read` applied to the bytes `s` delivers before its
first error: the same geometry, leaving a reader that delivers exactly what `Gen.read` left; the same
rejection; and where `Gen.read` runs out of input, the reader's own first error. -/
theorem C05_stream_gen (fuel : Nat) : Transfers (Gen.readS scriptSrc fuel) (Gen.read fuel) := by
  intro s
  have h := GenS.readS_rel (E := short (firstErr s)) (s₀ := s) fuel s (avail s) ⟨rfl, rfl, reach_refl s⟩
  cases hm : Gen.read fuel (avail s) with
  | ok p =>
    obtain ⟨a, r⟩ := p
    simp only [hm, RelX] at h
    obtain ⟨⟨a', s'⟩, hx, ha, hr1, hr2, _⟩ := h
    simp only at ha hr1 hr2
    subst ha
    exact ⟨s', hx, hr1, hr2⟩
  | error x =>
    simp only [hm, RelX] at h
    cases x <;> simpa [errX] using h

/-- the reader a successful regenerated streaming `Read` leaves behind is what `io.ReadFull` calls leave of the
reader it was given (`Stream.Reach`) -/
theorem stream_gen_reach (fuel : Nat) (s s' : Script) (g : BGeom) (h : Gen.readS scriptSrc fuel s = .ok (g, s')) :
    Reach s s' := by
  have hr := GenS.readS_rel (E := short (firstErr s)) (s₀ := s) fuel s (avail s) ⟨rfl, rfl, reach_refl s⟩
  cases hm : Gen.read fuel (avail s) with
  | ok p =>
    simp only [hm, RelX] at hr
    obtain ⟨⟨a', s''⟩, hx, _, _, _, hreach⟩ := hr
    rw [h] at hx
    cases hx
    exact hreach
  | error x =>
    simp only [hm, RelX] at hr
    rw [h] at hr
    cases hr

/-- the same against the hand-written model (`tie_read`) -/
theorem C05_stream_gen_model (fuel : Nat) : Transfers (Gen.readS scriptSrc fuel) (read fuel) := by
  have := C05_stream_gen fuel
  rwa [tie_read] at this

/-- **C05_stream_read_gen.** "Decoding accepts either byte order at any depth" for the regenerated streaming
`Read`: for every order tree, encodable `g` and scripted reader whose deliverable bytes start with the OGC
serialization of `g`, it returns `g` and leaves a reader delivering exactly what followed — whatever the
chunking. -/
theorem C05_stream_read_gen (fuel : Nat) (t : OTree) (g : BGeom) (enc rest : Bytes) (s : Script)
    (he : Encodable g) (hf : g.depth + 1 < fuel) (hs : serializeMixed t g = some enc)
    (ha : avail s = enc ++ rest) :
    ∃ s', Gen.readS scriptSrc fuel s = .ok (g, s') ∧ avail s' = rest := by
  have h := C05_stream_gen_model fuel s
  rw [ha, C05_mixed_order fuel t g enc rest he hf hs] at h
  obtain ⟨s', h1, h2, _⟩ := h
  exact ⟨s', h1, h2⟩

/-- a reader that fails inside an encoding makes the regenerated streaming `Read` return that failure -/
theorem C05_stream_truncated_gen (fuel : Nat) (t : OTree) (g : BGeom) (p q : Bytes) (s : Script)
    (he : Encodable g) (hf : g.depth + 1 < fuel) (hs : serializeMixed t g = some (p ++ q)) (hq : q ≠ [])
    (ha : avail s = p) :
    Gen.readS scriptSrc fuel s = .error (short (firstErr s)) := by
  have h := C05_stream_gen_model fuel s
  rw [ha, C05_truncated fuel t g p q he hf hs hq] at h
  exact h

/-- non-vacuity: the regenerated streaming `Read` on the script of `ProofsStream.exScript` -/
example : Gen.readS scriptSrc 2 exScript = .ok (.point ⟨0x7ff8000000000001, 0x8000000000000000⟩, [.fail .eof, .data [9]]) := by
  rfl

end GeomV.C05
