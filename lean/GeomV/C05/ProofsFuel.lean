import GeomV.C05.ProofsStream
/-!
# C05 — the recursion budget of the model is never observable at the entry point `wkb.Decode`

`Model.read` carries a recursion budget `fuel` (a model artefact: the Go code recurses freely) and answers
`Err.fuel` when it is exhausted.  `Model.decode bs` runs `read` with the budget `bs.length + 1`.  The theorems on
`read` in `Proofs.lean`/`ProofsStream.lean` ask for a budget above the nesting depth of the *geometry*, which for
a truncated input may exceed the budget `decode` uses.  Here the budget is shown to be irrelevant as soon as it
exceeds the length of the *input*:

* `read_rest_le`           a successful `read` consumes at least the five header bytes;
* `read_fuel_enough`       `bs.length < fuel → read fuel bs ≠ .error .fuel` (every level consumes ≥ 9 bytes);
* `read_fuel_mono`(`_le`)  a result other than `Err.fuel` is unchanged by a larger budget;
* `C05_fuel_irrelevant`    all budgets above the input length give the same result;
* `C05_decode_no_fuel`     `decode` never answers `Err.fuel`;
* `C05_truncated_decode`   the truncated-input clause for the entry point `wkb.Decode`.
-/
set_option linter.unusedSimpArgs false
set_option linter.unusedVariables false
namespace GeomV.C05.Fuel
open GeomV GeomV.C05.Ogc

/-! ### `Except` plumbing -/

theorem bind_ok_iff {α β : Type} (x : Except Err α) (f : α → Except Err β) (b : β) :
    (x >>= f) = .ok b ↔ ∃ a, x = .ok a ∧ f a = .ok b := by
  cases x with
  | error e => simp [bind, Except.bind]
  | ok a => simp [bind, Except.bind]

theorem bind_err_iff {α β : Type} (x : Except Err α) (f : α → Except Err β) (e : Err) :
    (x >>= f) = .error e ↔ x = .error e ∨ ∃ a, x = .ok a ∧ f a = .error e := by
  cases x with
  | error e' => simp [bind, Except.bind]
  | ok a => simp [bind, Except.bind]

/-! ### `read (fuel+1)` as a functional of the reader used for nested elements -/

/-- count field, then that many members read by `rd` -/
def counted {β : Type} (bo : BO) (rd : Bytes → Except Err (β × Bytes)) (k : List β → BGeom) (bs : Bytes) :
    Except Err (BGeom × Bytes) := do
  let (n, bs) ← readU32 bo bs
  let (r, bs) ← readMany rd n bs
  pure (k r, bs)

/-- the dispatch on the type code, nested elements read by `rec` -/
def payload (rec : Bytes → Except Err (BGeom × Bytes)) (bo : BO) (code : Nat) (bs : Bytes) :
    Except Err (BGeom × Bytes) :=
  if code = 1 then do
    let (p, bs) ← readPoint bo bs; pure (.point p, bs)
  else if code = 2 then do
    let (p, bs) ← readPoints bo bs; pure (.lineString p, bs)
  else if code = 3 then counted bo (readPoints bo) .polygon bs
  else if code = 4 then counted bo (readAs rec asPoint) .multiPoint bs
  else if code = 5 then counted bo (readAs rec asLine) .multiLineString bs
  else if code = 6 then counted bo (readAs rec asPoly) .multiPolygon bs
  else if code = 7 then counted bo rec .collection bs
  else .error .badType

/-- the byte-order flag -/
def orderOf (fl : Bytes) : Except Err BO :=
  match fl with
  | [b] => if b = 0 then .ok BO.xdr else if b = 1 then .ok BO.ndr else .error .badOrder
  | _ => .error .eof

/-- one level of `read` -/
def body (rec : Bytes → Except Err (BGeom × Bytes)) (bs : Bytes) : Except Err (BGeom × Bytes) := do
  let (fl, bs) ← takeN 1 bs
  let bo ← orderOf fl
  let (code, bs) ← readU32 bo bs
  payload rec bo code bs

theorem read_succ (fuel : Nat) (bs : Bytes) : read (fuel + 1) bs = body (read fuel) bs := by
  rfl

/-! ### (A) the rest is shorter than the input -/

/-- every successful run of `m` consumes at least `k` bytes -/
def Shr {α : Type} (k : Nat) (m : Bytes → Except Err (α × Bytes)) : Prop :=
  ∀ bs a r, m bs = .ok (a, r) → r.length + k ≤ bs.length

theorem Shr.mono {α : Type} {k j : Nat} {m : Bytes → Except Err (α × Bytes)} (h : Shr k m) (hj : j ≤ k) :
    Shr j m := fun bs a r hh => by have := h bs a r hh; omega

theorem takeN_ok {k : Nat} {bs h t : Bytes} (hh : takeN k bs = .ok (h, t)) : t.length + k = bs.length := by
  unfold takeN at hh
  split at hh
  · cases hh
  · simp only [Except.ok.injEq, Prod.mk.injEq] at hh
    obtain ⟨_, rfl⟩ := hh
    simp only [List.length_drop]; omega

theorem takeN_err {k : Nat} {bs : Bytes} {e : Err} (hh : takeN k bs = .error e) : e = .eof := by
  unfold takeN at hh
  split at hh
  · cases hh; rfl
  · cases hh

theorem readNat_ok {bo : BO} {k : Nat} {bs t : Bytes} {n : Nat} (hh : readNat bo k bs = .ok (n, t)) :
    t.length + k = bs.length := by
  unfold readNat at hh
  rw [bind_ok_iff] at hh
  obtain ⟨⟨h, t'⟩, h1, h2⟩ := hh
  simp only [pure, Except.pure, Except.ok.injEq, Prod.mk.injEq] at h2
  obtain ⟨_, rfl⟩ := h2
  exact takeN_ok h1

theorem readNat_err {bo : BO} {k : Nat} {bs : Bytes} {e : Err} (hh : readNat bo k bs = .error e) : e = .eof := by
  unfold readNat at hh
  rw [bind_err_iff] at hh
  rcases hh with hh | ⟨⟨h, t'⟩, h1, h2⟩
  · exact takeN_err hh
  · simp [pure, Except.pure] at h2

theorem readU32_ok {bo : BO} {bs t : Bytes} {n : Nat} (hh : readU32 bo bs = .ok (n, t)) :
    t.length + 4 = bs.length := readNat_ok hh

theorem readU32_err {bo : BO} {bs : Bytes} {e : Err} (hh : readU32 bo bs = .error e) : e = .eof :=
  readNat_err hh

theorem readU64_ok {bo : BO} {bs t : Bytes} {u : UInt64} (hh : readU64 bo bs = .ok (u, t)) :
    t.length + 8 = bs.length := by
  unfold readU64 at hh
  rw [bind_ok_iff] at hh
  obtain ⟨⟨n, t'⟩, h1, h2⟩ := hh
  simp only [pure, Except.pure, Except.ok.injEq, Prod.mk.injEq] at h2
  obtain ⟨_, rfl⟩ := h2
  exact readNat_ok h1

theorem readU64_err {bo : BO} {bs : Bytes} {e : Err} (hh : readU64 bo bs = .error e) : e = .eof := by
  unfold readU64 at hh
  rw [bind_err_iff] at hh
  rcases hh with hh | ⟨⟨n, t'⟩, h1, h2⟩
  · exact readNat_err hh
  · simp [pure, Except.pure] at h2

theorem readPoint_ok {bo : BO} {bs t : Bytes} {p : Pt UInt64} (hh : readPoint bo bs = .ok (p, t)) :
    t.length + 16 = bs.length := by
  unfold readPoint at hh
  rw [bind_ok_iff] at hh
  obtain ⟨⟨x, b1⟩, h1, h2⟩ := hh
  dsimp only at h2
  rw [bind_ok_iff] at h2
  obtain ⟨⟨y, b2⟩, h3, h4⟩ := h2
  simp only [pure, Except.pure, Except.ok.injEq, Prod.mk.injEq] at h4
  obtain ⟨_, rfl⟩ := h4
  have := readU64_ok h1
  have := readU64_ok h3
  omega

theorem readPoint_err {bo : BO} {bs : Bytes} {e : Err} (hh : readPoint bo bs = .error e) : e = .eof := by
  unfold readPoint at hh
  rw [bind_err_iff] at hh
  rcases hh with hh | ⟨⟨x, b1⟩, h1, h2⟩
  · exact readU64_err hh
  · dsimp only at h2
    rw [bind_err_iff] at h2
    rcases h2 with h2 | ⟨⟨y, b2⟩, h3, h4⟩
    · exact readU64_err h2
    · simp [pure, Except.pure] at h4

theorem readU32_shr (bo : BO) : Shr 4 (readU32 bo) := fun bs a r h => by have := readU32_ok h; omega
theorem readPoint_shr (bo : BO) : Shr 16 (readPoint bo) := fun bs a r h => by have := readPoint_ok h; omega

theorem readMany_shr {β : Type} {rd : Bytes → Except Err (β × Bytes)} (hrd : Shr 0 rd) (n : Nat) :
    Shr 0 (readMany rd n) := by
  induction n with
  | zero =>
    intro bs xs r h
    simp only [readMany, Except.ok.injEq, Prod.mk.injEq] at h
    obtain ⟨_, rfl⟩ := h
    omega
  | succ n ih =>
    intro bs xs r h
    simp only [readMany] at h
    rw [bind_ok_iff] at h
    obtain ⟨⟨a, b1⟩, h1, h2⟩ := h
    dsimp only at h2
    rw [bind_ok_iff] at h2
    obtain ⟨⟨as, b2⟩, h3, h4⟩ := h2
    simp only [pure, Except.pure, Except.ok.injEq, Prod.mk.injEq] at h4
    obtain ⟨_, rfl⟩ := h4
    have := hrd _ _ _ h1
    have := ih _ _ _ h3
    omega

theorem readPoints_shr (bo : BO) : Shr 4 (readPoints bo) := by
  intro bs ps r h
  unfold readPoints at h
  rw [bind_ok_iff] at h
  obtain ⟨⟨n, b1⟩, h1, h2⟩ := h
  dsimp only at h2
  have := readU32_ok h1
  have := readMany_shr ((readPoint_shr bo).mono (Nat.zero_le _)) n _ _ _ h2
  omega

theorem readAs_shr {β : Type} {rd : Bytes → Except Err (BGeom × Bytes)} (cast : BGeom → Except Err β) {k : Nat}
    (hrd : Shr k rd) : Shr k (readAs rd cast) := by
  intro bs v r h
  unfold readAs at h
  rw [bind_ok_iff] at h
  obtain ⟨⟨g, b1⟩, h1, h2⟩ := h
  dsimp only at h2
  rw [bind_ok_iff] at h2
  obtain ⟨v', h3, h4⟩ := h2
  simp only [pure, Except.pure, Except.ok.injEq, Prod.mk.injEq] at h4
  obtain ⟨_, rfl⟩ := h4
  exact hrd _ _ _ h1

theorem counted_shr {β : Type} (bo : BO) {rd : Bytes → Except Err (β × Bytes)} (k : List β → BGeom)
    (hrd : Shr 0 rd) : Shr 4 (counted bo rd k) := by
  intro bs g r h
  unfold counted at h
  rw [bind_ok_iff] at h
  obtain ⟨⟨n, b1⟩, h1, h2⟩ := h
  dsimp only at h2
  rw [bind_ok_iff] at h2
  obtain ⟨⟨xs, b2⟩, h3, h4⟩ := h2
  simp only [pure, Except.pure, Except.ok.injEq, Prod.mk.injEq] at h4
  obtain ⟨_, rfl⟩ := h4
  have := readU32_ok h1
  have := readMany_shr hrd n _ _ _ h3
  omega

theorem payload_shr {rec : Bytes → Except Err (BGeom × Bytes)} (hrec : Shr 0 rec) (bo : BO) (code : Nat) :
    Shr 4 (payload rec bo code) := by
  intro bs g r h
  unfold payload at h
  split at h
  · rw [bind_ok_iff] at h
    obtain ⟨⟨p, b1⟩, h1, h2⟩ := h
    simp only [pure, Except.pure, Except.ok.injEq, Prod.mk.injEq] at h2
    obtain ⟨_, rfl⟩ := h2
    have := readPoint_ok h1
    omega
  split at h
  · rw [bind_ok_iff] at h
    obtain ⟨⟨p, b1⟩, h1, h2⟩ := h
    simp only [pure, Except.pure, Except.ok.injEq, Prod.mk.injEq] at h2
    obtain ⟨_, rfl⟩ := h2
    exact readPoints_shr bo _ _ _ h1
  split at h
  · exact counted_shr bo _ ((readPoints_shr bo).mono (Nat.zero_le _)) _ _ _ h
  split at h
  · exact counted_shr bo _ (readAs_shr _ hrec) _ _ _ h
  split at h
  · exact counted_shr bo _ (readAs_shr _ hrec) _ _ _ h
  split at h
  · exact counted_shr bo _ (readAs_shr _ hrec) _ _ _ h
  split at h
  · exact counted_shr bo _ hrec _ _ _ h
  · cases h

theorem body_shr {rec : Bytes → Except Err (BGeom × Bytes)} (hrec : Shr 0 rec) : Shr 9 (body rec) := by
  intro bs g r h
  unfold body at h
  rw [bind_ok_iff] at h
  obtain ⟨⟨fl, b1⟩, h1, h2⟩ := h
  dsimp only at h2
  rw [bind_ok_iff] at h2
  obtain ⟨bo, h3, h4⟩ := h2
  rw [bind_ok_iff] at h4
  obtain ⟨⟨code, b2⟩, h5, h6⟩ := h4
  dsimp only at h6
  have := takeN_ok h1
  have := readU32_ok h5
  have := payload_shr hrec bo code _ _ _ h6
  omega

/-- every successful `read` consumes at least 9 bytes (flag, type code, and a count or more) -/
theorem read_shr : ∀ fuel : Nat, Shr 9 (read fuel)
  | 0 => fun bs g r h => by simp [read] at h
  | fuel + 1 => fun bs g r h => by
    rw [read_succ] at h
    exact body_shr ((read_shr fuel).mono (Nat.zero_le _)) bs g r h

/-- **read_rest_le.** A successful `read` leaves a rest at least five bytes (the header) shorter than its input. -/
theorem read_rest_le (fuel : Nat) (bs r : Bytes) (g : BGeom) (h : read fuel bs = .ok (g, r)) :
    r.length + 5 ≤ bs.length := by
  have := read_shr fuel bs g r h
  omega

/-! ### (B) where an `Err.fuel` comes from -/

theorem readMany_fuel {β : Type} {rd : Bytes → Except Err (β × Bytes)} (hrd : Shr 0 rd) (n : Nat) (bs : Bytes)
    (h : readMany rd n bs = .error .fuel) : ∃ bs', bs'.length ≤ bs.length ∧ rd bs' = .error .fuel := by
  induction n generalizing bs with
  | zero => simp [readMany] at h
  | succ n ih =>
    simp only [readMany] at h
    rw [bind_err_iff] at h
    rcases h with h | ⟨⟨a, b1⟩, h1, h2⟩
    · exact ⟨bs, Nat.le_refl _, h⟩
    · dsimp only at h2
      rw [bind_err_iff] at h2
      rcases h2 with h2 | ⟨⟨as, b2⟩, h3, h4⟩
      · obtain ⟨bs', hl, hr⟩ := ih b1 h2
        have := hrd _ _ _ h1
        exact ⟨bs', by omega, hr⟩
      · simp [pure, Except.pure] at h4

theorem readPoints_nofuel (bo : BO) (bs : Bytes) : readPoints bo bs ≠ .error .fuel := by
  intro h
  unfold readPoints at h
  rw [bind_err_iff] at h
  rcases h with h | ⟨⟨n, b1⟩, h1, h2⟩
  · cases readU32_err h
  · dsimp only at h2
    obtain ⟨bs', _, hr⟩ := readMany_fuel ((readPoint_shr bo).mono (Nat.zero_le _)) n b1 h2
    cases readPoint_err hr

theorem readAs_fuel {β : Type} {rd : Bytes → Except Err (BGeom × Bytes)} {cast : BGeom → Except Err β}
    (hc : ∀ g, cast g ≠ .error .fuel) (bs : Bytes) (h : readAs rd cast bs = .error .fuel) :
    rd bs = .error .fuel := by
  unfold readAs at h
  rw [bind_err_iff] at h
  rcases h with h | ⟨⟨g, b1⟩, h1, h2⟩
  · exact h
  · dsimp only at h2
    rw [bind_err_iff] at h2
    rcases h2 with h2 | ⟨v, h3, h4⟩
    · exact (hc g h2).elim
    · simp [pure, Except.pure] at h4

theorem asPoint_nofuel (g : BGeom) : asPoint g ≠ .error .fuel := by cases g <;> simp [asPoint]
theorem asLine_nofuel (g : BGeom) : asLine g ≠ .error .fuel := by cases g <;> simp [asLine]
theorem asPoly_nofuel (g : BGeom) : asPoly g ≠ .error .fuel := by cases g <;> simp [asPoly]

theorem counted_fuel {β : Type} (bo : BO) {rd : Bytes → Except Err (β × Bytes)} (k : List β → BGeom)
    (hrd : Shr 0 rd) (bs : Bytes) (h : counted bo rd k bs = .error .fuel) :
    ∃ bs', bs'.length + 4 ≤ bs.length ∧ rd bs' = .error .fuel := by
  unfold counted at h
  rw [bind_err_iff] at h
  rcases h with h | ⟨⟨n, b1⟩, h1, h2⟩
  · cases readU32_err h
  · dsimp only at h2
    rw [bind_err_iff] at h2
    rcases h2 with h2 | ⟨⟨xs, b2⟩, h3, h4⟩
    · obtain ⟨bs', hl, hr⟩ := readMany_fuel hrd n b1 h2
      have := readU32_ok h1
      exact ⟨bs', by omega, hr⟩
    · simp [pure, Except.pure] at h4

theorem payload_fuel {rec : Bytes → Except Err (BGeom × Bytes)} (hrec : Shr 0 rec) (bo : BO) (code : Nat)
    (bs : Bytes) (h : payload rec bo code bs = .error .fuel) :
    ∃ bs', bs'.length + 4 ≤ bs.length ∧ rec bs' = .error .fuel := by
  unfold payload at h
  split at h
  · rw [bind_err_iff] at h
    rcases h with h | ⟨⟨p, b1⟩, h1, h2⟩
    · cases readPoint_err h
    · simp [pure, Except.pure] at h2
  split at h
  · rw [bind_err_iff] at h
    rcases h with h | ⟨⟨p, b1⟩, h1, h2⟩
    · exact (readPoints_nofuel bo bs h).elim
    · simp [pure, Except.pure] at h2
  split at h
  · obtain ⟨bs', _, hr⟩ := counted_fuel bo _ ((readPoints_shr bo).mono (Nat.zero_le _)) bs h
    exact (readPoints_nofuel bo bs' hr).elim
  split at h
  · obtain ⟨bs', hl, hr⟩ := counted_fuel bo _ (readAs_shr _ hrec) bs h
    exact ⟨bs', hl, readAs_fuel asPoint_nofuel bs' hr⟩
  split at h
  · obtain ⟨bs', hl, hr⟩ := counted_fuel bo _ (readAs_shr _ hrec) bs h
    exact ⟨bs', hl, readAs_fuel asLine_nofuel bs' hr⟩
  split at h
  · obtain ⟨bs', hl, hr⟩ := counted_fuel bo _ (readAs_shr _ hrec) bs h
    exact ⟨bs', hl, readAs_fuel asPoly_nofuel bs' hr⟩
  split at h
  · exact counted_fuel bo _ hrec bs h
  · cases h

theorem orderOf_nofuel (fl : Bytes) : orderOf fl ≠ .error .fuel := by
  intro h
  unfold orderOf at h
  split at h
  · split at h
    · cases h
    · split at h <;> cases h
  · cases h

theorem body_fuel {rec : Bytes → Except Err (BGeom × Bytes)} (hrec : Shr 0 rec) (bs : Bytes)
    (h : body rec bs = .error .fuel) : ∃ bs', bs'.length + 9 ≤ bs.length ∧ rec bs' = .error .fuel := by
  unfold body at h
  rw [bind_err_iff] at h
  rcases h with h | ⟨⟨fl, b1⟩, h1, h2⟩
  · cases takeN_err h
  · dsimp only at h2
    rw [bind_err_iff] at h2
    rcases h2 with h2 | ⟨bo, h3, h4⟩
    · exact (orderOf_nofuel fl h2).elim
    · rw [bind_err_iff] at h4
      rcases h4 with h4 | ⟨⟨code, b2⟩, h5, h6⟩
      · cases readU32_err h4
      · dsimp only at h6
        obtain ⟨bs', hl, hr⟩ := payload_fuel hrec bo code b2 h6
        have := takeN_ok h1
        have := readU32_ok h5
        exact ⟨bs', by omega, hr⟩

/-- **read_fuel_enough.** With a budget above the input length `read` never answers `Err.fuel`: every level of
the recursion consumes bytes (nine, in fact) before it descends. -/
theorem read_fuel_enough : ∀ (fuel : Nat) (bs : Bytes), bs.length < fuel → read fuel bs ≠ .error .fuel
  | 0, bs, hl => by omega
  | fuel + 1, bs, hl => by
    intro h
    rw [read_succ] at h
    obtain ⟨bs', hl', hr⟩ := body_fuel ((read_shr fuel).mono (Nat.zero_le _)) bs h
    exact read_fuel_enough fuel bs' (by omega) hr

/-! ### (C) a larger budget refines the result -/

/-- `y` is `x` unless `x` is the budget error -/
def Ref {α : Type} (x y : Except Err α) : Prop := x ≠ .error .fuel → y = x

theorem Ref.refl {α : Type} (x : Except Err α) : Ref x x := fun _ => rfl

theorem Ref.bind {α β : Type} {x y : Except Err α} {f g : α → Except Err β} (h : Ref x y)
    (hf : ∀ a, Ref (f a) (g a)) : Ref (x >>= f) (y >>= g) := by
  intro hne
  cases x with
  | error e =>
    have hx : (Except.error e : Except Err α) ≠ .error .fuel := by
      intro he
      apply hne
      rw [he]
      rfl
    rw [h hx]
    rfl
  | ok a =>
    have hx : (Except.ok a : Except Err α) ≠ .error .fuel := by
      intro he
      cases he
    rw [h hx]
    exact hf a hne

theorem Ref.ite {α : Type} {c : Prop} [Decidable c] {a a' b b' : Except Err α} (h1 : Ref a a') (h2 : Ref b b') :
    Ref (if c then a else b) (if c then a' else b') := by
  split
  · exact h1
  · exact h2

theorem readMany_ref {β : Type} {rd rd' : Bytes → Except Err (β × Bytes)} (h : ∀ bs, Ref (rd bs) (rd' bs))
    (n : Nat) (bs : Bytes) : Ref (readMany rd n bs) (readMany rd' n bs) := by
  induction n generalizing bs with
  | zero => simp only [readMany]; exact Ref.refl _
  | succ n ih =>
    simp only [readMany]
    apply Ref.bind (h bs)
    intro p
    obtain ⟨a, b1⟩ := p
    dsimp only
    apply Ref.bind (ih b1)
    intro q
    exact Ref.refl _

theorem readAs_ref {β : Type} {rd rd' : Bytes → Except Err (BGeom × Bytes)} (cast : BGeom → Except Err β)
    (h : ∀ bs, Ref (rd bs) (rd' bs)) (bs : Bytes) : Ref (readAs rd cast bs) (readAs rd' cast bs) := by
  unfold readAs
  apply Ref.bind (h bs)
  intro p
  exact Ref.refl _

theorem counted_ref {β : Type} (bo : BO) {rd rd' : Bytes → Except Err (β × Bytes)} (k : List β → BGeom)
    (h : ∀ bs, Ref (rd bs) (rd' bs)) (bs : Bytes) : Ref (counted bo rd k bs) (counted bo rd' k bs) := by
  unfold counted
  apply Ref.bind (Ref.refl _)
  intro p
  obtain ⟨n, b1⟩ := p
  dsimp only
  apply Ref.bind (readMany_ref h n b1)
  intro q
  exact Ref.refl _

theorem payload_ref {rec rec' : Bytes → Except Err (BGeom × Bytes)} (h : ∀ bs, Ref (rec bs) (rec' bs))
    (bo : BO) (code : Nat) (bs : Bytes) : Ref (payload rec bo code bs) (payload rec' bo code bs) := by
  unfold payload
  refine Ref.ite (Ref.refl _) (Ref.ite (Ref.refl _) (Ref.ite (Ref.refl _)
    (Ref.ite ?_ (Ref.ite ?_ (Ref.ite ?_ (Ref.ite ?_ (Ref.refl _)))))))
  · exact counted_ref bo _ (readAs_ref _ h) bs
  · exact counted_ref bo _ (readAs_ref _ h) bs
  · exact counted_ref bo _ (readAs_ref _ h) bs
  · exact counted_ref bo _ h bs

theorem body_ref {rec rec' : Bytes → Except Err (BGeom × Bytes)} (h : ∀ bs, Ref (rec bs) (rec' bs))
    (bs : Bytes) : Ref (body rec bs) (body rec' bs) := by
  unfold body
  apply Ref.bind (Ref.refl _)
  intro p
  obtain ⟨fl, b1⟩ := p
  dsimp only
  apply Ref.bind (Ref.refl _)
  intro bo
  apply Ref.bind (Ref.refl _)
  intro q
  obtain ⟨code, b2⟩ := q
  dsimp only
  exact payload_ref h bo code b2

theorem read_ref : ∀ (fuel : Nat) (bs : Bytes), Ref (read fuel bs) (read (fuel + 1) bs)
  | 0, bs => fun hne => (hne (by simp [read])).elim
  | fuel + 1, bs => by
    rw [read_succ (fuel + 1), read_succ fuel]
    exact body_ref (read_ref fuel) bs

/-- **read_fuel_mono.** A result other than `Err.fuel` does not change when the budget grows. -/
theorem read_fuel_mono (fuel : Nat) (bs : Bytes) (h : read fuel bs ≠ .error .fuel) :
    read (fuel + 1) bs = read fuel bs := read_ref fuel bs h

theorem read_fuel_mono_le {fuel fuel' : Nat} (bs : Bytes) (hle : fuel ≤ fuel')
    (h : read fuel bs ≠ .error .fuel) : read fuel' bs = read fuel bs := by
  induction hle with
  | refl => rfl
  | step hm ih => rw [read_fuel_mono _ bs (by rw [ih]; exact h), ih]

/-- **C05_fuel_irrelevant.** All budgets above the input length give the same result: the budget of the model is
not observable on `decode`, whose budget is `bs.length + 1`. -/
theorem C05_fuel_irrelevant (f₁ f₂ : Nat) (bs : Bytes) (h₁ : bs.length < f₁) (h₂ : bs.length < f₂) :
    read f₁ bs = read f₂ bs := by
  rcases Nat.le_total f₁ f₂ with hle | hle
  · exact (read_fuel_mono_le bs hle (read_fuel_enough f₁ bs h₁)).symm
  · exact read_fuel_mono_le bs hle (read_fuel_enough f₂ bs h₂)

/-- **C05_decode_no_fuel.** The model artefact `Err.fuel` never surfaces at the entry point. -/
theorem C05_decode_no_fuel (bs : Bytes) : decode bs ≠ .error .fuel := by
  intro h
  have hne := read_fuel_enough (bs.length + 1) bs (Nat.lt_succ_self _)
  unfold decode at h
  cases hr : read (bs.length + 1) bs with
  | error e =>
    rw [hr] at h hne
    simp only [Functor.map, Except.map, Except.error.injEq] at h
    subst h
    exact hne rfl
  | ok p =>
    rw [hr] at h
    simp [Functor.map, Except.map] at h

/-- `decode` is `read` under any budget above the input length -/
theorem decode_eq_read (fuel : Nat) (bs : Bytes) (h : bs.length < fuel) :
    decode bs = (read fuel bs).map (·.1) := by
  unfold decode
  rw [C05_fuel_irrelevant (bs.length + 1) fuel bs (Nat.lt_succ_self _) h]

/-- **C05_truncated_decode** — the truncated-input clause for the entry point `wkb.Decode`.  For every byte-order
tree `t`, every encodable geometry `g` and every split of its OGC serialization into `p ++ q` with `q`
non-empty, `wkb.Decode p` is the end-of-input error: a proper prefix of a serialization never decodes to a
geometry, never produces another error, and never runs into the model's recursion budget (`Err.fuel`), although
the budget `p.length + 1` used by `decode` may be smaller than the nesting depth of `g`. -/
theorem C05_truncated_decode (t : OTree) (g : BGeom) (p q : Bytes)
    (he : Encodable g) (hs : serializeMixed t g = some (p ++ q)) (hq : q ≠ []) :
    decode p = .error .eof := by
  have hF : g.depth + 1 < max (p.length + 1) (g.depth + 2) := by omega
  have hP : p.length < max (p.length + 1) (g.depth + 2) := by omega
  have hr := Stream.C05_truncated (max (p.length + 1) (g.depth + 2)) t g p q he hF hs hq
  rw [decode_eq_read _ p hP, hr]
  rfl

/-! ### non-vacuity -/

/-- the first 12 of the 21 bytes of a big-endian point -/
example : decode [0, 0, 0, 0, 1, 0, 0, 0, 0, 0, 0, 0] = .error .eof := by rfl

/-- the hypotheses of `C05_truncated_decode` are satisfiable: the same 12 bytes, as a prefix of the
serialization of `POINT(bits 1, bits 2)` -/
example : decode [0, 0, 0, 0, 1, 0, 0, 0, 0, 0, 0, 0] = .error .eof :=
  C05_truncated_decode (.uniform .xdr) (.point ⟨1, 2⟩) [0, 0, 0, 0, 1, 0, 0, 0, 0, 0, 0, 0]
    [1, 0, 0, 0, 0, 0, 0, 0, 2] trivial (by decide +kernel) (by simp)

/-- a collection nested deeper than the prefix is long: budget 10 < depth-driven budget, still `eof` -/
example : decode [1, 7, 0, 0, 0, 1, 0, 0, 0] = .error .eof := by rfl

/-- a budget at or below the input length CAN be the limit (so `read_fuel_enough` is not vacuous) -/
example : read 1 [1, 7, 0, 0, 0, 1, 0, 0, 0, 1, 1, 0, 0, 0] = .error .fuel := by rfl

end GeomV.C05.Fuel
