import GeomV.C05.Model
/-!
# C05 — vocabulary of the definitions regenerated from the Go source (T1 tie)

`Gen.lean` is rewritten from /repo/encoding/wkb/*.go and /repo/encoding/hex/hex.go by
`harness/cmd/c05/extract.go` before every build.  The translator is statement-level: every Go
statement of the subset becomes one `let` of a `do` block in `Except Err`; what it needs from the
outside world is fixed here, once, and is part of the trusted base:

* an `io.Reader` is the list of bytes still to be read (`bs`), an `io.Writer` the list of bytes written
  so far (`w`); a call that returns a non-nil error makes the whole function return that error
  (`Except`), bytes already handed to the writer before the error are not modelled (`wkb.Encode`
  discards them);
* `encoding/binary`: `binRead*`/`binWrite*` below (fixed-width integers in the given order, a
  `geom.Point` as X then Y, a slice as its elements one after the other; `binary.Read` into a slice
  fills exactly `len(slice)` elements and fails as a whole on a short read);
* `uint32` arithmetic wraps (`u32sub`, `u32len`);
* a Go loop is `loopN` (counted loop whose index is not otherwise used), `forRange` (range over a
  slice) or `whileLoop` (any other `for`; the iteration budget is an artefact: a loop that has not
  finished after `fuel` iterations is reported as the fault `Err.fuel`);
* a Go `map[uint32]T` built by assignments is the list of those assignments, looked up with `mapGet`
  (the last assignment to a key wins);
* the recursion `Read → reader → Read` / `Write → writer → Write` is not recursion in the generated
  text: every function that can reach `Read`/`Write` takes that function as its first argument, and
  `Gen.read`/`Gen.write` unroll the recursion `fuel` times (as `Model.read` does).
Core Lean only.
-/
namespace GeomV.C05
open GeomV

/-- `wkb.Read(r)` -/
abbrev ReadFn := Bytes → Except Err (BGeom × Bytes)
/-- `type wkbReader func(io.Reader, binary.ByteOrder) (geom.Geom, error)` -/
abbrev ReaderFn := BO → Bytes → Except Err (BGeom × Bytes)
/-- `wkb.Write(w, byteOrder, g)`; the result is the content of the writer afterwards -/
abbrev WriteFn := Bytes → BO → BGeom → Except Err Bytes

/-! ### encoding/binary -/

/-- `binary.Read(r, order, &x)` with `x uint8` (the order is irrelevant for one byte) -/
def binReadU8 (_bo : BO) (bs : Bytes) : Except Err (Nat × Bytes) :=
  match bs with
  | [] => .error .eof
  | b :: r => .ok (b.toNat, r)

/-- `binary.Read(r, order, &x)` with `x uint32` -/
def binReadU32 (bo : BO) (bs : Bytes) : Except Err (Nat × Bytes) := readU32 bo bs

/-- `binary.Read(r, order, &p)` with `p geom.Point` -/
def binReadPoint (bo : BO) (bs : Bytes) : Except Err (Pt UInt64 × Bytes) := readPoint bo bs

/-- `binary.Read(r, order, &ps)` with `ps []geom.Point`: fills the `len(ps)` existing elements -/
def binReadPoints (bo : BO) (dst : List (Pt UInt64)) (bs : Bytes) : Except Err (List (Pt UInt64) × Bytes) :=
  readMany (readPoint bo) dst.length bs

def binWriteU8 (w : Bytes) (_bo : BO) (v : Nat) : Except Err Bytes := .ok (w ++ [UInt8.ofNat v])
def binWriteU32 (w : Bytes) (bo : BO) (v : Nat) : Except Err Bytes := .ok (w ++ u32 bo v)
def binWritePoint (w : Bytes) (bo : BO) (p : Pt UInt64) : Except Err Bytes := .ok (w ++ writePoint bo p)
def binWritePoints (w : Bytes) (bo : BO) (ps : List (Pt UInt64)) : Except Err Bytes :=
  .ok (w ++ ps.flatMap (writePoint bo))

/-! ### uint32, slices -/

def u32sub (a b : Nat) : Nat := (a + 2^32 - b % 2^32) % 2^32
def u32add (a b : Nat) : Nat := (a + b) % 2^32
/-- `uint32(len(x))` -/
def u32len (n : Nat) : Nat := n % 2^32
/-- `make([]geom.Point, n)` -/
def mkPoints (n : Nat) : List (Pt UInt64) := List.replicate n ⟨0, 0⟩

/-! ### loops -/

/-- `for i := uint32(0); i < n; i++ { body }` where the body does not mention `i` and does not assign `n` -/
def loopN {σ : Type} : Nat → σ → (σ → Except Err σ) → Except Err σ
  | 0, s, _ => .ok s
  | n+1, s, f => do
      let s ← f s
      loopN n s f

/-- `for _, x := range xs { body }` -/
def forRange {α σ : Type} : List α → σ → (α → σ → Except Err σ) → Except Err σ
  | [], s, _ => .ok s
  | x :: xs, s, f => do
      let s ← f x s
      forRange xs s f

/-- `for init; cond; { body }` -/
def whileLoop {σ : Type} : Nat → (σ → Bool) → σ → (σ → Except Err σ) → Except Err σ
  | 0, _, _, _ => .error .fuel
  | k+1, c, s, f =>
      if c s then do
        let s ← f s
        whileLoop k c s f
      else .ok s

/-- iteration budget given to every `whileLoop`: more than a `uint32` loop variable has values -/
def loopBudget : Nat := 2^32 + 1

/-! ### maps, type assertions -/

/-- `m[k]` (comma-ok form) on a map built by the listed assignments, in order -/
def mapGet {β : Type} : List (Nat × β) → Nat → Option β
  | [], _ => none
  | (k', v) :: r, k =>
      match mapGet r k with
      | some v' => some v'
      | none => if k' = k then some v else none

/-- `g.(geom.Geom)`: holds for every non-nil interface value -/
def asGeom : BGeom → Except Err BGeom
  | .nil => .error .unexpected
  | g => .ok g

/-! ### callers outside the recursion -/

/-- `Read(bytes.NewBuffer(buf))`: the reader is dropped after the call -/
def dropRest {α : Type} (x : Except Err (α × Bytes)) : Except Err α := x.map (·.1)

/-- errors of package encoding/hex (the geom one): a malformed hex text or an error of package wkb -/
inductive HErr
  | hex
  | wkb (e : Err)
deriving DecidableEq, Repr, Inhabited

def liftWkb {α : Type} : Except Err α → Except HErr α
  | .ok a => .ok a
  | .error e => .error (.wkb e)

/-- `hex.EncodeToString` of the standard library -/
def hexEncodeToString (bs : Bytes) : List Char := hexEncode bs
/-- `hex.DecodeString` of the standard library -/
def hexDecodeString (s : List Char) : Except HErr Bytes :=
  match hexDecode s with
  | some bs => .ok bs
  | none => .error .hex

end GeomV.C05
