import GeomV.C05.Model
/-!
# C05 — the streaming entry point `wkb.Read(r io.Reader)` on readers that are not byte slices

`Model.read` takes the bytes still to be read.  Here the reader is an arbitrary *script* of what its
successive `Read(p)` calls do (deliver some bytes — possibly none, possibly fewer than `len(p)` —,
deliver bytes together with an error, fail), `fill` is `io.ReadFull` (= `io.ReadAtLeast(r, buf, len(buf))`,
the only way `encoding/binary.Read` touches the reader) over such a script, and `readS` is `wkb.Read`
written once for any byte source (`Src`).  `ProofsStream.lean` proves that the script reader behaves
exactly like "the bytes it can deliver before its first error, then that error" and that `readS` on
plain bytes is `Model.read`, so that every theorem about `Model.read` is a theorem about `wkb.Read` behind
any such reader.  Core Lean only (the driver runs `readS` on the scripts of the `rdscript` lines).
-/
namespace GeomV.C05.Stream
open GeomV GeomV.C05

/-- the error value a reader returns: `io.EOF` or anything else (identified by a number) -/
inductive IOErr
  | eof
  | other (code : Nat)
deriving DecidableEq, Repr, Inhabited

/-- errors of `wkb.Read` on a stream: those of the model (`io.EOF`/`io.ErrUnexpectedEOF` are one class,
`Err.eof`), or the reader's own error passed through unchanged -/
inductive SErr
  | wkb (e : Err)
  | io (code : Nat)
deriving DecidableEq, Repr, Inhabited

/-- what one `Read(p)` call of the reader will do -/
inductive Ev
  /-- deliver the bytes `c` (as many as fit into `p`, the others stay for the next call), `err == nil`;
  `c = []` is the permitted-but-discouraged `(0, nil)` -/
  | data (c : Bytes)
  /-- as `data c`, but the call that delivers the last byte of `c` returns `e` together with it
  (`iotest.DataErrReader`); a `Read` that was not reported to the caller by `io.ReadFull` (it had all
  it needed) is returned again by the next call, as every reader of the standard library does -/
  | dataErr (c : Bytes) (e : IOErr)
  /-- `(0, e)` -/
  | fail (e : IOErr)
deriving Repr, Inhabited

/-- a reader: its future `Read` calls; after the last event it returns `(0, io.EOF)` for ever -/
abbrev Script := List Ev

/-- the class of the error `io.ReadFull` returns when the reader failed with `e` before the buffer was
full: `io.EOF` (nothing read) and `io.ErrUnexpectedEOF` (something read) are both `Err.eof`, any other
error is returned as it is -/
def short : IOErr → SErr
  | .eof => .wkb .eof
  | .other c => .io c

/-- `io.ReadFull(r, buf)`: `Read` is called on the unfilled part of `buf` until `need` more bytes have
arrived or a call returns an error (`for n < min && err == nil { nn, err = r.Read(buf[n:]); n += nn }`;
`if n >= min { err = nil }`).  One equation per loop iteration; `acc` is `buf[:n]`. -/
def fill : Script → Nat → Bytes → Except SErr (Bytes × Script)
  | s, 0, acc => .ok (acc, s)
  | [], _+1, _ => .error (short .eof)
  | .data c :: s, need+1, acc =>
      if c.length < need+1 then fill s (need+1 - c.length) (acc ++ c)
      else if c.length = need+1 then .ok (acc ++ c, s)
      else .ok (acc ++ c.take (need+1), .data (c.drop (need+1)) :: s)
  | .dataErr c e :: s, need+1, acc =>
      if c.length < need+1 then .error (short e)
      else if c.length = need+1 then .ok (acc ++ c, .fail e :: s)
      else .ok (acc ++ c.take (need+1), .dataErr (c.drop (need+1)) e :: s)
  | .fail e :: _, _+1, _ => .error (short e)

/-- the bytes the reader delivers before its first error -/
def avail : Script → Bytes
  | [] => []
  | .data c :: s => c ++ avail s
  | .dataErr c _ :: _ => c
  | .fail _ :: _ => []

/-- the first error of the reader (`io.EOF` at the end of the script) -/
def firstErr : Script → IOErr
  | [] => .eof
  | .data _ :: s => firstErr s
  | .dataErr _ e :: _ => e
  | .fail e :: _ => e

/-- the reader after its first error has been reported to the caller of `io.ReadFull`: the events after the first
error event (`Retry.lean`: `fillR`, `C05_readfull_failed`) -/
def afterErr : Script → Script
  | [] => []
  | .data _ :: s => afterErr s
  | .dataErr _ _ :: s => s
  | .fail _ :: s => s

/-! ### a state-and-error monad over any byte source -/

def Rd (σ α : Type) := σ → Except SErr (α × σ)

instance {σ : Type} : Monad (Rd σ) where
  pure a := fun s => .ok (a, s)
  bind x f := fun s => match x s with
    | .ok (a, s') => f a s'
    | .error e => .error e

def Rd.fail {σ α : Type} (e : SErr) : Rd σ α := fun _ => .error e

/-- a step that does not touch the reader (type assertion, flag decoding) -/
def Rd.lift {σ α : Type} (x : Except Err α) : Rd σ α := fun s =>
  match x with
  | .ok a => .ok (a, s)
  | .error e => .error (.wkb e)

/-- a byte source: `take k` is the `io.ReadFull` of `k` bytes that every `binary.Read` starts with -/
structure Src (σ : Type) where
  take : Nat → Rd σ Bytes

/-- a scripted `io.Reader` -/
def scriptSrc : Src Script := ⟨fun k s => fill s k []⟩

/-- "these bytes, then that error" -/
def errSrc : Src (Bytes × SErr) :=
  ⟨fun k (bs, e) => if bs.length < k then .error e else .ok (bs.take k, (bs.drop k, e))⟩

/-! ### `wkb.Read` over a byte source (the text of `Model.read`, with the source as a parameter) -/

section
variable {σ : Type} (S : Src σ)

def readNatS (bo : BO) (k : Nat) : Rd σ Nat := do
  let h ← S.take k
  pure (valBytes bo h)

def readU32S (bo : BO) : Rd σ Nat := readNatS S bo 4

def readU64S (bo : BO) : Rd σ UInt64 := do
  let n ← readNatS S bo 8
  pure (UInt64.ofNat n)

def readPointS (bo : BO) : Rd σ (Pt UInt64) := do
  let x ← readU64S S bo
  let y ← readU64S S bo
  pure ⟨x, y⟩

def readManyS {β : Type} (rd : Rd σ β) : Nat → Rd σ (List β)
  | 0 => pure []
  | n+1 => do
      let a ← rd
      let as ← readManyS rd n
      pure (a :: as)

def readPointsS (bo : BO) : Rd σ (List (Pt UInt64)) := do
  let n ← readU32S S bo
  readManyS (readPointS S bo) n

def readAsS {β : Type} (rd : Rd σ BGeom) (cast : BGeom → Except Err β) : Rd σ β := do
  let g ← rd
  Rd.lift (cast g)

/-- the byte-order flag -/
def flagOf (fl : Bytes) : Except Err BO :=
  match fl with
  | [b] => if b = 0 then .ok BO.xdr else if b = 1 then .ok BO.ndr else .error .badOrder
  | _ => .error .eof

def readS : Nat → Rd σ BGeom
  | 0 => Rd.fail (.wkb .fuel)
  | fuel+1 => do
    let fl ← S.take 1
    let bo ← Rd.lift (flagOf fl)
    let code ← readU32S S bo
    if code = 1 then do
      let p ← readPointS S bo; pure (.point p)
    else if code = 2 then do
      let p ← readPointsS S bo; pure (.lineString p)
    else if code = 3 then do
      let n ← readU32S S bo
      let r ← readManyS (readPointsS S bo) n; pure (.polygon r)
    else if code = 4 then do
      let n ← readU32S S bo
      let r ← readManyS (readAsS (readS fuel) asPoint) n; pure (.multiPoint r)
    else if code = 5 then do
      let n ← readU32S S bo
      let r ← readManyS (readAsS (readS fuel) asLine) n; pure (.multiLineString r)
    else if code = 6 then do
      let n ← readU32S S bo
      let r ← readManyS (readAsS (readS fuel) asPoly) n; pure (.multiPolygon r)
    else if code = 7 then do
      let n ← readU32S S bo
      let r ← readManyS (readS fuel) n; pure (.collection r)
    else Rd.fail (.wkb .badType)

/-- `n` successive `wkb.Read` calls on one reader, stopping at the first error -/
def readSeq (fuel n : Nat) : Rd σ (List BGeom) := readManyS (readS S fuel) n

end

/-- enough recursion budget for any script: every level of recursion consumes at least one byte -/
def scriptFuel (s : Script) : Nat := (avail s).length + 1

end GeomV.C05.Stream
