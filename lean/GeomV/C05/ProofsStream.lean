import GeomV.C05.StreamLemmas
/-!
# C05 — property theorems for the streaming entry point `wkb.Read(r io.Reader)`

The reader is ANY finite script of `Read` calls (short reads, empty reads, data returned together with an
error, errors in the middle) — `Stream.lean`.

* `C05_readfull`           `io.ReadFull` over a script = taking from "the bytes it delivers before its first
                           error"; it fails, with that error, exactly when those are too few.
* `C05_stream_model`       `wkb.Read` behind any scripted reader = `Model.read` on the deliverable bytes; the
                           end of the deliverable bytes is reported as the reader's own first error.
* `C05_stream_read`        "decoding accepts either byte order at any depth", for streams: whatever the
                           chunking, `Read` returns the geometry and consumes EXACTLY its encoding.
* `C05_read_sequence`      `n` encodings one after the other on one reader are read back by `n` calls.
* `C05_truncated`          no proper prefix of an encoding decodes (to anything): the result is the
                           end-of-input error.
* `C05_stream_truncated`   a reader that fails inside an encoding makes `Read` return that reader's error
                           (`io.EOF`/`io.ErrUnexpectedEOF` class, or the reader's own), never a geometry.
-/
set_option linter.unusedSimpArgs false
set_option linter.unusedVariables false
namespace GeomV.C05.Stream
open GeomV GeomV.C05 GeomV.C05.Ogc

/-- **C05_readfull** (model of `io.ReadFull`, the only access `encoding/binary.Read` makes to its reader).
For every script `s`, request size `k` and already filled part `acc`: if the script delivers fewer than `k`
bytes before its first error, the result is that error (`io.EOF` and `io.ErrUnexpectedEOF` are one class);
otherwise the result is the next `k` deliverable bytes, and the reader is left with exactly the others and
the same first error.  In particular the result does not depend on how the script cuts the bytes into
`Read` calls, nor on the sizes in which the bytes are requested. -/
theorem C05_readfull (s : Script) (k : Nat) (acc : Bytes) :
    ((avail s).length < k → fill s k acc = .error (short (firstErr s))) ∧
    (k ≤ (avail s).length → ∃ s', fill s k acc = .ok (acc ++ (avail s).take k, s') ∧
        avail s' = (avail s).drop k ∧ firstErr s' = firstErr s) := fill_spec s k acc

/-- what a computation on `Model`'s byte list says about the same computation behind a scripted reader -/
def Transfers {α : Type} (X : Rd Script α) (m : Bytes → Except Err (α × Bytes)) : Prop :=
  ∀ s : Script,
    match m (avail s) with
    | .ok (a, r) => ∃ s', X s = .ok (a, s') ∧ avail s' = r ∧ short (firstErr s') = short (firstErr s)
    | .error .eof => X s = .error (short (firstErr s))
    | .error x => X s = .error (.wkb x)

theorem transfers_of {α : Type} (X : Rd Script α) (Y : Rd (Bytes × SErr) α) (m : Bytes → Except Err (α × Bytes))
    (hrel : RelM RScript NoEsc X Y) (hconv : ∀ e bs, Y (bs, e) = conv e (m bs)) : Transfers X m := by
  intro s
  have h := hrel s (avail s, short (firstErr s)) ⟨rfl, rfl⟩
  rw [hconv] at h
  rcases h with ⟨e, _, he⟩ | ⟨a, s₁, s₂, hx, hy, hr⟩ | ⟨e, hx, hy⟩
  · exact he.elim
  · cases hm : m (avail s) with
    | ok p =>
      obtain ⟨a', r⟩ := p
      simp only [hm, conv, Except.ok.injEq, Prod.mk.injEq] at hy
      obtain ⟨rfl, rfl⟩ := hy
      exact ⟨s₁, hx, hr.1, hr.2⟩
    | error x => cases x <;> simp [hm, conv] at hy
  · cases hm : m (avail s) with
    | ok p => obtain ⟨a', r⟩ := p; simp [hm, conv] at hy
    | error x =>
      cases x <;> simp only [hm, conv, Except.error.injEq] at hy <;> subst hy <;> simpa using hx

/-- **C05_stream_model.** For EVERY scripted reader `s` (well-formed content or not) `wkb.Read(s)` is
`Model.read` applied to the bytes `s` delivers before its first error: the same geometry, leaving a reader
that delivers exactly the bytes `Model.read` left; the same rejection (bad flag, bad type code, wrong
member type); and where `Model.read` runs out of input, the reader's own first error. -/
theorem C05_stream_model (fuel : Nat) : Transfers (readS scriptSrc fuel) (read fuel) :=
  transfers_of _ (readS errSrc fuel) _ (readS_rel script_sim fuel) (fun e bs => readS_conv e fuel bs)

/-- **C05_stream_read.** For every order tree `t` (any byte order at every nested element), encodable `g`
and scripted reader whose deliverable bytes start with the OGC serialization of `g`: `wkb.Read` returns
`g` and leaves a reader that delivers exactly what followed the serialization — it consumes the encoding's
length, no more and no less, however the bytes are cut into `Read` calls (one byte at a time, empty
reads, data together with `io.EOF`, a cut in the middle of a coordinate). -/
theorem C05_stream_read (fuel : Nat) (t : OTree) (g : BGeom) (enc rest : Bytes) (s : Script)
    (he : Encodable g) (hf : g.depth + 1 < fuel) (hs : serializeMixed t g = some enc)
    (ha : avail s = enc ++ rest) :
    ∃ s', readS scriptSrc fuel s = .ok (g, s') ∧ avail s' = rest := by
  have h := C05_stream_model fuel s
  rw [ha, C05_mixed_order fuel t g enc rest he hf hs] at h
  obtain ⟨s', h1, h2, _⟩ := h
  exact ⟨s', h1, h2⟩

/-! ### sequences of encodings on one reader -/

/-- the serializations of a list of geometries (each with its own order tree), one after the other -/
def serializeAll : List (OTree × BGeom) → Option Bytes
  | [] => some []
  | (t, g) :: r => do
      let a ← serializeMixed t g
      let b ← serializeAll r
      some (a ++ b)

theorem readMany_serializeAll (fuel : Nat) (xs : List (OTree × BGeom)) (bs rest : Bytes)
    (he : ∀ x ∈ xs, Encodable x.2 ∧ x.2.depth + 1 < fuel) (hs : serializeAll xs = some bs) :
    readMany (read fuel) xs.length (bs ++ rest) = .ok (xs.map (·.2), rest) := by
  induction xs generalizing bs with
  | nil => simp [serializeAll] at hs; subst hs; simp [readMany]
  | cons x xs ih =>
    obtain ⟨t, g⟩ := x
    simp only [serializeAll, Option.bind_eq_bind, Option.bind_eq_some_iff] at hs
    obtain ⟨a, ha, b, hb, hs⟩ := hs
    simp at hs; subst hs
    have hx := he (t, g) (by simp)
    have h1 := C05_mixed_order fuel t g a (b ++ rest) hx.1 hx.2 ha
    have h2 := ih b (fun y hy => he y (by simp [hy])) hb
    simp [readMany, List.append_assoc, h1, h2, bind, Except.bind, pure, Except.pure]

/-- **C05_read_sequence.** `n` geometries written one after the other (each under any byte-order
assignment) and delivered by one reader in any chunking are returned, in order, by `n` successive
`wkb.Read` calls; the reader is left with exactly what followed the last encoding. -/
theorem C05_read_sequence (fuel : Nat) (xs : List (OTree × BGeom)) (bs rest : Bytes) (s : Script)
    (he : ∀ x ∈ xs, Encodable x.2 ∧ x.2.depth + 1 < fuel) (hs : serializeAll xs = some bs)
    (ha : avail s = bs ++ rest) :
    ∃ s', readSeq scriptSrc fuel xs.length s = .ok (xs.map (·.2), s') ∧ avail s' = rest := by
  have ht : Transfers (readSeq scriptSrc fuel xs.length) (readMany (read fuel) xs.length) :=
    transfers_of _ (readSeq errSrc fuel xs.length) _ (readManyS_rel (readS_rel script_sim fuel) _)
      (fun e bs => readManyS_conv e _ _ (readS_conv e fuel) _ bs)
  have h := ht s
  rw [ha, readMany_serializeAll fuel xs bs rest he hs] at h
  obtain ⟨s', h1, h2, _⟩ := h
  exact ⟨s', h1, h2⟩

/-! ### truncation -/

/-- states of two `errSrc` readers: the right one has `q` more bytes; the left one fails with `mark` -/
def RPre (q : Bytes) (mark : SErr) (a b : Bytes × SErr) : Prop := b.1 = a.1 ++ q ∧ a.2 = mark

theorem pre_sim (q : Bytes) (mark : SErr) (k : Nat) :
    RelM (RPre q mark) (· = mark) (errSrc.take k) (errSrc.take k) := by
  intro ⟨p, e₁⟩ ⟨bs, e₂⟩ ⟨h1, h2⟩
  simp only at h1 h2
  subst h1 h2
  by_cases h : p.length < k
  · exact .inl ⟨e₁, by simp [errSrc, h], rfl⟩
  · have h' : ¬ (p.length + q.length < k) := by omega
    refine .inr (.inl ⟨p.take k, (p.drop k, e₁), (p.drop k ++ q, e₂), by simp [errSrc, h], ?_, rfl, rfl⟩)
    simp [errSrc, h', List.take_append_of_le_length (Nat.le_of_not_lt h),
      List.drop_append_of_le_length (Nat.le_of_not_lt h)]

/-- **C05_truncated.** No proper prefix of an encoding decodes: for every order tree, encodable `g` and
split of its serialization into `p ++ q` with `q` non-empty, `Model.read p` is the end-of-input error
(not a geometry, not another error) — the decoder never mistakes a truncated value for a shorter one. -/
theorem C05_truncated (fuel : Nat) (t : OTree) (g : BGeom) (p q : Bytes)
    (he : Encodable g) (hf : g.depth + 1 < fuel) (hs : serializeMixed t g = some (p ++ q)) (hq : q ≠ []) :
    read fuel p = .error .eof := by
  have h := readS_rel (pre_sim q (.io 0)) fuel (p, .io 0) (p ++ q, .io 0) ⟨rfl, rfl⟩
  rw [readS_conv, readS_conv] at h
  have hfull := C05_mixed_order fuel t g (p ++ q) [] he hf hs
  rw [List.append_nil] at hfull
  rw [hfull] at h
  rcases h with ⟨e, hx, he'⟩ | ⟨a, s₁, s₂, hx, hy, hr⟩ | ⟨e, hx, hy⟩
  · subst he'
    cases hm : read fuel p with
    | ok r => obtain ⟨a, b⟩ := r; simp [hm, conv] at hx
    | error x => cases x <;> simp [hm, conv] at hx <;> rfl
  · simp only [conv, Except.ok.injEq, Prod.mk.injEq] at hy
    obtain ⟨_, rfl⟩ := hy
    have := hr.1
    simp at this
    exact (hq this.2).elim
  · simp [conv] at hy

/-- **C05_stream_truncated.** A reader that delivers only a proper prefix of an encoding before it fails
(with `io.EOF` or with any error of its own, after any number of short reads) makes `wkb.Read` return that
failure: `Err.eof` (the class of `io.EOF`/`io.ErrUnexpectedEOF`) or the reader's error unchanged — never a
geometry. -/
theorem C05_stream_truncated (fuel : Nat) (t : OTree) (g : BGeom) (p q : Bytes) (s : Script)
    (he : Encodable g) (hf : g.depth + 1 < fuel) (hs : serializeMixed t g = some (p ++ q)) (hq : q ≠ [])
    (ha : avail s = p) :
    readS scriptSrc fuel s = .error (short (firstErr s)) := by
  have h := C05_stream_model fuel s
  rw [ha, C05_truncated fuel t g p q he hf hs hq] at h
  exact h

/-! ### non-vacuity -/

/-- a point, big-endian, delivered as: an empty read, 3 bytes, 18 bytes together with `io.EOF`, (then more) -/
def exScript : Script :=
  [.data [], .data [0, 0, 0], .dataErr [0, 1, 0x7f, 0xf8, 0, 0, 0, 0, 0, 1, 0x80, 0, 0, 0, 0, 0, 0, 0] .eof, .data [9]]

example : readS scriptSrc 2 exScript = .ok (.point ⟨0x7ff8000000000001, 0x8000000000000000⟩, [.fail .eof, .data [9]]) := by
  rfl

/-- the same reader failing with its own error 7 after 12 bytes -/
example : readS scriptSrc 2 [.data [0, 0, 0, 0, 1, 0x7f, 0xf8], .data [0, 0, 0, 0, 0], .fail (.other 7)] = .error (.io 7) := by
  rfl

example : serializeAll [(.uniform .xdr, .point ⟨1, 2⟩), (.uniform .ndr, .lineString [])] ≠ none := by
  decide +kernel

end GeomV.C05.Stream
