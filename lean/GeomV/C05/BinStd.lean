import GeomV.C05.GenLib
/-!
# C05 — the `encoding/binary` primitives used by encoding/wkb, transcribed from the Go 1.23 source

`GenLib.lean` gives `binary.Read/Write` of a `uint8`, `uint32`, `geom.Point`, `[]geom.Point` a meaning in terms
of the model's `valBytes`/`natBytes` (positional arithmetic).  Here the same primitives are written as the
standard library writes them (`src/encoding/binary/binary.go`): shifts and ors on the bytes
(`littleEndian.Uint32`: `uint32(b[0]) | uint32(b[1])<<8 | uint32(b[2])<<16 | uint32(b[3])<<24`, …), `byte(v >> k)`
truncations for the `Put` functions, the struct walk of `decoder.value`/`encoder.value` for `geom.Point{X, Y
float64}` (`math.Float64frombits(d.uint64())` field by field) and for a slice (element by element), after ONE
`io.ReadFull` of `dataSize` bytes.  `ProofsBin.lean` proves them equal to GenLib's.  Core Lean only.
-/
namespace GeomV.C05.BinStd
open GeomV GeomV.C05

/-- `byte(v)` -/
def byte (v : Nat) : UInt8 := UInt8.ofNat v

/-- `littleEndian.Uint32(b)` (callers pass exactly 4 bytes) -/
def leUint32 : Bytes → Nat
  | [b0, b1, b2, b3] => b0.toNat ||| b1.toNat <<< 8 ||| b2.toNat <<< 16 ||| b3.toNat <<< 24
  | _ => 0
/-- `bigEndian.Uint32(b)` -/
def beUint32 : Bytes → Nat
  | [b0, b1, b2, b3] => b3.toNat ||| b2.toNat <<< 8 ||| b1.toNat <<< 16 ||| b0.toNat <<< 24
  | _ => 0
/-- `littleEndian.Uint64(b)` -/
def leUint64 : Bytes → Nat
  | [b0, b1, b2, b3, b4, b5, b6, b7] =>
      b0.toNat ||| b1.toNat <<< 8 ||| b2.toNat <<< 16 ||| b3.toNat <<< 24 |||
        b4.toNat <<< 32 ||| b5.toNat <<< 40 ||| b6.toNat <<< 48 ||| b7.toNat <<< 56
  | _ => 0
/-- `bigEndian.Uint64(b)` -/
def beUint64 : Bytes → Nat
  | [b0, b1, b2, b3, b4, b5, b6, b7] =>
      b7.toNat ||| b6.toNat <<< 8 ||| b5.toNat <<< 16 ||| b4.toNat <<< 24 |||
        b3.toNat <<< 32 ||| b2.toNat <<< 40 ||| b1.toNat <<< 48 ||| b0.toNat <<< 56
  | _ => 0

/-- `littleEndian.PutUint32(b, v)` -/
def lePutUint32 (v : Nat) : Bytes := [byte v, byte (v >>> 8), byte (v >>> 16), byte (v >>> 24)]
/-- `bigEndian.PutUint32(b, v)` -/
def bePutUint32 (v : Nat) : Bytes := [byte (v >>> 24), byte (v >>> 16), byte (v >>> 8), byte v]
/-- `littleEndian.PutUint64(b, v)` -/
def lePutUint64 (v : Nat) : Bytes :=
  [byte v, byte (v >>> 8), byte (v >>> 16), byte (v >>> 24), byte (v >>> 32), byte (v >>> 40), byte (v >>> 48), byte (v >>> 56)]
/-- `bigEndian.PutUint64(b, v)` -/
def bePutUint64 (v : Nat) : Bytes :=
  [byte (v >>> 56), byte (v >>> 48), byte (v >>> 40), byte (v >>> 32), byte (v >>> 24), byte (v >>> 16), byte (v >>> 8), byte v]

def orderUint32 : BO → Bytes → Nat | .ndr => leUint32 | .xdr => beUint32
def orderUint64 : BO → Bytes → Nat | .ndr => leUint64 | .xdr => beUint64
def orderPutUint32 : BO → Nat → Bytes | .ndr => lePutUint32 | .xdr => bePutUint32
def orderPutUint64 : BO → Nat → Bytes | .ndr => lePutUint64 | .xdr => bePutUint64

/-- `decoder.value` on a `geom.Point`: the fields in declaration order, `math.Float64frombits(d.uint64())` each -/
def decPoint (bo : BO) (buf : Bytes) : Pt UInt64 :=
  ⟨UInt64.ofNat (orderUint64 bo (buf.take 8)), UInt64.ofNat (orderUint64 bo ((buf.drop 8).take 8))⟩
/-- `encoder.value` on a `geom.Point` -/
def encPoint (bo : BO) (p : Pt UInt64) : Bytes := orderPutUint64 bo p.x.toNat ++ orderPutUint64 bo p.y.toNat

/-- `binary.Read(r, order, &x)`, `x uint32`: `io.ReadFull` of 4 bytes, `order.Uint32` -/
def readU32 (bo : BO) (bs : Bytes) : Except Err (Nat × Bytes) := do
  let (b, r) ← takeN 4 bs
  pure (orderUint32 bo b, r)
/-- `binary.Read(r, order, &p)`, `p geom.Point`: `io.ReadFull` of `dataSize = 16` bytes, struct walk -/
def readPoint (bo : BO) (bs : Bytes) : Except Err (Pt UInt64 × Bytes) := do
  let (b, r) ← takeN 16 bs
  pure (decPoint bo b, r)
/-- `binary.Write(w, order, uint32(v))` -/
def writeU32 (bo : BO) (v : Nat) : Bytes := orderPutUint32 bo v
/-- `binary.Write(w, order, &p)` -/
def writePoint (bo : BO) (p : Pt UInt64) : Bytes := encPoint bo p

/-! ### the slice walk: `ps []geom.Point` -/

/-- `decoder.value` on a `[]geom.Point` of length `n`: `for i := 0; i < l; i++ { d.value(v.Index(i)) }`, element by
element through the struct walk, 16 bytes of the ONE buffer each, in order -/
def decPoints (bo : BO) : Nat → Bytes → List (Pt UInt64)
  | 0, _ => []
  | n+1, buf => decPoint bo (buf.take 16) :: decPoints bo n (buf.drop 16)
/-- `encoder.value` on a `[]geom.Point`: the same loop, each element appended to the ONE buffer -/
def encPoints (bo : BO) : List (Pt UInt64) → Bytes
  | [] => []
  | p :: ps => encPoint bo p ++ encPoints bo ps

/-- `binary.Read(r, order, &ps)`, `ps []geom.Point` of length `n`: ONE `io.ReadFull` of `dataSize = 16·len(ps)`
bytes, then the slice walk -/
def readPoints (bo : BO) (n : Nat) (bs : Bytes) : Except Err (List (Pt UInt64) × Bytes) := do
  let (b, r) ← takeN (16 * n) bs
  pure (decPoints bo n b, r)
/-- `binary.Write(w, order, &ps)`: the slice walk into ONE buffer of `dataSize` bytes, ONE `w.Write(buf)` -/
def writePoints (bo : BO) (ps : List (Pt UInt64)) : Bytes := encPoints bo ps

end GeomV.C05.BinStd
