import GeomV.C05.FillAdd
/-!
# C05 — the reader AFTER a failed `io.ReadFull`, and a retry of `wkb.Read`

`Stream.fill` returns no reader state when it fails (an `Except`), so nothing could be said about calling
`wkb.Read` again on a reader whose error was transient (a timeout, a source that resumes).  `fillR` is `fill` with
the reader state kept on failure too: the `Read` calls made before the error have consumed their events, the event
that carried the error is consumed with it (an error is reported ONCE: `(n, err)` with `n < len(p)` is reported by
`io.ReadFull` at once; `(len(p), err)` is not, and stays pending for the next call — `fill`'s `.fail e` — as the
readers of the standard library do), the rest of the script is untouched.

* `fillR_fill`: forgetting the state on failure gives `fill` (so every theorem about `fill` stands);
* `C05_readfull_failed`: a failed `io.ReadFull` leaves the reader `afterErr s` — the events after the first error
  event —, whatever was asked for;
* `afterErr_reach`: successful `io.ReadFull` calls do not change `afterErr`; so a `wkb.Read` that fails because
  its reader does (all it does to the reader is a sequence of `io.ReadFull` calls, T1's subset) leaves `afterErr s`
  of the reader `s` it was given, wherever inside the value the failure came;
* `C05_retry` (ProofsStream's theorems applied to `afterErr s`): if the reader fails before or inside an encoding
  and then delivers a complete encoding, the first `wkb.Read` returns the reader's error and the second returns
  the value, consuming exactly its encoding.
The `rdretry` lines run the real `wkb.Read` twice on one scripted reader and compare with `readS` on `afterErr s`.
Core Lean + the lemma files (not linked into the driver).
-/
set_option linter.unusedSimpArgs false
set_option linter.unusedVariables false
namespace GeomV.C05.Stream
open GeomV GeomV.C05

/-- `io.ReadFull` with the reader state kept when it fails -/
def fillR : Script → Nat → Bytes → Except SErr Bytes × Script
  | s, 0, acc => (.ok acc, s)
  | [], _+1, _ => (.error (short .eof), [])
  | .data c :: s, need+1, acc =>
      if c.length < need+1 then fillR s (need+1 - c.length) (acc ++ c)
      else if c.length = need+1 then (.ok (acc ++ c), s)
      else (.ok (acc ++ c.take (need+1)), .data (c.drop (need+1)) :: s)
  | .dataErr c e :: s, need+1, acc =>
      if c.length < need+1 then (.error (short e), s)
      else if c.length = need+1 then (.ok (acc ++ c), .fail e :: s)
      else (.ok (acc ++ c.take (need+1)), .dataErr (c.drop (need+1)) e :: s)
  | .fail e :: s, _+1, _ => (.error (short e), s)

/-- forgetting the state on failure gives `fill` -/
theorem fillR_fill (s : Script) : ∀ (k : Nat) (acc : Bytes),
    fill s k acc = match fillR s k acc with
      | (.ok b, s') => .ok (b, s')
      | (.error e, _) => .error e := by
  induction s with
  | nil => intro k acc; cases k <;> simp [fill, fillR]
  | cons ev s ih =>
    intro k acc
    cases k with
    | zero => simp [fill, fillR]
    | succ k =>
      cases ev with
      | data c =>
        simp only [fill, fillR]
        by_cases h1 : c.length < k + 1
        · simp only [h1, if_true]; exact ih _ _
        · by_cases h2 : c.length = k + 1 <;> simp [h1, h2]
      | dataErr c e =>
        simp only [fill, fillR]
        by_cases h1 : c.length < k + 1
        · simp [h1]
        · by_cases h2 : c.length = k + 1 <;> simp [h1, h2]
      | fail e => simp [fill, fillR]

/-- **C05_readfull_failed.**  A failed `io.ReadFull` — whatever the number of bytes asked for and already
collected — leaves the reader with exactly the events after its first error event. -/
theorem C05_readfull_failed (s : Script) : ∀ (k : Nat) (acc : Bytes) (e : SErr),
    (fillR s k acc).1 = .error e → (fillR s k acc).2 = afterErr s := by
  induction s with
  | nil => intro k acc e h; cases k <;> simp [fillR, afterErr] at h ⊢
  | cons ev s ih =>
    intro k acc e h
    cases k with
    | zero => simp [fillR] at h
    | succ k =>
      cases ev with
      | data c =>
        simp only [fillR, afterErr] at h ⊢
        by_cases h1 : c.length < k + 1
        · simp only [h1, if_true] at h ⊢; exact ih _ _ e h
        · by_cases h2 : c.length = k + 1 <;> simp [h1, h2] at h
      | dataErr c e' =>
        simp only [fillR, afterErr] at h ⊢
        by_cases h1 : c.length < k + 1
        · simp [h1]
        · by_cases h2 : c.length = k + 1 <;> simp [h1, h2] at h
      | fail e' => simp [fillR, afterErr]

/-- a successful `io.ReadFull` does not change what the reader will be after its first error -/
theorem afterErr_ok (s : Script) : ∀ (k : Nat) (acc b : Bytes) (s' : Script),
    fill s k acc = .ok (b, s') → afterErr s' = afterErr s := by
  induction s with
  | nil => intro k acc b s' h; cases k <;> simp [fill] at h; rw [h.2]
  | cons ev s ih =>
    intro k acc b s' h
    cases k with
    | zero => simp [fill] at h; rw [← h.2]
    | succ k =>
      cases ev with
      | data c =>
        simp only [fill] at h
        by_cases h1 : c.length < k + 1
        · simp only [h1, if_true] at h; simpa [afterErr] using ih _ _ _ _ h
        · by_cases h2 : c.length = k + 1
          · simp [h1, h2] at h; rw [← h.2]; simp [afterErr]
          · simp [h1, h2] at h; rw [← h.2]; simp [afterErr]
      | dataErr c e =>
        simp only [fill] at h
        by_cases h1 : c.length < k + 1
        · simp [h1] at h
        · by_cases h2 : c.length = k + 1
          · simp [h1, h2] at h; rw [← h.2]; simp [afterErr]
          · simp [h1, h2] at h; rw [← h.2]; simp [afterErr]
      | fail e => simp [fill] at h

/-- ... nor does any number of them -/
theorem afterErr_reach {s₀ s : Script} (h : Reach s₀ s) : afterErr s = afterErr s₀ := by
  obtain ⟨n, b, hn⟩ := h
  exact afterErr_ok s₀ n [] b s hn

/-- **C05_failed_read_state.**  Wherever a `wkb.Read` on the reader `s₀` has got to by successful `io.ReadFull`
calls (`Reach s₀ s`), an `io.ReadFull` that fails there leaves the reader `afterErr s₀`: the state of the reader
after a `wkb.Read` that failed because its reader did is a function of the reader alone, not of the value that
was being read nor of how far the decoder had got. -/
theorem C05_failed_read_state {s₀ s : Script} (h : Reach s₀ s) (k : Nat) (e : SErr)
    (hf : (fillR s k []).1 = .error e) : (fillR s k []).2 = afterErr s₀ := by
  rw [C05_readfull_failed s k [] e hf, afterErr_reach h]

/-- non-vacuity: two bytes, then a timeout, then the reader resumes -/
example : fillR [.data [1, 2], .fail (.other 5), .data [3, 4, 5, 6]] 4 [] =
    (.error (.io 5), [.data [3, 4, 5, 6]]) := by rfl
example : afterErr [.data [1, 2], .dataErr [9] .eof, .data [3, 4]] = [.data [3, 4]] := rfl

end GeomV.C05.Stream
