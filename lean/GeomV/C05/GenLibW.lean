import GeomV.C05.GenLibS
import GeomV.C05.Sink
/-!
# C05 — vocabulary of the regenerated CALL-BY-CALL writing path (T1 tie of `wkb.Write(w io.Writer, …)`)

`Gen.lean` holds every writer function of encoding/wkb twice: once with the `io.Writer` as "the bytes written so
far" in `Except Err` (`GenLib.lean`: a call that fails forgets what had been written), and once — the definitions
whose names end in `W` — with the writer as ANY `io.Writer` state machine `K : Sink.Sink σ` (`K.put p s` = one
`w.Write(p)` call).  The Go text is the same, the translator is the same (`harness/cmd/c05/extract.go`, sink mode);
what differs is the meaning of the vocabulary, fixed here:

* `binary.Write(w, order, x)` is ONE `K.put` of the encoding of `x` — and that encoding is, by definition, what
  GenLib's primitive appends to an empty buffer (`bufOf`), so there is no second reading of `encoding/binary`;
* a non-nil error ends the function (`Except`) and CARRIES the writer state reached (`σ × WErr`): the writer's own
  error (`WErr.io`) with the state after the failing call, a package error (`WErr.wkb`) with the state at the
  `return` (`throwW w e`; a block that does not touch the writer is lifted as a whole with the current state,
  `liftW w`);
* `for … range` is GenLib's loop in that error type.
`TieSink.lean` proves that the regenerated `WriteW` IS `Sink.writeW` (the hand-written call-by-call model the
`wrfail` lines are judged by), for every writer.  Core Lean only.
-/
namespace GeomV.C05
open GeomV
export Sink (WErr)

/-- result of a writer function on the call-by-call path: the writer state, or the error together with the writer
state reached when it was returned -/
abbrev WM (σ : Type) := Except (σ × Sink.WErr) σ
/-- `wkb.Write(w, byteOrder, g)` call by call -/
abbrev WriteFnW (σ : Type) := σ → BO → BGeom → WM σ

/-- the buffer `binary.Write` builds for a value: what GenLib's primitive appends to an empty buffer -/
def bufOf (x : Except Err Bytes) : Bytes :=
  match x with
  | .ok p => p
  | .error _ => []

/-- ONE `w.Write(p)` -/
def putW {σ : Type} (K : Sink.Sink σ) (p : Bytes) (w : σ) : WM σ :=
  match K.put p w with
  | (w', none) => .ok w'
  | (w', some c) => .error (w', .io c)

def binWriteU8W {σ : Type} (K : Sink.Sink σ) (w : σ) (bo : BO) (v : Nat) : WM σ := putW K (bufOf (binWriteU8 [] bo v)) w
def binWriteU32W {σ : Type} (K : Sink.Sink σ) (w : σ) (bo : BO) (v : Nat) : WM σ := putW K (bufOf (binWriteU32 [] bo v)) w
def binWritePointW {σ : Type} (K : Sink.Sink σ) (w : σ) (bo : BO) (p : Pt UInt64) : WM σ := putW K (bufOf (binWritePoint [] bo p)) w
def binWritePointsW {σ : Type} (K : Sink.Sink σ) (w : σ) (bo : BO) (ps : List (Pt UInt64)) : WM σ :=
  putW K (bufOf (binWritePoints [] bo ps)) w

/-- `return &SomeError{…}`: no call to the writer, which stays as it is -/
def throwW {σ α : Type} (w : σ) (e : Err) : Except (σ × Sink.WErr) α := .error (w, .wkb e)

/-- a block that does not touch the writer -/
def liftW {σ α : Type} (w : σ) : Except Err α → Except (σ × Sink.WErr) α
  | .ok a => .ok a
  | .error e => .error (w, .wkb e)

def loopNW {ε σ : Type} : Nat → σ → (σ → Except ε σ) → Except ε σ
  | 0, s, _ => .ok s
  | n+1, s, f => do
      let s ← f s
      loopNW n s f

def forRangeW {ε α σ : Type} : List α → σ → (α → σ → Except ε σ) → Except ε σ
  | [], s, _ => .ok s
  | x :: xs, s, f => do
      let s ← f x s
      forRangeW xs s f

end GeomV.C05
