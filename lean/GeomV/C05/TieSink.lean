import GeomV.C05.Tie
import GeomV.C05.ProofsSink
/-!
# C05 — T1 tie of the CALL-BY-CALL writing path: `wkb.Write(w io.Writer, …)` as regenerated from the Go source

`Gen.lean` holds the writer functions of encoding/wkb a second time (names ending in `W`), translated from the same
Go text with the `io.Writer` as any writer state machine (`GenLibW.lean`: every `binary.Write` = ONE `w.Write` of
the value's encoding, an error carries the writer state reached).  This file proves, function by function, that
they ARE the hand-written call-by-call model `Sink.writeW` (Sink.lean) — for every writer `K`, honest or not, in
every state: the same sequence of `w.Write` calls, stopped at the same call, with the same error.  So the theorems
of `ProofsSink.lean` (what a failing writer has received; what an unsupported member costs) are theorems about the
text of the Go functions as it is in the tree under test (`C05_sink_*_src`).
-/
set_option linter.unusedSimpArgs false
set_option linter.unusedVariables false
namespace GeomV.C05.GenW
open GeomV GeomV.C05 GeomV.C05.Sink

/-- Go's view of a result of the call-by-call path: the writer afterwards and the `error` value -/
def toRes {σ : Type} : Except (σ × WErr) σ → Res σ
  | .ok s => (s, none)
  | .error (s, e) => (s, some e)

variable {σ : Type} (K : Sink σ)

theorem toRes_bind (x : Except (σ × WErr) σ) (f : σ → Except (σ × WErr) σ) :
    toRes (x >>= f) = andThen (toRes x) (fun s => toRes (f s)) := by
  cases x with
  | ok s => rfl
  | error p => obtain ⟨s, e⟩ := p; rfl

theorem toRes_bind_pure (x : Except (σ × WErr) σ) : toRes (x >>= fun w => pure w) = toRes x := by
  cases x with
  | ok s => rfl
  | error p => rfl

theorem toRes_put (p : Bytes) (w : σ) : toRes (putW K p w) = binW K p w := by
  unfold putW binW
  rcases K.put p w with ⟨s, _ | c⟩ <;> rfl

theorem toRes_liftW_ok {α : Type} (w : σ) (a : α) (f : α → Except (σ × WErr) σ) :
    toRes (liftW w (.ok a : Except Err α) >>= f) = toRes (f a) := rfl

theorem forRangeW_wEach {α : Type} (f : α → σ → Except (σ × WErr) σ) (g : α → σ → Res σ) :
    ∀ (xs : List α) (w : σ), (∀ x ∈ xs, ∀ s, toRes (f x s) = g x s) →
      toRes (forRangeW xs w f) = wEach g xs w
  | [], w, _ => rfl
  | x :: xs, w, h => by
    simp only [forRangeW, wEach, toRes_bind]
    rw [h x (by simp)]
    exact andThen_congr _ _ _ (fun s => forRangeW_wEach f g xs s (fun y hy => h y (by simp [hy])))

/-! ### the regenerated functions, one by one -/

theorem tie_writePointW (w : σ) (bo : BO) (p : Pt UInt64) :
    toRes (Gen.writePointW K w bo p) = wPoint K bo p w := by
  simp [Gen.writePointW, binWritePointW, binWritePoint, bufOf, toRes_put, wPoint]

theorem tie_writePointsW (w : σ) (bo : BO) (ps : List (Pt UInt64)) :
    toRes (Gen.writePointsW K w bo ps) = wPoints K bo ps w := by
  simp only [Gen.writePointsW, toRes_bind, binWriteU32W, binWritePointsW, binWriteU32, binWritePoints, bufOf,
    toRes_put, wPoints, u32_u32len, List.nil_append]

theorem tie_writePointssW (w : σ) (bo : BO) (pss : List (List (Pt UInt64))) :
    toRes (Gen.writePointssW K w bo pss) = wPointss K bo pss w := by
  simp only [Gen.writePointssW, toRes_bind, toRes_bind_pure, binWriteU32W, binWriteU32, bufOf, toRes_put, wPointss,
    u32_u32len, List.nil_append]
  refine andThen_congr _ _ _ (fun s => ?_)
  exact forRangeW_wEach _ _ pss s (fun x _ t => tie_writePointsW K t bo x)

theorem tie_writeLineStringW (w : σ) (bo : BO) (ps : List (Pt UInt64)) :
    toRes (Gen.writeLineStringW K w bo ps) = wPoints K bo ps w := by
  simp only [Gen.writeLineStringW]; exact tie_writePointsW K w bo ps

theorem tie_writePolygonW (w : σ) (bo : BO) (rs : List (List (Pt UInt64))) :
    toRes (Gen.writePolygonW K w bo rs) = wPointss K bo rs w := by
  simp only [Gen.writePolygonW]; exact tie_writePointssW K w bo rs

/-- `W` (standing for the recursive call of `Write`) does on `g` what the call-by-call model does -/
def WritesAsW (W : WriteFnW σ) (bo : BO) (g : BGeom) : Prop := ∀ w, toRes (W w bo g) = writeW K bo g w

theorem writeW_point (bo : BO) (p : Pt UInt64) (s : σ) : writeW K bo (.point p) s = wGeomPoint K bo p s := by
  simp [writeW]
theorem writeW_line (bo : BO) (p : List (Pt UInt64)) (s : σ) : writeW K bo (.lineString p) s = wGeomLine K bo p s := by
  simp [writeW]
theorem writeW_poly (bo : BO) (p : List (List (Pt UInt64))) (s : σ) : writeW K bo (.polygon p) s = wGeomPoly K bo p s := by
  simp [writeW]

theorem tie_writeMultiPointW (W : WriteFnW σ) (w : σ) (bo : BO) (ps : List (Pt UInt64))
    (hW : ∀ p ∈ ps, WritesAsW K W bo (.point p)) :
    toRes (Gen.writeMultiPointW K W w bo ps) =
      andThen (binW K (u32 bo ps.length) w) (wEach (wGeomPoint K bo) ps) := by
  simp only [Gen.writeMultiPointW, toRes_bind, toRes_bind_pure, binWriteU32W, binWriteU32, bufOf, toRes_put,
    u32_u32len, List.nil_append]
  refine andThen_congr _ _ _ (fun s => ?_)
  exact forRangeW_wEach _ _ ps s (fun x hx t => by rw [hW x hx t, writeW_point])

theorem tie_writeMultiLineStringW (W : WriteFnW σ) (w : σ) (bo : BO) (ls : List (List (Pt UInt64)))
    (hW : ∀ l ∈ ls, WritesAsW K W bo (.lineString l)) :
    toRes (Gen.writeMultiLineStringW K W w bo ls) =
      andThen (binW K (u32 bo ls.length) w) (wEach (wGeomLine K bo) ls) := by
  simp only [Gen.writeMultiLineStringW, toRes_bind, toRes_bind_pure, binWriteU32W, binWriteU32, bufOf, toRes_put,
    u32_u32len, List.nil_append]
  refine andThen_congr _ _ _ (fun s => ?_)
  exact forRangeW_wEach _ _ ls s (fun x hx t => by rw [hW x hx t, writeW_line])

theorem tie_writeMultiPolygonW (W : WriteFnW σ) (w : σ) (bo : BO) (ps : List (List (List (Pt UInt64))))
    (hW : ∀ p ∈ ps, WritesAsW K W bo (.polygon p)) :
    toRes (Gen.writeMultiPolygonW K W w bo ps) =
      andThen (binW K (u32 bo ps.length) w) (wEach (wGeomPoly K bo) ps) := by
  simp only [Gen.writeMultiPolygonW, toRes_bind, toRes_bind_pure, binWriteU32W, binWriteU32, bufOf, toRes_put,
    u32_u32len, List.nil_append]
  refine andThen_congr _ _ _ (fun s => ?_)
  exact forRangeW_wEach _ _ ps s (fun x hx t => by rw [hW x hx t, writeW_poly])

theorem forRangeW_writeWList (W : WriteFnW σ) (bo : BO) :
    ∀ (gs : List BGeom) (w : σ), (∀ g ∈ gs, WritesAsW K W bo g) →
      toRes (forRangeW gs w (fun geom w => W w bo geom)) = writeWList K bo gs w
  | [], w, _ => by simp [forRangeW, writeWList, toRes]
  | g :: gs, w, h => by
    simp only [forRangeW, writeWList, toRes_bind]
    rw [h g (by simp)]
    exact andThen_congr _ _ _ (fun s => forRangeW_writeWList W bo gs s (fun y hy => h y (by simp [hy])))

theorem tie_writeGeometryCollectionW (W : WriteFnW σ) (w : σ) (bo : BO) (gs : List BGeom)
    (hW : ∀ g ∈ gs, WritesAsW K W bo g) :
    toRes (Gen.writeGeometryCollectionW K W w bo gs) =
      andThen (binW K (u32 bo (Proto.listLen gs)) w) (writeWList K bo gs) := by
  simp only [Gen.writeGeometryCollectionW, toRes_bind, toRes_bind_pure, binWriteU32W, binWriteU32, bufOf, toRes_put,
    u32_u32len, List.nil_append, listLen_eq]
  refine andThen_congr _ _ _ (fun s => ?_)
  exact forRangeW_writeWList K W bo gs s hW

/-- members of `g` for which `Write` calls itself -/
def MembersW (W : WriteFnW σ) (bo : BO) : BGeom → Prop
  | .multiPoint ps => ∀ p ∈ ps, WritesAsW K W bo (.point p)
  | .multiLineString ls => ∀ l ∈ ls, WritesAsW K W bo (.lineString l)
  | .multiPolygon ps => ∀ p ∈ ps, WritesAsW K W bo (.polygon p)
  | .collection gs => ∀ g ∈ gs, WritesAsW K W bo g
  | _ => True

theorem liftW_ok_bind {α : Type} (w : σ) (a : α) (f : α → Except (σ × WErr) σ) :
    (liftW w (.ok a : Except Err α) >>= f) = f a := rfl

theorem hflag (bo : BO) : UInt8.ofNat (flag bo).toNat = flag bo := by cases bo <;> rfl

/-- **tie_WriteW**: one unfolding of the Go function `Write` on the call-by-call path — the flag byte, the type
switch (an unsupported value returns here, AFTER the flag byte was handed over), the type code, the writer — is the
call-by-call model, provided the recursive calls are. -/
theorem tie_WriteW (W : WriteFnW σ) (w : σ) (bo : BO) (g : BGeom) (hW : MembersW K W bo g) :
    toRes (Gen.WriteW K W w bo g) = writeW K bo g w := by
  simp only [Gen.WriteW, flag_eq, liftW_ok_bind]
  cases g with
  | point p =>
    simp only [liftW_ok_bind, pure, Except.pure, toRes_bind, binWriteU8W, binWriteU32W, binWriteU8, binWriteU32, bufOf,
      toRes_put, List.nil_append, hflag, Gen.wkbPoint, tie_writePointW, writeW, wGeomPoint, wHeader, andThen_assoc]
  | lineString ps =>
    simp only [liftW_ok_bind, pure, Except.pure, toRes_bind, binWriteU8W, binWriteU32W, binWriteU8, binWriteU32, bufOf,
      toRes_put, List.nil_append, hflag, Gen.wkbLineString, tie_writeLineStringW, writeW, wGeomLine, wHeader, andThen_assoc]
  | polygon rs =>
    simp only [liftW_ok_bind, pure, Except.pure, toRes_bind, binWriteU8W, binWriteU32W, binWriteU8, binWriteU32, bufOf,
      toRes_put, List.nil_append, hflag, Gen.wkbPolygon, tie_writePolygonW, writeW, wGeomPoly, wHeader, andThen_assoc]
  | multiPoint ps =>
    simp only [liftW_ok_bind, pure, Except.pure, toRes_bind, binWriteU8W, binWriteU32W, binWriteU8, binWriteU32, bufOf,
      toRes_put, List.nil_append, hflag, Gen.wkbMultiPoint, tie_writeMultiPointW K W _ bo ps hW, writeW, wHeader, andThen_assoc]
  | multiLineString ls =>
    simp only [liftW_ok_bind, pure, Except.pure, toRes_bind, binWriteU8W, binWriteU32W, binWriteU8, binWriteU32, bufOf,
      toRes_put, List.nil_append, hflag, Gen.wkbMultiLineString, tie_writeMultiLineStringW K W _ bo ls hW, writeW, wHeader, andThen_assoc]
  | multiPolygon ps =>
    simp only [liftW_ok_bind, pure, Except.pure, toRes_bind, binWriteU8W, binWriteU32W, binWriteU8, binWriteU32, bufOf,
      toRes_put, List.nil_append, hflag, Gen.wkbMultiPolygon, tie_writeMultiPolygonW K W _ bo ps hW, writeW, wHeader, andThen_assoc]
  | collection gs =>
    simp only [liftW_ok_bind, pure, Except.pure, toRes_bind, binWriteU8W, binWriteU32W, binWriteU8, binWriteU32, bufOf,
      toRes_put, List.nil_append, hflag, Gen.wkbGeometryCollection, tie_writeGeometryCollectionW K W _ bo gs hW, writeW, wHeader, andThen_assoc]
  | bounds a b =>
    simp only [toRes_bind, binWriteU8W, binWriteU8, bufOf, toRes_put, List.nil_append, hflag, writeW]
    refine andThen_congr _ _ _ (fun s => ?_)
    rfl
  | nil =>
    simp only [toRes_bind, binWriteU8W, binWriteU8, bufOf, toRes_put, List.nil_append, hflag, writeW]
    refine andThen_congr _ _ _ (fun s => ?_)
    rfl

/-- **tie_writeW**: the Go recursion `Write → writeMulti*/writeGeometryCollection → Write` on the call-by-call path,
unrolled at least `depth + 2` times, IS `Sink.writeW`: for every writer `K` (honest or not) and every state, the same
`w.Write` calls in the same order, stopped at the same call with the same error. -/
theorem tie_writeW (fuel : Nat) (g : BGeom) (hf : g.depth + 2 ≤ fuel) (bo : BO) :
    WritesAsW K (Gen.writeW K fuel) bo g := by
  induction fuel generalizing g with
  | zero => omega
  | succ f ih =>
    have leaf : ∀ (f : Nat) (x : BGeom), MembersW K (Gen.writeW K f) bo x → WritesAsW K (Gen.writeW K (f+1)) bo x :=
      fun f x hx w => tie_WriteW K (Gen.writeW K f) w bo x hx
    obtain ⟨f', rfl⟩ : ∃ f', f = f' + 1 := ⟨f - 1, by omega⟩
    intro w
    refine tie_WriteW K (Gen.writeW K (f'+1)) w bo g ?_
    cases g with
    | multiPoint ps => exact fun p _ => leaf f' _ trivial
    | multiLineString ls => exact fun l _ => leaf f' _ trivial
    | multiPolygon ps => exact fun p _ => leaf f' _ trivial
    | collection gs =>
      intro x hx
      have := depth_le_depthList x gs hx
      simp only [Geom.depth] at hf
      exact ih x (by omega)
    | _ => trivial

end GeomV.C05.GenW

namespace GeomV.C05
open GeomV GeomV.C05.Sink GeomV.C05.GenW

/-- `wkb.Write(w, byteOrder, g)` as REGENERATED from the Go source, call by call, on the writer `K` in state `s`
(recursion unrolled `depth + 2` times): the writer afterwards and the `error` value -/
def Gen.writeOn {σ : Type} (K : Sink σ) (bo : BO) (g : BGeom) (s : σ) : Res σ :=
  toRes (Gen.writeW K (g.depth + 2) s bo g)

/-- **C05_sink_src** (T1, writing path call by call).  For EVERY writer state machine `K` (whether or not it keeps
io.Writer's contract), every state, byte order and value (supported or not): the writer functions regenerated from
the Go source make exactly the `w.Write` calls of the hand-written call-by-call model `Sink.writeW`, stop at the same
call, and return the same error.  (`Sink.writeW` is what judges the `wrfail` lines; it is no longer a second reading
of the code but a consequence of its text.) -/
theorem C05_sink_src {σ : Type} (K : Sink σ) (bo : BO) (g : BGeom) (s : σ) :
    Gen.writeOn K bo g s = writeW K bo g s :=
  tie_writeW K (g.depth + 2) g (Nat.le_refl _) bo s

/-- **C05_sink_ok_src**: on a writer that keeps the contract and never fails, the regenerated call-by-call `Write`
returns nil exactly when the regenerated `Encode` produces bytes, and the writer has then received exactly them. -/
theorem C05_sink_ok_src {σ : Type} (K : Sink σ) (hS : Honest K) (hN : NeverFails K) (bo : BO) (g : BGeom) (s : σ) :
    ((Gen.writeOn K bo g s).2 = none ↔ ∃ enc, Gen.encode g bo = .ok enc) ∧
    (∀ enc, Gen.encode g bo = .ok enc →
      (Gen.writeOn K bo g s).2 = none ∧ K.trace (Gen.writeOn K bo g s).1 = K.trace s ++ enc) := by
  rw [C05_sink_src, tie_encode]
  exact C05_sink_ok K hS hN bo g s

/-- **C05_sink_prefix_src**: whatever an honest writer does, the bytes the regenerated `Write` has handed over are a
prefix of the regenerated `Encode`'s result — all of it when the call returns nil —, and an error is the writer's own. -/
theorem C05_sink_prefix_src {σ : Type} (K : Sink σ) (hS : Honest K) (bo : BO) (g : BGeom) (enc : Bytes)
    (h : Gen.encode g bo = .ok enc) (s : σ) :
    ∃ handed rest, K.trace (Gen.writeOn K bo g s).1 = K.trace s ++ handed ∧ enc = handed ++ rest ∧
      ((Gen.writeOn K bo g s).2 = none → rest = []) ∧
      (∀ e, (Gen.writeOn K bo g s).2 = some e → ∃ c, e = .io c) := by
  rw [C05_sink_src]
  rw [tie_encode] at h
  exact C05_sink_prefix K hS bo g enc h s

/-- **C05_sink_limit_src**: the regenerated `Write` into a writer that accepts `limit` bytes: the writer's error and
exactly the first `limit` bytes of the encoding if it does not fit, nil and the encoding if it does — what a
`wrfail` line prints. -/
theorem C05_sink_limit_src (bo : BO) (g : BGeom) (enc : Bytes) (h : Gen.encode g bo = .ok enc) (limit code : Nat) :
    (limit < enc.length →
      Gen.writeOn limSink bo g (LimW.new limit code) = (⟨enc.take limit, limit, code⟩, some (.io code))) ∧
    (enc.length ≤ limit →
      Gen.writeOn limSink bo g (LimW.new limit code) = (⟨enc, limit, code⟩, none)) := by
  rw [C05_sink_src]
  rw [tie_encode] at h
  exact C05_sink_limit_fresh bo g enc h limit code

/-- **C05_sink_unsupported_src**: a value the regenerated `Encode` rejects, written call by call to any honest
writer: the writer has received a prefix of the pieces that precede the offending member (its flag byte included),
and the call returns the package's error (everything having been accepted) or the writer's own. -/
theorem C05_sink_unsupported_src {σ : Type} (K : Sink σ) (hS : Honest K) (bo : BO) (g : BGeom) (e : Err)
    (h : Gen.encode g bo = .error e) (s : σ) :
    ∃ handed rest, K.trace (Gen.writeOn K bo g s).1 = K.trace s ++ handed ∧
      (pieces bo g).1.flatten = handed ++ rest ∧
      (((Gen.writeOn K bo g s).2 = some (.wkb e) ∧ rest = []) ∨ ∃ c, (Gen.writeOn K bo g s).2 = some (.io c)) := by
  rw [C05_sink_src]
  rw [tie_encode] at h
  exact C05_sink_unsupported_any K hS bo g e h s

/-- non-vacuity: the regenerated functions run — a point into a writer that accepts 7 bytes; a collection
[point, bounds] into a buffer (31 bytes handed over, then the package's error) -/
example : Gen.writeOn limSink .ndr (.point ⟨1, 2⟩) (LimW.new 7 9) =
    (⟨[1, 1, 0, 0, 0, 1, 0], 7, 9⟩, some (.io 9)) := by decide +kernel
example : Gen.writeOn bufSink .ndr (.collection [.point ⟨1, 2⟩, .bounds ⟨0, 0⟩ ⟨1, 1⟩]) [] =
    ([1, 7, 0, 0, 0, 2, 0, 0, 0,
      1, 1, 0, 0, 0, 1, 0, 0, 0, 0, 0, 0, 0, 2, 0, 0, 0, 0, 0, 0, 0,
      1], some (.wkb .unsupported)) := by decide +kernel

end GeomV.C05
