import GeomV.C05.GenLib
import GeomV.C05.Stream
/-!
# C05 — vocabulary of the regenerated STREAMING path (T1 tie of `wkb.Read(r io.Reader)`)

`Gen.lean` holds every reader function of encoding/wkb twice: once with the `io.Reader` as "the bytes still to be
read" (`GenLib.lean`), and once — the definitions whose names end in `S` — with the reader as ANY byte source
`S : Stream.Src σ` (`S.take k` = `io.ReadFull` of `k` bytes; `Stream.scriptSrc` = an arbitrary script of `Read`
calls with short reads, empty reads, data together with an error, errors of its own).  The Go text is the same,
the translator is the same (`harness/cmd/c05/extract.go`, stream mode); what differs is the meaning of the
vocabulary, fixed here:

* `binary.Read(r, order, &x)` is ONE `io.ReadFull(r, buf)` with `len(buf) = dataSize(x)` (1, 4, 16, 16·len(x)
  bytes for a `uint8`, `uint32`, `geom.Point`, `[]geom.Point`) followed by the in-memory decoding of `buf` —
  `binS`; the decoding of the buffer is GenLib's primitive run on the buffer (for a slice: its elements one
  after the other, the slice walk of `decoder.value`);
* an error of the byte source is returned as it is (`SErr.io`), `io.EOF`/`io.ErrUnexpectedEOF` are one class
  (`SErr.wkb Err.eof`), the package's own errors are `SErr.wkb e`;
* loops, map lookup and type assertions are GenLib's, in the error type `SErr`.
`TieGenS.lean` proves that the regenerated `ReadS` behind any scripted reader is the regenerated slice decoder
`Gen.read` on the bytes the reader delivers before its first error.  Core Lean only.
-/
namespace GeomV.C05
open GeomV GeomV.C05.Stream
export Stream (SErr SErr.wkb SErr.io)

/-- `wkb.Read(r)` behind a byte source -/
abbrev ReadFnS (σ : Type) := σ → Except SErr (BGeom × σ)
/-- `type wkbReader func(io.Reader, binary.ByteOrder) (geom.Geom, error)` behind a byte source -/
abbrev ReaderFnS (σ : Type) := BO → σ → Except SErr (BGeom × σ)

/-- `binary.Read(r, order, &x)`: one `io.ReadFull` of `k = dataSize(x)` bytes, then `dec` on the buffer -/
def binS {σ α : Type} (S : Src σ) (k : Nat) (dec : Bytes → Except Err (α × Bytes)) (bs : σ) : Except SErr (α × σ) :=
  match S.take k bs with
  | .error e => .error e
  | .ok (buf, bs) =>
    match dec buf with
    | .ok (v, _) => .ok (v, bs)
    | .error e => .error (.wkb e)

def binReadU8S {σ : Type} (S : Src σ) (bo : BO) : σ → Except SErr (Nat × σ) := binS S 1 (binReadU8 bo)
def binReadU32S {σ : Type} (S : Src σ) (bo : BO) : σ → Except SErr (Nat × σ) := binS S 4 (binReadU32 bo)
def binReadPointS {σ : Type} (S : Src σ) (bo : BO) : σ → Except SErr (Pt UInt64 × σ) := binS S 16 (binReadPoint bo)
/-- `binary.Read(r, order, &ps)` with `ps []geom.Point`: `dataSize = 16·len(ps)` -/
def binReadPointsS {σ : Type} (S : Src σ) (bo : BO) (dst : List (Pt UInt64)) : σ → Except SErr (List (Pt UInt64) × σ) :=
  binS S (16 * dst.length) (binReadPoints bo dst)

/-- a step that does not touch the reader (type assertion) -/
def liftS {α : Type} : Except Err α → Except SErr α
  | .ok a => .ok a
  | .error e => .error (.wkb e)

def loopNS {σ : Type} : Nat → σ → (σ → Except SErr σ) → Except SErr σ
  | 0, s, _ => .ok s
  | n+1, s, f => do
      let s ← f s
      loopNS n s f

def forRangeS {α σ : Type} : List α → σ → (α → σ → Except SErr σ) → Except SErr σ
  | [], s, _ => .ok s
  | x :: xs, s, f => do
      let s ← f x s
      forRangeS xs s f

def whileLoopS {σ : Type} : Nat → (σ → Bool) → σ → (σ → Except SErr σ) → Except SErr σ
  | 0, _, _, _ => .error (.wkb .fuel)
  | k+1, c, s, f =>
      if c s then do
        let s ← f s
        whileLoopS k c s f
      else .ok s

end GeomV.C05
