import GeomV.C05.Spec
import GeomV.C05.Stream
import GeomV.C05.BinStd
import GeomV.C05.Sink
/-!
Driver for C05.  `geomv_c05 prep` rewrites `mix` lines into `mdec` lines using the independent OGC
serializer with a pseudo-random byte-order tree; `geomv_c05 judge` reads lines carrying the
implementation's answers and prints one verdict per line:
  OK <class>            model, spec and implementation agree
  DIFF <class> <why>    implementation differs from the model (correspondence broken)
  SPEC <class> <why>    implementation's answer violates the specification
-/
namespace GeomV.C05
open GeomV GeomV.C05.Ogc
open GeomV.C05.Stream (IOErr Ev SErr Script readS scriptSrc scriptFuel avail afterErr)

def lcg (s : Nat) : Nat := (s * 6364136223846793005 + 1442695040888963407) % 2^64

/-- pseudo-random order tree of bounded shape (children beyond `width` inherit) -/
def randTree : Nat → Nat → OTree × Nat
  | 0, s => (.node (if s / 2^33 % 2 = 0 then .xdr else .ndr) [], lcg s)
  | d+1, s =>
    let bo := if s / 2^33 % 2 = 0 then BO.xdr else BO.ndr
    let s := lcg s
    let rec kids : Nat → Nat → List OTree × Nat
      | 0, s => ([], s)
      | k+1, s => let (t, s) := randTree d s; let (ts, s) := kids k s; (t :: ts, s)
    let (ks, s) := kids 4 s
    (.node bo ks, s)

def boOf (s : String) : BO := if s = "X" then .xdr else .ndr

/-- parse budget = collection nesting depth accepted on a line (the generator goes to depth 1000) -/
def geomOfToks (t : Tok) : Option (BGeom × Tok) := Proto.pGeom 2048 t

def showRes : Except Err BGeom → String
  | .ok g => "ok " ++ Proto.geomStr g
  | .error _ => "err"


/-! ### scripted readers (`rdmix` → `rdscript`) -/
def ioErrTok : IOErr → String | .eof => "eof" | .other c => toString c
def evTok : Ev → String
  | .data c => "d" ++ bytesToHex c
  | .dataErr c e => "D" ++ bytesToHex c ++ ":" ++ ioErrTok e
  | .fail e => "f" ++ ioErrTok e
def parseIOErr (s : String) : Option IOErr := if s = "eof" then some .eof else s.toNat?.map .other
def parseEv (t : String) : Option Ev :=
  let body := (t.drop 1).toString
  if t.startsWith "d" then (hexToBytes body).map .data
  else if t.startsWith "D" then
    match body.splitOn ":" with
    | [h, e] => do let c ← hexToBytes h; let e ← parseIOErr e; pure (.dataErr c e)
    | _ => none
  else if t.startsWith "f" then (parseIOErr body).map .fail
  else none

def cutSizes : List Nat := [0, 1, 1, 2, 3, 5, 8, 13, 16, 17, 64, 1000]

/-- cut `bs` into `data` events: mode 0 one byte each, mode 1 one event, otherwise pseudo-random sizes (incl. empty reads) -/
def cut (mode : Nat) : Nat → Nat → Bytes → List Ev
  | 0, _, bs => if bs.isEmpty then [] else [.data bs]
  | f+1, s, bs =>
    if bs.isEmpty then [] else
    let k := if mode == 0 then 1 else if mode == 1 then bs.length else cutSizes.getD (s / 2^33 % 12) 1
    .data (bs.take k) :: cut mode f (lcg s) (bs.drop k)

def pGeoms : Nat → Tok → Option (List BGeom × Tok)
  | 0, t => some ([], t)
  | n+1, t => do
    let (g, t) ← geomOfToks t
    let (gs, t) ← pGeoms n t
    pure (g :: gs, t)

/-- `rdmix seed n geoms…` → `rdscript n k cls geoms… | events…`: the geometries serialized by the independent
serializer (a pseudo-random order tree each), one after the other, optionally followed by a few more bytes, cut
into `Read` events, optionally failed at a pseudo-random position; `k` = number of encodings wholly delivered
before the failure -/
def prepRdmix (seed : Nat) (n : Nat) (rest : Tok) : String :=
  match pGeoms n rest with
  | none => "skip parse-error"
  | some (gs, _) =>
    let rec encs (s : Nat) : List BGeom → Option (List Bytes)
      | [] => some []
      | g :: gs => do
        let (t, s') := randTree 3 s
        let a ← serializeMixed t g
        let b ← encs s' gs
        pure (a :: b)
    match encs (lcg seed) gs with
    | none => "skip unserializable"
    | some es =>
      let s1 := lcg (seed + 17)
      let s2 := lcg s1
      let s3 := lcg s2
      let s4 := lcg s3
      let trailing : Bytes := [[], [], [2], [0, 0, 0], [1, 1, 0, 0, 0, 0, 0], [0, 0, 0, 0, 9, 1]].getD (s1 / 2^33 % 6) []
      let total := es.flatten ++ trailing
      let errMode := s2 / 2^33 % 4
      let e : IOErr := if s2 / 2^40 % 2 == 0 then .eof else .other (s2 / 2^41 % 5 + 3)
      let pos := if errMode == 3 && s3 / 2^50 % 2 == 0 then total.length else s3 / 2^33 % (total.length + 1)
      let mode := s4 / 2^33 % 4
      let after : List Ev := if s4 / 2^45 % 2 == 0 then [] else [.data (total.drop pos)]
      let evs : List Ev :=
        if errMode < 2 then cut mode (total.length * 2 + 8) s4 total
        else if errMode == 2 then cut mode (pos * 2 + 8) s4 (total.take pos) ++ [.fail e] ++ after
        else
          let p' := pos - min pos (s4 / 2^50 % 6)
          cut mode (p' * 2 + 8) s4 (total.take p') ++ [.dataErr ((total.take pos).drop p') e] ++ after
      let ends := es.foldl (fun (acc : List Nat × Nat) b => (acc.1 ++ [acc.2 + b.length], acc.2 + b.length)) ([], 0)
      let k := if errMode < 2 then n else (ends.1.filter (· ≤ pos)).length
      let cls := ["whole", "whole", "fail", "dataerr"].getD errMode "x" ++ (if errMode < 2 || e == .eof then "" else "-own")
      s!"rdscript {n} {k} {cls} {" ".intercalate (gs.map Proto.geomStr)} | {" ".intercalate (evs.map evTok)}"

/-- `rdretrymix seed g1 g2` → `rdretry cls g2 | events…`: the reader delivers a proper prefix (possibly empty) of a
serialization of `g1`, fails (`io.EOF` or its own error, alone or together with the last bytes), then delivers a
complete serialization of `g2` and perhaps a few more bytes -/
def prepRetry (seed : Nat) (rest : Tok) : String :=
  match pGeoms 2 rest with
  | some ([g1, g2], _) =>
    let (t1, s0) := randTree 3 (lcg seed)
    let (t2, _) := randTree 3 s0
    match serializeMixed t1 g1, serializeMixed t2 g2 with
    | some e1, some e2 =>
      let s1 := lcg (seed + 29)
      let s2 := lcg s1
      let s3 := lcg s2
      let s4 := lcg s3
      let pos := if s1 / 2^40 % 4 == 0 then 0 else s1 / 2^33 % e1.length
      let e : IOErr := if s2 / 2^40 % 3 == 0 then .eof else .other (s2 / 2^41 % 5 + 3)
      let together := s2 / 2^33 % 2 == 0
      let mode := s3 / 2^33 % 4
      let trailing : Bytes := [[], [], [2], [0, 0, 0, 0, 9, 1]].getD (s4 / 2^33 % 4) []
      let p' := if together then pos - min pos (s4 / 2^50 % 6) else pos
      let errEv : Ev := if together then .dataErr ((e1.take pos).drop p') e else .fail e
      let tail := e2 ++ trailing
      let evs := cut mode (p' * 2 + 8) s3 (e1.take p') ++ [errEv] ++ cut ((mode + 1) % 4) (tail.length * 2 + 8) s4 tail
      let cls := (if together then "dataerr" else "fail") ++ (if e == .eof then "" else "-own") ++ (if pos == 0 then "-between" else "-inside")
      s!"rdretry {cls} {Proto.geomStr g2} | {" ".intercalate (evs.map evTok)}"
    | _, _ => "skip unserializable"
  | _ => "skip parse-error"

def prepLine (line : String) : String :=
  match tokens line with
  | "mix" :: seed :: rest =>
    match geomOfToks rest with
    | some (g, _) =>
      let (t, _) := randTree 5 (lcg (seed.toNat?.getD 0))
      match serializeMixed t g with
      | some bs => s!"mdec {Proto.geomStr g} | {bytesToHex bs}"
      | none => s!"skip unserializable"
    | none => "skip parse-error"
  | "rdretrymix" :: seed :: rest => prepRetry (seed.toNat?.getD 0) rest
  | "rdmix" :: seed :: n :: rest => prepRdmix (seed.toNat?.getD 0) (n.toNat?.getD 0) rest
  | _ => line

def geomClass : BGeom → String
  | .point _ => "point" | .multiPoint _ => "multipoint" | .lineString _ => "linestring"
  | .multiLineString _ => "multilinestring" | .polygon _ => "polygon" | .multiPolygon _ => "multipolygon"
  | .collection _ => "collection" | .bounds _ _ => "bounds" | .nil => "nil"

/-- compare an implementation result string with a model/spec result -/
def sameRes (impl : Tok) (m : Except Err BGeom) : Bool :=
  match m, impl with
  | .error _, ["err"] => true
  | .ok g, "ok" :: t => Proto.geomToks g == t
  | _, _ => false


/-! ### verdicts of the streaming lines -/
def sErrTok : SErr → String
  | .wkb .eof => "err:eof"
  | .wkb _ => "err:wkb"
  | .io c => "err:io" ++ toString c

/-- the model's `n` successive `wkb.Read` calls on one scripted reader, in the harness's output format -/
def runReads (total : Nat) : Nat → Script → Tok
  | 0, _ => []
  | c+1, s =>
    match readS scriptSrc (scriptFuel s) s with
    | .ok (g, s') => "ok" :: Proto.geomToks g ++ ["@" ++ toString (total - (avail s').length)] ++ runReads total c s'
    | .error e => [sErrTok e]

/-- split the harness's output after every `@count` token -/
def segments : Nat → Tok → List Tok
  | 0, _ => []
  | f+1, t =>
    if t.isEmpty then [] else
    let a := t.takeWhile (fun x => !x.startsWith "@")
    if a.length == t.length then [a] else a :: segments f (t.drop (a.length + 1))

/-- the first `k` results are `ok g_i` -/
def firstAre (gs : List BGeom) (segs : List Tok) : Bool :=
  match gs, segs with
  | [], _ => true
  | g :: gs, s :: segs => s == "ok" :: Proto.geomToks g && firstAre gs segs
  | _ :: _, [] => false

def membersOf : Tok → Nat → List (BO × BGeom)
  | "|" :: o :: gt, fuel+1 =>
    match geomOfToks gt with
    | some (g, r) => (boOf o, g) :: membersOf r fuel
    | none => []
  | _, _ => []

def judgeLine (line : String) : String :=
  let (lhs, rhs) := splitArrow (tokens line)
  match lhs with
  | "enc" :: o :: gt =>
    match geomOfToks gt with
    | none => "BAD parse"
    | some (g, _) =>
      let bo := boOf o
      let cls := "enc-" ++ geomClass g
      let m := encode bo g
      let sp := serialize bo g
      match rhs with
      | ["err"] =>
        if sp.isSome then s!"SPEC {cls} encoder-rejected-encodable-geometry"
        else if m.isOk then s!"DIFF {cls} model-encodes-impl-errs" else s!"OK {cls}-unsupported"
      | ["ok", h] =>
        let hb := hexToBytes ((h.dropEnd 1).toString)
        match sp with
        | none => s!"SPEC {cls} encoder-produced-bytes-for-unsupported-geometry"
        | some bs =>
          if hb != some bs then s!"SPEC {cls} bytes-differ-from-OGC-layout want={bytesToHex bs}"
          else match m with
            | .ok mb => if some mb == hb then s!"OK {cls}" else s!"DIFF {cls} model-bytes-differ"
            | .error _ => s!"DIFF {cls} model-errs-impl-encodes"
      | _ => s!"SPEC {cls} encoder-{" ".intercalate rhs}"
  | "rt" :: _ :: gt =>
    match geomOfToks gt with
    | none => "BAD parse"
    | some (g, _) =>
      let cls := "rt-" ++ geomClass g
      if sameRes rhs (.ok g) then s!"OK {cls}" else s!"SPEC {cls} decode-of-encode-differs got={" ".intercalate rhs}"
  | "hexrt" :: o :: gt =>
    match geomOfToks gt with
    | none => "BAD parse"
    | some (g, _) =>
      let cls := "hexrt-" ++ geomClass g
      match rhs with
      | "hex" :: h :: res =>
        let want := (serialize (boOf o) g).map fun bs => String.ofList (hexEncode bs)
        if some ((h.dropEnd 1).toString) != want then s!"SPEC {cls} hex-text-differs"
        else if sameRes res (.ok g) then s!"OK {cls}" else s!"SPEC {cls} hex-decode-of-encode-differs"
      | _ => s!"SPEC {cls} hex-{" ".intercalate rhs}"
  | "mdec" :: rest =>
    let gt := rest.takeWhile (· ≠ "|")
    let h := (rest.drop (gt.length + 1)).headD ""
    match geomOfToks gt, hexToBytes h with
    | some (g, _), some bs =>
      let cls := "mixed-" ++ geomClass g
      if !sameRes rhs (.ok g) then s!"SPEC {cls} mixed-order-decode-differs got={" ".intercalate rhs}"
      else if sameRes rhs (decode bs) then s!"OK {cls}" else s!"DIFF {cls} model-decode-differs"
    | _, _ => "BAD parse"
  | ["dec", h] =>
    match hexToBytes ((h.drop 1).toString) with
    | some bs =>
      let m := decode bs
      let cls := if m.isOk then "dec-valid" else "dec-malformed"
      if rhs == ["skipped"] then "OK dec-skipped"
      else if sameRes rhs m then s!"OK {cls}"
      else if rhs.head? == some "panic" then s!"SPEC {cls} decoder-panicked"
      else s!"DIFF {cls} model={showRes m} impl={" ".intercalate rhs}"
    | none => "BAD parse"
  | "rdrt" :: kind :: _ :: gt =>
    match geomOfToks gt with
    | none => "BAD parse"
    | some (g, _) =>
      let cls := "read-" ++ kind ++ "-" ++ geomClass g
      if sameRes rhs (.ok g) then s!"OK {cls}" else s!"SPEC {cls} streaming-decode-of-encode-differs got={" ".intercalate (rhs.take 12)}"
  | "rejthen" :: k :: bad :: _ :: gt =>
    match geomOfToks gt, hexToBytes ((bad.drop 1).toString) with
    | some (g, _), some bs =>
      match rhs with
      | "rejected" :: n :: res =>
        let wantRej := if (decode bs).isOk then "0" else k
        if n != wantRej then s!"DIFF rejthen model-and-implementation-disagree-on-the-malformed-input rejected={n}"
        else if sameRes res (.ok g) then "OK rejthen" else s!"SPEC rejthen valid-round-trip-fails-after-{k}-rejected-decodes got={" ".intercalate (res.take 6)}"
      | _ => s!"SPEC rejthen {" ".intercalate (rhs.take 6)}"
    | _, _ => "BAD parse"
  | "encbatch" :: _ :: rest =>
    -- members: | <bo> <geom tokens> ...
    let rec members (t : Tok) (fuel : Nat) : List (BO × BGeom) :=
      match fuel, t with
      | fuel+1, "|" :: o :: gt =>
        match geomOfToks gt with
        | some (g, r) => (boOf o, g) :: members r fuel
        | none => []
      | _, _ => []
    let ms := members rest 64
    match rhs with
    | "late" :: outs =>
      let want : List String := ms.flatMap fun (bo, g) =>
        match serialize bo g with
        | some bs => ["x" ++ bytesToHex bs, "h" ++ String.ofList (hexEncode bs)]
        | none => ["x", "h!"]
      if outs == want then s!"OK encbatch-{ms.length}"
      else s!"SPEC encbatch-{ms.length} a-kept-encoding-differs-from-the-OGC-layout-when-read-after-later-Encode-calls"
    | _ => s!"SPEC encbatch {" ".intercalate rhs}"
  | "alias" :: layout :: o :: gt =>
    -- shared-backing input, encoded twice, compared before/after, overwritten in place, encoded again
    match geomOfToks gt with
    | some (g, "|" :: gt') =>
      match geomOfToks gt' with
      | some (g', _) =>
        let bo := boOf o
        let cls := s!"alias-{layout}-{geomClass g}"
        let hexOf := fun (x : BGeom) => (serialize bo x).map fun bs => (bytesToHex bs, String.ofList (hexEncode bs))
        match rhs, hexOf g, hexOf g' with
        | x1 :: h1 :: twice :: input :: x3 :: h3 :: dec, some (w1, wh1), some (w3, wh3) =>
          if x1 != "x" ++ w1 then s!"SPEC {cls} bytes-differ-from-OGC-layout"
          else if h1 != "h" ++ wh1 then s!"SPEC {cls} hex-text-differs"
          else if twice != "same" then s!"SPEC {cls} same-geometry-encoded-twice-gives-different-bytes"
          else if input != "intact" then s!"SPEC {cls} Encode-changed-its-argument input={input}"
          else if !sameRes dec (.ok g) then s!"SPEC {cls} decoded-value-differs-after-its-input-buffer-was-overwritten"
          else if x3 != "x" ++ w3 then s!"SPEC {cls} encoding-after-in-place-change-of-the-input-is-not-the-OGC-layout-of-the-new-value"
          else if h3 != "h" ++ wh3 then s!"SPEC {cls} hex-text-after-in-place-change-of-the-input-differs"
          else match encode bo g, encode bo g' with
            | .ok m1, .ok m3 =>
              if "x" ++ bytesToHex m1 == x1 && "x" ++ bytesToHex m3 == x3 then s!"OK {cls}" else s!"DIFF {cls} model-bytes-differ"
            | _, _ => s!"DIFF {cls} model-errs-impl-encodes"
        | _, none, _ => s!"OK skipped"
        | _, _, _ => s!"SPEC {cls} {" ".intercalate (rhs.take 4)}"
      | none => "BAD parse"
    | _ => "BAD parse"
  | "rdscript" :: n :: k :: cls0 :: rest =>
    let n := n.toNat?.getD 0
    let k := k.toNat?.getD 0
    match pGeoms n rest with
    | some (gs, "|" :: evt) =>
      match evt.mapM parseEv with
      | some (s : Script) =>
        let cls := s!"rdscript-{cls0}-{n}"
        let want := runReads (avail s).length (n + 1) s
        if !firstAre (gs.take k) (segments (n + 2) rhs) then
          s!"SPEC {cls} successive-streaming-reads-of-wholly-delivered-encodings-differ got={" ".intercalate (rhs.take 12)}"
        else if rhs == want then s!"OK {cls}"
        else s!"DIFF {cls} model={" ".intercalate (want.drop (want.length - 3))} impl={" ".intercalate (rhs.drop (rhs.length - 3))}"
      | none => "BAD parse"
    | _ => "BAD parse"
  | "rdretry" :: cls0 :: rest =>
    -- wkb.Read twice on a reader that fails before/inside a first encoding and then delivers a complete one: the
    -- second call starts at the first byte of that encoding and must return its value (SPEC); the first call's error
    -- class and the bytes handed out are compared with `readS` on the script and on `afterErr` of it (DIFF)
    match geomOfToks rest with
    | some (g2, "|" :: evt) =>
      match evt.mapM parseEv with
      | some (s : Script) =>
        let cls := s!"rdretry-{cls0}"
        let first : Tok := match readS scriptSrc (scriptFuel s) s with
          | .ok (g, _) => "ok" :: Proto.geomToks g
          | .error e => [sErrTok e]
        let s2 := afterErr s
        let second := runReads ((avail s).length + (avail s2).length) 1 s2
        let got2 := (rhs.dropWhile (· != "then")).drop 1
        if (segments 2 got2).head? != some ("ok" :: Proto.geomToks g2) then
          s!"SPEC {cls} second-Read-on-a-reader-that-resumed-after-its-error-does-not-return-the-complete-encoding-it-delivered got={" ".intercalate (got2.take 8)}"
        else if rhs == first ++ ["then"] ++ second then s!"OK {cls}"
        else s!"DIFF {cls} model={" ".intercalate (first.take 2)} then {" ".intercalate (second.drop (second.length - 1))} impl={" ".intercalate (rhs.take 1)} … {" ".intercalate (rhs.drop (rhs.length - 1))}"
      | none => "BAD parse"
    | _ => "BAD parse"
  | "seqwr" :: n :: rest =>
    let ms := membersOf rest 64
    let cls := s!"seqwr-{n}"
    match ms.mapM (fun (bo, g) => serialize bo g) with
    | none => "OK skipped"
    | some encs =>
      let all := encs.flatten
      match rhs with
      | x :: same :: res =>
        if x != "x" ++ bytesToHex all then s!"SPEC {cls} bytes-written-to-one-non-Buffer-writer-differ-from-the-OGC-layouts-one-after-the-other"
        else if same != "same" then s!"SPEC {cls} bytes-written-through-bufio-differ"
        else if !firstAre (ms.map (·.2)) (segments (ms.length + 2) res) || (segments (ms.length + 2) res).length != ms.length then
          s!"SPEC {cls} values-written-to-one-stream-are-not-read-back-in-order got={" ".intercalate (res.take 12)}"
        else
          let ends := encs.foldl (fun (acc : List String × Nat) b => (acc.1 ++ ["@" ++ toString (acc.2 + b.length)], acc.2 + b.length)) ([], 0)
          if res.filter (·.startsWith "@") == ends.1 then s!"OK {cls}"
          else s!"DIFF {cls} bytes-consumed-per-read model={" ".intercalate ends.1}"
      | _ => s!"SPEC {cls} {" ".intercalate (rhs.take 4)}"
  | "decbatch" :: k :: rest =>
    let ms := membersOf rest 64
    let cls := s!"decbatch-{k}"
    if ms.any (fun (bo, g) => (serialize bo g).isNone) then "OK skipped" else
    match rhs with
    | "late" :: res =>
      let segs := segments (2 * ms.length + 2) res
      if firstAre (ms.flatMap fun (_, g) => [g, g]) segs && segs.length == 2 * ms.length then s!"OK {cls}"
      else s!"SPEC {cls} a-decoded-value-differs-when-read-after-later-Decode-calls got={" ".intercalate (rhs.take 10)}"
    | _ => s!"SPEC {cls} {" ".intercalate (rhs.take 4)}"
  | "failthen" :: _ :: rest =>
    -- a history with failed calls between valid ones: every answer (read after the last call) is the answer the
    -- call would have given alone — OGC bytes / hex text / bytes written / the value back for a supported value,
    -- an error for an unsupported one
    let ms := membersOf rest 64
    let cls := s!"failthen-{ms.length}"
    if ms.length != (rest.filter (· == "|")).length then "BAD parse" else
    match rhs with
    | "late" :: res =>
      let segs := segments (ms.length + 2) res
      let want : List Tok := ms.map fun (bo, g) =>
        match serialize bo g with
        | some bs => ["x" ++ bytesToHex bs, "h" ++ String.ofList (hexEncode bs), "w" ++ bytesToHex bs, "ok"] ++ Proto.geomToks g
        | none => ["x!", "h!", "w!", "none"]
      let what (w s : Tok) : String :=
        if w.head? == some "x!" then
          (if s.head? != some "x!" || s.getD 1 "" != "h!" || s.getD 2 "" != "w!" then "unsupported-value-not-rejected" else "answer-differs")
        else if s.head? != w.head? then "Encode-bytes-differ-from-OGC-layout"
        else if s.getD 1 "" != w.getD 1 "" then "hex-text-differs"
        else if s.getD 2 "" != w.getD 2 "" then "Write-bytes-differ-from-OGC-layout"
        else "decoded-value-differs"
      let rec firstBad (j : Nat) (failedBefore : Bool) : List Tok → List Tok → Option String
        | w :: ws, s :: ss =>
          if w == s then firstBad (j + 1) (failedBefore || w.head? == some "x!") ws ss
          else some s!"call-{j}-{what w s}{if failedBefore then "-after-a-failed-call-in-the-same-process" else ""} got={" ".intercalate (s.take 3)}"
        | [], [] => none
        | _, _ => some s!"answers-missing-from-call-{j}"
      match firstBad 0 false want segs with
      | none => s!"OK {cls}"
      | some why => s!"SPEC {cls} {why}"
    | _ => s!"SPEC {cls} {" ".intercalate (rhs.take 4)}"
  | "cc" :: _ :: o :: gt =>
    match geomOfToks gt with
    | none => "BAD parse"
    | some (g, _) =>
      let cls := "conc-" ++ geomClass g
      match serialize (boOf o) g with
      | none => "OK skipped"
      | some enc =>
        let whenTok := rhs.getLast?.getD ""
        match rhs with
        | x :: h :: w :: state :: res =>
          let segs := segments 5 res.dropLast
          if x != "x" ++ bytesToHex enc then s!"SPEC {cls} Encode-bytes-differ-from-OGC-layout {whenTok}"
          else if h != "h" ++ String.ofList (hexEncode enc) then s!"SPEC {cls} hex-text-differs {whenTok}"
          else if w != "w" ++ bytesToHex enc then s!"SPEC {cls} Write-bytes-differ-from-OGC-layout {whenTok}"
          else if state != "intact" then s!"SPEC {cls} {state} {whenTok}"
          else if !(firstAre [g, g, g] segs && segs.length == 3) then s!"SPEC {cls} decoded-value-differs {whenTok} got={" ".intercalate (res.take 8)}"
          else s!"OK {cls}"
        | _ => s!"SPEC {cls} {" ".intercalate (rhs.take 6)}"
  | ["bin", o, h] =>
    match hexToBytes h with
    | some b =>
      let bo := boOf o
      let u32v := BinStd.orderUint32 bo (b.take 4)
      let u64v := BinStd.orderUint64 bo (b.take 8)
      let pt := BinStd.decPoint bo b
      let want := [toString u32v, natToHex 16 u64v, bytesToHex (BinStd.orderPutUint32 bo u32v),
        bytesToHex (BinStd.orderPutUint64 bo u64v), u64Hex pt.x, u64Hex pt.y, bytesToHex (BinStd.encPoint bo pt),
        bytesToHex (BinStd.writeU32 bo u32v)]
      if rhs == want then "OK bin" else s!"DIFF bin encoding/binary-differs-from-its-transcription want={" ".intercalate want}"
    | none => "BAD parse"
  | "wrfail" :: lim :: o :: gt =>
    match geomOfToks gt with
    | none => "BAD parse"
    | some (g, _) =>
      let lim := lim.toNat?.getD 0
      -- the model of the call, writer call by writer call (Sink.lean: one `w.Write` per `binary.Write`, the writer
      -- accepting `lim` bytes in total and failing with its error 9 on the call that crosses the limit)
      let (w, res) := Sink.writeW Sink.limSink (boOf o) g (Sink.LimW.new lim 9)
      let want := [match res with | none => "ok" | some (.io c) => s!"err:io{c}" | some (.wkb _) => "err:wkb", "x" ++ bytesToHex w.acc]
      match serialize (boOf o) g with
      | some enc =>
        if enc.length ≤ lim then
          if rhs == ["ok", "x" ++ bytesToHex enc] then "OK wrfail-fits"
          else s!"SPEC wrfail-fits bytes-written-differ-from-OGC-layout got={" ".intercalate (rhs.take 1)}"
        else if rhs == want then "OK wrfail-short"
        else s!"DIFF wrfail-short writer-failing-after-{lim}-bytes impl={" ".intercalate (rhs.take 1)}"
      | none =>
        -- an unsupported value: an error must be reported, and what reached the writer before it must be a prefix
        -- of what the model hands to a writer that never fails (C05_sink_unsupported_any); an implementation that
        -- hands over less (buffers, or rejects before the flag byte) is not at fault
        let full := (Sink.writeW Sink.limSink (boOf o) g (Sink.LimW.new (10^9) 9)).1.acc
        let got := match rhs with | [_, h] => hexToBytes ((h.drop 1).toString) | _ => none
        if rhs == want then "OK wrfail-unsupported"
        else if rhs.head? == some "ok" then s!"SPEC wrfail-unsupported unsupported-value-written-without-error"
        else match got with
          | some bs =>
            if bs.length ≤ lim && bs == full.take bs.length then "OK wrfail-unsupported-prefix"
            else s!"DIFF wrfail-unsupported bytes-handed-to-the-writer-before-the-error-are-not-a-prefix-of-the-encoding want={" ".intercalate want} impl={" ".intercalate (rhs.take 2)}"
          | none => "BAD parse"
  | "encbo" :: which :: gt =>
    match geomOfToks gt with
    | none => "BAD parse"
    | some (g, _) =>
      match rhs with
      | ["err"] => s!"OK encbo-{which}-rejected"
      | ["ok", h] =>
        let hb := hexToBytes ((h.dropEnd 1).toString)
        if hb.isSome && (hb == serialize .xdr g || hb == serialize .ndr g) then s!"OK encbo-{which}-accepted"
        else s!"SPEC encbo-{which} bytes-for-a-foreign-byte-order-are-not-an-OGC-layout"
      | _ => s!"SPEC encbo-{which} {" ".intercalate (rhs.take 3)}"
  | ["decin", h] =>
    match hexToBytes ((h.drop 1).toString) with
    | some bs =>
      let m := decode bs
      let cls := if m.isOk then "decin-valid" else "decin-malformed"
      match rhs with
      | ["skipped"] => "OK decin-skipped"
      | state :: res =>
        -- nil vs empty: the decoder builds every slice non-nil, also for a count of 0 (correspondence only: the
        -- property does not distinguish nil from empty)
        -- (reported as its own OK class, counted in the evidence histogram: 0 lines on the unchanged tree; returning
        -- nil for an empty member would not break the property, so it must not raise an alarm)
        if state.startsWith "intact-nil" then (if sameRes res m then "OK decin-nil-slice" else s!"DIFF {cls} model={showRes m} impl={" ".intercalate (res.take 8)}")
        else if state != "intact" then s!"SPEC {cls} Decode-{state}"
        else if sameRes res m then s!"OK {cls}"
        else if res.head? == some "panic" then s!"SPEC {cls} decoder-panicked"
        else s!"DIFF {cls} model={showRes m} impl={" ".intercalate (res.take 8)}"
      | _ => "BAD parse"
    | none => "BAD parse"
  | "skip" :: _ => "OK skipped"
  | _ => "BAD line"

end GeomV.C05

/-- all non-empty input lines -/
partial def GeomV.C05.readLines (h : IO.FS.Stream) (acc : Array String) : IO (Array String) := do
  let line ← h.getLine
  if line.isEmpty then return acc
  let l := (line.trimAscii).toString
  GeomV.C05.readLines h (if l ≠ "" then acc.push l else acc)

/-- `prepLine`/`judgeLine` are pure functions of one line, so the lines are processed in chunks on the thread
pool (one output line per input line, printed in input order). -/
def GeomV.C05.mapAll (f : String → String) (lines : Array String) (chunk : Nat := 16) : Array (Task (Array String)) :=
  (Array.range ((lines.size + chunk - 1) / chunk)).map fun c =>
    Task.spawn fun _ => (lines.extract (c * chunk) ((c + 1) * chunk)).map f

open GeomV GeomV.C05 in
def main (args : List String) : IO Unit := do
  let out ← IO.getStdout
  match args with
  | ["prep"] =>
    let lines ← readLines (← IO.getStdin) #[]
    for t in mapAll prepLine lines do
      for v in t.get do out.putStrLn v
  | ["judge"] =>
    let lines ← readLines (← IO.getStdin) #[]
    for t in mapAll judgeLine lines do
      for v in t.get do out.putStrLn v
  | ["prep1"] => forEachLine fun l => out.putStrLn (prepLine l)
  | ["judge1"] => forEachLine fun l => out.putStrLn (judgeLine l)
  | _ => IO.eprintln "usage: geomv_c05 prep|judge"
