import GeomV.C05.Spec
/-!
Driver for C05.  `geomv_c05 prep` rewrites `mix` lines into `mdec` lines using the independent OGC
serializer with a pseudo-random byte-order tree; `geomv_c05 judge` reads lines carrying the
implementation's answers and prints one verdict per line:
  OK <class>            model, spec and implementation agree
  DIFF <class> <why>    implementation differs from the model (correspondence broken)
  SPEC <class> <why>    implementation's answer violates the specification
-/
namespace GeomV.C05
open GeomV GeomV.C05.Ogc

def lcg (s : Nat) : Nat := (s * 6364136223846793005 + 1442695040888963407) % 2^64

/-- pseudo-random order tree of bounded shape (children beyond `width` inherit) -/
def randTree : Nat → Nat → OTree × Nat
  | 0, s => (.node (if s / 2^33 % 2 = 0 then .xdr else .ndr) [], lcg s)
  | d+1, s =>
    let bo := if s / 2^33 % 2 = 0 then BO.xdr else BO.ndr
    let s := lcg s
    let rec kids : Nat → Nat → List OTree × Nat
      | 0, s => ([], s)
      | k+1, s => let (t, s) := randTree d s; let (ts, s) := kids k s; (t :: ts, s)
    let (ks, s) := kids 4 s
    (.node bo ks, s)

def boOf (s : String) : BO := if s = "X" then .xdr else .ndr

def geomOfToks (t : Tok) : Option (BGeom × Tok) := Proto.pGeom 64 t

def showRes : Except Err BGeom → String
  | .ok g => "ok " ++ Proto.geomStr g
  | .error _ => "err"

def prepLine (line : String) : String :=
  match tokens line with
  | "mix" :: seed :: rest =>
    match geomOfToks rest with
    | some (g, _) =>
      let (t, _) := randTree 5 (lcg (seed.toNat?.getD 0))
      match serializeMixed t g with
      | some bs => s!"mdec {Proto.geomStr g} | {bytesToHex bs}"
      | none => s!"skip unserializable"
    | none => "skip parse-error"
  | _ => line

def geomClass : BGeom → String
  | .point _ => "point" | .multiPoint _ => "multipoint" | .lineString _ => "linestring"
  | .multiLineString _ => "multilinestring" | .polygon _ => "polygon" | .multiPolygon _ => "multipolygon"
  | .collection _ => "collection" | .bounds _ _ => "bounds" | .nil => "nil"

/-- compare an implementation result string with a model/spec result -/
def sameRes (impl : Tok) (m : Except Err BGeom) : Bool :=
  match m, impl with
  | .error _, ["err"] => true
  | .ok g, "ok" :: t => Proto.geomToks g == t
  | _, _ => false

def judgeLine (line : String) : String :=
  let (lhs, rhs) := splitArrow (tokens line)
  match lhs with
  | "enc" :: o :: gt =>
    match geomOfToks gt with
    | none => "BAD parse"
    | some (g, _) =>
      let bo := boOf o
      let cls := "enc-" ++ geomClass g
      let m := encode bo g
      let sp := serialize bo g
      match rhs with
      | ["err"] =>
        if sp.isSome then s!"SPEC {cls} encoder-rejected-encodable-geometry"
        else if m.isOk then s!"DIFF {cls} model-encodes-impl-errs" else s!"OK {cls}-unsupported"
      | ["ok", h] =>
        let hb := hexToBytes ((h.dropEnd 1).toString)
        match sp with
        | none => s!"SPEC {cls} encoder-produced-bytes-for-unsupported-geometry"
        | some bs =>
          if hb != some bs then s!"SPEC {cls} bytes-differ-from-OGC-layout want={bytesToHex bs}"
          else match m with
            | .ok mb => if some mb == hb then s!"OK {cls}" else s!"DIFF {cls} model-bytes-differ"
            | .error _ => s!"DIFF {cls} model-errs-impl-encodes"
      | _ => s!"SPEC {cls} encoder-{" ".intercalate rhs}"
  | "rt" :: _ :: gt =>
    match geomOfToks gt with
    | none => "BAD parse"
    | some (g, _) =>
      let cls := "rt-" ++ geomClass g
      if sameRes rhs (.ok g) then s!"OK {cls}" else s!"SPEC {cls} decode-of-encode-differs got={" ".intercalate rhs}"
  | "hexrt" :: o :: gt =>
    match geomOfToks gt with
    | none => "BAD parse"
    | some (g, _) =>
      let cls := "hexrt-" ++ geomClass g
      match rhs with
      | "hex" :: h :: res =>
        let want := (serialize (boOf o) g).map fun bs => String.ofList (hexEncode bs)
        if some ((h.dropEnd 1).toString) != want then s!"SPEC {cls} hex-text-differs"
        else if sameRes res (.ok g) then s!"OK {cls}" else s!"SPEC {cls} hex-decode-of-encode-differs"
      | _ => s!"SPEC {cls} hex-{" ".intercalate rhs}"
  | "mdec" :: rest =>
    let gt := rest.takeWhile (· ≠ "|")
    let h := (rest.drop (gt.length + 1)).headD ""
    match geomOfToks gt, hexToBytes h with
    | some (g, _), some bs =>
      let cls := "mixed-" ++ geomClass g
      if !sameRes rhs (.ok g) then s!"SPEC {cls} mixed-order-decode-differs got={" ".intercalate rhs}"
      else if sameRes rhs (decode bs) then s!"OK {cls}" else s!"DIFF {cls} model-decode-differs"
    | _, _ => "BAD parse"
  | ["dec", h] =>
    match hexToBytes ((h.drop 1).toString) with
    | some bs =>
      let m := decode bs
      let cls := if m.isOk then "dec-valid" else "dec-malformed"
      if rhs == ["skipped"] then "OK dec-skipped"
      else if sameRes rhs m then s!"OK {cls}"
      else if rhs.head? == some "panic" then s!"SPEC {cls} decoder-panicked"
      else s!"DIFF {cls} model={showRes m} impl={" ".intercalate rhs}"
    | none => "BAD parse"
  | "rdrt" :: kind :: _ :: gt =>
    match geomOfToks gt with
    | none => "BAD parse"
    | some (g, _) =>
      let cls := "read-" ++ kind ++ "-" ++ geomClass g
      if sameRes rhs (.ok g) then s!"OK {cls}" else s!"SPEC {cls} streaming-decode-of-encode-differs got={" ".intercalate (rhs.take 12)}"
  | "rejthen" :: k :: bad :: _ :: gt =>
    match geomOfToks gt, hexToBytes ((bad.drop 1).toString) with
    | some (g, _), some bs =>
      match rhs with
      | "rejected" :: n :: res =>
        let wantRej := if (decode bs).isOk then "0" else k
        if n != wantRej then s!"DIFF rejthen model-and-implementation-disagree-on-the-malformed-input rejected={n}"
        else if sameRes res (.ok g) then "OK rejthen" else s!"SPEC rejthen valid-round-trip-fails-after-{k}-rejected-decodes got={" ".intercalate (res.take 6)}"
      | _ => s!"SPEC rejthen {" ".intercalate (rhs.take 6)}"
    | _, _ => "BAD parse"
  | "encbatch" :: _ :: rest =>
    -- members: | <bo> <geom tokens> ...
    let rec members (t : Tok) (fuel : Nat) : List (BO × BGeom) :=
      match fuel, t with
      | fuel+1, "|" :: o :: gt =>
        match geomOfToks gt with
        | some (g, r) => (boOf o, g) :: members r fuel
        | none => []
      | _, _ => []
    let ms := members rest 64
    match rhs with
    | "late" :: outs =>
      let want : List String := ms.flatMap fun (bo, g) =>
        match serialize bo g with
        | some bs => ["x" ++ bytesToHex bs, "h" ++ String.ofList (hexEncode bs)]
        | none => ["x", "h!"]
      if outs == want then s!"OK encbatch-{ms.length}"
      else s!"SPEC encbatch-{ms.length} a-kept-encoding-differs-from-the-OGC-layout-when-read-after-later-Encode-calls"
    | _ => s!"SPEC encbatch {" ".intercalate rhs}"
  | "alias" :: layout :: o :: gt =>
    -- shared-backing input, encoded twice, compared before/after, overwritten in place, encoded again
    match geomOfToks gt with
    | some (g, "|" :: gt') =>
      match geomOfToks gt' with
      | some (g', _) =>
        let bo := boOf o
        let cls := s!"alias-{layout}-{geomClass g}"
        let hexOf := fun (x : BGeom) => (serialize bo x).map fun bs => (bytesToHex bs, String.ofList (hexEncode bs))
        match rhs, hexOf g, hexOf g' with
        | x1 :: h1 :: twice :: input :: x3 :: h3 :: dec, some (w1, wh1), some (w3, wh3) =>
          if x1 != "x" ++ w1 then s!"SPEC {cls} bytes-differ-from-OGC-layout"
          else if h1 != "h" ++ wh1 then s!"SPEC {cls} hex-text-differs"
          else if twice != "same" then s!"SPEC {cls} same-geometry-encoded-twice-gives-different-bytes"
          else if input != "intact" then s!"SPEC {cls} Encode-changed-its-argument input={input}"
          else if !sameRes dec (.ok g) then s!"SPEC {cls} decoded-value-differs-after-its-input-buffer-was-overwritten"
          else if x3 != "x" ++ w3 then s!"SPEC {cls} encoding-after-in-place-change-of-the-input-is-not-the-OGC-layout-of-the-new-value"
          else if h3 != "h" ++ wh3 then s!"SPEC {cls} hex-text-after-in-place-change-of-the-input-differs"
          else match encode bo g, encode bo g' with
            | .ok m1, .ok m3 =>
              if "x" ++ bytesToHex m1 == x1 && "x" ++ bytesToHex m3 == x3 then s!"OK {cls}" else s!"DIFF {cls} model-bytes-differ"
            | _, _ => s!"DIFF {cls} model-errs-impl-encodes"
        | _, none, _ => s!"OK skipped"
        | _, _, _ => s!"SPEC {cls} {" ".intercalate (rhs.take 4)}"
      | none => "BAD parse"
    | _ => "BAD parse"
  | "skip" :: _ => "OK skipped"
  | _ => "BAD line"

end GeomV.C05

open GeomV GeomV.C05 in
def main (args : List String) : IO Unit := do
  let out ← IO.getStdout
  match args with
  | ["prep"] => forEachLine fun l => out.putStrLn (prepLine l)
  | ["judge"] => forEachLine fun l => out.putStrLn (judgeLine l)
  | _ => IO.eprintln "usage: geomv_c05 prep|judge"
