import GeomV.C05.StreamLemmas
/-!
# C05 — `io.ReadFull` over a scripted reader is ADDITIVE

Reading `a + b` bytes in one `io.ReadFull` and reading `a` bytes and then `b` bytes in two leave the SAME reader
(not only readers that deliver the same bytes) and collect the same bytes; so the state of a scripted reader after
any sequence of successful `io.ReadFull` calls is a function of the reader it started from and of the NUMBER of
bytes consumed (`Reach`, `reach_unique`).
-/
set_option linter.unusedSimpArgs false
set_option linter.unusedVariables false
namespace GeomV.C05.Stream
open GeomV GeomV.C05

/-- the bytes already collected do not influence what `io.ReadFull` does to the reader -/
theorem fill_acc (s : Script) : ∀ (k : Nat) (acc : Bytes),
    fill s k acc = match fill s k [] with
      | .ok (x, s') => .ok (acc ++ x, s')
      | .error e => .error e := by
  induction s with
  | nil => intro k acc; cases k <;> simp [fill]
  | cons ev s ih =>
    intro k acc
    cases k with
    | zero => simp [fill]
    | succ k =>
      cases ev with
      | data c =>
        simp only [fill, List.nil_append]
        by_cases h1 : c.length < k + 1
        · simp only [h1, if_true]
          rw [ih (k + 1 - c.length) (acc ++ c), ih (k + 1 - c.length) c]
          cases fill s (k + 1 - c.length) [] with
          | ok p => simp [List.append_assoc]
          | error e => rfl
        · by_cases h2 : c.length = k + 1 <;> simp [h1, h2]
      | dataErr c e =>
        simp only [fill, List.nil_append]
        by_cases h1 : c.length < k + 1
        · simp [h1]
        · by_cases h2 : c.length = k + 1 <;> simp [h1, h2]
      | fail e => simp [fill]

/-- **additivity of `io.ReadFull`**: one call for `a + b` bytes = a call for `a` bytes followed by a call for `b`
bytes — same bytes, same reader afterwards, same error -/
theorem fill_add (s : Script) : ∀ (a b : Nat) (acc : Bytes),
    fill s (a + b) acc = match fill s a acc with
      | .ok (x, s₁) => fill s₁ b x
      | .error e => .error e := by
  induction s with
  | nil =>
    intro a b acc
    cases a with
    | zero => simp [fill]
    | succ a => simp [fill, Nat.succ_add]
  | cons ev s ih =>
    intro a b acc
    cases a with
    | zero => simp [fill]
    | succ a =>
      cases b with
      | zero => simp only [Nat.add_zero]; cases fill (ev :: s) (a + 1) acc with
        | ok p => simp [fill]
        | error e => rfl
      | succ b =>
        have hab : a + 1 + (b + 1) = (a + b + 1) + 1 := by omega
        rw [hab]
        cases ev with
        | data c =>
          simp only [fill]
          by_cases h1 : c.length < a + 1
          · have h1' : c.length < a + b + 1 + 1 := by omega
            simp only [h1, h1', if_true]
            have : a + b + 1 + 1 - c.length = (a + 1 - c.length) + (b + 1) := by omega
            rw [this, ih]
          · by_cases h2 : c.length = a + 1
            · have h1' : c.length < a + b + 1 + 1 := by omega
              simp only [h1, h1', if_true, if_false, if_pos h2]
              have : a + b + 1 + 1 - c.length = b + 1 := by omega
              rw [this]
            · simp only [h1, h2, if_false, fill, List.length_drop]
              by_cases h3 : c.length < a + b + 1 + 1
              · have h3' : c.length - (a + 1) < b + 1 := by omega
                simp only [h3, h3', if_true, List.append_assoc, List.take_append_drop]
                have : a + b + 1 + 1 - c.length = b + 1 - (c.length - (a + 1)) := by omega
                rw [this]
              · have h3' : ¬ c.length - (a + 1) < b + 1 := by omega
                by_cases h4 : c.length = a + b + 1 + 1
                · have h4' : c.length - (a + 1) = b + 1 := by omega
                  simp only [h3, h3', if_pos h4, if_pos h4', if_true, if_false, List.append_assoc, List.take_append_drop]
                · have h4' : ¬ c.length - (a + 1) = b + 1 := by omega
                  simp only [h3, h3', h4, h4', if_false, List.append_assoc, List.drop_drop]
                  have e1 : List.take (a + 1) c ++ List.take (b + 1) (List.drop (a + 1) c) = List.take (a + b + 1 + 1) c := by
                    rw [show a + b + 1 + 1 = (a + 1) + (b + 1) by omega]
                    exact (List.take_add (l := c) (i := a + 1) (j := b + 1)).symm
                  have e2 : a + 1 + (b + 1) = a + b + 1 + 1 := by omega
                  simp [e1, e2]
        | dataErr c e =>
          simp only [fill]
          by_cases h1 : c.length < a + 1
          · have h1' : c.length < a + b + 1 + 1 := by omega
            simp [h1, h1']
          · by_cases h2 : c.length = a + 1
            · have h1' : c.length < a + b + 1 + 1 := by omega
              simp only [h1, h1', if_true, if_false, if_pos h2, fill]
            · simp only [h1, h2, if_false, fill, List.length_drop]
              by_cases h3 : c.length < a + b + 1 + 1
              · have h3' : c.length - (a + 1) < b + 1 := by omega
                simp [h3, h3']
              · have h3' : ¬ c.length - (a + 1) < b + 1 := by omega
                by_cases h4 : c.length = a + b + 1 + 1
                · have h4' : c.length - (a + 1) = b + 1 := by omega
                  simp only [h3, h3', if_pos h4, if_pos h4', if_true, if_false, List.append_assoc, List.take_append_drop]
                · have h4' : ¬ c.length - (a + 1) = b + 1 := by omega
                  simp only [h3, h3', h4, h4', if_false, List.append_assoc, List.drop_drop]
                  have e1 : List.take (a + 1) c ++ List.take (b + 1) (List.drop (a + 1) c) = List.take (a + b + 1 + 1) c := by
                    rw [show a + b + 1 + 1 = (a + 1) + (b + 1) by omega]
                    exact (List.take_add (l := c) (i := a + 1) (j := b + 1)).symm
                  have e2 : a + 1 + (b + 1) = a + b + 1 + 1 := by omega
                  simp [e1, e2]
        | fail e => simp [fill]

/-- `s` is what is left of the reader `s₀` after successful `io.ReadFull` calls for `n` bytes in total -/
def Reach (s₀ s : Script) : Prop := ∃ n b, fill s₀ n [] = .ok (b, s)

theorem reach_refl (s : Script) : Reach s s := ⟨0, [], by cases s <;> rfl⟩

/-- one more successful `io.ReadFull` -/
theorem reach_step {s₀ s s' : Script} {k : Nat} {b : Bytes} (h : Reach s₀ s) (hf : fill s k [] = .ok (b, s')) :
    Reach s₀ s' := by
  obtain ⟨n, b₀, hn⟩ := h
  refine ⟨n + k, b₀ ++ b, ?_⟩
  rw [fill_add, hn]
  simp only
  rw [fill_acc, hf]

/-- the reader left behind is determined by the number of bytes it can still deliver -/
theorem reach_unique {s₀ s₁ s₂ : Script} (h₁ : Reach s₀ s₁) (h₂ : Reach s₀ s₂)
    (hl : (avail s₁).length = (avail s₂).length) : s₁ = s₂ := by
  obtain ⟨n₁, b₁, e₁⟩ := h₁
  obtain ⟨n₂, b₂, e₂⟩ := h₂
  have key : ∀ n b s, fill s₀ n [] = .ok (b, s) → n ≤ (avail s₀).length ∧ (avail s).length = (avail s₀).length - n := by
    intro n b s e
    obtain ⟨he, ho⟩ := fill_spec s₀ n []
    by_cases hlt : (avail s₀).length < n
    · rw [he hlt] at e; cases e
    · obtain ⟨s', h1, h2, _⟩ := ho (by omega)
      rw [h1] at e
      cases e
      exact ⟨by omega, by rw [h2, List.length_drop]⟩
  obtain ⟨l₁, a₁⟩ := key _ _ _ e₁
  obtain ⟨l₂, a₂⟩ := key _ _ _ e₂
  have : n₁ = n₂ := by omega
  subst this
  rw [e₁] at e₂
  cases e₂
  rfl

/-- **C05_readfull_additive.**  For every scripted reader and all `a`, `b`: `io.ReadFull` of `a + b` bytes = `io.ReadFull`
of `a` bytes followed by `io.ReadFull` of `b` bytes — the same bytes, the same error, and the SAME reader state
afterwards (so it does not matter whether `encoding/binary.Read` fetches a `geom.Point` as 16 bytes or as 8 + 8, a
chunk of points at once or point by point). -/
theorem C05_readfull_additive (s : Script) (a b : Nat) :
    scriptSrc.take (a + b) s = match scriptSrc.take a s with
      | .ok (x, s₁) => (match scriptSrc.take b s₁ with
        | .ok (y, s₂) => .ok (x ++ y, s₂)
        | .error e => .error e)
      | .error e => .error e := by
  simp only [scriptSrc]
  rw [fill_add]
  cases fill s a [] with
  | ok p => obtain ⟨x, s₁⟩ := p; simp only; rw [fill_acc]
  | error e => rfl

/-- **C05_reader_state_unique.**  Two readers reached from the same reader by successful `io.ReadFull` calls (any
number of calls, any sizes) that can still deliver the same number of bytes are the same reader. -/
theorem C05_reader_state_unique {s₀ s₁ s₂ : Script} (h₁ : Reach s₀ s₁) (h₂ : Reach s₀ s₂)
    (hl : (avail s₁).length = (avail s₂).length) : s₁ = s₂ := reach_unique h₁ h₂ hl

/-- non-vacuity: a script with an empty read, a cut inside the first request and an error delivered with data -/
example : scriptSrc.take (2 + 3) [.data [1], .data [], .data [2, 3, 4], .dataErr [5, 6] (.other 7)] =
    .ok ([1, 2, 3, 4, 5], [.dataErr [6] (.other 7)]) := by rfl
example : scriptSrc.take 2 [.data [1], .data [], .data [2, 3, 4], .dataErr [5, 6] (.other 7)] =
    .ok ([1, 2], [.data [3, 4], .dataErr [5, 6] (.other 7)]) := by rfl
example : Reach [.data [1], .data [2, 3]] [.data [3]] := ⟨2, [1, 2], by rfl⟩

end GeomV.C05.Stream
