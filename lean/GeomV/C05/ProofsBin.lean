import GeomV.C05.BinStd
import GeomV.C05.Lemmas
/-!
# C05 — the transcribed `encoding/binary` primitives (BinStd.lean) are GenLib's
-/
set_option linter.unusedSimpArgs false
namespace GeomV.C05.BinStd
open GeomV GeomV.C05

theorem or_shift (a b i : Nat) (h : b < 2^i) : b ||| a <<< i = a * 2^i + b := by
  rw [Nat.or_comm, ← Nat.shiftLeft_add_eq_or_of_lt h, Nat.shiftLeft_eq]

theorem leUint32_eq (b0 b1 b2 b3 : UInt8) : leUint32 [b0, b1, b2, b3] = leVal [b0, b1, b2, b3] := by
  have h0 := b0.toNat_lt; have h1 := b1.toNat_lt; have h2 := b2.toNat_lt; have h3 := b3.toNat_lt
  simp only [leUint32, leVal]
  rw [or_shift _ _ 8 (by omega), or_shift _ _ 16 (by omega), or_shift _ _ 24 (by omega)]
  omega

theorem beUint32_eq (b0 b1 b2 b3 : UInt8) : beUint32 [b0, b1, b2, b3] = leVal [b3, b2, b1, b0] := by
  have h0 := b0.toNat_lt; have h1 := b1.toNat_lt; have h2 := b2.toNat_lt; have h3 := b3.toNat_lt
  simp only [beUint32, leVal]
  rw [or_shift _ _ 8 (by omega), or_shift _ _ 16 (by omega), or_shift _ _ 24 (by omega)]
  omega

theorem leUint64_eq (b0 b1 b2 b3 b4 b5 b6 b7 : UInt8) :
    leUint64 [b0, b1, b2, b3, b4, b5, b6, b7] = leVal [b0, b1, b2, b3, b4, b5, b6, b7] := by
  have h0 := b0.toNat_lt; have h1 := b1.toNat_lt; have h2 := b2.toNat_lt; have h3 := b3.toNat_lt
  have h4 := b4.toNat_lt; have h5 := b5.toNat_lt; have h6 := b6.toNat_lt; have h7 := b7.toNat_lt
  simp only [leUint64, leVal]
  rw [or_shift _ _ 8 (by omega), or_shift _ _ 16 (by omega), or_shift _ _ 24 (by omega), or_shift _ _ 32 (by omega),
    or_shift _ _ 40 (by omega), or_shift _ _ 48 (by omega), or_shift _ _ 56 (by omega)]
  omega

theorem beUint64_eq (b0 b1 b2 b3 b4 b5 b6 b7 : UInt8) :
    beUint64 [b0, b1, b2, b3, b4, b5, b6, b7] = leVal [b7, b6, b5, b4, b3, b2, b1, b0] := by
  have h0 := b0.toNat_lt; have h1 := b1.toNat_lt; have h2 := b2.toNat_lt; have h3 := b3.toNat_lt
  have h4 := b4.toNat_lt; have h5 := b5.toNat_lt; have h6 := b6.toNat_lt; have h7 := b7.toNat_lt
  simp only [beUint64, leVal]
  rw [or_shift _ _ 8 (by omega), or_shift _ _ 16 (by omega), or_shift _ _ 24 (by omega), or_shift _ _ 32 (by omega),
    or_shift _ _ 40 (by omega), or_shift _ _ 48 (by omega), or_shift _ _ 56 (by omega)]
  omega

theorem byte_congr (a b : Nat) (h : a % 256 = b % 256) : byte a = byte b := by
  apply UInt8.toNat_inj.mp
  simp [byte, UInt8.toNat_ofNat', h]

theorem lePutUint32_eq (v : Nat) : lePutUint32 v = leBytes 4 (v % 2^32) := by
  simp only [lePutUint32, leBytes, Nat.shiftRight_eq_div_pow]
  congr 1
  · exact byte_congr _ _ (by omega)
  congr 1
  · exact byte_congr _ _ (by omega)
  congr 1
  · exact byte_congr _ _ (by omega)
  congr 1
  · exact byte_congr _ _ (by omega)

theorem bePutUint32_eq (v : Nat) : bePutUint32 v = (leBytes 4 (v % 2^32)).reverse := by
  rw [← lePutUint32_eq]; simp [bePutUint32, lePutUint32]

theorem lePutUint64_eq (v : Nat) : lePutUint64 v = leBytes 8 (v % 2^64) := by
  simp only [lePutUint64, leBytes, Nat.shiftRight_eq_div_pow]
  congr 1
  · exact byte_congr _ _ (by omega)
  congr 1
  · exact byte_congr _ _ (by omega)
  congr 1
  · exact byte_congr _ _ (by omega)
  congr 1
  · exact byte_congr _ _ (by omega)
  congr 1
  · exact byte_congr _ _ (by omega)
  congr 1
  · exact byte_congr _ _ (by omega)
  congr 1
  · exact byte_congr _ _ (by omega)
  congr 1
  · exact byte_congr _ _ (by omega)

theorem bePutUint64_eq (v : Nat) : bePutUint64 v = (leBytes 8 (v % 2^64)).reverse := by
  rw [← lePutUint64_eq]; simp [bePutUint64, lePutUint64]

/-- **C05_bin_uint32.** `order.Uint32` of the standard library (shifts and ors) is the model's positional value. -/
theorem C05_bin_uint32 (bo : BO) (b : Bytes) (h : b.length = 4) : orderUint32 bo b = valBytes bo b := by
  rcases b with _ | ⟨b0, _ | ⟨b1, _ | ⟨b2, _ | ⟨b3, _ | ⟨b4, t⟩⟩⟩⟩⟩ <;> simp at h
  cases bo
  · simp [orderUint32, valBytes, beUint32_eq]
  · simp [orderUint32, valBytes, leUint32_eq]

/-- **C05_bin_uint64.** The same for `order.Uint64`. -/
theorem C05_bin_uint64 (bo : BO) (b : Bytes) (h : b.length = 8) : orderUint64 bo b = valBytes bo b := by
  rcases b with _ | ⟨b0, _ | ⟨b1, _ | ⟨b2, _ | ⟨b3, _ | ⟨b4, _ | ⟨b5, _ | ⟨b6, _ | ⟨b7, _ | ⟨b8, t⟩⟩⟩⟩⟩⟩⟩⟩⟩ <;> simp at h
  cases bo
  · simp [orderUint64, valBytes, beUint64_eq]
  · simp [orderUint64, valBytes, leUint64_eq]

/-- **C05_bin_put.** `order.PutUint32/PutUint64` (`byte(v >> k)`) are the model's `u32`/`u64`. -/
theorem C05_bin_put (bo : BO) (v : Nat) (u : UInt64) :
    orderPutUint32 bo v = u32 bo v ∧ orderPutUint64 bo u.toNat = u64 bo u := by
  have hu : u.toNat % 2^64 = u.toNat := Nat.mod_eq_of_lt u.toNat_lt
  cases bo <;> simp [orderPutUint32, orderPutUint64, u32, u64, natBytes, lePutUint32_eq, bePutUint32_eq,
    lePutUint64_eq, bePutUint64_eq, hu]

/-- **C05_bin_readU32.** `binary.Read` of a `uint32` as the standard library does it = GenLib's `binReadU32`. -/
theorem C05_bin_readU32 (bo : BO) (bs : Bytes) : readU32 bo bs = binReadU32 bo bs := by
  simp only [readU32, binReadU32, C05.readU32, readNat, takeN, bind, Except.bind, pure, Except.pure]
  by_cases h : bs.length < 4
  · simp [h]
  · simp only [h, if_false]
    rw [C05_bin_uint32 bo (bs.take 4) (by simp; omega)]

/-- **C05_bin_readPoint.** `binary.Read` of a `geom.Point` — ONE `io.ReadFull` of `dataSize` = 16 bytes, then the
struct walk X, Y with `math.Float64frombits(order.Uint64(…))` — is GenLib's `binReadPoint` (two 8-byte reads). -/
theorem C05_bin_readPoint (bo : BO) (bs : Bytes) : readPoint bo bs = binReadPoint bo bs := by
  simp only [readPoint, binReadPoint, C05.readPoint, readU64, readNat, takeN, bind, Except.bind, pure, Except.pure]
  by_cases h16 : bs.length < 16
  · by_cases h8 : bs.length < 8
    · simp [h16, h8]
    · have : bs.length - 8 < 8 := by omega
      simp [h16, h8, this]
  · have h8 : ¬ bs.length < 8 := by omega
    have h8' : ¬ (bs.drop 8).length < 8 := by simp; omega
    simp only [h16, h8, h8', if_false, decPoint]
    have e1 : (bs.take 16).take 8 = bs.take 8 := by simp [List.take_take]
    have e2 : ((bs.take 16).drop 8).take 8 = (bs.drop 8).take 8 := by
      rw [List.drop_take]; simp [List.take_take]
    rw [e1, e2, C05_bin_uint64 bo (bs.take 8) (by simp; omega),
      C05_bin_uint64 bo ((bs.drop 8).take 8) (by simp; omega)]
    simp [List.drop_drop]

/-- **C05_bin_write.** `binary.Write` of a `uint32` / a `geom.Point` = the model's bytes. -/
theorem C05_bin_write (bo : BO) (v : Nat) (p : Pt UInt64) :
    writeU32 bo v = u32 bo v ∧ writePoint bo p = C05.writePoint bo p := by
  refine ⟨(C05_bin_put bo v 0).1, ?_⟩
  simp [writePoint, encPoint, C05.writePoint, (C05_bin_put bo 0 p.x).2, (C05_bin_put bo 0 p.y).2]

/-! ### the slice walk: `ps []geom.Point` -/

/-- `n` successive model `readPoint`s (each its own short-read test) = ONE length test against `16·n`, then the
slice walk `decPoints` over the first `16·n` bytes. -/
theorem readMany_point_eq (bo : BO) : ∀ (n : Nat) (bs : Bytes),
    readMany (C05.readPoint bo) n bs =
      if bs.length < 16 * n then .error .eof
      else .ok (decPoints bo n (bs.take (16 * n)), bs.drop (16 * n)) := by
  intro n
  induction n with
  | zero => intro bs; simp [readMany, decPoints]
  | succ n ih =>
    intro bs
    have hp : C05.readPoint bo bs = readPoint bo bs := by rw [C05_bin_readPoint]; rfl
    simp only [readMany, hp, readPoint, takeN, bind, Except.bind, pure, Except.pure]
    by_cases h16 : bs.length < 16
    · have h : bs.length < 16 * (n + 1) := by omega
      simp [h16, h]
    · simp only [h16, if_false, ih]
      by_cases hn : bs.length < 16 * (n + 1)
      · have h : (bs.drop 16).length < 16 * n := by simp; omega
        simp only [hn, h, if_true]
      · have h : ¬ (bs.drop 16).length < 16 * n := by simp; omega
        simp only [hn, h, if_false, decPoints]
        have e1 : (bs.take (16 * (n + 1))).take 16 = bs.take 16 := by
          rw [List.take_take, Nat.min_eq_left (by omega)]
        have e2 : (bs.take (16 * (n + 1))).drop 16 = (bs.drop 16).take (16 * n) := by
          rw [List.drop_take, show 16 * (n + 1) - 16 = 16 * n by omega]
        have e3 : (bs.drop 16).drop (16 * n) = bs.drop (16 * (n + 1)) := by
          rw [List.drop_drop, show 16 + 16 * n = 16 * (n + 1) by omega]
        rw [e1, e2, e3]

/-- **C05_bin_readPoints.** `binary.Read(r, order, &ps)` with `ps []geom.Point` as the standard library does it — ONE
`io.ReadFull` of `dataSize` = 16·len(ps) bytes (so a short read fails as a whole, whatever the element it falls in),
then `decoder.value`'s slice walk, 16 bytes of that one buffer per element in order — is GenLib's `binReadPoints`
(`len(ps)` successive model `readPoint`s, each with its own short-read test). -/
theorem C05_bin_readPoints (bo : BO) (dst : List (Pt UInt64)) (bs : Bytes) :
    readPoints bo dst.length bs = binReadPoints bo dst bs := by
  simp only [readPoints, binReadPoints, readMany_point_eq, takeN, bind, Except.bind, pure, Except.pure]
  by_cases h : bs.length < 16 * dst.length <;> simp [h]

/-- `encoder.value`'s slice walk is the model's `flatMap` of `writePoint`. -/
theorem encPoints_eq (bo : BO) (ps : List (Pt UInt64)) : encPoints bo ps = ps.flatMap (C05.writePoint bo) := by
  induction ps with
  | nil => simp [encPoints]
  | cons p ps ih =>
    have hp : encPoint bo p = C05.writePoint bo p := (C05_bin_write bo 0 p).2
    simp [encPoints, ih, hp]

/-- **C05_bin_writePoints.** `binary.Write(w, order, &ps)` with `ps []geom.Point` — `encoder.value`'s slice walk into
ONE buffer of `dataSize` bytes, ONE `w.Write(buf)` — = the model's bytes, and GenLib's `binWritePoints` appends
exactly them. -/
theorem C05_bin_writePoints (bo : BO) (ps : List (Pt UInt64)) (w : Bytes) :
    writePoints bo ps = ps.flatMap (C05.writePoint bo) ∧ binWritePoints w bo ps = .ok (w ++ writePoints bo ps) := by
  have h : writePoints bo ps = ps.flatMap (C05.writePoint bo) := encPoints_eq bo ps
  exact ⟨h, by rw [h]; rfl⟩

/-- two points, both byte orders: the slice walk reads back what it wrote, and leaves the rest of the stream -/
example :
    (readPoints .ndr 2 (writePoints .ndr [⟨1, 0x4000000000000000⟩, ⟨0x3FF0000000000000, 2⟩] ++ [7])).toOption =
        some ([⟨1, 0x4000000000000000⟩, ⟨0x3FF0000000000000, 2⟩], [7]) ∧
      (readPoints .xdr 2 (writePoints .xdr [⟨1, 0x4000000000000000⟩, ⟨0x3FF0000000000000, 2⟩] ++ [7])).toOption =
        some ([⟨1, 0x4000000000000000⟩, ⟨0x3FF0000000000000, 2⟩], [7]) ∧
      writePoints .ndr [⟨1, 0x4000000000000000⟩, ⟨0x3FF0000000000000, 2⟩] =
        [1, 0, 0, 0, 0, 0, 0, 0, 0, 0, 0, 0, 0, 0, 0, 0x40, 0, 0, 0, 0, 0, 0, 0xF0, 0x3F, 2, 0, 0, 0, 0, 0, 0, 0] ∧
      writePoints .xdr [⟨1, 0x4000000000000000⟩, ⟨0x3FF0000000000000, 2⟩] =
        [0, 0, 0, 0, 0, 0, 0, 1, 0x40, 0, 0, 0, 0, 0, 0, 0, 0x3F, 0xF0, 0, 0, 0, 0, 0, 0, 0, 0, 0, 0, 0, 0, 0, 2] := by
  decide +kernel

/-- one byte short of the second point: the whole `binary.Read` fails (`io.ErrUnexpectedEOF`, the model's `eof`),
in both byte orders -/
example :
    readPoints .ndr 2 ((writePoints .ndr [⟨1, 0x4000000000000000⟩, ⟨0x3FF0000000000000, 2⟩]).take 31) = .error .eof ∧
      readPoints .xdr 2 ((writePoints .xdr [⟨1, 0x4000000000000000⟩, ⟨0x3FF0000000000000, 2⟩]).take 31) =
        .error .eof :=
  ⟨rfl, rfl⟩

end GeomV.C05.BinStd
