import GeomV.C05.Tie
import GeomV.C05.ProofsStream
import GeomV.C05.ProofsCount
/-!
# C05 — the streaming theorems restated for the definitions regenerated from the Go source

`Gen.read` is `wkb.Read` as the source says now, on "the bytes still to be read" (GenLib's reading of an
`io.Reader`).  `C05_stream_model_src` removes that reading from the trusted base for every scripted reader:
`wkb.Read` behind ANY script of `Read` calls (`Stream.readS scriptSrc`, whose only access to the reader is
`io.ReadFull`, as `encoding/binary.Read`'s is) gives what `Gen.read` gives on the bytes the script delivers
before its first error, and where `Gen.read` runs out of input, the reader's own first error.
-/
namespace GeomV.C05
open GeomV GeomV.C05.Ogc GeomV.C05.Stream

/-- **C05_stream_model_src** -/
theorem C05_stream_model_src (fuel : Nat) : Transfers (readS scriptSrc fuel) (Gen.read fuel) := by
  rw [tie_read]; exact C05_stream_model fuel

/-- **C05_truncated_src**: no proper prefix of an encoding decodes, for `wkb.Read` as regenerated. -/
theorem C05_truncated_src (fuel : Nat) (t : OTree) (g : BGeom) (p q : Bytes)
    (he : Encodable g) (hf : g.depth + 1 < fuel) (hs : serializeMixed t g = some (p ++ q)) (hq : q ≠ []) :
    Gen.read fuel p = .error .eof := by
  rw [tie_read]; exact C05_truncated fuel t g p q he hf hs hq

/-- **C05_roundtrip_iff_src**: `wkb.Decode (wkb.Encode g) = g`, for the two functions as the source defines them
now, holds exactly for the `Encodable` values. -/
theorem C05_roundtrip_iff_src (bo : BO) (g : BGeom) :
    (∃ bs, Gen.encode g bo = .ok bs ∧ Gen.decode bs = .ok g) ↔ Encodable g := by
  simpa only [tie_encode, tie_decode] using C05_roundtrip_iff bo g

/-- **C05_decoded_encodable_src**: every value `wkb.Read` (as regenerated) returns is `Encodable`. -/
theorem C05_decoded_encodable_src (fuel : Nat) (bs r : Bytes) (g : BGeom)
    (h : Gen.read fuel bs = .ok (g, r)) : Encodable g := by
  rw [tie_read] at h; exact C05_decoded_encodable fuel bs r g h

end GeomV.C05
