import GeomV.Common.Geom
/-!
# C05 model: encoding/wkb (Write/Encode, Read/Decode) and encoding/hex

Bytes are `List UInt8`; a coordinate is its 64-bit pattern (Go's binary.Read/Write on a float64
is Float64bits/Float64frombits plus byte order, so NaN payloads and signed zeros are just bits).
The functions follow the Go source function by function:
`Write` = header (flag, type code) + body, nested elements written by recursive `Write` with the
caller's byte order; `Read` = flag, type code in that order, dispatch to one of seven readers, each
nested element re-reading its own flag.  Core Lean only.
-/
namespace GeomV.C05

inductive BO | xdr | ndr
deriving DecidableEq, Repr, Inhabited

abbrev Bytes := List UInt8

/-- little-endian digits of `n`, `k` bytes -/
def leBytes : Nat → Nat → Bytes
  | 0, _ => []
  | k+1, n => UInt8.ofNat (n % 256) :: leBytes k (n / 256)

def natBytes (bo : BO) (k n : Nat) : Bytes :=
  match bo with
  | .ndr => leBytes k n
  | .xdr => (leBytes k n).reverse

/-- value of little-endian digits -/
def leVal : Bytes → Nat
  | [] => 0
  | b :: bs => b.toNat + 256 * leVal bs

def valBytes (bo : BO) (bs : Bytes) : Nat :=
  match bo with
  | .ndr => leVal bs
  | .xdr => leVal bs.reverse

inductive Err
  | eof            -- io.EOF / io.ErrUnexpectedEOF from binary.Read
  | badOrder       -- "invalid byte order"
  | badType        -- "unsupported geometry type"
  | unexpected     -- UnexpectedGeometryError (member of a Multi* has the wrong type)
  | unsupported    -- UnsupportedGeometryError from Write
  | fuel           -- model artefact: recursion budget exhausted (never for fuel > input length)
deriving DecidableEq, Repr, Inhabited

/-- binary.Read of `k` bytes -/
def takeN (k : Nat) (bs : Bytes) : Except Err (Bytes × Bytes) :=
  if bs.length < k then .error .eof else .ok (bs.take k, bs.drop k)

def readNat (bo : BO) (k : Nat) (bs : Bytes) : Except Err (Nat × Bytes) := do
  let (h, t) ← takeN k bs
  pure (valBytes bo h, t)

def readU32 (bo : BO) := readNat bo 4
def readU64 (bo : BO) (bs : Bytes) : Except Err (UInt64 × Bytes) := do
  let (n, t) ← readNat bo 8 bs
  pure (UInt64.ofNat n, t)

def u32 (bo : BO) (n : Nat) : Bytes := natBytes bo 4 (n % 2^32)   -- uint32(len(x)) truncates
def u64 (bo : BO) (u : UInt64) : Bytes := natBytes bo 8 u.toNat

/-! ### Writers -/

def flag : BO → UInt8 | .xdr => 0 | .ndr => 1

def writePoint (bo : BO) (p : Pt UInt64) : Bytes := u64 bo p.x ++ u64 bo p.y
def writePoints (bo : BO) (ps : List (Pt UInt64)) : Bytes :=
  u32 bo ps.length ++ ps.flatMap (writePoint bo)
def writePointss (bo : BO) (pss : List (List (Pt UInt64))) : Bytes :=
  u32 bo pss.length ++ pss.flatMap (writePoints bo)

def header (bo : BO) (code : Nat) : Bytes := flag bo :: u32 bo code

mutual
/-- `wkb.Write` -/
def write (bo : BO) : BGeom → Except Err Bytes
  | .point p => .ok (header bo 1 ++ writePoint bo p)
  | .lineString ps => .ok (header bo 2 ++ writePoints bo ps)
  | .polygon rs => .ok (header bo 3 ++ writePointss bo rs)
  | .multiPoint ps =>
      .ok (header bo 4 ++ u32 bo ps.length ++ ps.flatMap fun p => header bo 1 ++ writePoint bo p)
  | .multiLineString ls =>
      .ok (header bo 5 ++ u32 bo ls.length ++ ls.flatMap fun l => header bo 2 ++ writePoints bo l)
  | .multiPolygon ps =>
      .ok (header bo 6 ++ u32 bo ps.length ++ ps.flatMap fun p => header bo 3 ++ writePointss bo p)
  | .collection gs => do
      let body ← writeList bo gs
      pure (header bo 7 ++ u32 bo (Proto.listLen gs) ++ body)
  | .bounds _ _ => .error .unsupported
  | .nil => .error .unsupported
def writeList (bo : BO) : List BGeom → Except Err Bytes
  | [] => .ok []
  | g :: gs => do
      let a ← write bo g
      let b ← writeList bo gs
      pure (a ++ b)
end

/-! ### Readers -/

def readMany {β : Type} (rd : Bytes → Except Err (β × Bytes)) : Nat → Bytes → Except Err (List β × Bytes)
  | 0, bs => .ok ([], bs)
  | n+1, bs => do
      let (a, bs) ← rd bs
      let (as, bs) ← readMany rd n bs
      pure (a :: as, bs)

def readPoint (bo : BO) (bs : Bytes) : Except Err (Pt UInt64 × Bytes) := do
  let (x, bs) ← readU64 bo bs
  let (y, bs) ← readU64 bo bs
  pure (⟨x, y⟩, bs)

/-- `readPoints`: count, then `count` points (binary.Read of a slice fails as a whole on a short read) -/
def readPoints (bo : BO) (bs : Bytes) : Except Err (List (Pt UInt64) × Bytes) := do
  let (n, bs) ← readU32 bo bs
  readMany (readPoint bo) n bs

def asPoint : BGeom → Except Err (Pt UInt64) | .point p => .ok p | _ => .error .unexpected
def asLine : BGeom → Except Err (List (Pt UInt64)) | .lineString p => .ok p | _ => .error .unexpected
def asPoly : BGeom → Except Err (List (List (Pt UInt64))) | .polygon p => .ok p | _ => .error .unexpected

/-- read one element with `rd`, then apply the Go type assertion `cast` -/
def readAs {β : Type} (rd : Bytes → Except Err (BGeom × Bytes)) (cast : BGeom → Except Err β)
    (bs : Bytes) : Except Err (β × Bytes) := do
  let (g, bs) ← rd bs
  let v ← cast g
  pure (v, bs)

/-- `wkb.Read`. `fuel` bounds the recursion Read → reader → Read. -/
def read : Nat → Bytes → Except Err (BGeom × Bytes)
  | 0, _ => .error .fuel
  | fuel+1, bs => do
    let (fl, bs) ← takeN 1 bs
    let bo ← (match fl with
      | [b] => if b = 0 then .ok BO.xdr else if b = 1 then .ok BO.ndr else .error .badOrder
      | _ => .error .eof : Except Err BO)
    let (code, bs) ← readU32 bo bs
    if code = 1 then do
      let (p, bs) ← readPoint bo bs; pure (.point p, bs)
    else if code = 2 then do
      let (p, bs) ← readPoints bo bs; pure (.lineString p, bs)
    else if code = 3 then do
      let (n, bs) ← readU32 bo bs
      let (r, bs) ← readMany (readPoints bo) n bs; pure (.polygon r, bs)
    else if code = 4 then do
      let (n, bs) ← readU32 bo bs
      let (r, bs) ← readMany (readAs (read fuel) asPoint) n bs; pure (.multiPoint r, bs)
    else if code = 5 then do
      let (n, bs) ← readU32 bo bs
      let (r, bs) ← readMany (readAs (read fuel) asLine) n bs; pure (.multiLineString r, bs)
    else if code = 6 then do
      let (n, bs) ← readU32 bo bs
      let (r, bs) ← readMany (readAs (read fuel) asPoly) n bs; pure (.multiPolygon r, bs)
    else if code = 7 then do
      let (n, bs) ← readU32 bo bs
      let (r, bs) ← readMany (read fuel) n bs; pure (.collection r, bs)
    else .error .badType

/-- `wkb.Decode`: trailing bytes are ignored by the Go code as well. -/
def decode (bs : Bytes) : Except Err BGeom := (read (bs.length + 1) bs).map (·.1)

def encode (bo : BO) (g : BGeom) : Except Err Bytes := write bo g

/-! ### hex codec (encoding/hex of the Go standard library: lower case, two digits per byte) -/

def hexEncode (bs : Bytes) : List Char :=
  bs.flatMap fun b => [hexDigitChar (b.toNat / 16), hexDigitChar (b.toNat % 16)]

def hexDecode : List Char → Option Bytes
  | [] => some []
  | [_] => none
  | a :: b :: r => do
    let x ← hexDigitVal a; let y ← hexDigitVal b; let t ← hexDecode r
    pure (UInt8.ofNat (x * 16 + y) :: t)

end GeomV.C05
