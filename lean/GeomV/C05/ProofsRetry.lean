import GeomV.C05.ProofsStream
import GeomV.C05.Retry
/-!
# C05 — `wkb.Read` called again after its reader failed

See `Retry.lean` for the reader after a failed `io.ReadFull` (`afterErr`, `C05_failed_read_state`).
-/
namespace GeomV.C05.Stream
open GeomV GeomV.C05 GeomV.C05.Ogc

/-- **C05_retry.**  A reader that fails (with `io.EOF` or an error of its own, after any short reads) before or
inside the encoding of some value — `p` is what it had delivered of it, possibly nothing — and then goes on to
deliver a complete serialization `enc` of `g` (any order tree) followed by `rest`: the first `wkb.Read` returns the
reader's failure and no geometry; the reader is then `afterErr s` (`C05_failed_read_state`), and a second `wkb.Read`
on it returns `g` and consumes exactly `enc` — the bytes of the interrupted value are gone, nothing of the next
value is, whatever the chunking. -/
theorem C05_retry (fuel : Nat) (t₁ : OTree) (g₁ : BGeom) (p q : Bytes) (t : OTree) (g : BGeom) (enc rest : Bytes)
    (s : Script)
    (he₁ : Encodable g₁) (hf₁ : g₁.depth + 1 < fuel) (hs₁ : serializeMixed t₁ g₁ = some (p ++ q)) (hq : q ≠ [])
    (ha₁ : avail s = p)
    (he : Encodable g) (hf : g.depth + 1 < fuel) (hs : serializeMixed t g = some enc)
    (ha : avail (afterErr s) = enc ++ rest) :
    readS scriptSrc fuel s = .error (short (firstErr s)) ∧
    ∃ s', readS scriptSrc fuel (afterErr s) = .ok (g, s') ∧ avail s' = rest :=
  ⟨C05_stream_truncated fuel t₁ g₁ p q s he₁ hf₁ hs₁ hq ha₁,
   C05_stream_read fuel t g enc rest (afterErr s) he hf hs ha⟩

/-- a reader that OBSERVES its own state when it fails: it behaves as the scripted reader (`fillR`), but in place of
its error it reports how many events it has left at that moment -/
def obsSrc : Src Script :=
  ⟨fun k s => match fillR s k [] with
    | (.ok b, s') => .ok (b, s')
    | (.error _, s') => .error (.io s'.length)⟩

/-- **C05_read_failure_observed.**  `wkb.Read` (`readS`, = the regenerated streaming `Read` on scripted readers) run on
the observing reader, started at `s₀`: either it returns the reader's report, and the report is the size of
`afterErr s₀` — the reader stood at `afterErr s₀` when the call failed, wherever inside the value that was —, or it
does exactly what it does on the plain scripted reader (same value and same reader afterwards, or the same
package error).  This is `C05_failed_read_state` carried through the whole of `wkb.Read` by its parametricity. -/
theorem C05_read_failure_observed (fuel : Nat) (s₀ : Script) :
    readS obsSrc fuel s₀ = .error (.io (afterErr s₀).length) ∨
    (∃ g s', readS obsSrc fuel s₀ = .ok (g, s') ∧ readS scriptSrc fuel s₀ = .ok (g, s')) ∨
    (∃ e, readS obsSrc fuel s₀ = .error e ∧ readS scriptSrc fuel s₀ = .error e) := by
  have hS : ∀ k, RelM (fun a b : Script => a = b ∧ Reach s₀ a) (fun e => e = .io (afterErr s₀).length)
      (obsSrc.take k) (scriptSrc.take k) := by
    rintro k a b ⟨rfl, hr⟩
    have hf := fillR_fill a k []
    cases hR : fillR a k [] with
    | mk r s' =>
      cases r with
      | ok bs =>
        rw [hR] at hf
        refine .inr (.inl ⟨bs, s', s', by simp [obsSrc, hR], by simpa [scriptSrc] using hf, rfl, reach_step hr hf⟩)
      | error e =>
        have hst := C05_failed_read_state hr k e (by rw [hR])
        rw [hR] at hst
        simp only at hst
        subst hst
        exact .inl ⟨.io (afterErr s₀).length, by simp [obsSrc, hR], rfl⟩
  rcases readS_rel hS fuel s₀ s₀ ⟨rfl, reach_refl s₀⟩ with ⟨e, hx, he⟩ | ⟨g, s₁, s₂, hx, hy, rfl, _⟩ | ⟨e, hx, hy⟩
  · exact .inl (by rw [hx, he])
  · exact .inr (.inl ⟨g, s₁, hx, hy⟩)
  · exact .inr (.inr ⟨e, hx, hy⟩)

/-- non-vacuity: the observing reader on `exRetry` (below) reports 2 events left = `afterErr exRetry` -/
example : readS obsSrc 3 [.data [0, 0, 0], .fail (.other 5), .data [1, 1, 0, 0, 0], .data [1]] = .error (.io 2) := by rfl

/-- non-vacuity: a big-endian point cut after 3 bytes by the reader's error 5, then a complete little-endian
point and one more byte -/
def exRetry : Script := [.data [0, 0, 0], .fail (.other 5),
  .data [1, 1, 0, 0, 0], .data [1, 0, 0, 0, 0, 0, 0, 0, 2, 0, 0, 0, 0, 0, 0, 0, 9]]
example : readS scriptSrc 3 exRetry = .error (.io 5) := by rfl
example : readS scriptSrc 3 (afterErr exRetry) = .ok (.point ⟨1, 2⟩, [.data [9]]) := by rfl

end GeomV.C05.Stream
