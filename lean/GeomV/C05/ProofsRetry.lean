import GeomV.C05.ProofsStream
import GeomV.C05.Retry
/-!
# C05 — `wkb.Read` called again after its reader failed

See `Retry.lean` for the reader after a failed `io.ReadFull` (`afterErr`, `C05_failed_read_state`).
-/
namespace GeomV.C05.Stream
open GeomV GeomV.C05 GeomV.C05.Ogc

/-- **C05_retry.**  A reader that fails (with `io.EOF` or an error of its own, after any short reads) before or
inside the encoding of some value — `p` is what it had delivered of it, possibly nothing — and then goes on to
deliver a complete serialization `enc` of `g` (any order tree) followed by `rest`: the first `wkb.Read` returns the
reader's failure and no geometry; the reader is then `afterErr s` (`C05_failed_read_state`), and a second `wkb.Read`
on it returns `g` and consumes exactly `enc` — the bytes of the interrupted value are gone, nothing of the next
value is, whatever the chunking. -/
theorem C05_retry (fuel : Nat) (t₁ : OTree) (g₁ : BGeom) (p q : Bytes) (t : OTree) (g : BGeom) (enc rest : Bytes)
    (s : Script)
    (he₁ : Encodable g₁) (hf₁ : g₁.depth + 1 < fuel) (hs₁ : serializeMixed t₁ g₁ = some (p ++ q)) (hq : q ≠ [])
    (ha₁ : avail s = p)
    (he : Encodable g) (hf : g.depth + 1 < fuel) (hs : serializeMixed t g = some enc)
    (ha : avail (afterErr s) = enc ++ rest) :
    readS scriptSrc fuel s = .error (short (firstErr s)) ∧
    ∃ s', readS scriptSrc fuel (afterErr s) = .ok (g, s') ∧ avail s' = rest :=
  ⟨C05_stream_truncated fuel t₁ g₁ p q s he₁ hf₁ hs₁ hq ha₁,
   C05_stream_read fuel t g enc rest (afterErr s) he hf hs ha⟩

/-- non-vacuity: a big-endian point cut after 3 bytes by the reader's error 5, then a complete little-endian
point and one more byte -/
def exRetry : Script := [.data [0, 0, 0], .fail (.other 5),
  .data [1, 1, 0, 0, 0], .data [1, 0, 0, 0, 0, 0, 0, 0, 2, 0, 0, 0, 0, 0, 0, 0, 9]]
example : readS scriptSrc 3 exRetry = .error (.io 5) := by rfl
example : readS scriptSrc 3 (afterErr exRetry) = .ok (.point ⟨1, 2⟩, [.data [9]]) := by rfl

end GeomV.C05.Stream
