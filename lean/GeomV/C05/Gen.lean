import GeomV.C05.GenLibW
/-!
REGENERATED on every run of `bin/check C05` by harness/cmd/c05/extract.go from encoding/wkb/*.go and
encoding/hex/hex.go of the tree under test — do not edit.  `GeomV/C05/Tie.lean` proves these definitions
equal to the hand-written model (`GeomV/C05/Model.lean`), so the C05 theorems are re-checked against
what the source says now.  Vocabulary and its meaning: `GeomV/C05/GenLib.lean`.
not reachable from Read/Decode/Write/Encode, not translated: encoding/wkb/wkb.go: writeMany
-/
set_option linter.unusedVariables false
namespace GeomV.C05.Gen
open GeomV GeomV.C05

/-! constants of encoding/wkb/wkb.go (and maxChunk of point.go) -/
def maxChunk : Nat := 1024
def wkbXDR : Nat := 0
def wkbNDR : Nat := 1
def wkbPoint : Nat := 1
def wkbLineString : Nat := 2
def wkbPolygon : Nat := 3
def wkbMultiPoint : Nat := 4
def wkbMultiLineString : Nat := 5
def wkbMultiPolygon : Nat := 6
def wkbGeometryCollection : Nat := 7
def wkbPolyhedralSurface : Nat := 15
def wkbTIN : Nat := 16
def wkbTriangle : Nat := 17
def XDR : BO := BO.xdr
def NDR : BO := BO.ndr

/-- `encoding/wkb/wkb.go`: `func(buf []byte) (geom.Geom, error)` as `Decode` -/
def Decode (Read : ReadFn) (buf : Bytes) : Except Err (BGeom) := do
  dropRest (Read buf)

/-- `encoding/wkb/wkb.go`: `func(g geom.Geom, byteOrder binary.ByteOrder) ([]byte, error)` as `Encode` -/
def Encode (Write : WriteFn) (g : BGeom) (byteOrder : BO) : Except Err (Bytes) := do
  let w : Bytes := ([] : Bytes)
  let w ← Write w byteOrder g
  pure w

/-- `encoding/wkb/point.go`: `func(r io.Reader, byteOrder binary.ByteOrder) (geom.Geom, error)` as `pointReader` -/
def pointReader (byteOrder : BO) (bs : Bytes) : Except Err (BGeom × Bytes) := do
  let point : Pt UInt64 := (⟨0, 0⟩ : Pt UInt64)
  let (point, bs) ← binReadPoint byteOrder bs
  pure ((.point point), bs)

/-- `encoding/wkb/point.go`: `func(a, b uint32) uint32` as `minUint32` -/
def minUint32 (a : Nat) (b : Nat) : Nat :=
  if a < b then a else b

/-- `encoding/wkb/point.go`: `func(r io.Reader, byteOrder binary.ByteOrder) ([]geom.Point, error)` as `readPoints` -/
def readPoints (byteOrder : BO) (bs : Bytes) : Except Err (List (Pt UInt64) × Bytes) := do
  let (numPoints, bs) ← binReadU32 byteOrder bs
  let points : List (Pt UInt64) := ([] : List (Pt UInt64))
  let remaining : Nat := numPoints
  let (remaining, points, bs) ← whileLoop loopBudget (fun (remaining, points, bs) => decide (remaining > 0)) (remaining, points, bs) (fun (remaining, points, bs) => do
      let chunk : List (Pt UInt64) := (mkPoints (minUint32 remaining maxChunk))
      let (chunk, bs) ← binReadPoints byteOrder chunk bs
      let points : List (Pt UInt64) := (points ++ chunk)
      let remaining : Nat := u32sub remaining (u32len chunk.length)
      pure (remaining, points, bs))
  pure (points, bs)

/-- `encoding/wkb/linestring.go`: `func(r io.Reader, byteOrder binary.ByteOrder) (geom.Geom, error)` as `lineStringReader` -/
def lineStringReader (byteOrder : BO) (bs : Bytes) : Except Err (BGeom × Bytes) := do
  let (points, bs) ← readPoints byteOrder bs
  pure ((.lineString points), bs)

/-- `encoding/wkb/polygon.go`: `func(r io.Reader, byteOrder binary.ByteOrder) (geom.Geom, error)` as `polygonReader` -/
def polygonReader (byteOrder : BO) (bs : Bytes) : Except Err (BGeom × Bytes) := do
  let (numRings, bs) ← binReadU32 byteOrder bs
  let rings : List (List (Pt UInt64)) := ([] : List (List (Pt UInt64)))
  let (rings, bs) ← loopN numRings (rings, bs) (fun (rings, bs) => do
      let (points, bs) ← readPoints byteOrder bs
      let rings : List (List (Pt UInt64)) := (rings ++ [points])
      pure (rings, bs))
  pure ((.polygon rings), bs)

/-- `encoding/wkb/multipoint.go`: `func(r io.Reader, byteOrder binary.ByteOrder) (geom.Geom, error)` as `multiPointReader` -/
def multiPointReader (Read : ReadFn) (byteOrder : BO) (bs : Bytes) : Except Err (BGeom × Bytes) := do
  let (numPoints, bs) ← binReadU32 byteOrder bs
  let points : List (Pt UInt64) := ([] : List (Pt UInt64))
  let (points, bs) ← loopN numPoints (points, bs) (fun (points, bs) => do
      let (g, bs) ← Read bs
      let point ← asPoint g
      let points : List (Pt UInt64) := (points ++ [point])
      pure (points, bs))
  pure ((.multiPoint points), bs)

/-- `encoding/wkb/multilinestring.go`: `func(r io.Reader, byteOrder binary.ByteOrder) (geom.Geom, error)` as `multiLineStringReader` -/
def multiLineStringReader (Read : ReadFn) (byteOrder : BO) (bs : Bytes) : Except Err (BGeom × Bytes) := do
  let (numLineStrings, bs) ← binReadU32 byteOrder bs
  let lineStrings : List (List (Pt UInt64)) := ([] : List (List (Pt UInt64)))
  let (lineStrings, bs) ← loopN numLineStrings (lineStrings, bs) (fun (lineStrings, bs) => do
      let (g, bs) ← Read bs
      let lineString ← asLine g
      let lineStrings : List (List (Pt UInt64)) := (lineStrings ++ [lineString])
      pure (lineStrings, bs))
  pure ((.multiLineString lineStrings), bs)

/-- `encoding/wkb/multipolygon.go`: `func(r io.Reader, byteOrder binary.ByteOrder) (geom.Geom, error)` as `multiPolygonReader` -/
def multiPolygonReader (Read : ReadFn) (byteOrder : BO) (bs : Bytes) : Except Err (BGeom × Bytes) := do
  let (numPolygons, bs) ← binReadU32 byteOrder bs
  let polygons : List (List (List (Pt UInt64))) := ([] : List (List (List (Pt UInt64))))
  let (polygons, bs) ← loopN numPolygons (polygons, bs) (fun (polygons, bs) => do
      let (g, bs) ← Read bs
      let polygon ← asPoly g
      let polygons : List (List (List (Pt UInt64))) := (polygons ++ [polygon])
      pure (polygons, bs))
  pure ((.multiPolygon polygons), bs)

/-- `encoding/wkb/geometrycollection.go`: `func(r io.Reader, byteOrder binary.ByteOrder) (geom.Geom, error)` as `geometryCollectionReader` -/
def geometryCollectionReader (Read : ReadFn) (byteOrder : BO) (bs : Bytes) : Except Err (BGeom × Bytes) := do
  let (numGeometries, bs) ← binReadU32 byteOrder bs
  let geoms : List BGeom := ([] : List BGeom)
  let (geoms, bs) ← loopN numGeometries (geoms, bs) (fun (geoms, bs) => do
      let (g, bs) ← Read bs
      let member ← asGeom g
      let geoms : List BGeom := (geoms ++ [member])
      pure (geoms, bs))
  pure ((.collection geoms), bs)

/-- the dispatch table filled by `init()`: its assignments, in order -/
def wkbReaders (Read : ReadFn) : List (Nat × ReaderFn) :=
  [(wkbPoint, pointReader),
   (wkbLineString, lineStringReader),
   (wkbPolygon, polygonReader),
   (wkbMultiPoint, (multiPointReader Read)),
   (wkbMultiLineString, (multiLineStringReader Read)),
   (wkbMultiPolygon, (multiPolygonReader Read)),
   (wkbGeometryCollection, (geometryCollectionReader Read))]

/-- `encoding/wkb/wkb.go`: `func(r io.Reader) (geom.Geom, error)` as `Read` -/
def Read (Read : ReadFn) (bs : Bytes) : Except Err (BGeom × Bytes) := do
  let (wkbByteOrder, bs) ← binReadU8 BO.ndr bs
  let byteOrder ← (if wkbByteOrder = wkbXDR then pure BO.xdr else if wkbByteOrder = wkbNDR then pure BO.ndr else throw Err.badOrder : Except Err BO)
  let (wkbGeometryType, bs) ← binReadU32 byteOrder bs
  match mapGet (wkbReaders Read) wkbGeometryType with
  | some reader => do
      reader byteOrder bs
  | none => do
      throw Err.badType

/-- `encoding/wkb/geometrycollection.go`: `func(w io.Writer, byteOrder binary.ByteOrder, geometryCollection geom.GeometryCollection) …` as `writeGeometryCollection` -/
def writeGeometryCollection (Write : WriteFn) (w : Bytes) (byteOrder : BO) (geometryCollection : List BGeom) : Except Err Bytes := do
  let w ← binWriteU32 w byteOrder (u32len geometryCollection.length)
  let w ← forRange geometryCollection w (fun geom w => do
      let w ← Write w byteOrder geom
      pure w)
  pure w

/-- `encoding/wkb/point.go`: `func(w io.Writer, byteOrder binary.ByteOrder, points []geom.Point) error` as `writePoints` -/
def writePoints (w : Bytes) (byteOrder : BO) (points : List (Pt UInt64)) : Except Err Bytes := do
  let w ← binWriteU32 w byteOrder (u32len points.length)
  binWritePoints w byteOrder points

/-- `encoding/wkb/linestring.go`: `func(w io.Writer, byteOrder binary.ByteOrder, lineString geom.LineString) error` as `writeLineString` -/
def writeLineString (w : Bytes) (byteOrder : BO) (lineString : List (Pt UInt64)) : Except Err Bytes := do
  writePoints w byteOrder lineString

/-- `encoding/wkb/multilinestring.go`: `func(w io.Writer, byteOrder binary.ByteOrder, multiLineString geom.MultiLineString) error` as `writeMultiLineString` -/
def writeMultiLineString (Write : WriteFn) (w : Bytes) (byteOrder : BO) (multiLineString : List (List (Pt UInt64))) : Except Err Bytes := do
  let w ← binWriteU32 w byteOrder (u32len multiLineString.length)
  let w ← forRange multiLineString w (fun lineString w => do
      let w ← Write w byteOrder (.lineString lineString)
      pure w)
  pure w

/-- `encoding/wkb/multipoint.go`: `func(w io.Writer, byteOrder binary.ByteOrder, multiPoint geom.MultiPoint) error` as `writeMultiPoint` -/
def writeMultiPoint (Write : WriteFn) (w : Bytes) (byteOrder : BO) (multiPoint : List (Pt UInt64)) : Except Err Bytes := do
  let w ← binWriteU32 w byteOrder (u32len multiPoint.length)
  let w ← forRange multiPoint w (fun point w => do
      let w ← Write w byteOrder (.point point)
      pure w)
  pure w

/-- `encoding/wkb/multipolygon.go`: `func(w io.Writer, byteOrder binary.ByteOrder, multiPolygon geom.MultiPolygon) error` as `writeMultiPolygon` -/
def writeMultiPolygon (Write : WriteFn) (w : Bytes) (byteOrder : BO) (multiPolygon : List (List (List (Pt UInt64)))) : Except Err Bytes := do
  let w ← binWriteU32 w byteOrder (u32len multiPolygon.length)
  let w ← forRange multiPolygon w (fun polygon w => do
      let w ← Write w byteOrder (.polygon polygon)
      pure w)
  pure w

/-- `encoding/wkb/point.go`: `func(w io.Writer, byteOrder binary.ByteOrder, point geom.Point) error` as `writePoint` -/
def writePoint (w : Bytes) (byteOrder : BO) (point : Pt UInt64) : Except Err Bytes := do
  binWritePoint w byteOrder point

/-- `encoding/wkb/point.go`: `func(w io.Writer, byteOrder binary.ByteOrder, pointss []geom.Path) error` as `writePointss` -/
def writePointss (w : Bytes) (byteOrder : BO) (pointss : List (List (Pt UInt64))) : Except Err Bytes := do
  let w ← binWriteU32 w byteOrder (u32len pointss.length)
  let w ← forRange pointss w (fun points w => do
      let w ← writePoints w byteOrder points
      pure w)
  pure w

/-- `encoding/wkb/polygon.go`: `func(w io.Writer, byteOrder binary.ByteOrder, polygon geom.Polygon) error` as `writePolygon` -/
def writePolygon (w : Bytes) (byteOrder : BO) (polygon : List (List (Pt UInt64))) : Except Err Bytes := do
  writePointss w byteOrder polygon

/-- `encoding/wkb/wkb.go`: `func(w io.Writer, byteOrder binary.ByteOrder, g geom.Geom) error` as `Write` -/
def Write (Write : WriteFn) (w : Bytes) (byteOrder : BO) (g : BGeom) : Except Err Bytes := do
  let wkbByteOrder ← (if byteOrder = XDR then pure wkbXDR else if byteOrder = NDR then pure wkbNDR else throw Err.badOrder : Except Err Nat)
  let w ← binWriteU8 w byteOrder wkbByteOrder
  let wkbGeometryType ← (match g with
    | .point _ => pure wkbPoint
    | .lineString _ => pure wkbLineString
    | .polygon _ => pure wkbPolygon
    | .multiPoint _ => pure wkbMultiPoint
    | .multiLineString _ => pure wkbMultiLineString
    | .multiPolygon _ => pure wkbMultiPolygon
    | .collection _ => pure wkbGeometryCollection
    | _ => throw Err.unsupported : Except Err Nat)
  let w ← binWriteU32 w byteOrder wkbGeometryType
  match g with
  | .point g' => writePoint w byteOrder g'
  | .lineString g' => writeLineString w byteOrder g'
  | .polygon g' => writePolygon w byteOrder g'
  | .multiPoint g' => writeMultiPoint Write w byteOrder g'
  | .multiLineString g' => writeMultiLineString Write w byteOrder g'
  | .multiPolygon g' => writeMultiPolygon Write w byteOrder g'
  | .collection g' => writeGeometryCollection Write w byteOrder g'
  | _ => throw Err.unsupported

/-- `encoding/hex/hex.go`: `func(s string) (geom.Geom, error)` as `Decode` -/
def hex_Decode (Read : ReadFn) (s : List Char) : Except HErr (BGeom) := do
  let data ← hexDecodeString s
  liftWkb (Decode Read data)

/-- `encoding/hex/hex.go`: `func(g geom.Geom, byteOrder binary.ByteOrder) (string, error)` as `Encode` -/
def hex_Encode (Write : WriteFn) (g : BGeom) (byteOrder : BO) : Except HErr (List Char) := do
  let wkb ← liftWkb (Encode Write g byteOrder)
  pure (hexEncodeToString wkb)

/-! ### the streaming path: the same Go functions with the `io.Reader` as ANY byte source `S : Stream.Src σ`
(every `binary.Read` = one `io.ReadFull` of the value's size from `S`, then the in-memory decoding: `GenLibS.lean`) -/

/-- `encoding/wkb/point.go`: `func(r io.Reader, byteOrder binary.ByteOrder) (geom.Geom, error)` as `pointReader` -/
def pointReaderS {σ : Type} (S : Stream.Src σ) (byteOrder : BO) (bs : σ) : Except SErr (BGeom × σ) := do
  let point : Pt UInt64 := (⟨0, 0⟩ : Pt UInt64)
  let (point, bs) ← binReadPointS S byteOrder bs
  pure ((.point point), bs)

/-- `encoding/wkb/point.go`: `func(r io.Reader, byteOrder binary.ByteOrder) ([]geom.Point, error)` as `readPoints` -/
def readPointsS {σ : Type} (S : Stream.Src σ) (byteOrder : BO) (bs : σ) : Except SErr (List (Pt UInt64) × σ) := do
  let (numPoints, bs) ← binReadU32S S byteOrder bs
  let points : List (Pt UInt64) := ([] : List (Pt UInt64))
  let remaining : Nat := numPoints
  let (remaining, points, bs) ← whileLoopS loopBudget (fun (remaining, points, bs) => decide (remaining > 0)) (remaining, points, bs) (fun (remaining, points, bs) => do
      let chunk : List (Pt UInt64) := (mkPoints (minUint32 remaining maxChunk))
      let (chunk, bs) ← binReadPointsS S byteOrder chunk bs
      let points : List (Pt UInt64) := (points ++ chunk)
      let remaining : Nat := u32sub remaining (u32len chunk.length)
      pure (remaining, points, bs))
  pure (points, bs)

/-- `encoding/wkb/linestring.go`: `func(r io.Reader, byteOrder binary.ByteOrder) (geom.Geom, error)` as `lineStringReader` -/
def lineStringReaderS {σ : Type} (S : Stream.Src σ) (byteOrder : BO) (bs : σ) : Except SErr (BGeom × σ) := do
  let (points, bs) ← readPointsS S byteOrder bs
  pure ((.lineString points), bs)

/-- `encoding/wkb/polygon.go`: `func(r io.Reader, byteOrder binary.ByteOrder) (geom.Geom, error)` as `polygonReader` -/
def polygonReaderS {σ : Type} (S : Stream.Src σ) (byteOrder : BO) (bs : σ) : Except SErr (BGeom × σ) := do
  let (numRings, bs) ← binReadU32S S byteOrder bs
  let rings : List (List (Pt UInt64)) := ([] : List (List (Pt UInt64)))
  let (rings, bs) ← loopNS numRings (rings, bs) (fun (rings, bs) => do
      let (points, bs) ← readPointsS S byteOrder bs
      let rings : List (List (Pt UInt64)) := (rings ++ [points])
      pure (rings, bs))
  pure ((.polygon rings), bs)

/-- `encoding/wkb/multipoint.go`: `func(r io.Reader, byteOrder binary.ByteOrder) (geom.Geom, error)` as `multiPointReader` -/
def multiPointReaderS {σ : Type} (S : Stream.Src σ) (Read : ReadFnS σ) (byteOrder : BO) (bs : σ) : Except SErr (BGeom × σ) := do
  let (numPoints, bs) ← binReadU32S S byteOrder bs
  let points : List (Pt UInt64) := ([] : List (Pt UInt64))
  let (points, bs) ← loopNS numPoints (points, bs) (fun (points, bs) => do
      let (g, bs) ← Read bs
      let point ← liftS (asPoint g)
      let points : List (Pt UInt64) := (points ++ [point])
      pure (points, bs))
  pure ((.multiPoint points), bs)

/-- `encoding/wkb/multilinestring.go`: `func(r io.Reader, byteOrder binary.ByteOrder) (geom.Geom, error)` as `multiLineStringReader` -/
def multiLineStringReaderS {σ : Type} (S : Stream.Src σ) (Read : ReadFnS σ) (byteOrder : BO) (bs : σ) : Except SErr (BGeom × σ) := do
  let (numLineStrings, bs) ← binReadU32S S byteOrder bs
  let lineStrings : List (List (Pt UInt64)) := ([] : List (List (Pt UInt64)))
  let (lineStrings, bs) ← loopNS numLineStrings (lineStrings, bs) (fun (lineStrings, bs) => do
      let (g, bs) ← Read bs
      let lineString ← liftS (asLine g)
      let lineStrings : List (List (Pt UInt64)) := (lineStrings ++ [lineString])
      pure (lineStrings, bs))
  pure ((.multiLineString lineStrings), bs)

/-- `encoding/wkb/multipolygon.go`: `func(r io.Reader, byteOrder binary.ByteOrder) (geom.Geom, error)` as `multiPolygonReader` -/
def multiPolygonReaderS {σ : Type} (S : Stream.Src σ) (Read : ReadFnS σ) (byteOrder : BO) (bs : σ) : Except SErr (BGeom × σ) := do
  let (numPolygons, bs) ← binReadU32S S byteOrder bs
  let polygons : List (List (List (Pt UInt64))) := ([] : List (List (List (Pt UInt64))))
  let (polygons, bs) ← loopNS numPolygons (polygons, bs) (fun (polygons, bs) => do
      let (g, bs) ← Read bs
      let polygon ← liftS (asPoly g)
      let polygons : List (List (List (Pt UInt64))) := (polygons ++ [polygon])
      pure (polygons, bs))
  pure ((.multiPolygon polygons), bs)

/-- `encoding/wkb/geometrycollection.go`: `func(r io.Reader, byteOrder binary.ByteOrder) (geom.Geom, error)` as `geometryCollectionReader` -/
def geometryCollectionReaderS {σ : Type} (S : Stream.Src σ) (Read : ReadFnS σ) (byteOrder : BO) (bs : σ) : Except SErr (BGeom × σ) := do
  let (numGeometries, bs) ← binReadU32S S byteOrder bs
  let geoms : List BGeom := ([] : List BGeom)
  let (geoms, bs) ← loopNS numGeometries (geoms, bs) (fun (geoms, bs) => do
      let (g, bs) ← Read bs
      let member ← liftS (asGeom g)
      let geoms : List BGeom := (geoms ++ [member])
      pure (geoms, bs))
  pure ((.collection geoms), bs)

/-- the dispatch table on the streaming path -/
def wkbReadersS {σ : Type} (S : Stream.Src σ) (Read : ReadFnS σ) : List (Nat × ReaderFnS σ) :=
  [(wkbPoint, (pointReaderS S)),
   (wkbLineString, (lineStringReaderS S)),
   (wkbPolygon, (polygonReaderS S)),
   (wkbMultiPoint, (multiPointReaderS S Read)),
   (wkbMultiLineString, (multiLineStringReaderS S Read)),
   (wkbMultiPolygon, (multiPolygonReaderS S Read)),
   (wkbGeometryCollection, (geometryCollectionReaderS S Read))]

/-- `encoding/wkb/wkb.go`: `func(r io.Reader) (geom.Geom, error)` as `Read` -/
def ReadS {σ : Type} (S : Stream.Src σ) (Read : ReadFnS σ) (bs : σ) : Except SErr (BGeom × σ) := do
  let (wkbByteOrder, bs) ← binReadU8S S BO.ndr bs
  let byteOrder ← (if wkbByteOrder = wkbXDR then pure BO.xdr else if wkbByteOrder = wkbNDR then pure BO.ndr else throw (SErr.wkb Err.badOrder) : Except SErr BO)
  let (wkbGeometryType, bs) ← binReadU32S S byteOrder bs
  match mapGet (wkbReadersS S Read) wkbGeometryType with
  | some reader => do
      reader byteOrder bs
  | none => do
      throw (SErr.wkb Err.badType)

/-- `wkb.Read` behind any byte source, the recursion unrolled `fuel` times -/
def readS {σ : Type} (S : Stream.Src σ) : Nat → ReadFnS σ
  | 0 => fun _ => .error (.wkb .fuel)
  | fuel+1 => ReadS S (readS S fuel)

/-! ### the writing path call by call: the same Go functions with the `io.Writer` as ANY writer state machine
`K : Sink.Sink σ` (every `binary.Write` = ONE `K.put` of the value's encoding; an error carries the writer state reached: `GenLibW.lean`) -/

/-- `encoding/wkb/geometrycollection.go`: `func(w io.Writer, byteOrder binary.ByteOrder, geometryCollection geom.GeometryCollection) …` as `writeGeometryCollection` -/
def writeGeometryCollectionW {σ : Type} (K : Sink.Sink σ) (Write : WriteFnW σ) (w : σ) (byteOrder : BO) (geometryCollection : List BGeom) : Except (σ × Sink.WErr) σ := do
  let w ← binWriteU32W K w byteOrder (u32len geometryCollection.length)
  let w ← forRangeW geometryCollection w (fun geom w => do
      let w ← Write w byteOrder geom
      pure w)
  pure w

/-- `encoding/wkb/point.go`: `func(w io.Writer, byteOrder binary.ByteOrder, points []geom.Point) error` as `writePoints` -/
def writePointsW {σ : Type} (K : Sink.Sink σ) (w : σ) (byteOrder : BO) (points : List (Pt UInt64)) : Except (σ × Sink.WErr) σ := do
  let w ← binWriteU32W K w byteOrder (u32len points.length)
  binWritePointsW K w byteOrder points

/-- `encoding/wkb/linestring.go`: `func(w io.Writer, byteOrder binary.ByteOrder, lineString geom.LineString) error` as `writeLineString` -/
def writeLineStringW {σ : Type} (K : Sink.Sink σ) (w : σ) (byteOrder : BO) (lineString : List (Pt UInt64)) : Except (σ × Sink.WErr) σ := do
  writePointsW K w byteOrder lineString

/-- `encoding/wkb/multilinestring.go`: `func(w io.Writer, byteOrder binary.ByteOrder, multiLineString geom.MultiLineString) error` as `writeMultiLineString` -/
def writeMultiLineStringW {σ : Type} (K : Sink.Sink σ) (Write : WriteFnW σ) (w : σ) (byteOrder : BO) (multiLineString : List (List (Pt UInt64))) : Except (σ × Sink.WErr) σ := do
  let w ← binWriteU32W K w byteOrder (u32len multiLineString.length)
  let w ← forRangeW multiLineString w (fun lineString w => do
      let w ← Write w byteOrder (.lineString lineString)
      pure w)
  pure w

/-- `encoding/wkb/multipoint.go`: `func(w io.Writer, byteOrder binary.ByteOrder, multiPoint geom.MultiPoint) error` as `writeMultiPoint` -/
def writeMultiPointW {σ : Type} (K : Sink.Sink σ) (Write : WriteFnW σ) (w : σ) (byteOrder : BO) (multiPoint : List (Pt UInt64)) : Except (σ × Sink.WErr) σ := do
  let w ← binWriteU32W K w byteOrder (u32len multiPoint.length)
  let w ← forRangeW multiPoint w (fun point w => do
      let w ← Write w byteOrder (.point point)
      pure w)
  pure w

/-- `encoding/wkb/multipolygon.go`: `func(w io.Writer, byteOrder binary.ByteOrder, multiPolygon geom.MultiPolygon) error` as `writeMultiPolygon` -/
def writeMultiPolygonW {σ : Type} (K : Sink.Sink σ) (Write : WriteFnW σ) (w : σ) (byteOrder : BO) (multiPolygon : List (List (List (Pt UInt64)))) : Except (σ × Sink.WErr) σ := do
  let w ← binWriteU32W K w byteOrder (u32len multiPolygon.length)
  let w ← forRangeW multiPolygon w (fun polygon w => do
      let w ← Write w byteOrder (.polygon polygon)
      pure w)
  pure w

/-- `encoding/wkb/point.go`: `func(w io.Writer, byteOrder binary.ByteOrder, point geom.Point) error` as `writePoint` -/
def writePointW {σ : Type} (K : Sink.Sink σ) (w : σ) (byteOrder : BO) (point : Pt UInt64) : Except (σ × Sink.WErr) σ := do
  binWritePointW K w byteOrder point

/-- `encoding/wkb/point.go`: `func(w io.Writer, byteOrder binary.ByteOrder, pointss []geom.Path) error` as `writePointss` -/
def writePointssW {σ : Type} (K : Sink.Sink σ) (w : σ) (byteOrder : BO) (pointss : List (List (Pt UInt64))) : Except (σ × Sink.WErr) σ := do
  let w ← binWriteU32W K w byteOrder (u32len pointss.length)
  let w ← forRangeW pointss w (fun points w => do
      let w ← writePointsW K w byteOrder points
      pure w)
  pure w

/-- `encoding/wkb/polygon.go`: `func(w io.Writer, byteOrder binary.ByteOrder, polygon geom.Polygon) error` as `writePolygon` -/
def writePolygonW {σ : Type} (K : Sink.Sink σ) (w : σ) (byteOrder : BO) (polygon : List (List (Pt UInt64))) : Except (σ × Sink.WErr) σ := do
  writePointssW K w byteOrder polygon

/-- `encoding/wkb/wkb.go`: `func(w io.Writer, byteOrder binary.ByteOrder, g geom.Geom) error` as `Write` -/
def WriteW {σ : Type} (K : Sink.Sink σ) (Write : WriteFnW σ) (w : σ) (byteOrder : BO) (g : BGeom) : Except (σ × Sink.WErr) σ := do
  let wkbByteOrder ← liftW w (if byteOrder = XDR then pure wkbXDR else if byteOrder = NDR then pure wkbNDR else throw Err.badOrder : Except Err Nat)
  let w ← binWriteU8W K w byteOrder wkbByteOrder
  let wkbGeometryType ← liftW w (match g with
    | .point _ => pure wkbPoint
    | .lineString _ => pure wkbLineString
    | .polygon _ => pure wkbPolygon
    | .multiPoint _ => pure wkbMultiPoint
    | .multiLineString _ => pure wkbMultiLineString
    | .multiPolygon _ => pure wkbMultiPolygon
    | .collection _ => pure wkbGeometryCollection
    | _ => throw Err.unsupported : Except Err Nat)
  let w ← binWriteU32W K w byteOrder wkbGeometryType
  match g with
  | .point g' => writePointW K w byteOrder g'
  | .lineString g' => writeLineStringW K w byteOrder g'
  | .polygon g' => writePolygonW K w byteOrder g'
  | .multiPoint g' => writeMultiPointW K Write w byteOrder g'
  | .multiLineString g' => writeMultiLineStringW K Write w byteOrder g'
  | .multiPolygon g' => writeMultiPolygonW K Write w byteOrder g'
  | .collection g' => writeGeometryCollectionW K Write w byteOrder g'
  | _ => throwW w Err.unsupported

/-- `wkb.Write` on any writer, call by call, the recursion unrolled `fuel` times -/
def writeW {σ : Type} (K : Sink.Sink σ) : Nat → WriteFnW σ
  | 0 => fun w _ _ => throwW w Err.fuel
  | fuel+1 => WriteW K (writeW K fuel)

/-! The recursion Read → reader → Read and Write → writer → Write, unrolled (fixed text of the translator). -/

/-- `wkb.Read` with the recursion unrolled `fuel` times -/
def read : Nat → ReadFn
  | 0 => fun _ => .error .fuel
  | fuel+1 => Read (read fuel)

/-- `wkb.Write` with the recursion unrolled `fuel` times -/
def write : Nat → WriteFn
  | 0 => fun _ _ _ => .error .fuel
  | fuel+1 => Write (write fuel)

/-- `wkb.Read` on any input: every level of recursion consumes at least one byte, so one more level than
the input has bytes is never the limit -/
def readAll : ReadFn := fun bs => read (bs.length + 1) bs

/-- `wkb.Write` of any value: one level per collection nesting level, one for the value itself, one for the
members of a Multi* value -/
def writeAll : WriteFn := fun w byteOrder g => write (g.depth + 2) w byteOrder g

/-- `wkb.Decode` -/
def decode (buf : Bytes) : Except Err BGeom := Decode readAll buf

/-- `wkb.Encode` -/
def encode (g : BGeom) (byteOrder : BO) : Except Err Bytes := Encode writeAll g byteOrder

/-- `hex.Encode` -/
def hexEncode (g : BGeom) (byteOrder : BO) : Except HErr (List Char) := hex_Encode writeAll g byteOrder

/-- `hex.Decode` -/
def hexDecode (s : List Char) : Except HErr BGeom := hex_Decode readAll s

end GeomV.C05.Gen
