import GeomV.C05.Stream
import GeomV.C05.Proofs
/-!
# C05 — lemmas for the streaming theorems

1. `readS_rel`: `readS` is parametric in its byte source — two sources whose `take` are related step by
   step give related results (relation on the reader states, optional "the left source may give up
   with one of these errors" escape).
2. `fill_sim`: a scripted `io.Reader` under `io.ReadFull` behaves exactly like "the bytes it delivers before
   its first error, then that error" (`errSrc`).
3. `readS_errSrc`: on "these bytes, then that error" `readS` is `Model.read` with `Err.eof` replaced by that error.
-/
set_option linter.unusedSimpArgs false
set_option linter.unusedVariables false
namespace GeomV.C05.Stream
open GeomV GeomV.C05

@[simp] theorem bind_apply {σ α β : Type} (x : Rd σ α) (f : α → Rd σ β) (s : σ) :
    (x >>= f) s = match x s with
      | .ok (a, s') => f a s'
      | .error e => .error e := rfl

@[simp] theorem pure_apply {σ α : Type} (a : α) (s : σ) : (pure a : Rd σ α) s = .ok (a, s) := rfl

/-! ### 1. parametricity -/

section Rel
variable {σ₁ σ₂ : Type} (R : σ₁ → σ₂ → Prop) (EL : SErr → Prop)

/-- related results: the left one gave up with an escape error, or both succeeded with the same value and
related states, or both failed with the same error -/
def RelRes {α : Type} (x : Except SErr (α × σ₁)) (y : Except SErr (α × σ₂)) : Prop :=
  (∃ e, x = .error e ∧ EL e) ∨ (∃ a s₁ s₂, x = .ok (a, s₁) ∧ y = .ok (a, s₂) ∧ R s₁ s₂) ∨
    (∃ e, x = .error e ∧ y = .error e)

def RelM {α : Type} (x : Rd σ₁ α) (y : Rd σ₂ α) : Prop :=
  ∀ s₁ s₂, R s₁ s₂ → RelRes R EL (x s₁) (y s₂)

theorem relM_pure {α : Type} (a : α) : RelM R EL (pure a : Rd σ₁ α) (pure a) :=
  fun s₁ s₂ h => .inr (.inl ⟨a, s₁, s₂, rfl, rfl, h⟩)

theorem relM_fail {α : Type} (e : SErr) : RelM R EL (Rd.fail e : Rd σ₁ α) (Rd.fail e) :=
  fun _ _ _ => .inr (.inr ⟨e, rfl, rfl⟩)

theorem relM_lift {α : Type} (x : Except Err α) : RelM R EL (Rd.lift x : Rd σ₁ α) (Rd.lift x) := by
  intro s₁ s₂ h
  cases x with
  | ok a => exact .inr (.inl ⟨a, s₁, s₂, rfl, rfl, h⟩)
  | error e => exact .inr (.inr ⟨.wkb e, rfl, rfl⟩)

theorem relM_bind {α β : Type} {x : Rd σ₁ α} {y : Rd σ₂ α} {f : α → Rd σ₁ β} {g : α → Rd σ₂ β}
    (h : RelM R EL x y) (hf : ∀ a, RelM R EL (f a) (g a)) : RelM R EL (x >>= f) (y >>= g) := by
  intro s₁ s₂ hs
  rcases h s₁ s₂ hs with ⟨e, hx, he⟩ | ⟨a, t₁, t₂, hx, hy, ht⟩ | ⟨e, hx, hy⟩
  · exact .inl ⟨e, by simp [hx], he⟩
  · simp only [bind_apply, hx, hy]; exact hf a t₁ t₂ ht
  · exact .inr (.inr ⟨e, by simp [hx], by simp [hy]⟩)

theorem relM_ite {α : Type} (c : Prop) [Decidable c] {a₁ b₁ : Rd σ₁ α} {a₂ b₂ : Rd σ₂ α}
    (ha : RelM R EL a₁ a₂) (hb : RelM R EL b₁ b₂) :
    RelM R EL (if c then a₁ else b₁) (if c then a₂ else b₂) := by
  by_cases h : c <;> simp [h, ha, hb]

variable {R EL} {S₁ : Src σ₁} {S₂ : Src σ₂} (hS : ∀ k, RelM R EL (S₁.take k) (S₂.take k))
include hS

theorem readNatS_rel (bo : BO) (k : Nat) : RelM R EL (readNatS S₁ bo k) (readNatS S₂ bo k) :=
  relM_bind R EL (hS k) (fun _ => relM_pure R EL _)

theorem readU32S_rel (bo : BO) : RelM R EL (readU32S S₁ bo) (readU32S S₂ bo) := readNatS_rel hS bo 4

theorem readU64S_rel (bo : BO) : RelM R EL (readU64S S₁ bo) (readU64S S₂ bo) :=
  relM_bind R EL (readNatS_rel hS bo 8) (fun _ => relM_pure R EL _)

theorem readPointS_rel (bo : BO) : RelM R EL (readPointS S₁ bo) (readPointS S₂ bo) :=
  relM_bind R EL (readU64S_rel hS bo) (fun _ => relM_bind R EL (readU64S_rel hS bo) (fun _ => relM_pure R EL _))

omit hS in
theorem readManyS_rel {β : Type} {r₁ : Rd σ₁ β} {r₂ : Rd σ₂ β} (h : RelM R EL r₁ r₂) (n : Nat) :
    RelM R EL (readManyS r₁ n) (readManyS r₂ n) := by
  induction n with
  | zero => exact relM_pure R EL _
  | succ n ih => exact relM_bind R EL h (fun _ => relM_bind R EL ih (fun _ => relM_pure R EL _))

theorem readPointsS_rel (bo : BO) : RelM R EL (readPointsS S₁ bo) (readPointsS S₂ bo) :=
  relM_bind R EL (readU32S_rel hS bo) (fun n => readManyS_rel (readPointS_rel hS bo) n)

omit hS in
theorem readAsS_rel {β : Type} {r₁ : Rd σ₁ BGeom} {r₂ : Rd σ₂ BGeom} (h : RelM R EL r₁ r₂)
    (cast : BGeom → Except Err β) : RelM R EL (readAsS r₁ cast) (readAsS r₂ cast) :=
  relM_bind R EL h (fun _ => relM_lift R EL _)

/-- **parametricity of `wkb.Read` in its reader** -/
theorem readS_rel (fuel : Nat) : RelM R EL (readS S₁ fuel) (readS S₂ fuel) := by
  induction fuel with
  | zero => exact relM_fail R EL _
  | succ fuel ih =>
    unfold readS
    refine relM_bind R EL (hS 1) (fun fl => relM_bind R EL (relM_lift R EL _) (fun bo =>
      relM_bind R EL (readU32S_rel hS bo) (fun code => ?_)))
    refine relM_ite R EL _ (relM_bind R EL (readPointS_rel hS bo) (fun _ => relM_pure R EL _)) ?_
    refine relM_ite R EL _ (relM_bind R EL (readPointsS_rel hS bo) (fun _ => relM_pure R EL _)) ?_
    refine relM_ite R EL _ (relM_bind R EL (readU32S_rel hS bo) (fun n =>
      relM_bind R EL (readManyS_rel (readPointsS_rel hS bo) n) (fun _ => relM_pure R EL _))) ?_
    refine relM_ite R EL _ (relM_bind R EL (readU32S_rel hS bo) (fun n =>
      relM_bind R EL (readManyS_rel (readAsS_rel ih _) n) (fun _ => relM_pure R EL _))) ?_
    refine relM_ite R EL _ (relM_bind R EL (readU32S_rel hS bo) (fun n =>
      relM_bind R EL (readManyS_rel (readAsS_rel ih _) n) (fun _ => relM_pure R EL _))) ?_
    refine relM_ite R EL _ (relM_bind R EL (readU32S_rel hS bo) (fun n =>
      relM_bind R EL (readManyS_rel (readAsS_rel ih _) n) (fun _ => relM_pure R EL _))) ?_
    refine relM_ite R EL _ (relM_bind R EL (readU32S_rel hS bo) (fun n =>
      relM_bind R EL (readManyS_rel ih n) (fun _ => relM_pure R EL _))) ?_
    exact relM_fail R EL _

end Rel

/-! ### 2a. `io.ReadFull` over a script, characterised by the bytes the script can deliver -/

theorem fill_spec (s : Script) : ∀ (k : Nat) (acc : Bytes),
    ((avail s).length < k → fill s k acc = .error (short (firstErr s))) ∧
    (k ≤ (avail s).length → ∃ s', fill s k acc = .ok (acc ++ (avail s).take k, s') ∧
        avail s' = (avail s).drop k ∧ firstErr s' = firstErr s) := by
  induction s with
  | nil =>
    intro k acc
    cases k with
    | zero => simp [fill, avail]
    | succ k => simp [fill, avail, firstErr]
  | cons ev s ih =>
    intro k acc
    cases k with
    | zero => cases ev <;> simp [fill]
    | succ k =>
      cases ev with
      | data c =>
        simp only [fill, avail, firstErr, List.length_append]
        by_cases h1 : c.length < k + 1
        · simp only [h1, if_true]
          obtain ⟨ihe, iho⟩ := ih (k + 1 - c.length) (acc ++ c)
          constructor
          · intro h; rw [ihe (by omega)]
          · intro h
            obtain ⟨s', h1', h2, h3⟩ := iho (by omega)
            refine ⟨s', ?_, ?_, h3⟩
            · rw [h1', List.take_append]
              simp [List.take_of_length_le (Nat.le_of_lt h1), List.append_assoc]
            · rw [h2, List.drop_append]
              simp [List.drop_of_length_le (Nat.le_of_lt h1)]
        · simp only [h1, if_false]
          by_cases h2 : c.length = k + 1
          · simp only [h2, if_true]
            constructor
            · intro h; omega
            · intro _
              refine ⟨s, ?_, ?_, rfl⟩
              · rw [← h2, List.take_append]; simp
              · rw [← h2, List.drop_append]; simp
          · simp only [h2, if_false]
            have h3 : k + 1 ≤ c.length := by omega
            constructor
            · intro h; omega
            · intro _
              refine ⟨.data (c.drop (k+1)) :: s, ?_, ?_, rfl⟩
              · rw [List.take_append_of_le_length h3]
              · simp [avail, List.drop_append_of_le_length h3]
      | dataErr c e =>
        refine ⟨fun h => ?_, fun h => ?_⟩
        · simp only [avail] at h
          simp [fill, firstErr, h]
        · simp only [avail] at h
          have h1 : ¬ c.length < k + 1 := by omega
          by_cases h2 : c.length = k + 1
          · refine ⟨.fail e :: s, ?_, ?_, rfl⟩
            · simp only [fill, avail, h1, h2, if_true, if_false]; rw [← h2]; simp
            · simp only [avail]; rw [← h2]; simp
          · exact ⟨.dataErr (c.drop (k+1)) e :: s, by simp [fill, avail, h1, h2], by simp [avail], rfl⟩
      | fail e => simp [fill, avail, firstErr]


/-! ### 2. the scripted reader is "its deliverable bytes, then its first error" -/

/-- abstraction of a script -/
def RScript (s : Script) (t : Bytes × SErr) : Prop := avail s = t.1 ∧ short (firstErr s) = t.2

def NoEsc : SErr → Prop := fun _ => False

theorem script_sim (k : Nat) : RelM RScript NoEsc (scriptSrc.take k) (errSrc.take k) := by
  intro s ⟨bs, e⟩ ⟨h1, h2⟩
  simp only at h1 h2
  subst h1 h2
  obtain ⟨he, ho⟩ := fill_spec s k []
  by_cases h : (avail s).length < k
  · exact .inr (.inr ⟨_, he h, by simp [errSrc, h]⟩)
  · obtain ⟨s', h1, h2, h3⟩ := ho (by omega)
    refine .inr (.inl ⟨(avail s).take k, s', ((avail s).drop k, short (firstErr s)), ?_, by simp [errSrc, h], h2, by simp [h3]⟩)
    simpa [scriptSrc] using h1

/-! ### 3. on "these bytes, then that error" `readS` is `Model.read` -/

/-- `Model`'s result seen on `errSrc`: `Err.eof` (the input ended) becomes the source's error -/
def conv (e : SErr) {α : Type} : Except Err (α × Bytes) → Except SErr (α × (Bytes × SErr))
  | .ok (a, bs) => .ok (a, (bs, e))
  | .error .eof => .error e
  | .error x => .error (.wkb x)

theorem take_conv (e : SErr) (k : Nat) (bs : Bytes) : errSrc.take k (bs, e) = conv e (takeN k bs) := by
  by_cases h : bs.length < k <;> simp [errSrc, takeN, conv, h]

theorem conv_bind {α β : Type} (e : SErr) (x : Except Err (α × Bytes)) (f : α × Bytes → Except Err (β × Bytes))
    (X : Rd (Bytes × SErr) α) (F : α → Rd (Bytes × SErr) β) (bs : Bytes)
    (hX : X (bs, e) = conv e x) (hF : ∀ a bs', F a (bs', e) = conv e (f (a, bs'))) :
    (X >>= F) (bs, e) = conv e (x >>= f) := by
  simp only [bind_apply, hX]
  cases x with
  | ok p => obtain ⟨a, bs'⟩ := p; simp [conv, hF, bind, Except.bind]
  | error x => cases x <;> simp [conv, bind, Except.bind]

theorem readNatS_conv (e : SErr) (bo : BO) (k : Nat) (bs : Bytes) :
    readNatS errSrc bo k (bs, e) = conv e (readNat bo k bs) := by
  unfold readNatS readNat
  exact conv_bind e _ _ _ _ bs (take_conv e k bs) (fun a bs' => rfl)

theorem readU64S_conv (e : SErr) (bo : BO) (bs : Bytes) :
    readU64S errSrc bo (bs, e) = conv e (readU64 bo bs) := by
  unfold readU64S readU64
  exact conv_bind e _ _ _ _ bs (readNatS_conv e bo 8 bs) (fun a bs' => rfl)

theorem readPointS_conv (e : SErr) (bo : BO) (bs : Bytes) :
    readPointS errSrc bo (bs, e) = conv e (readPoint bo bs) := by
  unfold readPointS readPoint
  exact conv_bind e _ _ _ _ bs (readU64S_conv e bo bs) (fun a bs' =>
    conv_bind e _ _ _ _ bs' (readU64S_conv e bo bs') (fun a bs' => rfl))

theorem readManyS_conv {β : Type} (e : SErr) (r : Rd (Bytes × SErr) β) (rd : Bytes → Except Err (β × Bytes))
    (h : ∀ bs, r (bs, e) = conv e (rd bs)) (n : Nat) (bs : Bytes) :
    readManyS r n (bs, e) = conv e (readMany rd n bs) := by
  induction n generalizing bs with
  | zero => rfl
  | succ n ih =>
    unfold readManyS readMany
    exact conv_bind e _ _ _ _ bs (h bs) (fun a bs' => conv_bind e _ _ _ _ bs' (ih bs') (fun a bs' => rfl))

theorem readPointsS_conv (e : SErr) (bo : BO) (bs : Bytes) :
    readPointsS errSrc bo (bs, e) = conv e (readPoints bo bs) := by
  unfold readPointsS readPoints
  exact conv_bind e _ _ _ _ bs (readNatS_conv e bo 4 bs) (fun a bs' =>
    readManyS_conv e _ _ (readPointS_conv e bo) a bs')

theorem readAsS_conv {β : Type} (e : SErr) (r : Rd (Bytes × SErr) BGeom) (rd : Bytes → Except Err (BGeom × Bytes))
    (cast : BGeom → Except Err β) (hc : ∀ g, cast g ≠ .error .eof)
    (h : ∀ bs, r (bs, e) = conv e (rd bs)) (bs : Bytes) :
    readAsS r cast (bs, e) = conv e (readAs rd cast bs) := by
  unfold readAsS readAs
  refine conv_bind e _ _ _ _ bs (h bs) (fun g bs' => ?_)
  have := hc g
  cases hg : cast g with
  | ok v => simp [Rd.lift, conv, bind, Except.bind, pure, Except.pure, hg]
  | error x => cases x <;> simp_all [Rd.lift, conv, bind, Except.bind]



theorem asPoint_ne (g : BGeom) : asPoint g ≠ .error .eof := by cases g <;> simp [asPoint]
theorem asLine_ne (g : BGeom) : asLine g ≠ .error .eof := by cases g <;> simp [asLine]
theorem asPoly_ne (g : BGeom) : asPoly g ≠ .error .eof := by cases g <;> simp [asPoly]

theorem readS_body_conv (e : SErr) (fuel : Nat) (ih : ∀ bs, readS errSrc fuel (bs, e) = conv e (read fuel bs))
    (bo : BO) (t : Bytes) :
    (readU32S errSrc bo >>= fun code =>
      if code = 1 then do
        let p ← readPointS errSrc bo; pure (.point p)
      else if code = 2 then do
        let p ← readPointsS errSrc bo; pure (.lineString p)
      else if code = 3 then do
        let n ← readU32S errSrc bo
        let r ← readManyS (readPointsS errSrc bo) n; pure (.polygon r)
      else if code = 4 then do
        let n ← readU32S errSrc bo
        let r ← readManyS (readAsS (readS errSrc fuel) asPoint) n; pure (.multiPoint r)
      else if code = 5 then do
        let n ← readU32S errSrc bo
        let r ← readManyS (readAsS (readS errSrc fuel) asLine) n; pure (.multiLineString r)
      else if code = 6 then do
        let n ← readU32S errSrc bo
        let r ← readManyS (readAsS (readS errSrc fuel) asPoly) n; pure (.multiPolygon r)
      else if code = 7 then do
        let n ← readU32S errSrc bo
        let r ← readManyS (readS errSrc fuel) n; pure (.collection r)
      else (Rd.fail (.wkb .badType) : Rd (Bytes × SErr) BGeom)) (t, e) =
    conv e (do
      let (code, bs) ← readU32 bo t
      if code = 1 then do
        let (p, bs) ← readPoint bo bs; pure (.point p, bs)
      else if code = 2 then do
        let (p, bs) ← readPoints bo bs; pure (.lineString p, bs)
      else if code = 3 then do
        let (n, bs) ← readU32 bo bs
        let (r, bs) ← readMany (readPoints bo) n bs; pure (.polygon r, bs)
      else if code = 4 then do
        let (n, bs) ← readU32 bo bs
        let (r, bs) ← readMany (readAs (read fuel) asPoint) n bs; pure (.multiPoint r, bs)
      else if code = 5 then do
        let (n, bs) ← readU32 bo bs
        let (r, bs) ← readMany (readAs (read fuel) asLine) n bs; pure (.multiLineString r, bs)
      else if code = 6 then do
        let (n, bs) ← readU32 bo bs
        let (r, bs) ← readMany (readAs (read fuel) asPoly) n bs; pure (.multiPolygon r, bs)
      else if code = 7 then do
        let (n, bs) ← readU32 bo bs
        let (r, bs) ← readMany (read fuel) n bs; pure (.collection r, bs)
      else .error .badType : Except Err (BGeom × Bytes)) := by
  refine conv_bind e _ _ _ _ t (readNatS_conv e bo 4 t) (fun code bs => ?_)
  have hU := fun bs => readNatS_conv e bo 4 bs
  by_cases h1 : code = 1
  · simp only [h1, if_true]
    exact conv_bind e _ _ _ _ bs (readPointS_conv e bo bs) (fun _ _ => rfl)
  by_cases h2 : code = 2
  · simp only [h2, if_true]
    exact conv_bind e _ _ _ _ bs (readPointsS_conv e bo bs) (fun _ _ => rfl)
  by_cases h3 : code = 3
  · simp only [h3, if_true]
    exact conv_bind e _ _ _ _ bs (hU bs) (fun n bs => conv_bind e _ _ _ _ bs
      (readManyS_conv e _ _ (readPointsS_conv e bo) n bs) (fun _ _ => rfl))
  by_cases h4 : code = 4
  · simp only [h4, if_true]
    exact conv_bind e _ _ _ _ bs (hU bs) (fun n bs => conv_bind e _ _ _ _ bs
      (readManyS_conv e _ _ (readAsS_conv e _ _ _ asPoint_ne ih) n bs) (fun _ _ => rfl))
  by_cases h5 : code = 5
  · simp only [h5, if_true]
    exact conv_bind e _ _ _ _ bs (hU bs) (fun n bs => conv_bind e _ _ _ _ bs
      (readManyS_conv e _ _ (readAsS_conv e _ _ _ asLine_ne ih) n bs) (fun _ _ => rfl))
  by_cases h6 : code = 6
  · simp only [h6, if_true]
    exact conv_bind e _ _ _ _ bs (hU bs) (fun n bs => conv_bind e _ _ _ _ bs
      (readManyS_conv e _ _ (readAsS_conv e _ _ _ asPoly_ne ih) n bs) (fun _ _ => rfl))
  by_cases h7 : code = 7
  · simp only [h7, if_true]
    exact conv_bind e _ _ _ _ bs (hU bs) (fun n bs => conv_bind e _ _ _ _ bs
      (readManyS_conv e _ _ ih n bs) (fun _ _ => rfl))
  simp [h1, h2, h3, h4, h5, h6, h7, Rd.fail, conv]

theorem head_conv (e : SErr) (K : BO → Rd (Bytes × SErr) BGeom) (K' : BO → Bytes → Except Err (BGeom × Bytes))
    (hK : ∀ bo t, K bo (t, e) = conv e (K' bo t)) (bs : Bytes) :
    (errSrc.take 1 >>= fun fl => Rd.lift (flagOf fl) >>= fun bo => K bo) (bs, e) =
    conv e (do
      let (fl, bs) ← takeN 1 bs
      let bo ← (match fl with
        | [b] => if b = 0 then .ok BO.xdr else if b = 1 then .ok BO.ndr else .error .badOrder
        | _ => .error .eof : Except Err BO)
      K' bo bs) := by
  cases bs with
  | nil => simp [errSrc, takeN, conv, bind, Except.bind]
  | cons b t =>
    have h1 : ¬ (t.length + 1 < 1) := by omega
    by_cases h0 : b = 0
    · simp [errSrc, takeN, h1, flagOf, Rd.lift, h0, hK, bind, Except.bind]
    · by_cases hb1 : b = 1
      · simp [errSrc, takeN, h1, flagOf, Rd.lift, hb1, hK, bind, Except.bind]
      · simp [errSrc, takeN, h1, flagOf, Rd.lift, h0, hb1, conv, bind, Except.bind]

/-- **`readS` on "these bytes, then that error" is `Model.read`**, the end of the input reported as that error -/
theorem readS_conv (e : SErr) : ∀ (fuel : Nat) (bs : Bytes), readS errSrc fuel (bs, e) = conv e (read fuel bs)
  | 0, _ => rfl
  | fuel+1, bs => by
    have ih := readS_conv e fuel
    unfold readS read
    exact head_conv e _ _ (readS_body_conv e fuel ih) bs


end GeomV.C05.Stream
