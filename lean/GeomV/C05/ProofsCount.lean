import GeomV.C05.Proofs
/-!
# C05 — what happens at member counts ≥ 2^32 (the width of the WKB count field)

`Encodable` (every member count < 2^32) was the hypothesis of the round-trip theorem.  Here it is shown to be
exactly the domain on which the encoding is lossless:

* `C05_decoded_encodable`  every value the decoder returns, from ANY input, is `Encodable` (each list it builds has
                           the length it read from a 4-byte count field);
* `C05_roundtrip_iff`      `decode (encode bo g) = g` holds **iff** `g` is `Encodable` — a count ≥ 2^32 anywhere
                           (or an unsupported member) makes the round trip fail, it is never silently "almost right"
                           in a way the theorem's hypothesis hides;
* `C05_count_wraps`        the exact behaviour of the writer there: `uint32(len(x))` wraps, the count field holds
                           `len mod 2^32`, all points are still written, and the decoder returns the first
                           `len mod 2^32` of them (stated for a line string; the rest of the bytes is ignored by
                           `Decode` and left unread by `Read`).
-/
set_option linter.unusedSimpArgs false
set_option linter.unusedVariables false
namespace GeomV.C05
open GeomV GeomV.C05.Ogc

theorem leVal_lt' (bs : Bytes) : leVal bs < 256 ^ bs.length := by
  induction bs with
  | nil => simp [leVal]
  | cons b bs ih =>
    have := b.toNat_lt
    simp only [leVal, List.length_cons, Nat.pow_succ]
    omega

/-- a count read from the input is below 2^32 -/
theorem readU32_fits (bo : BO) (bs r : Bytes) (n : Nat) (h : readU32 bo bs = .ok (n, r)) : n < 2^32 := by
  simp only [readU32, readNat, takeN, bind, Except.bind, pure, Except.pure] at h
  by_cases hlen : bs.length < 4
  · simp [hlen] at h
  · simp only [hlen, if_false, Except.ok.injEq, Prod.mk.injEq] at h
    have hl : (bs.take 4).length = 4 := by simp; omega
    rw [← h.1]
    cases bo with
    | ndr => have := leVal_lt' (bs.take 4); rw [hl] at this; simpa [valBytes] using this
    | xdr =>
      have := leVal_lt' (bs.take 4).reverse
      rw [List.length_reverse, hl] at this; simpa [valBytes] using this

/-- `readMany rd n` returns `n` elements, each of them a result of `rd` -/
theorem readMany_inv {β : Type} (rd : Bytes → Except Err (β × Bytes)) (P : β → Prop)
    (hP : ∀ bs a r, rd bs = .ok (a, r) → P a) (n : Nat) (bs r : Bytes) (xs : List β)
    (h : readMany rd n bs = .ok (xs, r)) : xs.length = n ∧ ∀ x ∈ xs, P x := by
  induction n generalizing bs xs r with
  | zero => simp [readMany] at h; obtain ⟨rfl, _⟩ := h; simp
  | succ n ih =>
    simp only [readMany, bind, Except.bind, pure, Except.pure] at h
    cases h1 : rd bs with
    | error e => simp [h1] at h
    | ok r1 =>
      obtain ⟨x, b1⟩ := r1
      simp only [h1] at h
      cases h2 : readMany rd n b1 with
      | error e => simp [h2] at h
      | ok r2 =>
        obtain ⟨ys, b2⟩ := r2
        simp only [h2, Except.ok.injEq, Prod.mk.injEq] at h
        obtain ⟨rfl, _⟩ := h
        obtain ⟨hl, hall⟩ := ih b1 b2 ys h2
        refine ⟨by simp [hl], ?_⟩
        intro y hy
        rcases List.mem_cons.mp hy with rfl | hy
        · exact hP bs _ b1 h1
        · exact hall y hy

theorem readPoints_fits (bo : BO) (bs r : Bytes) (ps : List (Pt UInt64)) (h : readPoints bo bs = .ok (ps, r)) :
    ps.length < 2^32 := by
  simp only [readPoints, bind, Except.bind] at h
  cases h1 : readU32 bo bs with
  | error e => simp [h1] at h
  | ok r1 =>
    obtain ⟨n, b1⟩ := r1
    simp only [h1] at h
    have := (readMany_inv (readPoint bo) (fun _ => True) (fun _ _ _ _ => trivial) n b1 r ps h).1
    have hn := readU32_fits bo bs b1 n h1
    omega

theorem encodableList_of_forall (gs : List BGeom) (h : ∀ g ∈ gs, Encodable g) : EncodableList gs := by
  induction gs with
  | nil => trivial
  | cons g gs ih => exact ⟨h g (by simp), ih (fun x hx => h x (by simp [hx]))⟩

/-- a counted list of members: the count fits, every member satisfies `P` -/
theorem counted_inv {β : Type} (bo : BO) (rd : Bytes → Except Err (β × Bytes)) (k : List β → BGeom) (P : β → Prop)
    (hP : ∀ bs a r, rd bs = .ok (a, r) → P a) (bs r : Bytes) (g : BGeom)
    (h : (do let (n, bs) ← readU32 bo bs; let (xs, bs) ← readMany rd n bs; pure (k xs, bs) : Except Err (BGeom × Bytes)) = .ok (g, r)) :
    ∃ xs, g = k xs ∧ xs.length < 2^32 ∧ ∀ x ∈ xs, P x := by
  simp only [bind, Except.bind, pure, Except.pure] at h
  cases h1 : readU32 bo bs with
  | error e => simp [h1] at h
  | ok r1 =>
    obtain ⟨n, b1⟩ := r1
    simp only [h1] at h
    cases h2 : readMany rd n b1 with
    | error e => simp [h2] at h
    | ok r2 =>
      obtain ⟨xs, b2⟩ := r2
      simp only [h2, Except.ok.injEq, Prod.mk.injEq] at h
      obtain ⟨hl, hall⟩ := readMany_inv rd P hP n b1 b2 xs h2
      have hn := readU32_fits bo bs b1 n h1
      exact ⟨xs, h.1.symm, by omega, hall⟩

theorem readAs_inv {β : Type} (rd : Bytes → Except Err (BGeom × Bytes)) (cast : BGeom → Except Err β)
    (bs r : Bytes) (v : β) (h : readAs rd cast bs = .ok (v, r)) : ∃ g r', rd bs = .ok (g, r') ∧ cast g = .ok v := by
  simp only [readAs, bind, Except.bind, pure, Except.pure] at h
  cases h1 : rd bs with
  | error e => simp [h1] at h
  | ok r1 =>
    obtain ⟨g, b1⟩ := r1
    simp only [h1] at h
    cases h2 : cast g with
    | error e => simp [h2] at h
    | ok v' =>
      simp only [h2, Except.ok.injEq, Prod.mk.injEq] at h
      exact ⟨g, b1, rfl, by rw [h2, h.1]⟩

/-- the part of `read (fuel+1)` after the byte-order flag -/
theorem body_encodable (fuel : Nat) (ih : ∀ (bs r : Bytes) (g : BGeom), read fuel bs = .ok (g, r) → Encodable g)
    (bo : BO) (b1 r : Bytes) (g : BGeom)
    (h : (do
      let (code, bs) ← readU32 bo b1
      if code = 1 then do
        let (p, bs) ← readPoint bo bs; pure (.point p, bs)
      else if code = 2 then do
        let (p, bs) ← readPoints bo bs; pure (.lineString p, bs)
      else if code = 3 then do
        let (n, bs) ← readU32 bo bs
        let (r, bs) ← readMany (readPoints bo) n bs; pure (.polygon r, bs)
      else if code = 4 then do
        let (n, bs) ← readU32 bo bs
        let (r, bs) ← readMany (readAs (read fuel) asPoint) n bs; pure (.multiPoint r, bs)
      else if code = 5 then do
        let (n, bs) ← readU32 bo bs
        let (r, bs) ← readMany (readAs (read fuel) asLine) n bs; pure (.multiLineString r, bs)
      else if code = 6 then do
        let (n, bs) ← readU32 bo bs
        let (r, bs) ← readMany (readAs (read fuel) asPoly) n bs; pure (.multiPolygon r, bs)
      else if code = 7 then do
        let (n, bs) ← readU32 bo bs
        let (r, bs) ← readMany (read fuel) n bs; pure (.collection r, bs)
      else .error .badType : Except Err (BGeom × Bytes)) = .ok (g, r)) : Encodable g := by
  simp only [bind, Except.bind] at h
  cases h3 : readU32 bo b1 with
  | error e => simp [h3] at h
  | ok r3 =>
    obtain ⟨code, b3⟩ := r3
    simp only [h3] at h
    by_cases c1 : code = 1
    · simp only [c1, if_true] at h
      cases h4 : readPoint bo b3 with
      | error e => simp [h4] at h
      | ok r4 => obtain ⟨p, b4⟩ := r4; simp [h4, pure, Except.pure] at h; rw [← h.1]; trivial
    by_cases c2 : code = 2
    · simp only [c1, c2, if_true, if_false] at h
      cases h4 : readPoints bo b3 with
      | error e => simp [h4] at h
      | ok r4 =>
        obtain ⟨p, b4⟩ := r4; simp [h4, pure, Except.pure] at h; rw [← h.1]
        exact readPoints_fits bo b3 b4 p h4
    by_cases c3 : code = 3
    · simp only [c1, c2, c3, if_true, if_false] at h
      obtain ⟨xs, rfl, hl, hall⟩ := counted_inv bo (readPoints bo) .polygon (fun p => p.length < 2^32)
        (fun bs a r h => readPoints_fits bo bs r a h) b3 r g h
      exact ⟨hl, hall⟩
    by_cases c4 : code = 4
    · simp only [c1, c2, c3, c4, if_true, if_false] at h
      obtain ⟨xs, rfl, hl, _⟩ := counted_inv bo _ .multiPoint (fun _ => True) (fun _ _ _ _ => trivial) b3 r g h
      exact hl
    by_cases c5 : code = 5
    · simp only [c1, c2, c3, c4, c5, if_true, if_false] at h
      obtain ⟨xs, rfl, hl, hall⟩ := counted_inv bo (readAs (read fuel) asLine) .multiLineString
        (fun l => l.length < 2^32)
        (fun bs a r h => by
          obtain ⟨g', r', hg, hc⟩ := readAs_inv _ _ bs r a h
          have := ih bs r' g' hg
          cases g' <;> simp [asLine] at hc
          subst hc; exact this) b3 r g h
      exact ⟨hl, hall⟩
    by_cases c6 : code = 6
    · simp only [c1, c2, c3, c4, c5, c6, if_true, if_false] at h
      obtain ⟨xs, rfl, hl, hall⟩ := counted_inv bo (readAs (read fuel) asPoly) .multiPolygon
        (fun p => p.length < 2^32 ∧ ∀ r ∈ p, r.length < 2^32)
        (fun bs a r h => by
          obtain ⟨g', r', hg, hc⟩ := readAs_inv _ _ bs r a h
          have := ih bs r' g' hg
          cases g' <;> simp [asPoly] at hc
          subst hc; exact this) b3 r g h
      exact ⟨hl, hall⟩
    by_cases c7 : code = 7
    · simp only [c1, c2, c3, c4, c5, c6, c7, if_true, if_false] at h
      obtain ⟨xs, rfl, hl, hall⟩ := counted_inv bo (read fuel) .collection Encodable
        (fun bs a r h => ih bs r a h) b3 r g h
      exact ⟨by simpa [fits, listLen_eq] using hl, encodableList_of_forall xs hall⟩
    · simp [c1, c2, c3, c4, c5, c6, c7] at h

/-- **C05_decoded_encodable.** Whatever the input (well-formed or not), a value returned by `wkb.Read` has
every member count below 2^32 and contains no unsupported member: the decoder's range lies inside `Encodable`. -/
theorem C05_decoded_encodable : ∀ (fuel : Nat) (bs r : Bytes) (g : BGeom),
    read fuel bs = .ok (g, r) → Encodable g
  | 0, _, _, _, h => by simp [read] at h
  | fuel+1, bs, r, g, h => by
    have ih := C05_decoded_encodable fuel
    unfold read at h
    cases bs with
    | nil => simp [takeN, bind, Except.bind] at h
    | cons b t =>
      have h1 : takeN 1 (b :: t) = .ok ([b], t) := by simp [takeN]
      simp only [h1, bind, Except.bind] at h
      by_cases h0 : b = 0
      · simp only [h0, if_true] at h
        exact body_encodable fuel ih .xdr t r g h
      · by_cases hb1 : b = 1
        · simp only [hb1] at h
          exact body_encodable fuel ih .ndr t r g h
        · simp [h0, hb1] at h

/-- **C05_roundtrip_iff.** For every geometry `g` whatsoever and both byte orders: `wkb.Encode` succeeds and
`wkb.Decode` of its result is `g` **if and only if** `g` is `Encodable` (seven types, no unsupported member, every
member count below 2^32).  So the hypothesis of `C05_roundtrip` is not merely sufficient: outside it the encoding
is never lossless. -/
theorem C05_roundtrip_iff (bo : BO) (g : BGeom) :
    (∃ bs, encode bo g = .ok bs ∧ decode bs = .ok g) ↔ Encodable g := by
  constructor
  · rintro ⟨bs, _, hd⟩
    simp only [decode] at hd
    cases h : read (bs.length + 1) bs with
    | error e => simp [h, Functor.map, Except.map] at hd
    | ok r =>
      obtain ⟨g', r'⟩ := r
      simp [h, Functor.map, Except.map] at hd
      subst hd
      exact C05_decoded_encodable _ bs r' g' h
  · exact C05_roundtrip bo g

theorem flatMap_take_drop {α β : Type} (f : α → List β) (xs : List α) (m : Nat) :
    xs.flatMap f = (xs.take m).flatMap f ++ (xs.drop m).flatMap f := by
  rw [← List.flatMap_append, List.take_append_drop]

/-- **C05_count_wraps.** The exact behaviour at a count ≥ 2^32, for a line string of ANY length: the writer
succeeds, the count field holds `len mod 2^32` (Go's `uint32(len(points))` wraps) followed by all `len` points;
the decoder returns the first `len mod 2^32` points and leaves (`Read`) / ignores (`Decode`) the others.  For
`len < 2^32` this is the round trip. -/
theorem C05_count_wraps (bo : BO) (ps : List (Pt UInt64)) :
    write bo (.lineString ps) =
      .ok (flag bo :: natBytes bo 4 2 ++ natBytes bo 4 (ps.length % 2^32) ++ ps.flatMap (writePoint bo)) ∧
    ∀ bs, write bo (.lineString ps) = .ok bs →
      decode bs = .ok (.lineString (ps.take (ps.length % 2^32))) ∧
      read (bs.length + 1) bs =
        .ok (.lineString (ps.take (ps.length % 2^32)), (ps.drop (ps.length % 2^32)).flatMap (writePoint bo)) := by
  refine ⟨by simp [write, header, writePoints, u32], ?_⟩
  intro bs hbs
  simp only [write, Except.ok.injEq] at hbs
  subst hbs
  have hm : ps.length % 2^32 < 2^32 := Nat.mod_lt _ (by decide)
  have hle : ps.length % 2^32 ≤ ps.length := Nat.mod_le _ _
  have hu : u32 bo ps.length = u32 bo (ps.length % 2^32) := by simp [u32]
  have hlen : (ps.take (ps.length % 2^32)).length = ps.length % 2^32 := by simp [hle]
  have hrd : read ((header bo 2 ++ writePoints bo ps).length + 1) (header bo 2 ++ writePoints bo ps) =
      .ok (.lineString (ps.take (ps.length % 2^32)), (ps.drop (ps.length % 2^32)).flatMap (writePoint bo)) := by
    have hh := read_header (header bo 2 ++ writePoints bo ps).length bo 2 (by decide) (writePoints bo ps)
    simp only [header, List.cons_append] at hh ⊢
    rw [hh]
    have hrm := readMany_flatMap (readPoint bo) (writePoint bo) (ps.take (ps.length % 2^32))
      ((ps.drop (ps.length % 2^32)).flatMap (writePoint bo)) (fun x _ r => readPoint_writePoint bo x r)
    rw [hlen, ← flatMap_take_drop] at hrm
    simp [readPoints, writePoints, hu, readU32_u32 bo _ _ hm, hrm, bind, Except.bind, pure, Except.pure]
  exact ⟨by simp only [decode]; rw [hrd]; rfl, hrd⟩

/-! non-vacuity: both sides of the equivalence are inhabited -/
example : Encodable (.lineString [⟨1, 2⟩]) := by simp [Encodable, fits]
example : ¬ Encodable (.collection [.nil]) := by simp [Encodable, EncodableList]

end GeomV.C05
