import GeomV.C05.Sink
/-!
# C05 — theorems about `wkb.Write` on writers that may fail (`Sink.lean`)

* `writeW_eq`: the call-by-call `writeW` is "hand over `pieces` one call after the other, then return
  the wkb error met after them";
* `pieces_write`: the pieces concatenate to `Model.write`'s bytes, and the wkb error is `Model.write`'s;
* `C05_sink_ok`, `C05_sink_prefix`, `C05_sink_limit`, `C05_sink_unsupported`.
-/
namespace GeomV.C05.Sink
open GeomV GeomV.C05

section basics
variable {σ : Type}

@[simp] theorem andThen_none (s : σ) (k : σ → Res σ) : andThen (s, none) k = k s := rfl
@[simp] theorem andThen_some (s : σ) (e : WErr) (k : σ → Res σ) : andThen (s, some e) k = (s, some e) := rfl

theorem andThen_assoc (r : Res σ) (k1 k2 : σ → Res σ) :
    andThen (andThen r k1) k2 = andThen r (fun s => andThen (k1 s) k2) := by
  rcases r with ⟨s, _ | e⟩ <;> rfl

theorem andThen_pure (r : Res σ) : andThen r (fun s => (s, none)) = r := by
  rcases r with ⟨s, _ | e⟩ <;> rfl

theorem andThen_congr (r : Res σ) (k1 k2 : σ → Res σ) (h : ∀ s, k1 s = k2 s) :
    andThen r k1 = andThen r k2 := by
  have : k1 = k2 := funext h
  rw [this]

variable (S : Sink σ)

theorem runPuts_append (a b : List Bytes) (s : σ) :
    runPuts S (a ++ b) s = andThen (runPuts S a s) (runPuts S b) := by
  induction a generalizing s with
  | nil => rfl
  | cons p a ih =>
    simp only [List.cons_append, runPuts, andThen_assoc]
    exact andThen_congr _ _ _ ih

theorem runPuts_single (p : Bytes) (s : σ) : runPuts S [p] s = binW S p s := by
  simp only [runPuts]; exact andThen_pure _

theorem runPieces_none (ps : List Bytes) (s : σ) : runPieces S (ps, none) s = runPuts S ps s := by
  simp only [runPieces, Option.map_none]; exact andThen_pure _

theorem runPieces_append (a ps : List Bytes) (e : Option Err) (s : σ) :
    runPieces S (a ++ ps, e) s = andThen (runPuts S a s) (runPieces S (ps, e)) := by
  simp only [runPieces, runPuts_append, andThen_assoc]
  rfl

theorem runPieces_cons (p : Bytes) (ps : List Bytes) (e : Option Err) (s : σ) :
    runPieces S (p :: ps, e) s = andThen (binW S p s) (runPieces S (ps, e)) := by
  simp only [runPieces, runPuts, andThen_assoc]
  rfl

theorem runPieces_some_stop (ps : List Bytes) (e : Err) (s : σ) (k : σ → Res σ) :
    andThen (runPieces S (ps, some e) s) k = runPieces S (ps, some e) s := by
  simp only [runPieces, andThen_assoc, Option.map_some, andThen_some]

theorem wEach_eq {α : Type} (f : α → σ → Res σ) (pc : α → List Bytes)
    (h : ∀ x s, f x s = runPuts S (pc x) s) (xs : List α) (s : σ) :
    wEach f xs s = runPuts S (xs.flatMap pc) s := by
  induction xs generalizing s with
  | nil => rfl
  | cons x xs ih =>
    simp only [wEach, List.flatMap_cons, runPuts_append, h]
    exact andThen_congr _ _ _ ih

theorem wHeader_eq (bo : BO) (c : Nat) (s : σ) : wHeader S bo c s = runPuts S (pcHeader bo c) s := by
  simp only [wHeader, pcHeader, runPuts]
  exact andThen_congr _ _ _ (fun s => (andThen_pure _).symm)

theorem wPoint_eq (bo : BO) (p : Pt UInt64) (s : σ) :
    wPoint S bo p s = runPuts S [writePoint bo p] s := by
  simp only [wPoint, runPuts_single]

theorem wPoints_eq (bo : BO) (ps : List (Pt UInt64)) (s : σ) :
    wPoints S bo ps s = runPuts S (pcPoints bo ps) s := by
  simp only [wPoints, pcPoints, runPuts]
  exact andThen_congr _ _ _ (fun s => (andThen_pure _).symm)

theorem wPointss_eq (bo : BO) (pss : List (List (Pt UInt64))) (s : σ) :
    wPointss S bo pss s = runPuts S (pcPointss bo pss) s := by
  simp only [wPointss, pcPointss, runPuts]
  exact andThen_congr _ _ _ (wEach_eq S _ _ (wPoints_eq S bo) pss)

theorem wGeomPoint_eq (bo : BO) (p : Pt UInt64) (s : σ) :
    wGeomPoint S bo p s = runPuts S (pcGeomPoint bo p) s := by
  simp only [wGeomPoint, pcGeomPoint, runPuts_append, wHeader_eq]
  exact andThen_congr _ _ _ (wPoint_eq S bo p)

theorem wGeomLine_eq (bo : BO) (ps : List (Pt UInt64)) (s : σ) :
    wGeomLine S bo ps s = runPuts S (pcGeomLine bo ps) s := by
  simp only [wGeomLine, pcGeomLine, runPuts_append, wHeader_eq]
  exact andThen_congr _ _ _ (wPoints_eq S bo ps)

theorem wGeomPoly_eq (bo : BO) (rs : List (List (Pt UInt64))) (s : σ) :
    wGeomPoly S bo rs s = runPuts S (pcGeomPoly bo rs) s := by
  simp only [wGeomPoly, pcGeomPoly, runPuts_append, wHeader_eq]
  exact andThen_congr _ _ _ (wPointss_eq S bo rs)

/-- header, count, then a loop over members each of which is a fixed list of pieces -/
theorem multi_eq {α : Type} (bo : BO) (c n : Nat) (f : α → σ → Res σ) (pc : α → List Bytes)
    (h : ∀ x s, f x s = runPuts S (pc x) s) (xs : List α) (s : σ) :
    (andThen (wHeader S bo c s) fun s => andThen (binW S (u32 bo n) s) (wEach f xs)) =
      runPieces S (pcHeader bo c ++ u32 bo n :: xs.flatMap pc, none) s := by
  simp only [runPieces_none, runPuts_append, runPuts, wHeader_eq]
  exact andThen_congr _ _ _ (fun s => andThen_congr _ _ _ (wEach_eq S f pc h xs))

mutual
/-- `wkb.Write` over any writer = its pieces handed over call by call until one call fails, then the
wkb error (if any) met after them. -/
theorem writeW_eq (bo : BO) (g : BGeom) (s : σ) : writeW S bo g s = runPieces S (pieces bo g) s := by
  cases g with
  | point p => simp only [writeW, pieces, runPieces_none, wGeomPoint_eq]
  | lineString ps => simp only [writeW, pieces, runPieces_none, wGeomLine_eq]
  | polygon rs => simp only [writeW, pieces, runPieces_none, wGeomPoly_eq]
  | multiPoint ps =>
    simp only [writeW, pieces]; exact multi_eq S bo 4 _ _ _ (wGeomPoint_eq S bo) ps s
  | multiLineString ls =>
    simp only [writeW, pieces]; exact multi_eq S bo 5 _ _ _ (wGeomLine_eq S bo) ls s
  | multiPolygon ps =>
    simp only [writeW, pieces]; exact multi_eq S bo 6 _ _ _ (wGeomPoly_eq S bo) ps s
  | collection gs =>
    simp only [writeW, pieces]
    rw [runPieces_append, wHeader_eq]
    refine andThen_congr _ _ _ (fun s => ?_)
    rw [runPieces_cons]
    exact andThen_congr _ _ _ (writeWList_eq bo gs)
  | bounds a b =>
    simp only [writeW, pieces, runPieces_cons]
    exact andThen_congr _ _ _ (fun s => rfl)
  | nil =>
    simp only [writeW, pieces, runPieces_cons]
    exact andThen_congr _ _ _ (fun s => rfl)
theorem writeWList_eq (bo : BO) (gs : List BGeom) (s : σ) :
    writeWList S bo gs s = runPieces S (piecesList bo gs) s := by
  cases gs with
  | nil => rfl
  | cons g gs =>
    simp only [writeWList, piecesList]
    rw [writeW_eq bo g s]
    rcases hp : pieces bo g with ⟨ps, _ | e⟩
    · simp only [runPieces_none]
      rw [runPieces_append]
      exact andThen_congr _ _ _ (writeWList_eq bo gs)
    · simp only [runPieces_some_stop]
end

end basics

/-! ### the pieces concatenate to `Model.write`'s bytes -/

theorem flatten_flatMap' {α : Type} (f : α → List Bytes) (g : α → Bytes)
    (h : ∀ x, (f x).flatten = g x) (xs : List α) : (xs.flatMap f).flatten = xs.flatMap g := by
  induction xs with
  | nil => rfl
  | cons x xs ih => simp only [List.flatMap_cons, List.flatten_append, h, ih]

theorem pcHeader_flat (bo : BO) (c : Nat) : (pcHeader bo c).flatten = header bo c := by
  simp [pcHeader, header]

theorem pcPoints_flat (bo : BO) (ps : List (Pt UInt64)) : (pcPoints bo ps).flatten = writePoints bo ps := by
  simp [pcPoints, writePoints]

theorem pcPointss_flat (bo : BO) (pss : List (List (Pt UInt64))) :
    (pcPointss bo pss).flatten = writePointss bo pss := by
  simp only [pcPointss, writePointss, List.flatten_cons, flatten_flatMap' _ _ (pcPoints_flat bo)]

theorem pcGeomPoint_flat (bo : BO) (p : Pt UInt64) :
    (pcGeomPoint bo p).flatten = header bo 1 ++ writePoint bo p := by
  simp [pcGeomPoint, pcHeader_flat]

theorem pcGeomLine_flat (bo : BO) (ps : List (Pt UInt64)) :
    (pcGeomLine bo ps).flatten = header bo 2 ++ writePoints bo ps := by
  simp only [pcGeomLine, List.flatten_append, pcHeader_flat, pcPoints_flat]

theorem pcGeomPoly_flat (bo : BO) (rs : List (List (Pt UInt64))) :
    (pcGeomPoly bo rs).flatten = header bo 3 ++ writePointss bo rs := by
  simp only [pcGeomPoly, List.flatten_append, pcHeader_flat, pcPointss_flat]

theorem multi_flat {α : Type} (bo : BO) (c n : Nat) (pc : α → List Bytes) (w : α → Bytes)
    (h : ∀ x, (pc x).flatten = w x) (xs : List α) :
    (pcHeader bo c ++ u32 bo n :: xs.flatMap pc).flatten = header bo c ++ u32 bo n ++ xs.flatMap w := by
  simp only [List.flatten_append, List.flatten_cons, pcHeader_flat, flatten_flatMap' _ _ h,
    List.append_assoc]

mutual
/-- The buffers handed to a never-failing writer concatenate to `Model.write`'s bytes, and the error
returned after them is `Model.write`'s error. -/
theorem pieces_write (bo : BO) (g : BGeom) :
    (∀ enc, write bo g = .ok enc → (pieces bo g).2 = none ∧ (pieces bo g).1.flatten = enc) ∧
    (∀ e, write bo g = .error e → (pieces bo g).2 = some e) := by
  cases g with
  | point p =>
    refine ⟨fun enc h => ?_, fun e h => by simp [write] at h⟩
    simp only [write, Except.ok.injEq] at h; subst h
    exact ⟨rfl, pcGeomPoint_flat bo p⟩
  | lineString ps =>
    refine ⟨fun enc h => ?_, fun e h => by simp [write] at h⟩
    simp only [write, Except.ok.injEq] at h; subst h
    exact ⟨rfl, pcGeomLine_flat bo ps⟩
  | polygon rs =>
    refine ⟨fun enc h => ?_, fun e h => by simp [write] at h⟩
    simp only [write, Except.ok.injEq] at h; subst h
    exact ⟨rfl, pcGeomPoly_flat bo rs⟩
  | multiPoint ps =>
    refine ⟨fun enc h => ?_, fun e h => by simp [write] at h⟩
    simp only [write, Except.ok.injEq] at h; subst h
    exact ⟨rfl, multi_flat bo 4 _ _ _ (pcGeomPoint_flat bo) ps⟩
  | multiLineString ls =>
    refine ⟨fun enc h => ?_, fun e h => by simp [write] at h⟩
    simp only [write, Except.ok.injEq] at h; subst h
    exact ⟨rfl, multi_flat bo 5 _ _ _ (pcGeomLine_flat bo) ls⟩
  | multiPolygon ps =>
    refine ⟨fun enc h => ?_, fun e h => by simp [write] at h⟩
    simp only [write, Except.ok.injEq] at h; subst h
    exact ⟨rfl, multi_flat bo 6 _ _ _ (pcGeomPoly_flat bo) ps⟩
  | collection gs =>
    have ih := piecesList_write bo gs
    cases hl : writeList bo gs with
    | ok body =>
      obtain ⟨h1, h2⟩ := ih.1 body hl
      refine ⟨fun enc h => ?_, fun e h => ?_⟩
      · simp [write, hl, bind, Except.bind, pure, Except.pure] at h
        subst h
        refine ⟨by simp only [pieces, h1], ?_⟩
        simp only [pieces, List.flatten_append, List.flatten_cons, pcHeader_flat, h2]
      · simp [write, hl, bind, Except.bind, pure, Except.pure] at h
    | error e' =>
      have h1 := ih.2 e' hl
      refine ⟨fun enc h => ?_, fun e h => ?_⟩
      · simp [write, hl, bind, Except.bind] at h
      · simp [write, hl, bind, Except.bind] at h
        subst h
        simp only [pieces, h1]
  | bounds a b =>
    refine ⟨fun enc h => by simp [write] at h, fun e h => ?_⟩
    simp only [write, Except.error.injEq] at h; subst h; rfl
  | nil =>
    refine ⟨fun enc h => by simp [write] at h, fun e h => ?_⟩
    simp only [write, Except.error.injEq] at h; subst h; rfl
theorem piecesList_write (bo : BO) (gs : List BGeom) :
    (∀ enc, writeList bo gs = .ok enc →
      (piecesList bo gs).2 = none ∧ (piecesList bo gs).1.flatten = enc) ∧
    (∀ e, writeList bo gs = .error e → (piecesList bo gs).2 = some e) := by
  cases gs with
  | nil =>
    refine ⟨fun enc h => ?_, fun e h => by simp [writeList] at h⟩
    simp only [writeList, Except.ok.injEq] at h; subst h
    exact ⟨rfl, rfl⟩
  | cons g gs =>
    have ihg := pieces_write bo g
    have ihl := piecesList_write bo gs
    cases hg : write bo g with
    | error e' =>
      have h1 := ihg.2 e' hg
      refine ⟨fun enc h => ?_, fun e h => ?_⟩
      · simp [writeList, hg, bind, Except.bind] at h
      · simp [writeList, hg, bind, Except.bind] at h
        subst h
        simp only [piecesList, h1]
    | ok a =>
      obtain ⟨h1, h2⟩ := ihg.1 a hg
      cases hl : writeList bo gs with
      | error e' =>
        have h3 := ihl.2 e' hl
        refine ⟨fun enc h => ?_, fun e h => ?_⟩
        · simp [writeList, hg, hl, bind, Except.bind] at h
        · simp [writeList, hg, hl, bind, Except.bind] at h
          subst h
          simp only [piecesList, h1, h3]
      | ok b =>
        obtain ⟨h3, h4⟩ := ihl.1 b hl
        refine ⟨fun enc h => ?_, fun e h => ?_⟩
        · simp [writeList, hg, hl, bind, Except.bind, pure, Except.pure] at h
          subst h
          simp only [piecesList, h1, h3, List.flatten_append, h2, h4, and_self]
        · simp [writeList, hg, hl, bind, Except.bind, pure, Except.pure] at h
end

/-! ### honest sinks -/

theorem bufSink_honest : Honest bufSink := fun p s => ⟨⟨p.length, by simp [bufSink]⟩, fun _ => rfl⟩
theorem bufSink_neverFails : NeverFails bufSink := fun _ _ => rfl

/-- The `wrfail` writer keeps io.Writer's contract. -/
theorem limSink_honest : Honest limSink := by
  intro p w
  by_cases h : w.acc.length + p.length > w.limit
  · refine ⟨⟨w.limit - w.acc.length, ?_⟩, fun hn => ?_⟩
    · simp [limSink, LimW.put, h]
    · simp [limSink, LimW.put, h] at hn
  · refine ⟨⟨p.length, ?_⟩, fun _ => ?_⟩
    · simp [limSink, LimW.put, h]
    · simp [limSink, LimW.put, h]

section generic
variable {σ : Type} (S : Sink σ)

/-- what an honest writer has received after a sequence of calls is what it had, followed by a prefix of
the concatenation of the buffers; all of it if no call failed; and a failure is the writer's error -/
theorem honest_runPuts (hS : Honest S) (ps : List Bytes) (s : σ) :
    ∃ handed rest, S.trace (runPuts S ps s).1 = S.trace s ++ handed ∧ ps.flatten = handed ++ rest ∧
      ((runPuts S ps s).2 = none → rest = []) ∧
      (∀ e, (runPuts S ps s).2 = some e → ∃ c, e = .io c) := by
  induction ps generalizing s with
  | nil => exact ⟨[], [], by simp [runPuts], rfl, fun _ => rfl, fun e h => by simp [runPuts] at h⟩
  | cons p ps ih =>
    obtain ⟨⟨k, hk⟩, hfull⟩ := hS p s
    rcases hput : S.put p s with ⟨s', _ | c⟩
    · rw [hput] at hfull hk
      have hb : binW S p s = (s', none) := by simp only [binW, hput]
      obtain ⟨h', r', e1, e2, e3, e4⟩ := ih s'
      refine ⟨p ++ h', r', ?_, ?_, ?_, ?_⟩
      · simp only [runPuts, hb, andThen_none, e1, hfull rfl, List.append_assoc]
      · simp only [List.flatten_cons, e2, List.append_assoc]
      · simpa only [runPuts, hb, andThen_none] using e3
      · simpa only [runPuts, hb, andThen_none] using e4
    · rw [hput] at hk
      have hb : binW S p s = (s', some (.io c)) := by simp only [binW, hput]
      refine ⟨p.take k, p.drop k ++ ps.flatten, ?_, ?_, ?_, ?_⟩
      · simp only [runPuts, hb, andThen_some, hk]
      · simp only [List.flatten_cons, ← List.append_assoc, List.take_append_drop]
      · intro h; simp [runPuts, hb] at h
      · intro e h
        simp only [runPuts, hb, andThen_some, Option.some.injEq] at h
        exact ⟨c, h.symm⟩

/-- on a writer that never fails all pieces arrive -/
theorem neverFails_runPuts (hS : Honest S) (hN : NeverFails S) (ps : List Bytes) (s : σ) :
    (runPuts S ps s).2 = none ∧ S.trace (runPuts S ps s).1 = S.trace s ++ ps.flatten := by
  induction ps generalizing s with
  | nil => simp [runPuts]
  | cons p ps ih =>
    have hn := hN p s
    have hfull := (hS p s).2 hn
    rcases hput : S.put p s with ⟨s', _ | c⟩
    · rw [hput] at hfull
      have hb : binW S p s = (s', none) := by simp only [binW, hput]
      obtain ⟨e1, e2⟩ := ih s'
      have hfull' : S.trace s' = S.trace s ++ p := hfull
      refine ⟨?_, ?_⟩
      · simp only [runPuts, hb, andThen_none, e1]
      · simp only [runPuts, hb, andThen_none, e2, hfull', List.flatten_cons, List.append_assoc]
    · rw [hput] at hn; simp at hn

/-- **C05_sink_ok.** On a writer that keeps io.Writer's contract and never fails, the call-by-call
`wkb.Write` returns nil exactly when `Model.write` produces bytes, and then the writer has received
exactly those bytes after what it had before: `Model.write` IS what a `bytes.Buffer` (or a file, a
socket ... as long as it does not fail) receives. -/
theorem C05_sink_ok (hS : Honest S) (hN : NeverFails S) (bo : BO) (g : BGeom) (s : σ) :
    ((writeW S bo g s).2 = none ↔ ∃ enc, write bo g = .ok enc) ∧
    (∀ enc, write bo g = .ok enc →
      (writeW S bo g s).2 = none ∧ S.trace (writeW S bo g s).1 = S.trace s ++ enc) := by
  have hw := pieces_write bo g
  obtain ⟨r1, r2⟩ := neverFails_runPuts S hS hN (pieces bo g).1 s
  have key : ∀ enc, write bo g = .ok enc →
      (writeW S bo g s).2 = none ∧ S.trace (writeW S bo g s).1 = S.trace s ++ enc := by
    intro enc h
    obtain ⟨h1, h2⟩ := hw.1 enc h
    rw [writeW_eq, show pieces bo g = ((pieces bo g).1, none) from by rw [← h1], runPieces_none,
      ← h2]
    exact ⟨r1, r2⟩
  refine ⟨⟨fun h => ?_, fun ⟨enc, h⟩ => (key enc h).1⟩, key⟩
  cases hg : write bo g with
  | ok enc => exact ⟨enc, rfl⟩
  | error e =>
    have h1 := hw.2 e hg
    rw [writeW_eq, show pieces bo g = ((pieces bo g).1, some e) from by rw [← h1]] at h
    rcases hr : runPuts S (pieces bo g).1 s with ⟨s', _ | e'⟩
    · simp [runPieces, hr] at h
    · rw [hr] at r1; simp at r1

/-- **C05_sink_prefix.** Whatever the writer does, as long as it keeps io.Writer's contract: when the
value is encodable (`Model.write` gives `enc`), the bytes handed over during the call are a prefix of
`enc` — all of `enc` when the call returns nil —, never anything else, and an error returned by the call
is the writer's own error, never one of wkb's. -/
theorem C05_sink_prefix (hS : Honest S) (bo : BO) (g : BGeom) (enc : Bytes) (h : write bo g = .ok enc)
    (s : σ) :
    ∃ handed rest, S.trace (writeW S bo g s).1 = S.trace s ++ handed ∧ enc = handed ++ rest ∧
      ((writeW S bo g s).2 = none → rest = []) ∧
      (∀ e, (writeW S bo g s).2 = some e → ∃ c, e = .io c) := by
  obtain ⟨h1, h2⟩ := (pieces_write bo g).1 enc h
  obtain ⟨handed, rest, e1, e2, e3, e4⟩ := honest_runPuts S hS (pieces bo g).1 s
  rw [writeW_eq, show pieces bo g = ((pieces bo g).1, none) from by rw [← h1], runPieces_none]
  exact ⟨handed, rest, e1, by rw [← h2, e2], e3, e4⟩

/-- **C05_sink_unsupported.** When `Model.write` is an error (`*Bounds` or nil somewhere), a writer that
never fails sees that error, AFTER having received the pieces written before it was met: headers and
counts of the enclosing collections, the complete encodings of the earlier members, and the byte-order
flag of the unsupported value itself (see `pieces_unsupported_member` for the exact bytes). -/
theorem C05_sink_unsupported (hS : Honest S) (hN : NeverFails S) (bo : BO) (g : BGeom) (e : Err)
    (h : write bo g = .error e) (s : σ) :
    (writeW S bo g s).2 = some (.wkb e) ∧
    S.trace (writeW S bo g s).1 = S.trace s ++ (pieces bo g).1.flatten := by
  have h1 := (pieces_write bo g).2 e h
  obtain ⟨r1, r2⟩ := neverFails_runPuts S hS hN (pieces bo g).1 s
  rw [writeW_eq, show pieces bo g = ((pieces bo g).1, some e) from by rw [← h1]]
  rcases hr : runPuts S (pieces bo g).1 s with ⟨s', _ | e'⟩
  · rw [hr] at r2
    refine ⟨?_, ?_⟩
    · simp only [runPieces, hr, andThen_none, Option.map_some]
    · simpa only [runPieces, hr, andThen_none] using r2
  · rw [hr] at r1; simp at r1

/-- the same on any honest writer: it has received a prefix of those pieces, and the call returns
either the writer's error or (everything having been accepted) the wkb error -/
theorem C05_sink_unsupported_any (hS : Honest S) (bo : BO) (g : BGeom) (e : Err)
    (h : write bo g = .error e) (s : σ) :
    ∃ handed rest, S.trace (writeW S bo g s).1 = S.trace s ++ handed ∧
      (pieces bo g).1.flatten = handed ++ rest ∧
      (((writeW S bo g s).2 = some (.wkb e) ∧ rest = []) ∨ ∃ c, (writeW S bo g s).2 = some (.io c)) := by
  have h1 := (pieces_write bo g).2 e h
  obtain ⟨handed, rest, e1, e2, e3, e4⟩ := honest_runPuts S hS (pieces bo g).1 s
  rw [writeW_eq, show pieces bo g = ((pieces bo g).1, some e) from by rw [← h1]]
  rcases hr : runPuts S (pieces bo g).1 s with ⟨s', _ | e'⟩
  · rw [hr] at e1 e3
    refine ⟨handed, rest, ?_, e2, Or.inl ⟨?_, e3 rfl⟩⟩
    · simpa only [runPieces, hr, andThen_none] using e1
    · simp only [runPieces, hr, andThen_none, Option.map_some]
  · rw [hr] at e1 e4
    obtain ⟨c, hc⟩ := e4 e' rfl
    refine ⟨handed, rest, ?_, e2, Or.inr ⟨c, ?_⟩⟩
    · simpa only [runPieces, hr, andThen_some] using e1
    · simp only [runPieces, hr, andThen_some, hc]

end generic

/-- what a collection hands over when its member `g` is the first unsupported one: the complete
encodings of the members before it, then what `g` itself hands over -/
theorem pieces_unsupported_member (bo : BO) (pre : List BGeom) (g : BGeom) (post : List BGeom)
    (encs : Bytes) (e : Err) (hpre : writeList bo pre = .ok encs) (hg : write bo g = .error e) :
    (piecesList bo (pre ++ g :: post)).2 = some e ∧
    (piecesList bo (pre ++ g :: post)).1.flatten = encs ++ (pieces bo g).1.flatten := by
  induction pre generalizing encs with
  | nil =>
    have h1 := (pieces_write bo g).2 e hg
    simp only [writeList, Except.ok.injEq] at hpre; subst hpre
    simp only [List.nil_append, piecesList, h1, and_self]
  | cons a pre ih =>
    cases ha : write bo a with
    | error e' => simp [writeList, ha, bind, Except.bind] at hpre
    | ok ea =>
      cases hl : writeList bo pre with
      | error e' => simp [writeList, ha, hl, bind, Except.bind] at hpre
      | ok el =>
        simp [writeList, ha, hl, bind, Except.bind, pure, Except.pure] at hpre
        subst hpre
        obtain ⟨h1, h2⟩ := (pieces_write bo a).1 ea ha
        obtain ⟨i1, i2⟩ := ih el hl
        simp only [List.cons_append, piecesList, h1, i1, List.flatten_append, h2, i2,
          List.append_assoc, and_self]

/-! ### the `wrfail` writer -/

/-- the limited writer on a sequence of calls: everything if it fits, otherwise the part that fits and
the writer's error -/
theorem lim_runPuts (ps : List Bytes) (w : LimW) (hw : w.acc.length ≤ w.limit) :
    runPuts limSink ps w =
      if w.acc.length + ps.flatten.length ≤ w.limit then ({ w with acc := w.acc ++ ps.flatten }, none)
      else ({ w with acc := w.acc ++ ps.flatten.take (w.limit - w.acc.length) }, some (.io w.code)) := by
  induction ps generalizing w with
  | nil => simp [runPuts, hw]
  | cons p ps ih =>
    by_cases h : w.acc.length + p.length > w.limit
    · have hb : binW limSink p w =
          ({ w with acc := w.acc ++ p.take (w.limit - w.acc.length) }, some (.io w.code)) := by
        simp [binW, limSink, LimW.put, h]
      have h2 : ¬ (w.acc.length + (p.length + ps.flatten.length) ≤ w.limit) := by omega
      have h3 : w.limit - w.acc.length ≤ p.length := by omega
      simp only [runPuts, hb, andThen_some, List.flatten_cons, List.length_append, h2, if_false,
        List.take_append_of_le_length h3]
    · have hb : binW limSink p w = ({ w with acc := w.acc ++ p }, none) := by
        simp [binW, limSink, LimW.put, h]
      have hw' : ({ w with acc := w.acc ++ p } : LimW).acc.length
          ≤ ({ w with acc := w.acc ++ p } : LimW).limit := by
        simp only [List.length_append]; omega
      have h4 : p.take (w.limit - w.acc.length) = p := List.take_of_length_le (by omega)
      simp only [runPuts, hb, andThen_none, ih _ hw', List.flatten_cons, List.length_append,
        List.append_assoc, Nat.add_assoc, List.take_append, h4, Nat.sub_sub]

/-- **C05_sink_limit.** `wkb.Write` into the writer of the `wrfail` lines (accepts `limit` bytes in
total, then fails with its own error, accepting the part that fits of the call that crosses the limit),
for an encodable value with encoding `enc`, `room` = what the writer still accepts:
if `enc` does not fit the call returns the WRITER's error and the writer has received exactly the first
`room` bytes of `enc`; if it fits the call returns nil and the writer has received exactly `enc`. -/
theorem C05_sink_limit (bo : BO) (g : BGeom) (enc : Bytes) (h : write bo g = .ok enc)
    (w : LimW) (hw : w.acc.length ≤ w.limit) :
    (w.limit - w.acc.length < enc.length →
      writeW limSink bo g w =
        ({ w with acc := w.acc ++ enc.take (w.limit - w.acc.length) }, some (.io w.code))) ∧
    (enc.length ≤ w.limit - w.acc.length →
      writeW limSink bo g w = ({ w with acc := w.acc ++ enc }, none)) := by
  obtain ⟨h1, h2⟩ := (pieces_write bo g).1 enc h
  rw [writeW_eq, show pieces bo g = ((pieces bo g).1, none) from by rw [← h1], runPieces_none,
    lim_runPuts _ w hw, h2]
  constructor
  · intro hlt
    have : ¬ (w.acc.length + enc.length ≤ w.limit) := by omega
    simp only [this, if_false]
  · intro hle
    have : w.acc.length + enc.length ≤ w.limit := by omega
    simp only [this, if_true]

/-- `C05_sink_limit` for a fresh writer: exactly what a `wrfail <limit> <bo> <geom>` line prints -/
theorem C05_sink_limit_fresh (bo : BO) (g : BGeom) (enc : Bytes) (h : write bo g = .ok enc)
    (limit code : Nat) :
    (limit < enc.length →
      writeW limSink bo g (LimW.new limit code) = (⟨enc.take limit, limit, code⟩, some (.io code))) ∧
    (enc.length ≤ limit →
      writeW limSink bo g (LimW.new limit code) = (⟨enc, limit, code⟩, none)) := by
  have := C05_sink_limit bo g enc h (LimW.new limit code) (by simp [LimW.new])
  simpa [LimW.new] using this

/-! ### non-vacuity -/

/-- a point, limit 7: flag, type code (5 bytes accepted), then 2 of the point's 16 bytes and the error -/
example : writeW limSink .ndr (.point ⟨1, 2⟩) (LimW.new 7 9) =
    (⟨[1, 1, 0, 0, 0, 1, 0], 7, 9⟩, some (.io 9)) := by decide +kernel

/-- a line string of one point, limit 7: the count is cut in two -/
example : writeW limSink .xdr (.lineString [⟨1, 2⟩]) (LimW.new 7 9) =
    (⟨[0, 0, 0, 0, 2, 0, 0], 7, 9⟩, some (.io 9)) := by decide +kernel

/-- an empty line string is 9 bytes, the last `w.Write` call has no bytes and does not fail at the limit -/
example : writeW limSink .ndr (.lineString []) (LimW.new 9 9) =
    (⟨[1, 2, 0, 0, 0, 0, 0, 0, 0], 9, 9⟩, none) := by decide +kernel

/-- enough room: nil, and the bytes of `Model.write` -/
example : (writeW limSink .ndr (.point ⟨1, 2⟩) (LimW.new 21 9)).2 = none ∧
    (write .ndr (.point ⟨1, 2⟩)).toOption =
      some (writeW limSink .ndr (.point ⟨1, 2⟩) (LimW.new 21 9)).1.acc := by
  decide +kernel

/-- a collection [point, bounds] into a buffer: the error is wkb's, and the buffer holds the collection's
header and count, the complete point, and the flag byte of the bounds value (9 + 21 + 1 bytes) -/
example : writeW bufSink .ndr (.collection [.point ⟨1, 2⟩, .bounds ⟨0, 0⟩ ⟨1, 1⟩]) [] =
    ([1, 7, 0, 0, 0, 2, 0, 0, 0,
      1, 1, 0, 0, 0, 1, 0, 0, 0, 0, 0, 0, 0, 2, 0, 0, 0, 0, 0, 0, 0,
      1], some (.wkb .unsupported)) := by decide +kernel

/-- `Model.write` of the same value is just the error -/
example : write .ndr (.collection [.point ⟨1, 2⟩, .bounds ⟨0, 0⟩ ⟨1, 1⟩]) = .error .unsupported := by
  simp [write, writeList, bind, Except.bind]

/-- a top-level `*Bounds`: one byte, then the error -/
example : writeW bufSink .xdr (.bounds ⟨0, 0⟩ ⟨1, 1⟩) [] = ([0], some (.wkb .unsupported)) := by
  decide +kernel

end GeomV.C05.Sink
