import GeomV.C05.Lemmas
/-!
# C05 — property theorems (model of encoding/wkb + encoding/hex)

* `C05_mixed_order`  decoding accepts either byte order at every nesting depth: for ANY order tree,
                     `read` of the independent OGC serialization returns the geometry (and the rest).
* `C05_layout`       the bytes `write` produces are exactly the independent OGC serializer's bytes.
* `C05_roundtrip`    decode (encode bo g) = g for every encodable geometry, both byte orders.
* `C05_type_preserved`, `C05_unsupported`, `C05_hex`, `C05_hex_lower`.
No bound on member counts (below the 2^32 count field), nesting depth or coordinate patterns.
-/
set_option linter.unusedSimpArgs false
namespace GeomV.C05
open GeomV GeomV.C05.Ogc

/-- what `read (fuel+1)` does after a well-formed header -/
theorem read_header (fuel : Nat) (bo : BO) (code : Nat) (hc : code < 2^32) (bs : Bytes) :
    read (fuel+1) (flag bo :: (u32 bo code ++ bs)) =
      (if code = 1 then do
        let (p, bs) ← readPoint bo bs; pure (.point p, bs)
      else if code = 2 then do
        let (p, bs) ← readPoints bo bs; pure (.lineString p, bs)
      else if code = 3 then do
        let (n, bs) ← readU32 bo bs
        let (r, bs) ← readMany (readPoints bo) n bs; pure (.polygon r, bs)
      else if code = 4 then do
        let (n, bs) ← readU32 bo bs
        let (r, bs) ← readMany (readAs (read fuel) asPoint) n bs; pure (.multiPoint r, bs)
      else if code = 5 then do
        let (n, bs) ← readU32 bo bs
        let (r, bs) ← readMany (readAs (read fuel) asLine) n bs; pure (.multiLineString r, bs)
      else if code = 6 then do
        let (n, bs) ← readU32 bo bs
        let (r, bs) ← readMany (readAs (read fuel) asPoly) n bs; pure (.multiPolygon r, bs)
      else if code = 7 then do
        let (n, bs) ← readU32 bo bs
        let (r, bs) ← readMany (read fuel) n bs; pure (.collection r, bs)
      else .error .badType : Except Err (BGeom × Bytes)) := by
  have h := readU32_u32 bo code bs hc
  cases bo <;> simp [read, takeN, flag, bind, Except.bind, h]

theorem flatMap_congr' {α β : Type} (f g : α → List β) (xs : List α) (h : ∀ x ∈ xs, f x = g x) :
    xs.flatMap f = xs.flatMap g := by
  induction xs with
  | nil => rfl
  | cons x xs ih => simp [List.flatMap_cons, h x (by simp), ih (fun y hy => h y (by simp [hy]))]

theorem kid_uniform (bo : BO) (i : Nat) : kid (.uniform bo) i = .uniform bo := by
  simp [kid, OTree.uniform, OTree.kids, OTree.bo]

/-! ### element-level read-back lemmas (any order tree) -/

theorem read_wkbPoint (fuel : Nat) (t : OTree) (p : Pt UInt64) (r : Bytes) :
    read (fuel+1) (wkbPoint t p ++ r) = .ok (.point p, r) := by
  have := read_header fuel t.bo 1 (by decide) (writePoint t.bo p ++ r)
  simp [wkbPoint, byteOrder_eq, uint32_eq _ 1 (by decide), point_eq, List.append_assoc] at *
  simp [this, readPoint_writePoint, bind, Except.bind, pure, Except.pure, Functor.map, Except.map]

theorem read_wkbLineString (fuel : Nat) (t : OTree) (ps : List (Pt UInt64)) (r : Bytes)
    (h : ps.length < 2^32) :
    read (fuel+1) (wkbLineString t ps ++ r) = .ok (.lineString ps, r) := by
  have := read_header fuel t.bo 2 (by decide) (writePoints t.bo ps ++ r)
  simp [wkbLineString, byteOrder_eq, uint32_eq _ 2 (by decide), linearRing_eq _ _ h,
    List.append_assoc] at *
  simp [this, readPoints_writePoints _ _ _ h, bind, Except.bind, pure, Except.pure, Functor.map, Except.map]

theorem read_wkbPolygon (fuel : Nat) (t : OTree) (rs : List (List (Pt UInt64))) (r : Bytes)
    (h : rs.length < 2^32) (hr : ∀ x ∈ rs, x.length < 2^32) :
    read (fuel+1) (wkbPolygon t rs ++ r) = .ok (.polygon rs, r) := by
  have := read_header fuel t.bo 3 (by decide)
    (u32 t.bo rs.length ++ (rs.flatMap (writePoints t.bo) ++ r))
  have hfm : rs.flatMap (linearRing t.bo) = rs.flatMap (writePoints t.bo) :=
    flatMap_congr' _ _ _ (fun x hx => linearRing_eq _ _ (hr x hx))
  have hm := readMany_flatMap (readPoints t.bo) (writePoints t.bo) rs r
    (fun x hx r => readPoints_writePoints _ _ _ (hr x hx))
  simp [wkbPolygon, byteOrder_eq, uint32_eq _ 3 (by decide), uint32_eq _ _ h, hfm,
    List.append_assoc] at *
  simp [this, readU32_u32 _ _ _ h, hm, bind, Except.bind, pure, Except.pure, Functor.map, Except.map]

/-- members written by `kidsWith` (each with its own order tree) are read back by `readMany` -/
theorem readMany_kidsWith {β : Type} (rd : Bytes → Except Err (β × Bytes)) (t : OTree)
    (f : OTree → β → List UInt8) (xs : List β) (i : Nat) (r : Bytes)
    (h : ∀ x ∈ xs, ∀ t r, rd (f t x ++ r) = .ok (x, r)) :
    readMany rd xs.length (kidsWith t f i xs ++ r) = .ok (xs, r) := by
  induction xs generalizing i with
  | nil => simp [readMany, kidsWith]
  | cons x xs ih =>
    have hx := h x (by simp) (kid t i) (kidsWith t f (i+1) xs ++ r)
    have ih' := ih (i+1) (fun y hy => h y (by simp [hy]))
    simp [readMany, kidsWith, List.append_assoc, hx, ih', bind, Except.bind, pure, Except.pure, Functor.map, Except.map]

theorem listLen_eq (gs : List BGeom) : Proto.listLen gs = gs.length := by
  induction gs with
  | nil => rfl
  | cons g gs ih => simp [Proto.listLen, ih]

mutual
/-- **C05_mixed_order.** For every order tree `t` (an arbitrary byte order at every nested element),
every encodable geometry `g` and every suffix `r`, the decoder reads the independent OGC
serialization back to exactly `g`, leaving `r`. `fuel` only needs to exceed the nesting depth. -/
theorem C05_mixed_order (fuel : Nat) (t : OTree) (g : BGeom) (bs r : Bytes)
    (he : Encodable g) (hf : g.depth + 1 < fuel) (hs : serializeMixed t g = some bs) :
    read fuel (bs ++ r) = .ok (g, r) := by
  obtain ⟨fuel, rfl⟩ : ∃ f, fuel = f + 1 := ⟨fuel - 1, by omega⟩
  cases g with
  | point p =>
    simp [serializeMixed] at hs; subst hs; exact read_wkbPoint fuel t p r
  | lineString ps =>
    simp [serializeMixed] at hs; subst hs
    exact read_wkbLineString fuel t ps r (by simpa [Encodable, fits] using he)
  | polygon rs =>
    simp [serializeMixed] at hs; subst hs
    simp [Encodable, fits] at he
    exact read_wkbPolygon fuel t rs r he.1 he.2
  | multiPoint ps =>
    simp [serializeMixed] at hs; subst hs
    simp [Encodable, fits] at he
    have hd : 0 < fuel := by simp [Geom.depth] at hf; omega
    obtain ⟨f, rfl⟩ : ∃ f, fuel = f + 1 := ⟨fuel - 1, by omega⟩
    have hm := readMany_kidsWith (readAs (read (f+1)) asPoint) t wkbPoint ps 0 r
      (fun x _ t r => by simp [readAs, read_wkbPoint, asPoint, bind, Except.bind, pure, Except.pure, Functor.map, Except.map])
    have := read_header (f+1) t.bo 4 (by decide) (u32 t.bo ps.length ++ (kidsWith t wkbPoint 0 ps ++ r))
    simp [byteOrder_eq, uint32_eq _ 4 (by decide), uint32_eq _ _ he, List.append_assoc] at *
    simp [this, readU32_u32 _ _ _ he, hm, bind, Except.bind, pure, Except.pure, Functor.map, Except.map]
  | multiLineString ls =>
    simp [serializeMixed] at hs; subst hs
    simp [Encodable, fits] at he
    have hd : 0 < fuel := by simp [Geom.depth] at hf; omega
    obtain ⟨f, rfl⟩ : ∃ f, fuel = f + 1 := ⟨fuel - 1, by omega⟩
    have hm := readMany_kidsWith (readAs (read (f+1)) asLine) t wkbLineString ls 0 r
      (fun x hx t r => by
        simp [readAs, read_wkbLineString _ _ _ _ (he.2 x hx), asLine, bind, Except.bind, pure, Except.pure, Functor.map, Except.map])
    have := read_header (f+1) t.bo 5 (by decide) (u32 t.bo ls.length ++ (kidsWith t wkbLineString 0 ls ++ r))
    simp [byteOrder_eq, uint32_eq _ 5 (by decide), uint32_eq _ _ he.1, List.append_assoc] at *
    simp [this, readU32_u32 _ _ _ he.1, hm, bind, Except.bind, pure, Except.pure, Functor.map, Except.map]
  | multiPolygon ps =>
    simp [serializeMixed] at hs; subst hs
    simp [Encodable, fits] at he
    have hd : 0 < fuel := by simp [Geom.depth] at hf; omega
    obtain ⟨f, rfl⟩ : ∃ f, fuel = f + 1 := ⟨fuel - 1, by omega⟩
    have hm := readMany_kidsWith (readAs (read (f+1)) asPoly) t wkbPolygon ps 0 r
      (fun x hx t r => by
        simp [readAs, read_wkbPolygon _ _ _ _ (he.2 x hx).1 (he.2 x hx).2, asPoly, bind, Except.bind,
          pure, Except.pure])
    have := read_header (f+1) t.bo 6 (by decide) (u32 t.bo ps.length ++ (kidsWith t wkbPolygon 0 ps ++ r))
    simp [byteOrder_eq, uint32_eq _ 6 (by decide), uint32_eq _ _ he.1, List.append_assoc] at *
    simp [this, readU32_u32 _ _ _ he.1, hm, bind, Except.bind, pure, Except.pure, Functor.map, Except.map]
  | collection gs =>
    simp only [serializeMixed, Option.bind_eq_bind, Option.bind_eq_some_iff] at hs
    obtain ⟨body, hb, hs⟩ := hs
    simp at hs; subst hs
    simp only [Encodable, fits] at he
    have hd : Geom.depthList gs + 1 < fuel := by simp [Geom.depth] at hf; omega
    have hm := C05_kids fuel t 0 gs body r he.2 (Or.inl hd) hb
    have := read_header fuel t.bo 7 (by decide) (u32 t.bo (Proto.listLen gs) ++ (body ++ r))
    simp [byteOrder_eq, uint32_eq _ 7 (by decide), uint32_eq _ _ he.1, List.append_assoc] at *
    simp [this, readU32_u32 _ _ _ he.1, hm, bind, Except.bind, pure, Except.pure, Functor.map, Except.map]
  | bounds a b => simp [Encodable] at he
  | nil => simp [Encodable] at he

theorem C05_kids (fuel : Nat) (t : OTree) (i : Nat) (gs : List BGeom) (bs r : Bytes)
    (he : EncodableList gs) (hf : Geom.depthList gs + 1 < fuel ∨ gs = [])
    (hs : serializeKids t i gs = some bs) :
    readMany (read fuel) (Proto.listLen gs) (bs ++ r) = .ok (gs, r) := by
  cases gs with
  | nil => simp [serializeKids] at hs; subst hs; simp [Proto.listLen, readMany]
  | cons g gs =>
    simp only [serializeKids, Option.bind_eq_bind, Option.bind_eq_some_iff] at hs
    obtain ⟨a, ha, b, hb, hs⟩ := hs
    simp at hs; subst hs
    simp only [EncodableList] at he
    have hf' : max g.depth (Geom.depthList gs) + 1 < fuel := by
      rcases hf with h | h
      · simpa [Geom.depthList] using h
      · simp at h
    have h1 := C05_mixed_order fuel (kid t i) g a (b ++ r) he.1 (by omega) ha
    have h2 := C05_kids fuel t (i+1) gs b r he.2 (Or.inl (by omega)) hb
    simp [Proto.listLen, readMany, List.append_assoc, h1, h2, bind, Except.bind, pure, Except.pure, Functor.map, Except.map]
end

/-! ### layout: the model's writer is the independent serializer -/

theorem kidsWith_uniform {β : Type} (bo : BO) (f : OTree → β → List UInt8) (xs : List β) (i : Nat) :
    kidsWith (.uniform bo) f i xs = xs.flatMap (f (.uniform bo)) := by
  induction xs generalizing i with
  | nil => rfl
  | cons x xs ih => simp [kidsWith, kid_uniform, ih]

@[simp] theorem uniform_bo (bo : BO) : (OTree.uniform bo).bo = bo := rfl

theorem wkbPoint_eq (bo : BO) (p : Pt UInt64) :
    wkbPoint (.uniform bo) p = header bo 1 ++ writePoint bo p := by
  simp [wkbPoint, header, byteOrder_eq, uint32_eq _ 1 (by decide), point_eq]

theorem wkbLineString_eq (bo : BO) (ps : List (Pt UInt64)) (h : ps.length < 2^32) :
    wkbLineString (.uniform bo) ps = header bo 2 ++ writePoints bo ps := by
  simp [wkbLineString, header, byteOrder_eq, uint32_eq _ 2 (by decide), linearRing_eq _ _ h]

theorem wkbPolygon_eq (bo : BO) (rs : List (List (Pt UInt64))) (h : rs.length < 2^32)
    (hr : ∀ x ∈ rs, x.length < 2^32) :
    wkbPolygon (.uniform bo) rs = header bo 3 ++ writePointss bo rs := by
  have hfm : rs.flatMap (linearRing bo) = rs.flatMap (writePoints bo) :=
    flatMap_congr' _ _ _ (fun x hx => linearRing_eq _ _ (hr x hx))
  simp [wkbPolygon, header, writePointss, byteOrder_eq, uint32_eq _ 3 (by decide), uint32_eq _ _ h, hfm]

mutual
/-- **C05_layout.** For every encodable geometry the bytes produced by the model of `wkb.Write`
are exactly those of the independent OGC serializer (uniform byte order `bo`). -/
theorem C05_layout (bo : BO) (g : BGeom) (he : Encodable g) :
    ∃ bs, write bo g = .ok bs ∧ serialize bo g = some bs := by
  cases g with
  | point p => exact ⟨_, rfl, by simp [serialize, serializeMixed, wkbPoint_eq]⟩
  | lineString ps =>
    simp [Encodable, fits] at he
    exact ⟨_, rfl, by simp [serialize, serializeMixed, wkbLineString_eq _ _ he]⟩
  | polygon rs =>
    simp [Encodable, fits] at he
    exact ⟨_, rfl, by simp [serialize, serializeMixed, wkbPolygon_eq _ _ he.1 he.2]⟩
  | multiPoint ps =>
    simp [Encodable, fits] at he
    refine ⟨_, rfl, ?_⟩
    have : ps.flatMap (wkbPoint (.uniform bo)) = ps.flatMap (fun p => header bo 1 ++ writePoint bo p) :=
      flatMap_congr' _ _ _ (fun x _ => wkbPoint_eq bo x)
    simp [serialize, serializeMixed, kidsWith_uniform, this, header, byteOrder_eq,
      uint32_eq _ 4 (by decide), uint32_eq _ _ he]
  | multiLineString ls =>
    simp [Encodable, fits] at he
    refine ⟨_, rfl, ?_⟩
    have : ls.flatMap (wkbLineString (.uniform bo)) = ls.flatMap (fun p => header bo 2 ++ writePoints bo p) :=
      flatMap_congr' _ _ _ (fun x hx => wkbLineString_eq bo x (he.2 x hx))
    simp [serialize, serializeMixed, kidsWith_uniform, this, header, byteOrder_eq,
      uint32_eq _ 5 (by decide), uint32_eq _ _ he.1]
  | multiPolygon ps =>
    simp [Encodable, fits] at he
    refine ⟨_, rfl, ?_⟩
    have : ps.flatMap (wkbPolygon (.uniform bo)) = ps.flatMap (fun p => header bo 3 ++ writePointss bo p) :=
      flatMap_congr' _ _ _ (fun x hx => wkbPolygon_eq bo x (he.2 x hx).1 (he.2 x hx).2)
    simp [serialize, serializeMixed, kidsWith_uniform, this, header, byteOrder_eq,
      uint32_eq _ 6 (by decide), uint32_eq _ _ he.1]
  | collection gs =>
    simp only [Encodable, fits] at he
    obtain ⟨body, h1, h2⟩ := C05_layout_list bo 0 gs he.2
    refine ⟨header bo 7 ++ u32 bo (Proto.listLen gs) ++ body, ?_, ?_⟩
    · simp [write, h1, bind, Except.bind, pure, Except.pure]
    · simp [serialize, serializeMixed, h2, header, byteOrder_eq, uint32_eq _ 7 (by decide),
        uint32_eq _ _ he.1]
  | bounds a b => simp [Encodable] at he
  | nil => simp [Encodable] at he

theorem C05_layout_list (bo : BO) (i : Nat) (gs : List BGeom) (he : EncodableList gs) :
    ∃ bs, writeList bo gs = .ok bs ∧ serializeKids (.uniform bo) i gs = some bs := by
  cases gs with
  | nil => exact ⟨[], rfl, rfl⟩
  | cons g gs =>
    simp only [EncodableList] at he
    obtain ⟨a, ha1, ha2⟩ := C05_layout bo g he.1
    obtain ⟨b, hb1, hb2⟩ := C05_layout_list bo (i+1) gs he.2
    refine ⟨a ++ b, ?_, ?_⟩
    · simp [writeList, ha1, hb1, bind, Except.bind, pure, Except.pure]
    · simp only [serialize] at ha2
      simp [serializeKids, kid_uniform, ha2, hb2]
end

/-! ### every serialization is long enough to pay for the decoder's recursion budget -/

@[simp] theorem beDigits_length (k n : Nat) : (beDigits k n).length = k := by
  induction k with
  | zero => rfl
  | succ k ih => simp [beDigits, ih]

@[simp] theorem uint32_length (bo : BO) (n : Nat) : (uint32 bo n).length = 4 := by
  cases bo <;> simp [uint32, uintN]

mutual
theorem depth_le_length (t : OTree) (g : BGeom) (bs : Bytes) (hs : serializeMixed t g = some bs) :
    g.depth + 2 ≤ bs.length := by
  cases g with
  | collection gs =>
    simp only [serializeMixed, Option.bind_eq_bind, Option.bind_eq_some_iff] at hs
    obtain ⟨body, hb, hs⟩ := hs
    simp at hs; subst hs
    have := depthList_le_length t 0 gs body hb
    simp [Geom.depth]; omega
  | point p => simp [serializeMixed, wkbPoint] at hs; subst hs; simp [Geom.depth] <;> omega
  | lineString ps => simp [serializeMixed, wkbLineString] at hs; subst hs; simp [Geom.depth] <;> omega
  | polygon ps => simp [serializeMixed, wkbPolygon] at hs; subst hs; simp [Geom.depth] <;> omega
  | multiPoint ps => simp [serializeMixed] at hs; subst hs; simp [Geom.depth] <;> omega
  | multiLineString ps => simp [serializeMixed] at hs; subst hs; simp [Geom.depth] <;> omega
  | multiPolygon ps => simp [serializeMixed] at hs; subst hs; simp [Geom.depth] <;> omega
  | bounds a b => simp [serializeMixed] at hs
  | nil => simp [serializeMixed] at hs
theorem depthList_le_length (t : OTree) (i : Nat) (gs : List BGeom) (bs : Bytes)
    (hs : serializeKids t i gs = some bs) : Geom.depthList gs ≤ bs.length := by
  cases gs with
  | nil => simp [Geom.depthList]
  | cons g gs =>
    simp only [serializeKids, Option.bind_eq_bind, Option.bind_eq_some_iff] at hs
    obtain ⟨a, ha, b, hb, hs⟩ := hs
    simp at hs; subst hs
    have h1 := depth_le_length (kid t i) g a ha
    have h2 := depthList_le_length t (i+1) gs b hb
    simp [Geom.depthList]; omega
end

/-- **C05_decode_mixed.** `wkb.Decode` (fuel chosen from the input length, as the driver runs it)
accepts the OGC serialization under any per-element byte-order assignment, trailing bytes allowed. -/
theorem C05_decode_mixed (t : OTree) (g : BGeom) (bs r : Bytes)
    (he : Encodable g) (hs : serializeMixed t g = some bs) : decode (bs ++ r) = .ok g := by
  have hd := depth_le_length t g bs hs
  have := C05_mixed_order ((bs ++ r).length + 1) t g bs r he (by simp; omega) hs
  simp only [decode]; rw [this]; rfl

/-- **C05_roundtrip.** For every encodable geometry (all seven types, any nesting depth, any member
counts below the 2^32 field width including zero, arbitrary 64-bit coordinate patterns) and both
byte orders, decoding the encoding returns exactly the geometry. -/
theorem C05_roundtrip (bo : BO) (g : BGeom) (he : Encodable g) :
    ∃ bs, encode bo g = .ok bs ∧ decode bs = .ok g := by
  obtain ⟨bs, h1, h2⟩ := C05_layout bo g he
  refine ⟨bs, h1, ?_⟩
  have := C05_decode_mixed (.uniform bo) g bs [] he h2
  simpa using this

/-- **C05_type_preserved** (corollary, spelled out): the decoded value has the same constructor. -/
theorem C05_type_preserved (bo : BO) (g : BGeom) (he : Encodable g) (bs : Bytes)
    (h : encode bo g = .ok bs) (g' : BGeom) (hd : decode bs = .ok g') : g' = g := by
  obtain ⟨bs', h1, h2⟩ := C05_roundtrip bo g he
  rw [h] at h1; cases h1; rw [hd] at h2; cases h2; rfl

/-! ### unsupported values are errors, not bytes -/

mutual
def Supported : BGeom → Prop
  | .collection gs => SupportedList gs
  | .bounds _ _ => False
  | .nil => False
  | _ => True
def SupportedList : List BGeom → Prop
  | [] => True
  | g :: gs => Supported g ∧ SupportedList gs
end

mutual
/-- **C05_unsupported.** A `*Bounds` or nil value, at top level or at any depth inside collections,
makes the encoder return an error (never bytes). -/
theorem C05_unsupported (bo : BO) (g : BGeom) (h : ¬ Supported g) : ∃ e, write bo g = .error e := by
  cases g with
  | collection gs =>
    simp only [Supported] at h
    obtain ⟨e, he⟩ := C05_unsupported_list bo gs h
    exact ⟨e, by simp [write, he, bind, Except.bind]⟩
  | bounds a b => exact ⟨_, rfl⟩
  | nil => exact ⟨_, rfl⟩
  | point p => simp [Supported] at h
  | lineString p => simp [Supported] at h
  | polygon p => simp [Supported] at h
  | multiPoint p => simp [Supported] at h
  | multiLineString p => simp [Supported] at h
  | multiPolygon p => simp [Supported] at h
theorem C05_unsupported_list (bo : BO) (gs : List BGeom) (h : ¬ SupportedList gs) :
    ∃ e, writeList bo gs = .error e := by
  cases gs with
  | nil => simp [SupportedList] at h
  | cons g gs =>
    simp only [SupportedList, Classical.not_and_iff_not_or_not] at h
    cases hg : write bo g with
    | error e => exact ⟨e, by simp [writeList, hg, bind, Except.bind]⟩
    | ok a =>
      rcases h with h | h
      · obtain ⟨e, he⟩ := C05_unsupported bo g h; rw [hg] at he; cases he
      · obtain ⟨e, he⟩ := C05_unsupported_list bo gs h
        exact ⟨e, by simp [writeList, hg, he, bind, Except.bind]⟩
end

/-! ### hex codec -/

theorem hexDigit_rt : ∀ n : Fin 16, hexDigitVal (hexDigitChar n.val) = some n.val := by decide

/-- **C05_hex.** Decoding the hex text of any byte string returns the byte string. -/
theorem C05_hex (bs : Bytes) : hexDecode (hexEncode bs) = some bs := by
  induction bs with
  | nil => rfl
  | cons b bs ih =>
    have h1 := hexDigit_rt ⟨b.toNat / 16, by have := b.toNat_lt; omega⟩
    have h2 := hexDigit_rt ⟨b.toNat % 16, by omega⟩
    have h3 : UInt8.ofNat (b.toNat / 16 * 16 + b.toNat % 16) = b := by
      rw [Nat.div_add_mod']; exact UInt8.ofNat_toNat
    simp only [hexEncode, List.flatMap_cons, List.cons_append, List.nil_append] at *
    simp only [hexDecode, h1, h2, ih, bind, Option.bind, pure, h3]

theorem hexDigit_lower : ∀ n : Fin 16, hexDigitChar n.val ∈ "0123456789abcdef".toList := by decide

/-- **C05_hex_lower.** The hex text uses only lower-case hexadecimal digits, two per byte. -/
theorem C05_hex_lower (bs : Bytes) :
    (∀ c ∈ hexEncode bs, c ∈ "0123456789abcdef".toList) ∧ (hexEncode bs).length = 2 * bs.length := by
  induction bs with
  | nil => simp [hexEncode]
  | cons b bs ih =>
    have h1 := hexDigit_lower ⟨b.toNat / 16, by have := b.toNat_lt; omega⟩
    have h2 := hexDigit_lower ⟨b.toNat % 16, by omega⟩
    simp only [hexEncode, List.flatMap_cons] at *
    refine ⟨?_, by simp [ih.2]; omega⟩
    intro c hc
    simp only [List.cons_append, List.nil_append, List.mem_cons] at hc
    rcases hc with rfl | rfl | hc
    · exact h1
    · exact h2
    · exact ih.1 c hc

/-! ### non-vacuity: the hypotheses are met by non-trivial values -/

def exGeom : BGeom :=
  .collection [.point ⟨0x7ff8000000000001, 0x8000000000000000⟩, .multiLineString [[], [⟨1, 2⟩]],
    .collection [.polygon [[]], .multiPolygon []]]

example : Encodable exGeom := by simp [exGeom, Encodable, EncodableList, fits, Proto.listLen]
example : ¬ Supported (.collection [.point ⟨0, 0⟩, .collection [.bounds ⟨0, 0⟩ ⟨1, 1⟩]]) := by
  simp [Supported, SupportedList]

end GeomV.C05
