import GeomV.C05.TieGenS
import GeomV.C05.ProofsRetry
/-!
# C05 — the regenerated streaming `Read` IS the hand-written streaming model, on every scripted reader

`C05_stream_gen_model` and `C05_stream_model` say that `Gen.readS scriptSrc` (regenerated from the Go text: a point
is ONE `io.ReadFull` of 16 bytes, a chunk of `n` points ONE `io.ReadFull` of `16·n` bytes) and `Stream.readS
scriptSrc` (hand-written: every coordinate its own 8-byte `io.ReadFull`) both return what `Model.read` returns and
leave readers that DELIVER the same bytes.  With the additivity of `io.ReadFull` (`FillAdd.lean`) they leave the
SAME reader, so the two functions are equal — and so are `n` successive calls on one reader.
-/
set_option linter.unusedSimpArgs false
set_option linter.unusedVariables false
namespace GeomV.C05
open GeomV GeomV.C05.Stream GeomV.C05.Ogc

/-- `Stream.readS` behind a scripted reader leaves what `io.ReadFull` calls leave of the reader it was given -/
theorem stream_reach (fuel : Nat) (s s' : Script) (g : BGeom) (h : readS scriptSrc fuel s = .ok (g, s')) :
    Reach s s' := by
  have hS : ∀ k, RelM (fun a b : Script => a = b ∧ Reach s a) NoEsc (scriptSrc.take k) (scriptSrc.take k) := by
    rintro k a b ⟨rfl, hr⟩
    cases hf : scriptSrc.take k a with
    | ok p =>
      obtain ⟨x, a'⟩ := p
      exact .inr (.inl ⟨x, a', a', rfl, rfl, rfl, reach_step hr (by simpa [scriptSrc] using hf)⟩)
    | error e => exact .inr (.inr ⟨e, rfl, rfl⟩)
  rcases readS_rel hS fuel s s ⟨rfl, reach_refl s⟩ with ⟨e, _, he⟩ | ⟨a, s₁, s₂, hx, _, _, hr⟩ | ⟨e, hx, _⟩
  · exact he.elim
  · rw [h] at hx; cases hx; exact hr
  · rw [h] at hx; cases hx

/-- **C05_stream_gen_exact** (T1, streaming path).  On EVERY scripted reader (any chunking, empty reads, data with
an error, errors of its own; well-formed content or not; any recursion budget) the streaming `Read` regenerated
from the Go source and the hand-written `Stream.readS` are the same function: same value, same error, and the SAME
reader state afterwards — although the source reads a point with one `io.ReadFull` of 16 bytes and a chunk of
points with one of `16·n`, and `Stream.readS` reads every coordinate on its own.  (`Stream.readS` is what judges the
`rdscript` lines; it is no longer a second, hand-written reading of the code but a consequence of its text.) -/
theorem C05_stream_gen_exact (fuel : Nat) : Gen.readS scriptSrc fuel = readS scriptSrc fuel := by
  funext s
  have h₁ := C05_stream_gen_model fuel s
  have h₂ := C05_stream_model fuel s
  cases hm : read fuel (avail s) with
  | ok p =>
    obtain ⟨g, r⟩ := p
    simp only [hm] at h₁ h₂
    obtain ⟨s₁, e₁, a₁, _⟩ := h₁
    obtain ⟨s₂, e₂, a₂, _⟩ := h₂
    have : s₁ = s₂ := reach_unique (stream_gen_reach fuel s s₁ g e₁) (stream_reach fuel s s₂ g e₂) (by rw [a₁, a₂])
    rw [e₁, e₂, this]
  | error x =>
    simp only [hm] at h₁ h₂
    cases x <;> simp_all

/-- `n` successive calls of the regenerated streaming `Read` on one reader, stopping at the first error -/
def genReadSeq (fuel n : Nat) : Rd Script (List BGeom) := readManyS (Gen.readS scriptSrc fuel) n

/-- **C05_read_sequence_gen.**  `n` serializations one after the other (any order tree each) on one scripted
reader, whatever the chunking: `n` successive calls of the REGENERATED streaming `Read` return the values in order
and leave a reader that delivers exactly what followed. -/
theorem C05_read_sequence_gen (fuel : Nat) (xs : List (OTree × BGeom)) (bs rest : Bytes) (s : Script)
    (he : ∀ x ∈ xs, Encodable x.2 ∧ x.2.depth + 1 < fuel) (hs : serializeAll xs = some bs)
    (ha : avail s = bs ++ rest) :
    ∃ s', genReadSeq fuel xs.length s = .ok (xs.map (·.2), s') ∧ avail s' = rest := by
  unfold genReadSeq
  rw [C05_stream_gen_exact]
  exact C05_read_sequence fuel xs bs rest s he hs ha

end GeomV.C05

namespace GeomV.C05
open GeomV GeomV.C05.Stream GeomV.C05.Ogc

/-- **C05_retry_gen**: `Stream.C05_retry` for the REGENERATED streaming `Read` (`C05_stream_gen_exact`). -/
theorem C05_retry_gen (fuel : Nat) (t₁ : OTree) (g₁ : BGeom) (p q : Bytes) (t : OTree) (g : BGeom) (enc rest : Bytes)
    (s : Script)
    (he₁ : Encodable g₁) (hf₁ : g₁.depth + 1 < fuel) (hs₁ : serializeMixed t₁ g₁ = some (p ++ q)) (hq : q ≠ [])
    (ha₁ : avail s = p)
    (he : Encodable g) (hf : g.depth + 1 < fuel) (hs : serializeMixed t g = some enc)
    (ha : avail (afterErr s) = enc ++ rest) :
    Gen.readS scriptSrc fuel s = .error (short (firstErr s)) ∧
    ∃ s', Gen.readS scriptSrc fuel (afterErr s) = .ok (g, s') ∧ avail s' = rest := by
  rw [C05_stream_gen_exact]
  exact C05_retry fuel t₁ g₁ p q t g enc rest s he₁ hf₁ hs₁ hq ha₁ he hf hs ha

end GeomV.C05
