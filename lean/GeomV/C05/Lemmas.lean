import GeomV.C05.Spec
/-! Helper lemmas for C05 (byte-level primitives). Core Lean only. -/
set_option linter.unusedSimpArgs false
namespace GeomV.C05
open GeomV

@[simp] theorem leBytes_length (k n : Nat) : (leBytes k n).length = k := by
  induction k generalizing n with
  | zero => rfl
  | succ k ih => simp [leBytes, ih]

theorem leVal_leBytes (k n : Nat) : leVal (leBytes k n) = n % 256^k := by
  induction k generalizing n with
  | zero => simp [leBytes, leVal, Nat.mod_one]
  | succ k ih =>
    have hb : (UInt8.ofNat (n % 256)).toNat = n % 256 := by rw [UInt8.toNat_ofNat']; omega
    simp only [leBytes, leVal, ih, hb]
    rw [Nat.pow_succ', Nat.mod_mul]

theorem valBytes_natBytes (bo : BO) (k n : Nat) : valBytes bo (natBytes bo k n) = n % 256^k := by
  cases bo <;> simp [valBytes, natBytes, leVal_leBytes]

@[simp] theorem natBytes_length (bo : BO) (k n : Nat) : (natBytes bo k n).length = k := by
  cases bo <;> simp [natBytes]

theorem takeN_append (k : Nat) (a r : Bytes) (h : a.length = k) : takeN k (a ++ r) = .ok (a, r) := by
  subst h; simp [takeN]

theorem readNat_natBytes (bo : BO) (k n : Nat) (r : Bytes) :
    readNat bo k (natBytes bo k n ++ r) = .ok (n % 256^k, r) := by
  simp [readNat, takeN_append _ _ _ (natBytes_length bo k n), bind, Except.bind, pure, Except.pure, Functor.map, Except.map, valBytes_natBytes]

theorem readU32_u32 (bo : BO) (n : Nat) (r : Bytes) (h : n < 2^32) :
    readU32 bo (u32 bo n ++ r) = .ok (n, r) := by
  have h1 : n % 2^32 = n := Nat.mod_eq_of_lt h
  have h2 : n % 256^4 = n := Nat.mod_eq_of_lt (by simpa using h)
  simp [readU32, u32, readNat_natBytes, h1, h2]

theorem readU64_u64 (bo : BO) (u : UInt64) (r : Bytes) :
    readU64 bo (u64 bo u ++ r) = .ok (u, r) := by
  have h : u.toNat % 256^8 = u.toNat := Nat.mod_eq_of_lt (by have := u.toNat_lt; simpa using this)
  simp [readU64, u64, readNat_natBytes, bind, Except.bind, pure, Except.pure, Functor.map, Except.map, h]

theorem readPoint_writePoint (bo : BO) (p : Pt UInt64) (r : Bytes) :
    readPoint bo (writePoint bo p ++ r) = .ok (p, r) := by
  simp [readPoint, writePoint, List.append_assoc, readU64_u64, bind, Except.bind, pure, Except.pure, Functor.map, Except.map]

/-- generic: reading back a concatenation of encodings -/
theorem readMany_flatMap {β : Type} (rd : Bytes → Except Err (β × Bytes)) (w : β → Bytes)
    (xs : List β) (r : Bytes) (h : ∀ x ∈ xs, ∀ r, rd (w x ++ r) = .ok (x, r)) :
    readMany rd xs.length (xs.flatMap w ++ r) = .ok (xs, r) := by
  induction xs with
  | nil => simp [readMany]
  | cons x xs ih =>
    have hx := h x (by simp) (xs.flatMap w ++ r)
    have ih' := ih (fun y hy => h y (by simp [hy]))
    simp [readMany, List.flatMap_cons, List.append_assoc, hx, ih', bind, Except.bind, pure, Except.pure, Functor.map, Except.map]

theorem readPoints_writePoints (bo : BO) (ps : List (Pt UInt64)) (r : Bytes) (h : ps.length < 2^32) :
    readPoints bo (writePoints bo ps ++ r) = .ok (ps, r) := by
  simp only [readPoints, writePoints, List.append_assoc, readU32_u32 bo _ _ h, bind, Except.bind, pure, Except.pure, Functor.map, Except.map]
  exact readMany_flatMap _ _ _ _ (fun x _ r => readPoint_writePoint bo x r)

/-! ### the independent serializer's integers are the model's integers -/

theorem beDigits_succ (k n : Nat) :
    Ogc.beDigits (k+1) n = Ogc.beDigits k (n / 256) ++ [UInt8.ofNat (n % 256)] := by
  induction k with
  | zero => simp [Ogc.beDigits]
  | succ k ih =>
    rw [Ogc.beDigits, ih]
    conv => rhs; rw [Ogc.beDigits]
    simp [Nat.pow_succ, Nat.div_div_eq_div_mul, Nat.mul_comm]

theorem beDigits_eq (k n : Nat) : Ogc.beDigits k n = (leBytes k n).reverse := by
  induction k generalizing n with
  | zero => rfl
  | succ k ih => rw [beDigits_succ, ih]; simp [leBytes]

theorem uintN_eq (bo : BO) (k n : Nat) : Ogc.uintN bo k n = natBytes bo k n := by
  cases bo <;> simp [Ogc.uintN, natBytes, beDigits_eq]

theorem uint32_eq (bo : BO) (n : Nat) (h : n < 2^32) : Ogc.uint32 bo n = u32 bo n := by
  simp [Ogc.uint32, u32, uintN_eq, Nat.mod_eq_of_lt h]

theorem double_eq (bo : BO) (u : UInt64) : Ogc.double bo u = u64 bo u := by
  simp [Ogc.double, u64, uintN_eq]

theorem byteOrder_eq (bo : BO) : Ogc.byteOrder bo = flag bo := by cases bo <;> rfl

theorem point_eq (bo : BO) (p : Pt UInt64) : Ogc.point bo p = writePoint bo p := by
  simp [Ogc.point, writePoint, double_eq]

theorem linearRing_eq (bo : BO) (ps : List (Pt UInt64)) (h : ps.length < 2^32) :
    Ogc.linearRing bo ps = writePoints bo ps := by
  have : Ogc.point bo = writePoint bo := funext (point_eq bo)
  simp [Ogc.linearRing, writePoints, uint32_eq _ _ h, this]

end GeomV.C05
