import GeomV.C05.Gen
import GeomV.C05.Proofs
/-!
# C05 — T1 tie: the definitions regenerated from the Go source equal the hand-written model

`Gen.lean` is rewritten from /repo/encoding/wkb/*.go and /repo/encoding/hex/hex.go by
`harness/cmd/c05/extract.go` before every build.  One lemma `tie_<GoFunction>` per translated Go
function states that the regenerated definition denotes the function of `Model.lean` the theorems of
`Proofs.lean` are about; `tie_read`/`tie_write` tie the recursion as a whole, `tie_decode`,
`tie_encode`, `tie_hexEncode`, `tie_hexDecode` the entry points, and the main theorems are restated for
the regenerated definitions (`C05_*_src`).  A source change therefore either leaves the translatable
subset (reported with the function's name), breaks a tie lemma (reported by name), or flows into
the theorems.

Readers: `Gen.f … bs = Model.f … bs` (value and rest of the input, or the same error).
Writers: `Gen.f w … = .ok (w ++ Model.f …)`: the bytes of the model are appended to what the writer
already holds.
-/
set_option linter.unusedSimpArgs false
set_option linter.unusedVariables false
namespace GeomV.C05
open GeomV GeomV.C05.Ogc

/-! ### the loop combinators -/

theorem readMany_add {β : Type} (rd : Bytes → Except Err (β × Bytes)) (a b : Nat) (bs : Bytes) :
    readMany rd (a + b) bs = (do
      let (xs, bs) ← readMany rd a bs
      let (ys, bs) ← readMany rd b bs
      pure (xs ++ ys, bs)) := by
  induction a generalizing bs with
  | zero =>
    simp only [Nat.zero_add, readMany, bind, Except.bind, pure, Except.pure]
    cases readMany rd b bs <;> simp
  | succ a ih =>
    rw [Nat.succ_add]
    simp only [readMany, bind, Except.bind, pure, Except.pure]
    cases h1 : rd bs with
    | error e => rfl
    | ok r1 =>
      obtain ⟨x, b1⟩ := r1
      simp only [ih b1, bind, Except.bind, pure, Except.pure]
      cases h2 : readMany rd a b1 with
      | error e => rfl
      | ok r2 =>
        obtain ⟨xs, b2⟩ := r2
        simp only
        cases h3 : readMany rd b b2 with
        | error e => rfl
        | ok r3 => simp

theorem readMany_length {β : Type} (rd : Bytes → Except Err (β × Bytes)) (n : Nat) (bs r : Bytes)
    (xs : List β) (h : readMany rd n bs = .ok (xs, r)) : xs.length = n := by
  induction n generalizing bs xs r with
  | zero => simp [readMany] at h; simp [h.1.symm]
  | succ n ih =>
    simp only [readMany, bind, Except.bind, pure, Except.pure] at h
    cases h1 : rd bs with
    | error e => simp [h1] at h
    | ok r1 =>
      obtain ⟨x, b1⟩ := r1
      simp only [h1] at h
      cases h2 : readMany rd n b1 with
      | error e => simp [h2] at h
      | ok r2 =>
        obtain ⟨ys, b2⟩ := r2
        simp only [h2, Except.ok.injEq, Prod.mk.injEq] at h
        rw [← h.1]; simp [ih b1 b2 ys h2]

/-- one iteration of a loop that reads an element with `rd` and appends it -/
def collectStep {β : Type} (rd : Bytes → Except Err (β × Bytes)) (s : List β × Bytes) :
    Except Err (List β × Bytes) :=
  match rd s.2 with
  | .error e => .error e
  | .ok (a, bs) => .ok (s.1 ++ [a], bs)

/-- a counted loop that reads one element per iteration and appends it is `readMany` -/
theorem loopN_collect {β : Type} (rd : Bytes → Except Err (β × Bytes))
    (f : List β × Bytes → Except Err (List β × Bytes)) (hf : ∀ s, f s = collectStep rd s)
    (n : Nat) (acc : List β) (bs : Bytes) :
    loopN n (acc, bs) f
      = match readMany rd n bs with
        | .error e => .error e
        | .ok (as, bs) => .ok (acc ++ as, bs) := by
  induction n generalizing acc bs with
  | zero => simp [loopN, readMany]
  | succ n ih =>
    simp only [loopN, readMany, bind, Except.bind, pure, Except.pure, hf, collectStep]
    cases h1 : rd bs with
    | error e => rfl
    | ok r1 =>
      obtain ⟨x, b1⟩ := r1
      simp only [← hf, ih]
      cases h2 : readMany rd n b1 with
      | error e => rfl
      | ok r2 => simp

/-- a range loop whose body appends `g x` to the writer appends `xs.flatMap g` -/
theorem forRange_ok {α : Type} (xs : List α) (w : Bytes) (f : α → Bytes → Except Err Bytes) (g : α → Bytes)
    (h : ∀ x ∈ xs, ∀ w, f x w = .ok (w ++ g x)) : forRange xs w f = .ok (w ++ xs.flatMap g) := by
  induction xs generalizing w with
  | nil => simp [forRange]
  | cons x xs ih =>
    simp only [forRange, bind, Except.bind, h x (by simp)]
    rw [ih _ (fun y hy => h y (by simp [hy]))]
    simp [List.append_assoc]

/-! ### constants -/

/-- the type codes and byte-order flags of wkb.go, and the chunk size of point.go -/
theorem tie_constants :
    Gen.wkbXDR = 0 ∧ Gen.wkbNDR = 1 ∧ Gen.wkbPoint = 1 ∧ Gen.wkbLineString = 2 ∧ Gen.wkbPolygon = 3 ∧
    Gen.wkbMultiPoint = 4 ∧ Gen.wkbMultiLineString = 5 ∧ Gen.wkbMultiPolygon = 6 ∧
    Gen.wkbGeometryCollection = 7 ∧ Gen.XDR = BO.xdr ∧ Gen.NDR = BO.ndr ∧ 0 < Gen.maxChunk := by decide

/-! ### writers -/

theorem u32_u32len (bo : BO) (n : Nat) : u32 bo (u32len n) = u32 bo n := by
  simp [u32, u32len]

theorem tie_writePoint (w : Bytes) (bo : BO) (p : Pt UInt64) :
    Gen.writePoint w bo p = .ok (w ++ writePoint bo p) := rfl

theorem tie_writePoints (w : Bytes) (bo : BO) (ps : List (Pt UInt64)) :
    Gen.writePoints w bo ps = .ok (w ++ writePoints bo ps) := by
  simp [Gen.writePoints, binWriteU32, binWritePoints, writePoints, u32_u32len, bind, Except.bind]

theorem tie_writePointss (w : Bytes) (bo : BO) (pss : List (List (Pt UInt64))) :
    Gen.writePointss w bo pss = .ok (w ++ writePointss bo pss) := by
  have h := forRange_ok pss (w ++ u32 bo pss.length)
    (fun points w => do let w ← Gen.writePoints w bo points; pure w) (writePoints bo)
    (fun x _ w => by simp [tie_writePoints, bind, Except.bind, pure, Except.pure])
  simp [Gen.writePointss, binWriteU32, writePointss, u32_u32len, bind, Except.bind, pure, Except.pure, h]

theorem tie_writeLineString (w : Bytes) (bo : BO) (ps : List (Pt UInt64)) :
    Gen.writeLineString w bo ps = .ok (w ++ writePoints bo ps) := by
  simp [Gen.writeLineString, tie_writePoints]

theorem tie_writePolygon (w : Bytes) (bo : BO) (rs : List (List (Pt UInt64))) :
    Gen.writePolygon w bo rs = .ok (w ++ writePointss bo rs) := by
  simp [Gen.writePolygon, tie_writePointss]

/-- what `Write` is assumed to do for the members of a Multi* value when the writers are tied -/
def WritesAs (W : WriteFn) (bo : BO) (g : BGeom) : Prop :=
  ∀ w, W w bo g = (write bo g).map (w ++ ·)

theorem tie_writeMultiPoint (W : WriteFn) (w : Bytes) (bo : BO) (ps : List (Pt UInt64))
    (hW : ∀ p ∈ ps, WritesAs W bo (.point p)) :
    Gen.writeMultiPoint W w bo ps
      = .ok (w ++ u32 bo ps.length ++ ps.flatMap fun p => header bo 1 ++ writePoint bo p) := by
  have h := forRange_ok ps (w ++ u32 bo ps.length)
    (fun point w => do let w ← W w bo (.point point); pure w) (fun p => header bo 1 ++ writePoint bo p)
    (fun x hx w => by simp [hW x hx w, write, Functor.map, Except.map, bind, Except.bind, pure, Except.pure])
  simp [Gen.writeMultiPoint, binWriteU32, u32_u32len, bind, Except.bind, pure, Except.pure, h]

theorem tie_writeMultiLineString (W : WriteFn) (w : Bytes) (bo : BO) (ls : List (List (Pt UInt64)))
    (hW : ∀ l ∈ ls, WritesAs W bo (.lineString l)) :
    Gen.writeMultiLineString W w bo ls
      = .ok (w ++ u32 bo ls.length ++ ls.flatMap fun l => header bo 2 ++ writePoints bo l) := by
  have h := forRange_ok ls (w ++ u32 bo ls.length)
    (fun l w => do let w ← W w bo (.lineString l); pure w) (fun l => header bo 2 ++ writePoints bo l)
    (fun x hx w => by simp [hW x hx w, write, Functor.map, Except.map, bind, Except.bind, pure, Except.pure])
  simp [Gen.writeMultiLineString, binWriteU32, u32_u32len, bind, Except.bind, pure, Except.pure, h]

theorem tie_writeMultiPolygon (W : WriteFn) (w : Bytes) (bo : BO) (ps : List (List (List (Pt UInt64))))
    (hW : ∀ p ∈ ps, WritesAs W bo (.polygon p)) :
    Gen.writeMultiPolygon W w bo ps
      = .ok (w ++ u32 bo ps.length ++ ps.flatMap fun p => header bo 3 ++ writePointss bo p) := by
  have h := forRange_ok ps (w ++ u32 bo ps.length)
    (fun p w => do let w ← W w bo (.polygon p); pure w) (fun p => header bo 3 ++ writePointss bo p)
    (fun x hx w => by simp [hW x hx w, write, Functor.map, Except.map, bind, Except.bind, pure, Except.pure])
  simp [Gen.writeMultiPolygon, binWriteU32, u32_u32len, bind, Except.bind, pure, Except.pure, h]

/-- members written one after the other by `Write`, the first error ends the loop: `writeList` -/
theorem forRange_writeList (W : WriteFn) (bo : BO) (gs : List BGeom) (w : Bytes)
    (hW : ∀ g ∈ gs, WritesAs W bo g) :
    forRange gs w (fun geom w => do let w ← W w bo geom; pure w) = (writeList bo gs).map (w ++ ·) := by
  induction gs generalizing w with
  | nil => simp [forRange, writeList, Functor.map, Except.map]
  | cons g gs ih =>
    simp only [forRange, writeList, bind, Except.bind, pure, Except.pure, hW g (by simp) w]
    cases h1 : write bo g with
    | error e => simp [Functor.map, Except.map]
    | ok a =>
      simp only [Functor.map, Except.map]
      rw [ih _ (fun y hy => hW y (by simp [hy]))]
      cases h2 : writeList bo gs with
      | error e => simp [Functor.map, Except.map]
      | ok b => simp [Functor.map, Except.map, List.append_assoc]

theorem tie_writeGeometryCollection (W : WriteFn) (w : Bytes) (bo : BO) (gs : List BGeom)
    (hW : ∀ g ∈ gs, WritesAs W bo g) :
    Gen.writeGeometryCollection W w bo gs
      = (writeList bo gs).map (fun body => w ++ u32 bo (Proto.listLen gs) ++ body) := by
  simp only [Gen.writeGeometryCollection, binWriteU32, u32_u32len, bind, Except.bind, pure, Except.pure,
    forRange_writeList W bo gs _ hW, listLen_eq]

theorem flag_eq (bo : BO) :
    (if bo = Gen.XDR then pure Gen.wkbXDR else if bo = Gen.NDR then pure Gen.wkbNDR else throw Err.badOrder
      : Except Err Nat) = .ok (flag bo).toNat := by
  cases bo <;> rfl

/-- members of `g` for which `Write` calls itself -/
def Members (W : WriteFn) (bo : BO) : BGeom → Prop
  | .multiPoint ps => ∀ p ∈ ps, WritesAs W bo (.point p)
  | .multiLineString ls => ∀ l ∈ ls, WritesAs W bo (.lineString l)
  | .multiPolygon ps => ∀ p ∈ ps, WritesAs W bo (.polygon p)
  | .collection gs => ∀ g ∈ gs, WritesAs W bo g
  | _ => True

/-- **tie_Write**: one unfolding of the Go function `Write` — header (flag byte, type code in the
caller's order), type switch, writer — is the model's `write`, provided the recursive calls are. -/
theorem tie_Write (W : WriteFn) (w : Bytes) (bo : BO) (g : BGeom) (hW : Members W bo g) :
    Gen.Write W w bo g = (write bo g).map (w ++ ·) := by
  have hf : ∀ bo : BO, UInt8.ofNat (flag bo).toNat = flag bo := by intro bo; cases bo <;> rfl
  simp only [Gen.Write, flag_eq]
  cases g with
  | point p =>
    simp [Gen.Write, flag_eq, binWriteU8, binWriteU32, tie_writePoint, write, header, hf,
      Gen.wkbPoint, bind, Except.bind, pure, Except.pure, Functor.map, Except.map]
  | lineString ps =>
    simp [Gen.Write, flag_eq, binWriteU8, binWriteU32, tie_writeLineString, write, header, hf,
      Gen.wkbLineString, bind, Except.bind, pure, Except.pure, Functor.map, Except.map]
  | polygon rs =>
    simp [Gen.Write, flag_eq, binWriteU8, binWriteU32, tie_writePolygon, write, header, hf,
      Gen.wkbPolygon, bind, Except.bind, pure, Except.pure, Functor.map, Except.map]
  | multiPoint ps =>
    simp [Gen.Write, flag_eq, binWriteU8, binWriteU32, tie_writeMultiPoint W _ bo ps hW, write, header, hf,
      Gen.wkbMultiPoint, bind, Except.bind, pure, Except.pure, Functor.map, Except.map]
  | multiLineString ls =>
    simp [Gen.Write, flag_eq, binWriteU8, binWriteU32, tie_writeMultiLineString W _ bo ls hW, write, header, hf,
      Gen.wkbMultiLineString, bind, Except.bind, pure, Except.pure, Functor.map, Except.map]
  | multiPolygon ps =>
    simp [Gen.Write, flag_eq, binWriteU8, binWriteU32, tie_writeMultiPolygon W _ bo ps hW, write, header, hf,
      Gen.wkbMultiPolygon, bind, Except.bind, pure, Except.pure, Functor.map, Except.map]
  | collection gs =>
    simp only [Gen.Write, flag_eq, binWriteU8, binWriteU32, tie_writeGeometryCollection W _ bo gs hW, write, header, hf,
      Gen.wkbGeometryCollection, bind, Except.bind, pure, Except.pure, Functor.map, Except.map]
    cases writeList bo gs <;> simp
  | bounds a b =>
    simp [Gen.Write, flag_eq, binWriteU8, write, bind, Except.bind, pure, Except.pure, Functor.map, Except.map,
      throw, throwThe, MonadExceptOf.throw]
  | nil =>
    simp [Gen.Write, flag_eq, binWriteU8, write, bind, Except.bind, pure, Except.pure, Functor.map, Except.map,
      throw, throwThe, MonadExceptOf.throw]

theorem depth_le_depthList (g : BGeom) (gs : List BGeom) (h : g ∈ gs) : g.depth ≤ Geom.depthList gs := by
  induction gs with
  | nil => simp at h
  | cons x xs ih =>
    simp only [List.mem_cons] at h
    simp only [Geom.depthList]
    rcases h with rfl | h
    · exact Nat.le_max_left _ _
    · exact Nat.le_trans (ih h) (Nat.le_max_right _ _)

/-- **tie_write**: the Go recursion `Write → writeMulti*/writeGeometryCollection → Write`, unrolled at
least `depth + 2` times (one level per collection nesting level, one for the value, one for the
members of a Multi* value), is the model's `write`: same bytes appended to the writer, same error. -/
theorem tie_write (fuel : Nat) (g : BGeom) (hf : g.depth + 2 ≤ fuel) (bo : BO) :
    WritesAs (Gen.write fuel) bo g := by
  induction fuel generalizing g with
  | zero => omega
  | succ f ih =>
    have leaf : ∀ (f : Nat) (x : BGeom), Members (Gen.write f) bo x → WritesAs (Gen.write (f+1)) bo x :=
      fun f x hx w => tie_Write (Gen.write f) w bo x hx
    obtain ⟨f', rfl⟩ : ∃ f', f = f' + 1 := ⟨f - 1, by omega⟩
    intro w
    refine tie_Write (Gen.write (f'+1)) w bo g ?_
    cases g with
    | multiPoint ps => exact fun p _ => leaf f' _ trivial
    | multiLineString ls => exact fun l _ => leaf f' _ trivial
    | multiPolygon ps => exact fun p _ => leaf f' _ trivial
    | collection gs =>
      intro x hx
      have := depth_le_depthList x gs hx
      simp only [Geom.depth] at hf
      exact ih x (by omega)
    | _ => trivial

/-- **tie_encode**: `wkb.Encode` as regenerated from the source is the model's `encode`. -/
theorem tie_encode (g : BGeom) (bo : BO) : Gen.encode g bo = encode bo g := by
  have h := tie_write (g.depth + 2) g (Nat.le_refl _) bo []
  simp only [Gen.encode, Gen.Encode, Gen.writeAll, encode, h, bind, Except.bind, pure, Except.pure]
  cases write bo g <;> simp [Functor.map, Except.map]

/-! ### readers -/

theorem tie_pointReader (bo : BO) (bs : Bytes) :
    Gen.pointReader bo bs = (do let (p, bs) ← readPoint bo bs; pure (.point p, bs)) := rfl

theorem tie_minUint32 (a b : Nat) : Gen.minUint32 a b = min a b := by
  simp only [Gen.minUint32]; split <;> omega

/-- one iteration of the chunk loop of `readPoints` (state: points still to read, points read, input) -/
def chunkStep (bo : BO) (k : Nat) (s : Nat × List (Pt UInt64) × Bytes) :
    Except Err (Nat × List (Pt UInt64) × Bytes) :=
  match readMany (readPoint bo) (min s.1 k) s.2.2 with
  | .error e => .error e
  | .ok (chunk, bs) => .ok (u32sub s.1 (u32len chunk.length), s.2.1 ++ chunk, bs)

/-- the chunked loop of `readPoints`: reading `rem` points in chunks of at most `k > 0` is reading
them at once — same points, same rest, and an error exactly when the input is too short -/
theorem readPoints_chunks (bo : BO) (k : Nat) (hk0 : 0 < k)
    (c : Nat × List (Pt UInt64) × Bytes → Bool) (hc : ∀ s, c s = decide (s.1 > 0))
    (f : Nat × List (Pt UInt64) × Bytes → Except Err (Nat × List (Pt UInt64) × Bytes))
    (hf : ∀ s, f s = chunkStep bo k s)
    (fuel rem : Nat) (hr : rem < fuel) (h32 : rem < 2^32) (pts : List (Pt UInt64)) (bs : Bytes) :
    whileLoop fuel c (rem, pts, bs) f
      = match readMany (readPoint bo) rem bs with
        | .error e => .error e
        | .ok (as, bs) => .ok (0, pts ++ as, bs) := by
  induction fuel generalizing rem pts bs with
  | zero => omega
  | succ fu ih =>
    cases rem with
    | zero => simp [whileLoop, readMany, hc]
    | succ rem =>
      have hk : min (rem + 1) k ≤ rem + 1 := Nat.min_le_left _ _
      have hk1 : 0 < min (rem + 1) k := by
        rw [Nat.lt_min]; exact ⟨by omega, hk0⟩
      have hsplit : rem + 1 = min (rem + 1) k + (rem + 1 - min (rem + 1) k) := by omega
      conv => rhs; rw [hsplit, readMany_add]
      simp only [whileLoop, hc, hf, chunkStep, gt_iff_lt, Nat.zero_lt_succ, decide_true, if_true,
        bind, Except.bind, pure, Except.pure]
      generalize min (rem + 1) k = m at *
      cases h1 : readMany (readPoint bo) m bs with
      | error e => rfl
      | ok r1 =>
        obtain ⟨chunk, b1⟩ := r1
        have hl := readMany_length _ _ _ _ _ h1
        have h2 : u32sub (rem + 1) (u32len chunk.length) = rem + 1 - m := by
          simp only [u32sub, u32len, hl]
          rw [Nat.mod_eq_of_lt (by omega : m < 2^32)]
          omega
        simp only [h2, ← hf]
        rw [ih (rem + 1 - m) (by omega) (by omega)]
        cases readMany (readPoint bo) (rem + 1 - m) b1 with
        | error e => rfl
        | ok r2 => simp [List.append_assoc]

theorem leVal_lt (bs : Bytes) : leVal bs < 256 ^ bs.length := by
  induction bs with
  | nil => simp [leVal]
  | cons b bs ih =>
    have := b.toNat_lt
    simp only [leVal, List.length_cons, Nat.pow_succ]
    omega

theorem readU32_lt (bo : BO) (bs r : Bytes) (n : Nat) (h : readU32 bo bs = .ok (n, r)) : n < 2^32 := by
  simp only [readU32, readNat, takeN, bind, Except.bind, pure, Except.pure] at h
  by_cases hlen : bs.length < 4
  · simp [hlen] at h
  · simp only [hlen, if_false, Except.ok.injEq, Prod.mk.injEq] at h
    have hl : (bs.take 4).length = 4 := by simp; omega
    rw [← h.1]
    cases bo with
    | ndr => have := leVal_lt (bs.take 4); rw [hl] at this; simpa [valBytes] using this
    | xdr =>
      have := leVal_lt (bs.take 4).reverse
      rw [List.length_reverse, hl] at this; simpa [valBytes] using this

/-- **tie_readPoints**: the chunked `readPoints` of the source (chunks of `maxChunk` points, `uint32`
arithmetic on the remaining count) is the model's `readPoints`, which reads the `count` points at once. -/
theorem tie_readPoints (bo : BO) (bs : Bytes) : Gen.readPoints bo bs = readPoints bo bs := by
  simp only [Gen.readPoints, readPoints, binReadU32, bind, Except.bind]
  cases h : readU32 bo bs with
  | error e => rfl
  | ok r =>
    obtain ⟨n, b1⟩ := r
    have h32 := readU32_lt bo bs b1 n h
    simp only []
    rw [readPoints_chunks bo Gen.maxChunk (by decide) _ (fun s => rfl) _
      (fun s => by
        obtain ⟨a, b, c⟩ := s
        simp only [chunkStep, binReadPoints, mkPoints, List.length_replicate, tie_minUint32, bind, Except.bind,
          pure, Except.pure]
        cases readMany (readPoint bo) (min a Gen.maxChunk) c <;> rfl)
      loopBudget n (by simp only [loopBudget]; omega) h32]
    cases readMany (readPoint bo) n b1 with
    | error e => rfl
    | ok r2 => simp [pure, Except.pure]

theorem tie_lineStringReader (bo : BO) (bs : Bytes) :
    Gen.lineStringReader bo bs = (do let (p, bs) ← readPoints bo bs; pure (.lineString p, bs)) := by
  simp only [Gen.lineStringReader, tie_readPoints]

theorem tie_polygonReader (bo : BO) (bs : Bytes) :
    Gen.polygonReader bo bs = (do
      let (n, bs) ← readU32 bo bs
      let (r, bs) ← readMany (readPoints bo) n bs
      pure (.polygon r, bs)) := by
  simp only [Gen.polygonReader, binReadU32, bind, Except.bind]
  cases readU32 bo bs with
  | error e => rfl
  | ok r =>
    obtain ⟨n, b1⟩ := r
    simp only []
    rw [loopN_collect (readPoints bo) _ (fun s => by
      obtain ⟨a, c⟩ := s
      simp only [collectStep, tie_readPoints, bind, Except.bind, pure, Except.pure]
      cases readPoints bo c <;> rfl)]
    cases readMany (readPoints bo) n b1 with
    | error e => rfl
    | ok r2 => simp [pure, Except.pure]

/-- a counted loop `Read`, type assertion, append — is `readMany (readAs R cast)` -/
theorem loopN_readAs {β : Type} (R : ReadFn) (cast : BGeom → Except Err β)
    (f : List β × Bytes → Except Err (List β × Bytes))
    (hf : ∀ xs bs, f (xs, bs) = (do
      let (g, bs) ← R bs
      let v ← cast g
      pure (xs ++ [v], bs)))
    (n : Nat) (bs : Bytes) :
    loopN n ([], bs) f = readMany (readAs R cast) n bs := by
  rw [loopN_collect (readAs R cast) f (fun s => by
    obtain ⟨a, c⟩ := s
    simp only [hf, collectStep, readAs, bind, Except.bind, pure, Except.pure]
    cases R c with
    | error e => rfl
    | ok r =>
      obtain ⟨g, b⟩ := r
      simp only []
      cases cast g <;> rfl)]
  cases readMany (readAs R cast) n bs with
  | error e => rfl
  | ok r2 => simp

theorem tie_multiPointReader (R : ReadFn) (bo : BO) (bs : Bytes) :
    Gen.multiPointReader R bo bs = (do
      let (n, bs) ← readU32 bo bs
      let (r, bs) ← readMany (readAs R asPoint) n bs
      pure (.multiPoint r, bs)) := by
  simp only [Gen.multiPointReader, binReadU32, bind, Except.bind]
  cases readU32 bo bs with
  | error e => rfl
  | ok r =>
    simp only []
    rw [loopN_readAs R asPoint _ (fun xs bs => rfl)]

theorem tie_multiLineStringReader (R : ReadFn) (bo : BO) (bs : Bytes) :
    Gen.multiLineStringReader R bo bs = (do
      let (n, bs) ← readU32 bo bs
      let (r, bs) ← readMany (readAs R asLine) n bs
      pure (.multiLineString r, bs)) := by
  simp only [Gen.multiLineStringReader, binReadU32, bind, Except.bind]
  cases readU32 bo bs with
  | error e => rfl
  | ok r =>
    simp only []
    rw [loopN_readAs R asLine _ (fun xs bs => rfl)]

theorem tie_multiPolygonReader (R : ReadFn) (bo : BO) (bs : Bytes) :
    Gen.multiPolygonReader R bo bs = (do
      let (n, bs) ← readU32 bo bs
      let (r, bs) ← readMany (readAs R asPoly) n bs
      pure (.multiPolygon r, bs)) := by
  simp only [Gen.multiPolygonReader, binReadU32, bind, Except.bind]
  cases readU32 bo bs with
  | error e => rfl
  | ok r =>
    simp only []
    rw [loopN_readAs R asPoly _ (fun xs bs => rfl)]

/-- `Read` never returns a nil geometry together with a nil error -/
def NonNil (R : ReadFn) : Prop := ∀ bs g r, R bs = .ok (g, r) → g ≠ .nil

theorem readAs_asGeom (R : ReadFn) (hR : NonNil R) : readAs R asGeom = R := by
  funext bs
  simp only [readAs, bind, Except.bind, pure, Except.pure]
  cases h : R bs with
  | error e => rfl
  | ok r =>
    obtain ⟨g, b⟩ := r
    have := hR bs g b h
    cases g <;> simp [asGeom] at this ⊢

theorem tie_geometryCollectionReader (R : ReadFn) (hR : NonNil R) (bo : BO) (bs : Bytes) :
    Gen.geometryCollectionReader R bo bs = (do
      let (n, bs) ← readU32 bo bs
      let (r, bs) ← readMany R n bs
      pure (.collection r, bs)) := by
  simp only [Gen.geometryCollectionReader, binReadU32, bind, Except.bind]
  cases readU32 bo bs with
  | error e => rfl
  | ok r =>
    simp only []
    rw [loopN_readAs R asGeom _ (fun xs bs => rfl), readAs_asGeom R hR]

/-- the dispatch table filled by `init()` maps exactly the seven type codes to their readers -/
theorem tie_wkbReaders (R : ReadFn) (code : Nat) :
    mapGet (Gen.wkbReaders R) code =
      if code = 1 then some Gen.pointReader
      else if code = 2 then some Gen.lineStringReader
      else if code = 3 then some Gen.polygonReader
      else if code = 4 then some (Gen.multiPointReader R)
      else if code = 5 then some (Gen.multiLineStringReader R)
      else if code = 6 then some (Gen.multiPolygonReader R)
      else if code = 7 then some (Gen.geometryCollectionReader R)
      else none := by
  match code with
  | 0 => rfl
  | 1 => rfl
  | 2 => rfl
  | 3 => rfl
  | 4 => rfl
  | 5 => rfl
  | 6 => rfl
  | 7 => rfl
  | n+8 =>
    simp [mapGet, Gen.wkbReaders, Gen.wkbPoint, Gen.wkbLineString, Gen.wkbPolygon, Gen.wkbMultiPoint,
      Gen.wkbMultiLineString, Gen.wkbMultiPolygon, Gen.wkbGeometryCollection]

/-- the model's chain of comparisons on the type code, with the recursive call as a parameter -/
def dispatch (R : ReadFn) (bo : BO) (code : Nat) (bs : Bytes) : Except Err (BGeom × Bytes) :=
  if code = 1 then do
    let (p, bs) ← readPoint bo bs; pure (.point p, bs)
  else if code = 2 then do
    let (p, bs) ← readPoints bo bs; pure (.lineString p, bs)
  else if code = 3 then do
    let (n, bs) ← readU32 bo bs
    let (r, bs) ← readMany (readPoints bo) n bs; pure (.polygon r, bs)
  else if code = 4 then do
    let (n, bs) ← readU32 bo bs
    let (r, bs) ← readMany (readAs R asPoint) n bs; pure (.multiPoint r, bs)
  else if code = 5 then do
    let (n, bs) ← readU32 bo bs
    let (r, bs) ← readMany (readAs R asLine) n bs; pure (.multiLineString r, bs)
  else if code = 6 then do
    let (n, bs) ← readU32 bo bs
    let (r, bs) ← readMany (readAs R asPoly) n bs; pure (.multiPolygon r, bs)
  else if code = 7 then do
    let (n, bs) ← readU32 bo bs
    let (r, bs) ← readMany R n bs; pure (.collection r, bs)
  else .error .badType

/-- one unfolding of the model's `read`, with the recursive call as a parameter -/
def readStep (R : ReadFn) (bs : Bytes) : Except Err (BGeom × Bytes) := do
  let (fl, bs) ← takeN 1 bs
  let bo ← (match fl with
    | [b] => if b = 0 then .ok BO.xdr else if b = 1 then .ok BO.ndr else .error .badOrder
    | _ => .error .eof : Except Err BO)
  let (code, bs) ← readU32 bo bs
  dispatch R bo code bs

theorem read_succ (fuel : Nat) (bs : Bytes) : read (fuel+1) bs = readStep (read fuel) bs := rfl

/-- after the header: the dispatch through the table is the model's chain of comparisons -/
theorem tie_dispatch (R : ReadFn) (hR : NonNil R) (bo : BO) (code : Nat) (bs : Bytes) :
    (match mapGet (Gen.wkbReaders R) code with
      | some reader => reader bo bs
      | none => throw Err.badType : Except Err (BGeom × Bytes))
    = dispatch R bo code bs := by
  rw [tie_wkbReaders]
  unfold dispatch
  by_cases h1 : code = 1
  · subst h1; simp only [if_true, tie_pointReader]
  by_cases h2 : code = 2
  · subst h2; simp only [Nat.reduceEqDiff, if_true, if_false, tie_lineStringReader]
  by_cases h3 : code = 3
  · subst h3; simp only [Nat.reduceEqDiff, if_true, if_false, tie_polygonReader]
  by_cases h4 : code = 4
  · subst h4; simp only [Nat.reduceEqDiff, if_true, if_false, tie_multiPointReader]
  by_cases h5 : code = 5
  · subst h5; simp only [Nat.reduceEqDiff, if_true, if_false, tie_multiLineStringReader]
  by_cases h6 : code = 6
  · subst h6; simp only [Nat.reduceEqDiff, if_true, if_false, tie_multiPolygonReader]
  by_cases h7 : code = 7
  · subst h7; simp only [Nat.reduceEqDiff, if_true, if_false, tie_geometryCollectionReader R hR]
  simp only [h1, h2, h3, h4, h5, h6, h7, if_false]; rfl

/-- **tie_Read**: one unfolding of the Go function `Read` — flag byte first (0/1, anything else an
error), the type code in that order, the reader from the dispatch table — is one unfolding of the
model's `read`. -/
theorem tie_Read (R : ReadFn) (hR : NonNil R) (bs : Bytes) : Gen.Read R bs = readStep R bs := by
  cases bs with
  | nil => rfl
  | cons b t =>
    have hx : Gen.wkbXDR = 0 := rfl
    have hn : Gen.wkbNDR = 1 := rfl
    have h0 : (b.toNat = 0) ↔ b = 0 := by
      constructor
      · intro h; exact UInt8.toNat_inj.mp (by simpa using h)
      · intro h; subst h; rfl
    have h1 : (b.toNat = 1) ↔ b = 1 := by
      constructor
      · intro h; exact UInt8.toNat_inj.mp (by simpa using h)
      · intro h; subst h; rfl
    have hd := tie_dispatch R hR
    simp only [Gen.Read, readStep, binReadU8, binReadU32, takeN, hx, hn, h0, h1, bind, Except.bind, pure, Except.pure,
      List.length_cons, List.take_succ_cons, List.take_zero, List.drop_succ_cons, List.drop_zero]
    have hlen : ¬ (t.length + 1 < 1) := by omega
    simp only [hlen, if_false]
    by_cases hb0 : b = 0
    · simp only [hb0, if_true]
      cases readU32 BO.xdr t with
      | error e => rfl
      | ok v => exact hd _ _ _
    · by_cases hb1 : b = 1
      · have : ¬ ((1 : UInt8) = 0) := by decide
        simp only [hb1, this, if_true, if_false]
        cases readU32 BO.ndr t with
        | error e => rfl
        | ok v => exact hd _ _ _
      · simp only [hb0, hb1, if_false]; rfl

/-- the model's `read` never returns a nil geometry -/
theorem dispatch_nonNil (R : ReadFn) (bo : BO) (code : Nat) (bs r : Bytes) (g : BGeom)
    (h : dispatch R bo code bs = .ok (g, r)) : g ≠ .nil := by
  unfold dispatch at h
  simp only [bind, Except.bind, pure, Except.pure] at h
  repeat' split at h
  all_goals first
    | (simp only [Except.ok.injEq, Prod.mk.injEq] at h; rw [← h.1]; simp)
    | simp at h

theorem read_nonNil (fuel : Nat) : NonNil (read fuel) := by
  intro bs g r h
  cases fuel with
  | zero => simp [read] at h
  | succ f =>
    rw [read_succ] at h
    simp only [readStep, bind, Except.bind] at h
    repeat' split at h
    all_goals first
      | exact dispatch_nonNil _ _ _ _ _ _ h
      | simp at h

/-- **tie_read**: the Go recursion `Read → reader → Read`, unrolled `fuel` times, is the model's `read`
with the same budget — for every input, well-formed or not. -/
theorem tie_read (fuel : Nat) : Gen.read fuel = read fuel := by
  induction fuel with
  | zero => rfl
  | succ f ih =>
    funext bs
    rw [read_succ, ← ih]
    exact tie_Read (Gen.read f) (ih ▸ read_nonNil f) bs

/-- **tie_decode**: `wkb.Decode` as regenerated from the source is the model's `decode`, for every byte
string (well-formed or not). -/
theorem tie_decode (buf : Bytes) : Gen.decode buf = decode buf := by
  simp only [Gen.decode, Gen.Decode, Gen.readAll, dropRest, decode, tie_read]

/-! ### encoding/hex -/

/-- **tie_hexEncode**: `hex.Encode` is `hex.EncodeToString ∘ wkb.Encode`. -/
theorem tie_hexEncode (g : BGeom) (bo : BO) :
    Gen.hexEncode g bo = liftWkb ((encode bo g).map hexEncode) := by
  have h : Gen.Encode Gen.writeAll g bo = encode bo g := tie_encode g bo
  simp only [Gen.hexEncode, Gen.hex_Encode, h, hexEncodeToString, bind, Except.bind, pure, Except.pure]
  cases encode bo g <;> rfl

/-- **tie_hexDecode**: `hex.Decode` is `wkb.Decode ∘ hex.DecodeString` (a malformed text is an error). -/
theorem tie_hexDecode (s : List Char) :
    Gen.hexDecode s = match hexDecode s with
      | some bs => liftWkb (decode bs)
      | none => .error .hex := by
  have h : ∀ buf, Gen.Decode Gen.readAll buf = decode buf := tie_decode
  simp only [Gen.hexDecode, Gen.hex_Decode, hexDecodeString, h, bind, Except.bind]
  cases hexDecode s <;> rfl

/-! ### the C05 theorems for the definitions regenerated from the source -/

/-- **C05_roundtrip_src**: `C05_roundtrip` for `wkb.Encode`/`wkb.Decode` as the source defines them now. -/
theorem C05_roundtrip_src (bo : BO) (g : BGeom) (he : Encodable g) :
    ∃ bs, Gen.encode g bo = .ok bs ∧ Gen.decode bs = .ok g := by
  simpa only [tie_encode, tie_decode] using C05_roundtrip bo g he

/-- **C05_layout_src**: the bytes `wkb.Encode` (as the source defines it now) produces are those of the
independent OGC serializer. -/
theorem C05_layout_src (bo : BO) (g : BGeom) (he : Encodable g) :
    ∃ bs, Gen.encode g bo = .ok bs ∧ serialize bo g = some bs := by
  simpa only [tie_encode, encode] using C05_layout bo g he

/-- **C05_mixed_order_src**: `wkb.Read` (as the source defines it now, recursion unrolled more often than
the value nests) reads back the OGC serialization under ANY per-element byte-order assignment. -/
theorem C05_mixed_order_src (fuel : Nat) (t : OTree) (g : BGeom) (bs r : Bytes)
    (he : Encodable g) (hf : g.depth + 1 < fuel) (hs : serializeMixed t g = some bs) :
    Gen.read fuel (bs ++ r) = .ok (g, r) := by
  rw [tie_read]; exact C05_mixed_order fuel t g bs r he hf hs

/-- **C05_decode_mixed_src**: the same for `wkb.Decode`, trailing bytes allowed. -/
theorem C05_decode_mixed_src (t : OTree) (g : BGeom) (bs r : Bytes)
    (he : Encodable g) (hs : serializeMixed t g = some bs) : Gen.decode (bs ++ r) = .ok g := by
  rw [tie_decode]; exact C05_decode_mixed t g bs r he hs

/-- **C05_unsupported_src**: `*Bounds`/nil at any depth makes `wkb.Encode` (source) return an error. -/
theorem C05_unsupported_src (bo : BO) (g : BGeom) (h : ¬ Supported g) : ∃ e, Gen.encode g bo = .error e := by
  simpa only [tie_encode, encode] using C05_unsupported bo g h

/-- **C05_hex_src**: `hex.Decode (hex.Encode g) = g` for the two functions as the source composes them
now, for every encodable geometry and both byte orders; the text is the lower-case hex of the OGC bytes. -/
theorem C05_hex_src (bo : BO) (g : BGeom) (he : Encodable g) :
    ∃ bs, serialize bo g = some bs ∧ Gen.hexEncode g bo = .ok (hexEncode bs) ∧
      Gen.hexDecode (hexEncode bs) = .ok g := by
  obtain ⟨bs, h1, h2⟩ := C05_layout bo g he
  obtain ⟨bs', h3, h4⟩ := C05_roundtrip bo g he
  have : bs' = bs := by simp only [encode, h1] at h3; cases h3; rfl
  subst this
  refine ⟨bs', h2, ?_, ?_⟩
  · simp [tie_hexEncode, encode, h1, liftWkb, Functor.map, Except.map]
  · simp [tie_hexDecode, C05_hex, h4, liftWkb]

end GeomV.C05
