import GeomV.C05.Model
/-!
# C05 — `wkb.Write(w io.Writer, byteOrder, g)` call by call, on writers that may fail

`Model.write` gives the bytes `wkb.Write` produces when nothing fails.  What it does not say is what
the caller's `io.Writer` has already received when `Write` returns an error: either because the writer
itself failed, or because an unsupported value (`*Bounds`, nil) was met after earlier bytes were written.
Here the writer is a parameter (`Sink`): one `put p` is one `w.Write(p)` call, and `writeW` is
`wkb.Write` written over it in the order of the Go source, one `put` per `binary.Write` call, stopping
at the first non-nil error exactly as every `if err := ...; err != nil { return err }` of the source does.

`encoding/binary.Write(w, order, x)` encodes the whole value into one buffer and makes exactly one
`w.Write(buf)` call with it (`_, err := w.Write(bs); return err`):
the flag (`uint8`) is 1 byte, a `uint32` 4 bytes, a `geom.Point` (through `&point`) 16 bytes, a
`[]geom.Point` (through `&points`, reflection path, `dataSize = 16·len`) 16·n bytes in ONE call; for an
empty (or nil) slice `dataSize` is 0, the buffer is `make([]byte, 0)` and `w.Write` is still called,
with no bytes.  `wkb.Write` itself writes the flag byte BEFORE it looks at the dynamic type of `g`
(wkb.go: `binary.Write(w, byteOrder, wkbByteOrder)`, then the first type switch whose `default` returns
`&UnsupportedGeometryError{...}`), so an unsupported value costs the writer one byte.

`pieces` is the same thing as data: the list of buffers of the successive `w.Write` calls a never-failing
writer would see, and the `wkb` error (if any) met after them.  `ProofsSink.lean` proves
`writeW = runPieces ∘ pieces` and that the concatenation of the pieces is `Model.write`'s result.
Core Lean only.
-/
namespace GeomV.C05.Sink
open GeomV GeomV.C05

/-- the error `wkb.Write` returns: one of its own (`Err.unsupported`), or the writer's error passed
through unchanged (identified by a number) -/
inductive WErr
  | wkb (e : Err)
  | io (code : Nat)
deriving DecidableEq, Repr, Inhabited

/-- an `io.Writer`: `put p s` is one `w.Write(p)` call in state `s` — the new state, and `some code` if
the call returned a non-nil error.  `trace s` is what the writer has accepted so far (for the theorems;
`wkb.Write` never looks at it). -/
structure Sink (σ : Type) where
  put : Bytes → σ → σ × Option Nat
  trace : σ → Bytes

/-- io.Writer's contract: "Write writes len(p) bytes from p ... returns the number of bytes written from
p (0 <= n <= len(p)) ... must return a non-nil error if it returns n < len(p)".  Every call extends
what was accepted by a prefix of its buffer, by all of it when it returns no error. -/
def Honest {σ : Type} (S : Sink σ) : Prop :=
  ∀ (p : Bytes) (s : σ),
    (∃ k, S.trace (S.put p s).1 = S.trace s ++ p.take k) ∧
    ((S.put p s).2 = none → S.trace (S.put p s).1 = S.trace s ++ p)

/-- a writer none of whose calls returns an error (`bytes.Buffer` short of memory exhaustion) -/
def NeverFails {σ : Type} (S : Sink σ) : Prop := ∀ (p : Bytes) (s : σ), (S.put p s).2 = none

/-- `bytes.Buffer`: appends, never fails -/
def bufSink : Sink Bytes := ⟨fun p s => (s ++ p, none), id⟩

/-- the recording writer of the `wrfail` lines (`chunkWriter` in harness/cmd/c05/stream.go): the bytes
accepted so far, the total number of bytes it accepts, the error it returns afterwards -/
structure LimW where
  acc : Bytes
  limit : Nat
  code : Nat
deriving DecidableEq, Repr, Inhabited

/-- a fresh `chunkWriter{limit: limit}` whose error is `scriptErr{code}` -/
def LimW.new (limit code : Nat) : LimW := ⟨[], limit, code⟩

/-- `chunkWriter.Write`: `if w.total+len(p) > w.limit { n := w.limit - w.total; keep p[:n]; return n, err }`,
otherwise keep all of `p` and return `len(p), nil` (so an empty `p` at the limit is not an error) -/
def LimW.put (p : Bytes) (w : LimW) : LimW × Option Nat :=
  if w.acc.length + p.length > w.limit then
    ({ w with acc := w.acc ++ p.take (w.limit - w.acc.length) }, some w.code)
  else
    ({ w with acc := w.acc ++ p }, none)

def limSink : Sink LimW := ⟨LimW.put, LimW.acc⟩

section
variable {σ : Type}

/-- state after a call and Go's `error` result (`none` = nil) -/
abbrev Res (σ : Type) := σ × Option WErr

/-- `if err := first; err != nil { return err }; rest` -/
def andThen (r : Res σ) (k : σ → Res σ) : Res σ :=
  match r with
  | (s, none) => k s
  | (s, some e) => (s, some e)

/-- `return &UnsupportedGeometryError{...}` and the like: no call to the writer -/
def failW (e : Err) (s : σ) : Res σ := (s, some (.wkb e))

variable (S : Sink σ)

/-- `binary.Write(w, byteOrder, x)` where `p` is the encoding of `x`: ONE `w.Write(p)` -/
def binW (p : Bytes) (s : σ) : Res σ :=
  match S.put p s with
  | (s', none) => (s', none)
  | (s', some c) => (s', some (.io c))

/-- `for _, x := range xs { if err := f(x); err != nil { return err } }; return nil` -/
def wEach {α : Type} (f : α → σ → Res σ) : List α → σ → Res σ
  | [], s => (s, none)
  | a :: as, s => andThen (f a s) (wEach f as)

/-- the first lines of `Write` for a supported value: the flag byte, then the type code -/
def wHeader (bo : BO) (code : Nat) (s : σ) : Res σ :=
  andThen (binW S [flag bo] s) (binW S (u32 bo code))

/-- point.go `writePoint`: `binary.Write(w, byteOrder, &point)` -/
def wPoint (bo : BO) (p : Pt UInt64) : σ → Res σ := binW S (writePoint bo p)

/-- point.go `writePoints`: the count, then all points in one `binary.Write(w, byteOrder, &points)`
(also when there are none) -/
def wPoints (bo : BO) (ps : List (Pt UInt64)) (s : σ) : Res σ :=
  andThen (binW S (u32 bo ps.length) s) (binW S (ps.flatMap (writePoint bo)))

/-- point.go `writePointss` -/
def wPointss (bo : BO) (pss : List (List (Pt UInt64))) (s : σ) : Res σ :=
  andThen (binW S (u32 bo pss.length) s) (wEach (wPoints S bo) pss)

/-- `Write(w, byteOrder, point)` for a `geom.Point` (the call multipoint.go makes for every member) -/
def wGeomPoint (bo : BO) (p : Pt UInt64) (s : σ) : Res σ :=
  andThen (wHeader S bo 1 s) (wPoint S bo p)
/-- `Write(w, byteOrder, lineString)` (multilinestring.go; linestring.go `writeLineString` = `writePoints`) -/
def wGeomLine (bo : BO) (ps : List (Pt UInt64)) (s : σ) : Res σ :=
  andThen (wHeader S bo 2 s) (wPoints S bo ps)
/-- `Write(w, byteOrder, polygon)` (multipolygon.go; polygon.go `writePolygon` = `writePointss`) -/
def wGeomPoly (bo : BO) (rs : List (List (Pt UInt64))) (s : σ) : Res σ :=
  andThen (wHeader S bo 3 s) (wPointss S bo rs)

mutual
/-- `wkb.Write(w, byteOrder, g)` on the writer `S` in state `s` -/
def writeW (bo : BO) : BGeom → σ → Res σ
  | .point p, s => wGeomPoint S bo p s
  | .lineString ps, s => wGeomLine S bo ps s
  | .polygon rs, s => wGeomPoly S bo rs s
  | .multiPoint ps, s =>
      andThen (wHeader S bo 4 s) fun s =>
      andThen (binW S (u32 bo ps.length) s) (wEach (wGeomPoint S bo) ps)
  | .multiLineString ls, s =>
      andThen (wHeader S bo 5 s) fun s =>
      andThen (binW S (u32 bo ls.length) s) (wEach (wGeomLine S bo) ls)
  | .multiPolygon ps, s =>
      andThen (wHeader S bo 6 s) fun s =>
      andThen (binW S (u32 bo ps.length) s) (wEach (wGeomPoly S bo) ps)
  | .collection gs, s =>
      andThen (wHeader S bo 7 s) fun s =>
      andThen (binW S (u32 bo (Proto.listLen gs)) s) (writeWList bo gs)
  | .bounds _ _, s => andThen (binW S [flag bo] s) (failW .unsupported)
  | .nil, s => andThen (binW S [flag bo] s) (failW .unsupported)
/-- the loop of geometrycollection.go `writeGeometryCollection` -/
def writeWList (bo : BO) : List BGeom → σ → Res σ
  | [], s => (s, none)
  | g :: gs, s => andThen (writeW bo g s) (writeWList bo gs)
end

/-! ### the same as data: the buffers of the successive `w.Write` calls -/

/-- the writer is given these buffers one call after the other until one call fails -/
def runPuts : List Bytes → σ → Res σ
  | [], s => (s, none)
  | p :: ps, s => andThen (binW S p s) (runPuts ps)

/-- ... and, if none failed, `wkb.Write` returns this error (or nil) -/
def runPieces (pe : List Bytes × Option Err) (s : σ) : Res σ :=
  andThen (runPuts S pe.1 s) fun s => (s, pe.2.map .wkb)

end

def pcHeader (bo : BO) (code : Nat) : List Bytes := [[flag bo], u32 bo code]
def pcPoints (bo : BO) (ps : List (Pt UInt64)) : List Bytes :=
  [u32 bo ps.length, ps.flatMap (writePoint bo)]
def pcPointss (bo : BO) (pss : List (List (Pt UInt64))) : List Bytes :=
  u32 bo pss.length :: pss.flatMap (pcPoints bo)
def pcGeomPoint (bo : BO) (p : Pt UInt64) : List Bytes := pcHeader bo 1 ++ [writePoint bo p]
def pcGeomLine (bo : BO) (ps : List (Pt UInt64)) : List Bytes := pcHeader bo 2 ++ pcPoints bo ps
def pcGeomPoly (bo : BO) (rs : List (List (Pt UInt64))) : List Bytes := pcHeader bo 3 ++ pcPointss bo rs

mutual
/-- the buffers `wkb.Write` hands to a writer that never fails, in order, and the error it returns
after the last of them (`none`: nil) -/
def pieces (bo : BO) : BGeom → List Bytes × Option Err
  | .point p => (pcGeomPoint bo p, none)
  | .lineString ps => (pcGeomLine bo ps, none)
  | .polygon rs => (pcGeomPoly bo rs, none)
  | .multiPoint ps => (pcHeader bo 4 ++ u32 bo ps.length :: ps.flatMap (pcGeomPoint bo), none)
  | .multiLineString ls => (pcHeader bo 5 ++ u32 bo ls.length :: ls.flatMap (pcGeomLine bo), none)
  | .multiPolygon ps => (pcHeader bo 6 ++ u32 bo ps.length :: ps.flatMap (pcGeomPoly bo), none)
  | .collection gs =>
      (pcHeader bo 7 ++ u32 bo (Proto.listLen gs) :: (piecesList bo gs).1, (piecesList bo gs).2)
  | .bounds _ _ => ([[flag bo]], some .unsupported)
  | .nil => ([[flag bo]], some .unsupported)
def piecesList (bo : BO) : List BGeom → List Bytes × Option Err
  | [] => ([], none)
  | g :: gs =>
      match (pieces bo g).2 with
      | some e => ((pieces bo g).1, some e)
      | none => ((pieces bo g).1 ++ (piecesList bo gs).1, (piecesList bo gs).2)
end

end GeomV.C05.Sink
