import GeomV.C05.Model
/-!
# C05 specification: an independent serializer of the OGC 06-103r4 WKB layout

Written from the grammar, production by production, not from the Go functions:

  WKBGeometry        ::= byteOrder wkbType body
  Point              ::= double double
  LinearRing         ::= uint32 Point*
  WKBPoint           ::= byteOrder 1 Point
  WKBLineString      ::= byteOrder 2 uint32 Point*
  WKBPolygon         ::= byteOrder 3 uint32 LinearRing*
  WKBMultiPoint      ::= byteOrder 4 uint32 WKBPoint*
  WKBMultiLineString ::= byteOrder 5 uint32 WKBLineString*
  WKBMultiPolygon    ::= byteOrder 6 uint32 WKBPolygon*
  WKBGeometryCollection ::= byteOrder 7 uint32 WKBGeometry*

Every WKB<X> production carries its own byte order, so the serializer takes an *order tree*:
the byte order of a node and of each of its WKB-children (missing children inherit).
Integers are produced by an independent most-significant-first digit routine.
-/
namespace GeomV.C05.Ogc
open GeomV GeomV.C05

/-- big-endian digits, most significant first -/
def beDigits : Nat → Nat → List UInt8
  | 0, _ => []
  | k+1, n => UInt8.ofNat (n / 256^k % 256) :: beDigits k n

def uintN (bo : BO) (k n : Nat) : List UInt8 :=
  match bo with | .xdr => beDigits k n | .ndr => (beDigits k n).reverse

def uint32 (bo : BO) (n : Nat) := uintN bo 4 n
def double (bo : BO) (u : UInt64) := uintN bo 8 u.toNat
def byteOrder : BO → UInt8 | .xdr => 0 | .ndr => 1

inductive OTree where
  | node (bo : BO) (kids : List OTree)
deriving Inhabited

def OTree.bo : OTree → BO | .node b _ => b
def OTree.kids : OTree → List OTree | .node _ k => k
def OTree.uniform (bo : BO) : OTree := .node bo []

/-- i-th child order tree, inheriting the parent's order when absent -/
def kid (t : OTree) (i : Nat) : OTree := (t.kids[i]?).getD (.uniform t.bo)

def point (bo : BO) (p : Pt UInt64) : List UInt8 := double bo p.x ++ double bo p.y
def linearRing (bo : BO) (ps : List (Pt UInt64)) : List UInt8 :=
  uint32 bo ps.length ++ ps.flatMap (point bo)

def wkbPoint (t : OTree) (p : Pt UInt64) := byteOrder t.bo :: uint32 t.bo 1 ++ point t.bo p
def wkbLineString (t : OTree) (ps : List (Pt UInt64)) :=
  byteOrder t.bo :: uint32 t.bo 2 ++ linearRing t.bo ps
def wkbPolygon (t : OTree) (rs : List (List (Pt UInt64))) :=
  byteOrder t.bo :: uint32 t.bo 3 ++ uint32 t.bo rs.length ++ rs.flatMap (linearRing t.bo)

/-- serialize children `xs` with per-child order trees starting at index `i` -/
def kidsWith {β : Type} (t : OTree) (f : OTree → β → List UInt8) : Nat → List β → List UInt8
  | _, [] => []
  | i, x :: xs => f (kid t i) x ++ kidsWith t f (i+1) xs

mutual
def serializeMixed (t : OTree) : BGeom → Option (List UInt8)
  | .point p => some (wkbPoint t p)
  | .lineString ps => some (wkbLineString t ps)
  | .polygon rs => some (wkbPolygon t rs)
  | .multiPoint ps =>
      some (byteOrder t.bo :: uint32 t.bo 4 ++ uint32 t.bo ps.length ++ kidsWith t wkbPoint 0 ps)
  | .multiLineString ls =>
      some (byteOrder t.bo :: uint32 t.bo 5 ++ uint32 t.bo ls.length ++ kidsWith t wkbLineString 0 ls)
  | .multiPolygon ps =>
      some (byteOrder t.bo :: uint32 t.bo 6 ++ uint32 t.bo ps.length ++ kidsWith t wkbPolygon 0 ps)
  | .collection gs => do
      let body ← serializeKids t 0 gs
      some (byteOrder t.bo :: uint32 t.bo 7 ++ uint32 t.bo (Proto.listLen gs) ++ body)
  | .bounds _ _ => none
  | .nil => none
def serializeKids (t : OTree) : Nat → List BGeom → Option (List UInt8)
  | _, [] => some []
  | i, g :: gs => do
      let a ← serializeMixed (kid t i) g
      let b ← serializeKids t (i+1) gs
      some (a ++ b)
end

def serialize (bo : BO) (g : BGeom) : Option (List UInt8) := serializeMixed (.uniform bo) g

/-- every member count fits the uint32 count field (what `uint32(len(x))` needs to be lossless) -/
def fits (n : Nat) : Prop := n < 2^32

mutual
def Encodable : BGeom → Prop
  | .point _ => True
  | .lineString ps => fits ps.length
  | .polygon rs => fits rs.length ∧ ∀ r ∈ rs, fits r.length
  | .multiPoint ps => fits ps.length
  | .multiLineString ls => fits ls.length ∧ ∀ l ∈ ls, fits l.length
  | .multiPolygon ps => fits ps.length ∧ ∀ p ∈ ps, fits p.length ∧ ∀ r ∈ p, fits r.length
  | .collection gs => fits (Proto.listLen gs) ∧ EncodableList gs
  | .bounds _ _ => False
  | .nil => False
def EncodableList : List BGeom → Prop
  | [] => True
  | g :: gs => Encodable g ∧ EncodableList gs
end

end GeomV.C05.Ogc
