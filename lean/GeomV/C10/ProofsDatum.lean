import GeomV.C10.LemmasD
import GeomV.C10.LemmasTD
import GeomV.C10.Proofs
/-!
# C10 — `datumTransform` leaves the shared datums as it found them (frame), on every way out

Clause: "calling it any number of times, in any order, interleaved with other transformers built from the
same spatial references, returns the same result": the `*datum` objects are shared state, and
`datumTransform` is the one function on the call path that writes to them.
-/
namespace GeomV.C10
open GeomV

variable {F R Err : Type}

/-- **C10_datum_frame**: for every heap of datums, every pair of pointers (the same object twice included),
every point and every behaviour of the callees (success, error, panic): after `datumTransform` the heap is
exactly the heap before — on the normal return, on each error return and when a callee panics (the restore
is deferred). -/
theorem C10_datum_frame (o : DOps F R Err) (h : DHeap F R) (s d : Nat) (v : F × F × F) :
    (datumTransformM o h s d v).1 = h :=
  datumTransformM_heap o h s d v

/-- **C10_datum_never_written** (fix 70faba2; true concurrency of transformers sharing an `*SR`): the body of
`datumTransform` after its `defer` statement — the only stretch where the shared datums used to be written —
leaves the heap exactly as found, for every heap, pointers, point and callees; the deferred function then
assigns the saved values, which are the values the fields have (`restore_id`, `restoreSrc_id`).  So at every
moment of a call the shared datums hold the values they had before it: a transformer running concurrently on
the same spatial references reads the same records as one running alone.  (The model has no goroutines; this
is the single-call invariant that the goroutine probe `cc` exercises on the real code.) -/
theorem C10_datum_never_written (o : DOps F R Err) (h : DHeap F R) (s d : Nat) (v : F × F × F) :
    (dtAfterDefer o h s d v).1 = h ∧
    restore h s d (h s).a (h s).es (h d).a (h d).es = h ∧ restoreSrc h s (h s).a (h s).es = h :=
  ⟨dtAfterDefer_heap o h s d v, restore_id h h s d (fun _ _ => rfl) rfl rfl, restoreSrc_id h s⟩

/-- **C10_datum_pure**: the answer is a function of the two datum RECORDS and the point — it depends
neither on the rest of the heap nor on whether the two pointers are the same object. -/
theorem C10_datum_pure (o : DOps F R Err) (h : DHeap F R) (s d : Nat) (v : F × F × F) :
    (datumTransformM o h s d v).2 = datumTransformPure o (h s) (h d) v :=
  datumTransformM_result o h s d v

/-- **C10_datum_history**: any history of `datumTransform` calls over shared datums leaves the heap as it
was, and the list of answers is the list of single calls on the INITIAL heap (history independence of
the datum step; this is what makes `Core.dt` of the transformer model a function). -/
theorem C10_datum_history (o : DOps F R Err) (h : DHeap F R) (l : List (Nat × Nat × (F × F × F))) :
    (runDatum o h l).1 = h ∧
    (runDatum o h l).2 = l.map (fun c => (datumTransformM o h c.1 c.2.1 c.2.2).2) := by
  refine ⟨runDatum_heap o h l, ?_⟩
  rw [runDatum_results]
  apply List.map_congr_left
  intro c _
  rw [datumTransformM_result]

/-! ### the transformer state machine WITH the datum writes in the model -/
section Composed
variable {P Err Err0 : Type} [FOps F]

/-- **C10_pure_with_datums** (history independence with BOTH kinds of shared state in the model: the `*SR`
records the constructors write on every call, and the `*datum` objects `datumTransform` writes and restores).
For every projection internals satisfying `CoreOK` (a theorem for the transcribed constructors), every
behaviour of the datum callees, every assignment of datum objects to SRs (`dmap`, sharing allowed), every
initial SR heap and datum heap, every pool of transformers and every history of calls on the machine
`runHistS` that threads the datum heap through `datumTransform`: the datum heap ends exactly as it began,
and the i-th answer is the answer of a single call of that transformer on the initial heaps (a freshly built
transformer).  A panic of a datum callee is a panic of the call (`Res.panic`, `C10_datum_panic_is_panic`). -/
theorem C10_pure_with_datums (c : Core F P Err) (hc : CoreOK c) (o : DOps F R Err0) (dmap : Nat → Nat)
    (conv : Err0 → Err) (wgs : Nat) (h0 : Heap F P) (hD : DHeap F R) (pool : Nat → Tr)
    (hist : List (Nat × F × F)) :
    (runHistS c (datumStep o dmap conv) wgs { heap := h0, pool := pool } hD hist).2.1 = hD ∧
    Spec.HistoryIndependent (runHistS c (datumStep o dmap conv) wgs { heap := h0, pool := pool } hD hist).2.2
      (hist.map fun q => (stepS c (datumStep o dmap conv) wgs h0 hD (pool q.1) q.2.1 q.2.2).2.2.2) := by
  have hf := datumStep_frame (Err := Err) o dmap conv
  rw [runHistS_eq c _ hf]
  refine ⟨rfl, ?_⟩
  have hc' : CoreOK (coreAt c (datumStep o dmap conv) hD) := hc
  have := C10_pure (coreAt c (datumStep o dmap conv) hD) hc' wgs h0 pool hist
  simpa only [stepS_eq c _ hf] using this

/-- **C10_step_datums_frame**: one call of a transformer leaves the datum heap exactly as it found it. -/
theorem C10_step_datums_frame (c : Core F P Err) (o : DOps F R Err0) (dmap : Nat → Nat)
    (conv : Err0 → Err) (wgs : Nat) (h : Heap F P) (hD : DHeap F R) (tr : Tr) (x y : F) :
    (stepS c (datumStep o dmap conv) wgs h hD tr x y).2.1 = hD := by
  rw [stepS_eq c _ (datumStep_frame (Err := Err) o dmap conv)]

/-- **C10_datum_panic_is_panic** ("never panics" is not hidden by the model): when a callee of
`datumTransform` panics, the datum step of the composed machine yields that PANIC (not an error value) and the
datum heap exactly as before the call — the restore is deferred —, and `transform3`'s body turns it into a
panic of the call (`Res3.panic`), which the closure passes on (`dropZ`). -/
theorem C10_datum_panic_is_panic (c : Core F P Err) (o : DOps F R Err0) (dmap : Nat → Nat) (conv : Err0 → Err)
    (hD : DHeap F R) (s d : Nat) (S D : SR F P) (x y z x1 y1 x2 y2 : F) (g : Fault)
    (h1 : axisPart c.axisErr S.axis false x y = .ok (x1, y1))
    (h2 : (if S.longlat then (.ok (FOps.mul x1 FOps.deg2rad, FOps.mul y1 FOps.deg2rad) : Except Err (F × F))
           else c.inv S.p (FOps.mul x1 S.toMeter) (FOps.mul y1 S.toMeter)) = .ok (x2, y2))
    (h3 : (datumTransformM o hD (dmap s) (dmap d)
            (if FOps.isNaN S.fromGreenwich then x2 else FOps.add x2 S.fromGreenwich, y2, z)).2 = .error (.panic g)) :
    bodyS c (datumStep o dmap conv) hD s d S D x y z = (hD, .panic g) := by
  unfold bodyS
  simp only [h1, h2]
  have hh : datumStep (Err := Err) o dmap conv hD s d
      (if FOps.isNaN S.fromGreenwich then x2 else FOps.add x2 S.fromGreenwich) y2 z = (hD, .error (.panic g)) := by
    unfold datumStep
    simp only [datumTransformM_heap, h3]
  simp only [hh, failToRes]

end Composed

/-! ### the snapshot (before fix 855dde6) did not have the frame property -/
namespace DatumWitness

def ops : DOps Int Unit String where
  compare := fun _ _ => .ok false
  fne := fun a b => a != b
  geodeticToGeocentric := fun _ v => .ok v
  geocentricToWgs84 := fun _ v => .ok v
  geocentricFromWgs84 := fun _ v => .ok v
  geocentricToGeodetic := fun _ v => .ok v
  wgsA := 1
  wgsEs := 2
  gridErr := "gridshift not supported"

/-- cell 0: a WGS84-type datum; cell 1: a grid-shift datum -/
def heap : DHeap Int Unit := fun i => if i = 0 then ⟨4, 10, 20, ()⟩ else ⟨3, 30, 40, ()⟩

/-- snapshot: the failed call leaves the WGS84 constants in the destination datum -/
theorem snapshot_datum_not_restored :
    (datumTransformSnapshot ops heap 0 1 (5, 6, 7)).2 = .error (.err "gridshift not supported") ∧
    (((datumTransformSnapshot ops heap 0 1 (5, 6, 7)).1 1).a, ((datumTransformSnapshot ops heap 0 1 (5, 6, 7)).1 1).es) = (1, 2) ∧
    ((heap 1).a, (heap 1).es) = (30, 40) :=
  ⟨rfl, rfl, rfl⟩

/-- before fix 70faba2 (`datumTransformShared`): DURING the call the shared destination datum carried the WGS84
constants — what a goroutine running `compare_datums` on it at that moment read (observed on the real code as
"gridshift not supported" for a pair with equal grids); after the call it was put back. -/
theorem shared_window :
    (((dtAfterDeferShared ops heap 0 1 (5, 6, 7)).1 1).a, ((dtAfterDeferShared ops heap 0 1 (5, 6, 7)).1 1).es) = (1, 2) ∧
    ((heap 1).a, (heap 1).es) = (30, 40) ∧
    (datumTransformShared ops heap 0 1 (5, 6, 7)).1 1 = heap 1 ∧
    (dtAfterDefer ops heap 0 1 (5, 6, 7)).1 1 = heap 1 :=
  ⟨rfl, rfl, rfl, rfl⟩

/-- fixed code on the same input: same answer, datum as found (non-vacuity of the error path of the frame theorem) -/
example :
    (datumTransformM ops heap 0 1 (5, 6, 7)).2 = .error (.err "gridshift not supported") ∧
    (((datumTransformM ops heap 0 1 (5, 6, 7)).1 1).a, ((datumTransformM ops heap 0 1 (5, 6, 7)).1 1).es) = (30, 40) :=
  ⟨rfl, rfl⟩

/-- non-vacuity of `C10_pure_with_datums`: a hop history on the composed machine; SR `i` points to datum
`min i 1` (SRs 1 and 2 share the grid-shift datum, so the first leg, to the WGS84 cell 2, fails after having
written the WGS84 constants into it) — both calls give the same failure and the datum heap is as before -/
example :
    (runHistS Witness.core (datumStep ops (fun i => if i = 0 then 0 else 1)
        id) 2
      { heap := Witness.heap, pool := Witness.pool } heap [(0, 5, 7), (0, 5, 7)]).2.2 =
      [.err "gridshift not supported", .err "gridshift not supported"] := by
  rfl

/-- non-vacuity of `C10_datum_panic_is_panic`: a callee that panics (`geodetic_to_geocentric` indexing past
`datum_params`, say) between a WGS84-type and a 3-parameter datum: the call of the composed machine answers
`panic`, twice, and the datum heap is as before -/
def opsPanic : DOps Int Unit String := { ops with geodeticToGeocentric := fun _ _ => .error (.panic .index) }
def heapP : DHeap Int Unit := fun i => if i = 0 then ⟨4, 10, 20, ()⟩ else ⟨1, 30, 40, ()⟩
example :
    (runHistS Witness.core (datumStep opsPanic (fun i => if i = 0 then 0 else 1) id) 2
      { heap := Witness.heap, pool := Witness.pool } heapP [(0, 5, 7), (0, 5, 7)]).2.2 =
      [.panic .index, .panic .index] ∧
    (runHistS Witness.core (datumStep opsPanic (fun i => if i = 0 then 0 else 1) id) 2
      { heap := Witness.heap, pool := Witness.pool } heapP [(0, 5, 7), (0, 5, 7)]).2.1 1 = heapP 1 := by
  exact ⟨rfl, rfl⟩

end DatumWitness
end GeomV.C10
