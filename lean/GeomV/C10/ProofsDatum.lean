import GeomV.C10.LemmasD
/-!
# C10 — `datumTransform` leaves the shared datums as it found them (frame), on every way out

Clause: "calling it any number of times, in any order, interleaved with other transformers built from the
same spatial references, returns the same result": the `*datum` objects are shared state, and
`datumTransform` is the one function on the call path that writes to them.
-/
namespace GeomV.C10
open GeomV

variable {F R Err : Type}

/-- **C10_datum_frame**: for every heap of datums, every pair of pointers (the same object twice included),
every point and every behaviour of the callees (success, error, panic): after `datumTransform` the heap is
exactly the heap before — on the normal return, on each error return and when a callee panics (the restore
is deferred). -/
theorem C10_datum_frame (o : DOps F R Err) (h : DHeap F R) (s d : Nat) (v : F × F × F) :
    (datumTransformM o h s d v).1 = h :=
  datumTransformM_heap o h s d v

/-- **C10_datum_pure**: the answer is a function of the two datum RECORDS and the point — it depends
neither on the rest of the heap nor on whether the two pointers are the same object. -/
theorem C10_datum_pure (o : DOps F R Err) (h : DHeap F R) (s d : Nat) (v : F × F × F) :
    (datumTransformM o h s d v).2 = datumTransformPure o (h s) (h d) v :=
  datumTransformM_result o h s d v

/-- **C10_datum_history**: any history of `datumTransform` calls over shared datums leaves the heap as it
was, and the list of answers is the list of single calls on the INITIAL heap (history independence of
the datum step; this is what makes `Core.dt` of the transformer model a function). -/
theorem C10_datum_history (o : DOps F R Err) (h : DHeap F R) (l : List (Nat × Nat × (F × F × F))) :
    (runDatum o h l).1 = h ∧
    (runDatum o h l).2 = l.map (fun c => (datumTransformM o h c.1 c.2.1 c.2.2).2) := by
  refine ⟨runDatum_heap o h l, ?_⟩
  rw [runDatum_results]
  apply List.map_congr_left
  intro c _
  rw [datumTransformM_result]

/-! ### the snapshot (before fix 855dde6) did not have the frame property -/
namespace DatumWitness

def ops : DOps Int Unit String where
  compare := fun _ _ => .ok false
  fne := fun a b => a != b
  geodeticToGeocentric := fun _ v => .ok v
  geocentricToWgs84 := fun _ v => .ok v
  geocentricFromWgs84 := fun _ v => .ok v
  geocentricToGeodetic := fun _ v => .ok v
  wgsA := 1
  wgsEs := 2
  gridErr := "gridshift not supported"

/-- cell 0: a WGS84-type datum; cell 1: a grid-shift datum -/
def heap : DHeap Int Unit := fun i => if i = 0 then ⟨4, 10, 20, ()⟩ else ⟨3, 30, 40, ()⟩

/-- snapshot: the failed call leaves the WGS84 constants in the destination datum -/
theorem snapshot_datum_not_restored :
    (datumTransformSnapshot ops heap 0 1 (5, 6, 7)).2 = .error (.err "gridshift not supported") ∧
    (((datumTransformSnapshot ops heap 0 1 (5, 6, 7)).1 1).a, ((datumTransformSnapshot ops heap 0 1 (5, 6, 7)).1 1).es) = (1, 2) ∧
    ((heap 1).a, (heap 1).es) = (30, 40) :=
  ⟨rfl, rfl, rfl⟩

/-- fixed code on the same input: same answer, datum as found (non-vacuity of the error path of the frame theorem) -/
example :
    (datumTransformM ops heap 0 1 (5, 6, 7)).2 = .error (.err "gridshift not supported") ∧
    (((datumTransformM ops heap 0 1 (5, 6, 7)).1 1).a, ((datumTransformM ops heap 0 1 (5, 6, 7)).1 1).es) = (30, 40) :=
  ⟨rfl, rfl⟩

end DatumWitness
end GeomV.C10
