import GeomV.C10.Transformer
/-!
# C10 model, part 4: what the eight projection constructors WRITE to the `*SR`

`SR.Transformers()` looks the constructor up by `strings.ToLower(sr.Name)` and runs it on the SR; the
transformer closure does that for source and dest on EVERY call.  This file transcribes, from
/repo/proj/{longlat,merc,tmerc,utm,lcc,aea,eqdc,krovak}.go, every assignment `this.X = …` of the
constructors (the closures they return assign nothing) together with the conditions under which it
happens and the constructor's own error returns.  The values are kept symbolic (`POps`: uninterpreted
float operations and constants), so the theorems hold for every floating-point semantics.

`PF` holds exactly the fields some constructor writes, plus the fields they read to decide
(`lat1`, `b`, `zone`, `utmSouth`) and an opaque remainder `ro` (LatTS, K, Ep2, Alpha, sphere, … — read
only).  Name, Axis, ToMeter, FromGreenwich, DatumCode and the datum are NOT in `PF`: that no
constructor writes them is what `Ties/*.lean` re-checks against the Go source on every run
(`harness/cmd/c10/astwrites`, go/ast).
Core Lean only.
-/
namespace GeomV.C10
open GeomV

class POps (F : Type) where
  isNaN : F → Bool
  lt : F → F → Bool
  add : F → F → F
  sub : F → F → F
  mul : F → F → F
  div : F → F → F
  abs : F → F
  sqrt : F → F
  pow2 : F → F              -- math.Pow(x, 2)
  zero : F
  one : F
  epsln : F                 -- 1.0e-10
  six : F
  c183 : F
  cDeg2rad : F
  c500000 : F
  c1e7 : F
  c09996 : F
  kA : F                    -- 6377397.155
  kEs : F                   -- 0.006674372230614
  kLat0 : F                 -- 0.863937979737193
  kLong0 : F                -- 0.7417649320975901 - 0.308341501185665
  k09999 : F

/-- the SR fields the constructors write or branch on; `ro` = everything else they only read -/
structure PF (F R : Type) where
  lat0 : F
  lat1 : F
  lat2 : F
  long0 : F
  x0 : F
  y0 : F
  k0 : F
  a : F
  b : F
  es : F
  e : F
  zone : F
  utmSouth : Bool
  ro : R

/-- the constructor registered under the SR's (lower-cased) name -/
inductive Ctor where
  | longlat | merc | tmerc | utm | lcc | aea | eqdc | krovak
  | unknown            -- no entry in `projections`: `Transformers()` returns an error, writes nothing
deriving Repr, DecidableEq

inductive CErr where
  | noProjection | utmZone | lccParallels | aeaParallels | eqdcParallels
deriving Repr, DecidableEq

section
variable {F R : Type} [POps F]
open POps

/-- `if math.IsNaN(this.X) { this.X = d }` -/
def nanDefault (x d : F) : F := if isNaN x then d else x

/-- `math.Abs(this.Lat1+this.Lat2) < epsln` -/
def parallelsBad (p : PF F R) : Bool := lt (abs (add p.lat1 p.lat2)) epsln

def initLongLat (p : PF F R) : PF F R × Option CErr := (p, none)

/-- `TMerc` assigns nothing (it only computes e0..e3, ml0 for its closures) -/
def initTMerc (p : PF F R) : PF F R × Option CErr := (p, none)

def initMerc (p : PF F R) : PF F R × Option CErr :=
  ({ p with long0 := nanDefault p.long0 zero, x0 := nanDefault p.x0 zero, y0 := nanDefault p.y0 zero }, none)

def initUTM (p : PF F R) : PF F R × Option CErr :=
  if isNaN p.zone then (p, some .utmZone)
  else
    initTMerc { p with
      lat0 := zero
      long0 := mul (sub (mul six (abs p.zone)) c183) cDeg2rad
      x0 := c500000
      y0 := if p.utmSouth then c1e7 else zero
      k0 := c09996 }

def initLCC (p : PF F R) : PF F R × Option CErr :=
  let p' := { p with lat2 := nanDefault p.lat2 p.lat1, k0 := nanDefault p.k0 one,
                     x0 := nanDefault p.x0 zero, y0 := nanDefault p.y0 zero }
  (p', if parallelsBad p' then some .lccParallels else none)

/-- `AEA` assigns nothing; a bad pair of parallels sets `err` (and the closures are still built) -/
def initAEA (p : PF F R) : PF F R × Option CErr :=
  (p, if parallelsBad p then some .aeaParallels else none)

/-- `EqdC` (after fix 98fda46: default first, then the check) -/
def initEqdC (p : PF F R) : PF F R × Option CErr :=
  let p1 := { p with lat2 := nanDefault p.lat2 p.lat1 }
  if parallelsBad p1 then (p1, some .eqdcParallels)
  else
    let es := sub one (pow2 (div p1.b p1.a))
    ({ p1 with es := es, e := sqrt es }, none)

/-- `EqdC` as in the snapshot: the check ran BEFORE the default was applied -/
def initEqdCSnapshot (p : PF F R) : PF F R × Option CErr :=
  if parallelsBad p then (p, some .eqdcParallels)
  else
    let p1 := { p with lat2 := nanDefault p.lat2 p.lat1 }
    let es := sub one (pow2 (div p1.b p1.a))
    ({ p1 with es := es, e := sqrt es }, none)

/-- `Krovak`: `E` is assigned twice, both times `sqrt(this.Es)` of the constant just stored -/
def initKrovak (p : PF F R) : PF F R × Option CErr :=
  ({ p with a := kA, es := kEs, e := sqrt kEs,
            lat0 := nanDefault p.lat0 kLat0, long0 := nanDefault p.long0 kLong0,
            k0 := nanDefault p.k0 k09999 }, none)

/-- `SR.Transformers()`: what is written to the SR, and the error -/
def initP : Ctor → PF F R → PF F R × Option CErr
  | .longlat, p => initLongLat p
  | .merc, p => initMerc p
  | .tmerc, p => initTMerc p
  | .utm, p => initUTM p
  | .lcc, p => initLCC p
  | .aea, p => initAEA p
  | .eqdc, p => initEqdC p
  | .krovak, p => initKrovak p
  | .unknown, p => (p, some .noProjection)

end

/-! ## write sets (Go field names), compared with the Go source by `Ties/*.lean` -/

/-- fields assigned somewhere in the constructor (through `this`, including callees), sorted -/
def writeSet : Ctor → List String
  | .longlat => []
  | .merc => ["Long0", "X0", "Y0"]
  | .tmerc => []
  | .utm => ["K0", "Lat0", "Long0", "X0", "Y0"]
  | .lcc => ["K0", "Lat2", "X0", "Y0"]
  | .aea => []
  | .eqdc => ["E", "Es", "Lat2"]
  | .krovak => ["A", "E", "Es", "K0", "Lat0", "Long0"]
  | .unknown => []

/-- constructors called with the same SR (`return TMerc(this)`) -/
def calleesOf : Ctor → List String
  | .utm => ["TMerc"]
  | _ => []

/-- the SR fields the transformer closure reads outside the projection functions; no constructor may
write them (frame) -/
def frameFields : List String :=
  ["Name", "Axis", "ToMeter", "FromGreenwich", "DatumCode", "datum", "DatumParams", "NADGrids"]

/-- the Go function implementing each constructor -/
def goFunc : Ctor → String
  | .longlat => "LongLat" | .merc => "Merc" | .tmerc => "TMerc" | .utm => "UTM" | .lcc => "LCC"
  | .aea => "AEA" | .eqdc => "EqdC" | .krovak => "Krovak" | .unknown => ""

/-- `projections[strings.ToLower(sr.Name)]` (Proj.go `Transformers`): the registry of /repo/proj, names in
lower case with blanks written `_` (PROJ.4 short names and the WKT `PROJECTION` names).  Tied to the
`registerTrans` calls of the source by `tie_Registered`. -/
def ctorOfName (n : String) : Ctor :=
  if n == "longlat" || n == "identity" then .longlat
  else if n == "merc" || n == "mercator" || n == "mercator_1sp" || n == "mercator_auxiliary_sphere"
    || n == "popular_visualisation_pseudo_mercator" then .merc
  else if n == "tmerc" || n == "transverse_mercator" then .tmerc
  else if n == "utm" || n == "universal_transverse_mercator_system" then .utm
  else if n == "lcc" || n == "lambert_conformal_conic" || n == "lambert_conformal_conic_2sp"
    || n == "lambert_tangential_conformal_conic_projection" then .lcc
  else if n == "aea" || n == "albers" || n == "albers_conic_equal_area" then .aea
  else if n == "eqdc" || n == "equidistant_conic" then .eqdc
  else if n == "krovak" then .krovak else .unknown

end GeomV.C10
