import GeomV.C10.Transformer
/-!
# C10: `NewTransform`'s prelude (what it does before and when it returns the closure) as a little language

`harness/cmd/c10/astwrites` (mode `prelude`, go/ast) translates on every run the statements of
`(source *SR).NewTransform(dest *SR)` — the nil test of `dest`, the constant declaration, the `Equal` test, the
`return func(…){…}, nil` with the receiver/parameter variables the literal uses — into terms of `PSt`
(`GenPrelude.lean`).  `build` interprets them: `dest` is a pointer or nil, `Equal` is an abstract predicate of
the two RECORDS and the tolerance (it assigns nothing: `tie_State`, `tie_Path`), nothing is written to the heap.
`newTransformM` is the model: error for a nil destination, the nil transformer for equal references, otherwise
the closure over exactly `(source, dest)` — the pair `Tr` on which `step` (the closure's body, `tie_closure`) runs.
Core Lean only.
-/
namespace GeomV.C10.PIR
open GeomV GeomV.C10

inductive PSt where
  | ifNilRetErr (v msg : String)              -- if v == nil { return nil, fmt.Errorf(msg) }
  | constDecl (src : String)                  -- const …
  | ifEqualRetNil (a b : String) (ulp : Nat)   -- if a.Equal(b, ulp) { return nil, nil }   (ulp an integer literal)
  | retClosure (captured : List String)       -- return func(x, y float64) (float64, float64, error) {…}, nil
  | other (src : String)
deriving Repr, DecidableEq

/-- what `NewTransform` returns -/
inductive Built where
  | err (msg : String)
  | nilT                       -- (nil, nil): the identity
  | closure (src dst : Nat)    -- the captured pair
deriving Repr, DecidableEq

section
variable {F P : Type}

/-- the model -/
def newTransformM (eq : SR F P → SR F P → Nat → Bool) (h : Heap F P) (src : Nat) (dst : Option Nat) : Built :=
  match dst with
  | none => .err "\"proj: destination is nil\""
  | some d => if eq (h src) (h d) 3 then .nilT else .closure src d

def ptrOf (src : Nat) (dst : Option Nat) (v : String) : Option (Option Nat) :=
  if v = "source" then some (some src) else if v = "dest" then some dst else none

/-- run the prelude; `none` = stuck or falling off the end -/
def build (eq : SR F P → SR F P → Nat → Bool) (h : Heap F P) (src : Nat) (dst : Option Nat) : List PSt → Option Built
  | [] => none
  | .ifNilRetErr v msg :: rest =>
    (match ptrOf src dst v with
     | some none => some (.err msg)
     | some (some _) => build eq h src dst rest
     | none => none)
  | .constDecl _ :: rest => build eq h src dst rest
  | .ifEqualRetNil a b ulp :: rest =>
    (match ptrOf src dst a, ptrOf src dst b with
     | some (some i), some (some j) => if eq (h i) (h j) ulp then some .nilT else build eq h src dst rest
     | _, _ => none)
  | .retClosure caps :: _ =>
    if caps = ["dest", "source"] then
      (match dst with
       | some d => some (.closure src d)
       | none => none)
    else none
  | .other _ :: _ => none

end
end GeomV.C10.PIR
