import GeomV.Common.Geom
/-!
# C10 model, part 1: the eight `Transform` methods of /repo/transform.go

Function by function, in `Except (Fail E)`: a Go `error` returned by the transformer is `Fail.err e`,
a Go panic (failed type assertion `g.(T)`, method call on a nil interface / nil `*Bounds`) is
`Fail.panic f`.  The transformer is an abstract `t : Pt α → Except E (Pt α)` or `none` (Go `nil`).
The type assertions are kept, in the order in which the (fixed) code performs them: after the `err`
check (fix 08034c4; the snapshot asserted first, see `multiLineLoopSnapshot`).
Core Lean only.
-/
namespace GeomV.C10
open GeomV

inductive Fault where
  | typeAssert   -- g.(T) on a value of another dynamic type (or nil)
  | nilDeref     -- method call on a nil interface / field access through a nil *Bounds
  | index        -- slice or string index out of range
  | nilCall      -- call of a nil func value
  | recursion    -- unbounded recursion (stack overflow)
deriving Repr, DecidableEq, Inhabited

inductive Fail (E : Type) where
  | err (e : E)
  | panic (f : Fault)
deriving Repr, DecidableEq

/-- a non-nil `proj.Transformer` seen from package geom: a function of the vertex -/
abbrev TF (E α : Type) := Pt α → Except E (Pt α)

section
variable {E α : Type}

/-- `x, y, err = t(p.X, p.Y)` -/
def callT (t : TF E α) (p : Pt α) : Except (Fail E) (Pt α) :=
  match t p with
  | .ok q => .ok q
  | .error e => .error (.err e)

/-- `Point.Transform` (t ≠ nil) -/
def pointT (t : TF E α) (p : Pt α) : Except (Fail E) (Geom α) :=
  match callT t p with
  | .ok q => .ok (.point q)
  | .error e => .error e

def asPoint : Geom α → Except (Fail E) (Pt α)
  | .point p => .ok p
  | _ => .error (.panic .typeAssert)
def asLine : Geom α → Except (Fail E) (List (Pt α))
  | .lineString l => .ok l
  | _ => .error (.panic .typeAssert)
def asPoly : Geom α → Except (Fail E) (List (List (Pt α)))
  | .polygon r => .ok r
  | _ => .error (.panic .typeAssert)

/-- loop of `MultiPoint.Transform`: `g, err := p.Transform(t); if err != nil {return}; mp2[i] = g.(Point)` -/
def multiPointLoop (t : TF E α) : List (Pt α) → Except (Fail E) (List (Pt α))
  | [] => .ok []
  | p :: ps =>
    match pointT t p with
    | .error e => .error e
    | .ok g =>
      match asPoint g with
      | .error e => .error e
      | .ok q =>
        match multiPointLoop t ps with
        | .error e => .error e
        | .ok r => .ok (q :: r)

/-- loop of `LineString.Transform` and inner loop of `Polygon.Transform`: direct calls of `t` -/
def ptsT (t : TF E α) : List (Pt α) → Except (Fail E) (List (Pt α))
  | [] => .ok []
  | p :: ps =>
    match callT t p with
    | .error e => .error e
    | .ok q =>
      match ptsT t ps with
      | .error e => .error e
      | .ok r => .ok (q :: r)

def lineStringT (t : TF E α) (l : List (Pt α)) : Except (Fail E) (Geom α) :=
  match ptsT t l with
  | .ok r => .ok (.lineString r)
  | .error e => .error e

/-- loop of `MultiLineString.Transform` (fixed order: err check, then `g.(LineString)`) -/
def multiLineLoop (t : TF E α) : List (List (Pt α)) → Except (Fail E) (List (List (Pt α)))
  | [] => .ok []
  | l :: ls =>
    match lineStringT t l with
    | .error e => .error e
    | .ok g =>
      match asLine g with
      | .error e => .error e
      | .ok q =>
        match multiLineLoop t ls with
        | .error e => .error e
        | .ok r => .ok (q :: r)

/-- outer loop of `Polygon.Transform` -/
def ringsT (t : TF E α) : List (List (Pt α)) → Except (Fail E) (List (List (Pt α)))
  | [] => .ok []
  | r :: rs =>
    match ptsT t r with
    | .error e => .error e
    | .ok q =>
      match ringsT t rs with
      | .error e => .error e
      | .ok qs => .ok (q :: qs)

def polygonT (t : TF E α) (rs : List (List (Pt α))) : Except (Fail E) (Geom α) :=
  match ringsT t rs with
  | .ok r => .ok (.polygon r)
  | .error e => .error e

/-- loop of `MultiPolygon.Transform` (fixed order) -/
def multiPolyLoop (t : TF E α) : List (List (List (Pt α))) → Except (Fail E) (List (List (List (Pt α))))
  | [] => .ok []
  | p :: ps =>
    match polygonT t p with
    | .error e => .error e
    | .ok g =>
      match asPoly g with
      | .error e => .error e
      | .ok q =>
        match multiPolyLoop t ps with
        | .error e => .error e
        | .ok r => .ok (q :: r)

/-- `(*Bounds).Transform`: `Polygon{{b.Min, {b.Max.X, b.Min.Y}, b.Max, {b.Min.X, b.Max.Y}}}.Transform(t)` -/
def boundsT (t : TF E α) (mn mx : Pt α) : Except (Fail E) (Geom α) :=
  polygonT t [[mn, ⟨mx.x, mn.y⟩, mx, ⟨mn.x, mx.y⟩]]

mutual
/-- dynamic dispatch `g.Transform(t)` for t ≠ nil -/
def transformS (t : TF E α) : Geom α → Except (Fail E) (Geom α)
  | .point p => pointT t p
  | .multiPoint ps =>
    match multiPointLoop t ps with
    | .ok r => .ok (.multiPoint r)
    | .error e => .error e
  | .lineString l => lineStringT t l
  | .multiLineString ls =>
    match multiLineLoop t ls with
    | .ok r => .ok (.multiLineString r)
    | .error e => .error e
  | .polygon rs => polygonT t rs
  | .multiPolygon ps =>
    match multiPolyLoop t ps with
    | .ok r => .ok (.multiPolygon r)
    | .error e => .error e
  | .collection gs =>
    match collLoop t gs with
    | .ok r => .ok (.collection r)
    | .error e => .error e
  | .bounds mn mx => boundsT t mn mx
  | .nil => .error (.panic .nilDeref)
/-- loop of `GeometryCollection.Transform` -/
def collLoop (t : TF E α) : List (Geom α) → Except (Fail E) (List (Geom α))
  | [] => .ok []
  | g :: gs =>
    match transformS t g with
    | .error e => .error e
    | .ok h =>
      match collLoop t gs with
      | .error e => .error e
      | .ok r => .ok (h :: r)
end

/-- `g.Transform(t)`; every method starts with `if t == nil { return self, nil }` -/
def transform (t : Option (TF E α)) (g : Geom α) : Except (Fail E) (Geom α) :=
  match g with
  | .nil => .error (.panic .nilDeref)
  | g =>
    match t with
    | none => .ok g
    | some t => transformS t g

/-! The snapshot (commit 8354466) asserted before looking at `err`; kept to state what was repaired. -/

/-- `g, err := l.Transform(t); ml2[i] = g.(LineString); if err != nil {return nil, err}` where a failing
`LineString.Transform` returns `(nil, err)` -/
def multiLineLoopSnapshot (t : TF E α) : List (List (Pt α)) → Except (Fail E) (List (List (Pt α)))
  | [] => .ok []
  | l :: ls =>
    match lineStringT t l with
    | .error (.err _) => .error (.panic .typeAssert)   -- g is the nil interface
    | .error e => .error e
    | .ok g =>
      match asLine g with
      | .error e => .error e
      | .ok q =>
        match multiLineLoopSnapshot t ls with
        | .error e => .error e
        | .ok r => .ok (q :: r)

mutual
def noNil : Geom α → Bool
  | .collection gs => noNilL gs
  | .nil => false
  | _ => true
def noNilL : List (Geom α) → Bool
  | [] => true
  | g :: gs => noNil g && noNilL gs
end

end
end GeomV.C10
