import GeomV.C10.Ties.LongLat
import GeomV.C10.Ties.Merc
import GeomV.C10.Ties.TMerc
import GeomV.C10.Ties.UTM
import GeomV.C10.Ties.LCC
import GeomV.C10.Ties.AEA
import GeomV.C10.Ties.EqdC
import GeomV.C10.Ties.Krovak
import GeomV.C10.LemmasC
/-!
# C10 — the constructors AS EXTRACTED FROM THE SOURCE are idempotent

`Gen.ctorBodies` is rewritten from the Go source of the tree under test on every run (go/ast, see
`CtorIR.lean`).  The body ties prove it equal to `initP`; hence the theorems about `initP` are theorems
about the extracted code.  ("history independence": re-running `SR.Transformers()` — which the transformer
closure does for source and dest on every call — changes nothing after the first run.)
-/
namespace GeomV.C10
open GeomV

/-- every registered constructor's extracted body is the model -/
theorem body_ties (c : Ctor) (hc : c ≠ .unknown) : BodyTie Gen.ctorBodies c := by
  cases c with
  | longlat => exact tie_body_LongLat
  | merc => exact tie_body_Merc
  | tmerc => exact tie_body_TMerc
  | utm => exact tie_body_UTM
  | lcc => exact tie_body_LCC
  | aea => exact tie_body_AEA
  | eqdc => exact tie_body_EqdC
  | krovak => exact tie_body_Krovak
  | unknown => exact absurd rfl hc

/-- **C10_src_init_total**: the interpreter accepts every extracted constructor on every SR (nothing of the
slice falls outside the little language), i.e. the next two theorems are not vacuous. -/
theorem C10_src_init_total (c : Ctor) (hc : c ≠ .unknown) (F R : Type) [POps F] (p : PF F R) :
    ∃ p' e, IR.run Gen.ctorBodies 2 (goFunc c) p = some (p', e) :=
  ⟨_, _, body_ties c hc F R p⟩

/-- **C10_src_init_idempotent** (history independence, the constructors' part, on the code as extracted
from the Go source): if a constructor run on `p` leaves `p'` and error status `e`, a second run on `p'`
leaves `p'` and the same `e` — for every registered constructor, every SR, every float semantics. -/
theorem C10_src_init_idempotent (c : Ctor) (hc : c ≠ .unknown) (F R : Type) [POps F] (p p' : PF F R) (e : Bool)
    (h : IR.run Gen.ctorBodies 2 (goFunc c) p = some (p', e)) :
    IR.run Gen.ctorBodies 2 (goFunc c) p' = some (p', e) := by
  have t := body_ties c hc F R
  rw [t p] at h
  cases h
  rw [t (initP c p).1, initP_idem c p]

/-- **C10_src_init_frame**: the extracted constructor changes no field outside the model's write set. -/
theorem C10_src_init_frame (c : Ctor) (hc : c ≠ .unknown) (F R : Type) [POps F] (p p' : PF F R) (e : Bool)
    (h : IR.run Gen.ctorBodies 2 (goFunc c) p = some (p', e)) (fld : Fld) (hf : fld.goName ∉ writeSet c) :
    p'.get fld = p.get fld := by
  have t := body_ties c hc F R
  rw [t p] at h
  cases h
  exact initP_frame c p fld hf

end GeomV.C10
