import GeomV.C10.LemmasR
import GeomV.C10.Proofs
/-!
# C10 — the memory model refines the functional model (all eight types, any nesting, any memory layout)

`C10_input_unchanged` is a theorem about the memory model `Mem.lean`; `C10_structure`, `C10_map_vertices`,
`C10_error_no_panic` are theorems about the functional model `GeomTransform.lean`.  That the two describe
the same `Transform` used to be an executable check only (the judge decodes the memory model's result on
every `gt` line, with the `readArr`/`decodeGeom` of `MemDecode.lean` used here).  It is now a theorem:
`C10_mem_refines` — for every memory, every value that reads as the functional geometry `G`, every non-nil
transformer, the memory model's outcome reads as the functional model's outcome (same failure on failure);
`C10_mem_refines_nil` for the nil transformer; `C10_mem_vertices` = composition with `C10_map_vertices`.

Proof structure (`LemmasR.lean`): `loopN_pts` (the point loop writes exactly `ptsT`'s answer into the new
array), `loopN_hdrLoop` (Polygon's outer loop and MultiLineString's loop: explicit result memory),
`loopN_polys` (MultiPolygon: headers of earlier iterations keep decoding because later iterations only
append), `loopN_coll` + `memberOK_all` (GeometryCollection, induction on the recursion budget; the
destination array of an enclosing loop is rewritten by later iterations, so members are decoded in a memory
where that array is blanked out — `Mem.poison` — which proves they never read it).
-/
set_option linter.unusedSimpArgs false
namespace GeomV.C10
open GeomV Mem

variable {E α : Type}

/-- the types whose `Transform` is one loop over a `[]Point` (or no loop) -/
def Mem.flat : MGeom α → Bool
  | .point _ | .multiPoint _ | .lineString _ | .polygon _ | .bounds _ | .multiLineString _ | .multiPolygon _ => true
  | _ => false

/-- the ring `(*Bounds).Transform` builds -/
abbrev boundsRing4 (mn mx : Pt α) : List (Pt α) := [mn, ⟨mx.x, mn.y⟩, mx, ⟨mn.x, mx.y⟩]

/-- memory after the composite literal of `(*Bounds).Transform`: two new arrays -/
abbrev boundsMem (m : Mem α) (mn mx : Pt α) : Mem α :=
  { m with pts := m.pts ++ [boundsRing4 mn mx], paths := m.paths ++ [[(⟨m.pts.length, 0, 4⟩ : Slice)]] }

/-- **C10_mem_refines_flat** (the seven non-collection types; ties "leaves the input untouched" to "same type and nesting / i-th vertex /
error"): for every memory, every Point / MultiPoint / LineString value `g` in it that reads as the functional
geometry `G`, every non-nil transformer and every positive recursion budget: if the functional model succeeds
with `G'`, the memory model succeeds with a value that reads — in the memory after the call — as `G'`; if the
functional model fails (transformer error), the memory model fails with the same error. -/
theorem C10_mem_refines_flat (zero : Pt α) (fuel : Nat) (t : TF E α) (g : MGeom α) (m : Mem α) (G : Geom α)
    (hf : Mem.flat g = true) (hd : decodeGeom m 1 g = some G) :
    (∀ G', transform (some t) G = .ok G' →
      ∃ g', (transformTop zero (fuel+1) (some t) g m).2 = .ok g' ∧
        decodeGeom (transformTop zero (fuel+1) (some t) g m).1 1 g' = some G') ∧
    (∀ e, transform (some t) G = .error e → (transformTop zero (fuel+1) (some t) g m).2 = .error e) := by
  cases g with
  | point p =>
    simp [decodeGeom] at hd; subst hd
    simp only [transform, transformS, pointT, callT, transformTop, transformM]
    cases t p with
    | ok q => simp [decodeGeom]
    | error e => simp
  | lineString s =>
    simp only [decodeGeom, Option.map_eq_some_iff] at hd
    obtain ⟨ps, hps, rfl⟩ := hd
    obtain ⟨h1, h2⟩ := lineStringM_refines zero t s m ps hps
    simp only [transform, transformS, lineStringT, transformTop, transformM]
    cases hr : ptsT t ps with
    | ok qs =>
      obtain ⟨hdr, e1, e2⟩ := h1 qs hr
      generalize lineStringM zero t s m = r at e1 e2
      obtain ⟨m', res⟩ := r
      simp at e1; subst e1
      simp [decodeGeom, e2]
    | error e =>
      have := h2 e hr
      generalize lineStringM zero t s m = r at this
      obtain ⟨m', res⟩ := r
      simp at this; subst this
      simp
  | multiPoint s =>
    simp only [decodeGeom, Option.map_eq_some_iff] at hd
    obtain ⟨ps, hps, rfl⟩ := hd
    obtain ⟨h1, h2⟩ := lineStringM_refines zero t s m ps hps
    simp only [transform, transformS, multiPointLoop_eq, ← ptsT_eq, transformTop, transformM]
    cases hr : ptsT t ps with
    | ok qs =>
      obtain ⟨hdr, e1, e2⟩ := h1 qs hr
      generalize lineStringM zero t s m = r at e1 e2
      obtain ⟨m', res⟩ := r
      simp at e1; subst e1
      simp [decodeGeom, e2]
    | error e =>
      have := h2 e hr
      generalize lineStringM zero t s m = r at this
      obtain ⟨m', res⟩ := r
      simp at this; subst this
      simp
  | polygon s =>
    simp only [decodeGeom, bind, Option.bind, pure] at hd
    cases h1 : readArr m.paths s with
    | none => simp [h1] at hd
    | some hs =>
      simp only [h1] at hd
      cases h2 : hs.mapM (readArr m.pts) with
      | none => simp [h2] at hd
      | some rs =>
        simp [h2] at hd; subst hd
        simp only [transform, transformS, polygonT, transformTop, transformM]
        cases hr : ringsT t rs with
        | ok qss =>
          obtain ⟨hdr, hs', e1, e2, e3⟩ := polygonM_decodes zero t s m hs rs qss h1 h2 hr
          generalize polygonM zero t s m = r at e1 e2 e3
          obtain ⟨m', res⟩ := r
          simp at e1; subst e1
          simp at e2 e3
          simp [decodeGeom, e2, e3, bind, Option.bind]
        | error e =>
          have := polygonM_failure zero t s m hs rs e h1 h2 hr
          generalize polygonM zero t s m = r at this
          obtain ⟨m', res⟩ := r
          simp at this; subst this
          simp
  | multiLineString s =>
    simp only [decodeGeom, bind, Option.bind, pure] at hd
    cases h1 : readArr m.paths s with
    | none => simp [h1] at hd
    | some hs =>
      simp only [h1] at hd
      cases h2 : hs.mapM (readArr m.pts) with
      | none => simp [h2] at hd
      | some rs =>
        simp [h2] at hd; subst hd
        simp only [transform, transformS, multiLineLoop_eq, ← ringsT_eq, transformTop, transformM]
        cases hr : ringsT t rs with
        | ok qss =>
          obtain ⟨hdr, hs', e1, e2, e3⟩ := multiLineM_decodes zero t s m hs rs qss h1 h2 hr
          generalize multiLineM zero t s m = r at e1 e2 e3
          obtain ⟨m', res⟩ := r
          simp at e1; subst e1
          simp at e2 e3
          simp [decodeGeom, e2, e3, bind, Option.bind]
        | error e =>
          have := multiLineM_failure zero t s m hs rs e h1 h2 hr
          generalize multiLineM zero t s m = r at this
          obtain ⟨m', res⟩ := r
          simp at this; subst this
          simp
  | bounds a =>
    simp only [decodeGeom, Option.map_eq_some_iff] at hd
    obtain ⟨⟨mn, mx⟩, hb, rfl⟩ := hd
    -- the literal `Polygon{{b.Min, {b.Max.X, b.Min.Y}, b.Max, {b.Min.X, b.Max.Y}}}` in memory
    have h1 : readArr (boundsMem m mn mx).paths ⟨m.paths.length, 0, 1⟩ = some [⟨m.pts.length, 0, 4⟩] := by
      simp [readArr, boundsMem]
    have h2 : [(⟨m.pts.length, 0, 4⟩ : Slice)].mapM (readArr (boundsMem m mn mx).pts) =
        some [boundsRing4 mn mx] := by
      simp [readArr, boundsMem, boundsRing4, List.mapM_cons, bind, Option.bind, pure]
    simp only [transform, transformS, boundsT, polygonT, transformTop, transformM, boundsM, hb, aAlloc]
    cases hr : ringsT t [boundsRing4 mn mx] with
    | ok qss =>
      obtain ⟨hdr, hs', e1, e2, e3⟩ := polygonM_decodes zero t _ _ _ _ qss h1 h2 hr
      generalize polygonM zero t ⟨m.paths.length, 0, 1⟩ (boundsMem m mn mx) = r at e1 e2 e3 ⊢
      obtain ⟨m', res⟩ := r
      simp at e1; subst e1
      simp at e2 e3
      simp [decodeGeom, e2, e3, bind, Option.bind]
    | error e =>
      have := polygonM_failure zero t _ _ _ _ e h1 h2 hr
      generalize polygonM zero t ⟨m.paths.length, 0, 1⟩ (boundsMem m mn mx) = r at this ⊢
      obtain ⟨m', res⟩ := r
      simp at this; subst this
      simp
  | multiPolygon s =>
    rw [decodeGeom_multiPolygon] at hd
    cases h1 : readArr m.polys s with
    | none => simp [h1] at hd
    | some ps =>
      simp only [h1] at hd
      cases h2 : ps.mapM (decodePoly m.pts m.paths) with
      | none => simp [h2] at hd
      | some pss =>
        simp [h2] at hd; subst hd
        obtain ⟨k1, k2⟩ := multiPolyM_refines zero t s m ps pss h1 h2
        simp only [transform, transformS, transformTop, transformM]
        cases hr : multiPolyLoop t pss with
        | ok qsss =>
          obtain ⟨hdr, ps', e1, e2, e3⟩ := k1 qsss hr
          generalize multiPolyM zero t s m = r at e1 e2 e3
          obtain ⟨m', res⟩ := r
          simp at e1; subst e1
          simp at e2 e3
          simp [decodeGeom_multiPolygon, e2, e3]
        | error e =>
          have := k2 e hr
          generalize multiPolyM zero t s m = r at this
          obtain ⟨m', res⟩ := r
          simp at this; subst this
          simp
  | _ => simp [Mem.flat] at hf


theorem poison_false (m : Mem α) : Mem.poison (fun _ => false) m = m := by
  unfold Mem.poison; rw [pz_false]

theorem mapM_fuel0 (m : Mem α) (gs : List (MGeom α)) (Gs : List (Geom α))
    (h : gs.mapM (decodeGeom m 0) = some Gs) : gs = [] := by
  cases gs with
  | nil => rfl
  | cons a as => simp [List.mapM_cons, decodeGeom, bind, Option.bind] at h

/-- a value that decodes with fuel 1 decodes to the same geometry with any fuel and any blanking -/
theorem decode1_poison (bad : Nat → Bool) (m : Mem α) (k : Nat) (g : MGeom α) (G : Geom α)
    (h : decodeGeom m 1 g = some G) : decodeGeom (Mem.poison bad m) (k+1) g = some G := by
  cases g with
  | collection s =>
    rw [decodeGeom_collection] at h ⊢
    cases hr : readArr m.geoms s with
    | none => simp [hr] at h
    | some gs =>
      simp only [hr] at h
      cases hm : gs.mapM (decodeGeom m 0) with
      | none => simp [hm] at h
      | some Gs =>
        have hnil := mapM_fuel0 m gs Gs hm
        subst hnil
        simp at hm; subst hm
        simp at h; subst h
        have hl := readArr_len _ _ _ hr
        simp at hl
        have : readArr (Mem.poison bad m).geoms s = some [] := by simp [readArr, hl.symm]
        simp [this]
  | _ => exact h

theorem transform_some_eq (t : TF E α) (G : Geom α) : transform (some t) G = transformS t G := by
  cases G <;> rfl

theorem memberOK_all (zero : Pt α) (t : TF E α) : ∀ d, MemberOK zero t d := by
  intro d
  induction d with
  | zero => intro g m G bad hbl h; simp [decodeGeom] at h
  | succ d ih =>
    intro g m G bad hbl hdec
    -- the seven non-collection types: from the flat refinement theorem
    have flatCase : ∀ (hf : Mem.flat g = true) (hd1 : decodeGeom m 1 g = some G)
        (htop : transformTop zero (d+1) (some t) g m = transformM zero t (d+1) g m),
        (∀ G', transformS t G = .ok G' →
          ∃ m' g', transformM zero t (d+1) g m = (m', .ok g') ∧
            decodeGeom (Mem.poison bad m') (d+1) g' = some G') ∧
        (∀ e, transformS t G = .error e → (transformM zero t (d+1) g m).2 = .error e) := by
      intro hf hd1 htop
      obtain ⟨p1, p2⟩ := C10_mem_refines_flat zero d t g m G hf hd1
      rw [transform_some_eq, htop] at p1 p2
      refine ⟨?_, p2⟩
      intro G' hG'
      obtain ⟨g', e1, e2⟩ := p1 G' hG'
      refine ⟨(transformM zero t (d+1) g m).1, g', ?_, decode1_poison bad _ d g' G' e2⟩
      rw [← e1]
    cases g with
    | point p => exact flatCase rfl hdec rfl
    | multiPoint s => exact flatCase rfl hdec rfl
    | lineString s => exact flatCase rfl hdec rfl
    | multiLineString s => exact flatCase rfl hdec rfl
    | polygon s => exact flatCase rfl hdec rfl
    | multiPolygon s => exact flatCase rfl hdec rfl
    | bounds a => exact flatCase rfl hdec rfl
    | nil =>
      simp [decodeGeom] at hdec; subst hdec
      refine ⟨fun G' h => by simp [transformS] at h, fun e h => ?_⟩
      simp [transformS] at h; subst h
      simp [transformM]
    | collection s =>
      rw [decodeGeom_collection] at hdec
      cases hr : readArr (Mem.poison bad m).geoms s with
      | none => simp [hr] at hdec
      | some gs =>
        simp only [hr] at hdec
        cases hm : gs.mapM (decodeGeom (Mem.poison bad m) d) with
        | none => simp [hm] at hdec
        | some Gs =>
          simp [hm] at hdec; subst hdec
          -- the receiver's window in the real memory
          have hr0 : readArr m.geoms s = some gs := by
            have := readArr_pz_weaken (fun _ => false) bad (fun i h => by simp at h) m.geoms s gs hr
            rwa [pz_false] at this
          have hgrowA : Grow m { m with geoms := m.geoms ++ [List.replicate s.len MGeom.nil] } :=
            ⟨by simp, by simp, by simp, by simp, rfl⟩
          let bad' : Nat → Bool := fun a => bad a || a == m.geoms.length
          have hbd' : bad' m.geoms.length = true := by simp [bad']
          have hsub : ∀ i, bad i = true → bad' i = true := by intro i h; simp [bad', h]
          have hgp : Grow (Mem.poison bad m)
              (Mem.poison bad' { m with geoms := m.geoms ++ [List.replicate s.len MGeom.nil] }) := by
            apply hgrowA.poison bad bad'
            intro a ha
            have : (a == m.geoms.length) = false := by simp; omega
            simp [bad', this]
          have hbl' : ∀ a, bad' a = true →
              a < ({ m with geoms := m.geoms ++ [List.replicate s.len MGeom.nil] } : Mem α).geoms.length := by
            intro a ha
            simp only [bad', Bool.or_eq_true, beq_iff_eq] at ha
            simp
            rcases ha with ha | ha
            · have := hbl a ha; omega
            · omega
          simp only [transformS, transformM, aAlloc]
          by_cases h0 : s.len = 0
          · have hgs : gs = [] := by
              have := readArr_len _ _ _ hr0; exact List.eq_nil_of_length_eq_zero (by omega)
            subst hgs
            simp at hm; subst hm
            refine ⟨?_, ?_⟩
            · intro G' hG'
              simp [collLoop] at hG'; subst hG'
              refine ⟨{ m with geoms := m.geoms ++ [[]] }, .collection ⟨m.geoms.length, 0, 0⟩, by simp [h0, loopN], ?_⟩
              rw [decodeGeom_collection]
              simp [readArr]
            · intro e he; simp [collLoop] at he
          · unfold readArr at hr0
            simp only [h0, if_false] at hr0
            cases hsrc : m.geoms[s.addr]? with
            | none => simp [hsrc] at hr0
            | some srcG =>
              simp only [hsrc] at hr0
              by_cases hle : s.off + s.len ≤ srcG.length
              · simp only [hle, if_true] at hr0
                cases hr0
                have hslt : s.addr < m.geoms.length := (List.getElem?_eq_some_iff.mp hsrc).1
                have hs1 : (m.geoms ++ [List.replicate s.len MGeom.nil])[s.addr]? = some srcG := by
                  rw [List.getElem?_append_left hslt]; exact hsrc
                have hd1 : (m.geoms ++ [List.replicate s.len (MGeom.nil : MGeom α)])[m.geoms.length]? =
                    some (List.replicate s.len MGeom.nil) := by simp
                have hmem : ((srcG.drop (s.off + 0)).take s.len).mapM
                    (decodeGeom (Mem.poison bad' { m with geoms := m.geoms ++ [List.replicate s.len MGeom.nil] }) d)
                    = some Gs := by
                  simp only [Nat.add_zero]
                  exact mapM_congr_some _ _ _ Gs (fun x _ y hy => decodeGeom_grow _ _ hgp d x y hy) hm
                have key := loopN_coll zero t d ih s m.geoms.length bad' hbd' s.len 0
                  { m with geoms := m.geoms ++ [List.replicate s.len MGeom.nil] } srcG
                  (List.replicate s.len MGeom.nil) Gs hbl' hs1 hd1 (by omega) (by simp) (by omega) hmem
                refine ⟨?_, ?_⟩
                · intro G' hG'
                  cases hcl : collLoop t Gs with
                  | error e => simp [hcl] at hG'
                  | ok Gs' =>
                    simp [hcl] at hG'; subst hG'
                    obtain ⟨m', newG, hl, hgd, hlen, hdecs, _⟩ := key.1 Gs' hcl
                    simp at hgd
                    refine ⟨m', .collection ⟨m.geoms.length, 0, s.len⟩, by rw [hl], ?_⟩
                    rw [decodeGeom_collection]
                    have hnb : bad m.geoms.length = false := by
                      cases hb : bad m.geoms.length with
                      | false => rfl
                      | true => have := hbl _ hb; omega
                    have hrd : readArr (Mem.poison bad m').geoms ⟨m.geoms.length, 0, s.len⟩ = some newG := by
                      show readArr (pz bad 0 m'.geoms) _ = _
                      unfold readArr
                      simp [h0, pz_getElem?, hgd, hnb, hlen]
                      exact List.take_of_length_le (by omega)
                    simp only [hrd]
                    have := mapM_congr_some _ (decodeGeom (Mem.poison bad m') d) newG Gs'
                      (fun x _ y hy => decodeGeom_weaken bad bad' hsub m' d x y hy) hdecs
                    simp [this]
                · intro e he
                  cases hcl : collLoop t Gs with
                  | ok r => simp [hcl] at he
                  | error e' =>
                    simp [hcl] at he; subst he
                    have := key.2 e' hcl
                    generalize loopN (collBody (transformM zero t d) s m.geoms.length) 0 s.len
                      { m with geoms := m.geoms ++ [List.replicate s.len MGeom.nil] } = res at this ⊢
                    obtain ⟨m2, rr⟩ := res
                    cases rr with
                    | error e'' => simp at this; simp [this]
                    | ok u => simp at this
              · simp [hle] at hr0

/-- **C10_mem_refines** (ties the clause "leaves the input untouched", proved on the memory model, to the
clauses "same type and nesting / i-th vertex / returns the transformer's error", proved on the functional
model): for EVERY memory `m` (any sharing of backing arrays), every value `g` of ANY of the eight types and
any nesting that reads in `m` as the functional geometry `G` (recursion budget `d`, nil members included),
every non-nil transformer: if the functional model `transform` succeeds with `G'`, the memory model
`transformTop` succeeds with a value that reads — in the memory after the call — as `G'`; if the functional
model fails (the transformer's error at the first failing vertex, or the panic on a nil member), the memory
model fails with exactly the same failure. -/
theorem C10_mem_refines (zero : Pt α) (d : Nat) (t : TF E α) (g : MGeom α) (m : Mem α) (G : Geom α)
    (hd : decodeGeom m d g = some G) :
    (∀ G', transform (some t) G = .ok G' →
      ∃ g', (transformTop zero d (some t) g m).2 = .ok g' ∧
        decodeGeom (transformTop zero d (some t) g m).1 d g' = some G') ∧
    (∀ e, transform (some t) G = .error e → (transformTop zero d (some t) g m).2 = .error e) := by
  cases d with
  | zero => simp [decodeGeom] at hd
  | succ k =>
    have htop : transformTop zero (k+1) (some t) g m = transformM zero t (k+1) g m := by
      cases g <;> rfl
    have hd' : decodeGeom (Mem.poison (fun _ => false) m) (k+1) g = some G := by rwa [poison_false]
    obtain ⟨p1, p2⟩ := memberOK_all zero t (k+1) g m G (fun _ => false) (fun a h => by simp at h) hd'
    rw [transform_some_eq, htop]
    refine ⟨?_, p2⟩
    intro G' hG'
    obtain ⟨m', g', e1, e2⟩ := p1 G' hG'
    rw [poison_false] at e2
    exact ⟨g', by rw [e1], by rw [e1]; exact e2⟩

/-- **C10_mem_vertices**: the refinement composed with `C10_map_vertices` — on the memory model itself, for
every layout: a geometry without nil members that reads as `G` is turned into one that reads as
`mapVertices t G` (same type and nesting, i-th vertex = t(i-th vertex)), or the call returns the first
failing vertex's error. -/
theorem C10_mem_vertices (zero : Pt α) (d : Nat) (t : TF E α) (g : MGeom α) (m : Mem α) (G : Geom α)
    (hd : decodeGeom m d g = some G) (hn : noNil G = true) :
    match Spec.mapVertices t G with
    | .ok G' => ∃ g', (transformTop zero d (some t) g m).2 = .ok g' ∧
        decodeGeom (transformTop zero d (some t) g m).1 d g' = some G'
    | .error e => (transformTop zero d (some t) g m).2 = .error (.err e) := by
  obtain ⟨p1, p2⟩ := C10_mem_refines zero d t g m G hd
  have hmv := C10_map_vertices t G hn
  cases hv : Spec.mapVertices t G with
  | ok G' => simp only [hv] at hmv; exact p1 G' (by rw [hmv]; rfl)
  | error e => simp only [hv] at hmv; exact p2 _ (by rw [hmv]; rfl)

/-- **C10_mem_input_kept** ("leaves the input untouched", at the level of what the input MEANS): whatever the
receiver read as before the call, it reads as exactly that in the memory after the call — on every path
(success, transformer error at any vertex, panic), for every type, nesting, layout, transformer or nil,
recursion budget.  (This is the judge's `inputKept` check, as a theorem.) -/
theorem C10_mem_input_kept (zero : Pt α) (fuel d : Nat) (t : Option (TF E α)) (g : MGeom α) (m : Mem α)
    (G : Geom α) (hd : decodeGeom m d g = some G) :
    decodeGeom (transformTop zero fuel t g m).1 d g = some G := by
  obtain ⟨⟨h1, h2, h3, h4, h5⟩, _, _⟩ := C10_input_unchanged zero fuel t g m
  exact decodeGeom_grow m _ ⟨h1, h2, h3, h4, h5⟩ d g G hd

/-- **C10_mem_refines_nil**: with a nil transformer the memory model returns the receiver in the unchanged
memory, for EVERY type and nesting — so whatever it read as before, it reads as after, which is the
functional model's answer `G` itself. -/
theorem C10_mem_refines_nil (zero : Pt α) (fuel fuel' : Nat) (g : MGeom α) (m : Mem α) (G : Geom α)
    (hd : decodeGeom m fuel' g = some G) (hn : G ≠ .nil) :
    transform (none : Option (TF E α)) G = .ok G ∧
    (transformTop (E := E) zero fuel none g m) = (m, .ok g) := by
  refine ⟨by cases G <;> first | rfl | exact absurd rfl hn, ?_⟩
  cases g with
  | nil =>
    cases fuel' with
    | zero => simp [decodeGeom] at hd
    | succ k => simp [decodeGeom] at hd; exact absurd hd.symm hn
  | _ => rfl

/-- non-vacuity: a line string that is a window of a shared buffer -/
def refineMem : Mem Nat :=
  { pts := [[⟨1, 1⟩, ⟨2, 2⟩, ⟨3, 3⟩, ⟨4, 4⟩]], paths := [], polys := [], geoms := [], bnds := [] }
example :
    Mem.flat (MGeom.lineString (α := Nat) ⟨0, 1, 2⟩) = true ∧
      decodeGeom refineMem 1 (.lineString ⟨0, 1, 2⟩) = some (.lineString [⟨2, 2⟩, ⟨3, 3⟩]) :=
  ⟨rfl, rfl⟩

end GeomV.C10
