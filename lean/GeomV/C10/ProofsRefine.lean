import GeomV.C10.LemmasR
/-!
# C10 — the memory model refines the functional model (partial: Point, MultiPoint, LineString; nil transformer
for every type)

`C10_input_unchanged` is a theorem about the memory model `Mem.lean`; `C10_structure` etc. are theorems about
the functional model `GeomTransform.lean`.  That the two describe the same `Transform` was an executable
check only (the judge decodes the memory model's result on every `gt` line).  Here it is a theorem for the
types whose `Transform` is the point-slice loop.

Full statement (NOT proved; missing: Polygon/`*Bounds` (outer loop over `paths` with an allocation per ring),
MultiLineString, MultiPolygon, GeometryCollection — they need the invariant "headers already stored in the
destination array keep decoding to the same lists while later iterations allocate and fill new arrays"):
  ∀ m g G fuel t, decodeGeom m fuel g = some G → noNil G → fuel' ≥ depth G →
    match transform t G with
    | .ok G' => ∃ g', (transformTop zero fuel' t g m).2 = .ok g' ∧ decodeGeom (transformTop …).1 fuel g' = some G'
    | .error e => (transformTop zero fuel' t g m).2 = .error e
-/
set_option linter.unusedSimpArgs false
namespace GeomV.C10
open GeomV Mem

variable {E α : Type}

/-- the types whose `Transform` is one loop over a `[]Point` (or no loop) -/
def Mem.flat : MGeom α → Bool
  | .point _ | .multiPoint _ | .lineString _ | .polygon _ | .bounds _ | .multiLineString _ | .multiPolygon _ => true
  | _ => false

theorem decodeGeom_multiPolygon (m : Mem α) (k : Nat) (s : Slice) :
    decodeGeom m (k+1) (.multiPolygon s) =
      match readArr m.polys s with
      | none => none
      | some ps => (ps.mapM (decodePoly m.pts m.paths)).map Geom.multiPolygon := by
  have hfun : (fun p => (do let hs ← readArr m.paths p; hs.mapM (readArr m.pts) : Option _)) = decodePoly m.pts m.paths := by
    funext p; unfold decodePoly; cases readArr m.paths p <;> rfl
  simp only [decodeGeom]
  rw [hfun]
  cases readArr m.polys s with
  | none => rfl
  | some ps =>
    cases h : ps.mapM (decodePoly m.pts m.paths) <;> simp [h, bind, Option.bind, pure]

/-- the ring `(*Bounds).Transform` builds -/
abbrev boundsRing4 (mn mx : Pt α) : List (Pt α) := [mn, ⟨mx.x, mn.y⟩, mx, ⟨mn.x, mx.y⟩]

/-- memory after the composite literal of `(*Bounds).Transform`: two new arrays -/
abbrev boundsMem (m : Mem α) (mn mx : Pt α) : Mem α :=
  { m with pts := m.pts ++ [boundsRing4 mn mx], paths := m.paths ++ [[(⟨m.pts.length, 0, 4⟩ : Slice)]] }

/-- **C10_mem_refines_partial** (ties "leaves the input untouched" to "same type and nesting / i-th vertex /
error"): for every memory, every Point / MultiPoint / LineString value `g` in it that reads as the functional
geometry `G`, every non-nil transformer and every positive recursion budget: if the functional model succeeds
with `G'`, the memory model succeeds with a value that reads — in the memory after the call — as `G'`; if the
functional model fails (transformer error), the memory model fails with the same error. -/
theorem C10_mem_refines_partial (zero : Pt α) (fuel : Nat) (t : TF E α) (g : MGeom α) (m : Mem α) (G : Geom α)
    (hf : Mem.flat g = true) (hd : decodeGeom m 1 g = some G) :
    (∀ G', transform (some t) G = .ok G' →
      ∃ g', (transformTop zero (fuel+1) (some t) g m).2 = .ok g' ∧
        decodeGeom (transformTop zero (fuel+1) (some t) g m).1 1 g' = some G') ∧
    (∀ e, transform (some t) G = .error e → (transformTop zero (fuel+1) (some t) g m).2 = .error e) := by
  cases g with
  | point p =>
    simp [decodeGeom] at hd; subst hd
    simp only [transform, transformS, pointT, callT, transformTop, transformM]
    cases t p with
    | ok q => simp [decodeGeom]
    | error e => simp
  | lineString s =>
    simp only [decodeGeom, Option.map_eq_some_iff] at hd
    obtain ⟨ps, hps, rfl⟩ := hd
    obtain ⟨h1, h2⟩ := lineStringM_refines zero t s m ps hps
    simp only [transform, transformS, lineStringT, transformTop, transformM]
    cases hr : ptsT t ps with
    | ok qs =>
      obtain ⟨hdr, e1, e2⟩ := h1 qs hr
      generalize lineStringM zero t s m = r at e1 e2
      obtain ⟨m', res⟩ := r
      simp at e1; subst e1
      simp [decodeGeom, e2]
    | error e =>
      have := h2 e hr
      generalize lineStringM zero t s m = r at this
      obtain ⟨m', res⟩ := r
      simp at this; subst this
      simp
  | multiPoint s =>
    simp only [decodeGeom, Option.map_eq_some_iff] at hd
    obtain ⟨ps, hps, rfl⟩ := hd
    obtain ⟨h1, h2⟩ := lineStringM_refines zero t s m ps hps
    simp only [transform, transformS, multiPointLoop_eq, ← ptsT_eq, transformTop, transformM]
    cases hr : ptsT t ps with
    | ok qs =>
      obtain ⟨hdr, e1, e2⟩ := h1 qs hr
      generalize lineStringM zero t s m = r at e1 e2
      obtain ⟨m', res⟩ := r
      simp at e1; subst e1
      simp [decodeGeom, e2]
    | error e =>
      have := h2 e hr
      generalize lineStringM zero t s m = r at this
      obtain ⟨m', res⟩ := r
      simp at this; subst this
      simp
  | polygon s =>
    simp only [decodeGeom, bind, Option.bind, pure] at hd
    cases h1 : readArr m.paths s with
    | none => simp [h1] at hd
    | some hs =>
      simp only [h1] at hd
      cases h2 : hs.mapM (readArr m.pts) with
      | none => simp [h2] at hd
      | some rs =>
        simp [h2] at hd; subst hd
        simp only [transform, transformS, polygonT, transformTop, transformM]
        cases hr : ringsT t rs with
        | ok qss =>
          obtain ⟨hdr, hs', e1, e2, e3⟩ := polygonM_decodes zero t s m hs rs qss h1 h2 hr
          generalize polygonM zero t s m = r at e1 e2 e3
          obtain ⟨m', res⟩ := r
          simp at e1; subst e1
          simp at e2 e3
          simp [decodeGeom, e2, e3, bind, Option.bind]
        | error e =>
          have := polygonM_failure zero t s m hs rs e h1 h2 hr
          generalize polygonM zero t s m = r at this
          obtain ⟨m', res⟩ := r
          simp at this; subst this
          simp
  | multiLineString s =>
    simp only [decodeGeom, bind, Option.bind, pure] at hd
    cases h1 : readArr m.paths s with
    | none => simp [h1] at hd
    | some hs =>
      simp only [h1] at hd
      cases h2 : hs.mapM (readArr m.pts) with
      | none => simp [h2] at hd
      | some rs =>
        simp [h2] at hd; subst hd
        simp only [transform, transformS, multiLineLoop_eq, ← ringsT_eq, transformTop, transformM]
        cases hr : ringsT t rs with
        | ok qss =>
          obtain ⟨hdr, hs', e1, e2, e3⟩ := multiLineM_decodes zero t s m hs rs qss h1 h2 hr
          generalize multiLineM zero t s m = r at e1 e2 e3
          obtain ⟨m', res⟩ := r
          simp at e1; subst e1
          simp at e2 e3
          simp [decodeGeom, e2, e3, bind, Option.bind]
        | error e =>
          have := multiLineM_failure zero t s m hs rs e h1 h2 hr
          generalize multiLineM zero t s m = r at this
          obtain ⟨m', res⟩ := r
          simp at this; subst this
          simp
  | bounds a =>
    simp only [decodeGeom, Option.map_eq_some_iff] at hd
    obtain ⟨⟨mn, mx⟩, hb, rfl⟩ := hd
    -- the literal `Polygon{{b.Min, {b.Max.X, b.Min.Y}, b.Max, {b.Min.X, b.Max.Y}}}` in memory
    have h1 : readArr (boundsMem m mn mx).paths ⟨m.paths.length, 0, 1⟩ = some [⟨m.pts.length, 0, 4⟩] := by
      simp [readArr, boundsMem]
    have h2 : [(⟨m.pts.length, 0, 4⟩ : Slice)].mapM (readArr (boundsMem m mn mx).pts) =
        some [boundsRing4 mn mx] := by
      simp [readArr, boundsMem, boundsRing4, List.mapM_cons, bind, Option.bind, pure]
    simp only [transform, transformS, boundsT, polygonT, transformTop, transformM, boundsM, hb, aAlloc]
    cases hr : ringsT t [boundsRing4 mn mx] with
    | ok qss =>
      obtain ⟨hdr, hs', e1, e2, e3⟩ := polygonM_decodes zero t _ _ _ _ qss h1 h2 hr
      generalize polygonM zero t ⟨m.paths.length, 0, 1⟩ (boundsMem m mn mx) = r at e1 e2 e3 ⊢
      obtain ⟨m', res⟩ := r
      simp at e1; subst e1
      simp at e2 e3
      simp [decodeGeom, e2, e3, bind, Option.bind]
    | error e =>
      have := polygonM_failure zero t _ _ _ _ e h1 h2 hr
      generalize polygonM zero t ⟨m.paths.length, 0, 1⟩ (boundsMem m mn mx) = r at this ⊢
      obtain ⟨m', res⟩ := r
      simp at this; subst this
      simp
  | multiPolygon s =>
    rw [decodeGeom_multiPolygon] at hd
    cases h1 : readArr m.polys s with
    | none => simp [h1] at hd
    | some ps =>
      simp only [h1] at hd
      cases h2 : ps.mapM (decodePoly m.pts m.paths) with
      | none => simp [h2] at hd
      | some pss =>
        simp [h2] at hd; subst hd
        obtain ⟨k1, k2⟩ := multiPolyM_refines zero t s m ps pss h1 h2
        simp only [transform, transformS, transformTop, transformM]
        cases hr : multiPolyLoop t pss with
        | ok qsss =>
          obtain ⟨hdr, ps', e1, e2, e3⟩ := k1 qsss hr
          generalize multiPolyM zero t s m = r at e1 e2 e3
          obtain ⟨m', res⟩ := r
          simp at e1; subst e1
          simp at e2 e3
          simp [decodeGeom_multiPolygon, e2, e3]
        | error e =>
          have := k2 e hr
          generalize multiPolyM zero t s m = r at this
          obtain ⟨m', res⟩ := r
          simp at this; subst this
          simp
  | _ => simp [Mem.flat] at hf

/-- **C10_mem_refines_nil**: with a nil transformer the memory model returns the receiver in the unchanged
memory, for EVERY type and nesting — so whatever it read as before, it reads as after, which is the
functional model's answer `G` itself. -/
theorem C10_mem_refines_nil (zero : Pt α) (fuel fuel' : Nat) (g : MGeom α) (m : Mem α) (G : Geom α)
    (hd : decodeGeom m fuel' g = some G) (hn : G ≠ .nil) :
    transform (none : Option (TF E α)) G = .ok G ∧
    (transformTop (E := E) zero fuel none g m) = (m, .ok g) := by
  refine ⟨by cases G <;> first | rfl | exact absurd rfl hn, ?_⟩
  cases g with
  | nil =>
    cases fuel' with
    | zero => simp [decodeGeom] at hd
    | succ k => simp [decodeGeom] at hd; exact absurd hd.symm hn
  | _ => rfl

/-- non-vacuity: a line string that is a window of a shared buffer -/
def refineMem : Mem Nat :=
  { pts := [[⟨1, 1⟩, ⟨2, 2⟩, ⟨3, 3⟩, ⟨4, 4⟩]], paths := [], polys := [], geoms := [], bnds := [] }
example :
    Mem.flat (MGeom.lineString (α := Nat) ⟨0, 1, 2⟩) = true ∧
      decodeGeom refineMem 1 (.lineString ⟨0, 1, 2⟩) = some (.lineString [⟨2, 2⟩, ⟨3, 3⟩]) :=
  ⟨rfl, rfl⟩

end GeomV.C10
