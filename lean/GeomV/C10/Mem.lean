import GeomV.C10.GeomTransform
/-!
# C10 model, part 3: the eight `Transform` methods on Go memory ("leaves the input untouched")

The functional model of part 1 cannot say anything about backing arrays.  Here every slice-typed
geometry is a slice HEADER `(addr, off, len)` into a memory of backing arrays, so inputs whose members
share a backing array, are windows of one buffer or prefixes of one another are ordinary memories:

* `pts`    backing arrays of `[]Point`            (LineString, MultiPoint, Path)
* `paths`  backing arrays of point-slice headers  (`[]LineString` of a MultiLineString, `[]Path` of a Polygon)
* `polys`  backing arrays of path-slice headers   (`[]Polygon` of a MultiPolygon)
* `geoms`  backing arrays of interface values     (`[]Geom` of a GeometryCollection)
* `bnds`   `Bounds` structs                       (`*Bounds` is an index)

Each method is transcribed with every `make`, every read `x[i]` and every write `y[i] = …` going
through memory, in the order of the Go source (e.g. `Polygon.Transform` stores the header of the new ring
BEFORE filling it).  Memory is returned on every path (success, transformer error, panic).
`GeometryCollection.Transform` recurses through memory, hence the fuel: a collection that (through
pointers) contains itself recurses forever in Go as well (`Fault.recursion`).
Core Lean only.
-/
namespace GeomV.C10.Mem
open GeomV GeomV.C10

structure Slice where
  addr : Nat
  off : Nat
  len : Nat
deriving Repr, DecidableEq, Inhabited

/-- an interface value of type `geom.Geom` as stored in memory -/
inductive MGeom (α : Type) where
  | point (p : Pt α)
  | multiPoint (s : Slice)         -- into `pts`
  | lineString (s : Slice)         -- into `pts`
  | multiLineString (s : Slice)    -- into `paths`
  | polygon (s : Slice)            -- into `paths`
  | multiPolygon (s : Slice)       -- into `polys`
  | collection (s : Slice)         -- into `geoms`
  | bounds (a : Nat)               -- into `bnds`
  | nil
deriving Repr, Inhabited

structure Mem (α : Type) where
  pts : List (List (Pt α))
  paths : List (List Slice)
  polys : List (List Slice)
  geoms : List (List (MGeom α))
  bnds : List (Pt α × Pt α)

variable {E α β : Type}

/-! ## one area of backing arrays -/

/-- `x[i]` where `x` is the array at address `a` -/
def aGet (ar : List (List β)) (a i : Nat) : Except (Fail E) β :=
  match ar[a]? with
  | none => .error (.panic .nilDeref)
  | some arr =>
    match arr[i]? with
    | none => .error (.panic .index)
    | some v => .ok v

/-- `x[i] = v` -/
def aSet (ar : List (List β)) (a i : Nat) (v : β) : Except (Fail E) (List (List β)) :=
  match ar[a]? with
  | none => .error (.panic .nilDeref)
  | some arr => if i < arr.length then .ok (ar.set a (arr.set i v)) else .error (.panic .index)

/-- a new array with the given contents at the next free address (`make` = all zero values) -/
def aAlloc (ar : List (List β)) (arr : List β) : Nat × List (List β) := (ar.length, ar ++ [arr])

/-- a computation on memory: new memory on every path -/
abbrev M (E α β : Type) := Mem α → Mem α × Except (Fail E) β

/-- `for i := i; i < i+n; i++ { body }` where an error ends the loop -/
def loopN (body : Nat → M E α Unit) : Nat → Nat → M E α Unit
  | _, 0, m => (m, .ok ())
  | i, n+1, m =>
    match body i m with
    | (m', .ok ()) => loopN body (i+1) n m'
    | (m', .error e) => (m', .error e)

def zeroSlice : Slice := ⟨0, 0, 0⟩

/-! ## the methods (t ≠ nil) -/

/-- `p := l[i]; p2, err := t(p); if err != nil {return}; l2[i] = p2` -/
def ptsBody (t : TF E α) (s : Slice) (dst : Nat) (i : Nat) : M E α Unit := fun m =>
  match aGet (E := E) m.pts s.addr (s.off + i) with
  | .error e => (m, .error e)
  | .ok p =>
    match t p with
    | .error e => (m, .error (.err e))
    | .ok q =>
      match aSet (E := E) m.pts dst i q with
      | .error e => (m, .error e)
      | .ok pts' => ({ m with pts := pts' }, .ok ())

/-- `LineString.Transform`: `l2 := make(LineString, len(l))` + loop; the header of `l2`.
(`MultiPoint.Transform` has the same memory behaviour: `p.Transform(t)` works on the value `p`.) -/
def lineStringM (zero : Pt α) (t : TF E α) (s : Slice) : M E α Slice := fun m =>
  let (a2, pts1) := aAlloc m.pts (List.replicate s.len zero)
  match loopN (ptsBody t s a2) 0 s.len { m with pts := pts1 } with
  | (m2, .ok ()) => (m2, .ok ⟨a2, 0, s.len⟩)
  | (m2, .error e) => (m2, .error e)

/-- outer loop body of `Polygon.Transform`: `p2[i] = make([]Point, len(r))`, then the inner loop -/
def ringBody (zero : Pt α) (t : TF E α) (s : Slice) (dst : Nat) (i : Nat) : M E α Unit := fun m =>
  match aGet (E := E) m.paths s.addr (s.off + i) with
  | .error e => (m, .error e)
  | .ok r =>
    let (a2, pts1) := aAlloc m.pts (List.replicate r.len zero)
    match aSet (E := E) m.paths dst i ⟨a2, 0, r.len⟩ with
    | .error e => ({ m with pts := pts1 }, .error e)
    | .ok paths1 => loopN (ptsBody t r a2) 0 r.len { m with pts := pts1, paths := paths1 }

/-- `Polygon.Transform`: `p2 := make(Polygon, len(p))` + loop -/
def polygonM (zero : Pt α) (t : TF E α) (s : Slice) : M E α Slice := fun m =>
  let (dst, paths1) := aAlloc m.paths (List.replicate s.len zeroSlice)
  match loopN (ringBody zero t s dst) 0 s.len { m with paths := paths1 } with
  | (m2, .ok ()) => (m2, .ok ⟨dst, 0, s.len⟩)
  | (m2, .error e) => (m2, .error e)

/-- loop body of `MultiLineString.Transform`: `g, err := l.Transform(t); …; ml2[i] = g.(LineString)` -/
def mlsBody (zero : Pt α) (t : TF E α) (s : Slice) (dst : Nat) (i : Nat) : M E α Unit := fun m =>
  match aGet (E := E) m.paths s.addr (s.off + i) with
  | .error e => (m, .error e)
  | .ok l =>
    match lineStringM zero t l m with
    | (m1, .error e) => (m1, .error e)
    | (m1, .ok hdr) =>
      match aSet (E := E) m1.paths dst i hdr with
      | .error e => (m1, .error e)
      | .ok paths' => ({ m1 with paths := paths' }, .ok ())

def multiLineM (zero : Pt α) (t : TF E α) (s : Slice) : M E α Slice := fun m =>
  let (dst, paths1) := aAlloc m.paths (List.replicate s.len zeroSlice)
  match loopN (mlsBody zero t s dst) 0 s.len { m with paths := paths1 } with
  | (m2, .ok ()) => (m2, .ok ⟨dst, 0, s.len⟩)
  | (m2, .error e) => (m2, .error e)

/-- loop body of `MultiPolygon.Transform` -/
def mpgBody (zero : Pt α) (t : TF E α) (s : Slice) (dst : Nat) (i : Nat) : M E α Unit := fun m =>
  match aGet (E := E) m.polys s.addr (s.off + i) with
  | .error e => (m, .error e)
  | .ok p =>
    match polygonM zero t p m with
    | (m1, .error e) => (m1, .error e)
    | (m1, .ok hdr) =>
      match aSet (E := E) m1.polys dst i hdr with
      | .error e => (m1, .error e)
      | .ok polys' => ({ m1 with polys := polys' }, .ok ())

def multiPolyM (zero : Pt α) (t : TF E α) (s : Slice) : M E α Slice := fun m =>
  let (dst, polys1) := aAlloc m.polys (List.replicate s.len zeroSlice)
  match loopN (mpgBody zero t s dst) 0 s.len { m with polys := polys1 } with
  | (m2, .ok ()) => (m2, .ok ⟨dst, 0, s.len⟩)
  | (m2, .error e) => (m2, .error e)

/-- `(*Bounds).Transform`: the literal `Polygon{{b.Min, {b.Max.X, b.Min.Y}, b.Max, {b.Min.X, b.Max.Y}}}`
(two new arrays), then `Polygon.Transform` -/
def boundsM (zero : Pt α) (t : TF E α) (a : Nat) : M E α Slice := fun m =>
  match m.bnds[a]? with
  | none => (m, .error (.panic .nilDeref))
  | some (mn, mx) =>
    let (a1, pts1) := aAlloc m.pts [mn, ⟨mx.x, mn.y⟩, mx, ⟨mn.x, mx.y⟩]
    let (r1, paths1) := aAlloc m.paths [(⟨a1, 0, 4⟩ : Slice)]
    polygonM zero t ⟨r1, 0, 1⟩ { m with pts := pts1, paths := paths1 }

/-- loop body of `GeometryCollection.Transform`: `gc2[i], err = g.Transform(t)` (`rec` = the dynamic call) -/
def collBody (rec : MGeom α → M E α (MGeom α)) (s : Slice) (dst : Nat) (i : Nat) : M E α Unit := fun m =>
  match aGet (E := E) m.geoms s.addr (s.off + i) with
  | .error e => (m, .error e)
  | .ok g =>
    match rec g m with
    | (m1, .error e) => (m1, .error e)
    | (m1, .ok g') =>
      match aSet (E := E) m1.geoms dst i g' with
      | .error e => (m1, .error e)
      | .ok geoms' => ({ m1 with geoms := geoms' }, .ok ())

/-- dynamic dispatch `g.Transform(t)`, t ≠ nil -/
def transformM (zero : Pt α) (t : TF E α) : Nat → MGeom α → M E α (MGeom α)
  | 0, _, m => (m, .error (.panic .recursion))
  | fuel+1, g, m =>
    match g with
    | .point p =>
      match t p with
      | .ok q => (m, .ok (.point q))
      | .error e => (m, .error (.err e))
    | .multiPoint s =>
      match lineStringM zero t s m with
      | (m', .ok h) => (m', .ok (.multiPoint h))
      | (m', .error e) => (m', .error e)
    | .lineString s =>
      match lineStringM zero t s m with
      | (m', .ok h) => (m', .ok (.lineString h))
      | (m', .error e) => (m', .error e)
    | .multiLineString s =>
      match multiLineM zero t s m with
      | (m', .ok h) => (m', .ok (.multiLineString h))
      | (m', .error e) => (m', .error e)
    | .polygon s =>
      match polygonM zero t s m with
      | (m', .ok h) => (m', .ok (.polygon h))
      | (m', .error e) => (m', .error e)
    | .multiPolygon s =>
      match multiPolyM zero t s m with
      | (m', .ok h) => (m', .ok (.multiPolygon h))
      | (m', .error e) => (m', .error e)
    | .bounds a =>
      match boundsM zero t a m with
      | (m', .ok h) => (m', .ok (.polygon h))
      | (m', .error e) => (m', .error e)
    | .nil => (m, .error (.panic .nilDeref))
    | .collection s =>
      -- gc2 := make(GeometryCollection, len(gc)); for i, g := range gc { gc2[i], err = g.Transform(t); … }
      let (dst, geoms1) := aAlloc m.geoms (List.replicate s.len MGeom.nil)
      match loopN (collBody (transformM zero t fuel) s dst) 0 s.len { m with geoms := geoms1 } with
      | (m2, .ok ()) => (m2, .ok (.collection ⟨dst, 0, s.len⟩))
      | (m2, .error e) => (m2, .error e)

/-- `g.Transform(t)`: every method starts with `if t == nil { return self, nil }` -/
def transformTop (zero : Pt α) (fuel : Nat) (t : Option (TF E α)) (g : MGeom α) : M E α (MGeom α) := fun m =>
  match g with
  | .nil => (m, .error (.panic .nilDeref))
  | g =>
    match t with
    | none => (m, .ok g)
    | some t => transformM zero t fuel g m

end GeomV.C10.Mem
