import GeomV.C10.GeomTransform
/-!
# C10 model, part 3 (partial): `Transform` on Go memory, for the clause "leaves the input untouched"

The functional model of part 1 cannot say anything about the input's backing arrays.  Here the
point-slice types (`LineString`, `MultiPoint`, and each ring of a `Polygon`) live in a memory of
backing arrays; a slice value is the address of its array.  `lineStringM` is
`l2 := make(LineString, len(l)); for i, p := range l { …; l2[i] = p2 }` with every read and write
going through memory, so that an aliasing bug (writing through the input's array, or returning it)
would be visible.  Core Lean only.
-/
namespace GeomV.C10.Mem
open GeomV GeomV.C10

/-- backing arrays of `[]Point` values, by address -/
abbrev Mem (α : Type) := List (List (Pt α))

variable {E α : Type}

/-- `make([]Point, n)`: a new zeroed array at the next free address -/
def make (zero : Pt α) (n : Nat) (m : Mem α) : Nat × Mem α := (m.length, m ++ [List.replicate n zero])

/-- `a[i]` -/
def get (m : Mem α) (a i : Nat) : Except (Fail E) (Pt α) :=
  match m[a]? with
  | none => .error (.panic .nilDeref)
  | some arr =>
    match arr[i]? with
    | none => .error (.panic .index)
    | some p => .ok p

/-- `a[i] = v` -/
def set (m : Mem α) (a i : Nat) (v : Pt α) : Except (Fail E) (Mem α) :=
  match m[a]? with
  | none => .error (.panic .nilDeref)
  | some arr => if i < arr.length then .ok (m.set a (arr.set i v)) else .error (.panic .index)

/-- the loop `for i := i; i < i + n; i++ { p := l[i]; p2, err := t(p); if err != nil {return}; l2[i] = p2 }`
(`n` iterations left); memory is returned on every path -/
def loop (t : TF E α) (a a2 : Nat) : Nat → Nat → Mem α → Mem α × Except (Fail E) Unit
  | _, 0, m => (m, .ok ())
  | i, n+1, m =>
    match get (E := E) m a i with
    | .error e => (m, .error e)
    | .ok p =>
      match t p with
      | .error e => (m, .error (.err e))
      | .ok q =>
        match set (E := E) m a2 i q with
        | .error e => (m, .error e)
        | .ok m' => loop t a a2 (i+1) n m'

/-- `LineString.Transform(t)` (t ≠ nil) for the slice at address `a`: address of the result -/
def lineStringM (zero : Pt α) (t : TF E α) (a : Nat) (m : Mem α) : Mem α × Except (Fail E) Nat :=
  match m[a]? with
  | none => (m, .error (.panic .nilDeref))
  | some l =>
    let (a2, m1) := make zero l.length m
    match loop t a a2 0 l.length m1 with
    | (m2, .ok ()) => (m2, .ok a2)
    | (m2, .error e) => (m2, .error e)

end GeomV.C10.Mem
