import GeomV.C10.GeomTransform
import GeomV.C10.Transformer
import GeomV.C10.Mem
import GeomV.C10.MemDecode
import GeomV.C10.Ctors
/-!
# C10 model = `GeomTransform` (the eight `Transform` methods of /repo/transform.go, functional) +
`Transformer` (the closure of proj/transform.go with `adjust_axis` and its effect on shared `*SR`s) +
`Mem` (the eight `Transform` methods on Go memory) + `Ctors` (what the projection constructors write).
-/
