import GeomV.C10.GeomTransform
import GeomV.C10.Transformer
/-!
# C10 model = `GeomTransform` (the eight `Transform` methods of /repo/transform.go) +
`Transformer` (the closure of proj/transform.go with `adjust_axis` and its effect on shared `*SR`s).
-/
