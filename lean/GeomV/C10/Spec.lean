import GeomV.Common.Geom
/-!
# C10 specification (independent of the model; reads like the property statement)

*Geom.Transform* "returns a geometry of the same type and nesting whose i-th vertex is the transformer
applied to the i-th input vertex, …, treats a nil transformer as the identity, and returns the
transformer's error (never panics) if any vertex fails" (a `*Bounds` becoming a polygon):
`TransformSpec`.  *Transformers* "return the same result for the same input as a freshly built
transformer does", whatever was called before: `HistoryIndependent`.
Core Lean only.
-/
namespace GeomV.C10.Spec
open GeomV

/-- what an observer sees of a call: a value, a returned error, or a panic -/
inductive Outcome (E G : Type) where
  | ok (g : G)
  | err (e : E)
  | panic
deriving Repr, DecidableEq

section
variable {E α : Type}

/-- the ring a `*Bounds` stands for: Min, (Max.X, Min.Y), Max, (Min.X, Max.Y) -/
def boundsRing (mn mx : Pt α) : List (Pt α) := [mn, ⟨mx.x, mn.y⟩, mx, ⟨mn.x, mx.y⟩]

mutual
/-- the vertices of a geometry in order -/
def vertices : Geom α → List (Pt α)
  | .point p => [p]
  | .multiPoint ps => ps
  | .lineString ps => ps
  | .multiLineString ls => ls.flatten
  | .polygon rs => rs.flatten
  | .multiPolygon ps => ps.flatten.flatten
  | .collection gs => verticesL gs
  | .bounds mn mx => boundsRing mn mx
  | .nil => []
def verticesL : List (Geom α) → List (Pt α)
  | [] => []
  | g :: gs => vertices g ++ verticesL gs
end

mutual
/-- a `*Bounds` becomes the one-ring polygon; everything else is unchanged -/
def norm : Geom α → Geom α
  | .bounds mn mx => .polygon [boundsRing mn mx]
  | .collection gs => .collection (normL gs)
  | g => g
def normL : List (Geom α) → List (Geom α)
  | [] => []
  | g :: gs => norm g :: normL gs
end

/-- type and nesting: the geometry with its coordinates erased -/
def shape (g : Geom α) : Geom Unit := Geom.map (fun _ => ()) (norm g)

/-- apply `t` to the vertices in order; the first failure wins -/
def mapAll (t : Pt α → Except E (Pt α)) : List (Pt α) → Except E (List (Pt α))
  | [] => .ok []
  | p :: ps =>
    match t p with
    | .error e => .error e
    | .ok q =>
      match mapAll t ps with
      | .error e => .error e
      | .ok qs => .ok (q :: qs)

/-- `mapAll` ring by ring, polygon by polygon -/
def mapRings (t : Pt α → Except E (Pt α)) : List (List (Pt α)) → Except E (List (List (Pt α)))
  | [] => .ok []
  | r :: rs =>
    match mapAll t r with
    | .error e => .error e
    | .ok q =>
      match mapRings t rs with
      | .error e => .error e
      | .ok qs => .ok (q :: qs)

def mapPolys (t : Pt α → Except E (Pt α)) : List (List (List (Pt α))) → Except E (List (List (List (Pt α))))
  | [] => .ok []
  | p :: ps =>
    match mapRings t p with
    | .error e => .error e
    | .ok q =>
      match mapPolys t ps with
      | .error e => .error e
      | .ok qs => .ok (q :: qs)

mutual
/-- the same constructor and nesting with `t` applied to every vertex in order (first failure wins);
a `*Bounds` becomes its ring as a polygon -/
def mapVertices (t : Pt α → Except E (Pt α)) : Geom α → Except E (Geom α)
  | .point p => match t p with | .ok q => .ok (.point q) | .error e => .error e
  | .multiPoint ps => match mapAll t ps with | .ok q => .ok (.multiPoint q) | .error e => .error e
  | .lineString ps => match mapAll t ps with | .ok q => .ok (.lineString q) | .error e => .error e
  | .multiLineString ls => match mapRings t ls with | .ok q => .ok (.multiLineString q) | .error e => .error e
  | .polygon rs => match mapRings t rs with | .ok q => .ok (.polygon q) | .error e => .error e
  | .multiPolygon ps => match mapPolys t ps with | .ok q => .ok (.multiPolygon q) | .error e => .error e
  | .collection gs => match mapVerticesL t gs with | .ok q => .ok (.collection q) | .error e => .error e
  | .bounds mn mx => match mapRings t [boundsRing mn mx] with | .ok q => .ok (.polygon q) | .error e => .error e
  | .nil => .ok .nil
def mapVerticesL (t : Pt α → Except E (Pt α)) : List (Geom α) → Except E (List (Geom α))
  | [] => .ok []
  | g :: gs =>
    match mapVertices t g with
    | .error e => .error e
    | .ok h =>
      match mapVerticesL t gs with
      | .error e => .error e
      | .ok hs => .ok (h :: hs)
end

/-- The statement about `g.Transform(t)` with outcome `r`. -/
def TransformSpec (t : Option (Pt α → Except E (Pt α))) (g : Geom α) (r : Outcome E (Geom α)) : Prop :=
  match t with
  | none => r = .ok g
  | some t =>
    match mapAll t (vertices g) with
    | .error e => r = .err e
    | .ok vs => ∃ g', r = .ok g' ∧ shape g' = shape g ∧ vertices g' = vs

/-- executable form of `TransformSpec` (used by the judge on the implementation's answer);
`none` = satisfied, `some why` = violated -/
def transformSpecB [DecidableEq α] [DecidableEq E] (t : Option (Pt α → Except E (Pt α))) (g : Geom α)
    (r : Outcome E (Geom α)) (geq : Geom α → Geom α → Bool) : Option String :=
  match r with
  | .panic => some "panicked"
  | r =>
    match t with
    | none =>
      match r with
      | .ok g' => if geq g' g then none else some "nil-transformer-is-not-the-identity"
      | _ => some "nil-transformer-returned-an-error"
    | some t =>
      match mapAll t (vertices g), r with
      | .error e, .err e' => if e = e' then none else some "returned-another-vertex's-error"
      | .error _, _ => some "a-vertex-fails-but-no-error-returned"
      | .ok _, .err _ => some "error-returned-although-every-vertex-succeeds"
      | .ok vs, .ok g' =>
        if !(Geom.beq (shape g') (shape g)) then some "type-or-nesting-differs"
        else if vertices g' = vs then none else some "i-th-vertex-is-not-t-of-i-th-input-vertex"
      | .ok _, .panic => some "panicked"

/-- the vertices `t` must have been called with: all up to and including the first failing one -/
def expectedCalls (t : Pt α → Except E (Pt α)) : List (Pt α) → List (Pt α)
  | [] => []
  | p :: ps =>
    match t p with
    | .error _ => [p]
    | .ok _ => p :: expectedCalls t ps

/-- The statement about a pool of transformers: the i-th answer of the history equals the answer a
freshly built transformer gives for the i-th input. -/
def HistoryIndependent {R : Type} (answers fresh : List R) : Prop := answers = fresh

end
end GeomV.C10.Spec
