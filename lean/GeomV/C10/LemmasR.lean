import GeomV.C10.MemDecode
import GeomV.C10.Lemmas
/-! Refinement lemmas (C10): the memory model's point-slice loop computes what the functional model
computes (`ptsT`), on every memory in which the source window is readable. -/
set_option linter.unusedSimpArgs false
set_option linter.unusedVariables false
namespace GeomV.C10.Mem
open GeomV GeomV.C10

variable {E α : Type}

theorem take_set_succ {β : Type} (arr : List β) (i : Nat) (q : β) (h : i < arr.length) :
    (arr.set i q).take (i+1) = arr.take i ++ [q] := by
  induction arr generalizing i with
  | nil => simp at h
  | cons a as ih =>
    cases i with
    | zero => simp
    | succ i => simp at h; simp [ih i h]

theorem drop_set_gt {β : Type} (arr : List β) (i j : Nat) (q : β) (h : i < j) :
    (arr.set i q).drop j = arr.drop j := by
  induction arr generalizing i j with
  | nil => simp
  | cons a as ih =>
    cases j with
    | zero => omega
    | succ j =>
      cases i with
      | zero => simp
      | succ i => simp [ih i j (by omega)]

theorem set_self_of_getElem? {β : Type} (l : List β) (i : Nat) (a : β) (h : l[i]? = some a) : l.set i a = l := by
  induction l generalizing i with
  | nil => simp
  | cons x xs ih =>
    cases i with
    | zero => simp at h; simp [h]
    | succ i => simp at h; simp [ih i h]

theorem ptsT_length (t : TF E α) (l q : List (Pt α)) (h : ptsT t l = .ok q) : q.length = l.length := by
  induction l generalizing q with
  | nil => simp [ptsT] at h; subst h; rfl
  | cons p ps ih =>
    simp only [ptsT] at h
    cases hc : callT t p with
    | error e => simp [hc] at h
    | ok q1 =>
      simp only [hc] at h
      cases hr : ptsT t ps with
      | error e => simp [hr] at h
      | ok r => simp [hr] at h; subst h; simp [ih r hr]

theorem drop_take_succ {β : Type} (src : List β) (k n : Nat) (p : β) (h : src[k]? = some p) :
    (src.drop k).take (n+1) = p :: (src.drop (k+1)).take n := by
  have hk : k < src.length := (List.getElem?_eq_some_iff.mp h).1
  have : src.drop k = p :: src.drop (k+1) := by
    rw [List.drop_eq_getElem_cons hk]
    have := (List.getElem?_eq_some_iff.mp h).2
    simp [this]
  rw [this]; rfl

/-- the loop `for i, p := range l { p2 := t(p); l2[i] = p2 }` on memory: it fills `dst[i .. i+n)` with the
functional model's answer for the source window and touches nothing else; a failure is the functional
model's failure -/
theorem loopN_pts (t : TF E α) (s : Slice) (dst : Nat) :
    ∀ (n i : Nat) (m : Mem α) (src arr : List (Pt α)),
      m.pts[s.addr]? = some src → m.pts[dst]? = some arr → s.addr ≠ dst →
      i + n ≤ arr.length → s.off + i + n ≤ src.length →
      (∀ qs, ptsT t ((src.drop (s.off + i)).take n) = .ok qs →
        loopN (ptsBody t s dst) i n m =
          ({ m with pts := m.pts.set dst (arr.take i ++ qs ++ arr.drop (i + n)) }, .ok ())) ∧
      (∀ e, ptsT t ((src.drop (s.off + i)).take n) = .error e →
        (loopN (ptsBody t s dst) i n m).2 = .error e) := by
  intro n
  induction n with
  | zero =>
    intro i m src arr hs hd hne hi hsrc
    refine ⟨?_, ?_⟩
    · intro qs hq
      simp [ptsT] at hq; subst hq
      simp [loopN, set_self_of_getElem? _ _ _ hd]
    · intro e he; simp [ptsT] at he
  | succ n ih =>
    intro i m src arr hs hd hne hi hsrc
    have hk : s.off + i < src.length := by omega
    have hp : src[s.off + i]? = some (src[s.off + i]'hk) := List.getElem?_eq_getElem hk
    rw [drop_take_succ src (s.off + i) n _ hp]
    have hget : aGet (E := E) m.pts s.addr (s.off + i) = .ok (src[s.off + i]'hk) := by
      simp [aGet, hs, hp]
    simp only [ptsT, callT]
    cases ht : t (src[s.off + i]'hk) with
    | error e0 =>
      refine ⟨?_, ?_⟩
      · intro qs hq; simp at hq
      · intro e he
        simp at he; subst he
        simp [loopN, ptsBody, hget, ht]
    | ok q =>
      have hil : i < arr.length := by omega
      have hset : aSet (E := E) m.pts dst i q = .ok (m.pts.set dst (arr.set i q)) := by
        simp [aSet, hd, hil]
      have hbody : ptsBody t s dst i m = ({ m with pts := m.pts.set dst (arr.set i q) }, .ok ()) := by
        simp [ptsBody, hget, ht, hset]
      have hdlt : dst < m.pts.length := (List.getElem?_eq_some_iff.mp hd).1
      have hs1 : (m.pts.set dst (arr.set i q))[s.addr]? = some src := by
        rw [List.getElem?_set_ne (Ne.symm hne)]; exact hs
      have hd1 : (m.pts.set dst (arr.set i q))[dst]? = some (arr.set i q) := by
        simp [List.getElem?_set, hdlt]
      have ih' := ih (i+1) { m with pts := m.pts.set dst (arr.set i q) } src (arr.set i q) hs1 hd1 hne
        (by simp; omega) (by omega)
      have hoff : s.off + (i + 1) = s.off + i + 1 := by omega
      rw [hoff] at ih'
      refine ⟨?_, ?_⟩
      · intro qs hq
        cases hr : ptsT t ((src.drop (s.off + i + 1)).take n) with
        | error e => simp [hr] at hq
        | ok r =>
          simp [hr] at hq; subst hq
          have := ih'.1 r hr
          simp only [loopN, hbody]
          rw [this]
          simp only [List.set_set, take_set_succ arr i q hil,
            drop_set_gt arr i (i + 1 + n) q (by omega)]
          have e1 : i + 1 + n = i + (n + 1) := by omega
          simp [e1, List.append_assoc]
      · intro e he
        cases hr : ptsT t ((src.drop (s.off + i + 1)).take n) with
        | error e' =>
          simp [hr] at he; subst he
          have := ih'.2 e' hr
          simp only [loopN, hbody]
          exact this
        | ok r => simp [hr] at he

end GeomV.C10.Mem

namespace GeomV.C10.Mem
open GeomV GeomV.C10
variable {E α : Type}

/-- `LineString.Transform` / `MultiPoint.Transform` on memory refine the functional loop `ptsT`: if the
receiver's window reads as `ps`, then a success of `ptsT t ps` is a success of the method whose returned
header reads (in the memory after the call) as the same list, and a failure is the same failure. -/
theorem lineStringM_refines (zero : Pt α) (t : TF E α) (s : Slice) (m : Mem α) (ps : List (Pt α))
    (h : readArr m.pts s = some ps) :
    (∀ qs, ptsT t ps = .ok qs →
      ∃ hd, (lineStringM zero t s m).2 = .ok hd ∧ readArr (lineStringM zero t s m).1.pts hd = some qs) ∧
    (∀ e, ptsT t ps = .error e → (lineStringM zero t s m).2 = .error e) := by
  unfold readArr at h
  by_cases h0 : s.len = 0
  · simp [h0] at h; subst h
    refine ⟨?_, ?_⟩
    · intro qs hq
      simp [ptsT] at hq; subst hq
      refine ⟨⟨m.pts.length, 0, 0⟩, ?_, ?_⟩
      · simp [lineStringM, aAlloc, h0, loopN]
      · simp [readArr]
    · intro e he; simp [ptsT] at he
  · simp only [h0, if_false] at h
    cases hsrc : m.pts[s.addr]? with
    | none => simp [hsrc] at h
    | some src =>
      simp only [hsrc] at h
      by_cases hle : s.off + s.len ≤ src.length
      · simp only [hle, if_true] at h
        cases h
        have hslt : s.addr < m.pts.length := (List.getElem?_eq_some_iff.mp hsrc).1
        have hs1 : (m.pts ++ [List.replicate s.len zero])[s.addr]? = some src := by
          rw [List.getElem?_append_left hslt]; exact hsrc
        have hd1 : (m.pts ++ [List.replicate s.len zero])[m.pts.length]? = some (List.replicate s.len zero) := by
          simp
        have key := loopN_pts t s m.pts.length s.len 0
          { m with pts := m.pts ++ [List.replicate s.len zero] } src (List.replicate s.len zero)
          hs1 hd1 (by omega) (by simp) (by omega)
        simp only [Nat.add_zero, Nat.zero_add] at key
        refine ⟨?_, ?_⟩
        · intro qs hq
          have hl := ptsT_length t _ qs hq
          have hlen : qs.length = s.len := by
            rw [hl]; simp; omega
          refine ⟨⟨m.pts.length, 0, s.len⟩, ?_, ?_⟩
          · simp only [lineStringM, aAlloc]
            rw [key.1 qs hq]
          · simp only [lineStringM, aAlloc]
            rw [key.1 qs hq]
            simp [readArr, h0, hlen]
            exact List.take_of_length_le (by omega)
        · intro e he
          have := key.2 e he
          simp only [lineStringM, aAlloc]
          generalize loopN (ptsBody t s m.pts.length) 0 s.len
            { m with pts := m.pts ++ [List.replicate s.len zero] } = r at this
          obtain ⟨m2, res⟩ := r
          cases res with
          | error e' => simp at this; simp [this]
          | ok u => simp at this
      · simp [hle] at h

end GeomV.C10.Mem
