import GeomV.C10.MemDecode
import GeomV.C10.Lemmas
import GeomV.C10.LemmasM
/-! Refinement lemmas (C10): the memory model's point-slice loop computes what the functional model
computes (`ptsT`), on every memory in which the source window is readable. -/
set_option linter.unusedSimpArgs false
set_option linter.unusedVariables false
namespace GeomV.C10.Mem
open GeomV GeomV.C10

variable {E α : Type}

theorem take_set_succ {β : Type} (arr : List β) (i : Nat) (q : β) (h : i < arr.length) :
    (arr.set i q).take (i+1) = arr.take i ++ [q] := by
  induction arr generalizing i with
  | nil => simp at h
  | cons a as ih =>
    cases i with
    | zero => simp
    | succ i => simp at h; simp [ih i h]

theorem drop_set_gt {β : Type} (arr : List β) (i j : Nat) (q : β) (h : i < j) :
    (arr.set i q).drop j = arr.drop j := by
  induction arr generalizing i j with
  | nil => simp
  | cons a as ih =>
    cases j with
    | zero => omega
    | succ j =>
      cases i with
      | zero => simp
      | succ i => simp [ih i j (by omega)]

theorem set_self_of_getElem? {β : Type} (l : List β) (i : Nat) (a : β) (h : l[i]? = some a) : l.set i a = l := by
  induction l generalizing i with
  | nil => simp
  | cons x xs ih =>
    cases i with
    | zero => simp at h; simp [h]
    | succ i => simp at h; simp [ih i h]

theorem ptsT_length (t : TF E α) (l q : List (Pt α)) (h : ptsT t l = .ok q) : q.length = l.length := by
  induction l generalizing q with
  | nil => simp [ptsT] at h; subst h; rfl
  | cons p ps ih =>
    simp only [ptsT] at h
    cases hc : callT t p with
    | error e => simp [hc] at h
    | ok q1 =>
      simp only [hc] at h
      cases hr : ptsT t ps with
      | error e => simp [hr] at h
      | ok r => simp [hr] at h; subst h; simp [ih r hr]

theorem drop_take_succ {β : Type} (src : List β) (k n : Nat) (p : β) (h : src[k]? = some p) :
    (src.drop k).take (n+1) = p :: (src.drop (k+1)).take n := by
  have hk : k < src.length := (List.getElem?_eq_some_iff.mp h).1
  have : src.drop k = p :: src.drop (k+1) := by
    rw [List.drop_eq_getElem_cons hk]
    have := (List.getElem?_eq_some_iff.mp h).2
    simp [this]
  rw [this]; rfl

/-- the loop `for i, p := range l { p2 := t(p); l2[i] = p2 }` on memory: it fills `dst[i .. i+n)` with the
functional model's answer for the source window and touches nothing else; a failure is the functional
model's failure -/
theorem loopN_pts (t : TF E α) (s : Slice) (dst : Nat) :
    ∀ (n i : Nat) (m : Mem α) (src arr : List (Pt α)),
      m.pts[s.addr]? = some src → m.pts[dst]? = some arr → s.addr ≠ dst →
      i + n ≤ arr.length → s.off + i + n ≤ src.length →
      (∀ qs, ptsT t ((src.drop (s.off + i)).take n) = .ok qs →
        loopN (ptsBody t s dst) i n m =
          ({ m with pts := m.pts.set dst (arr.take i ++ qs ++ arr.drop (i + n)) }, .ok ())) ∧
      (∀ e, ptsT t ((src.drop (s.off + i)).take n) = .error e →
        (loopN (ptsBody t s dst) i n m).2 = .error e) := by
  intro n
  induction n with
  | zero =>
    intro i m src arr hs hd hne hi hsrc
    refine ⟨?_, ?_⟩
    · intro qs hq
      simp [ptsT] at hq; subst hq
      simp [loopN, set_self_of_getElem? _ _ _ hd]
    · intro e he; simp [ptsT] at he
  | succ n ih =>
    intro i m src arr hs hd hne hi hsrc
    have hk : s.off + i < src.length := by omega
    have hp : src[s.off + i]? = some (src[s.off + i]'hk) := List.getElem?_eq_getElem hk
    rw [drop_take_succ src (s.off + i) n _ hp]
    have hget : aGet (E := E) m.pts s.addr (s.off + i) = .ok (src[s.off + i]'hk) := by
      simp [aGet, hs, hp]
    simp only [ptsT, callT]
    cases ht : t (src[s.off + i]'hk) with
    | error e0 =>
      refine ⟨?_, ?_⟩
      · intro qs hq; simp at hq
      · intro e he
        simp at he; subst he
        simp [loopN, ptsBody, hget, ht]
    | ok q =>
      have hil : i < arr.length := by omega
      have hset : aSet (E := E) m.pts dst i q = .ok (m.pts.set dst (arr.set i q)) := by
        simp [aSet, hd, hil]
      have hbody : ptsBody t s dst i m = ({ m with pts := m.pts.set dst (arr.set i q) }, .ok ()) := by
        simp [ptsBody, hget, ht, hset]
      have hdlt : dst < m.pts.length := (List.getElem?_eq_some_iff.mp hd).1
      have hs1 : (m.pts.set dst (arr.set i q))[s.addr]? = some src := by
        rw [List.getElem?_set_ne (Ne.symm hne)]; exact hs
      have hd1 : (m.pts.set dst (arr.set i q))[dst]? = some (arr.set i q) := by
        simp [List.getElem?_set, hdlt]
      have ih' := ih (i+1) { m with pts := m.pts.set dst (arr.set i q) } src (arr.set i q) hs1 hd1 hne
        (by simp; omega) (by omega)
      have hoff : s.off + (i + 1) = s.off + i + 1 := by omega
      rw [hoff] at ih'
      refine ⟨?_, ?_⟩
      · intro qs hq
        cases hr : ptsT t ((src.drop (s.off + i + 1)).take n) with
        | error e => simp [hr] at hq
        | ok r =>
          simp [hr] at hq; subst hq
          have := ih'.1 r hr
          simp only [loopN, hbody]
          rw [this]
          simp only [List.set_set, take_set_succ arr i q hil,
            drop_set_gt arr i (i + 1 + n) q (by omega)]
          have e1 : i + 1 + n = i + (n + 1) := by omega
          simp [e1, List.append_assoc]
      · intro e he
        cases hr : ptsT t ((src.drop (s.off + i + 1)).take n) with
        | error e' =>
          simp [hr] at he; subst he
          have := ih'.2 e' hr
          simp only [loopN, hbody]
          exact this
        | ok r => simp [hr] at he

end GeomV.C10.Mem

namespace GeomV.C10.Mem
open GeomV GeomV.C10
variable {E α : Type}

/-- `LineString.Transform` / `MultiPoint.Transform` on memory refine the functional loop `ptsT`: if the
receiver's window reads as `ps`, then a success of `ptsT t ps` is a success of the method whose returned
header reads (in the memory after the call) as the same list, and a failure is the same failure. -/
theorem lineStringM_refines (zero : Pt α) (t : TF E α) (s : Slice) (m : Mem α) (ps : List (Pt α))
    (h : readArr m.pts s = some ps) :
    (∀ qs, ptsT t ps = .ok qs →
      ∃ hd, (lineStringM zero t s m).2 = .ok hd ∧ readArr (lineStringM zero t s m).1.pts hd = some qs) ∧
    (∀ e, ptsT t ps = .error e → (lineStringM zero t s m).2 = .error e) := by
  unfold readArr at h
  by_cases h0 : s.len = 0
  · simp [h0] at h; subst h
    refine ⟨?_, ?_⟩
    · intro qs hq
      simp [ptsT] at hq; subst hq
      refine ⟨⟨m.pts.length, 0, 0⟩, ?_, ?_⟩
      · simp [lineStringM, aAlloc, h0, loopN]
      · simp [readArr]
    · intro e he; simp [ptsT] at he
  · simp only [h0, if_false] at h
    cases hsrc : m.pts[s.addr]? with
    | none => simp [hsrc] at h
    | some src =>
      simp only [hsrc] at h
      by_cases hle : s.off + s.len ≤ src.length
      · simp only [hle, if_true] at h
        cases h
        have hslt : s.addr < m.pts.length := (List.getElem?_eq_some_iff.mp hsrc).1
        have hs1 : (m.pts ++ [List.replicate s.len zero])[s.addr]? = some src := by
          rw [List.getElem?_append_left hslt]; exact hsrc
        have hd1 : (m.pts ++ [List.replicate s.len zero])[m.pts.length]? = some (List.replicate s.len zero) := by
          simp
        have key := loopN_pts t s m.pts.length s.len 0
          { m with pts := m.pts ++ [List.replicate s.len zero] } src (List.replicate s.len zero)
          hs1 hd1 (by omega) (by simp) (by omega)
        simp only [Nat.add_zero, Nat.zero_add] at key
        refine ⟨?_, ?_⟩
        · intro qs hq
          have hl := ptsT_length t _ qs hq
          have hlen : qs.length = s.len := by
            rw [hl]; simp; omega
          refine ⟨⟨m.pts.length, 0, s.len⟩, ?_, ?_⟩
          · simp only [lineStringM, aAlloc]
            rw [key.1 qs hq]
          · simp only [lineStringM, aAlloc]
            rw [key.1 qs hq]
            simp [readArr, h0, hlen]
            exact List.take_of_length_le (by omega)
        · intro e he
          have := key.2 e he
          simp only [lineStringM, aAlloc]
          generalize loopN (ptsBody t s m.pts.length) 0 s.len
            { m with pts := m.pts ++ [List.replicate s.len zero] } = r at this
          obtain ⟨m2, res⟩ := r
          cases res with
          | error e' => simp at this; simp [this]
          | ok u => simp at this
      · simp [hle] at h

end GeomV.C10.Mem

/-! ## the ring level: `Polygon.Transform` (and `(*Bounds).Transform`) -/
namespace GeomV.C10.Mem
open GeomV GeomV.C10
variable {E α : Type}

theorem set_append_last {β : Type} (l : List β) (a b : β) : (l ++ [a]).set l.length b = l ++ [b] := by
  induction l with
  | nil => rfl
  | cons x xs ih => simp [ih]

/-- explicit form of a successful `LineString.Transform` on memory: one new array holding the answer -/
theorem lineStringM_success (zero : Pt α) (t : TF E α) (s : Slice) (m : Mem α) (ps qs : List (Pt α))
    (h : readArr m.pts s = some ps) (hq : ptsT t ps = .ok qs) :
    lineStringM zero t s m = ({ m with pts := m.pts ++ [qs] }, .ok ⟨m.pts.length, 0, s.len⟩) ∧ qs.length = s.len := by
  unfold readArr at h
  by_cases h0 : s.len = 0
  · simp [h0] at h; subst h
    simp [ptsT] at hq; subst hq
    simp [lineStringM, aAlloc, h0, loopN]
  · simp only [h0, if_false] at h
    cases hsrc : m.pts[s.addr]? with
    | none => simp [hsrc] at h
    | some src =>
      simp only [hsrc] at h
      by_cases hle : s.off + s.len ≤ src.length
      · simp only [hle, if_true] at h
        cases h
        have hslt : s.addr < m.pts.length := (List.getElem?_eq_some_iff.mp hsrc).1
        have hs1 : (m.pts ++ [List.replicate s.len zero])[s.addr]? = some src := by
          rw [List.getElem?_append_left hslt]; exact hsrc
        have hd1 : (m.pts ++ [List.replicate s.len zero])[m.pts.length]? = some (List.replicate s.len zero) := by
          simp
        have key := loopN_pts t s m.pts.length s.len 0
          { m with pts := m.pts ++ [List.replicate s.len zero] } src (List.replicate s.len zero)
          hs1 hd1 (by omega) (by simp) (by omega)
        simp only [Nat.add_zero, Nat.zero_add] at key
        have hl := ptsT_length t _ qs hq
        have hlen : qs.length = s.len := by rw [hl]; simp; omega
        refine ⟨?_, hlen⟩
        simp only [lineStringM, aAlloc]
        rw [key.1 qs hq]
        simp [set_append_last]
      · simp [hle] at h

theorem lineStringM_failure (zero : Pt α) (t : TF E α) (s : Slice) (m : Mem α) (ps : List (Pt α)) (e : Fail E)
    (h : readArr m.pts s = some ps) (hq : ptsT t ps = .error e) :
    (lineStringM zero t s m).2 = .error e :=
  (lineStringM_refines zero t s m ps h).2 e hq

theorem readArr_len {β : Type} (ar : List (List β)) (s : Slice) (x : List β) (h : readArr ar s = some x) :
    x.length = s.len := by
  unfold readArr at h
  by_cases h0 : s.len = 0
  · simp [h0] at h; subst h; simp [h0]
  · simp only [h0, if_false] at h
    cases ha : ar[s.addr]? with
    | none => simp [ha] at h
    | some a =>
      simp only [ha] at h
      by_cases hle : s.off + s.len ≤ a.length
      · simp [hle] at h; subst h; simp; omega
      · simp [hle] at h
theorem readArr_prefix {β : Type} (ar ar' : List (List β)) (s : Slice) (x : List β)
    (h : readArr ar s = some x) (hp : ar'.take ar.length = ar) : readArr ar' s = some x := by
  unfold readArr at *
  by_cases h0 : s.len = 0
  · simpa [h0] using h
  · simp only [h0, if_false] at h ⊢
    cases ha : ar[s.addr]? with
    | none => simp [ha] at h
    | some a =>
      have hlt : s.addr < ar.length := (List.getElem?_eq_some_iff.mp ha).1
      have : ar'[s.addr]? = some a := by
        have h2 : (ar'.take ar.length)[s.addr]? = some a := by rw [hp]; exact ha
        rw [List.getElem?_take] at h2
        simpa [hlt] using h2
      simpa [this, ha] using h

theorem mapM_readArr_prefix {β : Type} (ar ar' : List (List β)) (hs : List Slice) (xs : List (List β))
    (h : hs.mapM (readArr ar) = some xs) (hp : ar'.take ar.length = ar) : hs.mapM (readArr ar') = some xs := by
  induction hs generalizing xs with
  | nil => simpa using h
  | cons a as ih =>
    simp only [List.mapM_cons, bind, Option.bind] at h ⊢
    cases h1 : readArr ar a with
    | none => simp [h1] at h
    | some x =>
      simp only [h1] at h
      cases h2 : as.mapM (readArr ar) with
      | none => simp [h2] at h
      | some ys =>
        simp [h2] at h
        simp [readArr_prefix ar ar' a x h1 hp, ih ys h2, h]

/-- headers the outer loop of `Polygon.Transform` stores: ring `j` of the result is the whole of the `j`-th
array allocated by the call -/
def hdrs (base : Nat) : List Slice → List Slice
  | [] => []
  | r :: rest => ⟨base, 0, r.len⟩ :: hdrs (base + 1) rest

theorem ringBody_success (zero : Pt α) (t : TF E α) (s : Slice) (dst i : Nat) (m : Mem α)
    (srcH dstArr : List Slice) (r : Slice) (ps qs : List (Pt α))
    (hs : m.paths[s.addr]? = some srcH) (hr : srcH[s.off + i]? = some r) (hps : readArr m.pts r = some ps)
    (hq : ptsT t ps = .ok qs) (hd : m.paths[dst]? = some dstArr) (hi : i < dstArr.length) :
    ringBody zero t s dst i m =
      ({ m with pts := m.pts ++ [qs], paths := m.paths.set dst (dstArr.set i ⟨m.pts.length, 0, r.len⟩) }, .ok ()) := by
  have hget : aGet (E := E) m.paths s.addr (s.off + i) = .ok r := by simp [aGet, hs, hr]
  have hset : aSet (E := E) m.paths dst i ⟨m.pts.length, 0, r.len⟩ =
      .ok (m.paths.set dst (dstArr.set i ⟨m.pts.length, 0, r.len⟩)) := by simp [aSet, hd, hi]
  have key := (lineStringM_success zero t r
    { m with paths := m.paths.set dst (dstArr.set i ⟨m.pts.length, 0, r.len⟩) } ps qs hps hq).1
  simp only [lineStringM, aAlloc] at key
  simp only [ringBody, hget, aAlloc, hset]
  generalize loopN (ptsBody t r m.pts.length) 0 r.len
    { m with pts := m.pts ++ [List.replicate r.len zero],
             paths := m.paths.set dst (dstArr.set i ⟨m.pts.length, 0, r.len⟩) } = res at key ⊢
  obtain ⟨m2, rr⟩ := res
  cases rr with
  | error e => simp at key
  | ok u => simp at key; simp [key]

theorem ringBody_failure (zero : Pt α) (t : TF E α) (s : Slice) (dst i : Nat) (m : Mem α)
    (srcH dstArr : List Slice) (r : Slice) (ps : List (Pt α)) (e : Fail E)
    (hs : m.paths[s.addr]? = some srcH) (hr : srcH[s.off + i]? = some r) (hps : readArr m.pts r = some ps)
    (hq : ptsT t ps = .error e) (hd : m.paths[dst]? = some dstArr) (hi : i < dstArr.length) :
    (ringBody zero t s dst i m).2 = .error e := by
  have hget : aGet (E := E) m.paths s.addr (s.off + i) = .ok r := by simp [aGet, hs, hr]
  have hset : aSet (E := E) m.paths dst i ⟨m.pts.length, 0, r.len⟩ =
      .ok (m.paths.set dst (dstArr.set i ⟨m.pts.length, 0, r.len⟩)) := by simp [aSet, hd, hi]
  have key := lineStringM_failure zero t r
    { m with paths := m.paths.set dst (dstArr.set i ⟨m.pts.length, 0, r.len⟩) } ps e hps hq
  simp only [lineStringM, aAlloc] at key
  simp only [ringBody, hget, aAlloc, hset]
  generalize loopN (ptsBody t r m.pts.length) 0 r.len
    { m with pts := m.pts ++ [List.replicate r.len zero],
             paths := m.paths.set dst (dstArr.set i ⟨m.pts.length, 0, r.len⟩) } = res at key ⊢
  obtain ⟨m2, rr⟩ := res
  cases rr with
  | error e' => simp at key; simp [key]
  | ok u => simp at key

/-- the loop `for i := range x { y[i] = header of a new array holding t(x[i]) }`, for any body that behaves
like one iteration of the outer loop of `Polygon.Transform` or of the loop of `MultiLineString.Transform` -/
theorem loopN_hdrLoop (t : TF E α) (s : Slice) (dst : Nat) (body : Nat → M E α Unit)
    (hS : ∀ (i : Nat) (m : Mem α) (srcH dstArr : List Slice) (r : Slice) (ps qs : List (Pt α)),
      m.paths[s.addr]? = some srcH → srcH[s.off + i]? = some r → readArr m.pts r = some ps →
      ptsT t ps = .ok qs → m.paths[dst]? = some dstArr → i < dstArr.length →
      body i m = ({ m with pts := m.pts ++ [qs],
                           paths := m.paths.set dst (dstArr.set i ⟨m.pts.length, 0, r.len⟩) }, .ok ()))
    (hF : ∀ (i : Nat) (m : Mem α) (srcH dstArr : List Slice) (r : Slice) (ps : List (Pt α)) (e : Fail E),
      m.paths[s.addr]? = some srcH → srcH[s.off + i]? = some r → readArr m.pts r = some ps →
      ptsT t ps = .error e → m.paths[dst]? = some dstArr → i < dstArr.length →
      (body i m).2 = .error e) :
    ∀ (n i : Nat) (m : Mem α) (srcH dstArr : List Slice) (rs : List (List (Pt α))),
      m.paths[s.addr]? = some srcH → m.paths[dst]? = some dstArr → s.addr ≠ dst →
      i + n ≤ dstArr.length → s.off + i + n ≤ srcH.length →
      ((srcH.drop (s.off + i)).take n).mapM (readArr m.pts) = some rs →
      (∀ qss, ringsT t rs = .ok qss →
        loopN body i n m =
          ({ m with pts := m.pts ++ qss,
                    paths := m.paths.set dst (dstArr.take i ++ hdrs m.pts.length ((srcH.drop (s.off + i)).take n)
                      ++ dstArr.drop (i + n)) }, .ok ())) ∧
      (∀ e, ringsT t rs = .error e → (loopN body i n m).2 = .error e) := by
  intro n
  induction n with
  | zero =>
    intro i m srcH dstArr rs hs hd hne hi hsrc hrs
    simp at hrs; subst hrs
    refine ⟨?_, ?_⟩
    · intro qss hq
      simp [ringsT] at hq; subst hq
      simp [loopN, hdrs, set_self_of_getElem? _ _ _ hd]
    · intro e he; simp [ringsT] at he
  | succ n ih =>
    intro i m srcH dstArr rs hs hd hne hi hsrc hrs
    have hk : s.off + i < srcH.length := by omega
    have hp : srcH[s.off + i]? = some (srcH[s.off + i]'hk) := List.getElem?_eq_getElem hk
    rw [drop_take_succ srcH (s.off + i) n _ hp] at hrs ⊢
    generalize hrdef : srcH[s.off + i]'hk = r at hp hrs ⊢
    simp only [List.mapM_cons, bind, Option.bind] at hrs
    cases hps : readArr m.pts r with
    | none => simp [hps] at hrs
    | some ps =>
      simp only [hps] at hrs
      cases hrest : ((srcH.drop (s.off + i + 1)).take n).mapM (readArr m.pts) with
      | none => simp [hrest] at hrs
      | some rs' =>
        simp [hrest] at hrs; subst hrs
        have hil : i < dstArr.length := by omega
        simp only [ringsT]
        cases hq : ptsT t ps with
        | error e0 =>
          refine ⟨fun qss h => by simp at h, ?_⟩
          intro e he
          simp at he; subst he
          have hb := hF i m srcH dstArr r ps e0 hs hp hps hq hd hil
          unfold loopN
          generalize body i m = res at hb ⊢
          obtain ⟨m', rr⟩ := res
          cases rr with
          | error e' => simp at hb; simp [hb]
          | ok u => simp at hb
        | ok qs =>
          have hb := hS i m srcH dstArr r ps qs hs hp hps hq hd hil
          have hdlt : dst < m.paths.length := (List.getElem?_eq_some_iff.mp hd).1
          have hs1 : (m.paths.set dst (dstArr.set i ⟨m.pts.length, 0, r.len⟩))[s.addr]? = some srcH := by
            rw [List.getElem?_set_ne (Ne.symm hne)]; exact hs
          have hd1 : (m.paths.set dst (dstArr.set i ⟨m.pts.length, 0, r.len⟩))[dst]? =
              some (dstArr.set i ⟨m.pts.length, 0, r.len⟩) := by
            simp [List.getElem?_set, hdlt]
          have hrest1 : ((srcH.drop (s.off + (i + 1))).take n).mapM (readArr (m.pts ++ [qs])) = some rs' := by
            have e : s.off + (i + 1) = s.off + i + 1 := by omega
            rw [e]
            exact mapM_readArr_prefix m.pts (m.pts ++ [qs]) _ rs' hrest (by simp)
          have ih' := ih (i + 1)
            { m with pts := m.pts ++ [qs], paths := m.paths.set dst (dstArr.set i ⟨m.pts.length, 0, r.len⟩) }
            srcH (dstArr.set i ⟨m.pts.length, 0, r.len⟩) rs' hs1 hd1 hne (by simp; omega) (by omega) hrest1
          have hoff : s.off + (i + 1) = s.off + i + 1 := by omega
          rw [hoff] at ih'
          refine ⟨?_, ?_⟩
          · intro qss hqq
            cases hr2 : ringsT t rs' with
            | error e => simp [hr2] at hqq
            | ok qss' =>
              simp [hr2] at hqq; subst hqq
              have := ih'.1 qss' hr2
              simp only [loopN, hb]
              rw [this]
              simp only [List.set_set, take_set_succ dstArr i _ hil,
                drop_set_gt dstArr i (i + 1 + n) _ (by omega), hdrs, List.length_append, List.length_cons,
                List.length_nil]
              have e1 : i + 1 + n = i + (n + 1) := by omega
              simp [e1, List.append_assoc]
          · intro e he
            cases hr2 : ringsT t rs' with
            | error e' =>
              simp [hr2] at he; subst he
              have := ih'.2 e' hr2
              simp only [loopN, hb]
              exact this
            | ok r2 => simp [hr2] at he

theorem loopN_rings (zero : Pt α) (t : TF E α) (s : Slice) (dst : Nat) :
    ∀ (n i : Nat) (m : Mem α) (srcH dstArr : List Slice) (rs : List (List (Pt α))),
      m.paths[s.addr]? = some srcH → m.paths[dst]? = some dstArr → s.addr ≠ dst →
      i + n ≤ dstArr.length → s.off + i + n ≤ srcH.length →
      ((srcH.drop (s.off + i)).take n).mapM (readArr m.pts) = some rs →
      (∀ qss, ringsT t rs = .ok qss →
        loopN (ringBody zero t s dst) i n m =
          ({ m with pts := m.pts ++ qss,
                    paths := m.paths.set dst (dstArr.take i ++ hdrs m.pts.length ((srcH.drop (s.off + i)).take n)
                      ++ dstArr.drop (i + n)) }, .ok ())) ∧
      (∀ e, ringsT t rs = .error e → (loopN (ringBody zero t s dst) i n m).2 = .error e) :=
  loopN_hdrLoop t s dst (ringBody zero t s dst)
    (fun i m srcH dstArr r ps qs a b c d e f => ringBody_success zero t s dst i m srcH dstArr r ps qs a b c d e f)
    (fun i m srcH dstArr r ps e' a b c d e f => ringBody_failure zero t s dst i m srcH dstArr r ps e' a b c d e f)

theorem hdrs_length (base : Nat) (hs : List Slice) : (hdrs base hs).length = hs.length := by
  induction hs generalizing base with
  | nil => rfl
  | cons h t ih => simp [hdrs, ih]

/-- the headers stored by the outer loop read, in the memory after the call, as the functional answer -/
theorem hdrs_read {β : Type} (t : TF E α) (ar : List (List (Pt α))) :
    ∀ (hs : List Slice) (rs qss pre : List (List (Pt α))),
      hs.mapM (readArr ar) = some rs → ringsT t rs = .ok qss →
      (hdrs pre.length hs).mapM (readArr (pre ++ qss)) = some qss := by
  intro hs
  induction hs with
  | nil =>
    intro rs qss pre h1 h2
    simp at h1; subst h1
    simp [ringsT] at h2; subst h2
    simp [hdrs]
  | cons h hs' ih =>
    intro rs qss pre h1 h2
    simp only [List.mapM_cons, bind, Option.bind] at h1
    cases hx : readArr ar h with
    | none => simp [hx] at h1
    | some x =>
      simp only [hx] at h1
      cases hr : hs'.mapM (readArr ar) with
      | none => simp [hr] at h1
      | some rs' =>
        simp [hr] at h1; subst h1
        simp only [ringsT] at h2
        cases hq : ptsT t x with
        | error e => simp [hq] at h2
        | ok q =>
          simp only [hq] at h2
          cases hq2 : ringsT t rs' with
          | error e => simp [hq2] at h2
          | ok qss' =>
            simp [hq2] at h2; subst h2
            have hxl := readArr_len ar h x hx
            have hql : q.length = h.len := by rw [ptsT_length t x q hq, hxl]
            have ih' := ih rs' qss' (pre ++ [q]) hr hq2
            simp only [List.length_append, List.length_cons, List.length_nil, Nat.zero_add,
              List.append_assoc, List.singleton_append] at ih'
            have hhead : readArr (pre ++ q :: qss') ⟨pre.length, 0, h.len⟩ = some q := by
              unfold readArr
              by_cases h0 : h.len = 0
              · have : q = [] := List.eq_nil_of_length_eq_zero (by omega)
                simp [h0, this]
              · simp [h0, hql]
                exact List.take_of_length_le (by omega)
            simp only [hdrs, List.mapM_cons, bind, Option.bind, hhead, ih']
            rfl

theorem polygonM_success (zero : Pt α) (t : TF E α) (s : Slice) (m : Mem α) (hs : List Slice)
    (rs qss : List (List (Pt α)))
    (h1 : readArr m.paths s = some hs) (h2 : hs.mapM (readArr m.pts) = some rs) (hq : ringsT t rs = .ok qss) :
    polygonM zero t s m =
      ({ m with pts := m.pts ++ qss, paths := m.paths ++ [hdrs m.pts.length hs] }, .ok ⟨m.paths.length, 0, s.len⟩) := by
  unfold readArr at h1
  by_cases h0 : s.len = 0
  · simp [h0] at h1; subst h1
    simp at h2; subst h2
    simp [ringsT] at hq; subst hq
    simp [polygonM, aAlloc, h0, loopN, hdrs]
  · simp only [h0, if_false] at h1
    cases hsrc : m.paths[s.addr]? with
    | none => simp [hsrc] at h1
    | some srcH =>
      simp only [hsrc] at h1
      by_cases hle : s.off + s.len ≤ srcH.length
      · simp only [hle, if_true] at h1
        cases h1
        have hslt : s.addr < m.paths.length := (List.getElem?_eq_some_iff.mp hsrc).1
        have hs1 : (m.paths ++ [List.replicate s.len zeroSlice])[s.addr]? = some srcH := by
          rw [List.getElem?_append_left hslt]; exact hsrc
        have hd1 : (m.paths ++ [List.replicate s.len zeroSlice])[m.paths.length]? =
            some (List.replicate s.len zeroSlice) := by simp
        have key := loopN_rings zero t s m.paths.length s.len 0
          { m with paths := m.paths ++ [List.replicate s.len zeroSlice] } srcH (List.replicate s.len zeroSlice) rs
          hs1 hd1 (by omega) (by simp) (by omega) (by simpa using h2)
        simp only [Nat.add_zero, Nat.zero_add] at key
        simp only [polygonM, aAlloc]
        rw [key.1 qss hq]
        simp [set_append_last]
      · simp [hle] at h1

theorem polygonM_failure (zero : Pt α) (t : TF E α) (s : Slice) (m : Mem α) (hs : List Slice)
    (rs : List (List (Pt α))) (e : Fail E)
    (h1 : readArr m.paths s = some hs) (h2 : hs.mapM (readArr m.pts) = some rs) (hq : ringsT t rs = .error e) :
    (polygonM zero t s m).2 = .error e := by
  unfold readArr at h1
  by_cases h0 : s.len = 0
  · simp [h0] at h1; subst h1
    simp at h2; subst h2
    simp [ringsT] at hq
  · simp only [h0, if_false] at h1
    cases hsrc : m.paths[s.addr]? with
    | none => simp [hsrc] at h1
    | some srcH =>
      simp only [hsrc] at h1
      by_cases hle : s.off + s.len ≤ srcH.length
      · simp only [hle, if_true] at h1
        cases h1
        have hslt : s.addr < m.paths.length := (List.getElem?_eq_some_iff.mp hsrc).1
        have hs1 : (m.paths ++ [List.replicate s.len zeroSlice])[s.addr]? = some srcH := by
          rw [List.getElem?_append_left hslt]; exact hsrc
        have hd1 : (m.paths ++ [List.replicate s.len zeroSlice])[m.paths.length]? =
            some (List.replicate s.len zeroSlice) := by simp
        have key := loopN_rings zero t s m.paths.length s.len 0
          { m with paths := m.paths ++ [List.replicate s.len zeroSlice] } srcH (List.replicate s.len zeroSlice) rs
          hs1 hd1 (by omega) (by simp) (by omega) (by simpa using h2)
        simp only [Nat.add_zero, Nat.zero_add] at key
        have := key.2 e hq
        simp only [polygonM, aAlloc]
        generalize loopN (ringBody zero t s m.paths.length) 0 s.len
          { m with paths := m.paths ++ [List.replicate s.len zeroSlice] } = res at this ⊢
        obtain ⟨m2, rr⟩ := res
        cases rr with
        | error e' => simp at this; simp [this]
        | ok u => simp at this
      · simp [hle] at h1

/-- a successful `Polygon.Transform` on memory returns a header that reads, in the memory after the call, as
the functional model's rings -/
theorem polygonM_decodes (zero : Pt α) (t : TF E α) (s : Slice) (m : Mem α) (hs : List Slice)
    (rs qss : List (List (Pt α)))
    (h1 : readArr m.paths s = some hs) (h2 : hs.mapM (readArr m.pts) = some rs) (hq : ringsT t rs = .ok qss) :
    ∃ hd hs', (polygonM zero t s m).2 = .ok hd ∧ readArr (polygonM zero t s m).1.paths hd = some hs' ∧
      hs'.mapM (readArr (polygonM zero t s m).1.pts) = some qss := by
  rw [polygonM_success zero t s m hs rs qss h1 h2 hq]
  refine ⟨_, hdrs m.pts.length hs, rfl, ?_, ?_⟩
  · have hl : hs.length = s.len := readArr_len _ _ _ h1
    unfold readArr
    by_cases h0 : s.len = 0
    · have : hs = [] := List.eq_nil_of_length_eq_zero (by omega)
      simp [h0, this, hdrs]
    · simp [h0, hdrs_length, hl]
      exact List.take_of_length_le (by simp [hdrs_length, hl])
  · exact hdrs_read (β := Nat) t m.pts hs rs qss m.pts h2 hq


/-! ## `MultiLineString.Transform`: same loop shape (the header is stored after the line is filled) -/

theorem mlsBody_success (zero : Pt α) (t : TF E α) (s : Slice) (dst i : Nat) (m : Mem α)
    (srcH dstArr : List Slice) (r : Slice) (ps qs : List (Pt α))
    (hs : m.paths[s.addr]? = some srcH) (hr : srcH[s.off + i]? = some r) (hps : readArr m.pts r = some ps)
    (hq : ptsT t ps = .ok qs) (hd : m.paths[dst]? = some dstArr) (hi : i < dstArr.length) :
    mlsBody zero t s dst i m =
      ({ m with pts := m.pts ++ [qs], paths := m.paths.set dst (dstArr.set i ⟨m.pts.length, 0, r.len⟩) }, .ok ()) := by
  have hget : aGet (E := E) m.paths s.addr (s.off + i) = .ok r := by simp [aGet, hs, hr]
  have hset : aSet (E := E) m.paths dst i ⟨m.pts.length, 0, r.len⟩ =
      .ok (m.paths.set dst (dstArr.set i ⟨m.pts.length, 0, r.len⟩)) := by simp [aSet, hd, hi]
  have key := (lineStringM_success zero t r m ps qs hps hq).1
  simp [mlsBody, hget, key, hset]

theorem mlsBody_failure (zero : Pt α) (t : TF E α) (s : Slice) (dst i : Nat) (m : Mem α)
    (srcH dstArr : List Slice) (r : Slice) (ps : List (Pt α)) (e : Fail E)
    (hs : m.paths[s.addr]? = some srcH) (hr : srcH[s.off + i]? = some r) (hps : readArr m.pts r = some ps)
    (hq : ptsT t ps = .error e) (hd : m.paths[dst]? = some dstArr) (hi : i < dstArr.length) :
    (mlsBody zero t s dst i m).2 = .error e := by
  have hget : aGet (E := E) m.paths s.addr (s.off + i) = .ok r := by simp [aGet, hs, hr]
  have key := lineStringM_failure zero t r m ps e hps hq
  simp only [mlsBody, hget]
  generalize lineStringM zero t r m = res at key ⊢
  obtain ⟨m2, rr⟩ := res
  cases rr with
  | error e' => simp at key; simp [key]
  | ok u => simp at key

theorem loopN_lines (zero : Pt α) (t : TF E α) (s : Slice) (dst : Nat) :
    ∀ (n i : Nat) (m : Mem α) (srcH dstArr : List Slice) (rs : List (List (Pt α))),
      m.paths[s.addr]? = some srcH → m.paths[dst]? = some dstArr → s.addr ≠ dst →
      i + n ≤ dstArr.length → s.off + i + n ≤ srcH.length →
      ((srcH.drop (s.off + i)).take n).mapM (readArr m.pts) = some rs →
      (∀ qss, ringsT t rs = .ok qss →
        loopN (mlsBody zero t s dst) i n m =
          ({ m with pts := m.pts ++ qss,
                    paths := m.paths.set dst (dstArr.take i ++ hdrs m.pts.length ((srcH.drop (s.off + i)).take n)
                      ++ dstArr.drop (i + n)) }, .ok ())) ∧
      (∀ e, ringsT t rs = .error e → (loopN (mlsBody zero t s dst) i n m).2 = .error e) :=
  loopN_hdrLoop t s dst (mlsBody zero t s dst)
    (fun i m srcH dstArr r ps qs a b c d e f => mlsBody_success zero t s dst i m srcH dstArr r ps qs a b c d e f)
    (fun i m srcH dstArr r ps e' a b c d e f => mlsBody_failure zero t s dst i m srcH dstArr r ps e' a b c d e f)

theorem multiLineM_success (zero : Pt α) (t : TF E α) (s : Slice) (m : Mem α) (hs : List Slice)
    (rs qss : List (List (Pt α)))
    (h1 : readArr m.paths s = some hs) (h2 : hs.mapM (readArr m.pts) = some rs) (hq : ringsT t rs = .ok qss) :
    multiLineM zero t s m =
      ({ m with pts := m.pts ++ qss, paths := m.paths ++ [hdrs m.pts.length hs] }, .ok ⟨m.paths.length, 0, s.len⟩) := by
  unfold readArr at h1
  by_cases h0 : s.len = 0
  · simp [h0] at h1; subst h1
    simp at h2; subst h2
    simp [ringsT] at hq; subst hq
    simp [multiLineM, aAlloc, h0, loopN, hdrs]
  · simp only [h0, if_false] at h1
    cases hsrc : m.paths[s.addr]? with
    | none => simp [hsrc] at h1
    | some srcH =>
      simp only [hsrc] at h1
      by_cases hle : s.off + s.len ≤ srcH.length
      · simp only [hle, if_true] at h1
        cases h1
        have hslt : s.addr < m.paths.length := (List.getElem?_eq_some_iff.mp hsrc).1
        have hs1 : (m.paths ++ [List.replicate s.len zeroSlice])[s.addr]? = some srcH := by
          rw [List.getElem?_append_left hslt]; exact hsrc
        have hd1 : (m.paths ++ [List.replicate s.len zeroSlice])[m.paths.length]? =
            some (List.replicate s.len zeroSlice) := by simp
        have key := loopN_lines zero t s m.paths.length s.len 0
          { m with paths := m.paths ++ [List.replicate s.len zeroSlice] } srcH (List.replicate s.len zeroSlice) rs
          hs1 hd1 (by omega) (by simp) (by omega) (by simpa using h2)
        simp only [Nat.add_zero, Nat.zero_add] at key
        simp only [multiLineM, aAlloc]
        rw [key.1 qss hq]
        simp [set_append_last]
      · simp [hle] at h1

theorem multiLineM_failure (zero : Pt α) (t : TF E α) (s : Slice) (m : Mem α) (hs : List Slice)
    (rs : List (List (Pt α))) (e : Fail E)
    (h1 : readArr m.paths s = some hs) (h2 : hs.mapM (readArr m.pts) = some rs) (hq : ringsT t rs = .error e) :
    (multiLineM zero t s m).2 = .error e := by
  unfold readArr at h1
  by_cases h0 : s.len = 0
  · simp [h0] at h1; subst h1
    simp at h2; subst h2
    simp [ringsT] at hq
  · simp only [h0, if_false] at h1
    cases hsrc : m.paths[s.addr]? with
    | none => simp [hsrc] at h1
    | some srcH =>
      simp only [hsrc] at h1
      by_cases hle : s.off + s.len ≤ srcH.length
      · simp only [hle, if_true] at h1
        cases h1
        have hslt : s.addr < m.paths.length := (List.getElem?_eq_some_iff.mp hsrc).1
        have hs1 : (m.paths ++ [List.replicate s.len zeroSlice])[s.addr]? = some srcH := by
          rw [List.getElem?_append_left hslt]; exact hsrc
        have hd1 : (m.paths ++ [List.replicate s.len zeroSlice])[m.paths.length]? =
            some (List.replicate s.len zeroSlice) := by simp
        have key := loopN_lines zero t s m.paths.length s.len 0
          { m with paths := m.paths ++ [List.replicate s.len zeroSlice] } srcH (List.replicate s.len zeroSlice) rs
          hs1 hd1 (by omega) (by simp) (by omega) (by simpa using h2)
        simp only [Nat.add_zero, Nat.zero_add] at key
        have := key.2 e hq
        simp only [multiLineM, aAlloc]
        generalize loopN (mlsBody zero t s m.paths.length) 0 s.len
          { m with paths := m.paths ++ [List.replicate s.len zeroSlice] } = res at this ⊢
        obtain ⟨m2, rr⟩ := res
        cases rr with
        | error e' => simp at this; simp [this]
        | ok u => simp at this
      · simp [hle] at h1

/-- a successful `MultiLineString.Transform` on memory returns a header that reads, in the memory after the call, as
the functional model's rings -/
theorem multiLineM_decodes (zero : Pt α) (t : TF E α) (s : Slice) (m : Mem α) (hs : List Slice)
    (rs qss : List (List (Pt α)))
    (h1 : readArr m.paths s = some hs) (h2 : hs.mapM (readArr m.pts) = some rs) (hq : ringsT t rs = .ok qss) :
    ∃ hd hs', (multiLineM zero t s m).2 = .ok hd ∧ readArr (multiLineM zero t s m).1.paths hd = some hs' ∧
      hs'.mapM (readArr (multiLineM zero t s m).1.pts) = some qss := by
  rw [multiLineM_success zero t s m hs rs qss h1 h2 hq]
  refine ⟨_, hdrs m.pts.length hs, rfl, ?_, ?_⟩
  · have hl : hs.length = s.len := readArr_len _ _ _ h1
    unfold readArr
    by_cases h0 : s.len = 0
    · have : hs = [] := List.eq_nil_of_length_eq_zero (by omega)
      simp [h0, this, hdrs]
    · simp [h0, hdrs_length, hl]
      exact List.take_of_length_le (by simp [hdrs_length, hl])
  · exact hdrs_read (β := Nat) t m.pts hs rs qss m.pts h2 hq


end GeomV.C10.Mem

/-! ## the polygon level: `MultiPolygon.Transform` -/
namespace GeomV.C10.Mem
open GeomV GeomV.C10
variable {E α : Type}

/-- a polygon header read through both levels -/
def decodePoly (pts : List (List (Pt α))) (paths : List (List Slice)) (p : Slice) : Option (List (List (Pt α))) :=
  match readArr paths p with
  | some hs => hs.mapM (readArr pts)
  | none => none

theorem decodePoly_prefix (pts pts' : List (List (Pt α))) (paths paths' : List (List Slice)) (p : Slice)
    (x : List (List (Pt α))) (h : decodePoly pts paths p = some x)
    (h1 : pts'.take pts.length = pts) (h2 : paths'.take paths.length = paths) :
    decodePoly pts' paths' p = some x := by
  unfold decodePoly at *
  cases hr : readArr paths p with
  | none => simp [hr] at h
  | some hs =>
    simp only [hr] at h
    simp only [readArr_prefix paths paths' p hs hr h2]
    exact mapM_readArr_prefix pts pts' hs x h h1

theorem mapM_decodePoly_prefix (pts pts' : List (List (Pt α))) (paths paths' : List (List Slice))
    (ps : List Slice) (xs : List (List (List (Pt α))))
    (h : ps.mapM (decodePoly pts paths) = some xs)
    (h1 : pts'.take pts.length = pts) (h2 : paths'.take paths.length = paths) :
    ps.mapM (decodePoly pts' paths') = some xs := by
  induction ps generalizing xs with
  | nil => simpa using h
  | cons a as ih =>
    simp only [List.mapM_cons, bind, Option.bind] at h ⊢
    cases ha : decodePoly pts paths a with
    | none => simp [ha] at h
    | some x =>
      simp only [ha] at h
      cases h3 : as.mapM (decodePoly pts paths) with
      | none => simp [h3] at h
      | some ys =>
        simp [h3] at h
        simp [decodePoly_prefix pts pts' paths paths' a x ha h1 h2, ih ys h3, h]

theorem take_prefix_trans {β : Type} (l0 l1 l' : List β) (h1 : l'.take l1.length = l1) (h0 : l1.take l0.length = l0) :
    l'.take l0.length = l0 := by
  have hle : l0.length ≤ l1.length := by
    have := congrArg List.length h0; simp at this; omega
  calc l'.take l0.length = (l'.take l1.length).take l0.length := by
        rw [List.take_take, Nat.min_eq_left hle]
    _ = l0 := by rw [h1, h0]

/-- explicit: what the header returned by a successful `polygonM` reads as -/
theorem polygon_hdr_decodes (t : TF E α) (s : Slice) (m : Mem α) (hs : List Slice)
    (rs qss : List (List (Pt α)))
    (h1 : readArr m.paths s = some hs) (h2 : hs.mapM (readArr m.pts) = some rs) (hq : ringsT t rs = .ok qss) :
    decodePoly (m.pts ++ qss) (m.paths ++ [hdrs m.pts.length hs]) ⟨m.paths.length, 0, s.len⟩ = some qss := by
  have hl : hs.length = s.len := readArr_len _ _ _ h1
  have hr : readArr (m.paths ++ [hdrs m.pts.length hs]) ⟨m.paths.length, 0, s.len⟩ = some (hdrs m.pts.length hs) := by
    unfold readArr
    by_cases h0 : s.len = 0
    · have : hs = [] := List.eq_nil_of_length_eq_zero (by omega)
      simp [h0, this, hdrs]
    · simp [h0, hdrs_length, hl]
      exact List.take_of_length_le (by simp [hdrs_length, hl])
  unfold decodePoly
  rw [hr]
  exact hdrs_read (β := Nat) t m.pts hs rs qss m.pts h2 hq

theorem mpgBody_success (zero : Pt α) (t : TF E α) (s : Slice) (dst i : Nat) (m : Mem α)
    (srcP dstArr : List Slice) (p : Slice) (hs : List Slice) (rs qss : List (List (Pt α)))
    (hsp : m.polys[s.addr]? = some srcP) (hp : srcP[s.off + i]? = some p)
    (h1 : readArr m.paths p = some hs) (h2 : hs.mapM (readArr m.pts) = some rs)
    (hq : ringsT t rs = .ok qss) (hd : m.polys[dst]? = some dstArr) (hi : i < dstArr.length) :
    mpgBody zero t s dst i m =
      ({ m with pts := m.pts ++ qss, paths := m.paths ++ [hdrs m.pts.length hs],
                polys := m.polys.set dst (dstArr.set i ⟨m.paths.length, 0, p.len⟩) }, .ok ()) := by
  have hget : aGet (E := E) m.polys s.addr (s.off + i) = .ok p := by simp [aGet, hsp, hp]
  have hset : aSet (E := E) m.polys dst i ⟨m.paths.length, 0, p.len⟩ =
      .ok (m.polys.set dst (dstArr.set i ⟨m.paths.length, 0, p.len⟩)) := by simp [aSet, hd, hi]
  have key := polygonM_success zero t p m hs rs qss h1 h2 hq
  simp [mpgBody, hget, key, hset]

theorem mpgBody_failure (zero : Pt α) (t : TF E α) (s : Slice) (dst i : Nat) (m : Mem α)
    (srcP : List Slice) (p : Slice) (hs : List Slice) (rs : List (List (Pt α))) (e : Fail E)
    (hsp : m.polys[s.addr]? = some srcP) (hp : srcP[s.off + i]? = some p)
    (h1 : readArr m.paths p = some hs) (h2 : hs.mapM (readArr m.pts) = some rs)
    (hq : ringsT t rs = .error e) :
    (mpgBody zero t s dst i m).2 = .error e := by
  have hget : aGet (E := E) m.polys s.addr (s.off + i) = .ok p := by simp [aGet, hsp, hp]
  have key := polygonM_failure zero t p m hs rs e h1 h2 hq
  simp only [mpgBody, hget]
  generalize polygonM zero t p m = res at key ⊢
  obtain ⟨m2, rr⟩ := res
  cases rr with
  | error e' => simp at key; simp [key]
  | ok u => simp at key

/-- the functional loop of `MultiPolygon.Transform`, one step -/
theorem multiPolyLoop_cons (t : TF E α) (p : List (List (Pt α))) (ps : List (List (List (Pt α)))) :
    multiPolyLoop t (p :: ps) =
      match ringsT t p with
      | .error e => .error e
      | .ok q =>
        match multiPolyLoop t ps with
        | .error e => .error e
        | .ok r => .ok (q :: r) := by
  simp only [multiPolyLoop, polygonT]
  cases ringsT t p with
  | error e => rfl
  | ok q => simp [asPoly]; rfl

theorem decodePoly_some (pts : List (List (Pt α))) (paths : List (List Slice)) (p : Slice) (x : List (List (Pt α)))
    (h : decodePoly pts paths p = some x) : ∃ hs, readArr paths p = some hs ∧ hs.mapM (readArr pts) = some x := by
  unfold decodePoly at h
  cases hr : readArr paths p with
  | none => simp [hr] at h
  | some hs => exact ⟨hs, rfl, by simpa [hr] using h⟩

theorem loopN_polys (zero : Pt α) (t : TF E α) (s : Slice) (dst : Nat) :
    ∀ (n i : Nat) (m : Mem α) (srcP dstArr : List Slice) (pss : List (List (List (Pt α)))),
      m.polys[s.addr]? = some srcP → m.polys[dst]? = some dstArr → s.addr ≠ dst →
      i + n ≤ dstArr.length → s.off + i + n ≤ srcP.length →
      ((srcP.drop (s.off + i)).take n).mapM (decodePoly m.pts m.paths) = some pss →
      (∀ qsss, multiPolyLoop t pss = .ok qsss →
        ∃ (m' : Mem α) (newH : List Slice),
          loopN (mpgBody zero t s dst) i n m = (m', .ok ()) ∧
          m'.polys = m.polys.set dst (dstArr.take i ++ newH ++ dstArr.drop (i + n)) ∧
          newH.length = n ∧
          newH.mapM (decodePoly m'.pts m'.paths) = some qsss ∧
          m'.pts.take m.pts.length = m.pts ∧ m'.paths.take m.paths.length = m.paths) ∧
      (∀ e, multiPolyLoop t pss = .error e → (loopN (mpgBody zero t s dst) i n m).2 = .error e) := by
  intro n
  induction n with
  | zero =>
    intro i m srcP dstArr pss hs hd hne hi hsrc hps
    simp at hps; subst hps
    refine ⟨?_, ?_⟩
    · intro qsss hq
      simp [multiPolyLoop] at hq; subst hq
      refine ⟨m, [], by simp [loopN], ?_, rfl, by simp, by simp, by simp⟩
      simp [set_self_of_getElem? _ _ _ hd]
    · intro e he; simp [multiPolyLoop] at he
  | succ n ih =>
    intro i m srcP dstArr pss hs hd hne hi hsrc hps
    have hk : s.off + i < srcP.length := by omega
    have hp : srcP[s.off + i]? = some (srcP[s.off + i]'hk) := List.getElem?_eq_getElem hk
    rw [drop_take_succ srcP (s.off + i) n _ hp] at hps
    generalize hpdef : srcP[s.off + i]'hk = p at hp hps
    simp only [List.mapM_cons, bind, Option.bind] at hps
    cases hdp : decodePoly m.pts m.paths p with
    | none => simp [hdp] at hps
    | some rs =>
      simp only [hdp] at hps
      cases hrest : ((srcP.drop (s.off + i + 1)).take n).mapM (decodePoly m.pts m.paths) with
      | none => simp [hrest] at hps
      | some pss' =>
        simp [hrest] at hps; subst hps
        obtain ⟨hsl, h1, h2⟩ := decodePoly_some m.pts m.paths p rs hdp
        have hil : i < dstArr.length := by omega
        rw [multiPolyLoop_cons]
        cases hq : ringsT t rs with
        | error e0 =>
          refine ⟨fun qsss h => by simp at h, ?_⟩
          intro e he
          simp at he; subst he
          have hb := mpgBody_failure zero t s dst i m srcP p hsl rs e0 hs hp h1 h2 hq
          unfold loopN
          generalize mpgBody zero t s dst i m = res at hb ⊢
          obtain ⟨m', rr⟩ := res
          cases rr with
          | error e' => simp at hb; simp [hb]
          | ok u => simp at hb
        | ok qss =>
          have hb := mpgBody_success zero t s dst i m srcP dstArr p hsl rs qss hs hp h1 h2 hq hd hil
          have hdlt : dst < m.polys.length := (List.getElem?_eq_some_iff.mp hd).1
          have hs1 : (m.polys.set dst (dstArr.set i ⟨m.paths.length, 0, p.len⟩))[s.addr]? = some srcP := by
            rw [List.getElem?_set_ne (Ne.symm hne)]; exact hs
          have hd1 : (m.polys.set dst (dstArr.set i ⟨m.paths.length, 0, p.len⟩))[dst]? =
              some (dstArr.set i ⟨m.paths.length, 0, p.len⟩) := by
            simp [List.getElem?_set, hdlt]
          have hrest1 : ((srcP.drop (s.off + (i + 1))).take n).mapM
              (decodePoly (m.pts ++ qss) (m.paths ++ [hdrs m.pts.length hsl])) = some pss' := by
            have e : s.off + (i + 1) = s.off + i + 1 := by omega
            rw [e]
            exact mapM_decodePoly_prefix m.pts (m.pts ++ qss) m.paths (m.paths ++ [hdrs m.pts.length hsl]) _ pss'
              hrest (by simp) (by simp)
          have ih' := ih (i + 1)
            { m with pts := m.pts ++ qss, paths := m.paths ++ [hdrs m.pts.length hsl],
                     polys := m.polys.set dst (dstArr.set i ⟨m.paths.length, 0, p.len⟩) }
            srcP (dstArr.set i ⟨m.paths.length, 0, p.len⟩) pss' hs1 hd1 hne (by simp; omega) (by omega) hrest1
          refine ⟨?_, ?_⟩
          · intro qsss hqq
            cases hr2 : multiPolyLoop t pss' with
            | error e => simp [hr2] at hqq
            | ok qsss' =>
              simp [hr2] at hqq; subst hqq
              obtain ⟨m', newH, hl, hpolys, hlen, hdec, hpts, hpaths⟩ := ih'.1 qsss' hr2
              simp only at hpolys hpts hpaths
              refine ⟨m', ⟨m.paths.length, 0, p.len⟩ :: newH, ?_, ?_, by simp [hlen], ?_, ?_, ?_⟩
              · simp only [loopN, hb]; exact hl
              · rw [hpolys]
                simp only [List.set_set, take_set_succ dstArr i _ hil,
                  drop_set_gt dstArr i (i + 1 + n) _ (by omega)]
                have e1 : i + 1 + n = i + (n + 1) := by omega
                simp [e1, List.append_assoc]
              · have hhead := polygon_hdr_decodes t p m hsl rs qss h1 h2 hq
                have hhead' := decodePoly_prefix _ m'.pts _ m'.paths _ qss hhead hpts hpaths
                simp only [List.mapM_cons, bind, Option.bind, hhead', hdec]
                rfl
              · exact take_prefix_trans m.pts (m.pts ++ qss) m'.pts hpts (by simp)
              · exact take_prefix_trans m.paths (m.paths ++ [hdrs m.pts.length hsl]) m'.paths hpaths (by simp)
          · intro e he
            cases hr2 : multiPolyLoop t pss' with
            | error e' =>
              simp [hr2] at he; subst he
              have := ih'.2 e' hr2
              simp only [loopN, hb]
              exact this
            | ok r2 => simp [hr2] at he

theorem multiPolyM_refines (zero : Pt α) (t : TF E α) (s : Slice) (m : Mem α) (ps : List Slice)
    (pss : List (List (List (Pt α))))
    (h1 : readArr m.polys s = some ps) (h2 : ps.mapM (decodePoly m.pts m.paths) = some pss) :
    (∀ qsss, multiPolyLoop t pss = .ok qsss →
      ∃ hd ps', (multiPolyM zero t s m).2 = .ok hd ∧ readArr (multiPolyM zero t s m).1.polys hd = some ps' ∧
        ps'.mapM (decodePoly (multiPolyM zero t s m).1.pts (multiPolyM zero t s m).1.paths) = some qsss) ∧
    (∀ e, multiPolyLoop t pss = .error e → (multiPolyM zero t s m).2 = .error e) := by
  unfold readArr at h1
  by_cases h0 : s.len = 0
  · simp [h0] at h1; subst h1
    simp at h2; subst h2
    refine ⟨?_, ?_⟩
    · intro qsss hq
      simp [multiPolyLoop] at hq; subst hq
      refine ⟨⟨m.polys.length, 0, 0⟩, [], ?_, ?_, ?_⟩
      · simp [multiPolyM, aAlloc, h0, loopN]
      · simp [readArr]
      · simp
    · intro e he; simp [multiPolyLoop] at he
  · simp only [h0, if_false] at h1
    cases hsrc : m.polys[s.addr]? with
    | none => simp [hsrc] at h1
    | some srcP =>
      simp only [hsrc] at h1
      by_cases hle : s.off + s.len ≤ srcP.length
      · simp only [hle, if_true] at h1
        cases h1
        have hslt : s.addr < m.polys.length := (List.getElem?_eq_some_iff.mp hsrc).1
        have hs1 : (m.polys ++ [List.replicate s.len zeroSlice])[s.addr]? = some srcP := by
          rw [List.getElem?_append_left hslt]; exact hsrc
        have hd1 : (m.polys ++ [List.replicate s.len zeroSlice])[m.polys.length]? =
            some (List.replicate s.len zeroSlice) := by simp
        have key := loopN_polys zero t s m.polys.length s.len 0
          { m with polys := m.polys ++ [List.replicate s.len zeroSlice] } srcP (List.replicate s.len zeroSlice) pss
          hs1 hd1 (by omega) (by simp) (by omega) (by simpa using h2)
        simp only [Nat.add_zero, Nat.zero_add] at key
        refine ⟨?_, ?_⟩
        · intro qsss hq
          obtain ⟨m', newH, hl, hpolys, hlen, hdec, _, _⟩ := key.1 qsss hq
          refine ⟨⟨m.polys.length, 0, s.len⟩, newH, ?_, ?_, ?_⟩
          · simp only [multiPolyM, aAlloc]; rw [hl]
          · simp only [multiPolyM, aAlloc]; rw [hl]
            simp only [hpolys]
            simp [readArr, h0, set_append_last, hlen]
            exact List.take_of_length_le (by omega)
          · simp only [multiPolyM, aAlloc]; rw [hl]
            exact hdec
        · intro e he
          have := key.2 e he
          simp only [multiPolyM, aAlloc]
          generalize loopN (mpgBody zero t s m.polys.length) 0 s.len
            { m with polys := m.polys ++ [List.replicate s.len zeroSlice] } = res at this ⊢
          obtain ⟨m2, rr⟩ := res
          cases rr with
          | error e' => simp at this; simp [this]
          | ok u => simp at this
      · simp [hle] at h1

end GeomV.C10.Mem

namespace GeomV.C10.Mem
open GeomV GeomV.C10
variable {E α : Type}

/-! ## collections: decoding that provably avoids some addresses of the interface-array area -/

/-- blank out the arrays at the addresses `k + i` with `bad (k + i)` -/
def pz {β : Type} (bad : Nat → Bool) : Nat → List (List β) → List (List β)
  | _, [] => []
  | k, x :: xs => (if bad k then [] else x) :: pz bad (k + 1) xs

theorem pz_getElem? {β : Type} (bad : Nat → Bool) (k : Nat) (l : List (List β)) (i : Nat) :
    (pz bad k l)[i]? = (l[i]?).map (fun x => if bad (k + i) then [] else x) := by
  induction l generalizing k i with
  | nil => simp [pz]
  | cons x xs ih =>
    cases i with
    | zero => simp [pz]
    | succ i =>
      simp only [pz, List.getElem?_cons_succ, ih]
      have : k + 1 + i = k + (i + 1) := by omega
      rw [this]

theorem pz_length {β : Type} (bad : Nat → Bool) (k : Nat) (l : List (List β)) : (pz bad k l).length = l.length := by
  induction l generalizing k with
  | nil => rfl
  | cons x xs ih => simp [pz, ih]

/-- the memory with the interface arrays at `bad` addresses blanked out -/
def Mem.poison (bad : Nat → Bool) (m : Mem α) : Mem α := { m with geoms := pz bad 0 m.geoms }

theorem readArr_pz_weaken {β : Type} (bad bad' : Nat → Bool) (hb : ∀ i, bad i = true → bad' i = true)
    (ar : List (List β)) (s : Slice) (x : List β)
    (h : readArr (pz bad' 0 ar) s = some x) : readArr (pz bad 0 ar) s = some x := by
  unfold readArr at *
  by_cases h0 : s.len = 0
  · simpa [h0] using h
  · simp only [h0, if_false, pz_getElem?, Nat.zero_add] at h ⊢
    cases ha : ar[s.addr]? with
    | none => simp [ha] at h
    | some a =>
      simp only [ha, Option.map_some] at h ⊢
      by_cases hb' : bad' s.addr = true
      · simp [hb'] at h; omega
      · have : bad s.addr = false := by
          cases hbb : bad s.addr with
          | false => rfl
          | true => exact absurd (hb _ hbb) hb'
        simpa [hb', this] using h

theorem mapM_congr_some {β γ : Type} (f g : β → Option γ) (l : List β) (ys : List γ)
    (hfg : ∀ x ∈ l, ∀ y, f x = some y → g x = some y) (h : l.mapM f = some ys) : l.mapM g = some ys := by
  induction l generalizing ys with
  | nil => simpa using h
  | cons a as ih =>
    simp only [List.mapM_cons, bind, Option.bind] at h ⊢
    cases ha : f a with
    | none => simp [ha] at h
    | some y =>
      simp only [ha] at h
      cases h3 : as.mapM f with
      | none => simp [h3] at h
      | some ys' =>
        simp [h3] at h
        have := ih ys' (fun x hx => hfg x (List.mem_cons_of_mem _ hx)) h3
        simp [hfg a (List.mem_cons_self) y ha, this, h]

/-- decoding a collection, one level -/
theorem decodeGeom_collection (m : Mem α) (k : Nat) (s : Slice) :
    decodeGeom m (k+1) (.collection s) =
      match readArr m.geoms s with
      | none => none
      | some gs => (gs.mapM (decodeGeom m k)).map Geom.collection := by
  simp only [decodeGeom]
  cases readArr m.geoms s with
  | none => rfl
  | some gs => cases h : gs.mapM (decodeGeom m k) <;> simp [h, bind, Option.bind, pure]

/-- for every type but a collection, decoding does not look at the interface-array area -/
theorem decodeGeom_poison_flat (bad : Nat → Bool) (m : Mem α) (k : Nat) (g : MGeom α)
    (hg : ∀ s, g ≠ .collection s) : decodeGeom (Mem.poison bad m) (k+1) g = decodeGeom m (k+1) g := by
  cases g with
  | collection s => exact absurd rfl (hg s)
  | _ => rfl

theorem decodeGeom_fuel_flat (m : Mem α) (k k' : Nat) (g : MGeom α)
    (hg : ∀ s, g ≠ .collection s) : decodeGeom m (k+1) g = decodeGeom m (k'+1) g := by
  cases g with
  | collection s => exact absurd rfl (hg s)
  | _ => rfl

theorem decodeGeom_weaken (bad bad' : Nat → Bool) (hb : ∀ i, bad i = true → bad' i = true) (m : Mem α) :
    ∀ (d : Nat) (g : MGeom α) (G : Geom α),
      decodeGeom (Mem.poison bad' m) d g = some G → decodeGeom (Mem.poison bad m) d g = some G := by
  intro d
  induction d with
  | zero => intro g G h; simp [decodeGeom] at h
  | succ d ih =>
    intro g G h
    by_cases hg : ∀ s, g ≠ .collection s
    · rw [decodeGeom_poison_flat bad' m d g hg] at h
      rw [decodeGeom_poison_flat bad m d g hg]; exact h
    · have : ∃ s, g = .collection s := by
        cases g with
        | collection s => exact ⟨s, rfl⟩
        | _ => exact absurd (fun s hh => by cases hh) hg
      obtain ⟨s, rfl⟩ := this
      rw [decodeGeom_collection] at h ⊢
      cases hr : readArr (Mem.poison bad' m).geoms s with
      | none => simp [hr] at h
      | some gs =>
        simp only [hr] at h
        have hr' : readArr (Mem.poison bad m).geoms s = some gs := readArr_pz_weaken bad bad' hb m.geoms s gs hr
        simp only [hr']
        cases hm : gs.mapM (decodeGeom (Mem.poison bad' m) d) with
        | none => simp [hm] at h
        | some Gs =>
          simp [hm] at h
          have := mapM_congr_some _ (decodeGeom (Mem.poison bad m) d) gs Gs (fun x _ y hy => ih x y hy) hm
          simp [this, h]
theorem decodeGeom_multiPolygon (m : Mem α) (k : Nat) (s : Slice) :
    decodeGeom m (k+1) (.multiPolygon s) =
      match readArr m.polys s with
      | none => none
      | some ps => (ps.mapM (decodePoly m.pts m.paths)).map Geom.multiPolygon := by
  have hfun : (fun p => (do let hs ← readArr m.paths p; hs.mapM (readArr m.pts) : Option _)) = decodePoly m.pts m.paths := by
    funext p; unfold decodePoly; cases readArr m.paths p <;> rfl
  simp only [decodeGeom]
  rw [hfun]
  cases readArr m.polys s with
  | none => rfl
  | some ps =>
    cases h : ps.mapM (decodePoly m.pts m.paths) <;> simp [h, bind, Option.bind, pure]

/-- `m'` extends `m`: every area keeps its old part and may have new arrays appended -/
structure Grow (m m' : Mem α) : Prop where
  pts : m'.pts.take m.pts.length = m.pts
  paths : m'.paths.take m.paths.length = m.paths
  polys : m'.polys.take m.polys.length = m.polys
  geoms : m'.geoms.take m.geoms.length = m.geoms
  bnds : m'.bnds = m.bnds

theorem Grow.refl (m : Mem α) : Grow m m := ⟨by simp, by simp, by simp, by simp, rfl⟩

theorem Grow.trans {m1 m2 m3 : Mem α} (a : Grow m1 m2) (b : Grow m2 m3) : Grow m1 m3 :=
  ⟨take_prefix_trans _ _ _ b.pts a.pts, take_prefix_trans _ _ _ b.paths a.paths,
   take_prefix_trans _ _ _ b.polys a.polys, take_prefix_trans _ _ _ b.geoms a.geoms, b.bnds.trans a.bnds⟩

theorem Grow.of_frozen {m m' : Mem α} (f : Frozen m.bound m m') : Grow m m' := by
  have h1 := f.pts; have h2 := f.paths; have h3 := f.polys; have h4 := f.geoms
  simp [Mem.bound] at h1 h2 h3 h4
  exact ⟨h1, h2, h3, h4, f.bnds⟩

theorem take_len_le {β : Type} (l l' : List β) (h : l'.take l.length = l) : l.length ≤ l'.length := by
  have := congrArg List.length h; simp at this; omega

theorem decodeGeom_grow (m m' : Mem α) (hg : Grow m m') :
    ∀ (d : Nat) (g : MGeom α) (G : Geom α), decodeGeom m d g = some G → decodeGeom m' d g = some G := by
  intro d
  induction d with
  | zero => intro g G h; simp [decodeGeom] at h
  | succ d ih =>
    intro g G h
    cases g with
    | point p => exact h
    | nil => exact h
    | multiPoint s =>
      simp only [decodeGeom, Option.map_eq_some_iff] at h ⊢
      obtain ⟨ps, hps, rfl⟩ := h
      exact ⟨ps, readArr_prefix _ _ s ps hps hg.pts, rfl⟩
    | lineString s =>
      simp only [decodeGeom, Option.map_eq_some_iff] at h ⊢
      obtain ⟨ps, hps, rfl⟩ := h
      exact ⟨ps, readArr_prefix _ _ s ps hps hg.pts, rfl⟩
    | bounds a =>
      simp only [decodeGeom] at h ⊢
      rw [hg.bnds]; exact h
    | multiLineString s =>
      simp only [decodeGeom, bind, Option.bind, pure] at h ⊢
      cases h1 : readArr m.paths s with
      | none => simp [h1] at h
      | some hs =>
        simp only [h1] at h
        cases h2 : hs.mapM (readArr m.pts) with
        | none => simp [h2] at h
        | some rs =>
          simp [h2] at h
          simp [readArr_prefix _ _ s hs h1 hg.paths, mapM_readArr_prefix _ _ hs rs h2 hg.pts, h]
    | polygon s =>
      simp only [decodeGeom, bind, Option.bind, pure] at h ⊢
      cases h1 : readArr m.paths s with
      | none => simp [h1] at h
      | some hs =>
        simp only [h1] at h
        cases h2 : hs.mapM (readArr m.pts) with
        | none => simp [h2] at h
        | some rs =>
          simp [h2] at h
          simp [readArr_prefix _ _ s hs h1 hg.paths, mapM_readArr_prefix _ _ hs rs h2 hg.pts, h]
    | multiPolygon s =>
      rw [decodeGeom_multiPolygon] at h ⊢
      cases h1 : readArr m.polys s with
      | none => simp [h1] at h
      | some ps =>
        simp only [h1] at h
        cases h2 : ps.mapM (decodePoly m.pts m.paths) with
        | none => simp [h2] at h
        | some pss =>
          simp [h2] at h
          simp [readArr_prefix _ _ s ps h1 hg.polys,
            mapM_decodePoly_prefix _ _ _ _ ps pss h2 hg.pts hg.paths, h]
    | collection s =>
      rw [decodeGeom_collection] at h ⊢
      cases h1 : readArr m.geoms s with
      | none => simp [h1] at h
      | some gs =>
        simp only [h1] at h
        cases h2 : gs.mapM (decodeGeom m d) with
        | none => simp [h2] at h
        | some Gs =>
          simp [h2] at h
          have := mapM_congr_some _ (decodeGeom m' d) gs Gs (fun x _ y hy => ih x y hy) h2
          simp [readArr_prefix _ _ s gs h1 hg.geoms, this, h]

theorem pz_take {β : Type} (bad : Nat → Bool) (l : List (List β)) (n : Nat) :
    (pz bad 0 l).take n = pz bad 0 (l.take n) := by
  apply List.ext_getElem?
  intro i
  simp only [List.getElem?_take, pz_getElem?]
  split <;> simp

/-- blanking commutes with growth, even when the two blankings differ above the old length -/
theorem Grow.poison {m m' : Mem α} (hg : Grow m m') (bad bad' : Nat → Bool)
    (hb : ∀ a, a < m.geoms.length → bad a = bad' a) : Grow (Mem.poison bad m) (Mem.poison bad' m') := by
  refine ⟨hg.pts, hg.paths, hg.polys, ?_, hg.bnds⟩
  show (pz bad' 0 m'.geoms).take (pz bad 0 m.geoms).length = pz bad 0 m.geoms
  rw [pz_length, pz_take, hg.geoms]
  apply List.ext_getElem?
  intro i
  simp only [pz_getElem?, Nat.zero_add]
  cases hi : m.geoms[i]? with
  | none => rfl
  | some x =>
    have : i < m.geoms.length := (List.getElem?_eq_some_iff.mp hi).1
    simp [hb i this]

/-- a write to a blanked array is invisible -/
theorem poison_set_bad (bad : Nat → Bool) (m : Mem α) (a : Nat) (v : List (MGeom α)) (ha : bad a = true) :
    Mem.poison bad { m with geoms := m.geoms.set a v } = Mem.poison bad m := by
  unfold Mem.poison
  congr 1
  apply List.ext_getElem?
  intro i
  simp only [pz_getElem?, Nat.zero_add, List.getElem?_set]
  by_cases hia : a = i
  · subst hia
    by_cases hl : a < m.geoms.length
    · simp [hl, ha, List.getElem?_eq_getElem hl]
    · simp [hl]
  · simp [hia]

theorem getElem?_of_take_prefix {β : Type} (l l' : List β) (i : Nat) (x : β)
    (hp : l'.take l.length = l) (h : l[i]? = some x) : l'[i]? = some x := by
  have hlt : i < l.length := (List.getElem?_eq_some_iff.mp h).1
  have h2 : (l'.take l.length)[i]? = some x := by rw [hp]; exact h
  rw [List.getElem?_take] at h2
  simpa [hlt] using h2

theorem pz_false {β : Type} (k : Nat) (l : List (List β)) : pz (fun _ => false) k l = l := by
  induction l generalizing k with
  | nil => rfl
  | cons x xs ih => simp [pz, ih]

theorem collLoop_cons (t : TF E α) (G : Geom α) (Gs : List (Geom α)) :
    collLoop t (G :: Gs) =
      match transformS t G with
      | .error e => .error e
      | .ok h =>
        match collLoop t Gs with
        | .error e => .error e
        | .ok r => .ok (h :: r) := by
  simp only [collLoop]
  cases transformS t G with
  | error e => rfl
  | ok h => cases collLoop t Gs <;> rfl

/-- what the induction on the nesting depth provides for the members of a collection -/
def MemberOK (zero : Pt α) (t : TF E α) (d : Nat) : Prop :=
  ∀ (g : MGeom α) (m : Mem α) (G : Geom α) (bad : Nat → Bool),
    (∀ a, bad a = true → a < m.geoms.length) → decodeGeom (Mem.poison bad m) d g = some G →
    (∀ G', transformS t G = .ok G' →
      ∃ m' g', transformM zero t d g m = (m', .ok g') ∧ decodeGeom (Mem.poison bad m') d g' = some G') ∧
    (∀ e, transformS t G = .error e → (transformM zero t d g m).2 = .error e)

theorem loopN_coll (zero : Pt α) (t : TF E α) (d : Nat) (ihd : MemberOK zero t d) (s : Slice) (dst : Nat)
    (bad : Nat → Bool) (hbd : bad dst = true) :
    ∀ (n i : Nat) (m : Mem α) (srcG dstArr : List (MGeom α)) (Gs : List (Geom α)),
      (∀ a, bad a = true → a < m.geoms.length) →
      m.geoms[s.addr]? = some srcG → m.geoms[dst]? = some dstArr → s.addr ≠ dst →
      i + n ≤ dstArr.length → s.off + i + n ≤ srcG.length →
      ((srcG.drop (s.off + i)).take n).mapM (decodeGeom (Mem.poison bad m) d) = some Gs →
      (∀ Gs', collLoop t Gs = .ok Gs' →
        ∃ (m' : Mem α) (newG : List (MGeom α)),
          loopN (collBody (transformM zero t d) s dst) i n m = (m', .ok ()) ∧
          m'.geoms[dst]? = some (dstArr.take i ++ newG ++ dstArr.drop (i + n)) ∧
          newG.length = n ∧
          newG.mapM (decodeGeom (Mem.poison bad m') d) = some Gs' ∧
          Grow (Mem.poison bad m) (Mem.poison bad m')) ∧
      (∀ e, collLoop t Gs = .error e →
        (loopN (collBody (transformM zero t d) s dst) i n m).2 = .error e) := by
  intro n
  induction n with
  | zero =>
    intro i m srcG dstArr Gs hbl hs hd hne hi hsrc hGs
    simp at hGs; subst hGs
    refine ⟨?_, ?_⟩
    · intro Gs' hq
      simp [collLoop] at hq; subst hq
      exact ⟨m, [], by simp [loopN], by simpa using hd, rfl, by simp, Grow.refl _⟩
    · intro e he; simp [collLoop] at he
  | succ n ih =>
    intro i m srcG dstArr Gs hbl hs hd hne hi hsrc hGs
    have hk : s.off + i < srcG.length := by omega
    have hp : srcG[s.off + i]? = some (srcG[s.off + i]'hk) := List.getElem?_eq_getElem hk
    rw [drop_take_succ srcG (s.off + i) n _ hp] at hGs
    generalize hgdef : srcG[s.off + i]'hk = g at hp hGs
    simp only [List.mapM_cons, bind, Option.bind] at hGs
    cases hdg : decodeGeom (Mem.poison bad m) d g with
    | none => simp [hdg] at hGs
    | some G =>
      simp only [hdg] at hGs
      cases hrest : ((srcG.drop (s.off + i + 1)).take n).mapM (decodeGeom (Mem.poison bad m) d) with
      | none => simp [hrest] at hGs
      | some Gs1 =>
        simp [hrest] at hGs; subst hGs
        have hil : i < dstArr.length := by omega
        have hget : aGet (E := E) m.geoms s.addr (s.off + i) = .ok g := by simp [aGet, hs, hp]
        obtain ⟨ok1, er1⟩ := ihd g m G bad hbl hdg
        rw [collLoop_cons]
        cases hq : transformS t G with
        | error e0 =>
          refine ⟨fun Gs' h => by simp at h, ?_⟩
          intro e he
          simp at he; subst he
          have hb := er1 e0 hq
          unfold loopN
          simp only [collBody, hget]
          generalize transformM zero t d g m = res at hb ⊢
          obtain ⟨m1, rr⟩ := res
          cases rr with
          | error e' => simp at hb; simp [hb]
          | ok u => simp at hb
        | ok G1 =>
          obtain ⟨m1, g1, htm, hdec1⟩ := ok1 G1 hq
          have hkle : m.bound.le m := ⟨Nat.le_refl _, Nat.le_refl _, Nat.le_refl _, Nat.le_refl _⟩
          have hfro := (transformM_ok m.bound zero t d g m hkle).1.frozen
          rw [htm] at hfro
          have hgrow1 : Grow m m1 := Grow.of_frozen hfro
          have hd1 : m1.geoms[dst]? = some dstArr := getElem?_of_take_prefix _ _ dst dstArr hgrow1.geoms hd
          have hs1 : m1.geoms[s.addr]? = some srcG := getElem?_of_take_prefix _ _ s.addr srcG hgrow1.geoms hs
          have hset : aSet (E := E) m1.geoms dst i g1 = .ok (m1.geoms.set dst (dstArr.set i g1)) := by
            simp [aSet, hd1, hil]
          have hbody : collBody (transformM zero t d) s dst i m =
              ({ m1 with geoms := m1.geoms.set dst (dstArr.set i g1) }, .ok ()) := by
            simp [collBody, hget, htm, hset]
          have hpz : Mem.poison bad { m1 with geoms := m1.geoms.set dst (dstArr.set i g1) } = Mem.poison bad m1 :=
            poison_set_bad bad m1 dst _ hbd
          have hgp1 : Grow (Mem.poison bad m) (Mem.poison bad m1) := hgrow1.poison bad bad (fun _ _ => rfl)
          have hlen1 : m.geoms.length ≤ m1.geoms.length := take_len_le _ _ hgrow1.geoms
          have hdlt : dst < m1.geoms.length := (List.getElem?_eq_some_iff.mp hd1).1
          have hs2 : (m1.geoms.set dst (dstArr.set i g1))[s.addr]? = some srcG := by
            rw [List.getElem?_set_ne (Ne.symm hne)]; exact hs1
          have hd2 : (m1.geoms.set dst (dstArr.set i g1))[dst]? = some (dstArr.set i g1) := by
            simp [List.getElem?_set, hdlt]
          have hrest2 : ((srcG.drop (s.off + (i + 1))).take n).mapM
              (decodeGeom (Mem.poison bad { m1 with geoms := m1.geoms.set dst (dstArr.set i g1) }) d) = some Gs1 := by
            have e : s.off + (i + 1) = s.off + i + 1 := by omega
            rw [e, hpz]
            exact mapM_congr_some _ _ _ Gs1 (fun x _ y hy => decodeGeom_grow _ _ hgp1 d x y hy) hrest
          have ih' := ih (i + 1) { m1 with geoms := m1.geoms.set dst (dstArr.set i g1) } srcG (dstArr.set i g1) Gs1
            (by intro a ha; have := hbl a ha; simp; omega) hs2 hd2 hne (by simp; omega) (by omega) hrest2
          refine ⟨?_, ?_⟩
          · intro Gs' hqq
            cases hr2 : collLoop t Gs1 with
            | error e => simp [hr2] at hqq
            | ok Gs2 =>
              simp [hr2] at hqq; subst hqq
              obtain ⟨m', newG, hl, hgd, hlen, hdec, hgrow⟩ := ih'.1 Gs2 hr2
              rw [hpz] at hgrow
              refine ⟨m', g1 :: newG, ?_, ?_, by simp [hlen], ?_, hgp1.trans hgrow⟩
              · simp only [loopN, hbody]; exact hl
              · rw [hgd]
                simp only [take_set_succ dstArr i _ hil, drop_set_gt dstArr i (i + 1 + n) _ (by omega)]
                have e1 : i + 1 + n = i + (n + 1) := by omega
                simp [e1, List.append_assoc]
              · have h1' := decodeGeom_grow _ _ hgrow d g1 G1 hdec1
                simp only [List.mapM_cons, bind, Option.bind, h1', hdec]
                rfl
          · intro e he
            cases hr2 : collLoop t Gs1 with
            | error e' =>
              simp [hr2] at he; subst he
              have := ih'.2 e' hr2
              simp only [loopN, hbody]
              exact this
            | ok r2 => simp [hr2] at he

end GeomV.C10.Mem
