import GeomV.C10.Datum
/-!
# C10: a little language for `datumTransform` (proj/datum_transform.go) and its interpreter

`harness/cmd/c10/astwrites` (mode `datumbody`, go/ast) translates on every run, from the Go source of the tree
under test, the WHOLE body of `datumTransform` and the returned expression of `checkDatumParams`, statement by
statement, into terms of `St` / `BEx` (`GenDatumBody.lean`).  `exec` gives them Go's semantics on the state of
`Datum.lean`: a heap of `*datum` objects; the pointer variables `source` / `dest`, which point into the heap or —
after `d := *dest; …; dest = &d` — to a LOCAL copy; the saved floats; `fallback`; the point `x, y, z` (unknown
after a callee returned an error); `err`; and the deferred function, which runs on EVERY way out after the
`defer` statement (returns, error returns, a callee's panic) and assigns through the pointer variables as they
are at that moment (by reference, as Go closures do).  The callees stay the parameters of `Datum.lean` (`DOps`).

`Ties/DatumBody.lean` proves the interpreted source equal to the hand-written `datumTransformM` — heap and
answer — for every heap, every pair of pointers (aliasing included), every point, every choice of callees.
Anything outside the language is `.other` = stuck, so the tie fails to build rather than pass.  Core Lean only.
-/
namespace GeomV.C10.DIR
open GeomV GeomV.C10

inductive TyEx where
  | fld (p : String)                 -- p.datum_type
  | var (n : String)                 -- a local holding a datumType
  | other (src : String)
deriving Repr, DecidableEq

inductive BEx where
  | tyEq (e : TyEx) (c : String)     -- e == c    (c a datumType constant)
  | fne (p f q g : String)           -- p.f != q.g
  | cdp (e : TyEx)                   -- checkDatumParams(e)
  | or (a b : BEx)
  | other (src : String)
deriving Repr, DecidableEq

inductive St where
  | declErr                                        -- var err error
  | ifCompareRet (a b : String)                    -- if a.compare_datums(b) { return x, y, z, nil }
  | ite (c : BEx) (body : List St)                 -- if c { body }
  | retXYZ                                         -- return x, y, z, nil
  | retErr (msg : String)                          -- err := fmt.Errorf(msg); return NaN, NaN, NaN, err
  | ifErrRetNaN                                    -- if err != nil { return NaN, NaN, NaN, err }
  | save (l p f : String)                          -- var l = p.f
  | deferRestore (rs : List (String × String × String))   -- defer func() { p.f = l; … }()
  | declTy (n p : String)                          -- var n = p.datum_type
  | copy (d p : String)                            -- d := *p
  | setC (d f c : String)                          -- d.f = c     (d a local datum, c a float constant)
  | repoint (p d : String)                         -- p = &d
  | callE (m p : String)                           -- x, y, z, err = p.m(x, y, z)
  | call (m p : String)                            -- x, y, z = p.m(x, y, z)
  | other (src : String)

inductive Ptr where
  | heap (i : Nat)
  | loc (n : String)
deriving Repr, DecidableEq

section
variable {F R Err : Type}

structure XS (F R Err : Type) where
  heap : DHeap F R
  ptr : List (String × Ptr)
  loc : List (String × Dat F R)
  saved : List (String × F)
  tys : List (String × Nat)
  v : F × F × F
  vok : Bool
  err : Option Err
  deferred : Option (List (String × String × String))

inductive Out (F R Err : Type) where
  | cont (s : XS F R Err)
  | ret (s : XS F R Err) (r : Except (Fail Err) (F × F × F))
  | stuck

def setLoc (n : String) (v : Dat F R) : List (String × Dat F R) → List (String × Dat F R)
  | [] => []
  | (k, w) :: r => if n = k then (k, v) :: r else (k, w) :: setLoc n v r

def deref (s : XS F R Err) (p : String) : Option (Dat F R) :=
  match s.ptr.lookup p with
  | some (.heap i) => some (s.heap i)
  | some (.loc n) => s.loc.lookup n
  | none => none

def getF (d : Dat F R) (f : String) : Option F :=
  if f = "a" then some d.a else if f = "es" then some d.es else none

def putF (d : Dat F R) (f : String) (x : F) : Option (Dat F R) :=
  if f = "a" then some { d with a := x } else if f = "es" then some { d with es := x } else none

/-- `p.f = x` through a pointer variable -/
def writeF (s : XS F R Err) (p f : String) (x : F) : Option (XS F R Err) :=
  match s.ptr.lookup p with
  | some (.heap i) => (putF (s.heap i) f x).map fun d => { s with heap := s.heap.set i d }
  | some (.loc n) =>
    (match s.loc.lookup n with
     | some d0 => (putF d0 f x).map fun d => { s with loc := setLoc n d s.loc }
     | none => none)
  | none => none

variable (o : DOps F R Err) (consts : List (String × Nat)) (cdpBody : BEx)

def tyVal (s : XS F R Err) : TyEx → Option Nat
  | .fld p => (deref s p).map (·.dtype)
  | .var n => s.tys.lookup n
  | .other _ => none

/-- conditions (`cdpOK` = may `checkDatumParams` be entered: its own body does not call it) -/
def evalB (s : XS F R Err) (cdpOK : Bool) : BEx → Option Bool
  | .tyEq e c => match tyVal s e, consts.lookup c with
    | some a, some b => some (a = b)
    | _, _ => none
  | .fne p f q g => match (deref s p).bind (getF · f), (deref s q).bind (getF · g) with
    | some a, some b => some (o.fne a b)
    | _, _ => none
  | .cdp e => if cdpOK then
      (match tyVal s e with
       | some a => (match cdpBody with
         | .or (.tyEq (.var n) c1) (.tyEq (.var m) c2) =>
           if n = m then (match consts.lookup c1, consts.lookup c2 with
             | some b1, some b2 => some (a = b1 || a = b2)
             | _, _ => none) else none
         | _ => none)
       | none => none)
    else none
  | .or a b => match evalB s cdpOK a, evalB s cdpOK b with
    | some x, some y => some (x || y)
    | _, _ => none
  | .other _ => none

def fconst (c : String) : Option F :=
  if c = "srsWGS84SemiMajor" then some o.wgsA else if c = "srsWGS84ESquared" then some o.wgsEs else none

def callee (m : String) : Option (Dat F R → F × F × F → Except (Fail Err) (F × F × F)) :=
  if m = "geodetic_to_geocentric" then some o.geodeticToGeocentric
  else if m = "geocentric_to_wgs84" then some o.geocentricToWgs84
  else if m = "geocentric_from_wgs84" then some o.geocentricFromWgs84
  else if m = "geocentric_to_geodetic" then some o.geocentricToGeodetic
  else none

mutual
def execL : List St → XS F R Err → Out F R Err
  | [], s => .cont s
  | st :: rest, s =>
    match exec1 st s with
    | .cont s' => execL rest s'
    | o => o
def exec1 : St → XS F R Err → Out F R Err
  | .declErr, s => .cont { s with err := none }
  | .ifCompareRet a b, s =>
    match deref s a, deref s b with
    | some A, some B =>
      (match o.compare A B with
       | .error e => .ret s (.error e)
       | .ok true => if s.vok then .ret s (.ok s.v) else .stuck
       | .ok false => .cont s)
    | _, _ => .stuck
  | .ite c body, s =>
    match evalB o consts cdpBody s true c with
    | some true => execL body s
    | some false => .cont s
    | none => .stuck
  | .retXYZ, s => if s.vok then .ret s (.ok s.v) else .stuck
  | .retErr msg, s =>
    if msg = "\"in proj.datumTransform: gridshift not supported\"" then .ret s (.error (.err o.gridErr)) else .stuck
  | .ifErrRetNaN, s =>
    match s.err with
    | some e => .ret s (.error (.err e))
    | none => .cont s
  | .save l p f, s =>
    match (deref s p).bind (getF · f) with
    | some x => .cont { s with saved := (l, x) :: s.saved }
    | none => .stuck
  | .deferRestore rs, s =>
    match s.deferred with
    | none => .cont { s with deferred := some rs }
    | some _ => .stuck
  | .declTy n p, s =>
    match deref s p with
    | some d => .cont { s with tys := (n, d.dtype) :: s.tys }
    | none => .stuck
  | .copy d p, s =>
    match deref s p with
    | some v => .cont { s with loc := (d, v) :: s.loc }
    | none => .stuck
  | .setC d f c, s =>
    match s.loc.lookup d, fconst o c with
    | some d0, some x => (match putF d0 f x with
      | some d1 => .cont { s with loc := setLoc d d1 s.loc }
      | none => .stuck)
    | _, _ => .stuck
  | .repoint p d, s =>
    match s.ptr.lookup p, s.loc.lookup d with
    | some _, some _ => .cont { s with ptr := (p, .loc d) :: s.ptr }
    | _, _ => .stuck
  | .callE m p, s =>
    match callee o m, deref s p with
    | some f, some d =>
      if s.vok then
        (match f d s.v with
         | .ok w => .cont { s with v := w, err := none }
         | .error (.err e) => .cont { s with vok := false, err := some e }
         | .error (.panic q) => .ret s (.error (.panic q)))
      else .stuck
    | _, _ => .stuck
  | .call m p, s =>
    match callee o m, deref s p with
    | some f, some d =>
      if s.vok then
        (match f d s.v with
         | .ok w => .cont { s with v := w }
         | .error e => .ret s (.error e))
      else .stuck
    | _, _ => .stuck
  | .other _, _ => .stuck
end

/-- the deferred function: `p.f = l; …` with the pointer variables as they are now -/
def runRestores : List (String × String × String) → XS F R Err → Option (XS F R Err)
  | [], s => some s
  | (p, f, l) :: rest, s =>
    match s.saved.lookup l with
    | some x => (writeF s p f x).bind (runRestores rest)
    | none => none

/-- `datumTransform(&heap[i], &heap[j], x, y, z)`: the heap after the call (deferred function included) and
the answer; `none` = stuck or falling off the end -/
def runDT (body : List St) (h : DHeap F R) (i j : Nat) (v : F × F × F) :
    Option (DHeap F R × Except (Fail Err) (F × F × F)) :=
  match execL o consts cdpBody body
      { heap := h, ptr := [("source", .heap i), ("dest", .heap j)], loc := [], saved := [], tys := [], v := v,
        vok := true, err := none, deferred := none } with
  | .ret s r =>
    (match s.deferred with
     | none => some (s.heap, r)
     | some rs => (runRestores rs s).map fun s' => (s'.heap, r))
  | _ => none

end
end GeomV.C10.DIR
