import GeomV.C10.Mem
/-!
# C10: reading a geometry back out of the memory model

`readArr` reads the window of a slice header; `decodeGeom` turns a value of the memory model into the
functional `Geom` it denotes in a given memory (fuel = nesting depth of collections).  The judge (Main.lean)
uses exactly these functions to compare the memory model's result with the functional model on every `gt`
line; `LemmasR.lean` proves that comparison can never fail for Point, MultiPoint and LineString.
Core Lean only.
-/
namespace GeomV.C10.Mem
open GeomV GeomV.C10

/-- the elements `x[0..len)` of a slice header; an empty slice reads as `[]` whatever its pointer -/
def readArr {β : Type} (ar : List (List β)) (s : Slice) : Option (List β) :=
  if s.len = 0 then some [] else
  match ar[s.addr]? with
  | some a => if s.off + s.len ≤ a.length then some ((a.drop s.off).take s.len) else none
  | none => none

def decodeGeom {α : Type} (m : Mem α) : Nat → MGeom α → Option (Geom α)
  | 0, _ => none
  | fuel+1, g =>
    match g with
    | .point p => some (.point p)
    | .multiPoint s => (readArr m.pts s).map .multiPoint
    | .lineString s => (readArr m.pts s).map .lineString
    | .multiLineString s => do let hs ← readArr m.paths s; let ls ← hs.mapM (readArr m.pts); pure (.multiLineString ls)
    | .polygon s => do let hs ← readArr m.paths s; let ls ← hs.mapM (readArr m.pts); pure (.polygon ls)
    | .multiPolygon s => do
      let ps ← readArr m.polys s
      let r ← ps.mapM fun p => do let hs ← readArr m.paths p; hs.mapM (readArr m.pts)
      pure (.multiPolygon r)
    | .collection s => do let gs ← readArr m.geoms s; let r ← gs.mapM (decodeGeom m fuel); pure (.collection r)
    | .bounds a => (m.bnds[a]?).map fun (x, y) => .bounds x y
    | .nil => some .nil

end GeomV.C10.Mem
