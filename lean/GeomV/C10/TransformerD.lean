import GeomV.C10.Datum
/-!
# C10 model, part 6: the transformer state machine with the datum step as a STATE TRANSFORMER

`Transformer.lean` takes `datumTransform` as a plain function `Core.dt`.  The real one writes to the shared
`*datum` objects and restores them (`Datum.lean`).  Here the closure of `NewTransform` is modelled once more
with an extra state `σ` threaded through the datum step (`dtS : σ → … → σ × answer`), `σ` = the heap of datums
for the instance `datumStep`.  `LemmasTD.lean` proves that under the frame property (`C10_datum_frame`) this
machine IS the machine of `Transformer.lean` with `dt :=` "the datum step evaluated on the initial datum
heap", so every theorem about histories (`C10_pure` …) holds with the datum writes in the model.
Core Lean only.
-/
namespace GeomV.C10
open GeomV

section
variable {F P Err σ : Type} [FOps F]
open FOps

/-- `transform3`'s body (cf. `body`) with the datum step threading a state -/
def bodyS (c : Core F P Err) (dtS : σ → Nat → Nat → F → F → F → σ × Except (Fail Err) (F × F × F)) (st : σ)
    (s d : Nat) (S D : SR F P) (x y z : F) : σ × Res3 F Err :=
  match axisPart c.axisErr S.axis false x y with
  | .error e => (st, failToRes e)
  | .ok (x, y) =>
    let r : Except Err (F × F) :=
      if S.longlat then .ok (mul x deg2rad, mul y deg2rad)
      else c.inv S.p (mul x S.toMeter) (mul y S.toMeter)
    match r with
    | .error e => (st, .err e)
    | .ok (x, y) =>
      let x := if isNaN S.fromGreenwich then x else add x S.fromGreenwich
      let rd := dtS st s d x y z
      (rd.1,
        match rd.2 with
        | .error e => failToRes e
        | .ok (x, y, z) =>
          let x := if isNaN D.fromGreenwich then x else sub x D.fromGreenwich
          let r : Except Err (F × F) :=
            if D.longlat then .ok (mul x r2d, mul y r2d)
            else
              match c.fwd D.p x y with
              | .error e => .error e
              | .ok (x, y) => .ok (div x D.toMeter, div y D.toMeter)
          match r with
          | .error e => .err e
          | .ok (x, y) =>
            match axisPart c.axisErr D.axis true x y with
            | .error e => failToRes e
            | .ok (x, y) => .ok x y z)

/-- `transform3` (cf. `stepNoHop`) -/
def stepNoHopS (c : Core F P Err) (dtS : σ → Nat → Nat → F → F → F → σ × Except (Fail Err) (F × F × F))
    (h : Heap F P) (st : σ) (s d : Nat) (x y z : F) : Heap F P × σ × Res3 F Err :=
  let r1 := initAt c h s
  match r1.2 with
  | some e => (r1.1, st, .err e)
  | none =>
    let r2 := initAt c r1.1 d
    match r2.2 with
    | some e => (r2.1, st, .err e)
    | none =>
      let b := bodyS c dtS st s d (r2.1 s) (r2.1 d) x y z
      (r2.1, b.1, b.2)

/-- one call of the closure (cf. `step`) -/
def stepS (c : Core F P Err) (dtS : σ → Nat → Nat → F → F → F → σ × Except (Fail Err) (F × F × F)) (wgs : Nat)
    (h : Heap F P) (st : σ) (tr : Tr) (x y : F) : Heap F P × σ × Tr × Res F Err :=
  if needsHop h tr.src tr.dst then
    let r1 := stepNoHopS c dtS h st tr.src wgs x y zero
    match r1.2.2 with
    | .ok a b z =>
      let r2 := stepNoHopS c dtS r1.1 r1.2.1 wgs tr.dst a b z
      (r2.1, r2.2.1, tr, dropZ r2.2.2)
    | other => (r1.1, r1.2.1, tr, dropZ other)
  else
    let r := stepNoHopS c dtS h st tr.src tr.dst x y zero
    (r.1, r.2.1, tr, dropZ r.2.2)

/-- a history of calls over a pool (cf. `runHist`); state = SR heap, datum state, pool -/
def runHistS (c : Core F P Err) (dtS : σ → Nat → Nat → F → F → F → σ × Except (Fail Err) (F × F × F)) (wgs : Nat) :
    TState F P → σ → List (Nat × F × F) → TState F P × σ × List (Res F Err)
  | s, st, [] => (s, st, [])
  | s, st, (k, x, y) :: rest =>
    let r := stepS c dtS wgs s.heap st (s.pool k) x y
    let s' : TState F P := { heap := r.1, pool := fun j => if j = k then r.2.2.1 else s.pool j }
    let rr := runHistS c dtS wgs s' r.2.1 rest
    (rr.1, rr.2.1, r.2.2.2 :: rr.2.2)

end

section
variable {F P R Err Err0 : Type}

/-- the datum step of the real code: `datumTransform(source.datum, dest.datum, x, y, z)` on the heap of
datums; `dmap` = which datum object an SR points to, `conv` = the error value the call reports for an error
of the datum step; a PANIC of a callee (which unwinds through the deferred restore) stays a panic -/
def datumStep (o : DOps F R Err0) (dmap : Nat → Nat) (conv : Err0 → Err) :
    DHeap F R → Nat → Nat → F → F → F → DHeap F R × Except (Fail Err) (F × F × F) :=
  fun hD s d x y z =>
    let r := datumTransformM o hD (dmap s) (dmap d) (x, y, z)
    (r.1, match r.2 with
          | .ok v => .ok v
          | .error (.err e) => .error (.err (conv e))
          | .error (.panic f) => .error (.panic f))

end
end GeomV.C10
