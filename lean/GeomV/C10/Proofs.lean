import GeomV.C10.Lemmas
import GeomV.C10.LemmasT
import GeomV.C10.LemmasM
import GeomV.C10.LemmasC
/-!
# C10 — property theorems

Part 1, `Geom.Transform` (model `GeomTransform.lean` of /repo/transform.go, specification `Spec.lean`):
* `C10_structure`       the result has the same type and nesting and its i-th vertex is `t` of the i-th
                        input vertex (`*Bounds` ↦ its 4-vertex ring as a polygon); first failure wins.
* `C10_map_vertices`    `g.Transform(t) = mapVertices t g` (the structural map), errors lifted.
* `C10_vertex_i`        index form of "i-th vertex".
* `C10_nil_identity`    a nil transformer is the identity.
* `C10_error_no_panic`  if `t` fails first on vertex `i`, every type returns exactly that error; never a panic.
* `C10_input_unchanged`  on the memory model of `Mem.lean` (all eight methods, any memory layout).
Part 2, transformers (model `Transformer.lean` of proj/transform.go + adjust_axis.go):
* `C10_pure`            history independence over any pool of transformers sharing SRs.
* `C10_step_state_eq`   a call leaves a settled heap and the captured pair unchanged.
* `C10_no_index_fault`  `adjust_axis` never indexes past a 2-vector for any legal axis string.
No bound on geometry size, nesting depth, history length, pool size.
-/
set_option linter.unusedSimpArgs false
set_option linter.unusedVariables false
set_option linter.unusedSectionVars false
namespace GeomV.C10
open GeomV GeomV.C10.Spec

section GeomTransform
variable {E α : Type}

/-- what an observer of the model's `Transform` sees -/
def toOutcome : Except (Fail E) (Geom α) → Outcome E (Geom α)
  | .ok g => .ok g
  | .error (.err e) => .err e
  | .error (.panic _) => .panic

/-- **C10_map_vertices** (clause "same type and nesting, i-th vertex is the transformer applied to the
i-th input vertex", as an equation): for a non-nil transformer the model of `g.Transform(t)` is the
structural map `mapVertices t g` with the transformer's error passed through. -/
theorem C10_map_vertices (t : TF E α) (g : Geom α) (h : noNil g = true) :
    transform (some t) g = lift (mapVertices t g) := by
  have := transformS_eq t g h
  cases g <;> simp_all [transform, noNil]

/-- **C10_structure** (the whole `Geom.Transform` sentence of the property, as `Spec.TransformSpec`):
for every geometry without nil members, every transformer or nil: nil ↦ the input itself; if some
vertex fails the error of the first failing vertex is returned; otherwise the result has the shape of
the input (`*Bounds` as its ring polygon) and its vertex list is the image of the input's. -/
theorem C10_structure (t : Option (TF E α)) (g : Geom α) (h : noNil g = true) :
    TransformSpec t g (toOutcome (transform t g)) := by
  cases t with
  | none => cases g <;> simp_all [TransformSpec, transform, toOutcome, noNil]
  | some t =>
    rw [C10_map_vertices t g h]
    simp only [TransformSpec]
    cases hm : mapVertices t g with
    | error e => simp [mapVertices_err t g e hm, lift, toOutcome]
    | ok g' =>
      obtain ⟨h1, h2⟩ := mapVertices_ok t g g' hm
      simp [h2, lift, toOutcome, h1]

/-- **C10_vertex_i** (index form): if `g.Transform(t)` returns `g'` then for every `i` the i-th vertex
of `g'` exists and is `t` applied to the i-th vertex of `g`; the vertex counts agree. -/
theorem C10_vertex_i (t : TF E α) (g g' : Geom α) (h : noNil g = true)
    (hr : transform (some t) g = .ok g') (i : Nat) (hi : i < (vertices g).length) :
    ∃ v, (vertices g')[i]? = some v ∧ t (vertices g)[i] = .ok v := by
  rw [C10_map_vertices t g h] at hr
  cases hm : mapVertices t g with
  | error e => simp [hm, lift] at hr
  | ok g'' =>
    simp [hm, lift] at hr; subst hr
    exact mapAll_get t _ _ (mapVertices_ok t g g'' hm).2 i hi

/-- **C10_nil_identity** (clause "treats a nil transformer as the identity"). -/
theorem C10_nil_identity (g : Geom α) (h : g ≠ .nil) : transform (none : Option (TF E α)) g = .ok g := by
  cases g <;> simp_all [transform]

/-- **C10_error_no_panic** (clause "returns the transformer's error (never panics) if any vertex
fails"): for all eight types, if the vertices before `v` succeed and `t v = error e` then
`Transform` returns exactly `e`; and no input makes `Transform` panic. -/
theorem C10_error_no_panic (t : TF E α) (g : Geom α) (h : noNil g = true) :
    (∀ pre post v e, vertices g = pre ++ v :: post → (∀ p ∈ pre, ∃ q, t p = .ok q) → t v = .error e →
        transform (some t) g = .error (.err e)) ∧
    (∀ (t' : Option (TF E α)) f, transform t' g ≠ .error (.panic f)) := by
  constructor
  · intro pre post v e hv hpre hfail
    rw [C10_map_vertices t g h]
    have hm := mapAll_first_fail t pre post v e hpre hfail
    rw [← hv] at hm
    cases hmv : mapVertices t g with
    | error e' => have := mapVertices_err t g e' hmv; rw [hm] at this; cases this; rfl
    | ok g' => have := (mapVertices_ok t g g' hmv).2; rw [hm] at this; cases this
  · intro t' f
    cases t' with
    | none => cases g <;> simp_all [transform, noNil]
    | some t' =>
      rw [C10_map_vertices t' g h]
      cases mapVertices t' g <;> simp [lift]

/-- What the fix 08034c4 repaired, on the model of the snapshot's loop: a failing member made
`MultiLineString.Transform` panic instead of returning the error. -/
theorem snapshot_multiLineString_panics (t : TF E α) (l : List (Pt α)) (ls : List (List (Pt α))) (e : E)
    (h : mapAll t l = .error e) :
    multiLineLoopSnapshot t (l :: ls) = .error (.panic .typeAssert) ∧
    multiLineLoop t (l :: ls) = .error (.err e) := by
  simp [multiLineLoopSnapshot, multiLineLoop, lineStringT, ptsT_eq, h, lift]

end GeomTransform

section InputUnchanged
variable {E α : Type}
open Mem

theorem inv_initial (m : Mem α) : Inv m.bound m := by
  refine ⟨?_, ?_, ?_⟩ <;>
  · intro a arr hka hget
    have : a < _ := (List.getElem?_eq_some_iff.mp hget).1
    simp [Mem.bound] at hka; omega

/-- **C10_input_unchanged** (clause "leaves the input untouched"), on the memory model `Mem.lean` of all
eight `Transform` methods.  For EVERY memory `m` (any layout: members sharing backing arrays, windows of
one buffer, prefixes of one another, even ill-formed headers), every geometry value `g` in it, every
transformer or nil, every recursion budget:
1. on every path — success, transformer error at any vertex, panic — every backing array that existed
   before the call (points, slice headers of both levels, interface arrays) and every `Bounds` struct is
   exactly what it was; memory only grows;
2. a nil transformer returns the receiver itself and touches nothing (the documented aliasing case);
3. with a non-nil transformer a successful result refers only to arrays allocated during the call
   (`fresh`), and so does every header stored in any new array (`Inv`): nothing reachable from the
   result is shared with anything that existed before. -/
theorem C10_input_unchanged (zero : Pt α) (fuel : Nat) (t : Option (TF E α)) (g : MGeom α) (m : Mem α) :
    ((transformTop zero fuel t g m).1.pts.take m.pts.length = m.pts ∧
     (transformTop zero fuel t g m).1.paths.take m.paths.length = m.paths ∧
     (transformTop zero fuel t g m).1.polys.take m.polys.length = m.polys ∧
     (transformTop zero fuel t g m).1.geoms.take m.geoms.length = m.geoms ∧
     (transformTop zero fuel t g m).1.bnds = m.bnds) ∧
    (t = none → (transformTop zero fuel t g m).1 = m ∧
      ((transformTop zero fuel t g m).2 = .ok g ∨ (transformTop zero fuel t g m).2 = .error (.panic .nilDeref))) ∧
    (∀ t', t = some t' → ∀ g', (transformTop zero fuel t g m).2 = .ok g' →
      g'.fresh m.bound ∧ Inv m.bound (transformTop zero fuel t g m).1) := by
  have hk : m.bound.le m := ⟨Nat.le_refl _, Nat.le_refl _, Nat.le_refl _, Nat.le_refl _⟩
  have key : ∀ m' : Mem α, Frozen m.bound m m' →
      m'.pts.take m.pts.length = m.pts ∧ m'.paths.take m.paths.length = m.paths ∧
      m'.polys.take m.polys.length = m.polys ∧ m'.geoms.take m.geoms.length = m.geoms ∧ m'.bnds = m.bnds := by
    intro m' f
    have := f.pts; have := f.paths; have := f.polys; have := f.geoms
    simp [Mem.bound] at *
    exact ⟨f.pts |>.trans (by simp [Mem.bound]), f.paths.trans (by simp [Mem.bound]),
      f.polys.trans (by simp [Mem.bound]), f.geoms.trans (by simp [Mem.bound]), f.bnds⟩
  cases t with
  | none =>
    refine ⟨?_, ?_, ?_⟩
    · cases g <;> simp [transformTop]
    · intro _; cases g <;> simp [transformTop]
    · intro t' h; cases h
  | some t =>
    by_cases hg : ∃ x, g = x ∧ (match x with | MGeom.nil => True | _ => False)
    · obtain ⟨x, rfl, hx⟩ := hg
      cases g <;> simp at hx
      simp [transformTop]
    · have hnil : (transformTop zero fuel (some t) g m) = transformM zero t fuel g m := by
        cases g <;> first | rfl | (exfalso; exact hg ⟨_, rfl, trivial⟩)
      rw [hnil]
      obtain ⟨hok, hfresh⟩ := transformM_ok m.bound zero t fuel g m hk
      refine ⟨key _ hok.frozen, ?_, ?_⟩
      · intro h; cases h
      · intro t' _ g' hg'
        exact ⟨hfresh g' hg', hok.inv (inv_initial m)⟩

/-- non-vacuity / layout with shared memory: a polygon whose two rings are overlapping windows
(`buf[0:2]`, `buf[1:3]`) of ONE buffer; coordinates swapped by the transformer -/
def sharedMem : Mem Nat :=
  { pts := [[⟨1, 2⟩, ⟨3, 4⟩, ⟨5, 6⟩]], paths := [[⟨0, 0, 2⟩, ⟨0, 1, 2⟩]], polys := [], geoms := [], bnds := [] }

example :
    let r := transformTop (E := Nat) ⟨0, 0⟩ 3 (some fun p => .ok ⟨p.y, p.x⟩) (.polygon ⟨0, 0, 2⟩) sharedMem
    r.1.pts = [[⟨1, 2⟩, ⟨3, 4⟩, ⟨5, 6⟩], [⟨2, 1⟩, ⟨4, 3⟩], [⟨4, 3⟩, ⟨6, 5⟩]] ∧
    r.1.paths = [[⟨0, 0, 2⟩, ⟨0, 1, 2⟩], [⟨1, 0, 2⟩, ⟨2, 0, 2⟩]] := by
  constructor <;> rfl

/-- … and with a transformer failing on the last vertex the shared input buffer is still intact -/
example :
    let r := transformTop (E := Nat) ⟨0, 0⟩ 3 (some fun p => if p.x = 5 then .error 7 else .ok ⟨p.y, p.x⟩)
      (.polygon ⟨0, 0, 2⟩) sharedMem
    r.1.pts = [[⟨1, 2⟩, ⟨3, 4⟩, ⟨5, 6⟩], [⟨2, 1⟩, ⟨4, 3⟩], [⟨4, 3⟩, ⟨0, 0⟩]] := by
  rfl

end InputUnchanged

section Transformer
variable {F P Err : Type} [FOps F]

/-- **C10_pure** (clause "calling it any number of times, in any order, interleaved with other
transformers built from the same spatial references, returns the same result for the same input as a
freshly built transformer does").  For every choice of projection internals satisfying `CoreOK`, every
initial heap `h0` of SR records, every pool of transformers over it (any sharing, the registry's WGS84
cell `wgs` included) and every history of calls, the i-th answer of the history is the answer of a
single call of that transformer on `h0`, i.e. of a freshly built transformer. -/
theorem C10_pure (c : Core F P Err) (hc : CoreOK c) (wgs : Nat) (h0 : Heap F P) (pool : Nat → Tr)
    (hist : List (Nat × F × F)) :
    Spec.HistoryIndependent (runHist c wgs { heap := h0, pool := pool } hist).2
      (hist.map fun q => (step c wgs h0 (pool q.1) q.2.1 q.2.2).2.2) :=
  (rel_runHist c hc wgs h0 pool hist { heap := h0, pool := pool } (Rel.refl c h0) rfl).2.2

/-- **C10_pure_last** (the same, in the form "after any history `h`, the answer for input `p`"). -/
theorem C10_pure_last (c : Core F P Err) (hc : CoreOK c) (wgs : Nat) (h0 : Heap F P) (pool : Nat → Tr)
    (hist : List (Nat × F × F)) (k : Nat) (x y : F) :
    (runHist c wgs { heap := h0, pool := pool } (hist ++ [(k, x, y)])).2.getLast? =
      some (step c wgs h0 (pool k) x y).2.2 := by
  have := C10_pure c hc wgs h0 pool (hist ++ [(k, x, y)])
  unfold Spec.HistoryIndependent at this
  rw [this]; simp

/-- **C10_pure_states** (history independence stated on states): in any two heaps reachable from `h0`
by running constructors — in particular the heap left by ANY history of ANY transformers — the same
transformer gives the same answer, and the heap it leaves is again of that kind. -/
theorem C10_pure_states (c : Core F P Err) (hc : CoreOK c) (wgs : Nat) (h0 h h' : Heap F P)
    (hr : Rel c h0 h) (hr' : Rel c h0 h') (tr : Tr) (x y : F) :
    (step c wgs h tr x y).2.2 = (step c wgs h' tr x y).2.2 ∧ Rel c h0 (step c wgs h tr x y).1 := by
  obtain ⟨a, _, b⟩ := rel_step c hc wgs h0 h hr tr x y
  obtain ⟨_, _, b'⟩ := rel_step c hc wgs h0 h' hr' tr x y
  exact ⟨b.trans b'.symm, a⟩

/-- the heap a history leaves is reachable in the sense of `C10_pure_states`, and the pool (the
captured source/dest of every transformer) is unchanged -/
theorem C10_history_state (c : Core F P Err) (hc : CoreOK c) (wgs : Nat) (h0 : Heap F P) (pool : Nat → Tr)
    (hist : List (Nat × F × F)) :
    Rel c h0 (runHist c wgs { heap := h0, pool := pool } hist).1.heap ∧
      (runHist c wgs { heap := h0, pool := pool } hist).1.pool = pool := by
  obtain ⟨a, b, _⟩ := rel_runHist c hc wgs h0 pool hist { heap := h0, pool := pool } (Rel.refl c h0) rfl
  exact ⟨a, b⟩

/-- **C10_step_state_eq**: once the constructors of the cells a transformer touches have run
(`Settled`: running them again writes nothing), a call leaves the whole state — heap and captured
source/dest — exactly as it was. -/
theorem C10_step_state_eq (c : Core F P Err) (wgs : Nat) (h : Heap F P) (tr : Tr) (x y : F)
    (hs : Settled c h tr.src) (hd : Settled c h tr.dst) (hw : Settled c h wgs) :
    (step c wgs h tr x y).1 = h ∧ (step c wgs h tr x y).2.1 = tr := by
  unfold step
  by_cases hh : needsHop h tr.src tr.dst = true
  · simp only [hh, if_true]
    have e1 := stepNoHop_settled c h tr.src wgs x y FOps.zero hs hw
    cases hres : (stepNoHop c h tr.src wgs x y FOps.zero).2 with
    | ok a b z =>
      simp only [e1]
      exact ⟨stepNoHop_settled c h wgs tr.dst a b z hw hd, trivial⟩
    | err e => exact ⟨e1, rfl⟩
    | panic f => exact ⟨e1, rfl⟩
  · simp only [hh, Bool.false_eq_true, if_false]
    exact ⟨stepNoHop_settled c h tr.src tr.dst x y FOps.zero hs hd, trivial⟩

/-- after a constructor has run, its cell is settled (for `CoreOK` internals) -/
theorem settled_after_init (c : Core F P Err) (hc : CoreOK c) (h : Heap F P) (i : Nat) :
    Settled c (initAt c h i).1 i := by
  simp [Settled, initAt_fst, Heap.set, inited, hc (h i).p]

/-- What fixes 788adbd and 9f83d68 repaired, on the model of the snapshot's closure: after one
successful call through a datum-hop transformer its captured source is the WGS84 cell (so the next
call starts from WGS84), and the second leg started from height 0 instead of the first leg's height. -/
theorem snapshot_source_overwritten (c : Core F P Err) (wgs : Nat) (h : Heap F P) (tr : Tr) (x y a b z : F)
    (hh : needsHop h tr.src tr.dst = true) (hn : needsHop h tr.src wgs = false)
    (h1 : (stepNoHop c h tr.src wgs x y FOps.zero).2 = .ok a b z) :
    (stepSnapshot c wgs h tr x y).2.1.src = wgs ∧ (step c wgs h tr x y).2.1.src = tr.src ∧
    (stepSnapshot c wgs h tr x y).2.2 = dropZ (stepNoHop c (stepNoHop c h tr.src wgs x y FOps.zero).1 wgs tr.dst a b FOps.zero).2 ∧
    (step c wgs h tr x y).2.2 = dropZ (stepNoHop c (stepNoHop c h tr.src wgs x y FOps.zero).1 wgs tr.dst a b z).2 := by
  simp [stepSnapshot, step, hh, hn, h1]

/-! ### adjust_axis -/

theorem list_len2 {β : Type} (l : List β) (h : l.length = 2) : ∃ a b, l = [a, b] := by
  match l, h with
  | [a, b], _ => exact ⟨a, b, rfl⟩

/-- **C10_no_index_fault**: for every axis string of three letters (what `projString` accepts, and
the default `enu`) and every 2-D point, `adjust_axis` — in both directions — never indexes past the
coordinate slice or the axis string; the closure's `point[0], point[1]` afterwards exist; and when the
letters are legal (`ewnsud`) it returns no error either. -/
theorem C10_no_index_fault (ae : Err) (axis : List Char) (denorm : Bool) (x y : F) (hl : axis.length = 3) :
    (∀ f, adjustAxis ae axis denorm [x, y] ≠ .error (.panic f)) ∧
    (∀ f, axisPart ae axis denorm x y ≠ .error (.panic f)) ∧
    ((∀ ch ∈ axis, legalChar ch) → ∃ a b, axisPart ae axis denorm x y = .ok (a, b)) := by
  have key : (∀ f, adjustAxis ae axis denorm [x, y] ≠ .error (.panic f)) ∧
      (∀ pt, adjustAxis ae axis denorm [x, y] = .ok pt → pt.length = 2) ∧
      ((∀ ch ∈ axis, legalChar ch) → ∃ pt, adjustAxis ae axis denorm [x, y] = .ok pt) := by
    obtain ⟨n0, l0, g0⟩ := axisStep_two ae axis x y 0 (by omega) hl
    cases h0 : axisStep ae axis [x, y] 0 with
    | error e =>
      refine ⟨?_, ?_, ?_⟩
      · intro f hf; simp [adjustAxis, h0] at hf; subst hf; exact n0 f h0
      · intro pt hpt; simp [adjustAxis, h0] at hpt
      · intro hleg; obtain ⟨pt, hpt⟩ := g0 hleg; rw [h0] at hpt; cases hpt
    | ok p1 =>
      obtain ⟨a1, b1, rfl⟩ := list_len2 p1 (l0 p1 h0)
      obtain ⟨n1, l1, g1⟩ := axisStep_two ae axis a1 b1 1 (by omega) hl
      cases h1 : axisStep ae axis [a1, b1] 1 with
      | error e =>
        refine ⟨?_, ?_, ?_⟩
        · intro f hf; simp [adjustAxis, h0, h1] at hf; subst hf; exact n1 f h1
        · intro pt hpt; simp [adjustAxis, h0, h1] at hpt
        · intro hleg; obtain ⟨pt, hpt⟩ := g1 hleg; rw [h1] at hpt; cases hpt
      | ok p2 =>
        obtain ⟨a2, b2, rfl⟩ := list_len2 p2 (l1 p2 h1)
        obtain ⟨n2, l2, g2⟩ := axisStep_two ae axis a2 b2 2 (by omega) hl
        refine ⟨?_, ?_, ?_⟩
        · intro f; simp only [adjustAxis, h0, h1]; exact n2 f
        · intro pt; simp only [adjustAxis, h0, h1]; exact l2 pt
        · intro hleg; simp only [adjustAxis, h0, h1]; exact g2 hleg
  obtain ⟨k1, k2, k3⟩ := key
  refine ⟨k1, ?_, ?_⟩
  · intro f
    unfold axisPart
    by_cases he : axis = enu
    · simp [he]
    · simp only [he, if_false]
      cases ha : adjustAxis ae axis denorm [x, y] with
      | error e => intro hf; simp at hf; subst hf; exact k1 f ha
      | ok pt => obtain ⟨a, b, rfl⟩ := list_len2 pt (k2 pt ha); simp
  · intro hleg
    unfold axisPart
    by_cases he : axis = enu
    · exact ⟨x, y, by simp [he]⟩
    · simp only [he, if_false]
      obtain ⟨pt, hpt⟩ := k3 hleg
      obtain ⟨a, b, rfl⟩ := list_len2 pt (k2 pt hpt)
      exact ⟨a, b, by simp [hpt]⟩

/-- What fix 53df906 repaired, on the model of the snapshot's loop: for a source (denorm = false) the
third iteration read `point[2]` of the 2-vector, for every axis string. -/
theorem snapshot_axis_index_fault (ae : Err) (axis : List Char) (x y : F) :
    axisStepSnapshot ae axis false [x, y] 2 = .error (.panic .index) ∧
    axisStep ae axis [x, y] 2 = .ok [x, y] := by
  simp [axisStepSnapshot, axisStep]

/-! ### the closure never panics -/

/-- well-formed heap: three-letter axis strings (as `projString`/`DeriveConstants` produce) -/
def WF (h : Heap F P) : Prop := ∀ i, (h i).axis.length = 3

/-- the datum step's callees do not panic (in the Go code: `datum_params` has 3 resp. 7 entries whenever the
datum type is 3- resp. 7-parameter, which `getDatum` establishes at parse time) -/
def DtNoPanic (c : Core F P Err) : Prop := ∀ i j a b z g, c.dt i j a b z ≠ .error (.panic g)

theorem body_no_panic (c : Core F P Err) (s d : Nat) (S D : SR F P) (x y z : F)
    (hS : S.axis.length = 3) (hD : D.axis.length = 3) (hdt : DtNoPanic c) (f : Fault) :
    body c s d S D x y z ≠ .panic f := by
  have hs := (C10_no_index_fault c.axisErr S.axis false x y hS).2.1
  have hd := fun (x y : F) => (C10_no_index_fault c.axisErr D.axis true x y hD).2.1
  unfold body
  cases h1 : axisPart c.axisErr S.axis false x y with
  | error e =>
    cases e with
    | err e => simp [failToRes]
    | panic g => exact absurd h1 (hs g)
  | ok p =>
    obtain ⟨x1, y1⟩ := p
    simp only []
    split
    · simp
    · split
      · rename_i e he
        cases e with
        | err e => simp [failToRes]
        | panic g => exact absurd he (hdt _ _ _ _ _ g)
      · split
        · simp
        · rename_i x3 y3 _
          cases h2 : axisPart c.axisErr D.axis true x3 y3 with
          | error e =>
            cases e with
            | err e => simp [failToRes]
            | panic g => exact absurd h2 (hd _ _ g)
          | ok q => obtain ⟨a, b⟩ := q; simp

theorem initAt_axis (c : Core F P Err) (h : Heap F P) (hax : ∀ i, (h i).axis.length = 3) (i j : Nat) :
    ((initAt c h i).1 j).axis.length = 3 := by
  simp only [initAt_fst, Heap.set, inited]; by_cases hj : j = i <;> simp [hj, hax]

theorem stepNoHop_axis (c : Core F P Err) (h : Heap F P) (s d : Nat) (x y z : F)
    (hax : ∀ i, (h i).axis.length = 3) : ∀ i, ((stepNoHop c h s d x y z).1 i).axis.length = 3 := by
  have ax1 := initAt_axis c h hax s
  have ax2 := initAt_axis c _ ax1 d
  intro i
  unfold stepNoHop
  simp only []
  cases (initAt c h s).2 with
  | some e => exact ax1 i
  | none =>
    simp only []
    cases (initAt c (initAt c h s).1 d).2 with
    | some e => exact ax2 i
    | none => exact ax2 i

theorem stepNoHop_no_panic (c : Core F P Err) (h : Heap F P) (s d : Nat) (x y z : F)
    (hax : ∀ i, (h i).axis.length = 3) (hdt : DtNoPanic c) (f : Fault) : (stepNoHop c h s d x y z).2 ≠ .panic f := by
  have ax1 := initAt_axis c h hax s
  have ax2 := initAt_axis c _ ax1 d
  unfold stepNoHop
  simp only []
  cases (initAt c h s).2 with
  | some e => simp
  | none =>
    simp only []
    cases (initAt c (initAt c h s).1 d).2 with
    | some e => simp
    | none => exact body_no_panic c s d _ _ x y z (ax2 s) (ax2 d) hdt f

theorem dropZ_panic (r : Res3 F Err) (f : Fault) (h : r ≠ .panic f) : dropZ r ≠ .panic f := by
  cases r <;> simp_all [dropZ]

/-- **C10_no_panic** (the transformer side of "never panics"; needs the repaired `adjust_axis`): on a
well-formed heap no call of any transformer panics — no index fault for any axis order of source or
dest, and (the first leg being `transform3` itself) no recursion through the WGS84 hop — provided the callees
of the datum step do not (`DtNoPanic`; since the model carries such a panic as a panic of the call, see
`C10_datum_panic_is_panic`, the hypothesis is necessary). -/
theorem C10_no_panic (c : Core F P Err) (wgs : Nat) (h : Heap F P) (tr : Tr) (x y : F) (hw : WF h)
    (hdt : DtNoPanic c) (f : Fault) : (step c wgs h tr x y).2.2 ≠ .panic f := by
  unfold step
  by_cases hh : needsHop h tr.src tr.dst = true
  · simp only [hh, if_true]
    have n1 := stepNoHop_no_panic c h tr.src wgs x y FOps.zero hw hdt
    cases hres : (stepNoHop c h tr.src wgs x y FOps.zero).2 with
    | ok a b z =>
      simp only []
      exact dropZ_panic _ f (stepNoHop_no_panic c _ wgs tr.dst a b z (stepNoHop_axis c h tr.src wgs x y FOps.zero hw) hdt f)
    | err e => simp [dropZ]
    | panic g => exact absurd hres (n1 g)
  · simp only [hh, Bool.false_eq_true, if_false]
    exact dropZ_panic _ f (stepNoHop_no_panic c h tr.src tr.dst x y FOps.zero hw hdt f)

/-! ### non-vacuity: a concrete instance (also the witness that the snapshot's closure was not pure) -/

namespace Witness

instance : FOps Int where
  mul a b := a * b
  add a b := a + b
  sub a b := a - b
  div a b := a / b
  neg a := -a
  isNaN _ := false
  deg2rad := 1
  r2d := 1
  zero := 0

/-- identity projections; the datum step between cells `i` and `j` adds `10 i + j` to x and 1 to z -/
def core : Core Int Bool String where
  init _ := (true, none)
  inv _ a b := .ok (a, b)
  fwd _ a b := .ok (a, b)
  dt i j a b z := .ok (a + 10 * i + j, b + z, z + 1)
  axisErr := "axis"

/-- cell 0, 1: 3-parameter datums; cell 2: the WGS84 registry entry -/
def heap : Heap Int Bool := fun i =>
  { longlat := true, axis := enu, toMeter := 1, fromGreenwich := 0, dtype := if i = 2 then 4 else 1,
    wgsCode := i = 2, p := false }

def pool : Nat → Tr := fun _ => ⟨0, 1⟩

example : CoreOK core := fun _ => rfl
example : WF heap := fun _ => rfl
example : DtNoPanic core := by intro i j a b z g h; cases h
example : needsHop heap 0 1 = true := by decide

/-- fixed code: the same call twice gives the same answer … -/
example : (runHist core 2 { heap := heap, pool := pool } [(0, 5, 7), (0, 5, 7)]).2 = [.ok 28 8, .ok 28 8] := by
  decide

/-- … the snapshot's closure dropped the height (7, not 8) and answered from WGS84 the second time. -/
example :
    let r1 := stepSnapshot core 2 heap (pool 0) 5 7
    let r2 := stepSnapshot core 2 r1.1 r1.2.1 5 7
    (r1.2.2, r2.2.2) = (.ok 28 7, .ok 26 7) := by
  decide

end Witness

end Transformer

/-! ### `CoreOK` discharged for the modelled constructors -/

section Ctors
variable {F R Err : Type} [FOps F] [POps F]

/-- the transformer's `Core` whose `init` is the transcription of the eight Go constructors
(`Ctors.lean`); the closures and the datum step stay parameters -/
def ctorCore (inv fwd : Ctor × PF F R → F → F → Except Err (F × F))
    (dt : Nat → Nat → F → F → F → Except (Fail Err) (F × F × F)) (axisErr : Err) (errOf : CErr → Err) :
    Core F (Ctor × PF F R) Err where
  init q := ((q.1, (initP q.1 q.2).1), (initP q.1 q.2).2.map errOf)
  inv := inv
  fwd := fwd
  dt := dt
  axisErr := axisErr

/-- **C10_init_idempotent**: for each of the eight constructors (and an unregistered name), for EVERY
spatial reference and every floating-point semantics, running the constructor on an SR it has already
run on writes nothing new and reports the same error. -/
theorem C10_init_idempotent (c : Ctor) (p : PF F R) :
    initP c (initP c p).1 = ((initP c p).1, (initP c p).2) := initP_idem c p

/-- **C10_init_frame**: a constructor changes no field outside its write set, and no write set
contains a field the closure reads outside the projection functions (Name, Axis, ToMeter,
FromGreenwich, DatumCode, datum, DatumParams, NADGrids). -/
theorem C10_init_frame (c : Ctor) (p : PF F R) :
    (∀ fld : Fld, fld.goName ∉ writeSet c → (initP c p).1.get fld = p.get fld) ∧
    (∀ s ∈ writeSet c, s ∉ frameFields) :=
  ⟨fun fld h => initP_frame c p fld h, writeSet_frame c⟩

/-- **C10_CoreOK_ctors**: the hypothesis of `C10_pure` is a theorem for the modelled constructors. -/
theorem C10_CoreOK_ctors (inv fwd : Ctor × PF F R → F → F → Except Err (F × F))
    (dt : Nat → Nat → F → F → F → Except (Fail Err) (F × F × F)) (axisErr : Err) (errOf : CErr → Err) :
    CoreOK (ctorCore inv fwd dt axisErr errOf) := by
  intro q
  obtain ⟨c, p⟩ := q
  simp [ctorCore, initP_idem c p]

/-- **C10_pure_ctors**: history independence with NO hypothesis on the constructors: for the eight
transcribed constructors, any closures `inv`/`fwd` reading the initialised SR, any datum step, any heap,
pool and history, every answer equals the freshly built transformer's. -/
theorem C10_pure_ctors (inv fwd : Ctor × PF F R → F → F → Except Err (F × F))
    (dt : Nat → Nat → F → F → F → Except (Fail Err) (F × F × F)) (axisErr : Err) (errOf : CErr → Err)
    (wgs : Nat) (h0 : Heap F (Ctor × PF F R)) (pool : Nat → Tr) (hist : List (Nat × F × F)) :
    Spec.HistoryIndependent
      (runHist (ctorCore inv fwd dt axisErr errOf) wgs { heap := h0, pool := pool } hist).2
      (hist.map fun q => (step (ctorCore inv fwd dt axisErr errOf) wgs h0 (pool q.1) q.2.1 q.2.2).2.2) :=
  C10_pure _ (C10_CoreOK_ctors inv fwd dt axisErr errOf) wgs h0 pool hist

end Ctors

/-- What fix 98fda46 repaired: the snapshot's `EqdC` (check before default) is NOT idempotent — with
`+lat_1=0` and no `+lat_2` the first run succeeds and the second reports the parallels error.
(`F = Option Int`, `none` = NaN.) -/
instance : POps (Option Int) where
  isNaN x := x.isNone
  lt a b := match a, b with | some a, some b => a < b | _, _ => false
  add a b := do let a ← a; let b ← b; pure (a + b)
  sub a b := do let a ← a; let b ← b; pure (a - b)
  mul a b := do let a ← a; let b ← b; pure (a * b)
  div a b := do let a ← a; let b ← b; pure (a / b)
  abs a := a.map fun a => if a < 0 then -a else a
  sqrt a := a
  pow2 a := a.map fun a => a * a
  zero := some 0
  one := some 1
  epsln := some 1
  six := some 6
  c183 := some 183
  cDeg2rad := some 1
  c500000 := some 500000
  c1e7 := some 10000000
  c09996 := some 1
  kA := some 6377397
  kEs := some 1
  kLat0 := some 1
  kLong0 := some 1
  k09999 := some 1

def eqdcDegenerate : PF (Option Int) Unit :=
  { lat0 := some 0, lat1 := some 0, lat2 := none, long0 := some 0, x0 := some 0, y0 := some 0, k0 := some 1,
    a := some 2, b := some 2, es := some 0, e := some 0, zone := none, utmSouth := false, ro := () }

theorem snapshot_eqdc_not_idempotent :
    (initEqdCSnapshot eqdcDegenerate).2 = none ∧
    (initEqdCSnapshot (initEqdCSnapshot eqdcDegenerate).1).2 = some .eqdcParallels ∧
    (initEqdC eqdcDegenerate).2 = some .eqdcParallels ∧
    (initEqdC (initEqdC eqdcDegenerate).1).2 = some .eqdcParallels := by decide

end GeomV.C10
