import GeomV.C10.Model
import GeomV.C10.Spec
namespace GeomV.C10
end GeomV.C10
