import GeomV.C10.Transformer
/-!
# C10 model, part 5: `datumTransform` (proj/datum_transform.go) on a heap of `*datum` objects

`datumTransform(source, dest *datum, x, y, z)` is the only function on a transformer's call path that
assigns through its pointer parameters (`tie_Path`).  For a grid-shift destination it needs `a`/`es` replaced
by the WGS84 constants: since fix 70faba2 it puts them into a local COPY of the destination datum and re-points
its parameter to the copy (`d := *dest; d.a = …; d.es = …; dest = &d`), so the shared datum is never written —
not even for the duration of the call (before, another goroutine running a transformer on the same `*SR` could
see the constants: `datumTransformShared`, `shared_window`).  It still saves `a`/`es` of both datums first and
restores them in a `defer` (fix 855dde6), on every way out; these writes now put back the values the fields
have (the destination's go to the copy when the parameter was re-pointed).  The datums are shared by every
transformer built from the same `*SR`.

Heap of datums `DHeap = Nat → Dat` (index = Go pointer; `s = d` — both parameters the same object — is
allowed).  The callees (`compare_datums`, `geodetic_to_geocentric`, `geocentric_to_wgs84`,
`geocentric_from_wgs84`, `geocentric_to_geodetic`; they assign nothing, `tie_Path`) are parameters (`DOps`):
functions of the datum RECORD they are called on, evaluated on the heap as it is at the moment of the call
(so they see the temporary WGS84 constants).  They may fail with an error or a panic (`Fail Err`).
`datumTransformSnapshot` is the code before 855dde6 (restore on the success return only), `datumTransformShared`
the code between 855dde6 and 70faba2 (constants written into the shared datum, restored by the defer).
Core Lean only.
-/
namespace GeomV.C10
open GeomV

/-- a `datum` object: the two fields `datumTransform` writes, the type tag, and the rest (`datum_params`,
`b`, `ep2`, `nadGrids` — read only) -/
structure Dat (F R : Type) where
  dtype : Nat           -- 1 = 3-param, 2 = 7-param, 3 = grid shift, 4 = WGS84, 5 = none
  a : F
  es : F
  ro : R

structure DOps (F R Err : Type) where
  /-- `source.compare_datums(dest)` (indexes `datum_params`: may panic) -/
  compare : Dat F R → Dat F R → Except (Fail Err) Bool
  /-- `!=` on float64 -/
  fne : F → F → Bool
  geodeticToGeocentric : Dat F R → F × F × F → Except (Fail Err) (F × F × F)
  geocentricToWgs84 : Dat F R → F × F × F → Except (Fail Err) (F × F × F)
  geocentricFromWgs84 : Dat F R → F × F × F → Except (Fail Err) (F × F × F)
  geocentricToGeodetic : Dat F R → F × F × F → Except (Fail Err) (F × F × F)
  wgsA : F              -- srsWGS84SemiMajor
  wgsEs : F             -- srsWGS84ESquared
  gridErr : Err         -- "gridshift not supported"

abbrev DHeap (F R : Type) := Nat → Dat F R

def DHeap.set {F R : Type} (h : DHeap F R) (i : Nat) (v : Dat F R) : DHeap F R :=
  fun j => if j = i then v else h j

section
variable {F R Err : Type}

/-- `checkDatumParams` -/
def cdp (t : Nat) : Bool := t = 1 || t = 2

/-- the geocentric detour, on the heap as it is when the callees run -/
def geocentric (o : DOps F R Err) (S D : Dat F R) (v : F × F × F) : Except (Fail Err) (F × F × F) :=
  match o.geodeticToGeocentric S v with
  | .error e => .error e
  | .ok v =>
    match (if cdp S.dtype then o.geocentricToWgs84 S v else .ok v) with
    | .error e => .error e
    | .ok v =>
      match (if cdp D.dtype then o.geocentricFromWgs84 D v else .ok v) with
      | .error e => .error e
      | .ok v => o.geocentricToGeodetic D v

/-- from `if source.es != dest.es || …` to the end of `datumTransform`: nothing is assigned here, the two
datum records are read as they are at this point (`fallbackParams` = `checkDatumParams(fallback)`) -/
def dtTail (o : DOps F R Err) (fallbackParams : Bool) (S D : Dat F R) (v : F × F × F) : Except (Fail Err) (F × F × F) :=
  let r : Except (Fail Err) (F × F × F) :=
    if o.fne S.es D.es || o.fne S.a D.a || fallbackParams || cdp D.dtype then geocentric o S D v
    else .ok v
  match r with
  | .error e => .error e
  | .ok v => if D.dtype = 3 then .error (.err o.gridErr) else .ok v

/-- before fix 70faba2: the part of `datumTransform` after the `defer` statement wrote the WGS84 constants
into the shared destination datum (`dest.a = …; dest.es = …`); the heap it leaves (before the deferred
function runs) and its result -/
def dtAfterDeferShared (o : DOps F R Err) (h : DHeap F R) (s d : Nat) (v : F × F × F) :
    DHeap F R × Except (Fail Err) (F × F × F) :=
  if (h s).dtype = 3 then (h, .error (.err o.gridErr))
  else
    let h1 := if (h d).dtype = 3 then h.set d { h d with a := o.wgsA, es := o.wgsEs } else h
    (h1, dtTail o (cdp (h s).dtype) (h1 s) (h1 d) v)

/-- is the parameter `dest` re-pointed to a local copy (`dest = &d`) during the call?  (the grid-shift block
is reached and taken) -/
def destCopied (h : DHeap F R) (s d : Nat) : Bool := (h s).dtype ≠ 3 ∧ (h d).dtype = 3

/-- the part of `datumTransform` after the `defer` statement (fix 70faba2): the heap it leaves — it writes
nothing — and its result.  `source` is read in the heap, the destination is the record `dest` points to at
that moment: the heap cell, or the local copy carrying the WGS84 constants. -/
def dtAfterDefer (o : DOps F R Err) (h : DHeap F R) (s d : Nat) (v : F × F × F) :
    DHeap F R × Except (Fail Err) (F × F × F) :=
  -- var fallback = source.datum_type
  if (h s).dtype = 3 then (h, .error (.err o.gridErr))
  else
    -- if dest.datum_type == pjdGridShift { d := *dest; d.a = …; d.es = …; dest = &d }
    let D1 : Dat F R := if (h d).dtype = 3 then { h d with a := o.wgsA, es := o.wgsEs } else h d
    (h, dtTail o (cdp (h s).dtype) (h s) D1 v)

/-- the deferred function: `source.a = src_a; source.es = src_es; dest.a = dst_a; dest.es = dst_es` on the
shared heap (`dest` still points into it) -/
def restore (h : DHeap F R) (s d : Nat) (srcA srcEs dstA dstEs : F) : DHeap F R :=
  let h := h.set s { h s with a := srcA }
  let h := h.set s { h s with es := srcEs }
  let h := h.set d { h d with a := dstA }
  h.set d { h d with es := dstEs }

/-- the deferred function when `dest` was re-pointed: its last two assignments go to the local copy -/
def restoreSrc (h : DHeap F R) (s : Nat) (srcA srcEs : F) : DHeap F R :=
  let h := h.set s { h s with a := srcA }
  h.set s { h s with es := srcEs }

/-- `datumTransform(source, dest, x, y, z)` with `source = &heap[s]`, `dest = &heap[d]` -/
def datumTransformM (o : DOps F R Err) (h : DHeap F R) (s d : Nat) (v : F × F × F) :
    DHeap F R × Except (Fail Err) (F × F × F) :=
  match o.compare (h s) (h d) with
  | .error e => (h, .error e)
  | .ok true => (h, .ok v)
  | .ok false =>
    if (h s).dtype = 5 ∨ (h d).dtype = 5 then (h, .ok v)
    else
      let srcA := (h s).a; let srcEs := (h s).es; let dstA := (h d).a; let dstEs := (h d).es
      let r := dtAfterDefer o h s d v
      (if destCopied h s d then restoreSrc r.1 s srcA srcEs else restore r.1 s d srcA srcEs dstA dstEs, r.2)

/-- between 855dde6 and 70faba2: constants written into the shared datum, put back by the deferred function -/
def datumTransformShared (o : DOps F R Err) (h : DHeap F R) (s d : Nat) (v : F × F × F) :
    DHeap F R × Except (Fail Err) (F × F × F) :=
  match o.compare (h s) (h d) with
  | .error e => (h, .error e)
  | .ok true => (h, .ok v)
  | .ok false =>
    if (h s).dtype = 5 ∨ (h d).dtype = 5 then (h, .ok v)
    else
      let srcA := (h s).a; let srcEs := (h s).es; let dstA := (h d).a; let dstEs := (h d).es
      let r := dtAfterDeferShared o h s d v
      (restore r.1 s d srcA srcEs dstA dstEs, r.2)

/-- before fix 855dde6: the four restoring assignments stood before the final `return x, y, z, nil` only -/
def datumTransformSnapshot (o : DOps F R Err) (h : DHeap F R) (s d : Nat) (v : F × F × F) :
    DHeap F R × Except (Fail Err) (F × F × F) :=
  match o.compare (h s) (h d) with
  | .error e => (h, .error e)
  | .ok true => (h, .ok v)
  | .ok false =>
    if (h s).dtype = 5 ∨ (h d).dtype = 5 then (h, .ok v)
    else
      let srcA := (h s).a; let srcEs := (h s).es; let dstA := (h d).a; let dstEs := (h d).es
      let r := dtAfterDeferShared o h s d v
      match r.2 with
      | .ok w => (restore r.1 s d srcA srcEs dstA dstEs, .ok w)
      | .error e => (r.1, .error e)

/-- What the call computes, as a function of the two datum RECORDS only (no heap, no pointers). -/
def datumTransformPure (o : DOps F R Err) (S D : Dat F R) (v : F × F × F) : Except (Fail Err) (F × F × F) :=
  match o.compare S D with
  | .error e => .error e
  | .ok true => .ok v
  | .ok false =>
    if S.dtype = 5 ∨ D.dtype = 5 then .ok v
    else if S.dtype = 3 then .error (.err o.gridErr)
    else
      let D1 : Dat F R := if D.dtype = 3 then { D with a := o.wgsA, es := o.wgsEs } else D
      dtTail o (cdp S.dtype) S D1 v

/-- a history of `datumTransform` calls `(s, d, point)` on a shared heap of datums; answers in order -/
def runDatum (o : DOps F R Err) : DHeap F R → List (Nat × Nat × (F × F × F)) →
    DHeap F R × List (Except (Fail Err) (F × F × F))
  | h, [] => (h, [])
  | h, (s, d, v) :: rest =>
    let r := datumTransformM o h s d v
    let rr := runDatum o r.1 rest
    (rr.1, r.2 :: rr.2)

/-- the shape of the save / defer-restore of the code modelled above, compared with the Go source by
`Ties/Datum.lean`: saves, restores, writes before the defer, writes after it, saved locals assigned again,
number of defer statements, other statements in the deferred literal -/
def datumShapeModel : List (String × String) × List (String × String) × List String × List String × List String × Nat × Nat :=
  ([("src_a", "source.a"), ("src_es", "source.es"), ("dst_a", "dest.a"), ("dst_es", "dest.es")],
   [("source.a", "src_a"), ("source.es", "src_es"), ("dest.a", "dst_a"), ("dest.es", "dst_es")],
   [], ["d := *dest", "d.a", "d.es", "dest = &d"], [], 1, 0)

end
end GeomV.C10
