import GeomV.C10.GenGeom
/-! Regenerated tie for the eight `Transform` methods of /repo/transform.go: their bodies, translated statement
by statement from the Go source of the tree under test (go/ast, `GenGeom.lean`, rewritten on every run) and
interpreted with Go's semantics for arrays, block scoping, `range`, the `err` variable, unknown values after a
failing call and type assertions (`GeomIR.lean`), ARE the hand-written model `GeomTransform.lean` — for every
receiver, every transformer (or nil), every zero value of the coordinate type. -/
set_option linter.unusedSimpArgs false
set_option linter.unusedSectionVars false
set_option linter.unusedVariables false
namespace GeomV.C10
open GeomV GIR

variable {E α : Type}

/-! ### environment lemmas -/
theorem lookup_assign_self (n : String) (v : Val α) : ∀ (env : Env α) (w : Val α), lookup n env = some w →
    lookup n (assign n v env) = some v
  | [], w, h => by simp [lookup] at h
  | (k, u) :: r, w, h => by
    by_cases hk : n = k
    · simp [lookup, assign, hk]
    · simp [lookup, hk] at h
      simp [lookup, assign, hk, lookup_assign_self n v r w h]

theorem lookup_assign_ne (n m : String) (v : Val α) (hne : n ≠ m) : ∀ (env : Env α),
    lookup n (assign m v env) = lookup n env
  | [] => rfl
  | (k, u) :: r => by
    by_cases hk : m = k
    · subst hk; simp [lookup, assign, hne]
    · by_cases hn : n = k
      · simp [lookup, assign, hk, hn]
      · simp [lookup, assign, hk, hn, lookup_assign_ne n m v hne r]

theorem assign_assign (n : String) (v w : Val α) : ∀ (env : Env α), assign n w (assign n v env) = assign n w env
  | [] => rfl
  | (k, u) :: r => by
    by_cases hk : n = k
    · simp [assign, hk]
    · simp [assign, hk, assign_assign n v w r]

theorem assign_lookup (n : String) (v : Val α) : ∀ (env : Env α), lookup n env = some v → assign n v env = env
  | [], _ => rfl
  | (k, u) :: r, h => by
    by_cases hk : n = k
    · simp [lookup, hk] at h; simp [assign, hk, h]
    · simp [lookup, hk] at h; simp [assign, hk, assign_lookup n v r h]

@[simp] theorem length_assign (n : String) (v : Val α) : ∀ (env : Env α), (assign n v env).length = env.length
  | [] => rfl
  | (k, u) :: r => by
    by_cases hk : n = k
    · simp [assign, hk]
    · simp [assign, hk, length_assign n v r]

theorem pop3 (n : Nat) : n + 1 + 1 + 1 - n = 3 := by omega
theorem pop2 (n : Nat) : n + 1 + 1 - n = 2 := by omega

theorem set_at_length {β : Type} (pre : List β) (a q : β) (rest : List β) :
    (pre ++ a :: rest).set pre.length q = pre ++ q :: rest := by
  induction pre with
  | nil => rfl
  | cons p ps ih => simp [List.set, ih]

/-! ### the generic loop lemma -/
def mapE {β γ ε : Type} (f : β → Except ε γ) : List β → Except ε (List γ)
  | [] => .ok []
  | x :: xs =>
    match f x with
    | .error e => .error e
    | .ok y =>
      match mapE f xs with
      | .error e => .error e
      | .ok ys => .ok (y :: ys)

/-- go on with the value, or leave the method with the failure -/
def outOf {β : Type} (r : Except (Fail E) β) (k : β → Out E α) : Out E α :=
  match r with
  | .ok q => k q
  | .error e => .done (.error e)

/-- where a loop keeps the array it fills -/
structure Lens (α β : Type) where
  get : Env α → Option (List β)
  put : List β → Env α → Env α
  get_put : ∀ env a b, get env = some a → get (put b env) = some b
  put_put : ∀ env b c, put c (put b env) = put c env
  put_get : ∀ env a, get env = some a → put a env = env

/-- a loop whose body, on an environment holding an array `a` (through the lens), either stores `elem x` at the
index and leaves everything else as it was, or leaves the method with `elem x`'s failure, is `mapE elem` -/
theorem loop_generic {β : Type} (L : Lens α β) (f : Nat → Geom α → Env α → Option E → Out E α)
    (elem : Geom α → Except (Fail E) β) (P : Geom α → Prop)
    (hf : ∀ k x env a, P x → L.get env = some a → k < a.length →
      f k x env none = outOf (elem x) fun q => .cont (L.put (a.set k q) env) none) :
    ∀ (xs : List (Geom α)) (pre rest : List β) (env : Env α), (∀ x ∈ xs, P x) → L.get env = some (pre ++ rest) →
      rest.length = xs.length →
      loopWith f xs pre.length env none = match mapE elem xs with
        | .ok r => .cont (L.put (pre ++ r) env) none
        | .error e => .done (.error e) := by
  intro xs
  induction xs with
  | nil =>
    intro pre rest env hP hg hl
    cases rest with
    | nil =>
      have hg' : L.get env = some pre := by simpa using hg
      simp [loopWith, mapE]; exact (L.put_get env _ hg').symm
    | cons a r => simp at hl
  | cons x xs ih =>
    intro pre rest env hP hg hl
    cases rest with
    | nil => simp at hl
    | cons a rest =>
      have hk : pre.length < (pre ++ a :: rest).length := by simp
      have h1 := hf pre.length x env _ (hP x (by simp)) hg hk
      simp only [loopWith, mapE, h1, outOf]
      cases hx : elem x with
      | error e => simp
      | ok q =>
        simp only [set_at_length]
        have hg' : L.get (L.put (pre ++ q :: rest) env) = some ((pre ++ [q]) ++ rest) := by
          rw [L.get_put env _ _ hg]; simp
        have hl' : rest.length = xs.length := by simpa using hl
        have := ih (pre ++ [q]) rest _ (fun y hy => hP y (by simp [hy])) hg' hl'
        simp only [List.length_append, List.length_cons, List.length_nil, Nat.zero_add] at this
        rw [this]
        cases mapE elem xs with
        | error e => simp
        | ok r => simp [L.put_put]

/-- the lens of a plain array variable -/
def varLens (dst ty : String) : Lens α (Geom α) where
  get env := match lookup dst env with
    | some (.arr ty' a) => if ty' = ty then some a else none
    | _ => none
  put a env := assign dst (.arr ty a) env
  get_put env a b h := by
    cases hl : lookup dst env with
    | none => simp [hl] at h
    | some w => simp [lookup_assign_self dst _ env w hl]
  put_put env b c := assign_assign _ _ _ _
  put_get env a h := by
    cases hl : lookup dst env with
    | none => simp [hl] at h
    | some w =>
      cases w with
      | arr ty' a' =>
        simp [hl] at h
        obtain ⟨h1, h2⟩ := h
        subst h1; subst h2
        exact assign_lookup _ _ _ hl
      | _ => simp [hl] at h

theorem varLens_get (dst ty : String) (env : Env α) (a : List (Geom α))
    (h : (varLens dst ty).get env = some a) : lookup dst env = some (.arr ty a) := by
  simp only [varLens] at h
  cases hl : lookup dst env with
  | none => simp [hl] at h
  | some w =>
    cases w with
    | arr ty' a' => simp [hl] at h; obtain ⟨h1, h2⟩ := h; subst h1; subst h2; rfl
    | _ => simp [hl] at h

/-! ### packing -/
theorem mapO_unPt (r : List (Pt α)) : mapO unPt (r.map Geom.point) = some r := by
  induction r with
  | nil => rfl
  | cons p ps ih => simp [mapO, unPt, ih]
theorem mapO_unLine (r : List (List (Pt α))) : mapO unLine (r.map Geom.lineString) = some r := by
  induction r with
  | nil => rfl
  | cons p ps ih => simp [mapO, unLine, ih]
theorem mapO_unPoly (r : List (List (List (Pt α)))) : mapO unPoly (r.map Geom.polygon) = some r := by
  induction r with
  | nil => rfl
  | cons p ps ih => simp [mapO, unPoly, ih]
theorem mapO_rows (r : List (List (Pt α))) : mapO (mapO unPt) (r.map (fun l => l.map Geom.point)) = some r := by
  induction r with
  | nil => rfl
  | cons p ps ih => simp [mapO, mapO_unPt, ih]

/-- the method of a receiver type, as extracted -/
def meth (ty : String) : Method :=
  match Gen.geomMethods.lookup ty with
  | some m => m.2
  | none => ⟨"", "", [.other "no such method"]⟩

variable (z : α) (t : TF E α)

/-! ### Point, LineString -/
theorem tie_geom_Point (dyn : Geom α → Except (Fail E) (Geom α)) (p : Pt α) :
    runM z dyn (some t) (meth "Point") (.point p) = some (transformS t (.point p)) := by
  simp only [meth, Gen.geomMethods, List.lookup, runM, tyOf]
  cases h : t p <;>
    simp [execL, exec1, getG, lookup, assign, pack, transformS, pointT, callT, h]

/-- what one iteration of a direct-call loop (`LineString`, rings of `Polygon`) computes -/
def elemPt (x : Geom α) : Except (Fail E) (Geom α) :=
  match x with
  | .point p => (match callT t p with | .ok q => .ok (.point q) | .error e => .error e)
  | _ => .error (.panic .typeAssert)   -- not reached: the elements of a []Point are points

theorem mapE_elemPt (l : List (Pt α)) :
    mapE (elemPt t) (l.map Geom.point) = match ptsT t l with
      | .ok r => .ok (r.map Geom.point)
      | .error e => .error e := by
  induction l with
  | nil => rfl
  | cons p ps ih =>
    simp only [List.map, mapE, elemPt, ptsT]
    cases callT t p with
    | error e => rfl
    | ok q => simp only [ih]; cases ptsT t ps <;> rfl

theorem tie_geom_LineString (dyn : Geom α → Except (Fail E) (Geom α)) (l : List (Pt α)) :
    runM z dyn (some t) (meth "LineString") (.lineString l) = some (transformS t (.lineString l)) := by
  have hloop := loop_generic (E := E) (varLens "l2" "LineString")
    (fun k x env err => popO env.length (execL z dyn (some t)
      [.declPt "p2", .callT "p2" "p", .ifErrRetNil, .store "l2" "i" (.var "p2")] (("p", .g x) :: ("i", .idx k) :: env) err))
    (elemPt t) (fun x => ∃ p, x = .point p)
    (by
      intro k x env a hP hg hk
      have hl := varLens_get _ _ _ _ hg
      obtain ⟨p, rfl⟩ := hP
      simp only [elemPt, callT, outOf]
      cases h : t p <;>
        simp [execL, exec1, getG, getIdx, lookup, assign, evalEx, setAt, popO, hl, hk, h, varLens, pop3])
    (l.map Geom.point) [] (List.replicate l.length (.point ⟨z, z⟩))
    [("l2", .arr "LineString" (List.replicate l.length (.point ⟨z, z⟩))), ("l", .g (.lineString l))]
    (by simp) (by simp [varLens, lookup]) (by simp)
  rw [mapE_elemPt] at hloop
  simp [meth, Gen.geomMethods, List.lookup, runM, tyOf, execL, exec1, getG, lookup, elems, zeros] at hloop ⊢
  rw [hloop]
  simp only [transformS, lineStringT]
  cases ptsT t l <;> simp [varLens, assign, lookup, pack, mapO_unPt]

/-! ### MultiPoint, MultiLineString, MultiPolygon: `g, err := x.Transform(t); if err != nil {…}; a[i] = g.(T)` -/
def elemA (ty : String) (x : Geom α) : Except (Fail E) (Geom α) :=
  match transformS t x with
  | .error e => .error e
  | .ok y => if tyOf y = ty then .ok y else .error (.panic .typeAssert)

theorem hf_assert (dyn : Geom α → Except (Fail E) (Geom α)) (dst ty aty gn v i : String) (h1 : dst ≠ gn) (h2 : dst ≠ v) (h3 : dst ≠ i) (h4 : i ≠ gn) (h5 : i ≠ v)
    (h6 : v ≠ gn) :
    ∀ k x env a, dyn x = transformS t x → (varLens (α := α) dst aty).get env = some a → k < a.length →
      popO (E := E) env.length (execL z dyn (some t)
        [.callM gn v, .ifErrRetNil, .store dst i (.assert gn ty)] ((v, .g x) :: (i, .idx k) :: env) none) =
      outOf (elemA t ty x) fun q => .cont ((varLens dst aty).put (a.set k q) env) none := by
  intro k x env a hP hg hk
  have hl := varLens_get _ _ _ _ hg
  have h1' := Ne.symm h1; have h4' := Ne.symm h4; have h6' := Ne.symm h6
  simp only [elemA, outOf]
  cases h : transformS t x with
  | error e =>
    cases e <;> simp [execL, exec1, getG, lookup, popO, h, hP]
  | ok y =>
    by_cases hy : tyOf y = ty <;>
      simp [execL, exec1, getG, getIdx, lookup, assign, evalEx, setAt, popO, hl, hk, h, hP, hy, varLens, pop3,
        h1, h2, h3, h4, h5, h6, h1', h4', h6']

theorem mapE_elemA_Point (ps : List (Pt α)) :
    mapE (elemA t "Point") (ps.map Geom.point) = match multiPointLoop t ps with
      | .ok r => .ok (r.map Geom.point)
      | .error e => .error e := by
  induction ps with
  | nil => rfl
  | cons p ps ih =>
    simp only [List.map, mapE, elemA, transformS, multiPointLoop, pointT]
    cases callT t p with
    | error e => rfl
    | ok q => simp only [tyOf, if_true, asPoint, ih]; cases multiPointLoop t ps <;> rfl

theorem mapE_elemA_Line (ls : List (List (Pt α))) :
    mapE (elemA t "LineString") (ls.map Geom.lineString) = match multiLineLoop t ls with
      | .ok r => .ok (r.map Geom.lineString)
      | .error e => .error e := by
  induction ls with
  | nil => rfl
  | cons l ls ih =>
    simp only [List.map, mapE, elemA, transformS, multiLineLoop, lineStringT]
    cases ptsT t l with
    | error e => rfl
    | ok q => simp only [tyOf, if_true, asLine, ih]; cases multiLineLoop t ls <;> rfl

theorem mapE_elemA_Poly (ps : List (List (List (Pt α)))) :
    mapE (elemA t "Polygon") (ps.map Geom.polygon) = match multiPolyLoop t ps with
      | .ok r => .ok (r.map Geom.polygon)
      | .error e => .error e := by
  induction ps with
  | nil => rfl
  | cons p ps ih =>
    simp only [List.map, mapE, elemA, transformS, multiPolyLoop, polygonT]
    cases ringsT t p with
    | error e => rfl
    | ok q => simp only [tyOf, if_true, asPoly, ih]; cases multiPolyLoop t ps <;> rfl

theorem tie_geom_MultiPoint (dyn : Geom α → Except (Fail E) (Geom α)) (ps : List (Pt α))
    (hd : ∀ x ∈ ps.map Geom.point, dyn x = transformS t x) :
    runM z dyn (some t) (meth "MultiPoint") (.multiPoint ps) = some (transformS t (.multiPoint ps)) := by
  have hloop := loop_generic (E := E) (varLens "mp2" "MultiPoint")
    (fun k x env err => popO env.length (execL z dyn (some t)
      [.callM "g" "p", .ifErrRetNil, .store "mp2" "i" (.assert "g" "Point")] (("p", .g x) :: ("i", .idx k) :: env) err))
    (elemA t "Point") (fun x => dyn x = transformS t x)
    (hf_assert z t dyn "mp2" "Point" "MultiPoint" "g" "p" "i" (by decide) (by decide) (by decide) (by decide) (by decide) (by decide))
    (ps.map Geom.point) [] (List.replicate ps.length (.point ⟨z, z⟩))
    [("mp2", .arr "MultiPoint" (List.replicate ps.length (.point ⟨z, z⟩))), ("mp", .g (.multiPoint ps))]
    hd (by simp [varLens, lookup]) (by simp)
  rw [mapE_elemA_Point] at hloop
  simp [meth, Gen.geomMethods, List.lookup, runM, tyOf, execL, exec1, getG, lookup, elems, zeros] at hloop ⊢
  rw [hloop]
  simp only [transformS]
  cases multiPointLoop t ps <;> simp [varLens, assign, lookup, pack, mapO_unPt]

theorem tie_geom_MultiLineString (dyn : Geom α → Except (Fail E) (Geom α)) (ls : List (List (Pt α)))
    (hd : ∀ x ∈ ls.map Geom.lineString, dyn x = transformS t x) :
    runM z dyn (some t) (meth "MultiLineString") (.multiLineString ls) = some (transformS t (.multiLineString ls)) := by
  have hloop := loop_generic (E := E) (varLens "ml2" "MultiLineString")
    (fun k x env err => popO env.length (execL z dyn (some t)
      [.callM "g" "l", .ifErrRetNil, .store "ml2" "i" (.assert "g" "LineString")] (("l", .g x) :: ("i", .idx k) :: env) err))
    (elemA t "LineString") (fun x => dyn x = transformS t x)
    (hf_assert z t dyn "ml2" "LineString" "MultiLineString" "g" "l" "i" (by decide) (by decide) (by decide) (by decide) (by decide) (by decide))
    (ls.map Geom.lineString) [] (List.replicate ls.length (.lineString []))
    [("ml2", .arr "MultiLineString" (List.replicate ls.length (.lineString []))), ("ml", .g (.multiLineString ls))]
    hd (by simp [varLens, lookup]) (by simp)
  rw [mapE_elemA_Line] at hloop
  simp [meth, Gen.geomMethods, List.lookup, runM, tyOf, execL, exec1, getG, lookup, elems, zeros] at hloop ⊢
  rw [hloop]
  simp only [transformS]
  cases multiLineLoop t ls <;> simp [varLens, assign, lookup, pack, mapO_unLine]

theorem tie_geom_MultiPolygon (dyn : Geom α → Except (Fail E) (Geom α)) (ps : List (List (List (Pt α))))
    (hd : ∀ x ∈ ps.map Geom.polygon, dyn x = transformS t x) :
    runM z dyn (some t) (meth "MultiPolygon") (.multiPolygon ps) = some (transformS t (.multiPolygon ps)) := by
  have hloop := loop_generic (E := E) (varLens "mp2" "MultiPolygon")
    (fun k x env err => popO env.length (execL z dyn (some t)
      [.callM "g" "p", .ifErrRetNil, .store "mp2" "i" (.assert "g" "Polygon")] (("p", .g x) :: ("i", .idx k) :: env) err))
    (elemA t "Polygon") (fun x => dyn x = transformS t x)
    (hf_assert z t dyn "mp2" "Polygon" "MultiPolygon" "g" "p" "i" (by decide) (by decide) (by decide) (by decide) (by decide) (by decide))
    (ps.map Geom.polygon) [] (List.replicate ps.length (.polygon []))
    [("mp2", .arr "MultiPolygon" (List.replicate ps.length (.polygon []))), ("mp", .g (.multiPolygon ps))]
    hd (by simp [varLens, lookup]) (by simp)
  rw [mapE_elemA_Poly] at hloop
  simp [meth, Gen.geomMethods, List.lookup, runM, tyOf, execL, exec1, getG, lookup, elems, zeros] at hloop ⊢
  rw [hloop]
  simp only [transformS]
  cases multiPolyLoop t ps <;> simp [varLens, assign, lookup, pack, mapO_unPoly]

/-! ### GeometryCollection: `gc2[i], err = g.Transform(t); if err != nil {…}` -/
theorem mapE_coll (gs : List (Geom α)) : mapE (transformS t) gs = collLoop t gs := by
  induction gs with
  | nil => simp [mapE, collLoop]
  | cons g gs ih =>
    simp only [mapE, collLoop, ih]
    cases transformS t g with
    | error e => rfl
    | ok q => cases collLoop t gs <;> rfl

theorem tie_geom_GeometryCollection (dyn : Geom α → Except (Fail E) (Geom α)) (gs : List (Geom α))
    (hd : ∀ x ∈ gs, dyn x = transformS t x) :
    runM z dyn (some t) (meth "GeometryCollection") (.collection gs) =
      some (transformS t (.collection gs)) := by
  have hloop := loop_generic (E := E) (varLens "gc2" "GeometryCollection")
    (fun k x env err => popO env.length (execL z dyn (some t)
      [.storeCallM "gc2" "i" "g", .ifErrRetNil] (("g", .g x) :: ("i", .idx k) :: env) err))
    (transformS t) (fun x => dyn x = transformS t x)
    (by
      intro k x env a hP hg hk
      have hl := varLens_get _ _ _ _ hg
      simp only [outOf]
      cases h : transformS t x with
      | error e => cases e <;> simp [execL, exec1, getG, getIdx, lookup, assign, popO, hl, h, hP]
      | ok y => simp [execL, exec1, getG, getIdx, lookup, assign, setAt, popO, hl, hk, h, hP, varLens, pop2])
    gs [] (List.replicate gs.length .nil)
    [("gc2", .arr "GeometryCollection" (List.replicate gs.length .nil)), ("gc", .g (.collection gs))]
    hd (by simp [varLens, lookup]) (by simp)
  rw [mapE_coll] at hloop
  simp [meth, Gen.geomMethods, List.lookup, runM, tyOf, execL, exec1, getG, lookup, elems, zeros] at hloop ⊢
  rw [hloop]
  simp only [transformS]
  cases collLoop t gs <;> simp [varLens, assign, lookup, pack]

/-! ### Polygon: nested loops, `p2[i] = make([]Point, len(r))`, `p2[i][j] = pp2` -/
theorem set_self_of_get {β : Type} : ∀ (l : List β) (k : Nat) (a : β), l[k]? = some a → l.set k a = l
  | [], _, _, _ => rfl
  | x :: xs, 0, a, h => by simp at h; simp [h]
  | x :: xs, k + 1, a, h => by simp at h; simp [set_self_of_get xs k a h]

/-- the lens of a two-level array variable (its rows) -/
def rowsLens (dst ty : String) : Lens α (List (Geom α)) where
  get env := match lookup dst env with
    | some (.arr2 ty' a) => if ty' = ty then some a else none
    | _ => none
  put a env := assign dst (.arr2 ty a) env
  get_put env a b h := by
    cases hl : lookup dst env with
    | none => simp [hl] at h
    | some w => simp [lookup_assign_self dst _ env w hl]
  put_put env b c := assign_assign _ _ _ _
  put_get env a h := by
    cases hl : lookup dst env with
    | none => simp [hl] at h
    | some w =>
      cases w with
      | arr2 ty' a' =>
        simp [hl] at h
        obtain ⟨h1, h2⟩ := h
        subst h1; subst h2
        exact assign_lookup _ _ _ hl
      | _ => simp [hl] at h

theorem rowsLens_get (dst ty : String) (env : Env α) (a : List (List (Geom α)))
    (h : (rowsLens dst ty).get env = some a) : lookup dst env = some (.arr2 ty a) := by
  simp only [rowsLens] at h
  cases hl : lookup dst env with
  | none => simp [hl] at h
  | some w =>
    cases w with
    | arr2 ty' a' => simp [hl] at h; obtain ⟨h1, h2⟩ := h; subst h1; subst h2; rfl
    | _ => simp [hl] at h

/-- row `dst[i]` of a two-level array, `i` read from the environment -/
def rowGet (dst i : String) (env : Env α) : Option (List (Geom α)) :=
  match lookup dst env, lookup i env with
  | some (.arr2 _ rows), some (.idx k) => rows[k]?
  | _, _ => none
def rowPut (dst i : String) (row : List (Geom α)) (env : Env α) : Env α :=
  match lookup dst env, lookup i env with
  | some (.arr2 ty rows), some (.idx k) => assign dst (.arr2 ty (rows.set k row)) env
  | _, _ => env

theorem rowGet_some (dst i : String) (env : Env α) (a : List (Geom α)) (h : rowGet dst i env = some a) :
    ∃ ty rows k, lookup dst env = some (.arr2 ty rows) ∧ lookup i env = some (.idx k) ∧ rows[k]? = some a := by
  unfold rowGet at h
  cases hd : lookup dst env with
  | none => simp [hd] at h
  | some w =>
    cases w with
    | arr2 ty rows =>
      cases hi : lookup i env with
      | none => simp [hd, hi] at h
      | some u =>
        cases u with
        | idx k => simp [hd, hi] at h; exact ⟨ty, rows, k, rfl, rfl, h⟩
        | _ => simp [hd, hi] at h
    | _ => simp [hd] at h

def rowLens (dst i : String) (hne : i ≠ dst) : Lens α (Geom α) where
  get := rowGet dst i
  put := rowPut dst i
  get_put env a b h := by
    obtain ⟨ty, rows, k, hd, hi, hr⟩ := rowGet_some dst i env a h
    have hk : k < rows.length := by
      cases hlt : decide (k < rows.length) with
      | true => exact of_decide_eq_true hlt
      | false =>
        have : ¬ k < rows.length := of_decide_eq_false hlt
        simp [List.getElem?_eq_none (Nat.le_of_not_lt this)] at hr
    simp [rowPut, rowGet, hd, hi, lookup_assign_self dst _ env _ hd, lookup_assign_ne i dst _ hne, hk]
  put_put env b c := by
    cases hd : lookup dst env with
    | none => simp [rowPut, hd]
    | some w =>
      cases w with
      | arr2 ty rows =>
        cases hi : lookup i env with
        | none => simp [rowPut, hd, hi]
        | some u =>
          cases u with
          | idx k =>
            simp [rowPut, hd, hi, lookup_assign_self dst _ env _ hd, lookup_assign_ne i dst _ hne, assign_assign]
          | _ => simp [rowPut, hd, hi]
      | _ => simp [rowPut, hd]
  put_get env a h := by
    obtain ⟨ty, rows, k, hd, hi, hr⟩ := rowGet_some dst i env a h
    simp [rowPut, hd, hi, set_self_of_get rows k a hr, assign_lookup dst _ env hd]

/-- what one iteration of `Polygon.Transform`'s outer loop computes: the transformed ring -/
def elemRing (x : Geom α) : Except (Fail E) (List (Geom α)) :=
  match x with
  | .lineString r => mapE (elemPt t) (r.map Geom.point)
  | _ => .error (.panic .typeAssert)   -- not reached: the elements of a Polygon are rings

theorem mapE_elemRing (rs : List (List (Pt α))) :
    mapE (elemRing t) (rs.map Geom.lineString) = match ringsT t rs with
      | .ok q => .ok (q.map fun l => l.map Geom.point)
      | .error e => .error e := by
  induction rs with
  | nil => rfl
  | cons r rs ih =>
    simp only [List.map, mapE, elemRing, ringsT, mapE_elemPt]
    cases ptsT t r with
    | error e => rfl
    | ok q => simp only [ih]; cases ringsT t rs <;> rfl

theorem hf_ring (dyn : Geom α → Except (Fail E) (Geom α)) :
    ∀ l x env a, (∃ p, x = Geom.point p) → (rowLens (α := α) "p2" "i" (by decide)).get env = some a → l < a.length →
      popO (E := E) env.length (execL z dyn (some t)
        [.declPt "pp2", .callT "pp2" "pp", .ifErrRetNil, .store2 "p2" "i" "j" (.var "pp2")]
        (("pp", .g x) :: ("j", .idx l) :: env) none) =
      outOf (elemPt t x) fun q => .cont ((rowLens "p2" "i" (by decide)).put (a.set l q) env) none := by
  intro l x env a hP hg hk
  obtain ⟨ty, rows, k, hd, hi, hr⟩ := rowGet_some "p2" "i" env a hg
  obtain ⟨p, rfl⟩ := hP
  simp only [elemPt, callT, outOf]
  cases h : t p <;>
    simp [execL, exec1, getG, getIdx, lookup, assign, evalEx, setAt, popO, hd, hi, hr, hk, h, rowLens, rowPut, pop3]

theorem hf_poly (dyn : Geom α → Except (Fail E) (Geom α)) :
    ∀ k x env a, (∃ r, x = Geom.lineString r) → (rowsLens (α := α) "p2" "Polygon").get env = some a → k < a.length →
      popO (E := E) env.length (execL z dyn (some t)
        [.makeAt "p2" "i" "[]Point" "r", .range "j" "pp" "r"
          [.declPt "pp2", .callT "pp2" "pp", .ifErrRetNil, .store2 "p2" "i" "j" (.var "pp2")]]
        (("r", .g x) :: ("i", .idx k) :: env) none) =
      outOf (elemRing t x) fun q => .cont ((rowsLens "p2" "Polygon").put (a.set k q) env) none := by
  intro k x env rows hP hg hk
  have hd := rowsLens_get _ _ _ _ hg
  obtain ⟨r, rfl⟩ := hP
  have hloop := loop_generic (E := E) (rowLens "p2" "i" (by decide))
    (fun l x env err => popO env.length (execL z dyn (some t)
      [.declPt "pp2", .callT "pp2" "pp", .ifErrRetNil, .store2 "p2" "i" "j" (.var "pp2")]
      (("pp", .g x) :: ("j", .idx l) :: env) err))
    (elemPt t) (fun x => ∃ p, x = .point p) (hf_ring z t dyn)
    (r.map Geom.point) [] (List.replicate r.length (.point ⟨z, z⟩))
    (("r", .g (.lineString r)) :: ("i", .idx k) ::
      assign "p2" (.arr2 "Polygon" (rows.set k (List.replicate r.length (.point ⟨z, z⟩)))) env)
    (by simp)
    (by simp [rowLens, rowGet, lookup, lookup_assign_self "p2" _ env _ hd, hk])
    (by simp)
  simp only [elemRing]
  simp [execL, exec1, getG, getIdx, lookup, assign, elems, hd, hk] at hloop ⊢
  rw [hloop]
  cases mapE (elemPt t) (r.map Geom.point) with
  | error e => simp [outOf, popO]
  | ok q =>
    simp [outOf, popO, rowLens, rowPut, rowsLens, lookup, assign, lookup_assign_self "p2" _ env _ hd, pop2,
      assign_assign]

theorem tie_geom_Polygon (dyn : Geom α → Except (Fail E) (Geom α)) (rs : List (List (Pt α))) :
    runM z dyn (some t) (meth "Polygon") (.polygon rs) = some (transformS t (.polygon rs)) := by
  have hloop := loop_generic (E := E) (rowsLens "p2" "Polygon")
    (fun k x env err => popO env.length (execL z dyn (some t)
      [.makeAt "p2" "i" "[]Point" "r", .range "j" "pp" "r"
        [.declPt "pp2", .callT "pp2" "pp", .ifErrRetNil, .store2 "p2" "i" "j" (.var "pp2")]]
      (("r", .g x) :: ("i", .idx k) :: env) err))
    (elemRing t) (fun x => ∃ r, x = .lineString r) (hf_poly z t dyn)
    (rs.map Geom.lineString) [] (List.replicate rs.length [])
    [("p2", .arr2 "Polygon" (List.replicate rs.length [])), ("p", .g (.polygon rs))]
    (by simp) (by simp [rowsLens, lookup]) (by simp)
  rw [mapE_elemRing] at hloop
  simp [meth, Gen.geomMethods, List.lookup, runM, tyOf, execL, exec1, getG, lookup, elems, zeros] at hloop ⊢
  rw [hloop]
  simp only [transformS, polygonT]
  cases ringsT t rs <;> simp [rowsLens, assign, lookup, pack, mapO_rows]

/-! ### *Bounds: the four-corner ring handed to `Polygon.Transform` -/
theorem tie_geom_Bounds (dyn : Geom α → Except (Fail E) (Geom α)) (mn mx : Pt α)
    (hd : ∀ rs, dyn (.polygon rs) = transformS t (.polygon rs)) :
    runM z dyn (some t) (meth "*Bounds") (.bounds mn mx) = some (transformS t (.bounds mn mx)) := by
  simp [meth, Gen.geomMethods, List.lookup, runM, tyOf, execL, exec1, getG, lookup, evalRows, evalRow, evalEx,
    corner, transformS, boundsT, hd]

/-! ### the nil transformer: every method returns its receiver -/
theorem tie_geom_nil (dyn : Geom α → Except (Fail E) (Geom α)) (g : Geom α) (h : g ≠ .nil) :
    runM z dyn none (meth (tyOf g)) g = some (.ok g) := by
  cases g <;> first
    | exact absurd rfl h
    | simp [meth, Gen.geomMethods, List.lookup, runM, tyOf, execL, exec1, getG, lookup]

/-- ALL EIGHT methods at once: the method of the receiver's dynamic type, as extracted from the source, run on
the receiver with any transformer or nil — calls `x.Transform(t)` inside a body meaning the model's dispatch —
returns what the model's `transform` returns (value, the transformer's error, or panic). -/
theorem tie_geom_methods (topt : Option (TF E α)) (g : Geom α) (h : g ≠ .nil) :
    runM z (fun x => match topt with | some t => transformS t x | none => .ok x) topt (meth (tyOf g)) g =
      some (transform topt g) := by
  cases topt with
  | none =>
    rw [tie_geom_nil z _ g h]
    cases g <;> first | exact absurd rfl h | rfl
  | some t =>
    cases g with
    | point p => exact tie_geom_Point z t _ p
    | multiPoint ps => exact tie_geom_MultiPoint z t _ ps (fun _ _ => rfl)
    | lineString l => exact tie_geom_LineString z t _ l
    | multiLineString ls => exact tie_geom_MultiLineString z t _ ls (fun _ _ => rfl)
    | polygon rs => exact tie_geom_Polygon z t _ rs
    | multiPolygon ps => exact tie_geom_MultiPolygon z t _ ps (fun _ _ => rfl)
    | collection gs => exact tie_geom_GeometryCollection z t _ gs (fun _ _ => rfl)
    | bounds mn mx => exact tie_geom_Bounds z t _ mn mx (fun _ => rfl)
    | nil => exact absurd rfl h

/-! ### the extracted PROGRAM: the eight methods calling each other -/

/-- how deep the calls `x.Transform(t)` go below a receiver -/
def rank : Geom α → Nat
  | .collection gs => rankL gs + 1
  | .multiPoint _ => 1 | .multiLineString _ => 1 | .multiPolygon _ => 1 | .bounds _ _ => 1
  | _ => 0
where rankL : List (Geom α) → Nat
  | [] => 0
  | g :: gs => max (rank g) (rankL gs)

theorem rank_le_of_mem : ∀ (gs : List (Geom α)) (g : Geom α), g ∈ gs → rank g ≤ rank.rankL gs
  | [], _, h => by simp at h
  | x :: xs, g, h => by
    simp only [List.mem_cons] at h
    simp only [rank.rankL]
    rcases h with rfl | h
    · exact Nat.le_max_left _ _
    · exact Nat.le_trans (rank_le_of_mem xs g h) (Nat.le_max_right _ _)

theorem noNil_of_mem : ∀ (gs : List (Geom α)) (g : Geom α), noNilL gs = true → g ∈ gs → noNil g = true
  | [], _, _, h => by simp at h
  | x :: xs, g, hn, h => by
    simp only [noNilL, Bool.and_eq_true] at hn
    simp only [List.mem_cons] at h
    rcases h with rfl | h
    · exact hn.1
    · exact noNil_of_mem xs g hn.2 h

/-- the program with `n` levels of calls allowed: `g.Transform(t)` runs the extracted method of `g`'s dynamic
type, in whose body a call `x.Transform(t)` runs the program with `n - 1` levels; running out of levels, or an
interpreter that is stuck, is reported as `Fault.recursion` (which the model never returns) -/
def progSem (topt : Option (TF E α)) : Nat → Geom α → Except (Fail E) (Geom α)
  | 0, _ => .error (.panic .recursion)
  | n + 1, g =>
    match runM z (progSem topt n) topt (meth (tyOf g)) g with
    | some r => r
    | none => .error (.panic .recursion)

/-- **The extracted program computes the model.**  The eight methods as extracted from the source, calling EACH
OTHER (no reference to the model inside the bodies), with as many levels of calls as the receiver's nesting needs,
return exactly the model's `transform topt g` — for every transformer or nil and every geometry without nil
members.  (With `tie_geom_methods`: the model is not just a solution of the extracted equations, it is what the
extracted program computes.) -/
theorem tie_geom_program (topt : Option (TF E α)) :
    ∀ (n : Nat) (g : Geom α), noNil g = true → rank g < n → progSem z topt n g = transform topt g := by
  intro n
  induction n with
  | zero => intro g _ h; omega
  | succ n ih =>
    intro g hn hr
    have hne : g ≠ .nil := by intro h; subst h; simp [noNil] at hn
    cases topt with
    | none =>
      simp only [progSem, tie_geom_nil z _ g hne]
      cases g <;> first | exact absurd rfl hne | rfl
    | some t =>
      have ihS : ∀ x, noNil x = true → rank x < n → progSem z (some t) n x = transformS t x := by
        intro x hx hxr
        rw [ih x hx hxr]
        cases x <;> first | rfl | simp [noNil] at hx
      cases g with
      | point p => simp only [progSem, tyOf, tie_geom_Point z t _ p]; rfl
      | lineString l => simp only [progSem, tyOf, tie_geom_LineString z t _ l]; rfl
      | polygon rs => simp only [progSem, tyOf, tie_geom_Polygon z t _ rs]; rfl
      | multiPoint ps =>
        have hd : ∀ x ∈ ps.map Geom.point, progSem z (some t) n x = transformS t x := by
          intro x hx
          obtain ⟨p, _, rfl⟩ := List.mem_map.mp hx
          exact ihS _ rfl (by simp [rank] at hr ⊢; omega)
        simp only [progSem, tyOf, tie_geom_MultiPoint z t _ ps hd]; rfl
      | multiLineString ls =>
        have hd : ∀ x ∈ ls.map Geom.lineString, progSem z (some t) n x = transformS t x := by
          intro x hx
          obtain ⟨p, _, rfl⟩ := List.mem_map.mp hx
          exact ihS _ rfl (by simp [rank] at hr ⊢; omega)
        simp only [progSem, tyOf, tie_geom_MultiLineString z t _ ls hd]; rfl
      | multiPolygon ps =>
        have hd : ∀ x ∈ ps.map Geom.polygon, progSem z (some t) n x = transformS t x := by
          intro x hx
          obtain ⟨p, _, rfl⟩ := List.mem_map.mp hx
          exact ihS _ rfl (by simp [rank] at hr ⊢; omega)
        simp only [progSem, tyOf, tie_geom_MultiPolygon z t _ ps hd]; rfl
      | bounds mn mx =>
        have hd : ∀ rs, progSem z (some t) n (.polygon rs) = transformS t (.polygon rs) := by
          intro rs
          exact ihS _ rfl (by simp [rank] at hr ⊢; omega)
        simp only [progSem, tyOf, tie_geom_Bounds z t _ mn mx hd]; rfl
      | collection gs =>
        have hd : ∀ x ∈ gs, progSem z (some t) n x = transformS t x := by
          intro x hx
          have h1 := rank_le_of_mem gs x hx
          have h2 := noNil_of_mem gs x (by simpa [noNil] using hn) hx
          exact ihS x h2 (by simp [rank] at hr; omega)
        simp only [progSem, tyOf, tie_geom_GeometryCollection z t _ gs hd]; rfl
      | nil => exact absurd rfl hne

/-- non-vacuity: a collection nested three deep, with a bounds inside, run with five levels -/
example (t : TF Unit Nat) :
    progSem (0 : Nat) (some t) 5 (.collection [.collection [.collection [.bounds ⟨1, 2⟩ ⟨3, 4⟩, .multiPoint [⟨5, 6⟩]]]]) =
      transform (some t) (.collection [.collection [.collection [.bounds ⟨1, 2⟩ ⟨3, 4⟩, .multiPoint [⟨5, 6⟩]]]]) :=
  tie_geom_program 0 (some t) 5 _ rfl (by decide)

/-! ### where the extracted methods write -/
mutual
/-- names a body binds to values it creates itself: arrays from `make`, `Point{}` locals, literals, call results -/
def ownedL : List St → List String
  | [] => []
  | s :: r => owned1 s ++ ownedL r
def owned1 : St → List String
  | .make dst _ _ => [dst]
  | .declPt n => [n]
  | .declLit n _ _ => [n]
  | .callM g _ => [g]
  | .range i v _ body => i :: v :: ownedL body
  | _ => []
end
mutual
/-- names a body stores into (elements of, fields of) -/
def targetsL : List St → List String
  | [] => []
  | s :: r => targets1 s ++ targetsL r
def targets1 : St → List String
  | .store dst _ _ => [dst]
  | .store2 dst _ _ _ => [dst]
  | .storeCallM dst _ _ => [dst]
  | .makeAt dst _ _ _ => [dst]
  | .callT dst _ => [dst]
  | .range _ _ _ body => targetsL body
  | _ => []
end

/-- a method stores only into what it created itself, and never rebinds its receiver: every store target is a
name bound by `make` / `Point{}` in the same body, no such name is the receiver's or a loop variable over the
receiver's elements -/
def writesOwnOnly (m : Method) : Bool :=
  let made := (ownedL m.body).filter fun n => !(isLoopVar m.body n)
  (targetsL m.body).all (fun d => made.contains d) && !(ownedL m.body).contains m.recvName
where
  isLoopVar (body : List St) (n : String) : Bool := (loopVarsL body).contains n
  loopVarsL : List St → List String
    | [] => []
    | .range i v _ body :: r => i :: v :: loopVarsL body ++ loopVarsL r
    | _ :: r => loopVarsL r

/-- **input untouched, at the source**: in each of the eight extracted methods every indexed store, field store
and `make`-into-slot targets a variable the same body bound to a fresh `make(…)` array or a `Point{}` local —
never the receiver, a range variable (an element of the receiver) or anything reached from them.  (The
interpreter enforces the same dynamically: a store into anything but an array made by `make` is stuck, and
`tie_geom_*` show the runs are not stuck.)  This is the assumption of the memory model `Mem.lean`
(`C10_input_unchanged`) about WHERE the code writes, checked on the code as extracted. -/
theorem tie_geom_writes : Gen.geomMethods.all (fun m => writesOwnOnly m.2.2) = true := by
  simp [Gen.geomMethods, writesOwnOnly, ownedL, owned1, targetsL, targets1, writesOwnOnly.isLoopVar,
    writesOwnOnly.loopVarsL]

/-- the check is not vacuous: a body that stores into its receiver, or into a range variable, is rejected -/
example : writesOwnOnly ⟨"l", "LineString", [.make "l2" "LineString" "l", .range "i" "p" "l" [.store "l" "i" (.var "p")]]⟩ = false := by
  simp [writesOwnOnly, ownedL, owned1, targetsL, targets1, writesOwnOnly.isLoopVar, writesOwnOnly.loopVarsL]
example : writesOwnOnly ⟨"p", "Polygon", [.make "p2" "Polygon" "p", .range "i" "r" "p" [.range "j" "pp" "r" [.callT "pp" "pp"]]]⟩ = false := by
  simp [writesOwnOnly, ownedL, owned1, targetsL, targets1, writesOwnOnly.isLoopVar, writesOwnOnly.loopVarsL]

/-- the methods named `Transform` in package geom are exactly the eight modelled ones, with one signature -/
theorem tie_Geom :
    Gen.geomMethods.map (fun m => (m.1, m.2.1)) =
      ["*Bounds", "GeometryCollection", "LineString", "MultiLineString", "MultiPoint", "MultiPolygon", "Point",
        "Polygon"].map (fun ty => (ty, "func(t proj.Transformer) (Geom, error)")) := by decide

end GeomV.C10
