import GeomV.C10.GenWrites
import GeomV.C10.GenBodies
import GeomV.C10.Ctors
/-! Regenerated tie for the constructor `Merc` (/repo/proj): the fields it assigns in the Go source (go/ast
extraction, `GenWrites.lean`, rewritten on every run) are exactly the model's write set; its closures
assign nothing; no compound assignment; the SR is passed on only to the modelled callees; no field
address is taken. -/
set_option linter.unusedSimpArgs false
namespace GeomV.C10
theorem tie_Merc :
    Gen.ctorWrites.lookup "Merc" = some (writeSet .merc, [], [], calleesOf .merc, []) := by decide

/-- Regenerated tie for the VALUES and CONDITIONS: the slice of `Merc`'s body that decides its writes and
its error (extracted by go/ast into `GenBodies.lean` on every run), interpreted by `IR.run`, equals the
model `initP .merc` for every SR and every float semantics. -/
theorem tie_body_Merc : BodyTie Gen.ctorBodies .merc := by
  open IR POps in
  intro F R _ p
  simp only [run, Gen.ctorBodies, goFunc, List.lookup]
  cases h1 : isNaN p.long0 <;> cases h2 : isNaN p.x0 <;> cases h3 : isNaN p.y0 <;>
    simp [exec, eval, getF, setFld, cstV, call1F, binF, initP, initMerc, nanDefault, h1, h2, h3]
end GeomV.C10
