import GeomV.C10.GenWrites
import GeomV.C10.Ctors
/-! Regenerated tie for the functions on a transformer's call path (proj/transform.go, adjust_axis.go,
Proj.go `Transformers`, datum_transform.go, datum.go): through their `*SR` / `*datum` parameters they
assign nothing — except `datumTransform`, which assigns `a`/`es` of both datums (and restores them in a
defer, fix 855dde6) — and they hand the SRs only to each other, to `Equal` (reflection, read-only) and to
the registered constructor (`arg-of t`).  A new call such as `source.DeriveConstants()` breaks this tie. -/
namespace GeomV.C10
def pathModel : List (String × List String × List String) := [
  ("NewTransform", [], ["arg-of Equal", "arg-of checkNotWGS", "arg-of transform3", "method Equal"]),
  ("Transformers", [], ["arg-of t"]),
  ("adjust_axis", [], []),
  ("checkNotWGS", [], []),
  ("compare_datums", [], []),
  ("datumTransform", ["dest.a", "dest.es", "source.a", "source.es"],
    ["arg-of compare_datums", "method compare_datums", "method geocentric_from_wgs84",
     "method geocentric_to_geodetic", "method geocentric_to_wgs84", "method geodetic_to_geocentric"]),
  ("geocentric_from_wgs84", [], []),
  ("geocentric_to_geodetic", [], []),
  ("geocentric_to_wgs84", [], []),
  ("geodetic_to_geocentric", [], []),
  ("transform3", [], ["arg-of adjust_axis", "method Transformers"])]
theorem tie_Path : Gen.pathWrites = pathModel := by decide
end GeomV.C10
