import GeomV.C10.GenAxisLoop
/-! Regenerated tie for `adjust_axis` (/repo/proj/adjust_axis.go): its WHOLE body — loop header, `continue`
guard, the if / else-if chain picking `v` and `t`, the switch with its cases and default, the final return —
translated from the Go source of the tree under test (go/ast, `GenAxisLoop.lean`, rewritten on every run) and
interpreted with Go's semantics (`AxisIR.lean`), IS the model's `adjustAxis` (three unrolled `axisStep`s) for
every axis string (any length), every point (any length) and every float semantics. -/
set_option linter.unusedSimpArgs false
set_option linter.unusedSectionVars false
namespace GeomV.C10
open AIR FOps

variable {F Err : Type} [FOps F]

/-- what an iteration leaves: the point, or the way out -/
def pointOf : AOut F Err → Option (Except (Fail Err) (List F))
  | .next s => some (.ok s.point)
  | .cont s => some (.ok s.point)
  | .ret (.error e) => some (.error e)
  | .ret (.ok _) => none
  | .stuck => none

theorem iter_eq (ae : Err) (axis : List Char) (s : AS F) (i : Nat) (hi : i < 3) :
    pointOf (execL ae axis i Gen.axisFn.body s) = some (axisStep ae axis s.point i) := by
  have h3 : i = 0 ∨ i = 1 ∨ i = 2 := by omega
  rcases h3 with rfl | rfl | rfl
  · cases hp : s.point[0]? with
    | none =>
      have hlen : s.point.length ≤ 0 := List.getElem?_eq_none_iff.mp hp
      by_cases hl2 : s.point.length = 2
      · first | (exfalso; omega) | simp [Gen.axisFn, execL, exec1, evalC, evalIx, axisStep, execActs, execAct, storeAt, setIdx, pointOf, List.lookup, *]
      · simp [Gen.axisFn, execL, exec1, evalC, evalIx, axisStep, execActs, execAct, storeAt, setIdx, pointOf, List.lookup, *]
    | some x =>
      have hk : 0 < s.point.length := (List.getElem?_eq_some_iff.mp hp).1
      by_cases hl2 : s.point.length = 2
      all_goals
        cases ha : axis[0]? with
        | none => simp [Gen.axisFn, execL, exec1, evalC, evalIx, axisStep, execActs, execAct, storeAt, setIdx, pointOf, List.lookup, *]
        | some ch =>
          by_cases he : ch = 'e'
          · subst he; by_cases hl3 : s.point.length = 3 <;> simp [Gen.axisFn, execL, exec1, evalC, evalIx, axisStep, execActs, execAct, storeAt, setIdx, pointOf, List.lookup, *] <;> omega
          by_cases hw : ch = 'w'
          · subst hw; by_cases hl3 : s.point.length = 3 <;> simp [Gen.axisFn, execL, exec1, evalC, evalIx, axisStep, execActs, execAct, storeAt, setIdx, pointOf, List.lookup, *] <;> omega
          by_cases hn : ch = 'n'
          · subst hn; by_cases hl3 : s.point.length = 3 <;> simp [Gen.axisFn, execL, exec1, evalC, evalIx, axisStep, execActs, execAct, storeAt, setIdx, pointOf, List.lookup, *] <;> omega
          by_cases hs : ch = 's'
          · subst hs; by_cases hl3 : s.point.length = 3 <;> simp [Gen.axisFn, execL, exec1, evalC, evalIx, axisStep, execActs, execAct, storeAt, setIdx, pointOf, List.lookup, *] <;> omega
          by_cases hu : ch = 'u'
          · subst hu; by_cases hl3 : s.point.length = 3 <;> simp [Gen.axisFn, execL, exec1, evalC, evalIx, axisStep, execActs, execAct, storeAt, setIdx, pointOf, List.lookup, *] <;> omega
          by_cases hd : ch = 'd'
          · subst hd; by_cases hl3 : s.point.length = 3 <;> simp [Gen.axisFn, execL, exec1, evalC, evalIx, axisStep, execActs, execAct, storeAt, setIdx, pointOf, List.lookup, *] <;> omega
          have e1 : (ch == 'e') = false := by simp [he]
          have e2 : (ch == 'w') = false := by simp [hw]
          have e3 : (ch == 'n') = false := by simp [hn]
          have e4 : (ch == 's') = false := by simp [hs]
          have e5 : (ch == 'u') = false := by simp [hu]
          have e6 : (ch == 'd') = false := by simp [hd]
          simp [Gen.axisFn, execL, exec1, evalC, evalIx, axisStep, execActs, execAct, storeAt, setIdx, pointOf, List.lookup, *]
  · cases hp : s.point[1]? with
    | none =>
      have hlen : s.point.length ≤ 1 := List.getElem?_eq_none_iff.mp hp
      by_cases hl2 : s.point.length = 2
      · first | (exfalso; omega) | simp [Gen.axisFn, execL, exec1, evalC, evalIx, axisStep, execActs, execAct, storeAt, setIdx, pointOf, List.lookup, *]
      · simp [Gen.axisFn, execL, exec1, evalC, evalIx, axisStep, execActs, execAct, storeAt, setIdx, pointOf, List.lookup, *]
    | some x =>
      have hk : 1 < s.point.length := (List.getElem?_eq_some_iff.mp hp).1
      by_cases hl2 : s.point.length = 2
      all_goals
        cases ha : axis[1]? with
        | none => simp [Gen.axisFn, execL, exec1, evalC, evalIx, axisStep, execActs, execAct, storeAt, setIdx, pointOf, List.lookup, *]
        | some ch =>
          by_cases he : ch = 'e'
          · subst he; by_cases hl3 : s.point.length = 3 <;> simp [Gen.axisFn, execL, exec1, evalC, evalIx, axisStep, execActs, execAct, storeAt, setIdx, pointOf, List.lookup, *] <;> omega
          by_cases hw : ch = 'w'
          · subst hw; by_cases hl3 : s.point.length = 3 <;> simp [Gen.axisFn, execL, exec1, evalC, evalIx, axisStep, execActs, execAct, storeAt, setIdx, pointOf, List.lookup, *] <;> omega
          by_cases hn : ch = 'n'
          · subst hn; by_cases hl3 : s.point.length = 3 <;> simp [Gen.axisFn, execL, exec1, evalC, evalIx, axisStep, execActs, execAct, storeAt, setIdx, pointOf, List.lookup, *] <;> omega
          by_cases hs : ch = 's'
          · subst hs; by_cases hl3 : s.point.length = 3 <;> simp [Gen.axisFn, execL, exec1, evalC, evalIx, axisStep, execActs, execAct, storeAt, setIdx, pointOf, List.lookup, *] <;> omega
          by_cases hu : ch = 'u'
          · subst hu; by_cases hl3 : s.point.length = 3 <;> simp [Gen.axisFn, execL, exec1, evalC, evalIx, axisStep, execActs, execAct, storeAt, setIdx, pointOf, List.lookup, *] <;> omega
          by_cases hd : ch = 'd'
          · subst hd; by_cases hl3 : s.point.length = 3 <;> simp [Gen.axisFn, execL, exec1, evalC, evalIx, axisStep, execActs, execAct, storeAt, setIdx, pointOf, List.lookup, *] <;> omega
          have e1 : (ch == 'e') = false := by simp [he]
          have e2 : (ch == 'w') = false := by simp [hw]
          have e3 : (ch == 'n') = false := by simp [hn]
          have e4 : (ch == 's') = false := by simp [hs]
          have e5 : (ch == 'u') = false := by simp [hu]
          have e6 : (ch == 'd') = false := by simp [hd]
          simp [Gen.axisFn, execL, exec1, evalC, evalIx, axisStep, execActs, execAct, storeAt, setIdx, pointOf, List.lookup, *]
  · cases hp : s.point[2]? with
    | none =>
      have hlen : s.point.length ≤ 2 := List.getElem?_eq_none_iff.mp hp
      by_cases hl2 : s.point.length = 2
      · first | (exfalso; omega) | simp [Gen.axisFn, execL, exec1, evalC, evalIx, axisStep, execActs, execAct, storeAt, setIdx, pointOf, List.lookup, *]
      · simp [Gen.axisFn, execL, exec1, evalC, evalIx, axisStep, execActs, execAct, storeAt, setIdx, pointOf, List.lookup, *]
    | some x =>
      have hk : 2 < s.point.length := (List.getElem?_eq_some_iff.mp hp).1
      by_cases hl2 : s.point.length = 2
      all_goals
        cases ha : axis[2]? with
        | none => simp [Gen.axisFn, execL, exec1, evalC, evalIx, axisStep, execActs, execAct, storeAt, setIdx, pointOf, List.lookup, *]
        | some ch =>
          by_cases he : ch = 'e'
          · subst he; by_cases hl3 : s.point.length = 3 <;> simp [Gen.axisFn, execL, exec1, evalC, evalIx, axisStep, execActs, execAct, storeAt, setIdx, pointOf, List.lookup, *] <;> omega
          by_cases hw : ch = 'w'
          · subst hw; by_cases hl3 : s.point.length = 3 <;> simp [Gen.axisFn, execL, exec1, evalC, evalIx, axisStep, execActs, execAct, storeAt, setIdx, pointOf, List.lookup, *] <;> omega
          by_cases hn : ch = 'n'
          · subst hn; by_cases hl3 : s.point.length = 3 <;> simp [Gen.axisFn, execL, exec1, evalC, evalIx, axisStep, execActs, execAct, storeAt, setIdx, pointOf, List.lookup, *] <;> omega
          by_cases hs : ch = 's'
          · subst hs; by_cases hl3 : s.point.length = 3 <;> simp [Gen.axisFn, execL, exec1, evalC, evalIx, axisStep, execActs, execAct, storeAt, setIdx, pointOf, List.lookup, *] <;> omega
          by_cases hu : ch = 'u'
          · subst hu; by_cases hl3 : s.point.length = 3 <;> simp [Gen.axisFn, execL, exec1, evalC, evalIx, axisStep, execActs, execAct, storeAt, setIdx, pointOf, List.lookup, *] <;> omega
          by_cases hd : ch = 'd'
          · subst hd; by_cases hl3 : s.point.length = 3 <;> simp [Gen.axisFn, execL, exec1, evalC, evalIx, axisStep, execActs, execAct, storeAt, setIdx, pointOf, List.lookup, *] <;> omega
          have e1 : (ch == 'e') = false := by simp [he]
          have e2 : (ch == 'w') = false := by simp [hw]
          have e3 : (ch == 'n') = false := by simp [hn]
          have e4 : (ch == 's') = false := by simp [hs]
          have e5 : (ch == 'u') = false := by simp [hu]
          have e6 : (ch == 'd') = false := by simp [hd]
          simp [Gen.axisFn, execL, exec1, evalC, evalIx, axisStep, execActs, execAct, storeAt, setIdx, pointOf, List.lookup, *]

/-- `n` iterations of the model's `axisStep` from index `i` -/
def stepsFrom (ae : Err) (axis : List Char) : Nat → Nat → List F → Except (Fail Err) (List F)
  | 0, _, p => .ok p
  | n + 1, i, p =>
    match axisStep ae axis p i with
    | .ok p' => stepsFrom ae axis n (i + 1) p'
    | .error e => .error e

theorem loopA_eq (ae : Err) (axis : List Char) : ∀ (n i : Nat) (s : AS F), i + n ≤ 3 →
    loopA ae axis Gen.axisFn.body n i s = some (stepsFrom ae axis n i s.point)
  | 0, _, _, _ => rfl
  | n + 1, i, s, h => by
    have hi := iter_eq ae axis s i (by omega)
    simp only [loopA, stepsFrom]
    cases e : execL ae axis i Gen.axisFn.body s with
    | stuck => rw [e] at hi; simp [pointOf] at hi
    | ret r =>
      cases r with
      | ok q => rw [e] at hi; simp [pointOf] at hi
      | error err => rw [e] at hi; simp only [pointOf, Option.some.injEq] at hi; simp [← hi]
    | next s1 =>
      rw [e] at hi; simp only [pointOf, Option.some.injEq] at hi
      simp only [← hi]
      exact loopA_eq ae axis n (i + 1) s1 (by omega)
    | cont s1 =>
      rw [e] at hi; simp only [pointOf, Option.some.injEq] at hi
      simp only [← hi]
      exact loopA_eq ae axis n (i + 1) s1 (by omega)

/-- `adjust_axis` as extracted from the source = the model's `adjustAxis`, for every axis string, `denorm` flag
and point -/
theorem tie_AxisLoop (ae : Err) (axis : List Char) (dn : Bool) (point : List F) :
    runAxis ae axis Gen.axisFn point = some (adjustAxis ae axis dn point) := by
  have hrun : runAxis ae axis Gen.axisFn point =
      loopA ae axis Gen.axisFn.body 3 0 { point := point, v := none, t := none } := by
    simp [runAxis, Gen.axisFn]
  rw [hrun, loopA_eq ae axis 3 0 _ (by omega)]
  simp only [stepsFrom, adjustAxis]
  cases h0 : axisStep ae axis point 0 with
  | error e => simp
  | ok p1 =>
    cases h1 : axisStep ae axis p1 1 with
    | error e => simp [h1]
    | ok p2 => cases h2 : axisStep ae axis p2 2 <;> simp [h1, h2]

/-- nothing else in `adjust_axis`: two declarations, one loop, one return; the signature -/
theorem tie_AxisShape :
    Gen.axisExtra = [] ∧ Gen.axisSig = "func(crs *SR, denorm bool, point []float64) ([]float64, error)" := by decide
end GeomV.C10
