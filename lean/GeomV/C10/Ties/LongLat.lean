import GeomV.C10.GenWrites
import GeomV.C10.GenBodies
import GeomV.C10.Ctors
/-! Regenerated tie for the constructor `LongLat` (/repo/proj): the fields it assigns in the Go source (go/ast
extraction, `GenWrites.lean`, rewritten on every run) are exactly the model's write set; its closures
assign nothing; no compound assignment; the SR is passed on only to the modelled callees; no field
address is taken. -/
set_option linter.unusedSimpArgs false
namespace GeomV.C10
theorem tie_LongLat :
    Gen.ctorWrites.lookup "LongLat" = some (writeSet .longlat, [], [], calleesOf .longlat, []) := by decide

/-- Regenerated tie for the VALUES and CONDITIONS: the slice of `LongLat`'s body that decides its writes and
its error (extracted by go/ast into `GenBodies.lean` on every run), interpreted by `IR.run`, equals the
model `initP .longlat` for every SR and every float semantics. -/
theorem tie_body_LongLat : BodyTie Gen.ctorBodies .longlat := by
  open IR POps in
  intro F R _ p; rfl
end GeomV.C10
