import GeomV.C10.GenState
/-! Regenerated tie against HIDDEN STATE ("a Transformer is a function of its arguments only", "leaves the
input untouched"): in the Go source of the tree under test (go/ast extraction on every run, `GenState.lean`),
no function on a transformer's call path, no projection constructor, no function they (transitively) call
inside package proj, no function literal inside any of them — in particular the closure returned by
`NewTransform` and the forward/inverse closures — and none of the eight `Transform` methods of transform.go
assigns to, stores through or takes the address of a variable it does not declare itself (a captured variable
or a package-level one), or starts a goroutine.  The single exception is the deferred literal of
`datumTransform`, which restores `a`/`es` of its enclosing function's two `*datum` parameters
(`tie_Datum`, `C10_datum_frame`).

A memo in the closure (captured `lastX`), the snapshot's `source = wgs84`, a package-level scratch buffer or
cache written on the path all break this tie.  State kept by METHOD CALLS on a package-level object
(`sync.Map.Store`) is not seen here; the run-time checks (fresh-transformer comparison, late re-check of
earlier results) cover that. -/
namespace GeomV.C10

def stateModel : List (String × List String) :=
  [("proj.datumTransform/func1", ["field dest", "field source"])]

/-- the functions that must be among the analysed ones (a rename cannot silently drop one) -/
def stateRequired : List String :=
  ["geom.*Bounds.Transform", "geom.GeometryCollection.Transform", "geom.LineString.Transform",
   "geom.MultiLineString.Transform", "geom.MultiPoint.Transform", "geom.MultiPolygon.Transform",
   "geom.Point.Transform", "geom.Polygon.Transform",
   "proj.NewTransform", "proj.NewTransform/func1", "proj.transform3", "proj.Transformers", "proj.adjust_axis",
   "proj.checkNotWGS", "proj.datumTransform", "proj.datumTransform/func1", "proj.compare_datums",
   "proj.geodetic_to_geocentric", "proj.geocentric_to_geodetic", "proj.geocentric_to_wgs84",
   "proj.geocentric_from_wgs84", "proj.Parse",
   "proj.LongLat", "proj.LongLat/func1", "proj.Merc", "proj.Merc/func1", "proj.Merc/func2",
   "proj.TMerc", "proj.TMerc/func1", "proj.TMerc/func2", "proj.UTM", "proj.LCC", "proj.LCC/func1", "proj.LCC/func2",
   "proj.AEA", "proj.AEA/func1", "proj.AEA/func2", "proj.EqdC", "proj.EqdC/func1", "proj.EqdC/func2",
   "proj.Krovak", "proj.Krovak/func1", "proj.Krovak/func2"]

theorem tie_State :
    Gen.nonlocalWrites = stateModel ∧ stateRequired.all (fun n => Gen.analysed.contains n) = true := by
  decide
end GeomV.C10
