import GeomV.C10.GenDatumBody
import GeomV.C10.GenTransform
/-! Regenerated tie for `datumTransform` (/repo/proj/datum_transform.go): its WHOLE body, translated statement by
statement from the Go source of the tree under test (go/ast, `GenDatumBody.lean`, rewritten on every run) and
interpreted with Go's semantics for the pointer parameters (into the shared heap, or re-pointed to a local copy),
the saved locals, the deferred function (run on every way out after the `defer`, panics of callees included,
assigning through the pointers as they are then) and `err` (`DatumIR.lean`), IS the hand-written model
`datumTransformM` of `Datum.lean` — the heap it leaves AND the answer — for every heap, every pair of pointers
(aliasing included), every point and every choice of the abstract callees. -/
set_option linter.unusedSimpArgs false
set_option linter.unusedSectionVars false
namespace GeomV.C10
open DIR

variable {F R Err : Type}

/-- unfold the interpreter and the model, using every hypothesis in scope -/
local macro "dt_simp" : tactic => `(tactic|
  simp [Gen.datumBody, Gen.cdpBody, Gen.datumConsts, execL, exec1, evalB, tyVal, deref, getF, putF, writeF,
    setLoc, fconst, callee, runRestores, List.lookup, dtAfterDefer, destCopied, restore, restoreSrc, dtTail,
    geocentric, cdp, DHeap.set, *])

theorem tie_DatumBody (o : DOps F R Err) (h : DHeap F R) (s d : Nat) (v : F × F × F) :
    runDT o Gen.datumConsts Gen.cdpBody Gen.datumBody h s d v = some (datumTransformM o h s d v) := by
  unfold runDT datumTransformM
  cases hc : o.compare (h s) (h d) with
  | error e => dt_simp
  | ok b =>
    cases b with
    | true => dt_simp
    | false =>
      by_cases h5s : (h s).dtype = 5
      · dt_simp
      by_cases h5d : (h d).dtype = 5
      · dt_simp
      by_cases h3s : (h s).dtype = 3
      · dt_simp
      by_cases h3d : (h d).dtype = 3
      · by_cases h1 : (h s).dtype = 1
        · cases hg1 : o.geodeticToGeocentric (h s) v with
          | error e => cases e <;> dt_simp
          | ok w1 =>
            cases hg2 : o.geocentricToWgs84 (h s) w1 with
            | error e => dt_simp
            | ok w2 =>
              cases hg3 : o.geocentricToGeodetic { dtype := 3, a := o.wgsA, es := o.wgsEs, ro := (h d).ro } w2 <;> dt_simp
        · by_cases h2 : (h s).dtype = 2
          · cases hg1 : o.geodeticToGeocentric (h s) v with
            | error e => cases e <;> dt_simp
            | ok w1 =>
              cases hg2 : o.geocentricToWgs84 (h s) w1 with
              | error e => dt_simp
              | ok w2 =>
                cases hg3 : o.geocentricToGeodetic { dtype := 3, a := o.wgsA, es := o.wgsEs, ro := (h d).ro } w2 <;> dt_simp
          · cases hb1 : o.fne (h s).es o.wgsEs <;> cases hb2 : o.fne (h s).a o.wgsA <;>
              cases hg1 : o.geodeticToGeocentric (h s) v with
              | error e => cases e <;> dt_simp
              | ok w1 =>
                cases hg3 : o.geocentricToGeodetic { dtype := 3, a := o.wgsA, es := o.wgsEs, ro := (h d).ro } w1 <;> dt_simp
      · by_cases h1 : (h s).dtype = 1
        · 
          by_cases hd1 : (h d).dtype = 1
          · 
            cases hg1 : o.geodeticToGeocentric (h s) v with
            | error e => cases e <;> dt_simp
            | ok w1 =>
              cases hg2 : o.geocentricToWgs84 (h s) w1 with
              | error e => dt_simp
              | ok w2 =>
                cases hg3 : o.geocentricFromWgs84 (h d) w2 with
                | error e => dt_simp
                | ok w3 =>
                  cases hg4 : o.geocentricToGeodetic (h d) w3 <;> dt_simp
          by_cases hd2 : (h d).dtype = 2
          · 
            cases hg1 : o.geodeticToGeocentric (h s) v with
            | error e => cases e <;> dt_simp
            | ok w1 =>
              cases hg2 : o.geocentricToWgs84 (h s) w1 with
              | error e => dt_simp
              | ok w2 =>
                cases hg3 : o.geocentricFromWgs84 (h d) w2 with
                | error e => dt_simp
                | ok w3 =>
                  cases hg4 : o.geocentricToGeodetic (h d) w3 <;> dt_simp
          cases hg1 : o.geodeticToGeocentric (h s) v with
          | error e => cases e <;> dt_simp
          | ok w1 =>
            cases hg2 : o.geocentricToWgs84 (h s) w1 with
            | error e => dt_simp
            | ok w2 =>
              cases hg4 : o.geocentricToGeodetic (h d) w2 <;> dt_simp
        by_cases h2 : (h s).dtype = 2
        · 
          by_cases hd1 : (h d).dtype = 1
          · 
            cases hg1 : o.geodeticToGeocentric (h s) v with
            | error e => cases e <;> dt_simp
            | ok w1 =>
              cases hg2 : o.geocentricToWgs84 (h s) w1 with
              | error e => dt_simp
              | ok w2 =>
                cases hg3 : o.geocentricFromWgs84 (h d) w2 with
                | error e => dt_simp
                | ok w3 =>
                  cases hg4 : o.geocentricToGeodetic (h d) w3 <;> dt_simp
          by_cases hd2 : (h d).dtype = 2
          · 
            cases hg1 : o.geodeticToGeocentric (h s) v with
            | error e => cases e <;> dt_simp
            | ok w1 =>
              cases hg2 : o.geocentricToWgs84 (h s) w1 with
              | error e => dt_simp
              | ok w2 =>
                cases hg3 : o.geocentricFromWgs84 (h d) w2 with
                | error e => dt_simp
                | ok w3 =>
                  cases hg4 : o.geocentricToGeodetic (h d) w3 <;> dt_simp
          cases hg1 : o.geodeticToGeocentric (h s) v with
          | error e => cases e <;> dt_simp
          | ok w1 =>
            cases hg2 : o.geocentricToWgs84 (h s) w1 with
            | error e => dt_simp
            | ok w2 =>
              cases hg4 : o.geocentricToGeodetic (h d) w2 <;> dt_simp
        by_cases hd1 : (h d).dtype = 1
        · 
          cases hg1 : o.geodeticToGeocentric (h s) v with
          | error e => cases e <;> dt_simp
          | ok w1 =>
            cases hg3 : o.geocentricFromWgs84 (h d) w1 with
            | error e => dt_simp
            | ok w3 =>
              cases hg4 : o.geocentricToGeodetic (h d) w3 <;> dt_simp
        by_cases hd2 : (h d).dtype = 2
        · 
          cases hg1 : o.geodeticToGeocentric (h s) v with
          | error e => cases e <;> dt_simp
          | ok w1 =>
            cases hg3 : o.geocentricFromWgs84 (h d) w1 with
            | error e => dt_simp
            | ok w3 =>
              cases hg4 : o.geocentricToGeodetic (h d) w3 <;> dt_simp
        cases hb1 : o.fne (h s).es (h d).es <;> cases hb2 : o.fne (h s).a (h d).a
        · dt_simp
        · 
          cases hg1 : o.geodeticToGeocentric (h s) v with
          | error e => cases e <;> dt_simp
          | ok w1 =>
            cases hg4 : o.geocentricToGeodetic (h d) w1 <;> dt_simp
        · 
          cases hg1 : o.geodeticToGeocentric (h s) v with
          | error e => cases e <;> dt_simp
          | ok w1 =>
            cases hg4 : o.geocentricToGeodetic (h d) w1 <;> dt_simp
        · 
          cases hg1 : o.geodeticToGeocentric (h s) v with
          | error e => cases e <;> dt_simp
          | ok w1 =>
            cases hg4 : o.geocentricToGeodetic (h d) w1 <;> dt_simp

/-- the signatures the interpreter's initial state assumes (two pointer parameters, the point, four results) -/
theorem tie_DatumSig :
    Gen.datumSig = "func(source, dest *datum, x, y, z float64) (float64, float64, float64, error)" ∧
    Gen.cdpSig = "func(fallback datumType) bool" := by decide
end GeomV.C10
