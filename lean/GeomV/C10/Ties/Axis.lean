import GeomV.C10.GenAxis
import GeomV.C10.Transformer
/-! Regenerated tie for `adjust_axis` (/repo/proj/adjust_axis.go): the loop header, the `continue` guard, the
chain that picks `v`/`t` from `i`, the switch tag, the default case and the final return are pinned as source
text (they fix the SHAPE the model unrolls: three iterations `i = 0, 1, 2`, `v = point[i]`, `t = i`, the vertical
axis of a 2-D point skipped, an unknown letter returns the error); the switch's CASE TABLE — letter ↦ statements,
extracted by go/ast on every run (`GenAxis.lean`) — is given a semantics (`axisStepT`: each statement text is one
of four known actions, anything else is stuck) and proved equal to the model's `axisStep` for every axis string,
every point and every index. -/
set_option linter.unusedSimpArgs false
namespace GeomV.C10
open GeomV FOps

inductive AxAct where
  | pos | neg | upPos | upNeg
deriving DecidableEq

/-- the four statement forms of the switch's cases -/
def actOf (s : String) : Option AxAct :=
  if s = "point[t] = v" then some .pos
  else if s = "point[t] = -v" then some .neg
  else if s = "if len(point) == 3 { point[2] = v }" then some .upPos
  else if s = "if len(point) == 3 { point[2] = -v }" then some .upNeg
  else none

section
variable {F Err : Type} [FOps F]

/-- one iteration of the loop, reading the case table: `t = i`, `v = point[i]` -/
def axisStepT (cases : List (Char × String)) (ae : Err) (axis : List Char) (point : List F) (i : Nat) :
    Option (Except (Fail Err) (List F)) :=
  if i = 2 ∧ point.length = 2 then some (.ok point)
  else
    match point[i]? with
    | none => some (.error (.panic .index))
    | some v =>
      match axis[i]? with
      | none => some (.error (.panic .index))
      | some ch =>
        match cases.lookup ch with
        | none => some (.error (.err ae))
        | some a =>
          match actOf a with
          | none => none
          | some .pos => some (setIdx point i v)
          | some .neg => some (setIdx point i (neg v))
          | some .upPos => some (if point.length = 3 then setIdx point 2 v else .ok point)
          | some .upNeg => some (if point.length = 3 then setIdx point 2 (neg v) else .ok point)

/-- the case table as extracted, with the four statement forms read as actions, is the model's `axisStep` -/
theorem tie_Axis_cases (ae : Err) (axis : List Char) (point : List F) (i : Nat) :
    axisStepT Gen.axisCases ae axis point i = some (axisStep ae axis point i) := by
  unfold axisStepT axisStep
  by_cases h0 : i = 2 ∧ point.length = 2
  · simp [h0]
  · simp only [h0, if_false]
    cases point[i]? with
    | none => rfl
    | some v =>
      cases axis[i]? with
      | none => rfl
      | some ch =>
        simp only [Gen.axisCases, List.lookup]
        by_cases he : ch = 'e'
        · subst he; simp [actOf]
        · by_cases hw : ch = 'w'
          · subst hw; simp [actOf]
          · by_cases hn : ch = 'n'
            · subst hn; simp [actOf]
            · by_cases hs : ch = 's'
              · subst hs; simp [actOf]
              · by_cases hu : ch = 'u'
                · subst hu; simp [actOf]
                · by_cases hd : ch = 'd'
                  · subst hd; simp [actOf]
                  · have e1 : (ch == 'e') = false := by simp [he]
                    have e2 : (ch == 'w') = false := by simp [hw]
                    have e3 : (ch == 'n') = false := by simp [hn]
                    have e4 : (ch == 's') = false := by simp [hs]
                    have e5 : (ch == 'u') = false := by simp [hu]
                    have e6 : (ch == 'd') = false := by simp [hd]
                    simp [e1, e2, e3, e4, e5, e6, he, hw, hn, hs, hu, hd]
end

/-- the texts that fix the loop's shape, as the model reads them -/
theorem tie_Axis :
    Gen.axisLoop = ("i := 0", "i < 3", "i++") ∧
    Gen.axisSkip = "i == 2 && len(point) == 2" ∧
    Gen.axisPick = [("i == 0", "v = point[0]; t = 0"), ("i == 1", "v = point[1]; t = 1"), ("", "v = point[2]; t = 2")] ∧
    Gen.axisTag = "crs.Axis[i]" ∧
    Gen.axisCases.map (·.1) = ['e', 'w', 'n', 's', 'u', 'd'] ∧
    Gen.axisDefault = "err := fmt.Errorf(\"in plot.adjust_axis: unknown axis (%v). check \"+ \"definition of %s\", crs.Axis[i], crs.Name); return nil, err" ∧
    Gen.axisTail = "return point, nil" ∧
    Gen.axisOther = [] := ⟨rfl, rfl, rfl, rfl, rfl, rfl, rfl, rfl⟩
end GeomV.C10
