import GeomV.C10.GenTransform
/-! Regenerated tie for `checkNotWGS`, `transform3` and the closure returned by `NewTransform`
(proj/transform.go): their bodies, translated statement by statement from the Go source of the tree under test
(go/ast, `GenTransform.lean`, rewritten on every run) and interpreted with Go's semantics (`TransformIR.lean`),
ARE the hand-written model of `Transformer.lean` — `notWGS`, `stepNoHop` (with `body`), `step` — for every
heap, every transformer, every input, every choice of the abstract callees (`Core`) and every float semantics. -/
set_option linter.unusedSimpArgs false
set_option linter.unusedSectionVars false
namespace GeomV.C10
open TIR FOps

variable {F P Err : Type} [FOps F]

/-- the fixed context of a run: the extracted `checkNotWGS` and constants, the abstract callees -/
def genEnv (c : Core F P Err) (wgs : Nat)
    (t3 : Heap F P → Nat → Nat → F → F → F → Heap F P × Res3 F Err) : Env F P Err :=
  { core := c, wgs := wgs, t3 := t3, pred := Gen.checkNotWGS, consts := Gen.datumConsts, strs := Gen.strConsts }

/-- the constants the model and the harness rely on (datum_type values reported by reflection, the float
literals instantiated in the driver) -/
theorem tie_TransformConsts :
    Gen.datumConsts = [("pjd3Param", 1), ("pjd7Param", 2), ("pjdGridShift", 3), ("pjdNoDatum", 5), ("pjdWGS84", 4)] ∧
    Gen.strConsts = [("enu", enu), ("longlat", longlatStr)] ∧
    Gen.floatConsts = [("deg2rad", "0.01745329251994329577"), ("r2d", "57.29577951308232088")] ∧
    Gen.newTransformPrelude = ["if dest == nil { return nil, fmt.Errorf(\"proj: destination is nil\") }",
      "const ulpTolerance = 3", "if source.Equal(dest, 3) { return nil, nil }"] := by decide

/-- `checkNotWGS(a, b)` as extracted = `notWGS` on the records the two variables point to -/
theorem tie_checkNotWGS (c : Core F P Err) (wgs : Nat) (t3) (s : XS F P Err) (a b : String) :
    evalB (genEnv c wgs t3) 1 s (.call "checkNotWGS" a b) =
      match getSR s a, getSR s b with
      | some i, some j => some (notWGS (s.heap i) (s.heap j))
      | _, _ => none := by
  cases ha : getSR s a <;> cases hb : getSR s b <;>
    simp only [evalB, genEnv, Gen.checkNotWGS, ha, hb, if_true] <;>
    simp [evalB, getSR, List.lookup, Gen.datumConsts, notWGS]

section evalB_eqs
variable (env : Env F P Err) (fuel : Nat) (s : XS F P Err)
theorem evalB_errNotNil : evalB env fuel s .errNotNil = some s.err.isSome := by cases fuel <;> simp [evalB]
theorem evalB_or (a b : BEx) : evalB env fuel s (.or a b) =
    match evalB env fuel s a, evalB env fuel s b with
    | some x, some y => some (x || y)
    | _, _ => none := by cases fuel <;> simp only [evalB] <;> rfl
theorem evalB_strNe (sr f k : String) : evalB env fuel s (.strNe sr f k) =
    match getSR s sr, env.strs.lookup k with
    | some i, some str => if f = "Axis" then some (decide ((s.heap i).axis ≠ str)) else none
    | _, _ => none := by cases fuel <;> simp only [evalB] <;> rfl
theorem evalB_strEq (sr f k : String) : evalB env fuel s (.strEq sr f k) =
    match getSR s sr, env.strs.lookup k with
    | some i, some str => if f = "Name" ∧ str = longlatStr then some (s.heap i).longlat else none
    | _, _ => none := by cases fuel <;> simp only [evalB] <;> rfl
theorem evalB_notNaN (e : FEx) : evalB env fuel s (.notNaN e) =
    match evalF s e with | .val x => some (!isNaN x) | _ => none := by cases fuel <;> simp only [evalB] <;> rfl
end evalB_eqs

theorem tie_closure (c : Core F P Err) (wgs : Nat) (h : Heap F P) (tr : Tr) (x y : F) :
    runC (genEnv c wgs (stepNoHop c)) Gen.closure h tr x y = some (step c wgs h tr x y) := by
  simp only [runC, Gen.closure, step, needsHop]
  rcases Bool.eq_false_or_eq_true (notWGS (h tr.src) (h tr.dst) || notWGS (h tr.dst) (h tr.src)) with hh | hh
  · simp [exec, evalB_errNotNil, evalB_or, tie_checkNotWGS, evalF, evalFs, getSR, List.lookup, hh]
    simp [genEnv]
    generalize stepNoHop c h tr.src wgs x y zero = r
    obtain ⟨h', r'⟩ := r
    cases r' with
    | ok a b z' =>
      simp [liftEV, assignAll, assign1, failWith, dropZ, List.lookup]
      generalize stepNoHop c h' wgs tr.dst a b z' = r2
      obtain ⟨h2, r2'⟩ := r2
      cases r2' <;> simp [liftEV, assignAll, assign1, failWith, dropZ, List.lookup]
    | err e => simp [liftEV, assignAll, assign1, failWith, dropZ, List.lookup]
    | panic f => simp [liftEV, assignAll, assign1, failWith, dropZ, List.lookup]
  · simp [exec, evalB_errNotNil, evalB_or, tie_checkNotWGS, evalF, evalFs, getSR, List.lookup, hh]
    simp [genEnv]
    generalize stepNoHop c h tr.src tr.dst x y zero = r
    obtain ⟨h', r'⟩ := r
    cases r' <;> simp [liftEV, assignAll, assign1, failWith, dropZ, List.lookup]

/-! ### `transform3` -/

theorem setIdx_len (pt : List F) (i : Nat) (v : F) (r : List F)
    (h : setIdx (Err := Err) pt i v = .ok r) : r.length = pt.length := by
  unfold setIdx at h; split at h <;> simp_all
  subst h; simp

theorem axisStep_len (ae : Err) (ax : List Char) (pt : List F) (i : Nat) (r : List F)
    (h : axisStep ae ax pt i = .ok r) : r.length = pt.length := by
  unfold axisStep at h
  repeat' split at h
  all_goals first
    | (cases h; rfl)
    | exact setIdx_len _ _ _ _ h
    | (exact absurd h (by simp))

theorem adjustAxis_len (ae : Err) (ax : List Char) (dn : Bool) (pt r : List F)
    (h : adjustAxis ae ax dn pt = .ok r) : r.length = pt.length := by
  unfold adjustAxis at h
  split at h
  · exact absurd h (by simp)
  · rename_i p1 h1
    split at h
    · exact absurd h (by simp)
    · rename_i p2 h2
      rw [axisStep_len _ _ _ _ _ h, axisStep_len _ _ _ _ _ h2, axisStep_len _ _ _ _ _ h1]

/-- drop the first `n` statements of a right-nested sequence -/
def dropSt : Nat → St → St
  | 0, p => p
  | n+1, .seq _ b => dropSt n b
  | _+1, p => p

/-- what `run3` makes of the interpreter's result -/
def post3 : R F P Err → Option (Heap F P × Res3 F Err)
  | .retOk s' [a, b, c] => some (s'.heap, .ok a b c)
  | .retErr s' e => some (s'.heap, .err e)
  | .panic s' f => some (s'.heap, .panic f)
  | _ => none

/-- the interpreter's state inside `transform3` once both constructors have run -/
def stAt (H : Heap F P) (s d : Nat) (fl : List (String × F)) (pt : List F) : XS F P Err :=
  { heap := H, fl := fl, point := pt, err := none, srs := [("source", s), ("dest", d)], capt := [],
    fns := [("destForward", false, d, true), ("sourceInverse", true, s, true)], junk := false }

/-! the model's `body`, cut at the same places as the source -/
def phG (c : Core F P Err) (D : SR F P) (x y z : F) : Res3 F Err :=
  match axisPart c.axisErr D.axis true x y with
  | .error e => failToRes e
  | .ok (x, y) => .ok x y z
def phF (c : Core F P Err) (D : SR F P) (x y z : F) : Res3 F Err :=
  match (if D.longlat then (.ok (mul x r2d, mul y r2d) : Except Err (F × F))
         else match c.fwd D.p x y with
           | .error e => .error e
           | .ok (x, y) => .ok (div x D.toMeter, div y D.toMeter)) with
  | .error e => .err e
  | .ok (x, y) => phG c D x y z
def phD (c : Core F P Err) (s d : Nat) (D : SR F P) (x y z : F) : Res3 F Err :=
  match c.dt s d x y z with
  | .error e => failToRes e
  | .ok (x, y, z) => phF c D (if isNaN D.fromGreenwich then x else sub x D.fromGreenwich) y z
def phB (c : Core F P Err) (s d : Nat) (S D : SR F P) (x y z : F) : Res3 F Err :=
  match (if S.longlat then (.ok (mul x deg2rad, mul y deg2rad) : Except Err (F × F))
         else c.inv S.p (mul x S.toMeter) (mul y S.toMeter)) with
  | .error e => .err e
  | .ok (x, y) => phD c s d D (if isNaN S.fromGreenwich then x else add x S.fromGreenwich) y z

theorem body_eq (c : Core F P Err) (s d : Nat) (S D : SR F P) (x y z : F) :
    body c s d S D x y z =
      match axisPart c.axisErr S.axis false x y with
      | .error e => failToRes e
      | .ok (x, y) => phB c s d S D x y z := by
  unfold body phB phD phF phG
  rfl

def headSt : St → St
  | .seq a _ => a
  | p => p

theorem exec_seq (env : Env F P Err) (a b : St) (s : XS F P Err) :
    exec env (.seq a b) s = match exec env a s with | .cont s' => exec env b s' | r => r := by
  rw [exec]; rfl

section phases
variable (c : Core F P Err) (wgs : Nat) (t3 : Heap F P → Nat → Nat → F → F → F → Heap F P × Res3 F Err)
  (H : Heap F P) (s d : Nat) (fl : List (String × F)) (a b z : F)

theorem ph_G (hz : fl.lookup "z" = some z) :
    post3 (exec (genEnv c wgs t3) (dropSt 12 Gen.transform3.2.2) (stAt H s d fl [a, b])) =
      some (H, phG c (H d) a b z) := by
  simp only [Gen.transform3, dropSt]
  unfold phG axisPart
  by_cases hax : (H d).axis = enu
  · have hax' : (H d).axis = ['e', 'n', 'u'] := hax
    simp [exec, evalB_strNe, evalB_errNotNil, evalF, evalFs, getSR, List.lookup, genEnv, Gen.strConsts, stAt,
      post3, hax', hz, enu]
  · have hax' : ¬ (H d).axis = ['e', 'n', 'u'] := hax
    cases hadj : adjustAxis c.axisErr (H d).axis true [a, b] with
    | error e =>
      cases e <;>
        simp [exec, evalB_strNe, evalB_errNotNil, evalF, evalFs, getSR, List.lookup, genEnv, Gen.strConsts, stAt,
          post3, hax, hax', hz, hadj, failToRes]
    | ok pt =>
      have hl := adjustAxis_len _ _ _ _ _ hadj
      match pt, hl with
      | [a', b'], _ =>
        simp [exec, evalB_strNe, evalB_errNotNil, evalF, evalFs, getSR, List.lookup, genEnv, Gen.strConsts, stAt,
          post3, hax, hax', hz, hadj, failToRes]
theorem ph_F (hz : fl.lookup "z" = some z) :
    post3 (exec (genEnv c wgs t3) (dropSt 11 Gen.transform3.2.2) (stAt H s d fl [a, b])) =
      some (H, phF c (H d) a b z) := by
  have hN := fun a b => ph_G c wgs t3 H s d fl a b z hz
  have e : dropSt 11 Gen.transform3.2.2 =
      .seq (headSt (dropSt 11 Gen.transform3.2.2)) (dropSt 12 Gen.transform3.2.2) := rfl
  rw [e, exec_seq]
  generalize dropSt 12 Gen.transform3.2.2 = rest at hN ⊢
  simp only [Gen.transform3, dropSt, headSt]
  simp [stAt, genEnv, post3, Gen.strConsts] at hN
  unfold phF
  cases hll : (H d).longlat
  · cases hf : c.fwd (H d).p a b with
    | error e =>
      simp [exec, evalB_strEq, evalB_errNotNil, evalF, evalFs, getSR, List.lookup, genEnv, Gen.strConsts, stAt,
        post3, hz, hll, hf, failWith, longlatStr]
    | ok r =>
      obtain ⟨x', y'⟩ := r
      simp [exec, evalB_strEq, evalB_errNotNil, evalF, evalFs, getSR, List.lookup, genEnv, Gen.strConsts, stAt,
        post3, hz, hll, hf, failWith, longlatStr, liftEV, assignAll, assign1, applyOp, lvEx, hN]
  · simp [exec, evalB_strEq, evalB_errNotNil, evalF, evalFs, getSR, List.lookup, genEnv, Gen.strConsts, stAt,
      post3, hz, hll, longlatStr, liftEV, assignAll, assign1, applyOp, lvEx, hN]
theorem ph_D (hz : fl.lookup "z" = some z) :
    post3 (exec (genEnv c wgs t3) (dropSt 8 Gen.transform3.2.2) (stAt H s d fl [a, b])) =
      some (H, phD c s d (H d) a b z) := by
  have hN := fun fl z (hz : fl.lookup "z" = some z) a b => ph_F c wgs t3 H s d fl a b z hz
  have e : dropSt 8 Gen.transform3.2.2 =
      .seq (headSt (dropSt 8 Gen.transform3.2.2)) (.seq (headSt (dropSt 9 Gen.transform3.2.2))
        (.seq (headSt (dropSt 10 Gen.transform3.2.2)) (dropSt 11 Gen.transform3.2.2))) := rfl
  rw [e]
  generalize dropSt 11 Gen.transform3.2.2 = rest at hN ⊢
  simp only [Gen.transform3, dropSt, headSt]
  unfold phD
  cases hd : c.dt s d a b z with
  | error e => cases e <;> simp [exec, evalB_strEq, evalB_strNe, evalB_notNaN, evalB_errNotNil, evalF, evalFs, getSR, List.lookup, genEnv, Gen.strConsts, stAt, post3, failWith, longlatStr, liftEV, assignAll, assign1, applyOp, lvEx, bindFn, hz, hd, failToRes]
  | ok r =>
    obtain ⟨x', y', z'⟩ := r
    have hN' := fun a b => hN (("z", z') :: fl) z' (by simp [List.lookup]) a b
    simp [stAt, genEnv, post3, Gen.strConsts] at hN'
    cases hfg : isNaN (H d).fromGreenwich <;> simp [exec, evalB_strEq, evalB_strNe, evalB_notNaN, evalB_errNotNil, evalF, evalFs, getSR, List.lookup, genEnv, Gen.strConsts, stAt, post3, failWith, longlatStr, liftEV, assignAll, assign1, applyOp, lvEx, bindFn, hz, hd, hfg, hN']

theorem ph_B (hz : fl.lookup "z" = some z) :
    post3 (exec (genEnv c wgs t3) (dropSt 6 Gen.transform3.2.2) (stAt H s d fl [a, b])) =
      some (H, phB c s d (H s) (H d) a b z) := by
  have hN := fun a b => ph_D c wgs t3 H s d fl a b z hz
  have e : dropSt 6 Gen.transform3.2.2 =
      .seq (headSt (dropSt 6 Gen.transform3.2.2)) (.seq (headSt (dropSt 7 Gen.transform3.2.2))
        (dropSt 8 Gen.transform3.2.2)) := rfl
  rw [e]
  generalize dropSt 8 Gen.transform3.2.2 = rest at hN ⊢
  simp only [Gen.transform3, dropSt, headSt]
  simp [stAt, genEnv, post3, Gen.strConsts] at hN
  unfold phB
  cases hll : (H s).longlat
  · cases hi : c.inv (H s).p (mul a (H s).toMeter) (mul b (H s).toMeter) with
    | error e => simp [exec, evalB_strEq, evalB_strNe, evalB_notNaN, evalB_errNotNil, evalF, evalFs, getSR, List.lookup, genEnv, Gen.strConsts, stAt, post3, failWith, longlatStr, liftEV, assignAll, assign1, applyOp, lvEx, bindFn, hz, hll, hi]
    | ok r =>
      obtain ⟨x', y'⟩ := r
      cases hfg : isNaN (H s).fromGreenwich <;> simp [exec, evalB_strEq, evalB_strNe, evalB_notNaN, evalB_errNotNil, evalF, evalFs, getSR, List.lookup, genEnv, Gen.strConsts, stAt, post3, failWith, longlatStr, liftEV, assignAll, assign1, applyOp, lvEx, bindFn, hz, hll, hi, hfg, hN]
  · cases hfg : isNaN (H s).fromGreenwich <;> simp [exec, evalB_strEq, evalB_strNe, evalB_notNaN, evalB_errNotNil, evalF, evalFs, getSR, List.lookup, genEnv, Gen.strConsts, stAt, post3, failWith, longlatStr, liftEV, assignAll, assign1, applyOp, lvEx, bindFn, hz, hll, hfg, hN]
end phases

/-- `transform3(source, dest, x, y, z)` as extracted = `stepNoHop` (both constructors re-run, then `body`) -/
theorem tie_transform3 (c : Core F P Err) (wgs : Nat) (t3) (h : Heap F P) (s d : Nat) (x y z : F) :
    run3 (genEnv c wgs t3) Gen.transform3 h s d x y z = some (stepNoHop c h s d x y z) := by
  have hrun : run3 (genEnv c wgs t3) Gen.transform3 h s d x y z =
      post3 (exec (genEnv c wgs t3) Gen.transform3.2.2
        { heap := h, fl := [("x", x), ("y", y), ("z", z)], point := [], err := none,
          srs := [("source", s), ("dest", d)], capt := [], fns := [], junk := false }) := rfl
  rw [hrun]
  have hN := fun a b => ph_B c wgs t3 (initAt c (initAt c h s).1 d).1 s d [("x", x), ("y", y), ("z", z)] a b z
    (by simp [List.lookup])
  have e : Gen.transform3.2.2 =
      .seq (headSt (dropSt 0 Gen.transform3.2.2)) (.seq (headSt (dropSt 1 Gen.transform3.2.2))
        (.seq (headSt (dropSt 2 Gen.transform3.2.2)) (.seq (headSt (dropSt 3 Gen.transform3.2.2))
          (.seq (headSt (dropSt 4 Gen.transform3.2.2)) (.seq (headSt (dropSt 5 Gen.transform3.2.2))
            (dropSt 6 Gen.transform3.2.2)))))) := rfl
  rw [e]
  generalize dropSt 6 Gen.transform3.2.2 = rest at hN ⊢
  simp only [Gen.transform3, dropSt, headSt]
  simp [stAt, genEnv, post3, Gen.strConsts] at hN
  simp only [stepNoHop]
  cases h1 : (initAt c h s).2 with
  | some e1 => simp [exec, evalB_strEq, evalB_strNe, evalB_notNaN, evalB_errNotNil, evalF, evalFs, getSR, List.lookup, genEnv, Gen.strConsts, stAt, post3, failWith, longlatStr, liftEV, assignAll, assign1, applyOp, lvEx, bindFn, h1]
  | none =>
    cases h2 : (initAt c (initAt c h s).1 d).2 with
    | some e2 => simp [exec, evalB_strEq, evalB_strNe, evalB_notNaN, evalB_errNotNil, evalF, evalFs, getSR, List.lookup, genEnv, Gen.strConsts, stAt, post3, failWith, longlatStr, liftEV, assignAll, assign1, applyOp, lvEx, bindFn, h1, h2]
    | none =>
      rw [body_eq]
      unfold axisPart
      generalize hH : (initAt c (initAt c h s).1 d).1 = H at hN h2 ⊢
      by_cases hax : (H s).axis = enu
      · have hax' : (H s).axis = ['e', 'n', 'u'] := hax
        simp [exec, evalB_strEq, evalB_strNe, evalB_notNaN, evalB_errNotNil, evalF, evalFs, getSR, List.lookup, genEnv, Gen.strConsts, stAt, post3, failWith, longlatStr, liftEV, assignAll, assign1, applyOp, lvEx, bindFn, h1, h2, hH, hax', enu, hN]
      · have hax' : ¬ (H s).axis = ['e', 'n', 'u'] := hax
        cases hadj : adjustAxis c.axisErr (H s).axis false [x, y] with
        | error e => cases e <;> simp [exec, evalB_strEq, evalB_strNe, evalB_notNaN, evalB_errNotNil, evalF, evalFs, getSR, List.lookup, genEnv, Gen.strConsts, stAt, post3, failWith, longlatStr, liftEV, assignAll, assign1, applyOp, lvEx, bindFn, h1, h2, hH, hax, hax', hadj, failToRes]
        | ok pt =>
          have hl := adjustAxis_len _ _ _ _ _ hadj
          match pt, hl with
          | [a', b'], _ => simp [exec, evalB_strEq, evalB_strNe, evalB_notNaN, evalB_errNotNil, evalF, evalFs, getSR, List.lookup, genEnv, Gen.strConsts, stAt, post3, failWith, longlatStr, liftEV, assignAll, assign1, applyOp, lvEx, bindFn, h1, h2, hH, hax, hax', hadj, failToRes, hN]
end GeomV.C10

namespace GeomV.C10
/-- The two ties composed: the closure as extracted, calling `transform3` as extracted, is the model's `step`. -/
theorem tie_Transform {F P Err : Type} [FOps F] (c : Core F P Err) (wgs : Nat) :
    (∀ (t3) (h : Heap F P) (s d : Nat) (x y z : F),
      TIR.run3 (genEnv c wgs t3) Gen.transform3 h s d x y z = some (stepNoHop c h s d x y z)) ∧
    (∀ (h : Heap F P) (tr : Tr) (x y : F),
      TIR.runC (genEnv c wgs (fun h s d x y z =>
          (TIR.run3 (genEnv c wgs (stepNoHop c)) Gen.transform3 h s d x y z).getD (h, .panic .recursion)))
        Gen.closure h tr x y = some (step c wgs h tr x y)) := by
  refine ⟨fun t3 h s d x y z => tie_transform3 c wgs t3 h s d x y z, fun h tr x y => ?_⟩
  have : (fun h s d x y z =>
      (TIR.run3 (genEnv c wgs (stepNoHop c)) Gen.transform3 h s d x y z).getD (h, .panic .recursion)) =
      stepNoHop c := by
    funext h s d x y z
    rw [tie_transform3]; rfl
  rw [this]
  exact tie_closure c wgs h tr x y
end GeomV.C10
