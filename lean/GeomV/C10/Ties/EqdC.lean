import GeomV.C10.GenWrites
import GeomV.C10.GenBodies
import GeomV.C10.Ctors
/-! Regenerated tie for the constructor `EqdC` (/repo/proj): the fields it assigns in the Go source (go/ast
extraction, `GenWrites.lean`, rewritten on every run) are exactly the model's write set; its closures
assign nothing; no compound assignment; the SR is passed on only to the modelled callees; no field
address is taken. -/
set_option linter.unusedSimpArgs false
namespace GeomV.C10
theorem tie_EqdC :
    Gen.ctorWrites.lookup "EqdC" = some (writeSet .eqdc, [], [], calleesOf .eqdc, []) := by decide

/-- Regenerated tie for the VALUES and CONDITIONS: the slice of `EqdC`'s body that decides its writes and
its error (extracted by go/ast into `GenBodies.lean` on every run), interpreted by `IR.run`, equals the
model `initP .eqdc` for every SR and every float semantics. -/
theorem tie_body_EqdC : BodyTie Gen.ctorBodies .eqdc := by
  open IR POps in
  intro F R _ p
  simp only [run, Gen.ctorBodies, goFunc, List.lookup]
  cases h1 : isNaN p.lat2 <;>
    cases h5 : lt (abs (add p.lat1 p.lat2)) epsln <;> cases h6 : lt (abs (add p.lat1 p.lat1)) epsln <;>
    simp [exec, eval, getF, setFld, cstV, call1F, binF, initP, initEqdC, parallelsBad, nanDefault, h1, h5, h6, List.lookup]
end GeomV.C10
