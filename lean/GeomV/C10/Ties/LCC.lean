import GeomV.C10.GenWrites
import GeomV.C10.GenBodies
import GeomV.C10.Ctors
/-! Regenerated tie for the constructor `LCC` (/repo/proj): the fields it assigns in the Go source (go/ast
extraction, `GenWrites.lean`, rewritten on every run) are exactly the model's write set; its closures
assign nothing; no compound assignment; the SR is passed on only to the modelled callees; no field
address is taken. -/
set_option linter.unusedSimpArgs false
namespace GeomV.C10
theorem tie_LCC :
    Gen.ctorWrites.lookup "LCC" = some (writeSet .lcc, [], [], calleesOf .lcc, []) := by decide

/-- Regenerated tie for the VALUES and CONDITIONS: the slice of `LCC`'s body that decides its writes and
its error (extracted by go/ast into `GenBodies.lean` on every run), interpreted by `IR.run`, equals the
model `initP .lcc` for every SR and every float semantics. -/
theorem tie_body_LCC : BodyTie Gen.ctorBodies .lcc := by
  open IR POps in
  intro F R _ p
  simp only [run, Gen.ctorBodies, goFunc, List.lookup]
  cases h1 : isNaN p.lat2 <;> cases h2 : isNaN p.k0 <;> cases h3 : isNaN p.x0 <;> cases h4 : isNaN p.y0 <;>
    cases h5 : lt (abs (add p.lat1 p.lat2)) epsln <;> cases h6 : lt (abs (add p.lat1 p.lat1)) epsln <;>
    simp [exec, eval, getF, setFld, cstV, call1F, binF, initP, initLCC, parallelsBad, nanDefault, h1, h2, h3, h4, h5, h6]
end GeomV.C10
