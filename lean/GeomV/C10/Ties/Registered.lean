import GeomV.C10.GenWrites
import GeomV.C10.Ctors
/-! Regenerated tie: the constructors registered with `registerTrans` in /repo/proj are exactly the modelled
ones, and no other function of the package has a constructor's signature. -/
namespace GeomV.C10
def modelledCtors : List Ctor := [.aea, .eqdc, .krovak, .lcc, .longlat, .merc, .tmerc, .utm]
theorem tie_Registered :
    Gen.registered = modelledCtors.map goFunc ∧ Gen.ctorWrites.map (·.1) = modelledCtors.map goFunc := by decide
end GeomV.C10
