import GeomV.C10.GenWrites
import GeomV.C10.Ctors
/-! Regenerated tie: the constructors registered with `registerTrans` in /repo/proj are exactly the modelled
ones, and no other function of the package has a constructor's signature; the NAMES under which they are
registered (PROJ.4 short names and WKT `PROJECTION` names, lower case) are mapped to the same constructor by the
model's `ctorOfName`, which decides the write set the judge allows for an SR of that name. -/
namespace GeomV.C10
def modelledCtors : List Ctor := [.aea, .eqdc, .krovak, .lcc, .longlat, .merc, .tmerc, .utm]
theorem tie_Registered :
    Gen.registered = modelledCtors.map goFunc ∧ Gen.ctorWrites.map (·.1) = modelledCtors.map goFunc ∧
    Gen.regNames.map (fun p => (p.1, goFunc (ctorOfName p.1))) = Gen.regNames := by decide
end GeomV.C10
