import GeomV.C10.GenWrites
import GeomV.C10.Ctors
/-! Regenerated tie for the constructor `UTM` (/repo/proj): the fields it assigns in the Go source (go/ast
extraction, `GenWrites.lean`, rewritten on every run) are exactly the model's write set; its closures
assign nothing; no compound assignment; the SR is passed on only to the modelled callees; no field
address is taken. -/
namespace GeomV.C10
theorem tie_UTM :
    Gen.ctorWrites.lookup "UTM" = some (writeSet .utm, [], [], calleesOf .utm, []) := by decide
end GeomV.C10
