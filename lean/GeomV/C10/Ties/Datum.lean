import GeomV.C10.GenDatum
import GeomV.C10.Datum
/-! Regenerated tie for `datumTransform` (/repo/proj/datum_transform.go): the save / defer-restore shape
extracted from the Go source by go/ast on every run (`GenDatum.lean`) is the one the model `Datum.lean`
transcribes — `a`/`es` of both datums saved into locals before a single unconditional top-level `defer`
whose literal consists of exactly the four restoring assignments; nothing written before the defer; after
it only `dest.a`/`dest.es`; the saved locals never assigned again.  Restoring only one side, restoring
before the last return only (the snapshot), or a new write to another field breaks this tie. -/
namespace GeomV.C10
theorem tie_Datum : Gen.datumShape = datumShapeModel := by rfl
end GeomV.C10
