import GeomV.C10.GenPrelude
/-! Regenerated tie for `NewTransform`'s prelude (/repo/proj/transform.go): the statements around the closure —
`dest == nil` ⇒ error, `source.Equal(dest, 3)` ⇒ the nil transformer, otherwise the function literal over
exactly the receiver and the parameter — translated from the Go source on every run (`GenPrelude.lean`) and
interpreted (`PreludeIR.lean`), ARE the model `newTransformM`, for every heap, every pair of references, every
`Equal`.  Building a transformer writes nothing (the interpreter has no heap output; `Equal` assigns nothing:
`tie_State`). -/
namespace GeomV.C10
open PIR

variable {F P : Type}

theorem tie_Prelude (eq : SR F P → SR F P → Nat → Bool) (h : Heap F P) (src : Nat) (dst : Option Nat) :
    build eq h src dst Gen.newTransformBody = some (newTransformM eq h src dst) := by
  cases dst with
  | none => simp [Gen.newTransformBody, build, ptrOf, newTransformM]
  | some d =>
    by_cases he : eq (h src) (h d) 3 = true <;>
      simp [Gen.newTransformBody, build, ptrOf, newTransformM, he]

/-- receiver type and signature -/
theorem tie_PreludeSig : Gen.newTransformSig = ("*SR", "func(dest *SR) (Transformer, error)") := by decide

/-- **NewTransform is a function of the two records**: whether it answers nil, and the pair the closure captures,
depend on the heap only through the two records `Equal` compares (so, with `C10_history_state`, on a settled
heap building a transformer at any point of a history gives the transformer a fresh build gives) -/
theorem C10_build_pure (eq : SR F P → SR F P → Nat → Bool) (h h' : Heap F P) (src : Nat) (dst : Option Nat)
    (hs : h src = h' src) (hd : ∀ d, dst = some d → h d = h' d) :
    build eq h src dst Gen.newTransformBody = build eq h' src dst Gen.newTransformBody := by
  rw [tie_Prelude, tie_Prelude]
  cases dst with
  | none => rfl
  | some d => simp [newTransformM, hs, hd d rfl]
end GeomV.C10
