import GeomV.C10.Mem
/-! Lemmas about the memory model of `LineString.Transform` (C10 "input untouched", partial). -/
set_option linter.unusedSimpArgs false
set_option linter.unusedVariables false
namespace GeomV.C10.Mem
open GeomV GeomV.C10

variable {E α : Type}

theorem set_prefix (m m' : Mem α) (a2 i k : Nat) (v : Pt α) (hk : k ≤ a2)
    (h : set (E := E) m a2 i v = .ok m') : m'.take k = m.take k ∧ m'.length = m.length := by
  unfold set at h
  cases hm : m[a2]? with
  | none => simp [hm] at h
  | some arr =>
    simp only [hm] at h
    by_cases hi : i < arr.length
    · simp [hi] at h; subst h
      exact ⟨List.take_set_of_le hk, List.length_set⟩
    · simp [hi] at h

/-- the loop writes only through `a2`: everything below `k ≤ a2` is untouched, whatever happens -/
theorem loop_prefix (t : TF E α) (a a2 k : Nat) (hk : k ≤ a2) :
    ∀ (n i : Nat) (m : Mem α), (loop t a a2 i n m).1.take k = m.take k ∧ (loop t a a2 i n m).1.length = m.length := by
  intro n
  induction n with
  | zero => intro i m; simp [loop]
  | succ n ih =>
    intro i m
    unfold loop
    cases hg : get (E := E) m a i with
    | error e => simp
    | ok p =>
      simp only []
      cases ht : t p with
      | error e => simp
      | ok q =>
        simp only []
        cases hs : set (E := E) m a2 i q with
        | error e => simp
        | ok m' =>
          simp only []
          obtain ⟨h1, h2⟩ := set_prefix m m' a2 i k q hk hs
          obtain ⟨h3, h4⟩ := ih (i+1) m'
          exact ⟨h3.trans h1, h4.trans h2⟩

end GeomV.C10.Mem

namespace GeomV.C10.Mem
open GeomV GeomV.C10
variable {E α : Type}

/-- `LineString.Transform` on memory: every array that existed before the call — the input's backing
array included — is unchanged on every path (success, transformer error, panic), and a successful
call returns the address of a NEW array. -/
theorem lineStringM_mem (zero : Pt α) (t : TF E α) (a : Nat) (m : Mem α) :
    (lineStringM zero t a m).1.take m.length = m ∧
    (∀ a2, (lineStringM zero t a m).2 = .ok a2 → a2 = m.length ∧ a < a2) := by
  unfold lineStringM
  cases hm : m[a]? with
  | none => simp
  | some l =>
    have ha : a < m.length := by
      have := List.getElem?_eq_some_iff.mp hm; exact this.1
    simp only [make]
    obtain ⟨h1, h2⟩ := loop_prefix t a m.length m.length (Nat.le_refl _) l.length 0 (m ++ [List.replicate l.length zero])
    have h3 : (m ++ [List.replicate l.length zero]).take m.length = m := List.take_left' rfl
    generalize hloop : loop t a m.length 0 l.length (m ++ [List.replicate l.length zero]) = r at *
    obtain ⟨m2, res⟩ := r
    cases res with
    | ok u => simp at h1 ⊢; exact ⟨h1, ha⟩
    | error e => simp at h1 ⊢; exact h1

end GeomV.C10.Mem
