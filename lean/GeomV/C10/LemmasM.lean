import GeomV.C10.Mem
/-!
Lemmas about the memory model of `Transform` (C10 "input untouched"): every primitive and every
method keeps all cells below a frozen bound `k` unchanged (`Frozen`) and keeps the invariant that
headers stored in cells above `k` point above `k` (`Inv`).
-/
set_option linter.unusedSimpArgs false
set_option linter.unusedVariables false
set_option linter.unusedSectionVars false
namespace GeomV.C10.Mem
open GeomV GeomV.C10

variable {E α β : Type}

/-! ## one area -/

theorem aSet_take (ar ar' : List (List β)) (a i k : Nat) (v : β) (hk : k ≤ a)
    (h : aSet (E := E) ar a i v = .ok ar') : ar'.take k = ar.take k ∧ ar'.length = ar.length := by
  unfold aSet at h
  cases hm : ar[a]? with
  | none => simp [hm] at h
  | some arr =>
    simp only [hm] at h
    by_cases hi : i < arr.length
    · simp [hi] at h; subst h
      exact ⟨List.take_set_of_le hk, List.length_set⟩
    · simp [hi] at h

theorem aAlloc_take (ar : List (List β)) (arr : List β) (k : Nat) (hk : k ≤ ar.length) :
    (aAlloc ar arr).2.take k = ar.take k ∧ ar.length ≤ (aAlloc ar arr).2.length := by
  simp [aAlloc, List.take_append_of_le_length hk]

/-- cells at addresses ≥ k hold only values satisfying `P` -/
def AreaInv (P : β → Prop) (k : Nat) (ar : List (List β)) : Prop :=
  ∀ a arr, k ≤ a → ar[a]? = some arr → ∀ h ∈ arr, P h

theorem AreaInv_alloc (P : β → Prop) (k : Nat) (ar : List (List β)) (arr : List β)
    (hz : ∀ h ∈ arr, P h) (hi : AreaInv P k ar) : AreaInv P k (aAlloc ar arr).2 := by
  intro a arr' hka hget h hh
  simp only [aAlloc] at hget
  by_cases ha : a < ar.length
  · rw [List.getElem?_append_left ha] at hget; exact hi a arr' hka hget h hh
  · have ha' : ar.length ≤ a := Nat.le_of_not_lt ha
    rw [List.getElem?_append_right ha'] at hget
    by_cases h0 : a - ar.length = 0
    · simp [h0] at hget; subst hget; exact hz h hh
    · have : ([arr] : List (List β))[a - ar.length]? = none := by
        apply List.getElem?_eq_none; simp; omega
      rw [this] at hget; cases hget

theorem AreaInv_set (P : β → Prop) (k : Nat) (ar ar' : List (List β)) (a i : Nat) (v : β) (hv : P v)
    (h : aSet (E := E) ar a i v = .ok ar') (hi : AreaInv P k ar) : AreaInv P k ar' := by
  unfold aSet at h
  cases hm : ar[a]? with
  | none => simp [hm] at h
  | some arr =>
    simp only [hm] at h
    by_cases hlt : i < arr.length
    · simp [hlt] at h; subst h
      intro b arr' hkb hget x hx
      by_cases hb : b = a
      · subst hb
        have hlen : b < ar.length := (List.getElem?_eq_some_iff.mp hm).1
        rw [List.getElem?_set_self hlen] at hget
        cases hget
        rcases List.mem_or_eq_of_mem_set hx with h1 | h1
        · exact hi b arr hkb hm x h1
        · subst h1; exact hv
      · rw [List.getElem?_set_ne (Ne.symm hb)] at hget
        exact hi b arr' hkb hget x hx
    · simp [hlt] at h

/-! ## the whole memory -/

structure Bound where
  pts : Nat
  paths : Nat
  polys : Nat
  geoms : Nat

def Mem.bound (m : Mem α) : Bound := ⟨m.pts.length, m.paths.length, m.polys.length, m.geoms.length⟩

def Bound.le (k : Bound) (m : Mem α) : Prop :=
  k.pts ≤ m.pts.length ∧ k.paths ≤ m.paths.length ∧ k.polys ≤ m.polys.length ∧ k.geoms ≤ m.geoms.length

/-- everything below the bound is unchanged, the `Bounds` structs are unchanged, areas only grow -/
structure Frozen (k : Bound) (m m' : Mem α) : Prop where
  pts : m'.pts.take k.pts = m.pts.take k.pts
  paths : m'.paths.take k.paths = m.paths.take k.paths
  polys : m'.polys.take k.polys = m.polys.take k.polys
  geoms : m'.geoms.take k.geoms = m.geoms.take k.geoms
  bnds : m'.bnds = m.bnds
  lpts : m.pts.length ≤ m'.pts.length
  lpaths : m.paths.length ≤ m'.paths.length
  lpolys : m.polys.length ≤ m'.polys.length
  lgeoms : m.geoms.length ≤ m'.geoms.length

def Slice.fresh (k : Nat) (s : Slice) : Prop := s.len = 0 ∨ k ≤ s.addr

/-- the value holds no reference below the bound -/
def MGeom.fresh (k : Bound) : MGeom α → Prop
  | .point _ => True
  | .multiPoint s => s.fresh k.pts
  | .lineString s => s.fresh k.pts
  | .multiLineString s => s.fresh k.paths
  | .polygon s => s.fresh k.paths
  | .multiPolygon s => s.fresh k.polys
  | .collection s => s.fresh k.geoms
  | .bounds _ => False
  | .nil => True

/-- every header stored in a cell above the bound refers above the bound -/
structure Inv (k : Bound) (m : Mem α) : Prop where
  paths : AreaInv (Slice.fresh k.pts) k.paths m.paths
  polys : AreaInv (Slice.fresh k.paths) k.polys m.polys
  geoms : AreaInv (MGeom.fresh k) k.geoms m.geoms

/-- one step of execution is harmless w.r.t. the bound -/
structure Ok (k : Bound) (m m' : Mem α) : Prop where
  frozen : Frozen k m m'
  inv : Inv k m → Inv k m'

theorem Frozen.refl (k : Bound) (m : Mem α) : Frozen k m m :=
  ⟨rfl, rfl, rfl, rfl, rfl, Nat.le_refl _, Nat.le_refl _, Nat.le_refl _, Nat.le_refl _⟩

theorem Frozen.trans {k : Bound} {m1 m2 m3 : Mem α} (a : Frozen k m1 m2) (b : Frozen k m2 m3) : Frozen k m1 m3 :=
  ⟨b.pts.trans a.pts, b.paths.trans a.paths, b.polys.trans a.polys, b.geoms.trans a.geoms, b.bnds.trans a.bnds,
   Nat.le_trans a.lpts b.lpts, Nat.le_trans a.lpaths b.lpaths, Nat.le_trans a.lpolys b.lpolys,
   Nat.le_trans a.lgeoms b.lgeoms⟩

theorem Ok.refl (k : Bound) (m : Mem α) : Ok k m m := ⟨Frozen.refl k m, id⟩
theorem Ok.trans {k : Bound} {m1 m2 m3 : Mem α} (a : Ok k m1 m2) (b : Ok k m2 m3) : Ok k m1 m3 :=
  ⟨a.frozen.trans b.frozen, fun h => b.inv (a.inv h)⟩

theorem Bound.le_of_frozen {k : Bound} {m m' : Mem α} (h : k.le m) (f : Frozen k m m') : k.le m' :=
  ⟨Nat.le_trans h.1 f.lpts, Nat.le_trans h.2.1 f.lpaths, Nat.le_trans h.2.2.1 f.lpolys, Nat.le_trans h.2.2.2 f.lgeoms⟩

/-! ### primitives on the four areas -/

theorem ok_setPts (k : Bound) (m : Mem α) (pts' : List (List (Pt α))) (a i : Nat) (v : Pt α) (hk : k.pts ≤ a)
    (h : aSet (E := E) m.pts a i v = .ok pts') : Ok k m { m with pts := pts' } := by
  obtain ⟨h1, h2⟩ := aSet_take m.pts pts' a i k.pts v hk h
  exact ⟨⟨h1, rfl, rfl, rfl, rfl, Nat.le_of_eq h2.symm, Nat.le_refl _, Nat.le_refl _, Nat.le_refl _⟩,
    fun hi => ⟨hi.paths, hi.polys, hi.geoms⟩⟩

theorem ok_allocPts (k : Bound) (m : Mem α) (arr : List (Pt α)) (hk : k.le m) :
    Ok k m { m with pts := (aAlloc m.pts arr).2 } := by
  obtain ⟨h1, h2⟩ := aAlloc_take m.pts arr k.pts hk.1
  exact ⟨⟨h1, rfl, rfl, rfl, rfl, h2, Nat.le_refl _, Nat.le_refl _, Nat.le_refl _⟩,
    fun hi => ⟨hi.paths, hi.polys, hi.geoms⟩⟩

theorem ok_setPaths (k : Bound) (m : Mem α) (paths' : List (List Slice)) (a i : Nat) (v : Slice)
    (hk : k.paths ≤ a) (hv : v.fresh k.pts) (h : aSet (E := E) m.paths a i v = .ok paths') :
    Ok k m { m with paths := paths' } := by
  obtain ⟨h1, h2⟩ := aSet_take m.paths paths' a i k.paths v hk h
  exact ⟨⟨rfl, h1, rfl, rfl, rfl, Nat.le_refl _, Nat.le_of_eq h2.symm, Nat.le_refl _, Nat.le_refl _⟩,
    fun hi => ⟨AreaInv_set _ _ _ _ a i v hv h hi.paths, hi.polys, hi.geoms⟩⟩

theorem ok_allocPaths (k : Bound) (m : Mem α) (arr : List Slice) (hk : k.le m) (hz : ∀ h ∈ arr, Slice.fresh k.pts h) :
    Ok k m { m with paths := (aAlloc m.paths arr).2 } := by
  obtain ⟨h1, h2⟩ := aAlloc_take m.paths arr k.paths hk.2.1
  exact ⟨⟨rfl, h1, rfl, rfl, rfl, Nat.le_refl _, h2, Nat.le_refl _, Nat.le_refl _⟩,
    fun hi => ⟨AreaInv_alloc _ _ _ arr hz hi.paths, hi.polys, hi.geoms⟩⟩

theorem ok_setPolys (k : Bound) (m : Mem α) (polys' : List (List Slice)) (a i : Nat) (v : Slice)
    (hk : k.polys ≤ a) (hv : v.fresh k.paths) (h : aSet (E := E) m.polys a i v = .ok polys') :
    Ok k m { m with polys := polys' } := by
  obtain ⟨h1, h2⟩ := aSet_take m.polys polys' a i k.polys v hk h
  exact ⟨⟨rfl, rfl, h1, rfl, rfl, Nat.le_refl _, Nat.le_refl _, Nat.le_of_eq h2.symm, Nat.le_refl _⟩,
    fun hi => ⟨hi.paths, AreaInv_set _ _ _ _ a i v hv h hi.polys, hi.geoms⟩⟩

theorem ok_allocPolys (k : Bound) (m : Mem α) (arr : List Slice) (hk : k.le m) (hz : ∀ h ∈ arr, Slice.fresh k.paths h) :
    Ok k m { m with polys := (aAlloc m.polys arr).2 } := by
  obtain ⟨h1, h2⟩ := aAlloc_take m.polys arr k.polys hk.2.2.1
  exact ⟨⟨rfl, rfl, h1, rfl, rfl, Nat.le_refl _, Nat.le_refl _, h2, Nat.le_refl _⟩,
    fun hi => ⟨hi.paths, AreaInv_alloc _ _ _ arr hz hi.polys, hi.geoms⟩⟩

theorem ok_setGeoms (k : Bound) (m : Mem α) (geoms' : List (List (MGeom α))) (a i : Nat) (v : MGeom α)
    (hk : k.geoms ≤ a) (hv : v.fresh k) (h : aSet (E := E) m.geoms a i v = .ok geoms') :
    Ok k m { m with geoms := geoms' } := by
  obtain ⟨h1, h2⟩ := aSet_take m.geoms geoms' a i k.geoms v hk h
  exact ⟨⟨rfl, rfl, rfl, h1, rfl, Nat.le_refl _, Nat.le_refl _, Nat.le_refl _, Nat.le_of_eq h2.symm⟩,
    fun hi => ⟨hi.paths, hi.polys, AreaInv_set _ _ _ _ a i v hv h hi.geoms⟩⟩

theorem ok_allocGeoms (k : Bound) (m : Mem α) (arr : List (MGeom α)) (hk : k.le m) (hz : ∀ h ∈ arr, MGeom.fresh k h) :
    Ok k m { m with geoms := (aAlloc m.geoms arr).2 } := by
  obtain ⟨h1, h2⟩ := aAlloc_take m.geoms arr k.geoms hk.2.2.2
  exact ⟨⟨rfl, rfl, rfl, h1, rfl, Nat.le_refl _, Nat.le_refl _, Nat.le_refl _, h2⟩,
    fun hi => ⟨hi.paths, hi.polys, AreaInv_alloc _ _ _ arr hz hi.geoms⟩⟩

/-! ### loops -/

theorem loopN_ok (k : Bound) (body : Nat → M E α Unit)
    (hb : ∀ i m, k.le m → Ok k m (body i m).1) :
    ∀ (n i : Nat) (m : Mem α), k.le m → Ok k m (loopN body i n m).1 := by
  intro n
  induction n with
  | zero => intro i m _; simp [loopN]; exact Ok.refl k m
  | succ n ih =>
    intro i m hk
    have h1 := hb i m hk
    unfold loopN
    generalize hbody : body i m = r at h1
    obtain ⟨m', res⟩ := r
    cases res with
    | error e => simpa using h1
    | ok u =>
      simp only []
      exact h1.trans (ih (i+1) m' (Bound.le_of_frozen hk h1.frozen))

/-! ### the methods -/

theorem ptsBody_ok (k : Bound) (t : TF E α) (s : Slice) (dst i : Nat) (m : Mem α) (hd : k.pts ≤ dst) :
    Ok k m (ptsBody t s dst i m).1 := by
  unfold ptsBody
  cases aGet (E := E) m.pts s.addr (s.off + i) with
  | error e => exact Ok.refl k m
  | ok p =>
    simp only []
    cases t p with
    | error e => exact Ok.refl k m
    | ok q =>
      simp only []
      cases h : aSet (E := E) m.pts dst i q with
      | error e => exact Ok.refl k m
      | ok pts' => exact ok_setPts k m pts' dst i q hd h

/-- shape shared by all five slice-returning methods: harmless, and the returned header is fresh -/
def MethodOk (k : Bound) (fr : Nat) (m : Mem α) (r : Mem α × Except (Fail E) Slice) : Prop :=
  Ok k m r.1 ∧ ∀ h, r.2 = .ok h → h.fresh fr

theorem lineStringM_ok (k : Bound) (zero : Pt α) (t : TF E α) (s : Slice) (m : Mem α) (hk : k.le m) :
    MethodOk k k.pts m (lineStringM zero t s m) := by
  unfold lineStringM
  simp only [aAlloc]
  have h1 := ok_allocPts k m (List.replicate s.len zero) hk
  simp only [aAlloc] at h1
  have hk1 := Bound.le_of_frozen hk h1.frozen
  have h2 := loopN_ok k (ptsBody t s m.pts.length) (fun i m' _ => ptsBody_ok k t s _ i m' hk.1) s.len 0 _ hk1
  generalize loopN (ptsBody t s m.pts.length) 0 s.len { m with pts := m.pts ++ [List.replicate s.len zero] } = r at h2
  obtain ⟨m2, res⟩ := r
  cases res with
  | error e => exact ⟨h1.trans h2, fun h hh => by simp at hh⟩
  | ok u => exact ⟨h1.trans h2, fun h hh => by simp at hh; subst hh; exact Or.inr hk.1⟩

theorem ringBody_ok (k : Bound) (zero : Pt α) (t : TF E α) (s : Slice) (dst i : Nat) (m : Mem α)
    (hd : k.paths ≤ dst) (hk : k.le m) : Ok k m (ringBody zero t s dst i m).1 := by
  unfold ringBody
  cases aGet (E := E) m.paths s.addr (s.off + i) with
  | error e => exact Ok.refl k m
  | ok r =>
    simp only [aAlloc]
    have h1 := ok_allocPts k m (List.replicate r.len zero) hk
    simp only [aAlloc] at h1
    have hk1 := Bound.le_of_frozen hk h1.frozen
    cases hs : aSet (E := E) m.paths dst i ⟨m.pts.length, 0, r.len⟩ with
    | error e => exact h1
    | ok paths1 =>
      simp only []
      have h2 : Ok k { m with pts := m.pts ++ [List.replicate r.len zero] }
          { m with pts := m.pts ++ [List.replicate r.len zero], paths := paths1 } :=
        ok_setPaths k { m with pts := m.pts ++ [List.replicate r.len zero] } paths1 dst i _ hd (Or.inr hk.1) hs
      have hk2 := Bound.le_of_frozen hk1 h2.frozen
      exact (h1.trans h2).trans
        (loopN_ok k (ptsBody t r m.pts.length) (fun j m' _ => ptsBody_ok k t r _ j m' hk.1) r.len 0 _ hk2)

theorem zeroSlices_fresh (n k : Nat) : ∀ h ∈ List.replicate n zeroSlice, Slice.fresh k h := by
  intro h hh
  have := List.eq_of_mem_replicate hh
  subst this; exact Or.inl rfl

theorem polygonM_ok (k : Bound) (zero : Pt α) (t : TF E α) (s : Slice) (m : Mem α) (hk : k.le m) :
    MethodOk k k.paths m (polygonM zero t s m) := by
  unfold polygonM
  simp only [aAlloc]
  have h1 := ok_allocPaths k m (List.replicate s.len zeroSlice) hk (zeroSlices_fresh _ _)
  simp only [aAlloc] at h1
  have hk1 := Bound.le_of_frozen hk h1.frozen
  have h2 := loopN_ok k (ringBody zero t s m.paths.length)
    (fun i m' hm' => ringBody_ok k zero t s _ i m' hk.2.1 hm') s.len 0 _ hk1
  generalize loopN (ringBody zero t s m.paths.length) 0 s.len
    { m with paths := m.paths ++ [List.replicate s.len zeroSlice] } = r at h2
  obtain ⟨m2, res⟩ := r
  cases res with
  | error e => exact ⟨h1.trans h2, fun h hh => by simp at hh⟩
  | ok u => exact ⟨h1.trans h2, fun h hh => by simp at hh; subst hh; exact Or.inr hk.2.1⟩

theorem mlsBody_ok (k : Bound) (zero : Pt α) (t : TF E α) (s : Slice) (dst i : Nat) (m : Mem α)
    (hd : k.paths ≤ dst) (hk : k.le m) : Ok k m (mlsBody zero t s dst i m).1 := by
  unfold mlsBody
  cases aGet (E := E) m.paths s.addr (s.off + i) with
  | error e => exact Ok.refl k m
  | ok l =>
    simp only []
    obtain ⟨h1, hf⟩ := lineStringM_ok k zero t l m hk
    generalize lineStringM zero t l m = r at h1 hf
    obtain ⟨m1, res⟩ := r
    cases res with
    | error e => exact h1
    | ok hdr =>
      simp only []
      cases hs : aSet (E := E) m1.paths dst i hdr with
      | error e => exact h1
      | ok paths' => exact h1.trans (ok_setPaths k m1 paths' dst i hdr hd (hf hdr rfl) hs)

theorem multiLineM_ok (k : Bound) (zero : Pt α) (t : TF E α) (s : Slice) (m : Mem α) (hk : k.le m) :
    MethodOk k k.paths m (multiLineM zero t s m) := by
  unfold multiLineM
  simp only [aAlloc]
  have h1 := ok_allocPaths k m (List.replicate s.len zeroSlice) hk (zeroSlices_fresh _ _)
  simp only [aAlloc] at h1
  have hk1 := Bound.le_of_frozen hk h1.frozen
  have h2 := loopN_ok k (mlsBody zero t s m.paths.length)
    (fun i m' hm' => mlsBody_ok k zero t s _ i m' hk.2.1 hm') s.len 0 _ hk1
  generalize loopN (mlsBody zero t s m.paths.length) 0 s.len
    { m with paths := m.paths ++ [List.replicate s.len zeroSlice] } = r at h2
  obtain ⟨m2, res⟩ := r
  cases res with
  | error e => exact ⟨h1.trans h2, fun h hh => by simp at hh⟩
  | ok u => exact ⟨h1.trans h2, fun h hh => by simp at hh; subst hh; exact Or.inr hk.2.1⟩

theorem mpgBody_ok (k : Bound) (zero : Pt α) (t : TF E α) (s : Slice) (dst i : Nat) (m : Mem α)
    (hd : k.polys ≤ dst) (hk : k.le m) : Ok k m (mpgBody zero t s dst i m).1 := by
  unfold mpgBody
  cases aGet (E := E) m.polys s.addr (s.off + i) with
  | error e => exact Ok.refl k m
  | ok p =>
    simp only []
    obtain ⟨h1, hf⟩ := polygonM_ok k zero t p m hk
    generalize polygonM zero t p m = r at h1 hf
    obtain ⟨m1, res⟩ := r
    cases res with
    | error e => exact h1
    | ok hdr =>
      simp only []
      cases hs : aSet (E := E) m1.polys dst i hdr with
      | error e => exact h1
      | ok polys' => exact h1.trans (ok_setPolys k m1 polys' dst i hdr hd (hf hdr rfl) hs)

theorem multiPolyM_ok (k : Bound) (zero : Pt α) (t : TF E α) (s : Slice) (m : Mem α) (hk : k.le m) :
    MethodOk k k.polys m (multiPolyM zero t s m) := by
  unfold multiPolyM
  simp only [aAlloc]
  have h1 := ok_allocPolys k m (List.replicate s.len zeroSlice) hk (zeroSlices_fresh _ _)
  simp only [aAlloc] at h1
  have hk1 := Bound.le_of_frozen hk h1.frozen
  have h2 := loopN_ok k (mpgBody zero t s m.polys.length)
    (fun i m' hm' => mpgBody_ok k zero t s _ i m' hk.2.2.1 hm') s.len 0 _ hk1
  generalize loopN (mpgBody zero t s m.polys.length) 0 s.len
    { m with polys := m.polys ++ [List.replicate s.len zeroSlice] } = r at h2
  obtain ⟨m2, res⟩ := r
  cases res with
  | error e => exact ⟨h1.trans h2, fun h hh => by simp at hh⟩
  | ok u => exact ⟨h1.trans h2, fun h hh => by simp at hh; subst hh; exact Or.inr hk.2.2.1⟩

theorem boundsM_ok (k : Bound) (zero : Pt α) (t : TF E α) (a : Nat) (m : Mem α) (hk : k.le m) :
    MethodOk k k.paths m (boundsM zero t a m) := by
  unfold boundsM
  cases hb : m.bnds[a]? with
  | none => exact ⟨Ok.refl k m, fun h hh => by simp at hh⟩
  | some b =>
    obtain ⟨mn, mx⟩ := b
    simp only [aAlloc]
    have h1 := ok_allocPts k m [mn, ⟨mx.x, mn.y⟩, mx, ⟨mn.x, mx.y⟩] hk
    simp only [aAlloc] at h1
    have hk1 := Bound.le_of_frozen hk h1.frozen
    have h2 := ok_allocPaths k { m with pts := m.pts ++ [[mn, ⟨mx.x, mn.y⟩, mx, ⟨mn.x, mx.y⟩]] }
      [(⟨m.pts.length, 0, 4⟩ : Slice)] hk1 (by intro h hh; simp at hh; subst hh; exact Or.inr hk.1)
    simp only [aAlloc] at h2
    have hk2 := Bound.le_of_frozen hk1 h2.frozen
    obtain ⟨h3, hf⟩ := polygonM_ok k zero t ⟨m.paths.length, 0, 1⟩ _ hk2
    exact ⟨(h1.trans h2).trans h3, hf⟩

theorem nils_fresh (n : Nat) (k : Bound) : ∀ h ∈ List.replicate n (MGeom.nil : MGeom α), MGeom.fresh k h := by
  intro h hh
  have := List.eq_of_mem_replicate hh
  subst this; trivial

theorem collBody_ok (k : Bound) (rec : MGeom α → M E α (MGeom α)) (s : Slice) (dst i : Nat) (m : Mem α)
    (hd : k.geoms ≤ dst) (hk : k.le m)
    (hrec : ∀ g m', k.le m' → Ok k m' (rec g m').1 ∧ ∀ g', (rec g m').2 = .ok g' → g'.fresh k) :
    Ok k m (collBody rec s dst i m).1 := by
  unfold collBody
  cases aGet (E := E) m.geoms s.addr (s.off + i) with
  | error e => exact Ok.refl k m
  | ok g =>
    simp only []
    obtain ⟨h1, hf⟩ := hrec g m hk
    generalize rec g m = r at h1 hf
    obtain ⟨m1, res⟩ := r
    cases res with
    | error e => exact h1
    | ok g' =>
      simp only []
      cases hs : aSet (E := E) m1.geoms dst i g' with
      | error e => exact h1
      | ok geoms' => exact h1.trans (ok_setGeoms k m1 geoms' dst i g' hd (hf g' rfl) hs)

/-- `g.Transform(t)` on memory, any fuel: harmless below any bound within the memory, result fresh -/
theorem transformM_ok (k : Bound) (zero : Pt α) (t : TF E α) :
    ∀ (fuel : Nat) (g : MGeom α) (m : Mem α), k.le m →
      Ok k m (transformM zero t fuel g m).1 ∧ ∀ g', (transformM zero t fuel g m).2 = .ok g' → g'.fresh k := by
  intro fuel
  induction fuel with
  | zero => intro g m hk; exact ⟨Ok.refl k m, fun g' h => by simp [transformM] at h⟩
  | succ fuel ih =>
    intro g m hk
    cases g with
    | point p =>
      simp only [transformM]
      cases t p with
      | ok q => exact ⟨Ok.refl k m, fun g' h => by simp at h; subst h; trivial⟩
      | error e => exact ⟨Ok.refl k m, fun g' h => by simp at h⟩
    | nil => exact ⟨Ok.refl k m, fun g' h => by simp [transformM] at h⟩
    | multiPoint s =>
      simp only [transformM]
      obtain ⟨h1, hf⟩ := lineStringM_ok k zero t s m hk
      generalize lineStringM zero t s m = r at h1 hf
      obtain ⟨m1, res⟩ := r
      cases res with
      | error e => exact ⟨h1, fun g' h => by simp at h⟩
      | ok hdr => exact ⟨h1, fun g' h => by simp at h; subst h; exact hf hdr rfl⟩
    | lineString s =>
      simp only [transformM]
      obtain ⟨h1, hf⟩ := lineStringM_ok k zero t s m hk
      generalize lineStringM zero t s m = r at h1 hf
      obtain ⟨m1, res⟩ := r
      cases res with
      | error e => exact ⟨h1, fun g' h => by simp at h⟩
      | ok hdr => exact ⟨h1, fun g' h => by simp at h; subst h; exact hf hdr rfl⟩
    | multiLineString s =>
      simp only [transformM]
      obtain ⟨h1, hf⟩ := multiLineM_ok k zero t s m hk
      generalize multiLineM zero t s m = r at h1 hf
      obtain ⟨m1, res⟩ := r
      cases res with
      | error e => exact ⟨h1, fun g' h => by simp at h⟩
      | ok hdr => exact ⟨h1, fun g' h => by simp at h; subst h; exact hf hdr rfl⟩
    | polygon s =>
      simp only [transformM]
      obtain ⟨h1, hf⟩ := polygonM_ok k zero t s m hk
      generalize polygonM zero t s m = r at h1 hf
      obtain ⟨m1, res⟩ := r
      cases res with
      | error e => exact ⟨h1, fun g' h => by simp at h⟩
      | ok hdr => exact ⟨h1, fun g' h => by simp at h; subst h; exact hf hdr rfl⟩
    | multiPolygon s =>
      simp only [transformM]
      obtain ⟨h1, hf⟩ := multiPolyM_ok k zero t s m hk
      generalize multiPolyM zero t s m = r at h1 hf
      obtain ⟨m1, res⟩ := r
      cases res with
      | error e => exact ⟨h1, fun g' h => by simp at h⟩
      | ok hdr => exact ⟨h1, fun g' h => by simp at h; subst h; exact hf hdr rfl⟩
    | bounds a =>
      simp only [transformM]
      obtain ⟨h1, hf⟩ := boundsM_ok k zero t a m hk
      generalize boundsM zero t a m = r at h1 hf
      obtain ⟨m1, res⟩ := r
      cases res with
      | error e => exact ⟨h1, fun g' h => by simp at h⟩
      | ok hdr => exact ⟨h1, fun g' h => by simp at h; subst h; exact hf hdr rfl⟩
    | collection s =>
      simp only [transformM, aAlloc]
      have h1 := ok_allocGeoms k m (List.replicate s.len MGeom.nil) hk (nils_fresh _ _)
      simp only [aAlloc] at h1
      have hk1 := Bound.le_of_frozen hk h1.frozen
      have h2 := loopN_ok k (collBody (transformM zero t fuel) s m.geoms.length)
        (fun i m' hm' => collBody_ok k _ s _ i m' hk.2.2.2 hm' (fun g m'' hm'' => ih g m'' hm'')) s.len 0 _ hk1
      generalize loopN (collBody (transformM zero t fuel) s m.geoms.length) 0 s.len
        { m with geoms := m.geoms ++ [List.replicate s.len MGeom.nil] } = r at h2
      obtain ⟨m2, res⟩ := r
      cases res with
      | error e => exact ⟨h1.trans h2, fun g' h => by simp at h⟩
      | ok u => exact ⟨h1.trans h2, fun g' h => by simp at h; subst h; exact Or.inr hk.2.2.2⟩

end GeomV.C10.Mem
