import GeomV.C10.Datum
/-! Lemmas for the `datumTransform` model (C10): the deferred restore undoes every write. -/
set_option linter.unusedSimpArgs false
set_option linter.unusedVariables false
namespace GeomV.C10
open GeomV

variable {F R Err : Type}

theorem Dat.ext' (x y : Dat F R) (h1 : x.dtype = y.dtype) (h2 : x.a = y.a) (h3 : x.es = y.es) (h4 : x.ro = y.ro) :
    x = y := by
  cases x; cases y; simp_all

/-- a heap that differs from `h` at most in `a`/`es` of cell `d` is put back to `h` by the deferred function -/
theorem restore_id (h' h : DHeap F R) (s d : Nat) (hj : ∀ j, j ≠ d → h' j = h j)
    (ht : (h' d).dtype = (h d).dtype) (hr : (h' d).ro = (h d).ro) :
    restore h' s d (h s).a (h s).es (h d).a (h d).es = h := by
  funext j
  unfold restore
  simp only [DHeap.set]
  by_cases hjd : j = d
  · subst hjd
    by_cases hjs : j = s
    · subst hjs
      simp
      apply Dat.ext' <;> simp [ht, hr]
    · simp [hjs]
      apply Dat.ext' <;> simp [ht, hr]
  · by_cases hjs : j = s
    · subst hjs
      simp [hjd]
      have := hj j hjd
      apply Dat.ext' <;> simp [this]
    · simp [hjd, hjs, hj j hjd]

theorem restoreSrc_id (h : DHeap F R) (s : Nat) : restoreSrc h s (h s).a (h s).es = h := by
  funext j
  unfold restoreSrc
  simp only [DHeap.set]
  by_cases hjs : j = s
  · subst hjs; simp
  · simp [hjs]

/-- the body after the `defer` writes nothing (fix 70faba2): the heap DURING the call is the heap before it -/
theorem dtAfterDefer_heap (o : DOps F R Err) (h : DHeap F R) (s d : Nat) (v : F × F × F) :
    (dtAfterDefer o h s d v).1 = h := by
  unfold dtAfterDefer
  split <;> rfl

theorem datumTransformM_heap (o : DOps F R Err) (h : DHeap F R) (s d : Nat) (v : F × F × F) :
    (datumTransformM o h s d v).1 = h := by
  unfold datumTransformM
  split
  · rfl
  · rfl
  · split
    · rfl
    · simp only [dtAfterDefer_heap]
      split
      · exact restoreSrc_id h s
      · exact restore_id h h s d (fun _ _ => rfl) rfl rfl

theorem datumTransformM_result (o : DOps F R Err) (h : DHeap F R) (s d : Nat) (v : F × F × F) :
    (datumTransformM o h s d v).2 = datumTransformPure o (h s) (h d) v := by
  unfold datumTransformM datumTransformPure
  cases hc : o.compare (h s) (h d) with
  | error e => rfl
  | ok b =>
    cases b with
    | true => rfl
    | false =>
      simp only
      by_cases h5 : (h s).dtype = 5 ∨ (h d).dtype = 5
      · simp [h5]
      · simp only [h5, if_false]
        show (dtAfterDefer o h s d v).2 = _
        unfold dtAfterDefer
        by_cases h3 : (h s).dtype = 3
        · simp [h3]
        · by_cases hd : (h d).dtype = 3
          · simp [h3, hd]
          · simp [h3, hd]

theorem runDatum_heap (o : DOps F R Err) (h : DHeap F R) (l : List (Nat × Nat × (F × F × F))) :
    (runDatum o h l).1 = h := by
  induction l generalizing h with
  | nil => rfl
  | cons c rest ih =>
    obtain ⟨s, d, v⟩ := c
    simp only [runDatum]
    rw [ih, datumTransformM_heap]

theorem runDatum_results (o : DOps F R Err) (h : DHeap F R) (l : List (Nat × Nat × (F × F × F))) :
    (runDatum o h l).2 = l.map (fun c => datumTransformPure o (h c.1) (h c.2.1) c.2.2) := by
  induction l generalizing h with
  | nil => rfl
  | cons c rest ih =>
    obtain ⟨s, d, v⟩ := c
    simp only [runDatum, List.map]
    rw [datumTransformM_heap, ih, datumTransformM_result]

end GeomV.C10
