import GeomV.C10.GeomTransform
/-!
# C10: a little language for the eight `Transform` methods of /repo/transform.go, and its interpreter

`harness/cmd/c10/astwrites` (mode `geom`, go/ast) translates on every run, from the Go source of the tree under
test, the WHOLE body of each of the eight methods, statement by statement, into a term of `St`
(`GenGeom.lean`).  `execL` gives the terms Go's semantics for what the model has to get right:

* variables live in an environment with block scoping (a `:=` inside a loop body is gone after the iteration,
  an assignment goes to the innermost binding);
* `make(T, len(x))` really makes an array of `len(x)` zero elements, `a[i] = e` / `a[i][j] = e` really store at
  an index (bounds-checked), and what a method returns is what its array then holds;
* `for i, v := range x` runs the body once per element, in order, with the index;
* there is one `err` cell; `x.X, x.Y, err = t(p.X, p.Y)` with a failing `t` leaves `x` UNKNOWN (`junk`) and
  `g, err := r.Transform(t)` with a failing callee leaves `g` unknown — a body that then looks at them
  (asserts, stores, returns them without an error) is stuck, so the order "test err, then use" is what the
  tie checks;
* `g.(T)` on a value of another dynamic type (or the nil interface) panics;
* a call `r.Transform(t)` is the parameter `dyn` (instantiated with the model's dispatch `transformS t` in the
  ties: the eight extracted bodies, each run with the others' meaning for its calls, ARE the model).

Anything outside the language is `.other` and makes the interpreter stuck (`none`), so a tie fails to build
rather than pass.  Core Lean only.
-/
namespace GeomV.C10.GIR
open GeomV GeomV.C10

inductive Ex where
  | var (n : String)                               -- a variable
  | assert (n ty : String)                         -- n.(ty)
  | fld (n f : String)                             -- n.Min / n.Max
  | mkPt (xn xf yn yf : String)                    -- {X: xn.xf.X, Y: yn.yf.Y}
  | other (src : String)
deriving Repr, DecidableEq

inductive RetErr where
  | nilLit | errVar
deriving Repr, DecidableEq

inductive St where
  | ifTNilRet (n : String)                         -- if t == nil { return n, nil }
  | declErr                                        -- var err error
  | declPt (n : String)                            -- n := Point{}
  | callT (dst src : String)                       -- dst.X, dst.Y, err = t(src.X, src.Y)
  | callM (g recv : String)                        -- g, err := recv.Transform(t)
  | ifErrRetNil                                    -- if err != nil { return nil, err }
  | make (dst ty src : String)                     -- dst := make(ty, len(src))
  | makeAt (dst i ty src : String)                 -- dst[i] = make(ty, len(src))
  | range (i v src : String) (body : List St)      -- for i, v := range src { body }
  | store (dst i : String) (e : Ex)                -- dst[i] = e
  | store2 (dst i j : String) (e : Ex)             -- dst[i][j] = e
  | storeCallM (dst i recv : String)               -- dst[i], err = recv.Transform(t)
  | declLit (n ty : String) (rows : List (List Ex))  -- n := ty{{e, …}, …}
  | ret (n : String) (e : RetErr)                  -- return n, nil   /   return n, err
  | retCallM (recv : String)                       -- return recv.Transform(t)
  | other (src : String)

structure Method where
  recvName : String
  recvTy : String
  body : List St

section
variable {E α : Type}

/-- run-time values: a geometry / interface value, an array under construction (elements as geometries: a
`Point` is `.point`, a `[]Point` or `LineString` is `.lineString`, the zero interface is `.nil`), a two-level
array (`Polygon`: rows of points), an index, an unknown value -/
inductive Val (α : Type) where
  | g (x : Geom α)
  | arr (ty : String) (xs : List (Geom α))
  | arr2 (ty : String) (xss : List (List (Geom α)))
  | idx (k : Nat)
  | junk

abbrev Env (α : Type) := List (String × Val α)

def lookup (n : String) : Env α → Option (Val α)
  | [] => none
  | (k, v) :: r => if n = k then some v else lookup n r

/-- assignment to the innermost binding of `n` (no binding: unchanged; callers look `n` up first) -/
def assign (n : String) (v : Val α) : Env α → Env α
  | [] => []
  | (k, w) :: r => if n = k then (k, v) :: r else (k, w) :: assign n v r

inductive Out (E α : Type) where
  | cont (env : Env α) (err : Option E)
  | done (r : Except (Fail E) (Geom α))
  | stuck

/-- leaving a block: the bindings made inside it are dropped -/
def popO (n : Nat) : Out E α → Out E α
  | .cont env err => .cont (env.drop (env.length - n)) err
  | o => o

def tyOf : Geom α → String
  | .point _ => "Point" | .multiPoint _ => "MultiPoint" | .lineString _ => "LineString"
  | .multiLineString _ => "MultiLineString" | .polygon _ => "Polygon" | .multiPolygon _ => "MultiPolygon"
  | .collection _ => "GeometryCollection" | .bounds _ _ => "*Bounds" | .nil => ""

/-- the elements `range x` yields -/
def elems : Geom α → Option (List (Geom α))
  | .multiPoint ps => some (ps.map .point)
  | .lineString ps => some (ps.map .point)
  | .multiLineString ls => some (ls.map .lineString)
  | .polygon rs => some (rs.map .lineString)
  | .multiPolygon ps => some (ps.map .polygon)
  | .collection gs => some gs
  | _ => none

/-- `make(ty, n)`: `n` zero elements -/
def zeros (z : α) (ty : String) (n : Nat) : Option (Val α) :=
  if ty = "MultiPoint" ∨ ty = "LineString" ∨ ty = "[]Point" then some (.arr ty (List.replicate n (.point ⟨z, z⟩)))
  else if ty = "MultiLineString" then some (.arr ty (List.replicate n (.lineString [])))
  else if ty = "MultiPolygon" then some (.arr ty (List.replicate n (.polygon [])))
  else if ty = "GeometryCollection" then some (.arr ty (List.replicate n .nil))
  else if ty = "Polygon" then some (.arr2 ty (List.replicate n []))
  else none

def unPt : Geom α → Option (Pt α) | .point p => some p | _ => none
def unLine : Geom α → Option (List (Pt α)) | .lineString l => some l | _ => none
def unPoly : Geom α → Option (List (List (Pt α))) | .polygon r => some r | _ => none

def mapO {β γ : Type} (f : β → Option γ) : List β → Option (List γ)
  | [] => some []
  | x :: xs => match f x, mapO f xs with
    | some y, some ys => some (y :: ys)
    | _, _ => none

/-- the geometry an array holds when it is returned -/
def pack : Val α → Option (Geom α)
  | .g x => some x
  | .arr ty xs =>
    if ty = "MultiPoint" then (mapO unPt xs).map .multiPoint
    else if ty = "LineString" then (mapO unPt xs).map .lineString
    else if ty = "MultiLineString" then (mapO unLine xs).map .multiLineString
    else if ty = "MultiPolygon" then (mapO unPoly xs).map .multiPolygon
    else if ty = "GeometryCollection" then some (.collection xs)
    else none
  | .arr2 ty xss => if ty = "Polygon" then (mapO (mapO unPt) xss).map .polygon else none
  | _ => none

def getG (env : Env α) (n : String) : Option (Geom α) :=
  match lookup n env with
  | some (.g x) => some x
  | _ => none

def getIdx (env : Env α) (n : String) : Option Nat :=
  match lookup n env with
  | some (.idx k) => some k
  | _ => none

def corner (env : Env α) (n f : String) : Option (Pt α) :=
  match getG env n with
  | some (.bounds mn mx) => if f = "Min" then some mn else if f = "Max" then some mx else none
  | _ => none

/-- value of an expression: `none` = stuck, `some (.error f)` = panic -/
def evalEx (env : Env α) : Ex → Option (Except Fault (Geom α))
  | .var n => match lookup n env with
    | some (.g x) => some (.ok x)
    | _ => none
  | .assert n ty => match lookup n env with
    | some (.g x) => if tyOf x = ty then some (.ok x) else some (.error .typeAssert)
    | _ => none
  | .fld n f => (corner env n f).map fun p => .ok (.point p)
  | .mkPt xn xf yn yf => match corner env xn xf, corner env yn yf with
    | some a, some b => some (.ok (.point ⟨a.x, b.y⟩))
    | _, _ => none
  | .other _ => none

/-- a literal row `{e, …}` of points -/
def evalRow (env : Env α) : List Ex → Option (List (Pt α))
  | [] => some []
  | e :: es => match evalEx env e, evalRow env es with
    | some (.ok (.point p)), some ps => some (p :: ps)
    | _, _ => none

def evalRows (env : Env α) : List (List Ex) → Option (List (List (Pt α)))
  | [] => some []
  | r :: rs => match evalRow env r, evalRows env rs with
    | some p, some ps => some (p :: ps)
    | _, _ => none

/-- `for i, v := range xs`: the body once per element, in order -/
def loopWith (f : Nat → Geom α → Env α → Option E → Out E α) :
    List (Geom α) → Nat → Env α → Option E → Out E α
  | [], _, env, err => .cont env err
  | x :: xs, k, env, err =>
    match f k x env err with
    | .cont env' err' => loopWith f xs (k + 1) env' err'
    | o => o

def setAt (xs : List (Geom α)) (k : Nat) (v : Geom α) : Option (List (Geom α)) :=
  if k < xs.length then some (xs.set k v) else none

variable (z : α) (dyn : Geom α → Except (Fail E) (Geom α)) (t : Option (TF E α))

mutual
def execL : List St → Env α → Option E → Out E α
  | [], env, err => .cont env err
  | s :: rest, env, err =>
    match exec1 s env err with
    | .cont env' err' => execL rest env' err'
    | o => o
def exec1 : St → Env α → Option E → Out E α
  | .ifTNilRet n, env, err =>
    match t with
    | some _ => .cont env err
    | none => match getG env n with
      | some x => .done (.ok x)
      | none => .stuck
  | .declErr, env, _ => .cont env none
  | .declPt n, env, err => .cont ((n, .g (.point ⟨z, z⟩)) :: env) err
  | .callT dst src, env, _ =>
    match t, getG env src, lookup dst env with
    | some tf, some (.point p), some _ =>
      (match tf p with
       | .ok q => .cont (assign dst (.g (.point q)) env) none
       | .error e => .cont (assign dst .junk env) (some e))
    | none, some (.point _), some _ => .done (.error (.panic .nilCall))
    | _, _, _ => .stuck
  | .callM gn recv, env, _ =>
    match getG env recv with
    | some x =>
      (match dyn x with
       | .ok y => .cont ((gn, .g y) :: env) none
       | .error (.err e) => .cont ((gn, .junk) :: env) (some e)
       | .error (.panic f) => .done (.error (.panic f)))
    | none => .stuck
  | .ifErrRetNil, env, err =>
    match err with
    | some e => .done (.error (.err e))
    | none => .cont env none
  | .make dst ty src, env, err =>
    match getG env src with
    | some x =>
      (match elems x with
       | some xs => (match zeros z ty xs.length with
         | some a => .cont ((dst, a) :: env) err
         | none => .stuck)
       | none => .stuck)
    | none => .stuck
  | .makeAt dst i ty src, env, err =>
    match lookup dst env, getIdx env i, getG env src with
    | some (.arr2 ty2 rows), some k, some x =>
      (match elems x with
       | some xs =>
         if ty = "[]Point" ∧ k < rows.length then
           .cont (assign dst (.arr2 ty2 (rows.set k (List.replicate xs.length (.point ⟨z, z⟩)))) env) err
         else .stuck
       | none => .stuck)
    | _, _, _ => .stuck
  | .range i v src body, env, err =>
    match getG env src with
    | some x =>
      (match elems x with
       | some xs =>
         loopWith (fun k x env err => popO env.length (execL body ((v, .g x) :: (i, .idx k) :: env) err)) xs 0 env err
       | none => .stuck)
    | none => .stuck
  | .store dst i e, env, err =>
    match lookup dst env, getIdx env i, evalEx env e with
    | some (.arr ty xs), some k, some (.ok v) =>
      (match setAt xs k v with
       | some xs' => .cont (assign dst (.arr ty xs') env) err
       | none => .stuck)
    | some (.arr _ _), some _, some (.error f) => .done (.error (.panic f))
    | _, _, _ => .stuck
  | .store2 dst i j e, env, err =>
    match lookup dst env, getIdx env i, getIdx env j, evalEx env e with
    | some (.arr2 ty rows), some k, some l, some (.ok v) =>
      (match rows[k]? with
       | some row => (match setAt row l v with
         | some row' => .cont (assign dst (.arr2 ty (rows.set k row')) env) err
         | none => .stuck)
       | none => .stuck)
    | _, _, _, _ => .stuck
  | .storeCallM dst i recv, env, _ =>
    match lookup dst env, getIdx env i, getG env recv with
    | some (.arr ty xs), some k, some x =>
      (match dyn x with
       | .ok y => (match setAt xs k y with
         | some xs' => .cont (assign dst (.arr ty xs') env) none
         | none => .stuck)
       | .error (.err e) => .cont (assign dst .junk env) (some e)
       | .error (.panic f) => .done (.error (.panic f)))
    | _, _, _ => .stuck
  | .declLit n ty rows, env, err =>
    match evalRows env rows with
    | some rs => if ty = "Polygon" then .cont ((n, .g (.polygon rs)) :: env) err else .stuck
    | none => .stuck
  | .ret n k, env, err =>
    match k, err with
    | .errVar, some e => .done (.error (.err e))
    | _, _ => match (lookup n env).bind pack with
      | some x => .done (.ok x)
      | none => .stuck
  | .retCallM recv, env, _ =>
    match getG env recv with
    | some x => .done (dyn x)
    | none => .stuck
  | .other _, _, _ => .stuck
end

/-- a method run on a receiver of its type: `none` = stuck or falling off the end -/
def runM (m : Method) (recv : Geom α) : Option (Except (Fail E) (Geom α)) :=
  if tyOf recv = m.recvTy then
    match execL z dyn t m.body [(m.recvName, .g recv)] none with
    | .done r => some r
    | _ => none
  else none

end
end GeomV.C10.GIR
