import GeomV.C10.Transformer
/-!
# C10: a little language for `adjust_axis` (proj/adjust_axis.go) and its interpreter

`harness/cmd/c10/astwrites` (mode `axisloop`, go/ast) translates on every run the WHOLE body of `adjust_axis` —
the `for` header, the `continue` guard, the if / else-if chain that picks `v` and `t`, the `switch crs.Axis[i]`
with its cases and default, the final return — into a term of `Fn` (`GenAxisLoop.lean`).  `runAxis` gives it
Go's semantics: the loop runs `i` from its lower to its upper bound, `continue` ends an iteration, `point` is an
index-checked slice written in place, `v` and `t` are variables (unset until assigned), indexing the axis string
beyond its length panics, the default case returns the error.  `Ties/AxisLoop.lean` proves the interpreted
source equal to the model's `adjustAxis` (three unrolled `axisStep`s) for every axis string and every point.
Core Lean only.
-/
namespace GeomV.C10.AIR
open GeomV GeomV.C10 FOps

inductive Cond where
  | iEq (n : Nat)                    -- i == n
  | lenEq (n : Nat)                  -- len(point) == n
  | and (a b : Cond)
  | other (src : String)
deriving Repr, DecidableEq

inductive Ix where
  | lit (n : Nat)                    -- point[n]
  | t                                -- point[t]
  | other (src : String)
deriving Repr, DecidableEq

/-- the statements of a `case` of the switch -/
inductive Act where
  | store (ix : Ix) (neg : Bool)                 -- point[ix] = v   /   point[ix] = -v
  | ifLenStore (n : Nat) (ix : Ix) (neg : Bool)  -- if len(point) == n { point[ix] = ±v }
  | other (src : String)
deriving Repr, DecidableEq

inductive St where
  | ifContinue (c : Cond)                        -- if c { continue }
  | ite (c : Cond) (th el : List St)             -- if c {…} else {…}   (else-if: nested in `el`)
  | setV (ix : Ix)                               -- v = point[ix]
  | setT (n : Nat)                               -- t = n
  | switchAxis (cases : List (Char × List Act)) (dfltRetErr : Bool)
      -- switch crs.Axis[i] { case 'c': acts; break … default: err := fmt.Errorf(…); return nil, err }
  | other (src : String)

structure Fn where
  lo : Nat
  hi : Nat                -- for i := lo; i < hi; i++
  body : List St
  tail : String           -- the statement after the loop

section
variable {F Err : Type} [FOps F]

structure AS (F : Type) where
  point : List F
  v : Option F
  t : Option Nat

inductive AOut (F Err : Type) where
  | next (s : AS F)
  | cont (s : AS F)                               -- `continue`
  | ret (r : Except (Fail Err) (List F))
  | stuck

def evalC (i : Nat) (s : AS F) : Cond → Option Bool
  | .iEq n => some (i = n)
  | .lenEq n => some (s.point.length = n)
  | .and a b => match evalC i s a, evalC i s b with
    | some x, some y => some (x && y)
    | _, _ => none
  | .other _ => none

def evalIx (s : AS F) : Ix → Option Nat
  | .lit n => some n
  | .t => s.t
  | .other _ => none

def storeAt (s : AS F) (ix : Ix) (ng : Bool) : AOut F Err :=
  match evalIx s ix, s.v with
  | some k, some x =>
    if k < s.point.length then .next { s with point := s.point.set k (if ng then neg x else x) }
    else .ret (.error (.panic .index))
  | _, _ => .stuck

def execAct (s : AS F) : Act → AOut F Err
  | .store ix ng => storeAt s ix ng
  | .ifLenStore n ix ng => if s.point.length = n then storeAt s ix ng else .next s
  | .other _ => .stuck

def execActs : List Act → AS F → AOut F Err
  | [], s => .next s
  | a :: rest, s =>
    match execAct (Err := Err) s a with
    | .next s' => execActs rest s'
    | o => o

variable (ae : Err) (axis : List Char)

mutual
def execL (i : Nat) : List St → AS F → AOut F Err
  | [], s => .next s
  | st :: rest, s =>
    match exec1 i st s with
    | .next s' => execL i rest s'
    | o => o
def exec1 (i : Nat) : St → AS F → AOut F Err
  | .ifContinue c, s =>
    match evalC i s c with
    | some true => .cont s
    | some false => .next s
    | none => .stuck
  | .ite c th el, s =>
    match evalC i s c with
    | some true => execL i th s
    | some false => execL i el s
    | none => .stuck
  | .setV ix, s =>
    match evalIx s ix with
    | some k => (match s.point[k]? with
      | some x => .next { s with v := some x }
      | none => .ret (.error (.panic .index)))
    | none => .stuck
  | .setT n, s => .next { s with t := some n }
  | .switchAxis cases dflt, s =>
    match axis[i]? with
    | none => .ret (.error (.panic .index))
    | some ch =>
      (match cases.lookup ch with
       | some acts => execActs acts s
       | none => if dflt then .ret (.error (.err ae)) else .next s)
  | .other _, _ => .stuck
end

/-- `for i := …; i < hi; i++ { body }` with `n` iterations left, then `return point, nil` -/
def loopA (body : List St) : Nat → Nat → AS F → Option (Except (Fail Err) (List F))
  | 0, _, s => some (.ok s.point)
  | n + 1, i, s =>
    match execL ae axis i body s with
    | .next s' => loopA body n (i + 1) s'
    | .cont s' => loopA body n (i + 1) s'
    | .ret r => some r
    | .stuck => none

def runAxis (f : Fn) (point : List F) : Option (Except (Fail Err) (List F)) :=
  if f.tail = "return point, nil" then loopA ae axis f.body (f.hi - f.lo) f.lo { point := point, v := none, t := none }
  else none

end
end GeomV.C10.AIR
