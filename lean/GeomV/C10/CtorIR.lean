import GeomV.C10.Ctors
/-!
# C10: a little language for the projection constructors' bodies, and its interpreter

`harness/cmd/c10/astwrites` (mode `bodies`, go/ast) re-extracts on every run, from the Go source of the tree
under test, the SLICE of each constructor's body that decides what it writes to the `*SR` and whether it
returns an error: assignments to `this.F`, to `err`, the `return`s, the `if`s around them with their
conditions, and the assignments to the local variables those read (`GenBodies.lean`, a term of `St` per
constructor).  `run` interprets such a term on the record `PF` of `Ctors.lean` with the uninterpreted float
operations `POps`.  The tie theorems `tie_body_<Ctor>` (modules `Ties/*.lean`) state
`run Gen.ctorBodies (goFunc c) p = some (initP c p)` for EVERY record and float semantics: the hand-written
model `initP`, about which idempotence and frame are proved, IS the extracted code.

Anything outside the language (`.other`, an unknown field, constant, operator or function) makes `run`
return `none`, so the tie fails to build rather than pass.
Core Lean only.
-/
namespace GeomV.C10.IR
open GeomV GeomV.C10

inductive Ex where
  | fld (f : String)                    -- this.F
  | loc (v : String)                    -- a local variable of the constructor
  | cst (c : String)                    -- a literal, a literal-only expression (source text) or a package constant
  | un (op : String) (a : Ex)
  | bin (op : String) (a b : Ex)
  | call1 (fn : String) (a : Ex)
  | call2 (fn : String) (a b : Ex)
  | other (src : String)
deriving Repr, DecidableEq

inductive St where
  | skip
  | setF (f : String) (e : Ex)          -- this.F = e
  | setL (v : String) (e : Ex)          -- v := e / v = e / var v = e
  | setErr (fmt : String)               -- err = fmt.Errorf(fmt, …)
  | clrErr                              -- err = nil
  | ret                                 -- return (named results) / return …, …, err
  | retOk                               -- return f, g, nil
  | retErr (fmt : String)               -- return nil, nil, fmt.Errorf(fmt, …)
  | retCall (fn : String)               -- return Fn(this)
  | ite (c : Ex) (t e : St)
  | seq (a b : St)
  | other (src : String)
deriving Repr, DecidableEq

inductive V (F : Type) where
  | f (x : F)
  | b (x : Bool)

section
variable {F R : Type} [POps F]
open POps

def getF (p : PF F R) : String → Option (V F)
  | "Lat0" => some (.f p.lat0) | "Lat1" => some (.f p.lat1) | "Lat2" => some (.f p.lat2)
  | "Long0" => some (.f p.long0) | "X0" => some (.f p.x0) | "Y0" => some (.f p.y0) | "K0" => some (.f p.k0)
  | "A" => some (.f p.a) | "B" => some (.f p.b) | "Es" => some (.f p.es) | "E" => some (.f p.e)
  | "Zone" => some (.f p.zone) | "UTMSouth" => some (.b p.utmSouth)
  | _ => none

def setFld (p : PF F R) : String → V F → Option (PF F R)
  | "Lat0", .f x => some { p with lat0 := x } | "Lat1", .f x => some { p with lat1 := x }
  | "Lat2", .f x => some { p with lat2 := x } | "Long0", .f x => some { p with long0 := x }
  | "X0", .f x => some { p with x0 := x } | "Y0", .f x => some { p with y0 := x }
  | "K0", .f x => some { p with k0 := x } | "A", .f x => some { p with a := x }
  | "B", .f x => some { p with b := x } | "Es", .f x => some { p with es := x }
  | "E", .f x => some { p with e := x } | "Zone", .f x => some { p with zone := x }
  | "UTMSouth", .b x => some { p with utmSouth := x }
  | _, _ => none

/-- literals and package constants of /repo/proj as they appear in the constructors -/
def cstV : String → Option (V F)
  | "0" => some (.f zero) | "1" => some (.f one) | "6" => some (.f six) | "183" => some (.f c183)
  | "deg2rad" => some (.f cDeg2rad) | "500000" => some (.f c500000) | "10000000" => some (.f c1e7)
  | "0.9996" => some (.f c09996) | "epsln" => some (.f epsln)
  | "6377397.155" => some (.f kA) | "0.006674372230614" => some (.f kEs)
  | "0.863937979737193" => some (.f kLat0)
  | "0.7417649320975901 - 0.308341501185665" => some (.f kLong0)
  | "0.9999" => some (.f k09999)
  | "true" => some (.b true) | "false" => some (.b false)
  | _ => none

def binF (op : String) (x y : F) : Option (V F) :=
  match op with
  | "+" => some (.f (add x y)) | "-" => some (.f (sub x y)) | "*" => some (.f (mul x y))
  | "/" => some (.f (div x y))
  | "<" => some (.b (lt x y)) | ">" => some (.b (lt y x))
  | _ => none

def binB (op : String) (x y : Bool) : Option (V F) :=
  match op with
  | "&&" => some (.b (x && y)) | "||" => some (.b (x || y))
  | _ => none

def call1F (fn : String) (x : F) : Option (V F) :=
  match fn with
  | "math.IsNaN" => some (.b (isNaN x)) | "math.Abs" => some (.f (abs x)) | "math.Sqrt" => some (.f (sqrt x))
  | _ => none

def eval (p : PF F R) (env : List (String × F)) : Ex → Option (V F)
  | .fld f => getF p f
  | .loc v => match env.lookup v with | some x => some (.f x) | none => none
  | .cst c => cstV c
  | .un op a =>
    match op, eval p env a with
    | "!", some (.b x) => some (.b (!x))
    | _, _ => none
  | .bin op a b =>
    match eval p env a, eval p env b with
    | some (.f x), some (.f y) => binF op x y
    | some (.b x), some (.b y) => binB op x y
    | _, _ => none
  | .call1 fn a =>
    match eval p env a with
    | some (.f x) => call1F fn x
    | _ => none
  | .call2 fn a b =>
    -- only `math.Pow(x, 2)`
    match fn, b, eval p env a with
    | "math.Pow", .cst "2", some (.f x) => some (.f (pow2 x))
    | _, _, _ => none
  | .other _ => none

/-- interpreter state: the SR, the locals, whether `err != nil`, whether the function has returned, and
a pending `return Fn(this)` -/
structure XS (F R : Type) where
  p : PF F R
  env : List (String × F)
  err : Bool
  done : Bool
  tail : Option String

def exec : St → XS F R → Option (XS F R)
  | .skip, s => some s
  | .setF f e, s =>
    match eval s.p s.env e with
    | some v => match setFld s.p f v with
      | some p' => some { s with p := p' }
      | none => none
    | none => none
  | .setL v e, s =>
    match eval s.p s.env e with
    | some (.f x) => some { s with env := (v, x) :: s.env }
    | _ => none
  | .setErr _, s => some { s with err := true }
  | .clrErr, s => some { s with err := false }
  | .ret, s => some { s with done := true }
  | .retOk, s => some { s with err := false, done := true }
  | .retErr _, s => some { s with err := true, done := true }
  | .retCall fn, s => some { s with done := true, tail := some fn }
  | .ite c t e, s =>
    match eval s.p s.env c with
    | some (.b true) => exec t s
    | some (.b false) => exec e s
    | _ => none
  | .seq a b, s =>
    match exec a s with
    | some s' => if s'.done then some s' else exec b s'
    | none => none
  | .other _, _ => none

/-- run the constructor called `name`: the SR it leaves and whether it returns an error.  A body that
falls off its end without `return` does not compile in Go (three results), so `done = false` is `none`. -/
def run (bodies : List (String × St)) : Nat → String → PF F R → Option (PF F R × Bool)
  | 0, _, _ => none
  | fuel+1, name, p =>
    match bodies.lookup name with
    | none => none
    | some st =>
      match exec st { p := p, env := [], err := false, done := false, tail := none } with
      | none => none
      | some s =>
        if s.done then
          match s.tail with
          | none => some (s.p, s.err)
          | some fn => run bodies fuel fn s.p
        else none

end
end GeomV.C10.IR

namespace GeomV.C10
/-- What a body tie states: the slice of constructor `c` extracted from the Go source (`bodies`),
interpreted, is the hand-written model `initP c` — same record written, error iff the model has one —
for every record and every float semantics. -/
def BodyTie (bodies : List (String × IR.St)) (c : Ctor) : Prop :=
  ∀ (F R : Type) [POps F] (p : PF F R),
    IR.run bodies 2 (goFunc c) p = some ((initP c p).1, (initP c p).2.isSome)
end GeomV.C10
