import GeomV.C10.GeomTransform
/-!
# C10 model, part 2: the closure returned by `(*SR).NewTransform` (proj/transform.go), `adjust_axis`
(proj/adjust_axis.go) and what it does to the `*SR` objects it shares with other transformers.

A transformer is a state machine over a heap of `SR` records (`Heap = Nat → SR`, the index is the Go
pointer).  `SR.Transformers()` — re-run on every call — is `Core.init`, acting on the part `p : P`
of the record that the projection constructors read and write (Lat0, Long0, X0, Y0, K0, A, Es, E, …);
the closures it returns are `Core.inv`/`Core.fwd`, evaluated on the initialised record;
`datumTransform` is `Core.dt` (it saves and restores the only datum fields it writes, see notes).
The closure is `step`; its body `transform3` is `stepNoHop`/`body`.
These are parameters: the theorems hold for every choice satisfying `CoreOK` (re-running a constructor
on an already initialised record changes nothing), and the correspondence run instantiates them with
tables filled from the real code and checks `CoreOK`'s content on the real objects (state dumps).

Floating point: the closure's own arithmetic (`*= deg2rad`, `*= ToMeter`, `+= FromGreenwich`, sign
flips …) is kept symbolic through `FOps`; the driver instantiates it with IEEE doubles.
Core Lean only.
-/
namespace GeomV.C10
open GeomV

class FOps (F : Type) where
  mul : F → F → F
  add : F → F → F
  sub : F → F → F
  div : F → F → F
  neg : F → F
  isNaN : F → Bool
  deg2rad : F    -- 0.01745329251994329577
  r2d : F        -- 57.29577951308232088
  zero : F       -- 0.

/-- What the closure reads of an `*SR` outside the projection functions, plus the rest (`p`). -/
structure SR (F P : Type) where
  longlat : Bool        -- Name == "longlat"
  axis : List Char      -- Axis
  toMeter : F
  fromGreenwich : F
  dtype : Nat           -- datum.datum_type: 1 = 3-param, 2 = 7-param, 3 = grid shift, 4 = WGS84, 5 = none
  wgsCode : Bool        -- strings.EqualFold(DatumCode, "WGS84") (fix b165df1: "wgs84" of a WKT reference counts)
  p : P                 -- every other field (read and written by the projection constructor)

structure Core (F P Err : Type) where
  /-- `SR.Transformers()`: the constructor's writes to the SR and its error, if any -/
  init : P → P × Option Err
  /-- the inverse / forward closure, evaluated on the initialised record -/
  inv : P → F → F → Except Err (F × F)
  fwd : P → F → F → Except Err (F × F)
  /-- `datumTransform(heap[i].datum, heap[j].datum, x, y, z)`: its answer, an error it returns, or a PANIC of
  one of its callees (`compare_datums` and the geocentric conversions index `datum_params`), which unwinds
  through the deferred restore and through `transform3` and the closure: a panic of the call (`Res.panic`) -/
  dt : Nat → Nat → F → F → F → Except (Fail Err) (F × F × F)
  /-- the error of `adjust_axis` for an unknown axis letter -/
  axisErr : Err

/-- re-running a constructor on an initialised record changes nothing and reports the same error -/
def CoreOK {F P Err : Type} (c : Core F P Err) : Prop :=
  ∀ p, c.init (c.init p).1 = ((c.init p).1, (c.init p).2)

inductive Res (F Err : Type) where
  | ok (x y : F)
  | err (e : Err)
  | panic (f : Fault)
deriving Repr, DecidableEq

/-- result of `transform3` (the point with its ellipsoidal height) -/
inductive Res3 (F Err : Type) where
  | ok (x y z : F)
  | err (e : Err)
  | panic (f : Fault)
deriving Repr, DecidableEq

abbrev Heap (F P : Type) := Nat → SR F P

def Heap.set {F P : Type} (h : Heap F P) (i : Nat) (s : SR F P) : Heap F P :=
  fun j => if j = i then s else h j

section
variable {F P Err : Type} [FOps F]
open FOps

/-- `source.Transformers()` on heap cell `i` -/
def initAt (c : Core F P Err) (h : Heap F P) (i : Nat) : Heap F P × Option Err :=
  let r := c.init (h i).p
  (h.set i { h i with p := r.1 }, r.2)

/-- `point[t] = v` -/
def setIdx (point : List F) (i : Nat) (v : F) : Except (Fail Err) (List F) :=
  if i < point.length then .ok (point.set i v) else .error (.panic .index)

/-- one iteration of the loop of `adjust_axis` (after fix 53df906 the vertical axis of a 2-D point is
skipped in both directions, so `denorm` no longer matters) -/
def axisStep (axisErr : Err) (axis : List Char) (point : List F) (i : Nat) : Except (Fail Err) (List F) :=
  if i = 2 ∧ point.length = 2 then .ok point
  else
    match point[i]? with
    | none => .error (.panic .index)          -- v = point[i]
    | some v =>
      match axis[i]? with
      | none => .error (.panic .index)        -- crs.Axis[i]
      | some ch =>
        if ch = 'e' ∨ ch = 'n' then setIdx point i v
        else if ch = 'w' ∨ ch = 's' then setIdx point i (neg v)
        else if ch = 'u' then (if point.length = 3 then setIdx point 2 v else .ok point)
        else if ch = 'd' then (if point.length = 3 then setIdx point 2 (neg v) else .ok point)
        else .error (.err axisErr)

/-- `adjust_axis(crs, denorm, point)` -/
def adjustAxis (axisErr : Err) (axis : List Char) (_denorm : Bool) (point : List F) : Except (Fail Err) (List F) :=
  match axisStep axisErr axis point 0 with
  | .error e => .error e
  | .ok p1 =>
    match axisStep axisErr axis p1 1 with
    | .error e => .error e
    | .ok p2 => axisStep axisErr axis p2 2

/-- The snapshot's loop body (commit 8354466): `if denorm && i == 2 && len(point) == 2 {continue}`. -/
def axisStepSnapshot (axisErr : Err) (axis : List Char) (denorm : Bool) (point : List F) (i : Nat) :
    Except (Fail Err) (List F) :=
  if denorm ∧ i = 2 ∧ point.length = 2 then .ok point
  else
    match point[i]? with
    | none => .error (.panic .index)
    | some v =>
      match axis[i]? with
      | none => .error (.panic .index)
      | some ch =>
        if ch = 'e' ∨ ch = 'n' then setIdx point i v
        else if ch = 'w' ∨ ch = 's' then setIdx point i (neg v)
        else if ch = 'u' then (if point.length = 3 then setIdx point 2 v else .ok point)
        else if ch = 'd' then (if point.length = 3 then setIdx point 2 (neg v) else .ok point)
        else .error (.err axisErr)

def enu : List Char := ['e', 'n', 'u']

def failToRes : Fail Err → Res3 F Err
  | .err e => .err e
  | .panic f => .panic f

/-- `if crs.Axis != enu { point, err = adjust_axis(crs, denorm, point) }` then `point[0], point[1]` -/
def axisPart (axisErr : Err) (axis : List Char) (denorm : Bool) (x y : F) : Except (Fail Err) (F × F) :=
  if axis = enu then .ok (x, y)
  else
    match adjustAxis axisErr axis denorm [x, y] with
    | .error e => .error e
    | .ok pt =>
      match pt[0]?, pt[1]? with
      | some a, some b => .ok (a, b)
      | _, _ => .error (.panic .index)

/-- The body of `transform3(source, dest, x, y, z)` given the two (initialised) records. -/
def body (c : Core F P Err) (s d : Nat) (S D : SR F P) (x y z : F) : Res3 F Err :=
  match axisPart c.axisErr S.axis false x y with
  | .error e => failToRes e
  | .ok (x, y) =>
    -- to long/lat
    let r : Except Err (F × F) :=
      if S.longlat then .ok (mul x deg2rad, mul y deg2rad)
      else c.inv S.p (mul x S.toMeter) (mul y S.toMeter)
    match r with
    | .error e => .err e
    | .ok (x, y) =>
      let x := if isNaN S.fromGreenwich then x else add x S.fromGreenwich
      match c.dt s d x y z with
      | .error e => failToRes e
      | .ok (x, y, z) =>
        let x := if isNaN D.fromGreenwich then x else sub x D.fromGreenwich
        let r : Except Err (F × F) :=
          if D.longlat then .ok (mul x r2d, mul y r2d)
          else
            match c.fwd D.p x y with
            | .error e => .error e
            | .ok (x, y) => .ok (div x D.toMeter, div y D.toMeter)
        match r with
        | .error e => .err e
        | .ok (x, y) =>
          match axisPart c.axisErr D.axis true x y with
          | .error e => failToRes e
          | .ok (x, y) => .ok x y z

/-- `transform3(source, dest, x, y, z)`: both constructors are re-run first. -/
def stepNoHop (c : Core F P Err) (h : Heap F P) (s d : Nat) (x y z : F) : Heap F P × Res3 F Err :=
  let r1 := initAt c h s
  match r1.2 with
  | some e => (r1.1, .err e)
  | none =>
    let r2 := initAt c r1.1 d
    match r2.2 with
    | some e => (r2.1, .err e)
    | none => (r2.1, body c s d (r2.1 s) (r2.1 d) x y z)

def dropZ : Res3 F Err → Res F Err
  | .ok x y _ => .ok x y
  | .err e => .err e
  | .panic f => .panic f

/-- `checkNotWGS(a, b)` -/
def notWGS (a b : SR F P) : Bool := (a.dtype = 1 ∨ a.dtype = 2) ∧ ¬ b.wgsCode

def needsHop (h : Heap F P) (s d : Nat) : Bool := notWGS (h s) (h d) || notWGS (h d) (h s)

/-- A transformer: the closure's captured `source` and `dest` pointers. -/
structure Tr where
  src : Nat
  dst : Nat
deriving Repr, DecidableEq

/-- One call `t(x, y)` of the closure (fixed code: 788adbd, the hop re-points a per-call copy of
`source`, so the captured pair is returned unchanged; 9f83d68, the height found by the first leg is
passed to the second).  `wgs` is the heap cell of the registry's WGS84 object. -/
def step (c : Core F P Err) (wgs : Nat) (h : Heap F P) (tr : Tr) (x y : F) : Heap F P × Tr × Res F Err :=
  if needsHop h tr.src tr.dst then
    let r1 := stepNoHop c h tr.src wgs x y zero        -- x, y, z, err = transform3(source, wgs84, x, y, z)
    match r1.2 with
    | .ok a b z =>
      let r2 := stepNoHop c r1.1 wgs tr.dst a b z      -- source = wgs84 (local)
      (r2.1, tr, dropZ r2.2)
    | other => (r1.1, tr, dropZ other)
  else
    let r := stepNoHop c h tr.src tr.dst x y zero
    (r.1, tr, dropZ r.2)

/-- The snapshot's closure (commit 8354466): the first leg is a nested transformer
`source.NewTransform(wgs84)` (which would recurse if that pair needed a hop itself), `source = wgs84`
assigns to the captured variable, and the second leg starts from height 0. -/
def stepSnapshot (c : Core F P Err) (wgs : Nat) (h : Heap F P) (tr : Tr) (x y : F) : Heap F P × Tr × Res F Err :=
  if needsHop h tr.src tr.dst then
    if needsHop h tr.src wgs then (h, tr, .panic .recursion)
    else
      let r1 := stepNoHop c h tr.src wgs x y zero
      match r1.2 with
      | .ok a b _ =>
        let r2 := stepNoHop c r1.1 wgs tr.dst a b zero
        (r2.1, { tr with src := wgs }, dropZ r2.2)
      | other => (r1.1, tr, dropZ other)
  else
    let r := stepNoHop c h tr.src tr.dst x y zero
    (r.1, tr, dropZ r.2)

/-- State of a pool of transformers sharing SRs. -/
structure TState (F P : Type) where
  heap : Heap F P
  pool : Nat → Tr

/-- call transformer `k` with `(x, y)` -/
def call (c : Core F P Err) (wgs : Nat) (s : TState F P) (k : Nat) (x y : F) : TState F P × Res F Err :=
  let r := step c wgs s.heap (s.pool k) x y
  ({ heap := r.1, pool := fun j => if j = k then r.2.1 else s.pool j }, r.2.2)

/-- run a history of calls `(transformer id, x, y)`; results in order -/
def runHist (c : Core F P Err) (wgs : Nat) : TState F P → List (Nat × F × F) → TState F P × List (Res F Err)
  | s, [] => (s, [])
  | s, (k, x, y) :: rest =>
    let r := call c wgs s k x y
    let rr := runHist c wgs r.1 rest
    (rr.1, r.2 :: rr.2)

end
end GeomV.C10
