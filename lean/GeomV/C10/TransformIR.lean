import GeomV.C10.Transformer
/-!
# C10: a little language for `transform3`, the closure returned by `NewTransform` and `checkNotWGS`
(proj/transform.go), and its interpreter

`harness/cmd/c10/astwrites` (mode `transform`, go/ast) translates on every run, from the Go source of the tree
under test, the WHOLE body of `transform3`, the whole body of the function literal returned by `NewTransform`
and the returned expression of `checkNotWGS`, statement by statement, into terms of `St` / `BEx`
(`GenTransform.lean`).  `exec` gives them Go's semantics on the state of `Transformer.lean`: a heap of `SR`
records, the local float variables, the slice `point` (index-checked), the `err` variable, the `*SR`
variables (locals shadow captured ones; an assignment goes to the innermost declared one — this is what
decides whether `source = wgs84` changes the closure's captured state), the function values bound by
`Transformers()`.  The callees that `Transformer.lean` keeps abstract stay abstract here (`Core`: constructors,
forward/inverse, `datumTransform`); `adjust_axis` is the model's `adjustAxis`.

The tie theorems (`Ties/Transform.lean`) state that the interpreted source IS the hand-written model:
`run3 … Gen.transform3 = stepNoHop`, `runC … Gen.closure = step`, `checkNotWGS` = `notWGS`, for every
heap, every `Core`, every float semantics.  Anything outside the language (`.other`, an unknown field, constant
or callee) makes the interpreter stuck (`none`), so the tie fails to build rather than pass.
Core Lean only.
-/
namespace GeomV.C10.TIR
open GeomV GeomV.C10

inductive FEx where
  | v (n : String)                 -- a float variable (x, y, z)
  | idx (i : Nat)                  -- point[i]
  | fld (sr f : String)            -- sr.ToMeter, sr.FromGreenwich
  | cst (c : String)               -- a package constant or literal (deg2rad, r2d, 0.)
  | nan                            -- math.NaN()
  | other (src : String)
deriving Repr, DecidableEq

inductive BEx where
  | errNotNil                              -- err != nil
  | strNe (sr f c : String)                -- sr.F != c      (c a string constant)
  | strEq (sr f c : String)                -- sr.F == c
  | notNaN (e : FEx)                       -- !math.IsNaN(e)
  | call (fn a b : String)                 -- fn(a, b) on two *SR variables
  | or (a b : BEx)
  | and (a b : BEx)
  | not (a : BEx)
  | dtypeEq (sr c : String)                -- sr.datum.datum_type == c
  | equalFold (sr f lit : String)          -- strings.EqualFold(sr.F, "lit")
  | other (src : String)
deriving Repr, DecidableEq

inductive LV where
  | v (n : String) | idx (i : Nat) | err | blank | other (src : String)
deriving Repr, DecidableEq

inductive St where
  | skip
  | seq (a b : St)
  | ite (c : BEx) (t e : St)
  | mkPoint (a b : String)                             -- point := []float64{a, b}
  | declF (v : String) (e : FEx)                       -- v := e
  | declErr                                            -- var err error
  | shadow (v : String)                                -- v := v   (a *SR variable: per-call copy)
  | assignSR (a b : String)                            -- a = b    (*SR variables)
  | parse (v code : String)                            -- v, err := Parse("code")
  | ctor (sr : String) (fwd inv : Option String)       -- fwd, inv, err := sr.Transformers()
  | adjust (sr : String) (denorm : Bool)               -- point, err = adjust_axis(sr, denorm, point)
  | opAssign (l : LV) (op : String) (e : FEx)          -- l op= e
  | callFn (f : String) (outs : List LV) (args : List FEx)     -- outs…, err = f(args…)
  | datum (s d : String) (outs : List LV) (args : List FEx)    -- outs…, err = datumTransform(s.datum, d.datum, args…)
  | t3 (s d : String) (outs : List LV) (args : List FEx)       -- outs…, err = transform3(s, d, args…)
  | ret (vals : List FEx) (err : Bool)                 -- return vals…, err   /   return vals…, nil
  | other (src : String)
deriving Repr

section
variable {F P Err : Type}

/-- what is fixed during a run -/
structure Env (F P Err : Type) where
  core : Core F P Err
  wgs : Nat                                                 -- heap cell of the registry's WGS84 object
  t3 : Heap F P → Nat → Nat → F → F → F → Heap F P × Res3 F Err
  pred : List String × BEx                                  -- parameters and body of `checkNotWGS`
  consts : List (String × Nat)                              -- the datumType constants
  strs : List (String × List Char)                          -- the string constants

/-- interpreter state -/
structure XS (F P Err : Type) where
  heap : Heap F P
  fl : List (String × F)
  point : List F
  err : Option Err
  srs : List (String × Nat)             -- *SR variables declared in the running body (parameters, locals)
  capt : List (String × Nat)            -- *SR variables captured by the closure
  fns : List (String × Bool × Nat × Bool)   -- function variable ↦ (is the inverse, cell it closes over, non-nil)
  junk : Bool                           -- a callee returned an error: the floats it returned with it are unknown

inductive EV (α : Type) where
  | stuck | panic (f : Fault) | val (x : α)

inductive R (F P Err : Type) where
  | stuck
  | cont (s : XS F P Err)
  | retOk (s : XS F P Err) (vals : List F)
  | retErr (s : XS F P Err) (e : Err)
  | panic (s : XS F P Err) (f : Fault)

def getSR (s : XS F P Err) (n : String) : Option Nat :=
  match s.srs.lookup n with
  | some i => some i
  | none => s.capt.lookup n

variable [FOps F]
open FOps

def evalF (s : XS F P Err) : FEx → EV F
  | .v n => match s.fl.lookup n with | some x => .val x | none => .stuck
  | .idx i => match s.point[i]? with | some x => .val x | none => .panic .index
  | .fld sr f =>
    match getSR s sr with
    | some i =>
      if f = "ToMeter" then .val (s.heap i).toMeter
      else if f = "FromGreenwich" then .val (s.heap i).fromGreenwich else .stuck
    | none => .stuck
  | .cst c => if c = "deg2rad" then .val deg2rad else if c = "r2d" then .val r2d
              else if c = "0." then .val zero else .stuck
  | .nan => .stuck
  | .other _ => .stuck

def evalFs (s : XS F P Err) : List FEx → EV (List F)
  | [] => .val []
  | e :: es =>
    match evalF s e with
    | .val x => (match evalFs s es with | .val xs => .val (x :: xs) | .panic f => .panic f | .stuck => .stuck)
    | .panic f => .panic f
    | .stuck => .stuck

def longlatStr : List Char := ['l', 'o', 'n', 'g', 'l', 'a', 't']

/-- boolean expressions; `fuel` bounds the depth of predicate calls (`checkNotWGS` calls nothing) -/
def evalB (env : Env F P Err) : Nat → XS F P Err → BEx → Option Bool
  | _, s, .errNotNil => some s.err.isSome
  | _, s, .strNe sr f c =>
    match getSR s sr, env.strs.lookup c with
    | some i, some str => if f = "Axis" then some (decide ((s.heap i).axis ≠ str)) else none
    | _, _ => none
  | _, s, .strEq sr f c =>
    match getSR s sr, env.strs.lookup c with
    | some i, some str => if f = "Name" ∧ str = longlatStr then some (s.heap i).longlat else none
    | _, _ => none
  | _, s, .notNaN e => match evalF s e with | .val x => some (!isNaN x) | _ => none
  | 0, _, .call _ _ _ => none
  | fuel+1, s, .call fn a b =>
    if fn = "checkNotWGS" then
      match getSR s a, getSR s b, env.pred.1 with
      | some i, some j, [p0, p1] => evalB env fuel { s with srs := [(p0, i), (p1, j)], capt := [] } env.pred.2
      | _, _, _ => none
    else none
  | fuel, s, .or a b =>
    match evalB env fuel s a, evalB env fuel s b with
    | some x, some y => some (x || y)
    | _, _ => none
  | fuel, s, .and a b =>
    match evalB env fuel s a, evalB env fuel s b with
    | some x, some y => some (x && y)
    | _, _ => none
  | fuel, s, .not a => (evalB env fuel s a).map (!·)
  | _, s, .dtypeEq sr c =>
    match getSR s sr, env.consts.lookup c with
    | some i, some k => some (decide ((s.heap i).dtype = k))
    | _, _ => none
  | _, s, .equalFold sr f lit =>
    match getSR s sr with
    | some i => if f = "DatumCode" ∧ lit = "WGS84" then some (s.heap i).wgsCode else none
    | none => none
  | _, _, .other _ => none

/-- `lv = x` for a float -/
def assign1 (s : XS F P Err) : LV → F → EV (XS F P Err)
  | .v n, x => if (s.fl.lookup n).isSome then .val { s with fl := (n, x) :: s.fl } else .stuck
  | .idx i, x => if i < s.point.length then .val { s with point := s.point.set i x } else .panic .index
  | .blank, _ => .val s
  | _, _ => .stuck

/-- `outs…, err = (vals…, nil)`; the last left-hand side must be `err` -/
def assignAll (s : XS F P Err) : List LV → List F → EV (XS F P Err)
  | [.err], [] => .val { s with err := none }
  | l :: ls, x :: xs =>
    match assign1 s l x with
    | .val s' => assignAll s' ls xs
    | .panic f => .panic f
    | .stuck => .stuck
  | _, _ => .stuck

/-- a callee returned `(…, err)` with `err != nil`: `err` is set, the floats assigned with it are unknown -/
def failWith (s : XS F P Err) (outs : List LV) (e : Err) : R F P Err :=
  if outs.getLast? = some .err then .cont { s with err := some e, junk := true } else .stuck

def liftEV (s0 : XS F P Err) : EV (XS F P Err) → R F P Err
  | .val s => .cont s
  | .panic f => .panic s0 f
  | .stuck => .stuck

def applyOp (op : String) (a b : F) : Option F :=
  if op = "*=" then some (mul a b) else if op = "+=" then some (add a b)
  else if op = "-=" then some (sub a b) else if op = "/=" then some (div a b) else none

def lvEx : LV → FEx
  | .v n => .v n | .idx i => .idx i | _ => .other "lv"

def bindFn (fns : List (String × Bool × Nat × Bool)) (n : Option String) (isInv : Bool) (i : Nat) (ok : Bool) :=
  match n with
  | some n => (n, isInv, i, ok) :: fns
  | none => fns

def exec (env : Env F P Err) : St → XS F P Err → R F P Err
  | .skip, s => .cont s
  | .seq a b, s =>
    match exec env a s with
    | .cont s' => exec env b s'
    | r => r
  | .ite c t e, s =>
    match evalB env 1 s c with
    | some true => exec env t s
    | some false => exec env e s
    | none => .stuck
  | .mkPoint a b, s =>
    match s.fl.lookup a, s.fl.lookup b with
    | some x, some y => .cont { s with point := [x, y] }
    | _, _ => .stuck
  | .declF v e, s =>
    match evalF s e with
    | .val x => .cont { s with fl := (v, x) :: s.fl }
    | .panic f => .panic s f
    | .stuck => .stuck
  | .declErr, s => .cont { s with err := none }
  | .shadow v, s =>
    match getSR s v with
    | some i => .cont { s with srs := (v, i) :: s.srs }
    | none => .stuck
  | .assignSR a b, s =>
    match getSR s b with
    | none => .stuck
    | some j =>
      if (s.srs.lookup a).isSome then .cont { s with srs := (a, j) :: s.srs }
      else if (s.capt.lookup a).isSome then .cont { s with capt := (a, j) :: s.capt }
      else .stuck
  | .parse v code, s =>
    if code = "WGS84" then .cont { s with srs := (v, env.wgs) :: s.srs, err := none } else .stuck
  | .ctor sr fwd inv, s =>
    match getSR s sr with
    | none => .stuck
    | some i =>
      let r := initAt env.core s.heap i
      .cont { s with heap := r.1, err := r.2,
                     fns := bindFn (bindFn s.fns fwd false i r.2.isNone) inv true i r.2.isNone }
  | .adjust sr denorm, s =>
    match getSR s sr with
    | none => .stuck
    | some i =>
      match adjustAxis env.core.axisErr (s.heap i).axis denorm s.point with
      | .ok pt => .cont { s with point := pt, err := none }
      | .error (.err e) => .cont { s with point := [], err := some e }
      | .error (.panic f) => .panic s f
  | .opAssign l op e, s =>
    match evalF s (lvEx l), evalF s e with
    | .val a, .val b =>
      match applyOp op a b with
      | some x => liftEV s (assign1 s l x)
      | none => .stuck
    | .panic f, _ => .panic s f
    | .val _, .panic f => .panic s f
    | _, _ => .stuck
  | .callFn f outs args, s =>
    match s.fns.lookup f, evalFs s args with
    | some (isInv, i, ok), .val [a, b] =>
      if !ok then .panic s .nilDeref
      else
        match (if isInv then env.core.inv (s.heap i).p a b else env.core.fwd (s.heap i).p a b) with
        | .ok (x, y) => liftEV s (assignAll s outs [x, y])
        | .error e => failWith s outs e
    | some _, .panic f => .panic s f
    | _, _ => .stuck
  | .datum a b outs args, s =>
    match getSR s a, getSR s b, evalFs s args with
    | some i, some j, .val [x, y, z] =>
      match env.core.dt i j x y z with
      | .ok (x, y, z) => liftEV s (assignAll s outs [x, y, z])
      | .error (.err e) => failWith s outs e
      | .error (.panic f) => .panic s f      -- a callee of datumTransform panics: the call panics
    | some _, some _, .panic f => .panic s f
    | _, _, _ => .stuck
  | .t3 a b outs args, s =>
    match getSR s a, getSR s b, evalFs s args with
    | some i, some j, .val [x, y, z] =>
      let r := env.t3 s.heap i j x y z
      let s1 := { s with heap := r.1 }
      match r.2 with
      | .ok x y z => liftEV s1 (assignAll s1 outs [x, y, z])
      | .err e => failWith s1 outs e
      | .panic f => .panic s1 f
    | some _, some _, .panic f => .panic s f
    | _, _, _ => .stuck
  | .ret vals true, s =>
    -- `return math.NaN(), …, err`
    if vals.all (· == .nan) then
      match s.err with
      | some e => .retErr s e
      | none => .stuck
    else .stuck
  | .ret vals false, s =>
    if s.junk then .stuck
    else
      match evalFs s vals with
      | .val xs => .retOk s xs
      | .panic f => .panic s f
      | .stuck => .stuck
  | .other _, _ => .stuck

/-- a function or closure as extracted: `*SR` parameter / captured names, float parameter names, body -/
abbrev Fn := List String × List String × St

/-- run `transform3(source, dest, x, y, z)` as extracted -/
def run3 (env : Env F P Err) (fn : Fn) (h : Heap F P) (s d : Nat) (x y z : F) : Option (Heap F P × Res3 F Err) :=
  match fn with
  | ([ps, pd], [px, py, pz], body) =>
    match exec env body { heap := h, fl := [(px, x), (py, y), (pz, z)], point := [], err := none,
                          srs := [(ps, s), (pd, d)], capt := [], fns := [], junk := false } with
    | .retOk s' [a, b, c] => some (s'.heap, .ok a b c)
    | .retErr s' e => some (s'.heap, .err e)
    | .panic s' f => some (s'.heap, .panic f)
    | _ => none
  | _ => none

/-- run the closure returned by `NewTransform` as extracted: the captured pair after the call is part of the
answer -/
def runC (env : Env F P Err) (fn : Fn) (h : Heap F P) (tr : Tr) (x y : F) : Option (Heap F P × Tr × Res F Err) :=
  match fn with
  | ([ps, pd], [px, py], body) =>
    let fin (s' : XS F P Err) : Option Tr :=
      match s'.capt.lookup ps, s'.capt.lookup pd with
      | some a, some b => some ⟨a, b⟩
      | _, _ => none
    match exec env body { heap := h, fl := [(px, x), (py, y)], point := [], err := none,
                          srs := [], capt := [(ps, tr.src), (pd, tr.dst)], fns := [], junk := false } with
    | .retOk s' [a, b] => (fin s').map fun t => (s'.heap, t, .ok a b)
    | .retErr s' e => (fin s').map fun t => (s'.heap, t, .err e)
    | .panic s' f => (fin s').map fun t => (s'.heap, t, .panic f)
    | _ => none
  | _ => none

end
end GeomV.C10.TIR
