import GeomV.C10.Model
/-!
Helper lemmas for C10, part 2 (transformers): the heap invariant `Rel` (every SR is as parsed or as
left by its constructor), results do not depend on which, `adjust_axis` on 2-vectors.
-/
set_option linter.unusedSimpArgs false
set_option linter.unusedVariables false
set_option linter.unusedSectionVars false
namespace GeomV.C10
open GeomV

variable {F P Err : Type} [FOps F]

/-- the SR after its constructor has run -/
def inited (c : Core F P Err) (s : SR F P) : SR F P := { s with p := (c.init s.p).1 }

/-- every heap cell is as in `h0` or as left by its constructor -/
def Rel (c : Core F P Err) (h0 h : Heap F P) : Prop := ∀ i, h i = h0 i ∨ h i = inited c (h0 i)

theorem Rel.refl (c : Core F P Err) (h0 : Heap F P) : Rel c h0 h0 := fun _ => Or.inl rfl

theorem inited_idem (c : Core F P Err) (hc : CoreOK c) (s : SR F P) : inited c (inited c s) = inited c s := by
  simp [inited, hc s.p]

theorem init_err_idem (c : Core F P Err) (hc : CoreOK c) (s : SR F P) :
    (c.init (inited c s).p).2 = (c.init s.p).2 := by
  simp [inited, hc s.p]

/-- what `initAt` does, in terms of `inited` -/
theorem initAt_fst (c : Core F P Err) (h : Heap F P) (i : Nat) :
    (initAt c h i).1 = h.set i (inited c (h i)) := rfl
theorem initAt_snd (c : Core F P Err) (h : Heap F P) (i : Nat) :
    (initAt c h i).2 = (c.init (h i).p).2 := rfl

theorem rel_cell (c : Core F P Err) (hc : CoreOK c) (h0 h : Heap F P) (hr : Rel c h0 h) (i : Nat) :
    inited c (h i) = inited c (h0 i) ∧ (c.init (h i).p).2 = (c.init (h0 i).p).2 := by
  cases hr i with
  | inl e => simp [e]
  | inr e => simp [e, inited_idem c hc, init_err_idem c hc]

theorem rel_initAt (c : Core F P Err) (hc : CoreOK c) (h0 h : Heap F P) (hr : Rel c h0 h) (i : Nat) :
    Rel c h0 (initAt c h i).1 := by
  intro j
  simp only [initAt_fst, Heap.set]
  by_cases hj : j = i
  · subst hj; simp [(rel_cell c hc h0 h hr j).1]
  · simp [hj]; exact hr j

/-- after `source.Transformers(); dest.Transformers()` both cells are the constructor's result,
whatever they were before -/
theorem rel_two (c : Core F P Err) (hc : CoreOK c) (h0 h : Heap F P) (hr : Rel c h0 h) (s d : Nat) :
    (initAt c (initAt c h s).1 d).1 s = inited c (h0 s) ∧
    (initAt c (initAt c h s).1 d).1 d = inited c (h0 d) := by
  have h1 := rel_initAt c hc h0 h hr s
  have hd := (rel_cell c hc h0 _ h1 d).1
  constructor
  · simp only [initAt_fst, Heap.set] at *
    by_cases hsd : s = d
    · subst hsd; simpa using hd
    · simp [hsd, (rel_cell c hc h0 h hr s).1]
  · rw [initAt_fst]; simp only [Heap.set]; simpa using hd

theorem rel_stepNoHop (c : Core F P Err) (hc : CoreOK c) (h0 h : Heap F P) (hr : Rel c h0 h)
    (s d : Nat) (x y z : F) :
    Rel c h0 (stepNoHop c h s d x y z).1 ∧ (stepNoHop c h s d x y z).2 = (stepNoHop c h0 s d x y z).2 := by
  have e1 : (initAt c h s).2 = (initAt c h0 s).2 := by
    simp [initAt_snd, (rel_cell c hc h0 h hr s).2]
  have r1 := rel_initAt c hc h0 h hr s
  have r1' := rel_initAt c hc h0 h0 (Rel.refl c h0) s
  have e2 : (initAt c (initAt c h s).1 d).2 = (initAt c (initAt c h0 s).1 d).2 := by
    simp only [initAt_snd]
    rw [(rel_cell c hc h0 _ r1 d).2, (rel_cell c hc h0 _ r1' d).2]
  have r2 := rel_initAt c hc h0 _ r1 d
  have t := rel_two c hc h0 h hr s d
  have t' := rel_two c hc h0 h0 (Rel.refl c h0) s d
  unfold stepNoHop
  simp only []
  rw [e1]
  cases hE1 : (initAt c h0 s).2 with
  | some e => simp [r1]
  | none =>
    simp only []
    rw [e2]
    cases hE2 : (initAt c (initAt c h0 s).1 d).2 with
    | some e => simp [r2]
    | none => simp [r2, t.1, t.2, t'.1, t'.2]

theorem inited_frame (c : Core F P Err) (s : SR F P) :
    (inited c s).dtype = s.dtype ∧ (inited c s).wgsCode = s.wgsCode := by simp [inited]

theorem rel_needsHop (c : Core F P Err) (h0 h : Heap F P) (hr : Rel c h0 h) (s d : Nat) :
    needsHop h s d = needsHop h0 s d := by
  have a : ∀ i, (h i).dtype = (h0 i).dtype ∧ (h i).wgsCode = (h0 i).wgsCode := by
    intro i; cases hr i with
    | inl e => simp [e]
    | inr e => simp [e, inited]
  simp [needsHop, notWGS, (a s).1, (a s).2, (a d).1, (a d).2]

theorem rel_step (c : Core F P Err) (hc : CoreOK c) (wgs : Nat) (h0 h : Heap F P) (hr : Rel c h0 h)
    (tr : Tr) (x y : F) :
    Rel c h0 (step c wgs h tr x y).1 ∧ (step c wgs h tr x y).2.1 = tr ∧
      (step c wgs h tr x y).2.2 = (step c wgs h0 tr x y).2.2 := by
  unfold step
  rw [rel_needsHop c h0 h hr tr.src tr.dst]
  by_cases hh : needsHop h0 tr.src tr.dst = true
  · simp only [hh, if_true]
    obtain ⟨ra, ea⟩ := rel_stepNoHop c hc h0 h hr tr.src wgs x y FOps.zero
    obtain ⟨ra', _⟩ := rel_stepNoHop c hc h0 h0 (Rel.refl c h0) tr.src wgs x y FOps.zero
    rw [ea]
    cases hres : (stepNoHop c h0 tr.src wgs x y FOps.zero).2 with
    | ok a b z =>
      obtain ⟨rb, eb⟩ := rel_stepNoHop c hc h0 _ ra wgs tr.dst a b z
      obtain ⟨_, eb'⟩ := rel_stepNoHop c hc h0 _ ra' wgs tr.dst a b z
      simp [rb, eb, eb']
    | err e => simp [ra]
    | panic f => simp [ra]
  · simp only [hh]
    obtain ⟨ra, ea⟩ := rel_stepNoHop c hc h0 h hr tr.src tr.dst x y FOps.zero
    simp [ra, ea]

theorem pool_update_same (pool : Nat → Tr) (k : Nat) : (fun j => if j = k then pool k else pool j) = pool := by
  funext j; by_cases h : j = k <;> simp [h]

/-- every answer of a history equals the answer of a single call on the initial heap -/
theorem rel_runHist (c : Core F P Err) (hc : CoreOK c) (wgs : Nat) (h0 : Heap F P) (pool : Nat → Tr)
    (hist : List (Nat × F × F)) :
    ∀ (s : TState F P), Rel c h0 s.heap → s.pool = pool →
      Rel c h0 (runHist c wgs s hist).1.heap ∧ (runHist c wgs s hist).1.pool = pool ∧
      (runHist c wgs s hist).2 = hist.map (fun q => (step c wgs h0 (pool q.1) q.2.1 q.2.2).2.2) := by
  induction hist with
  | nil => intro s hr hp; simp [runHist, hr, hp]
  | cons q rest ih =>
    intro s hr hp
    subst hp
    obtain ⟨k, x, y⟩ := q
    obtain ⟨r1, r2, r3⟩ := rel_step c hc wgs h0 s.heap hr (s.pool k) x y
    have hp' : (call c wgs s k x y).1.pool = s.pool := by
      simp only [call, r2]; rw [pool_update_same]
    have hr' : Rel c h0 (call c wgs s k x y).1.heap := by simpa [call] using r1
    obtain ⟨i1, i2, i3⟩ := ih (call c wgs s k x y).1 hr' hp'
    simp only [runHist, List.map_cons]
    refine ⟨i1, i2, ?_⟩
    rw [i3]
    simp [call, r3]

/-! ### settled heaps -/

/-- the constructor has nothing left to do on cell `i` -/
def Settled (c : Core F P Err) (h : Heap F P) (i : Nat) : Prop := (c.init (h i).p).1 = (h i).p

theorem initAt_settled (c : Core F P Err) (h : Heap F P) (i : Nat) (hs : Settled c h i) :
    (initAt c h i).1 = h := by
  funext j
  simp only [initAt_fst, Heap.set, inited]
  by_cases hj : j = i
  · subst hj; simp only [if_true]; unfold Settled at hs; rw [hs]
  · simp [hj]

theorem stepNoHop_settled (c : Core F P Err) (h : Heap F P) (s d : Nat) (x y z : F)
    (hs : Settled c h s) (hd : Settled c h d) : (stepNoHop c h s d x y z).1 = h := by
  unfold stepNoHop
  simp only [initAt_settled c h s hs]
  cases (initAt c h s).2 with
  | some e => rfl
  | none =>
    simp only [initAt_settled c h d hd]
    cases (initAt c h d).2 <;> rfl

/-! ### adjust_axis on 2-vectors -/

def legalChar (ch : Char) : Prop := ch = 'e' ∨ ch = 'w' ∨ ch = 'n' ∨ ch = 's' ∨ ch = 'u' ∨ ch = 'd'

theorem chain_elim {β : Type} (ch : Char) (A B C D E : β) (Q : β → Prop)
    (hA : Q A) (hB : Q B) (hC : Q C) (hD : Q D) (hE : Q E) :
    Q (if ch = 'e' ∨ ch = 'n' then A else if ch = 'w' ∨ ch = 's' then B else if ch = 'u' then C
       else if ch = 'd' then D else E) := by
  by_cases h1 : ch = 'e' ∨ ch = 'n'
  · simp [h1, hA]
  · by_cases h2 : ch = 'w' ∨ ch = 's'
    · simp [h1, h2, hB]
    · by_cases h3 : ch = 'u'
      · simp [h1, h2, h3, hC]
      · by_cases h4 : ch = 'd'
        · simp [h1, h2, h3, h4, hD]
        · simp [h1, h2, h3, h4, hE]

theorem chain_elim_legal {β : Type} (ch : Char) (hl : legalChar ch) (A B C D E : β) (Q : β → Prop)
    (hA : Q A) (hB : Q B) (hC : Q C) (hD : Q D) :
    Q (if ch = 'e' ∨ ch = 'n' then A else if ch = 'w' ∨ ch = 's' then B else if ch = 'u' then C
       else if ch = 'd' then D else E) := by
  rcases hl with h | h | h | h | h | h <;> subst h <;> simp [hA, hB, hC, hD]

/-- one loop iteration on a 2-vector: never an index fault; with a legal letter no error either -/
theorem axisStep_two (ae : Err) (axis : List Char) (a b : F) (i : Nat) (hi : i < 3) (hl : axis.length = 3) :
    (∀ f, axisStep ae axis [a, b] i ≠ .error (.panic f)) ∧
    (∀ pt, axisStep ae axis [a, b] i = .ok pt → pt.length = 2) ∧
    ((∀ ch ∈ axis, legalChar ch) → ∃ pt, axisStep ae axis [a, b] i = .ok pt) := by
  obtain ⟨c0, c1, c2, rfl⟩ : ∃ c0 c1 c2, axis = [c0, c1, c2] := by
    match axis, hl with
    | [c0, c1, c2], _ => exact ⟨c0, c1, c2, rfl⟩
  have hcases : i = 0 ∨ i = 1 ∨ i = 2 := by omega
  rcases hcases with rfl | rfl | rfl
  · refine ⟨?_, ?_, ?_⟩
    · intro f; simp only [axisStep, setIdx]; simp
      refine chain_elim (β := Except (Fail Err) (List F)) c0 _ _ _ _ _ (fun r => ¬ r = Except.error (Fail.panic f)) ?_ ?_ ?_ ?_ ?_ <;> simp
    · intro pt; simp only [axisStep, setIdx]; simp
      refine chain_elim (β := Except (Fail Err) (List F)) c0 _ _ _ _ _ (fun r => r = Except.ok pt → pt.length = 2) ?_ ?_ ?_ ?_ ?_ <;>
        (intro h; simp at h; try (subst h; rfl))
    · intro hleg
      simp only [axisStep, setIdx]; simp
      refine chain_elim_legal (β := Except (Fail Err) (List F)) c0 (hleg c0 (by simp)) _ _ _ _ _ (fun r => ∃ pt, r = Except.ok pt) ?_ ?_ ?_ ?_ <;> simp
  · refine ⟨?_, ?_, ?_⟩
    · intro f; simp only [axisStep, setIdx]; simp
      refine chain_elim (β := Except (Fail Err) (List F)) c1 _ _ _ _ _ (fun r => ¬ r = Except.error (Fail.panic f)) ?_ ?_ ?_ ?_ ?_ <;> simp
    · intro pt; simp only [axisStep, setIdx]; simp
      refine chain_elim (β := Except (Fail Err) (List F)) c1 _ _ _ _ _ (fun r => r = Except.ok pt → pt.length = 2) ?_ ?_ ?_ ?_ ?_ <;>
        (intro h; simp at h; try (subst h; rfl))
    · intro hleg
      simp only [axisStep, setIdx]; simp
      refine chain_elim_legal (β := Except (Fail Err) (List F)) c1 (hleg c1 (by simp)) _ _ _ _ _ (fun r => ∃ pt, r = Except.ok pt) ?_ ?_ ?_ ?_ <;> simp
  · simp [axisStep]

end GeomV.C10
