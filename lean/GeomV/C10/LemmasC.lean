import GeomV.C10.Ctors
/-! Idempotence and frame of the modelled projection constructors (C10, `CoreOK` discharged). -/
set_option linter.unusedSimpArgs false
set_option linter.unusedVariables false
set_option linter.unusedSectionVars false
namespace GeomV.C10
open GeomV

variable {F R : Type} [POps F]
open POps

theorem nanDefault_idem (x d : F) : nanDefault (nanDefault x d) d = nanDefault x d := by
  unfold nanDefault
  by_cases h : isNaN x = true
  · simp [h]
  · simp [h]

theorem initP_idem (c : Ctor) (p : PF F R) : initP c (initP c p).1 = ((initP c p).1, (initP c p).2) := by
  cases c with
  | longlat => rfl
  | tmerc => rfl
  | unknown => rfl
  | aea => rfl
  | merc => simp [initP, initMerc, nanDefault_idem]
  | utm =>
    simp only [initP, initUTM, initTMerc]
    by_cases h : isNaN p.zone = true
    · simp [h]
    · simp [h]
  | lcc =>
    simp only [initP, initLCC, nanDefault_idem, parallelsBad]; rfl
  | eqdc =>
    simp only [initP, initEqdC]
    cases h : parallelsBad { p with lat2 := nanDefault p.lat2 p.lat1 } with
    | true => simp [h, nanDefault_idem]
    | false =>
      simp only [Bool.false_eq_true, if_false, nanDefault_idem]
      have h' : parallelsBad ({ p with lat2 := nanDefault p.lat2 p.lat1, es := sub one (pow2 (div p.b p.a)), e := sqrt (sub one (pow2 (div p.b p.a))) } : PF F R) = false := h
      simp [h']
  | krovak => simp [initP, initKrovak, nanDefault_idem]

/-! ### frame: which fields a constructor can change -/

inductive Fld where
  | lat0 | lat1 | lat2 | long0 | x0 | y0 | k0 | a | b | es | e | zone | utmSouth | ro
deriving Repr, DecidableEq

def Fld.goName : Fld → String
  | .lat0 => "Lat0" | .lat1 => "Lat1" | .lat2 => "Lat2" | .long0 => "Long0" | .x0 => "X0" | .y0 => "Y0"
  | .k0 => "K0" | .a => "A" | .b => "B" | .es => "Es" | .e => "E" | .zone => "Zone"
  | .utmSouth => "UTMSouth" | .ro => "(any other field)"

inductive Val (F R : Type) where
  | f (x : F) | b (x : Bool) | r (x : R)

def PF.get (p : PF F R) : Fld → Val F R
  | .lat0 => .f p.lat0 | .lat1 => .f p.lat1 | .lat2 => .f p.lat2 | .long0 => .f p.long0
  | .x0 => .f p.x0 | .y0 => .f p.y0 | .k0 => .f p.k0 | .a => .f p.a | .b => .f p.b | .es => .f p.es
  | .e => .f p.e | .zone => .f p.zone | .utmSouth => .b p.utmSouth | .ro => .r p.ro

/-- a constructor changes no field outside its write set -/
theorem initP_frame (c : Ctor) (p : PF F R) (fld : Fld) (h : fld.goName ∉ writeSet c) :
    (initP c p).1.get fld = p.get fld := by
  cases c <;> cases fld <;>
    first
    | rfl
    | (simp only [initP, initUTM, initTMerc, initEqdC]; split <;> rfl)
    | (exfalso; simp [writeSet, Fld.goName] at h)

/-- no write set touches a field the closure reads outside the projection functions -/
theorem writeSet_frame : ∀ c : Ctor, ∀ s ∈ writeSet c, s ∉ frameFields := by
  intro c; cases c <;> decide

end GeomV.C10
