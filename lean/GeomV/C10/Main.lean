import GeomV.C10.Model
import GeomV.C10.Spec
/-!
Driver for C10: `geomv_c10 judge` reads lines `<input> => <implementation's answer>` and prints one
verdict per line:
  OK <class>            model, spec and implementation agree
  DIFF <class> <why>    implementation differs from the model (correspondence broken)
  SPEC <class> <why>    implementation's answer violates the specification (Spec.lean)
-/
namespace GeomV.C10
open GeomV

/-! ## `gt` lines: Geom.Transform with the synthetic bit-pattern transformer of harness/cmd/c10/gt.go -/

def xorC1 : UInt64 := 0x00000000000a5a50
def xorC2 : UInt64 := 0x0000000000055aa0
/-- the synthetic transformer's map: swap and xor, except that a vertex whose low byte of x is 0x1D is a FIXED
POINT (one vertex that does not move says nothing about the others: seeded change C10-f2) -/
def swapXor (p : Pt UInt64) : Pt UInt64 :=
  if p.x &&& 0xFF = 0x1D then p else ⟨p.y ^^^ xorC1, p.x ^^^ xorC2⟩

/-- kind `p`: fails on a poison vertex (low byte of x = 0xEE) with id = low 16 bits of y -/
def tPure : TF Nat UInt64 := fun p =>
  if p.x &&& 0xFF = 0xEE then .error (p.y &&& 0xFFFF).toNat else .ok (swapXor p)
/-- kind `c<k>` expressed as a function of the vertex (valid when the k-th vertex value does not occur
earlier in the traversal) -/
def tAt (v : Option (Pt UInt64)) (k : Nat) : TF Nat UInt64 := fun p =>
  if some p = v then .error k else .ok (swapXor p)

def geomClass : BGeom → String
  | .point _ => "point" | .multiPoint _ => "multipoint" | .lineString _ => "linestring"
  | .multiLineString _ => "multilinestring" | .polygon _ => "polygon" | .multiPolygon _ => "multipolygon"
  | .collection _ => "collection" | .bounds _ _ => "bounds" | .nil => "nil"

def sectionsOf (t : Tok) (sep : String) : List Tok :=
  let rec go : Tok → Tok → List Tok → List Tok
    | [], cur, acc => (cur.reverse :: acc).reverse
    | x :: xs, cur, acc => if x = sep then go xs [] (cur.reverse :: acc) else go xs (x :: cur) acc
  go t [] []

def parsePairs : Tok → Option (List (Pt UInt64))
  | [] => some []
  | a :: b :: r => do let x ← parseU64 a; let y ← parseU64 b; let t ← parsePairs r; pure (⟨x, y⟩ :: t)
  | _ => none

def implOutcome (res : Tok) : Option (Spec.Outcome Nat BGeom) :=
  match res with
  | "ok" :: gt => (Proto.pGeom 64 gt).map fun (g, _) => .ok g
  | ["err", id] => id.toNat?.map .err
  | "errx" :: _ => some (.err 4000000000)   -- an error that is not the transformer's
  | "panic" :: _ => some .panic
  | _ => none

def modelOutcome : Except (Fail Nat) BGeom → Spec.Outcome Nat BGeom
  | .ok g => .ok g
  | .error (.err e) => .err e
  | .error (.panic _) => .panic

def outcomeEq : Spec.Outcome Nat BGeom → Spec.Outcome Nat BGeom → Bool
  | .ok a, .ok b => Geom.beq a b
  | .err a, .err b => a == b
  | .panic, .panic => true
  | _, _ => false

/-! ### the memory model (`Mem.lean`) run on the same input, laid out as the harness lays it out -/

open Mem in
structure LState where
  mem : Mem UInt64
  seen : List (Slice × List (Pt UInt64))

open Mem in
/-- place one point slice: `x` re-slices an earlier slice of which it is a prefix, `w` appends to the one
flat buffer `pts[0]`, otherwise a new array -/
def layPts (fl : String) (ps : List (Pt UInt64)) (st : LState) : Slice × LState :=
  let shared : Option Slice :=
    if fl.contains 'x' && !ps.isEmpty then
      (st.seen.find? fun (_, c) => c.take ps.length == ps).map fun (sl, _) => ⟨sl.addr, sl.off, ps.length⟩
    else none
  match shared with
  | some sl => (sl, st)
  | none =>
    if fl.contains 'w' then
      let buf := st.mem.pts.headD []
      let sl : Slice := ⟨0, buf.length, ps.length⟩
      (sl, { mem := { st.mem with pts := (buf ++ ps) :: st.mem.pts.drop 1 }, seen := st.seen ++ [(sl, ps)] })
    else
      let sl : Slice := ⟨st.mem.pts.length, 0, ps.length⟩
      (sl, { mem := { st.mem with pts := st.mem.pts ++ [ps] }, seen := st.seen ++ [(sl, ps)] })

open Mem in
def layPaths (fl : String) (rs : List (List (Pt UInt64))) (st : LState) : Slice × LState :=
  let (hs, st) := rs.foldl (fun (acc : List Slice × LState) r =>
    let (h, st) := layPts fl r acc.2; (acc.1 ++ [h], st)) ([], st)
  (⟨st.mem.paths.length, 0, hs.length⟩, { st with mem := { st.mem with paths := st.mem.paths ++ [hs] } })

open Mem in
mutual
def layGeom (fl : String) : BGeom → LState → MGeom UInt64 × LState
  | .point p, st => (.point p, st)
  | .multiPoint ps, st => let (h, st) := layPts fl ps st; (.multiPoint h, st)
  | .lineString ps, st => let (h, st) := layPts fl ps st; (.lineString h, st)
  | .multiLineString ls, st => let (h, st) := layPaths fl ls st; (.multiLineString h, st)
  | .polygon rs, st => let (h, st) := layPaths fl rs st; (.polygon h, st)
  | .multiPolygon ps, st =>
    let (hs, st) := ps.foldl (fun (acc : List Slice × LState) p =>
      let (h, st) := layPaths fl p acc.2; (acc.1 ++ [h], st)) ([], st)
    (.multiPolygon ⟨st.mem.polys.length, 0, hs.length⟩, { st with mem := { st.mem with polys := st.mem.polys ++ [hs] } })
  | .collection gs, st =>
    let (ms, st) := layGeoms fl gs st
    (.collection ⟨st.mem.geoms.length, 0, ms.length⟩, { st with mem := { st.mem with geoms := st.mem.geoms ++ [ms] } })
  | .bounds a b, st => (.bounds st.mem.bnds.length, { st with mem := { st.mem with bnds := st.mem.bnds ++ [(a, b)] } })
  | .nil, st => (.nil, st)
def layGeoms (fl : String) : List BGeom → LState → List (MGeom UInt64) × LState
  | [], st => ([], st)
  | g :: gs, st =>
    let (m, st) := layGeom fl g st
    let (ms, st) := layGeoms fl gs st
    (m :: ms, st)
end

/- `readArr` / `decodeGeom` (reading a geometry back out of a memory) are in MemDecode.lean, shared with the
refinement theorems `C10_mem_refines_partial` / `_nil`. -/

open Mem in
/-- run `Mem.transformTop` on the laid-out input; the decoded outcome and whether the input still decodes
to itself afterwards -/
def memOutcome (fl : String) (t : Option (TF Nat UInt64)) (g : BGeom) : Spec.Outcome Nat BGeom × Bool :=
  let st0 : LState := { mem := { pts := if fl.contains 'w' then [[]] else [], paths := [], polys := [], geoms := [], bnds := [] }, seen := [] }
  let (mg, st) := layGeom fl g st0
  let r := transformTop (E := Nat) ⟨0, 0⟩ 64 t mg st.mem
  let inputKept := match decodeGeom r.1 64 mg with | some g' => Geom.beq g' g | none => false
  match r.2 with
  | .ok g' => (match decodeGeom r.1 64 g' with | some d => .ok d | none => .panic, inputKept)
  | .error (.err e) => (.err e, inputKept)
  | .error (.panic _) => (.panic, inputKept)

structure GTV where
  cls : String
  spec : Option String
  diff : Option String

/-- verdict on one `g.Transform(t)` answer `res` (and, when given, the log of the calls of `t`) -/
def gtEval (fl : String) (kind : String) (g : BGeom) (res : Tok) (callLog : Option (List (Pt UInt64))) : Option GTV :=
  match implOutcome res with
  | none => none
  | some out =>
    let vs := Spec.vertices g
    -- the transformer as a function of the vertex, and whether that description is exact
    let (t, exact, ktag) : Option (TF Nat UInt64) × Bool × String :=
      if kind = "nil" then (none, true, "nil")
      else if kind = "p" then (some tPure, true, "p")
      else
        let k := (kind.drop 1).toString.toNat?.getD 0
        let v := vs[k]?
        (some (tAt v k), !(match v with | some v => (vs.take k).contains v | none => false), "c")
    let m := transform t g
    -- the memory model must agree with the functional model (and leave its input readable as before)
    let (mo, kept) := memOutcome fl t g
    let memBad : Option String :=
      if !(outcomeEq mo (modelOutcome m)) then some "memory-model-differs-from-functional-model"
      else if !kept then some "memory-model-changed-its-input" else none
    let expectFail := match t with
      | none => false
      | some t => match Spec.mapAll t vs with | .error _ => true | .ok _ => false
    let cls := s!"gt-{geomClass g}-{ktag}-{if expectFail then "err" else "ok"}"
    if !(noNil g) then
      -- nil members are outside the property; only the model is compared
      some { cls := s!"gt-nilmember-{ktag}", spec := none,
             diff := if outcomeEq (modelOutcome m) out then memBad else some s!"model-differs impl={" ".intercalate (res.take 3)}" }
    else if !exact then
      -- duplicate of the failing vertex earlier in the traversal: check the counting semantics directly
      let k := (kind.drop 1).toString.toNat?.getD 0
      let okc := match callLog with | some l => l == vs.take (k+1) | none => true
      some { cls := cls ++ "-dup", diff := none,
             spec := if outcomeEq out (.err k) && okc then none
                     else some s!"k-th-call-fails-but-result-is {" ".intercalate (res.take 2)}" }
    else
      match Spec.transformSpecB t g out Geom.beq with
      | some why =>
        let pm := if res.head? == some "panic" then " " ++ " ".intercalate res else ""
        some { cls := cls, spec := some s!"{why}{pm}", diff := none }
      | none =>
        let wantCalls := match t with | none => [] | some t => Spec.expectedCalls t vs
        match callLog with
        | some l =>
          if l != wantCalls then
            some { cls := cls, diff := none,
                   spec := some s!"transformer-not-called-on-the-vertices-in-order got={l.length} want={wantCalls.length}" }
          else some { cls := cls, spec := none,
                      diff := if outcomeEq (modelOutcome m) out then memBad else some s!"model-differs impl={" ".intercalate (res.take 3)}" }
        | none => some { cls := cls, spec := none,
                         diff := if outcomeEq (modelOutcome m) out then memBad else some s!"model-differs impl={" ".intercalate (res.take 3)}" }

/-- the harness's in-place mutation: bit 8 of every coordinate flipped -/
def flipGeom (g : BGeom) : BGeom := Geom.map (fun u => u ^^^ 0x100) g

def judgeGT (kindFlags : String) (gt rhs : Tok) : String :=
  let kind := ((kindFlags.splitOn "@").headD "")
  let fl := ((kindFlags.splitOn "@").drop 1).headD ""
  let lay := if kindFlags.contains '@' then "-shared" else ""
  match Proto.pGeom 64 gt with
  | none => "DIFF gt-bad parse-error-input"
  | some (g, _) =>
    match sectionsOf rhs "|" with
    | [res, flags, calls, again] =>
      match parsePairs (calls.drop 2), gtEval fl kind g res none with
      | some callLog, some _ =>
        match gtEval fl kind g res (some callLog), gtEval fl kind (flipGeom g) again none with
        | some v1, some v2 =>
          let cls := v1.cls ++ lay
          match v1.spec with
          | some why => s!"SPEC {cls} {why}"
          | none =>
            if flags.contains "in=changed" then s!"SPEC {cls} input-geometry-was-modified"
            else if flags.contains "alias=yes" then s!"SPEC {cls} output-shares-memory-with-input"
            else if flags.contains "rep=diff" then s!"SPEC {cls} identical-call-repeated-gives-another-result"
            else if flags.contains "late=changed" then s!"SPEC {cls} earlier-result-changed-after-later-calls"
            else match v2.spec with
              | some why => s!"SPEC {cls} after-in-place-mutation-of-the-input: {why}"
              | none =>
                match v1.diff, v2.diff with
                | some d, _ => s!"DIFF {cls} {d}"
                | _, some d => s!"DIFF {cls} after-in-place-mutation: {d}"
                | none, none => s!"OK {cls}"
        | _, _ => s!"DIFF gt-bad cannot-parse-answer {" ".intercalate (again.take 4)}"
      | _, _ => s!"DIFF gt-bad cannot-parse-answer {" ".intercalate (rhs.take 4)}"
    | _ => s!"DIFF gt-bad malformed-answer {" ".intercalate (rhs.take 4)}"

/-! ## `h` lines: histories over pools of transformers -/

instance : FOps UInt64 where
  mul a b := (Float.ofBits a * Float.ofBits b).toBits
  add a b := (Float.ofBits a + Float.ofBits b).toBits
  sub a b := (Float.ofBits a - Float.ofBits b).toBits
  div a b := (Float.ofBits a / Float.ofBits b).toBits
  neg a := (-(Float.ofBits a)).toBits
  isNaN a := (Float.ofBits a).isNaN
  deg2rad := 0x3f91df46a2529d39   -- 0.01745329251994329577
  r2d := 0x404ca5dc1a63c1f8       -- 57.29577951308232088
  zero := 0

abbrev XP := Nat × Bool   -- the executable `P`: (SR index, constructor has run)

structure Oracle where
  recs : List (Tok × Tok)   -- key tokens ↦ value tokens

/-- NaN payloads are not part of the oracle keys (`Float.toBits` canonicalises NaN) -/
def normKey (key : Tok) : Tok :=
  key.map fun s => if s.length == 16 then (match parseU64 s with
    | some u => if (Float.ofBits u).isNaN then "nan" else s
    | none => s) else s

def Oracle.find (o : Oracle) (key : Tok) : Option Tok := (o.recs.find? (·.1 == normKey key)).map (·.2)

def Oracle.xy (o : Oracle) (key : Tok) : Except String (UInt64 × UInt64) :=
  match o.find key with
  | some ["ok", c, d] =>
    match parseU64 c, parseU64 d with
    | some c, some d => .ok (c, d)
    | _, _ => .error "ORACLE-BAD"
  | some ["err", m] => .error m
  | some ["panic", m] => .error ("panic:" ++ m)
  | some _ => .error "ORACLE-UNAVAILABLE"
  | none => .error ("ORACLE-MISS:" ++ "_".intercalate key)

def Oracle.xyz (o : Oracle) (key : Tok) : Except String (UInt64 × UInt64 × UInt64) :=
  match o.find key with
  | some ["ok", c, d, e] =>
    match parseU64 c, parseU64 d, parseU64 e with
    | some c, some d, some e => .ok (c, d, e)
    | _, _, _ => .error "ORACLE-BAD"
  | some ["err", m] => .error m
  | some ["panic", m] => .error ("panic:" ++ m)
  | some _ => .error "ORACLE-UNAVAILABLE"
  | none => .error ("ORACLE-MISS:" ++ "_".intercalate key)

def mkCore (o : Oracle) : Core UInt64 XP String where
  init p :=
    ((p.1, true),
      match o.find ["init", toString p.1] with
      | some ["ok"] => none
      | some ["err", m] => some m
      | some ["panic", m] => some ("panic:" ++ m)
      | _ => some ("ORACLE-MISS:init_" ++ toString p.1))
  inv p a b := o.xy ["inv", toString p.1, u64Hex a, u64Hex b]
  fwd p a b := o.xy ["fwd", toString p.1, u64Hex a, u64Hex b]
  dt i j a b z :=
    match o.xyz ["dt", toString i, toString j, u64Hex a, u64Hex b, u64Hex z] with
    | .ok v => .ok v
    | .error m => if m.startsWith "panic:" then .error (.panic .index) else .error (.err m)
  axisErr := "AXIS"

structure SRRec where
  idx : Nat
  canon : Nat
  sr : SR UInt64 XP

def parseSR : Tok → Option SRRec
  | ["sr", i, c, ll, axis, tm, fg, dt, wc] => do
    let i ← i.toNat?; let c ← c.toNat?; let tm ← parseU64 tm; let fg ← parseU64 fg; let dt ← dt.toNat?
    pure { idx := i, canon := c,
           sr := { longlat := ll == "1", axis := axis.toList, toMeter := tm, fromGreenwich := fg,
                   dtype := dt, wgsCode := wc == "1", p := (i, false) } }
  | _ => none

def isNaNBits (u : UInt64) : Bool := (Float.ofBits u).isNaN

/-- compare the model's result with the implementation's (NaN payloads are not compared) -/
def resMatches (m : Res UInt64 String) (r : Tok) : Bool :=
  match m, r with
  | .ok a b, ["ok", x, y] =>
    match parseU64 x, parseU64 y with
    | some x, some y => (a == x || (isNaNBits a && isNaNBits x)) && (b == y || (isNaNBits b && isNaNBits y))
    | _, _ => false
  | .err m, ["err", e] => m == e || (m.startsWith "AXIS" && e.startsWith "in_plot.adjust_axis")
  | .err m, ["panic", e] => m == "panic:" ++ e
  | .panic _, "panic" :: _ => true
  | _, _ => false

def showRes : Res UInt64 String → String
  | .ok a b => s!"ok {u64Hex a} {u64Hex b}"
  | .err e => s!"err {e}"
  | .panic _ => "panic"

/-- split `r <res..> f <res..> tagAfter xdiff` -/
def splitCall (t : Tok) : Option (Tok × Tok × String × String) :=
  let takeRes : Tok → Option (Tok × Tok)
    | "ok" :: a :: b :: r => some (["ok", a, b], r)
    | "err" :: m :: r => some (["err", m], r)
    | "panic" :: m :: r => some (["panic", m], r)
    | "nocall" :: r => some (["nocall"], r)
    | _ => none
  match t with
  | "r" :: rest => do
    let (r, rest) ← takeRes rest
    match rest with
    | "f" :: rest => do
      let (f, rest) ← takeRes rest
      match rest with
      | [tg, xd] => pure (r, f, tg, xd)
      | _ => none
    | _ => none
  | _ => none

def parseCalls : Tok → Option (List (Nat × UInt64 × UInt64))
  | [] => some []
  | k :: a :: b :: r => do
    let k ← k.toNat?; let x ← parseU64 a; let y ← parseU64 b; let t ← parseCalls r; pure ((k, x, y) :: t)
  | _ => none

def parseNats : Tok → Option (List Nat)
  | [] => some []
  | a :: r => do let a ← a.toNat?; let t ← parseNats r; pure (a :: t)

def pairUp : List Nat → List (Nat × Nat)
  | a :: b :: r => (a, b) :: pairUp r
  | _ => []

def tagsOK (tags : String) (recs : List SRRec) (h : Heap UInt64 XP) : Bool :=
  let cs := tags.toList
  recs.all fun r =>
    match cs[r.idx]? with
    | none => false
    | some c =>
      let inited := (h r.canon).p.2
      c == 'B' || (inited && c == 'I') || (!inited && c == 'F')

/-- the fields one constructor run changed on the real SR (`wd` section) lie in the model's write set -/
def wdBad (secs : List Tok) : Option String :=
  secs.findSome? fun s =>
    match s with
    | ["wd", i, name, fields] =>
      if fields == "-" then none
      else
        let ws := writeSet (ctorOfName name)
        match (fields.splitOn ",").find? (fun f => !(ws.contains f)) with
        | some f => some s!"constructor-{name}-wrote-{f}-outside-the-model's-write-set sr={i}"
        | none => none
    | _ => none

def judgeHist (lhs rhs : Tok) : String :=
  let lsecs := sectionsOf lhs "|"
  match lsecs.take 3, sectionsOf rhs ";" with
  | [_, tsec, csec], (("wgs" :: [w]) :: secs) =>
    match w.toNat?, parseNats (tsec.drop 1), parseCalls (csec.drop 1) with
    | some wgs, some tnats, some calls =>
      -- transformers built between calls (4th section: k, index of the call before which k is built)
      let lateKs : List Nat := match lsecs[3]? with
        | some ls => (pairUp ((parseNats (ls.drop 1)).getD [])).map (·.1)
        | none => []
      let recs := secs.filterMap parseSR
      let orc : Oracle := { recs := secs.filterMap fun s =>
        match s with
        | "O" :: "init" :: i :: v => some (["init", i], v)
        | "O" :: "dt" :: i :: j :: a :: b :: z :: v => some (normKey ["dt", i, j, a, b, z], v)
        | "O" :: k :: i :: a :: b :: v => some (normKey [k, i, a, b], v)
        | _ => none }
      let core := mkCore orc
      let dflt : SR UInt64 XP := { longlat := true, axis := enu, toMeter := 0, fromGreenwich := 0, dtype := 0, wgsCode := false, p := (0, false) }
      let heap0 : Heap UInt64 XP := fun i => match recs.find? (·.idx == i) with | some r => r.sr | none => dflt
      let canon (i : Nat) : Nat := match recs.find? (·.idx == i) with | some r => r.canon | none => i
      let pairs := pairUp tnats
      let pool : Nat → Tr := fun k => match pairs[k]? with | some (s, d) => ⟨canon s, canon d⟩ | none => ⟨0, 0⟩
      let callSecs := secs.filter (·.head? == some "call")
      -- transformers whose two definitions denote the same CRS after the constructors' defaults
      let sameKs : List Nat := secs.filterMap fun s =>
        match s with | ["tsame", k, "1"] => k.toNat? | _ => none
      let anyHop := calls.any fun (k, _, _) => needsHop heap0 (pool k).src (pool k).dst
      let anyAxis := recs.any fun r => r.sr.axis != enu
      let base := "hist" ++ (if anyHop then "-hop" else "-nohop") ++ (if anyAxis then "-axis" else "") ++
        (if lateKs.isEmpty then "" else "-latebuild")
      if callSecs.length != calls.length then s!"DIFF {base} call-count-mismatch" else
      -- walk the history
      -- a DIFF does not stop the walk: a later SPEC failure on the same line takes precedence
      let rec go (st : TState UInt64 XP) (cs : List (Nat × UInt64 × UInt64)) (ss : List Tok) (i : Nat)
          (anyErr : Bool) (ncalled : Nat) (diff : Option String) : String :=
        match cs, ss with
        | (k, x, y) :: cs', ("call" :: _ :: built :: fbuilt :: tagBefore :: rest) :: ss' =>
          match splitCall rest with
          | none => s!"DIFF {base} malformed-call-section call={i}"
          | some (r, f, tagAfter, xd) =>
            -- building transformers (before this call) must not have touched any SR
            let diff := diff <|> (if tagsOK tagBefore recs st.heap then none
              else some s!"DIFF {base} SR-state-differs-from-model before-call={i} tags={tagBefore}")
            if built != fbuilt && lateKs.contains k && (built == "nil" || fbuilt == "nil") && (built == "ok" || fbuilt == "ok") then
              -- NewTransform's nil-if-Equal answer flipped after a constructor ran.  Between two definitions of
              -- the SAME CRS (equal once defaults are applied) nil and non-nil are both the identity: skipped.
              -- Between different CRSs a nil (identity) answer that depends on earlier use is history dependence.
              if sameKs.contains k then go st cs' ss' (i+1) anyErr ncalled diff
              else s!"SPEC {base} NewTransform-nil-depends-on-history call={i} transformer={k} pooled={built} fresh={fbuilt}"
            else if built != fbuilt then
              s!"SPEC {base} NewTransform-differs-from-fresh call={i} pooled={built} fresh={fbuilt}"
            else if r == ["nocall"] then go st cs' ss' (i+1) anyErr ncalled diff
            else if r.head? == some "panic" then
              s!"SPEC {base} transformer-panicked call={i} {" ".intercalate r}"
            else if r != f then
              s!"SPEC {base} result-differs-from-fresh-transformer call={i} pooled={" ".intercalate r} fresh={" ".intercalate f}"
            else
              let (st', m) := call core wgs st k x y
              let d : Option String :=
                if !(resMatches m r) then
                  some s!"DIFF {base} model-result-differs call={i} model={showRes m} impl={" ".intercalate r}"
                else if !(tagsOK tagAfter recs st'.heap) then
                  some s!"DIFF {base} SR-state-differs-from-model call={i} tags={tagAfter} first={xd}"
                else none
              go st' cs' ss' (i+1) (anyErr || r.head? != some "ok") (ncalled+1) (diff <|> d)
        | [], [] =>
          match diff with
          | some d => d
          | none =>
            if ncalled == 0 then s!"OK {base}-nocalls"
            else s!"OK {base}{if anyErr then "-err" else ""}"
        | _, _ => s!"DIFF {base} malformed-call-sections"
      go { heap := heap0, pool := pool } calls callSecs 0 false 0 ((wdBad secs).map fun w => s!"DIFF {base} {w}")
    | _, _, _ => "DIFF hist-bad cannot-parse-line"
  | _, [["parse-error", m]] => s!"OK hist-skipped-unparsable-definition-{m.take 30}"
  | _, _ => s!"DIFF hist-bad malformed-answer {" ".intercalate (rhs.take 3)}"

/-! ## `cc` lines: goroutines sharing one pool of transformers and transformers built from the same SRs
(harness/cmd/c10/cc.go).  The verdict is the Spec's "same result for the same input as a freshly built
transformer" on every concurrent answer; the model is not consulted (its interleaving is at call granularity,
`C10_pure_states`; `C10_datum_never_written` is the single-call invariant behind it). -/
def judgeCC (rhs : Tok) : String :=
  match rhs with
  | ["cc", "ok", n] => if n == "0" then "OK cc-nocalls" else "OK cc-pool"
  | "cc" :: "diff" :: rest =>
    s!"SPEC cc-pool concurrent-call-differs-from-fresh-transformer {" ".intercalate rest}"
  | ["parse-error", m] => s!"OK cc-skipped-unparsable-definition-{m.take 30}"
  | _ => s!"DIFF cc-bad malformed-answer {" ".intercalate (rhs.take 3)}"

def judgeLine (line : String) : String :=
  let (lhs, rhs) := splitArrow (tokens line)
  match lhs with
  | "gt" :: kind :: gt => judgeGT kind gt rhs
  | "h" :: rest => judgeHist ("h" :: rest) rhs
  | "cc" :: _ => judgeCC rhs
  | _ => "DIFF bad unknown-line-kind"

end GeomV.C10

open GeomV GeomV.C10 in
def main (args : List String) : IO Unit := do
  let out ← IO.getStdout
  match args with
  | ["judge"] => forEachLine fun l => out.putStrLn (judgeLine l)
  | _ => IO.eprintln "usage: geomv_c10 judge"
