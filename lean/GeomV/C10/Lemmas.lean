import GeomV.C10.Model
import GeomV.C10.Spec
/-!
Helper lemmas for C10, part 1 (Geom.Transform): the loops of the model equal the specification's
structural map; facts about `mapAll`, `vertices` and `shape`.
-/
set_option linter.unusedSimpArgs false
set_option linter.unusedVariables false
namespace GeomV.C10
open GeomV GeomV.C10.Spec

variable {E α : Type}

/-- a transformer error seen by the caller of `Transform` -/
def lift {β : Type} : Except E β → Except (Fail E) β
  | .ok b => .ok b
  | .error e => .error (.err e)

theorem ptsT_eq (t : TF E α) (l : List (Pt α)) : ptsT t l = lift (mapAll t l) := by
  induction l with
  | nil => rfl
  | cons p ps ih =>
    simp only [ptsT, mapAll, callT, ih]
    cases t p <;> simp [lift]
    cases mapAll t ps <;> simp [lift]

theorem multiPointLoop_eq (t : TF E α) (l : List (Pt α)) : multiPointLoop t l = lift (mapAll t l) := by
  induction l with
  | nil => rfl
  | cons p ps ih =>
    simp only [multiPointLoop, mapAll, pointT, callT, ih]
    cases t p <;> simp [lift, asPoint]
    cases mapAll t ps <;> simp [lift]

theorem ringsT_eq (t : TF E α) (rs : List (List (Pt α))) : ringsT t rs = lift (mapRings t rs) := by
  induction rs with
  | nil => rfl
  | cons r rs ih =>
    simp only [ringsT, mapRings, ptsT_eq, ih]
    cases mapAll t r <;> simp [lift]
    cases mapRings t rs <;> simp [lift]

theorem multiLineLoop_eq (t : TF E α) (ls : List (List (Pt α))) : multiLineLoop t ls = lift (mapRings t ls) := by
  induction ls with
  | nil => rfl
  | cons l ls ih =>
    simp only [multiLineLoop, mapRings, lineStringT, ptsT_eq, ih]
    cases mapAll t l <;> simp [lift, asLine]
    cases mapRings t ls <;> simp [lift]

theorem multiPolyLoop_eq (t : TF E α) (ps : List (List (List (Pt α)))) :
    multiPolyLoop t ps = lift (mapPolys t ps) := by
  induction ps with
  | nil => rfl
  | cons p ps ih =>
    simp only [multiPolyLoop, mapPolys, polygonT, ringsT_eq, ih]
    cases mapRings t p <;> simp [lift, asPoly]
    cases mapPolys t ps <;> simp [lift]

mutual
/-- the model of `g.Transform(t)` (t ≠ nil) is the structural map, errors lifted; no panic -/
theorem transformS_eq (t : TF E α) (g : Geom α) (h : noNil g = true) :
    transformS t g = lift (mapVertices t g) := by
  cases g with
  | point p => simp only [transformS, pointT, callT, mapVertices]; cases t p <;> simp [lift]
  | multiPoint ps => simp only [transformS, multiPointLoop_eq, mapVertices]; cases mapAll t ps <;> simp [lift]
  | lineString ps => simp only [transformS, lineStringT, ptsT_eq, mapVertices]; cases mapAll t ps <;> simp [lift]
  | multiLineString ls => simp only [transformS, multiLineLoop_eq, mapVertices]; cases mapRings t ls <;> simp [lift]
  | polygon rs => simp only [transformS, polygonT, ringsT_eq, mapVertices]; cases mapRings t rs <;> simp [lift]
  | multiPolygon ps => simp only [transformS, multiPolyLoop_eq, mapVertices]; cases mapPolys t ps <;> simp [lift]
  | collection gs =>
    have := collLoop_eq t gs (by simpa [noNil] using h)
    simp only [transformS, this, mapVertices]; cases mapVerticesL t gs <;> simp [lift]
  | bounds mn mx =>
    simp only [transformS, boundsT, polygonT, ringsT_eq, mapVertices, boundsRing]
    cases mapRings t [[mn, ⟨mx.x, mn.y⟩, mx, ⟨mn.x, mx.y⟩]] <;> simp [lift]
  | nil => simp [noNil] at h
theorem collLoop_eq (t : TF E α) (gs : List (Geom α)) (h : noNilL gs = true) :
    collLoop t gs = lift (mapVerticesL t gs) := by
  cases gs with
  | nil => rfl
  | cons g gs =>
    simp [noNilL] at h
    simp only [collLoop, mapVerticesL, transformS_eq t g h.1, collLoop_eq t gs h.2]
    cases mapVertices t g <;> simp [lift]
    cases mapVerticesL t gs <;> simp [lift]
end

/-! ### `mapAll` over concatenations, shapes -/

theorem mapAll_append (t : TF E α) (a b : List (Pt α)) :
    mapAll t (a ++ b) =
      match mapAll t a with
      | .error e => .error e
      | .ok qa => match mapAll t b with
        | .error e => .error e
        | .ok qb => .ok (qa ++ qb) := by
  induction a with
  | nil => simp [mapAll]; cases mapAll t b <;> rfl
  | cons p ps ih =>
    simp only [List.cons_append, mapAll, ih]
    cases t p <;> simp
    cases mapAll t ps <;> simp
    cases mapAll t b <;> simp

/-- coordinates erased -/
def er (l : List (Pt α)) : List (Pt Unit) := l.map fun _ => ⟨(), ()⟩

theorem mapAll_er (t : TF E α) (l q : List (Pt α)) (h : mapAll t l = .ok q) : er q = er l := by
  induction l generalizing q with
  | nil => simp [mapAll] at h; subst h; rfl
  | cons p ps ih =>
    simp only [mapAll] at h
    cases hp : t p with
    | error e => simp [hp] at h
    | ok p' =>
      cases hq : mapAll t ps with
      | error e => simp [hp, hq] at h
      | ok q' =>
        simp [hp, hq] at h; subst h
        simp [er] at *; exact ih q' hq

theorem mapRings_ok (t : TF E α) (rs qs : List (List (Pt α))) (h : mapRings t rs = .ok qs) :
    qs.map er = rs.map er ∧ mapAll t rs.flatten = .ok qs.flatten := by
  induction rs generalizing qs with
  | nil => simp [mapRings] at h; subst h; simp [mapAll]
  | cons r rs ih =>
    simp only [mapRings] at h
    cases hr : mapAll t r with
    | error e => simp [hr] at h
    | ok q =>
      cases hq : mapRings t rs with
      | error e => simp [hr, hq] at h
      | ok q' =>
        simp [hr, hq] at h; subst h
        obtain ⟨h1, h2⟩ := ih q' hq
        simp [List.flatten_cons, mapAll_append, hr, h2, h1, mapAll_er t r q hr]

theorem mapRings_err (t : TF E α) (rs : List (List (Pt α))) (e : E) (h : mapRings t rs = .error e) :
    mapAll t rs.flatten = .error e := by
  induction rs with
  | nil => simp [mapRings] at h
  | cons r rs ih =>
    simp only [mapRings] at h
    cases hr : mapAll t r with
    | error e' => simp [hr] at h; subst h; simp [List.flatten_cons, mapAll_append, hr]
    | ok q =>
      cases hq : mapRings t rs with
      | error e' => simp [hr, hq] at h; subst h; simp [List.flatten_cons, mapAll_append, hr, ih hq]
      | ok q' => simp [hr, hq] at h

theorem mapPolys_ok (t : TF E α) (ps qs : List (List (List (Pt α)))) (h : mapPolys t ps = .ok qs) :
    qs.map (·.map er) = ps.map (·.map er) ∧ mapAll t ps.flatten.flatten = .ok qs.flatten.flatten := by
  induction ps generalizing qs with
  | nil => simp [mapPolys] at h; subst h; simp [mapAll]
  | cons p ps ih =>
    simp only [mapPolys] at h
    cases hr : mapRings t p with
    | error e => simp [hr] at h
    | ok q =>
      cases hq : mapPolys t ps with
      | error e => simp [hr, hq] at h
      | ok q' =>
        simp [hr, hq] at h; subst h
        obtain ⟨h1, h2⟩ := ih q' hq
        obtain ⟨h3, h4⟩ := mapRings_ok t p q hr
        simp [List.flatten_cons, List.flatten_append, mapAll_append, h1, h2, h3, h4]

theorem mapPolys_err (t : TF E α) (ps : List (List (List (Pt α)))) (e : E) (h : mapPolys t ps = .error e) :
    mapAll t ps.flatten.flatten = .error e := by
  induction ps with
  | nil => simp [mapPolys] at h
  | cons p ps ih =>
    simp only [mapPolys] at h
    cases hr : mapRings t p with
    | error e' =>
      simp [hr] at h; subst h
      simp [List.flatten_cons, List.flatten_append, mapAll_append, mapRings_err t p _ hr]
    | ok q =>
      obtain ⟨_, h4⟩ := mapRings_ok t p q hr
      cases hq : mapPolys t ps with
      | error e' =>
        simp [hr, hq] at h; subst h
        simp [List.flatten_cons, List.flatten_append, mapAll_append, h4, ih hq]
      | ok q' => simp [hr, hq] at h

end GeomV.C10

namespace GeomV.C10
open GeomV GeomV.C10.Spec
variable {E α : Type}

theorem shape_polygon (rs : List (List (Pt α))) : shape (.polygon rs) = .polygon (rs.map er) := by
  simp [shape, norm, Geom.map, er]
theorem shape_multiLineString (rs : List (List (Pt α))) : shape (.multiLineString rs) = .multiLineString (rs.map er) := by
  simp [shape, norm, Geom.map, er]
theorem shape_multiPolygon (ps : List (List (List (Pt α)))) :
    shape (.multiPolygon ps) = .multiPolygon (ps.map (·.map er)) := by
  simp [shape, norm, Geom.map, er]
theorem shape_multiPoint (ps : List (Pt α)) : shape (.multiPoint ps) = .multiPoint (er ps) := by
  simp [shape, norm, Geom.map, er]
theorem shape_lineString (ps : List (Pt α)) : shape (.lineString ps) = .lineString (er ps) := by
  simp [shape, norm, Geom.map, er]
theorem shape_bounds (mn mx : Pt α) : shape (.bounds mn mx) = .polygon [er (boundsRing mn mx)] := by
  simp [shape, norm, Geom.map, er]
theorem shape_collection (gs : List (Geom α)) :
    shape (.collection gs) = .collection (Geom.mapList (fun _ => ()) (normL gs)) := by
  simp [shape, norm, Geom.map]

mutual
theorem mapVertices_ok (t : TF E α) (g g' : Geom α) (h : mapVertices t g = .ok g') :
    shape g' = shape g ∧ mapAll t (vertices g) = .ok (vertices g') := by
  cases g with
  | point p =>
    simp only [mapVertices] at h
    cases hp : t p with
    | error e => simp [hp] at h
    | ok q => simp [hp] at h; subst h; simp [shape, norm, Geom.map, vertices, mapAll, hp]
  | multiPoint ps =>
    simp only [mapVertices] at h
    cases hp : mapAll t ps with
    | error e => simp [hp] at h
    | ok q => simp [hp] at h; subst h; simp [shape_multiPoint, vertices, hp, mapAll_er t ps q hp]
  | lineString ps =>
    simp only [mapVertices] at h
    cases hp : mapAll t ps with
    | error e => simp [hp] at h
    | ok q => simp [hp] at h; subst h; simp [shape_lineString, vertices, hp, mapAll_er t ps q hp]
  | multiLineString ls =>
    simp only [mapVertices] at h
    cases hp : mapRings t ls with
    | error e => simp [hp] at h
    | ok q =>
      simp [hp] at h; subst h
      obtain ⟨h1, h2⟩ := mapRings_ok t ls q hp
      simp [shape_multiLineString, vertices, h1, h2]
  | polygon ls =>
    simp only [mapVertices] at h
    cases hp : mapRings t ls with
    | error e => simp [hp] at h
    | ok q =>
      simp [hp] at h; subst h
      obtain ⟨h1, h2⟩ := mapRings_ok t ls q hp
      simp [shape_polygon, vertices, h1, h2]
  | multiPolygon ps =>
    simp only [mapVertices] at h
    cases hp : mapPolys t ps with
    | error e => simp [hp] at h
    | ok q =>
      simp [hp] at h; subst h
      obtain ⟨h1, h2⟩ := mapPolys_ok t ps q hp
      simp [shape_multiPolygon, vertices, h1, h2]
  | collection gs =>
    simp only [mapVertices] at h
    cases hp : mapVerticesL t gs with
    | error e => simp [hp] at h
    | ok q =>
      simp [hp] at h; subst h
      obtain ⟨h1, h2⟩ := mapVerticesL_ok t gs q hp
      simp [shape_collection, vertices, h1, h2]
  | bounds mn mx =>
    simp only [mapVertices] at h
    cases hp : mapRings t [boundsRing mn mx] with
    | error e => simp [hp] at h
    | ok q =>
      simp [hp] at h; subst h
      obtain ⟨h1, h2⟩ := mapRings_ok t _ q hp
      simp at h1 h2
      simp [shape_polygon, shape_bounds, vertices, h1, h2]
  | nil => simp [mapVertices] at h; subst h; simp [shape, norm, Geom.map, vertices, mapAll]
theorem mapVerticesL_ok (t : TF E α) (gs gs' : List (Geom α)) (h : mapVerticesL t gs = .ok gs') :
    Geom.mapList (fun _ => ()) (normL gs') = Geom.mapList (fun _ => ()) (normL gs) ∧
      mapAll t (verticesL gs) = .ok (verticesL gs') := by
  cases gs with
  | nil => simp [mapVerticesL] at h; subst h; simp [normL, Geom.mapList, verticesL, mapAll]
  | cons g gs =>
    simp only [mapVerticesL] at h
    cases hg : mapVertices t g with
    | error e => simp [hg] at h
    | ok g1 =>
      cases hr : mapVerticesL t gs with
      | error e => simp [hg, hr] at h
      | ok r =>
        simp [hg, hr] at h; subst h
        obtain ⟨h1, h2⟩ := mapVertices_ok t g g1 hg
        obtain ⟨h3, h4⟩ := mapVerticesL_ok t gs r hr
        simp [shape] at h1
        simp [normL, Geom.mapList, verticesL, mapAll_append, h1, h2, h3, h4]
end

mutual
theorem mapVertices_err (t : TF E α) (g : Geom α) (e : E) (h : mapVertices t g = .error e) :
    mapAll t (vertices g) = .error e := by
  cases g with
  | point p =>
    simp only [mapVertices] at h
    cases hp : t p with
    | error e' => simp [hp] at h; subst h; simp [vertices, mapAll, hp]
    | ok q => simp [hp] at h
  | multiPoint ps =>
    simp only [mapVertices] at h
    cases hp : mapAll t ps with
    | error e' => simp [hp] at h; subst h; simp [vertices, hp]
    | ok q => simp [hp] at h
  | lineString ps =>
    simp only [mapVertices] at h
    cases hp : mapAll t ps with
    | error e' => simp [hp] at h; subst h; simp [vertices, hp]
    | ok q => simp [hp] at h
  | multiLineString ls =>
    simp only [mapVertices] at h
    cases hp : mapRings t ls with
    | error e' => simp [hp] at h; subst h; simp [vertices, mapRings_err t ls _ hp]
    | ok q => simp [hp] at h
  | polygon ls =>
    simp only [mapVertices] at h
    cases hp : mapRings t ls with
    | error e' => simp [hp] at h; subst h; simp [vertices, mapRings_err t ls _ hp]
    | ok q => simp [hp] at h
  | multiPolygon ps =>
    simp only [mapVertices] at h
    cases hp : mapPolys t ps with
    | error e' => simp [hp] at h; subst h; simp [vertices, mapPolys_err t ps _ hp]
    | ok q => simp [hp] at h
  | collection gs =>
    simp only [mapVertices] at h
    cases hp : mapVerticesL t gs with
    | error e' => simp [hp] at h; subst h; simp [vertices, mapVerticesL_err t gs _ hp]
    | ok q => simp [hp] at h
  | bounds mn mx =>
    simp only [mapVertices] at h
    cases hp : mapRings t [boundsRing mn mx] with
    | error e' =>
      simp [hp] at h; subst h
      have := mapRings_err t _ _ hp
      simpa [vertices] using this
    | ok q => simp [hp] at h
  | nil => simp [mapVertices] at h
theorem mapVerticesL_err (t : TF E α) (gs : List (Geom α)) (e : E) (h : mapVerticesL t gs = .error e) :
    mapAll t (verticesL gs) = .error e := by
  cases gs with
  | nil => simp [mapVerticesL] at h
  | cons g gs =>
    simp only [mapVerticesL] at h
    cases hg : mapVertices t g with
    | error e' => simp [hg] at h; subst h; simp [verticesL, mapAll_append, mapVertices_err t g _ hg]
    | ok g1 =>
      obtain ⟨_, h2⟩ := mapVertices_ok t g g1 hg
      cases hr : mapVerticesL t gs with
      | error e' =>
        simp [hg, hr] at h; subst h
        simp [verticesL, mapAll_append, h2, mapVerticesL_err t gs _ hr]
      | ok r => simp [hg, hr] at h
end

/-- first failure: the vertices before `v` succeed and `t v` fails -/
theorem mapAll_first_fail (t : TF E α) (pre post : List (Pt α)) (v : Pt α) (e : E)
    (hpre : ∀ p ∈ pre, ∃ q, t p = .ok q) (hv : t v = .error e) :
    mapAll t (pre ++ v :: post) = .error e := by
  induction pre with
  | nil => simp [mapAll, hv]
  | cons p ps ih =>
    obtain ⟨q, hq⟩ := hpre p (by simp)
    have := ih (fun x hx => hpre x (by simp [hx]))
    simp [mapAll, hq, this]

theorem mapAll_get (t : TF E α) (l q : List (Pt α)) (h : mapAll t l = .ok q) (i : Nat) (hi : i < l.length) :
    ∃ v, q[i]? = some v ∧ t l[i] = .ok v := by
  induction l generalizing q i with
  | nil => simp at hi
  | cons p ps ih =>
    simp only [mapAll] at h
    cases hp : t p with
    | error e => simp [hp] at h
    | ok p' =>
      cases hq : mapAll t ps with
      | error e => simp [hp, hq] at h
      | ok q' =>
        simp [hp, hq] at h; subst h
        cases i with
        | zero => exact ⟨p', by simp, by simpa using hp⟩
        | succ j =>
          obtain ⟨v, h1, h2⟩ := ih q' hq j (by simpa using hi)
          exact ⟨v, by simpa using h1, by simpa using h2⟩

end GeomV.C10
