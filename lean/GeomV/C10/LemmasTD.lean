import GeomV.C10.TransformerD
import GeomV.C10.LemmasD
/-! The state-threading machine (`TransformerD.lean`) equals the functional one (`Transformer.lean`) when the
datum step has the frame property. -/
set_option linter.unusedSimpArgs false
set_option linter.unusedVariables false
namespace GeomV.C10
open GeomV

section
variable {F P Err σ : Type} [FOps F]

/-- the functional core obtained by evaluating the datum step on a fixed state -/
def coreAt (c : Core F P Err) (dtS : σ → Nat → Nat → F → F → F → σ × Except (Fail Err) (F × F × F)) (st : σ) :
    Core F P Err :=
  { c with dt := fun s d x y z => (dtS st s d x y z).2 }

/-- frame: the datum step leaves its state as it found it -/
def DtFrame (dtS : σ → Nat → Nat → F → F → F → σ × Except (Fail Err) (F × F × F)) : Prop :=
  ∀ st s d x y z, (dtS st s d x y z).1 = st

theorem bodyS_eq (c : Core F P Err) (dtS : σ → Nat → Nat → F → F → F → σ × Except (Fail Err) (F × F × F))
    (hf : DtFrame dtS) (st : σ) (s d : Nat) (S D : SR F P) (x y z : F) :
    bodyS c dtS st s d S D x y z = (st, body (coreAt c dtS st) s d S D x y z) := by
  unfold bodyS body
  simp only [coreAt]
  cases axisPart c.axisErr S.axis false x y with
  | error e => rfl
  | ok xy =>
    obtain ⟨x1, y1⟩ := xy
    simp only []
    generalize (if S.longlat = true then Except.ok (FOps.mul x1 FOps.deg2rad, FOps.mul y1 FOps.deg2rad)
      else c.inv S.p (FOps.mul x1 S.toMeter) (FOps.mul y1 S.toMeter) : Except Err (F × F)) = r
    cases r with
    | error e => rfl
    | ok xy2 =>
      obtain ⟨x2, y2⟩ := xy2
      simp only []
      congr 1
      exact hf _ _ _ _ _ _

theorem stepNoHopS_eq (c : Core F P Err) (dtS : σ → Nat → Nat → F → F → F → σ × Except (Fail Err) (F × F × F))
    (hf : DtFrame dtS) (h : Heap F P) (st : σ) (s d : Nat) (x y z : F) :
    stepNoHopS c dtS h st s d x y z =
      ((stepNoHop (coreAt c dtS st) h s d x y z).1, st, (stepNoHop (coreAt c dtS st) h s d x y z).2) := by
  unfold stepNoHopS stepNoHop
  have hi : ∀ h i, initAt (coreAt c dtS st) h i = initAt c h i := fun _ _ => rfl
  simp only [hi]
  cases (initAt c h s).2 with
  | some e => rfl
  | none =>
    simp only []
    cases (initAt c (initAt c h s).1 d).2 with
    | some e => rfl
    | none => simp only [bodyS_eq c dtS hf]

theorem stepS_eq (c : Core F P Err) (dtS : σ → Nat → Nat → F → F → F → σ × Except (Fail Err) (F × F × F))
    (hf : DtFrame dtS) (wgs : Nat) (h : Heap F P) (st : σ) (tr : Tr) (x y : F) :
    stepS c dtS wgs h st tr x y =
      ((step (coreAt c dtS st) wgs h tr x y).1, st, (step (coreAt c dtS st) wgs h tr x y).2) := by
  unfold stepS step
  by_cases hh : needsHop h tr.src tr.dst = true
  · simp only [hh, if_true, stepNoHopS_eq c dtS hf]
    cases (stepNoHop (coreAt c dtS st) h tr.src wgs x y FOps.zero).2 <;> rfl
  · simp only [hh, if_false, stepNoHopS_eq c dtS hf]
    rfl

theorem runHistS_eq (c : Core F P Err) (dtS : σ → Nat → Nat → F → F → F → σ × Except (Fail Err) (F × F × F))
    (hf : DtFrame dtS) (wgs : Nat) (st : σ) (hist : List (Nat × F × F)) (s : TState F P) :
    runHistS c dtS wgs s st hist =
      ((runHist (coreAt c dtS st) wgs s hist).1, st, (runHist (coreAt c dtS st) wgs s hist).2) := by
  induction hist generalizing s with
  | nil => rfl
  | cons q rest ih =>
    obtain ⟨k, x, y⟩ := q
    simp only [runHistS, runHist, call, stepS_eq c dtS hf, ih]

end

section
variable {F P R Err Err0 : Type}

theorem datumStep_frame (o : DOps F R Err0) (dmap : Nat → Nat) (conv : Err0 → Err) :
    DtFrame (datumStep (Err := Err) o dmap conv) := by
  intro st s d x y z
  exact datumTransformM_heap o st (dmap s) (dmap d) (x, y, z)

end
end GeomV.C10
