import GeomV.C17.DecMono
/-!
# Soundness of the shortest-literal test `Dec.isShortest`

If `isShortest l` holds, no literal of the same sign with FEWER significant digits than the normalised
`l` rounds to the same binary64 — "shortest round-trip decimal form" as a theorem about the run-time test
the driver applies to every number token of every encoder output.
-/
namespace GeomV.Dec

theorem litToBits_some (l : Lit) (h : l.scale.natAbs ≤ 5000) : ∃ u, litToBits l = some u := by
  unfold litToBits
  rw [if_neg (by omega)]
  exact ⟨_, rfl⟩

theorem ten_zpow_pos (e : ℤ) : (0 : ℚ) < (10 : ℚ) ^ e := by positivity

/-- equal sign, equal magnitude bits ⇒ equal patterns -/
theorem u64_eq_of_parts {u v : UInt64} (h1 : u.toNat / 2 ^ 63 = v.toNat / 2 ^ 63)
    (h2 : u.toNat % 2 ^ 63 = v.toNat % 2 ^ 63) : u = v := by
  apply UInt64.toNat_inj.mp
  omega

/-- magnitudes of two literals of equal sign that round to the same pattern are ordered like … nothing:
helper — the magnitude bits of a non-zero literal -/
theorem litToBits_mag (l : Lit) (u : UInt64) (h : litToBits l = some u) (hm : l.mant ≠ 0) :
    IsRNE (magVal l) (u.toNat % 2 ^ 63) := (litToBits_sound l u h).2.2 hm

theorem litToBits_sign (l : Lit) (u : UInt64) (h : litToBits l = some u) :
    u.toNat / 2 ^ 63 = if l.neg then 1 else 0 := (litToBits_sound l u h).1

/-- the one-digit-shorter neighbours bracket every shorter decimal -/
theorem shorter_outside (M s M' s' : ℤ) (p : ℕ) (hM' : 0 < M') (hlt : M' < 10 ^ p) (hle : (10 : ℤ) ^ p ≤ M) :
    (M' : ℚ) * (10 : ℚ) ^ s' ≤ ((M / 10 : ℤ) : ℚ) * (10 : ℚ) ^ (s + 1) ∨
    (((M / 10 : ℤ) : ℚ) + 1) * (10 : ℚ) ^ (s + 1) ≤ (M' : ℚ) * (10 : ℚ) ^ s' := by
  have hp : 1 ≤ p := by
    rcases Nat.eq_zero_or_pos p with h | h
    · subst h; simp at hlt; omega
    · exact h
  by_cases hs : s + 1 ≤ s'
  · -- v' is an integer multiple of 10^(s+1)
    obtain ⟨j, hj⟩ := Int.eq_ofNat_of_zero_le (show 0 ≤ s' - (s + 1) by omega)
    have hs' : s' = (j : ℤ) + (s + 1) := by omega
    have hv : (M' : ℚ) * (10 : ℚ) ^ s' = ((M' * 10 ^ j : ℤ) : ℚ) * (10 : ℚ) ^ (s + 1) := by
      rw [hs', zpow_add₀ (by norm_num : (10 : ℚ) ≠ 0), zpow_natCast]; push_cast; ring
    rw [hv]
    rcases le_or_gt (M' * 10 ^ j) (M / 10) with h | h
    · left
      exact mul_le_mul_of_nonneg_right (by exact_mod_cast h) (ten_zpow_pos _).le
    · right
      have : M / 10 + 1 ≤ M' * 10 ^ j := by omega
      exact mul_le_mul_of_nonneg_right (by exact_mod_cast this) (ten_zpow_pos _).le
  · left
    have h1 : (10 : ℚ) ^ s' ≤ (10 : ℚ) ^ s := zpow_le_zpow_right₀ (by norm_num) (by omega)
    have h2 : (M' : ℚ) < (10 : ℚ) ^ p := by exact_mod_cast hlt
    have h3 : (10 : ℤ) ^ (p - 1) ≤ M / 10 := by
      have : (10 : ℤ) ^ p = 10 ^ (p - 1) * 10 := by
        rw [← pow_succ]; congr 1; omega
      rw [this] at hle
      omega
    have h3q : (10 : ℚ) ^ (p - 1) ≤ ((M / 10 : ℤ) : ℚ) := by exact_mod_cast h3
    have h4 : (10 : ℚ) ^ p * (10 : ℚ) ^ s = (10 : ℚ) ^ (p - 1) * (10 : ℚ) ^ (s + 1) := by
      rw [zpow_add₀ (by norm_num : (10 : ℚ) ≠ 0)]
      have : (10 : ℚ) ^ p = 10 ^ (p - 1) * 10 := by rw [← pow_succ]; congr 1; omega
      rw [this]; ring
    have hM'q : (0 : ℚ) < M' := by exact_mod_cast hM'
    calc (M' : ℚ) * (10 : ℚ) ^ s' ≤ (M' : ℚ) * (10 : ℚ) ^ s := mul_le_mul_of_nonneg_left h1 hM'q.le
      _ ≤ (10 : ℚ) ^ p * (10 : ℚ) ^ s := mul_le_mul_of_nonneg_right h2.le (ten_zpow_pos _).le
      _ = (10 : ℚ) ^ (p - 1) * (10 : ℚ) ^ (s + 1) := h4
      _ ≤ ((M / 10 : ℤ) : ℚ) * (10 : ℚ) ^ (s + 1) := mul_le_mul_of_nonneg_right h3q (ten_zpow_pos _).le

theorem ndigits_le_one (m : Nat) (h : ndigits m ≤ 1) : m < 10 := by
  unfold ndigits at h
  split at h
  · omega
  · have := (Nat.length_toDigits_le_iff (b := 10) (n := m) (k := 1) (by norm_num) (by norm_num)).mp h
    simpa using this

/-- **soundness of `isShortest`** (stated for an already normalised literal `L`, i.e. for `normLit l`,
which is what `isShortest l` inspects): no literal `l'` whose mantissa has fewer decimal
digits than `L`'s (`0 < l'.mant < 10^p ≤ L.mant`) is converted to the same binary64. -/
theorem isShortest_sound (l : Lit) (h : isShortest l = true) (hs : (normLit l).scale.natAbs < 5000)
    (l' : Lit) (p : ℕ) (hpos : 0 < l'.mant)
    (hlt : l'.mant < 10 ^ p) (hle : 10 ^ p ≤ (normLit l).mant)
    (u : UInt64) (hu' : litToBits l' = some u) : litToBits (normLit l) ≠ some u := by
  intro hu
  set L := normLit l with hL
  have hp : 1 ≤ p := by
    rcases Nat.eq_zero_or_pos p with h0 | h0
    · subst h0; simp at hlt; omega
    · exact h0
  have hM10 : 10 ≤ L.mant := by
    calc 10 = 10 ^ 1 := by norm_num
      _ ≤ 10 ^ p := Nat.pow_le_pow_right (by norm_num) hp
      _ ≤ L.mant := hle
  have hnd : ¬ ndigits L.mant ≤ 1 := fun hc => by have := ndigits_le_one _ hc; omega
  -- unfold the test
  have h' : (litToBits ⟨L.neg, L.mant / 10, L.scale + 1⟩ != litToBits L &&
      litToBits ⟨L.neg, L.mant / 10 + 1, L.scale + 1⟩ != litToBits L) = true := by
    have := h
    unfold isShortest at this
    simp only [← hL, if_neg hnd] at this
    exact this
  rw [Bool.and_eq_true, bne_iff_ne, bne_iff_ne, hu] at h'
  obtain ⟨hlo, hhi⟩ := h'
  obtain ⟨ulo, hulo⟩ := litToBits_some ⟨L.neg, L.mant / 10, L.scale + 1⟩ (by simp only; omega)
  obtain ⟨uhi, huhi⟩ := litToBits_some ⟨L.neg, L.mant / 10 + 1, L.scale + 1⟩ (by simp only; omega)
  rw [hulo] at hlo
  rw [huhi] at hhi
  have hlo' : ulo ≠ u := fun e => hlo (by rw [e])
  have hhi' : uhi ≠ u := fun e => hhi (by rw [e])
  -- magnitudes
  have rL := litToBits_mag L u hu (by omega)
  have r' := litToBits_mag l' u hu' (by omega)
  have rlo := litToBits_mag _ ulo hulo (show L.mant / 10 ≠ 0 by omega)
  have rhi := litToBits_mag _ uhi huhi (show L.mant / 10 + 1 ≠ 0 by omega)
  have sL := litToBits_sign L u hu
  have slo := litToBits_sign _ ulo hulo
  have shi := litToBits_sign _ uhi huhi
  simp only at slo shi
  -- values
  have vlo_le : magVal ⟨L.neg, L.mant / 10, L.scale + 1⟩ ≤ magVal L := by
    unfold magVal; simp only
    rw [zpow_add₀ (by norm_num : (10 : ℚ) ≠ 0)]
    have : ((L.mant / 10 : ℕ) : ℚ) * 10 ≤ L.mant := by
      have : L.mant / 10 * 10 ≤ L.mant := Nat.div_mul_le_self _ _
      exact_mod_cast this
    have hz := (ten_zpow_pos L.scale).le
    calc ((L.mant / 10 : ℕ) : ℚ) * ((10 : ℚ) ^ L.scale * (10 : ℚ) ^ (1 : ℤ))
        = (((L.mant / 10 : ℕ) : ℚ) * 10) * (10 : ℚ) ^ L.scale := by rw [zpow_one]; ring
      _ ≤ L.mant * (10 : ℚ) ^ L.scale := mul_le_mul_of_nonneg_right this hz
  have vhi_ge : magVal L ≤ magVal ⟨L.neg, L.mant / 10 + 1, L.scale + 1⟩ := by
    unfold magVal; simp only
    rw [zpow_add₀ (by norm_num : (10 : ℚ) ≠ 0)]
    have : (L.mant : ℚ) ≤ ((L.mant / 10 + 1 : ℕ) : ℚ) * 10 := by
      have : L.mant ≤ (L.mant / 10 + 1) * 10 := by omega
      exact_mod_cast this
    have hz := (ten_zpow_pos L.scale).le
    calc (L.mant : ℚ) * (10 : ℚ) ^ L.scale ≤ (((L.mant / 10 + 1 : ℕ) : ℚ) * 10) * (10 : ℚ) ^ L.scale :=
          mul_le_mul_of_nonneg_right this hz
      _ = ((L.mant / 10 + 1 : ℕ) : ℚ) * ((10 : ℚ) ^ L.scale * (10 : ℚ) ^ (1 : ℤ)) := by rw [zpow_one]; ring
  have hout := shorter_outside (L.mant : ℤ) L.scale (l'.mant : ℤ) l'.scale p (by exact_mod_cast hpos)
    (by exact_mod_cast hlt) (by exact_mod_cast hle)
  have hdiv : (((L.mant : ℤ) / 10 : ℤ) : ℚ) = ((L.mant / 10 : ℕ) : ℚ) := by norm_cast
  rw [hdiv] at hout
  rcases hout with hcase | hcase
  · -- v' ≤ vlo ≤ v
    have e1 : magVal l' ≤ magVal ⟨L.neg, L.mant / 10, L.scale + 1⟩ := by
      unfold magVal; simp only; exact_mod_cast hcase
    have m1 := IsRNE.mono e1 r' rlo
    have m2 := IsRNE.mono vlo_le rlo rL
    exact hlo' (u64_eq_of_parts (by rw [slo, sL]) (by omega))
  · have e1 : magVal ⟨L.neg, L.mant / 10 + 1, L.scale + 1⟩ ≤ magVal l' := by
      unfold magVal; simp only; push_cast; exact_mod_cast hcase
    have m1 := IsRNE.mono e1 rhi r'
    have m2 := IsRNE.mono vhi_ge rL rhi
    exact hhi' (u64_eq_of_parts (by rw [shi, sL]) (by omega))

/-- normalisation (trailing zeros of the mantissa moved into the scale) keeps sign and value -/
theorem normLit_go_val (f m : Nat) (s : Int) :
    ((normLit.go f m s).1 : ℚ) * (10 : ℚ) ^ (normLit.go f m s).2 = (m : ℚ) * (10 : ℚ) ^ s := by
  induction f generalizing m s with
  | zero => rfl
  | succ f ih =>
    unfold normLit.go
    split
    · rename_i h
      simp only [Bool.and_eq_true, decide_eq_true_eq] at h
      rw [ih, zpow_add₀ (by norm_num : (10 : ℚ) ≠ 0), zpow_one]
      have : m / 10 * 10 = m := Nat.div_mul_cancel (Nat.dvd_of_mod_eq_zero h.2)
      have hq : ((m / 10 : ℕ) : ℚ) * 10 = m := by exact_mod_cast this
      calc ((m / 10 : ℕ) : ℚ) * ((10 : ℚ) ^ s * 10) = (((m / 10 : ℕ) : ℚ) * 10) * (10 : ℚ) ^ s := by ring
        _ = (m : ℚ) * (10 : ℚ) ^ s := by rw [hq]
    · rfl

theorem magVal_normLit (l : Lit) : magVal (normLit l) = magVal l ∧ (normLit l).neg = l.neg :=
  ⟨normLit_go_val 400 l.mant l.scale, rfl⟩

end GeomV.Dec
